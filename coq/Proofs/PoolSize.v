(* History-level theorems about the parent-side pool model asked for by the audit
   docs/audit/c09c10c11.md:
     C09  "never above the configured size" as an invariant of all reachable states,
          the lifted supervision-pass theorem (clean pass), no exited worker left in the list;
     C11  the restart limiter at pool level: its invariant in every reachable state, exactly
          which events touch it and how a pass charges it, the window budget for passes and
          for histories of passes (derived from RestartProofs.window_budget). *)
From Coq Require Import ZArith List Bool Lia ZifyBool.
From BV Require Import Lib.Cases Model.LaxSem Model.Restart Model.Pool
     Proofs.LaxSemProofs Proofs.RestartProofs Proofs.PoolJobs Proofs.PoolInv Proofs.PoolTick
     Proofs.PoolSup Proofs.PoolIdx Proofs.PoolSem.
Import ListNotations.
Open Scope Z_scope.

(* ================================================================ vocabulary *)
(* the worker is being stopped on purpose (shrink / terminate_job set this flag); exactly the
   test Pool.shrink uses to skip such workers (Pool.inactive) *)
Definition ctl (s : pool) (p : Z) : bool :=
  match get_proc s p with Some q => controlled q | None => false end.

(* the workers of the pool list that are not being stopped *)
Definition uncontrolled (s : pool) : list Z := filter (fun p => negb (ctl s p)) (wlist s).

Definition ctab (s : pool) : list bool := map controlled (procs s).
Definition ctl_of (tab : list bool) (p : Z) : bool :=
  if p <? 0 then false else nth (Z.to_nat p) tab false.

Lemma ctl_tab s p : ctl s p = ctl_of (ctab s) p.
Proof.
  unfold ctl, ctl_of, ctab, get_proc. destruct (p <? 0); [reflexivity|].
  destruct (nth_error (procs s) (Z.to_nat p)) as [q|] eqn:E.
  - symmetry. apply nth_error_nth. rewrite nth_error_map, E. reflexivity.
  - symmetry. apply nth_overflow. rewrite map_length. apply nth_error_None. exact E.
Qed.

Lemma uncontrolled_tab s :
  uncontrolled s = filter (fun p => negb (ctl_of (ctab s) p)) (wlist s).
Proof. unfold uncontrolled. apply filter_ext_eq. intros p. rewrite ctl_tab. reflexivity. Qed.

(* what the size invariant reads *)
Definition cwn (s : pool) := (wlist s, ctab s, nprocs s).
(* ... and the limiter *)
Definition fr (s : pool) := (cwn s, rst s).

Lemma cwn_uncontrolled s s' : cwn s' = cwn s -> uncontrolled s' = uncontrolled s /\ nprocs s' = nprocs s.
Proof.
  unfold cwn. intros H. inversion H as [[Hw Hc Hn]]. rewrite !uncontrolled_tab, Hw, Hc. auto.
Qed.

Lemma map_upd_nth {A B} (g : A -> B) (f : A -> A) :
  (forall q, g (f q) = g q) -> forall l n, map g (upd_nth n f l) = map g l.
Proof.
  intros Hf. induction l as [|a l IH]; intros [|n]; cbn; try reflexivity.
  - rewrite Hf. reflexivity.
  - rewrite IH. reflexivity.
Qed.

Lemma ctab_set_proc s p f : (forall q, controlled (f q) = controlled q) -> ctab (set_proc s p f) = ctab s.
Proof.
  intros Hf. unfold ctab, set_proc. cbn [procs]. destruct (p <? 0); [reflexivity|].
  apply map_upd_nth. exact Hf.
Qed.

Lemma ctab_deliver s p sg l : ctab (deliver s p sg l) = ctab s.
Proof.
  unfold deliver. rewrite ctab_set_proc; [reflexivity|].
  intros q. destruct (pexit q); [reflexivity|]. destruct (sg =? SIGKILL); [reflexivity|].
  destruct ((sg =? SIGTERM) && negb l); reflexivity.
Qed.

Lemma fr_deliver s p sg l : fr (deliver s p sg l) = fr s.
Proof. unfold fr, cwn. rewrite ctab_deliver. reflexivity. Qed.

Lemma fr_scan_job l s j : fr (scan_job l s j) = fr s.
Proof.
  unfold scan_job. destruct (get_job s j) as [x|]; [|reflexivity].
  destruct (kind x); try reflexivity. destruct (time_accepted x) as [t|]; [|reflexivity].
  destruct (timed_out s (Some t) (eff_hard s x)).
  - unfold on_hard. destruct (ready x); [reflexivity|].
    destruct (owner x) as [p|]; [|reflexivity].
    destruct (in_pool _ p); [|reflexivity].
    destruct (negb (exit_of _ p =? 0) && exited _ p); rewrite ?fr_deliver; reflexivity.
  - destruct (negb (memZ j (dirty s)) && timed_out s (Some t) (eff_soft s x)); [|reflexivity].
    change (fr (with_dirty ?a ?b)) with (fr a). unfold on_soft. destruct (ready x); [reflexivity|].
    destruct (owner x) as [p|]; [|reflexivity]. destruct (in_pool s p); [|reflexivity].
    rewrite fr_deliver. reflexivity.
Qed.

(* the events that touch neither the worker list, nor a `controlled` flag, nor the configured
   size, nor the restart limiter *)
Definition frame_event (e : event) : bool :=
  match e with
  | ETick | ETickClose _ | EJoinShutdown | ETerminateJob _ _ | EShrink _ | EGrow _
  | EAck _ _ _ | EStaleAck _ => false
  | _ => true
  end.

Lemma fr_step s e : frame_event e = true -> fr (fst (step s e)) = fr s.
Proof.
  intros He. destruct e; try discriminate; unfold step; cbn [fst]; try reflexivity.
  - unfold do_apply.
    destruct (negb (pstate (with_sigs s []) =? 0)); [reflexivity|].
    destruct ((match slot with Some b => b | None => putlocks (with_sigs s []) end) && (LaxSem.value (sem (with_sigs s [])) =? 0)); [reflexivity|]. cbn [fst].
    destruct (match slot with Some b => b | None => putlocks (with_sigs s []) end); reflexivity.
  - unfold do_map. destruct (negb (pstate (with_sigs s []) =? 0)); reflexivity.
  - unfold do_imap. destruct (negb (pstate (with_sigs s []) =? 0)); reflexivity.
  - unfold do_imap. destruct (negb (pstate (with_sigs s []) =? 0)); reflexivity.
  - change (fr (fst (do_feed (with_sigs s []) fail_at io)) = fr (with_sigs s [])).
    generalize (with_sigs s []). intros s0. unfold do_feed.
    assert (Hft : forall fuel i j k fa io0 s1, fr (fst (fst (feed_tasks fuel i j k fa io0 s1))) = fr s1).
    { induction fuel as [|f IH]; intros; cbn [feed_tasks]; [reflexivity|].
      destruct (okey_eqb (Some k) fa); [|apply IH]. destruct io0; [reflexivity|].
      rewrite IH. destruct (cached s1 j) as [x|]; [|reflexivity].
      destruct (kind x); try reflexivity. destruct (ready x); reflexivity. }
    assert (Hfs : forall fs k fa io0 s1, fr (fst (fst (do_feeds fs k fa io0 s1))) = fr s1).
    { induction fs as [|[[j n] sl] r IH]; intros; cbn [do_feeds]; [reflexivity|].
      pose proof (Hft (Z.to_nat n) 0 j k fa io0 s1) as H0.
      destruct (feed_tasks (Z.to_nat n) 0 j k fa io0 s1) as [[s2 k2] st]. cbn [fst] in H0.
      destruct st; [exact H0|].
      destruct sl.
      - destruct (get_job s2 j) as [x|].
        + destruct (snd (set_length x n)); cbn [fst]; [exact H0|]. rewrite IH. exact H0.
        + rewrite IH. exact H0.
      - rewrite IH. exact H0. }
    pose proof (Hfs (feeds s0) 0 fail_at io s0) as H0.
    destruct (do_feeds (feeds s0) 0 fail_at io s0) as [[s1 rest] r]. cbn [fst] in *. rewrite <- H0. reflexivity.
  - unfold do_ready. destruct (cached _ j) as [x|]; [|reflexivity]. cbn [fst].
    change (fr (set_job ?a ?b ?c)) with (fr a). unfold bump_counter.
    destruct (ready x); destruct (worker_pids x) as [|p0 l0]; try reflexivity;
      destruct (in_pool _ p0); try reflexivity; unfold fr, cwn; cbn [wlist nprocs rst with_sem set_proc];
        try (change (ctab (with_sem ?a ?b)) with (ctab a)); rewrite ctab_set_proc; reflexivity.
  - rewrite fr_deliver. reflexivity.
  - unfold fr, cwn. cbn [wlist nprocs rst set_proc]. rewrite ctab_set_proc; [reflexivity|].
    intros q. destruct (pexit q); reflexivity.
  - change (fr (fst (do_scan (with_sigs s []) lingers)) = fr (with_sigs s [])).
    generalize (with_sigs s []). intros s0. unfold do_scan.
    destruct (negb (scanner s0)); [reflexivity|]. cbn [fst].
    assert (Hfold : forall snap s1, fr (fold_left (scan_job lingers) snap s1) = fr s1).
    { induction snap as [|j snap IH]; intros s1; cbn; [reflexivity|]. rewrite IH. apply fr_scan_job. }
    rewrite Hfold. reflexivity.
  - destruct (negb (scanner _)); reflexivity.
  - destruct (scan_todo _) as [|j0 r0]; cbn [fst]; [reflexivity|].
    change (fr (with_todo ?a ?b)) with (fr a). rewrite fr_scan_job. reflexivity.
  - unfold do_close. destruct (pstate _ =? 0); reflexivity.
  - unfold do_next. destruct (get_job _ j) as [x|]; [|reflexivity].
    destruct (negb (is_imap x)); [reflexivity|].
    destruct (items x); [destruct (okey_eqb _ _)|]; reflexivity.
  - unfold do_apply_q, do_apply.
    destruct (negb (pstate (with_sigs s []) =? 0)); [reflexivity|].
    destruct ((match slot with Some b => b | None => putlocks (with_sigs s []) end) && (LaxSem.value (sem (with_sigs s [])) =? 0)); [reflexivity|]. cbn [fst].
    destruct (match slot with Some b => b | None => putlocks (with_sigs s []) end); reflexivity.
  - unfold do_apply_unsendable. destruct (negb (pstate _ =? 0)); [reflexivity|]. destruct (_ && _); reflexivity.
Qed.

(* acknowledgements touch the limiter only *)
Lemma cwn_ack s j i p : cwn (fst (step s (EAck j i p))) = cwn s.
Proof.
  unfold step, do_ack. destruct (cached _ j) as [x|]; [|reflexivity].
  destruct (kind x); try reflexivity. destruct i; reflexivity.
Qed.
Lemma cwn_stale_ack s p : cwn (fst (step s (EStaleAck p))) = cwn s.
Proof. reflexivity. Qed.

(* ================================================================ 1. C09 "never above" *)
Definition cnt (s : pool) : Z := Z.of_nat (length (uncontrolled s)).

Lemma filter_length_mono {A} (f g : A -> bool) l :
  (forall a, In a l -> f a = true -> g a = true) ->
  (length (filter f l) <= length (filter g l))%nat.
Proof.
  induction l as [|a l IH]; intros H; cbn; [lia|].
  assert (IH' : (length (filter f l) <= length (filter g l))%nat)
    by (apply IH; intros b Hb; apply H; right; exact Hb).
  destruct (f a) eqn:Ef.
  - rewrite (H a (or_introl eq_refl) Ef). cbn. lia.
  - destruct (g a); cbn; lia.
Qed.

Lemma filter_length_strict {A} (f g : A -> bool) l p :
  (forall a, In a l -> f a = true -> g a = true) ->
  In p l -> g p = true -> f p = false ->
  (length (filter f l) < length (filter g l))%nat.
Proof.
  induction l as [|a l IH]; intros H Hin Hg Hf; [destruct Hin|]. cbn.
  assert (Hm : (length (filter f l) <= length (filter g l))%nat)
    by (apply filter_length_mono; intros b Hb; apply H; right; exact Hb).
  destruct Hin as [->|Hin].
  - rewrite Hg, Hf. cbn. lia.
  - assert (IH' : (length (filter f l) < length (filter g l))%nat)
      by (apply IH; auto; intros b Hb; apply H; right; exact Hb).
    destruct (f a) eqn:Ef.
    + rewrite (H a (or_introl eq_refl) Ef). cbn. lia.
    + destruct (g a); cbn; lia.
Qed.

Lemma filter_length_le_all {A} (f : A -> bool) l : (length (filter f l) <= length l)%nat.
Proof. induction l as [|a l IH]; cbn; [lia|]. destruct (f a); cbn; lia. Qed.

Lemma get_proc_set_proc s p f q :
  get_proc (set_proc s p f) q = if q =? p then option_map f (get_proc s q) else get_proc s q.
Proof.
  unfold get_proc, set_proc. cbn [procs].
  destruct (q <? 0) eqn:Eq; [destruct (q =? p); reflexivity|].
  destruct (p <? 0) eqn:Ep; [replace (q =? p) with false by lia; reflexivity|].
  destruct (q =? p) eqn:E.
  - assert (q = p) by lia. subst q.
    destruct (nth_error (procs s) (Z.to_nat p)) as [x|] eqn:En.
    + rewrite (nth_upd_nth_same f _ _ _ En). reflexivity.
    + cbn. apply nth_error_None. rewrite length_upd_nth. apply nth_error_None. exact En.
  - apply nth_upd_nth_other. lia.
Qed.

Lemma ctl_deliver s p sg l q : ctl (deliver s p sg l) q = ctl s q.
Proof. rewrite !ctl_tab, ctab_deliver. reflexivity. Qed.

(* a worker flagged `controlled` stays flagged; the flagged one is flagged *)
Lemma ctl_mark s p f q :
  (forall x, controlled (f x) = true) ->
  ctl (set_proc s p f) q = if q =? p then (match get_proc s q with Some _ => true | None => false end) else ctl s q.
Proof.
  intros Hf. unfold ctl. rewrite get_proc_set_proc. destruct (q =? p); [|reflexivity].
  destruct (get_proc s q); cbn; [apply Hf|reflexivity].
Qed.

Lemma valid_get_proc s p : 0 <= p < Z.of_nat (length (procs s)) -> exists q, get_proc s p = Some q.
Proof.
  intros H. unfold get_proc. replace (p <? 0) with false by lia.
  destruct (nth_error (procs s) (Z.to_nat p)) as [q|] eqn:E; [eauto|].
  apply nth_error_None in E. lia.
Qed.

(* ---- terminate_job *)
Lemma cnt_terminate_job s p sg :
  cnt (fst (do_terminate_job s p sg)) <= cnt s /\ nprocs (fst (do_terminate_job s p sg)) = nprocs s.
Proof.
  unfold do_terminate_job. destruct (in_pool s p); cbn [fst]; [|split; [lia|reflexivity]].
  split; [|reflexivity]. unfold cnt, uncontrolled.
  change (wlist (set_proc ?a ?b ?c)) with (wlist a).
  change (wlist (deliver ?a ?b ?c ?d)) with (wlist a).
  apply Nat2Z.inj_le. apply filter_length_mono. intros q _ Hq.
  rewrite ctl_mark in Hq by reflexivity. rewrite ctl_deliver in Hq.
  destruct (q =? p); [|exact Hq].
  unfold ctl. destruct (get_proc (deliver s p _ false) q) eqn:E; [discriminate|].
  assert (Hc : ctl (deliver s p (match py_or sg (Some SIGTERM) with Some v => v | None => SIGTERM end) false) q = false)
    by (unfold ctl; rewrite E; reflexivity).
  rewrite ctl_deliver in Hc. unfold ctl in Hc. rewrite Hc. reflexivity.
Qed.

(* ---- shrink: every victim lowers the size by one and leaves the unflagged workers *)
Lemma cnt_shrink_loop : forall ws i n s,
    NoDup ws ->
    (forall q, In q ws -> In q (wlist s) /\ ctl s q = false /\ 0 <= q < Z.of_nat (length (procs s))) ->
    cnt (fst (shrink_loop ws i n s)) - nprocs (fst (shrink_loop ws i n s)) <= cnt s - nprocs s.
Proof.
  induction ws as [|p r IH]; intros i n s Hnd Hv; cbn [shrink_loop fst]; [lia|].
  match goal with |- cnt (fst (if ?c then (?a, _) else _)) - _ <= _ => set (s1 := a) end.
  inversion Hnd as [|x xs Hnotin Hnd']; subst.
  destruct (Hv p (or_introl eq_refl)) as (Hin & Hc & Hval).
  assert (Hw1 : wlist s1 = wlist s) by reflexivity.
  assert (Hn1 : nprocs s1 = nprocs s - 1) by reflexivity.
  assert (Hl1 : length (procs s1) = length (procs s)).
  { unfold s1. rewrite procs_len_deliver, procs_len_set_proc. reflexivity. }
  assert (Hctl : forall q, ctl s1 q = if q =? p then true else ctl s q).
  { intros q. unfold s1. rewrite ctl_deliver, ctl_mark by reflexivity.
    destruct (q =? p) eqn:E; [|reflexivity].
    assert (q = p) by lia. subst q.
    destruct (valid_get_proc s p Hval) as (x & Hx).
    change (get_proc (with_sem (with_nprocs s (nprocs s - 1)) _) p) with (get_proc s p).
    rewrite Hx. reflexivity. }
  assert (Hcnt : cnt s1 + 1 <= cnt s).
  { unfold cnt, uncontrolled. rewrite Hw1.
    assert (H : (length (filter (fun q => negb (ctl s1 q)) (wlist s))
                 < length (filter (fun q => negb (ctl s q)) (wlist s)))%nat).
    { apply (filter_length_strict _ _ _ p).
      - intros q _ Hq. rewrite Hctl in Hq. destruct (q =? p); [discriminate|exact Hq].
      - exact Hin.
      - rewrite Hc. reflexivity.
      - rewrite Hctl, Z.eqb_refl. reflexivity. }
    lia. }
  destruct (n - 1 <=? i); cbn [fst]; [lia|].
  assert (H := IH (i + 1) n s1 Hnd').
  assert (Hv1 : forall q, In q r -> In q (wlist s1) /\ ctl s1 q = false /\ 0 <= q < Z.of_nat (length (procs s1))).
  { intros q Hq. destruct (Hv q (or_intror Hq)) as (A & B & C). rewrite Hw1, Hl1, Hctl.
    split; [exact A|]. split; [|exact C].
    destruct (q =? p) eqn:E; [|exact B]. exfalso. assert (q = p) by lia. subst q. auto. }
  specialize (H Hv1). lia.
Qed.

Lemma WInv_wlist_nodup s : WInv s -> NoDup (wlist s).
Proof. intros [H _]. apply NoDup_map_inv in H. exact H. Qed.

Lemma cnt_shrink s n :
  WInv s ->
  cnt (fst (do_shrink s n)) - nprocs (fst (do_shrink s n)) <= cnt s - nprocs s.
Proof.
  intros Hw. unfold do_shrink. destruct (inactive s) as [|w ws] eqn:Ei; [cbn [fst]; lia|].
  destruct (LaxSem.value (sem s) <? _); [cbn [fst]; lia|].
  rewrite <- Ei. apply cnt_shrink_loop.
  - unfold inactive. apply NoDup_filter. apply WInv_wlist_nodup. exact Hw.
  - intros q Hq. unfold inactive in Hq. apply filter_In in Hq. destruct Hq as [Hin Hf].
    split; [exact Hin|]. split; [|apply (proj2 Hw); exact Hin].
    apply andb_true_iff in Hf. destruct Hf as [_ Hf]. apply negb_true_iff in Hf. exact Hf.
Qed.

(* ---- the supervision pass *)
Lemma ctl_start_worker s ix q : ctl (start_worker s ix) q = ctl s q.
Proof.
  unfold ctl, get_proc. cbn [procs start_worker]. destruct (q <? 0); [reflexivity|].
  destruct (nth_error (procs s) (Z.to_nat q)) as [x|] eqn:E.
  - rewrite nth_error_app1 by (apply nth_error_Some; congruence). rewrite E. reflexivity.
  - apply nth_error_None in E. rewrite nth_error_app2 by exact E.
    destruct (Z.to_nat q - length (procs s))%nat as [|k]; cbn; [reflexivity|].
    destruct k; reflexivity.
Qed.

Lemma cnt_start_worker s ix : cnt (start_worker s ix) <= cnt s + 1.
Proof.
  unfold cnt, uncontrolled. cbn [wlist start_worker].
  rewrite (filter_ext_eq _ (fun p => negb (ctl s p))) by (intros a; rewrite ctl_start_worker; reflexivity).
  rewrite filter_app, app_length. cbn [filter].
  destruct (negb (ctl s (Z.of_nat (length (procs s))))); cbn [length]; lia.
Qed.

Lemma cnt_repopulate : forall fuel i codes s,
    cnt (fst (repopulate fuel i codes s)) <= cnt s + Z.of_nat fuel.
Proof.
  induction fuel as [|f IH]; intros i codes s; cbn [repopulate]; [cbn [fst]; lia|].
  destruct (negb (pstate s =? 0)); [cbn [fst]; lia|].
  match goal with |- context [if ?c then Restart.step (rst s) (now s) else (rst s, false)] =>
    destruct (if c then Restart.step (rst s) (now s) else (rst s, false)) as [r raised] end.
  change (cnt s) with (cnt (with_rst s r)).
  destruct raised; [cbn [fst]; lia|].
  destruct (avail_index (with_rst s r)) as [ix|]; [|cbn [fst]; lia].
  specialize (IH (S i) codes (start_worker (with_rst s r) ix)).
  pose proof (cnt_start_worker (with_rst s r) ix). lia.
Qed.

Lemma nprocs_repopulate fuel i codes s : nprocs (fst (repopulate fuel i codes s)) = nprocs s.
Proof. pose proof (sn_repopulate fuel i codes s) as H. unfold sn in H. congruence. Qed.

Lemma cnt_join_exited s :
  cnt (fst (join_exited s)) <= cnt s
  /\ cnt (fst (join_exited s)) <= Z.of_nat (length (wlist (fst (join_exited s))))
  /\ nprocs (fst (join_exited s)) = nprocs s.
Proof.
  destruct (join_exited_shape s) as (Hw & Hn & _).
  pose proof (procs_join_exited s) as Hp.
  assert (Hc : forall q, ctl (fst (join_exited s)) q = ctl s q)
    by (intros q; unfold ctl, get_proc; rewrite Hp; reflexivity).
  unfold cnt, uncontrolled. rewrite Hw.
  rewrite (filter_ext_eq _ (fun p => negb (ctl s p))) by (intros a; rewrite Hc; reflexivity).
  split; [|split; [|exact Hn]].
  - apply Nat2Z.inj_le. unfold kept. generalize (wlist s). intros l.
    induction l as [|a l IH]; cbn; [lia|].
    destruct (negb (exited s a)); cbn; destruct (negb (ctl s a)); cbn; lia.
  - apply Nat2Z.inj_le. apply filter_length_le_all.
Qed.

(* the replacement loop run with at most `missing` iterations from the state the reaping step
   leaves never takes the unflagged workers above the size *)
Lemma cnt_pass s1 fuel i codes :
  cnt s1 <= nprocs s1 -> cnt s1 <= Z.of_nat (length (wlist s1)) ->
  (fuel <= Z.to_nat (nprocs s1 - Z.of_nat (length (wlist s1))))%nat ->
  cnt (fst (repopulate fuel i codes s1)) <= nprocs (fst (repopulate fuel i codes s1)).
Proof.
  intros H1 H2 Hf. rewrite nprocs_repopulate. pose proof (cnt_repopulate fuel i codes s1). lia.
Qed.

Lemma cnt_do_tick s : cnt s <= nprocs s -> cnt (fst (do_tick s)) <= nprocs (fst (do_tick s)).
Proof.
  intros H. unfold do_tick. destruct (cnt_join_exited s) as (A & B & C).
  destruct (join_exited s) as [s1 codes]. cbn [fst] in *.
  pose proof (cnt_pass s1 (Z.to_nat (nprocs s1 - Z.of_nat (length (wlist s1)))) 0 codes ltac:(lia) B ltac:(lia)) as Hp.
  destruct (repopulate _ 0 codes s1) as [s2 r]. cbn [fst] in Hp.
  destruct r; cbn [fst]; exact Hp.
Qed.

Lemma cnt_do_tick_close s k :
  cnt s <= nprocs s -> cnt (fst (do_tick_close s k)) <= nprocs (fst (do_tick_close s k)).
Proof.
  intros H. pose proof (cnt_do_tick s H) as Ht. unfold do_tick_close.
  destruct (cnt_join_exited s) as (A & B & C).
  destruct (join_exited s) as [s1 codes]. cbn [fst] in *.
  destruct (Z.to_nat (nprocs s1 - Z.of_nat (length (wlist s1))) <=? k)%nat eqn:E; [exact Ht|].
  apply Nat.leb_gt in E.
  pose proof (cnt_pass s1 (S k) 0 codes ltac:(lia) B ltac:(lia)) as Hp.
  destruct (repopulate (S k) 0 codes s1) as [s2 r]. cbn [fst] in Hp.
  destruct r; cbn [fst]; try exact Hp.
  unfold release_n, do_close. destruct (pstate s2 =? 0); exact Hp.
Qed.

Lemma cnt_do_join_shutdown s :
  cnt s <= nprocs s -> cnt (fst (do_join_shutdown s)) <= nprocs (fst (do_join_shutdown s)).
Proof.
  intros H. unfold do_join_shutdown. destruct (wlist s) eqn:Ew; cbn [fst].
  - exact H.
  - destruct (cnt_join_exited s) as (A & _ & C). lia.
Qed.

(* ---- every event *)
Definition SzInv (s : pool) : Prop := WInv s /\ cnt s <= nprocs s.

Theorem SzInv_step s e :
  0 <= match e with EGrow n => n | _ => 0 end -> SzInv s -> SzInv (fst (step s e)).
Proof.
  intros Hg [Hw Hc]. split; [apply WInv_step; exact Hw|].
  destruct (frame_event e) eqn:Ef.
  - pose proof (f_equal fst (fr_step s e Ef)) as H1. unfold fr in H1. cbn [fst] in H1.
    destruct (cwn_uncontrolled _ _ H1) as [A B]. unfold cnt. rewrite A, B. exact Hc.
  - assert (Hw0 : WInv (with_sigs s [])) by exact Hw.
    assert (Hc0 : cnt (with_sigs s []) <= nprocs (with_sigs s [])) by exact Hc.
    destruct e; try discriminate; unfold step.
    + destruct (cwn_uncontrolled _ _ (cwn_ack s j i p)) as [A B]. unfold step in A, B.
      unfold cnt. rewrite A, B. exact Hc.
    + exact Hc.
    + apply cnt_do_tick. exact Hc0.
    + destruct (cnt_terminate_job (with_sigs s []) p sig) as [A B]. rewrite B. lia.
    + cbn [fst]. change (cnt (with_sem (with_nprocs (with_sigs s []) ?a) ?b)) with (cnt s).
      cbn [nprocs with_sem with_nprocs with_sigs]. cbn in Hg. lia.
    + pose proof (cnt_shrink (with_sigs s []) n Hw0). lia.
    + apply cnt_do_tick_close. exact Hc0.
    + apply cnt_do_join_shutdown. exact Hc0.
Qed.

Lemma cnt_start_n : forall n i s, cnt (start_n n i s) <= cnt s + Z.of_nat n /\ nprocs (start_n n i s) = nprocs s.
Proof.
  induction n as [|n IH]; intros i s; cbn [start_n]; [split; [lia|reflexivity]|].
  destruct (IH (i + 1) (start_worker s i)) as [A B]. pose proof (cnt_start_worker s i).
  split; [lia|]. rewrite B. reflexivity.
Qed.

Lemma SzInv_init c : 0 <= c_n c -> SzInv (init c).
Proof.
  intros Hn. split; [apply WInv_init; exact Hn|]. unfold init.
  match goal with |- cnt (start_n ?n 0 ?s0) <= _ => destruct (cnt_start_n n 0 s0) as [A B]; rewrite B end.
  cbn [nprocs]. change (cnt (mkpool [] [] [] _ _ _ _ _ _ _ _ _ _ _ _ _ _)) with 0 in A. lia.
Qed.

Lemma SzInv_run_from : forall tr s, grows_nonneg tr -> SzInv s -> SzInv (run_from s tr).
Proof.
  unfold run_from. induction tr as [|e tr IH]; intros s Hg H; cbn; [exact H|].
  inversion Hg as [|e' l' He Hl]; subst. apply IH; [exact Hl|]. apply SzInv_step; [|exact H].
  destruct e; lia.
Qed.

(* C09 "never above": in every reachable state -- any configuration, any history of
   submissions, results, exits, passes, scans, grow (by a non-negative count), shrink,
   terminate_job, close ... -- the workers of the pool list that are not being stopped are at
   most as many as the configured size (as adjusted by grow and shrink) *)
Theorem never_above_size c tr :
  0 <= c_n c -> grows_nonneg tr ->
  let s := run c tr in
  Z.of_nat (length (filter (fun p => negb (ctl s p)) (wlist s))) <= nprocs s.
Proof.
  intros Hn Hg. exact (proj2 (SzInv_run_from tr (init c) Hg (SzInv_init c Hn))).
Qed.

(* the whole list can be longer only by workers that are being stopped *)
Corollary size_exceeded_only_by_stopping_workers c tr :
  0 <= c_n c -> grows_nonneg tr ->
  let s := run c tr in
  Z.of_nat (length (wlist s)) <= nprocs s + Z.of_nat (length (filter (ctl s) (wlist s))).
Proof.
  intros Hn Hg s. pose proof (never_above_size c tr Hn Hg) as H. fold s in H. cbn zeta in H.
  assert (E : forall l, length l = (length (filter (fun p => negb (ctl s p)) l) + length (filter (ctl s) l))%nat).
  { induction l as [|a l IH]; cbn; [reflexivity|]. destruct (ctl s a); cbn; lia. }
  rewrite (E (wlist s)). lia.
Qed.

(* the hypothesis on grow is needed in the MODEL (EGrow n lowers the size for n < 0, whereas
   Pool.grow(n) is `for i in range(n)`, a no-op): *)
Example never_above_needs_nonneg_grow :
  let s := run (mkcfg 2 None None None None 1 false false) [EGrow (-1)] in
  (Z.of_nat (length (filter (fun p => negb (ctl s p)) (wlist s))), nprocs s) = (2, 1).
Proof. vm_compute. reflexivity. Qed.

(* non-vacuity: a history with shrink, grow, terminate_job, exits, close in the middle of a pass *)
Definition sz_cfg := mkcfg 3 None None None (Some 2) 100 false false.
Definition sz_tr : list event :=
  [EShrink 1; ETick; EGrow 2; ETick; ETerminateJob 4 None; ETick; EExit 1 1; EExit 2 0; EGrow 1;
   ETickClose 1; EJoinShutdown].
Example never_above_size_witness :
  grows_nonneg sz_tr /\
  let s := run sz_cfg sz_tr in
  (Z.of_nat (length (filter (fun p => negb (ctl s p)) (wlist s))), nprocs s, wlist s) = (4, 5, [3; 5; 6; 7]).
Proof.
  split; [repeat constructor; lia|]. vm_compute. reflexivity.
Qed.

(* ================================================================ what one pass does, exactly *)
(* the exit statuses the reaping step hands to the replacement loop, and how many workers
   the loop is asked to start *)
Definition pass_codes (s : pool) : list Z := map (exit_of s) (reaped s).
Definition missing (s : pool) : nat := Z.to_nat (nprocs s - Z.of_nat (length (kept s))).

(* iteration i of Pool._repopulate_pool consults the limiter iff some worker was reaped by this
   pass and either exitcodes[i] is neither 0 nor EX_RECYCLE, or there is no exitcodes[i]
   (IndexError: more workers are missing than were reaped) *)
Definition charged (codes : list Z) (i : nat) : bool :=
  match codes with
  | [] => false
  | _ => match nth_error codes i with Some c => negb (clean_code c) | None => true end
  end.

(* the replacement loop seen from the limiter: final limiter, number of workers started, and
   whether restart_state.step() raised (then nothing more is started) *)
Fixpoint lim_loop (fuel i : nat) (codes : list Z) (now : Z) (r : rs) : rs * nat * bool :=
  match fuel with
  | O => (r, O, false)
  | S f =>
    let (r1, raised) := if charged codes i then Restart.step r now else (r, false) in
    if raised then (r1, O, true)
    else let '(r2, n, b) := lim_loop f (S i) codes now r1 in (r2, S n, b)
  end.

Lemma lim_loop_started : forall fuel i codes now r r2 n b,
    lim_loop fuel i codes now r = (r2, n, b) ->
    (n <= fuel)%nat /\ (b = false -> n = fuel) /\ (b = true -> (n < fuel)%nat /\ charged codes (i + n) = true).
Proof.
  induction fuel as [|f IH]; intros i codes now r r2 n b H; cbn [lim_loop] in H.
  - inversion H; subst. split; [lia|]. split; [reflexivity|discriminate].
  - destruct (charged codes i) eqn:Ec.
    + destruct (Restart.step r now) as [r1 raised]. destruct raised.
      * inversion H; subst. split; [lia|]. split; [discriminate|]. intros _. split; [lia|].
        rewrite Nat.add_0_r. exact Ec.
      * destruct (lim_loop f (S i) codes now r1) as [[r2' n'] b'] eqn:El. inversion H; subst.
        destruct (IH _ _ _ _ _ _ _ El) as (A & B & C). split; [lia|]. split.
        -- intros Hb. rewrite (B Hb). reflexivity.
        -- intros Hb. destruct (C Hb) as [C1 C2]. split; [lia|]. rewrite <- C2. f_equal. lia.
    + destruct (lim_loop f (S i) codes now r) as [[r2' n'] b'] eqn:El. inversion H; subst.
      destruct (IH _ _ _ _ _ _ _ El) as (A & B & C). split; [lia|]. split.
      * intros Hb. rewrite (B Hb). reflexivity.
      * intros Hb. destruct (C Hb) as [C1 C2]. split; [lia|]. rewrite <- C2. f_equal. lia.
Qed.

(* Pool._repopulate_pool in RUN state, asked for no more workers than the size allows: it never
   fails to find a slot index (no AssertionError), the limiter ends as lim_loop says, the workers
   started are appended to the list with the next process numbers, and the call raises
   RestartFreqExceeded exactly when the limiter did *)
Lemma repopulate_spec : forall fuel i codes s,
    pstate s = 0 ->
    ((0 < fuel)%nat -> Z.of_nat (length (wlist s)) + Z.of_nat fuel <= nprocs s) ->
    forall r2 n b, lim_loop fuel i codes (now s) (rst s) = (r2, n, b) ->
    exists s', repopulate fuel i codes s = (s', if b then RExc 10 else RNone)
               /\ rst s' = r2
               /\ wlist s' = wlist s ++ map Z.of_nat (seq (length (procs s)) n)
               /\ length (procs s') = (length (procs s) + n)%nat
               /\ pstate s' = 0.
Proof.
  induction fuel as [|f IH]; intros i codes s Hp Hg r2 n b Hl.
  - cbn [lim_loop] in Hl. inversion Hl; subst. exists s. cbn [repopulate seq map].
    rewrite app_nil_r, Nat.add_0_r. auto.
  - cbn [lim_loop] in Hl. cbn [repopulate]. rewrite Hp. cbn [Z.eqb negb].
    match goal with |- context [if ?c then Restart.step (rst s) (now s) else (rst s, false)] =>
      change c with (charged codes i) end.
    destruct (if charged codes i then Restart.step (rst s) (now s) else (rst s, false)) as [r1 raised].
    destruct raised.
    + inversion Hl; subst. exists (with_rst s r2). cbn [seq map]. rewrite app_nil_r, Nat.add_0_r. auto.
    + assert (Hlt : Z.of_nat (length (wlist (with_rst s r1))) < nprocs (with_rst s r1))
        by (cbn [wlist nprocs with_rst]; specialize (Hg ltac:(lia)); lia).
      destruct (avail_index_ok _ Hlt) as (ix & Hix & _). rewrite Hix.
      destruct (lim_loop f (S i) codes (now s) r1) as [[r2' n'] b'] eqn:El. inversion Hl; subst.
      set (s1 := start_worker (with_rst s r1) ix).
      assert (Hp1 : pstate s1 = 0) by exact Hp.
      assert (Hg1 : (0 < f)%nat -> Z.of_nat (length (wlist s1)) + Z.of_nat f <= nprocs s1).
      { intros _. unfold s1. cbn [wlist nprocs start_worker with_rst]. rewrite app_length. cbn [length].
        specialize (Hg ltac:(lia)). lia. }
      destruct (IH (S i) codes s1 Hp1 Hg1 r2 n' b El) as (s' & E & A & B & C & D).
      exists s'. split; [exact E|]. split; [exact A|]. split; [|split; [|exact D]].
      * rewrite B. unfold s1. cbn [wlist procs start_worker with_rst]. rewrite app_length. cbn [length seq map].
        rewrite <- app_assoc. cbn [app]. rewrite Nat.add_1_r. reflexivity.
      * rewrite C. unfold s1. cbn [procs start_worker with_rst]. rewrite app_length. cbn [length]. lia.
Qed.

Lemma join_exited_fields s :
  wlist (fst (join_exited s)) = kept s /\ nprocs (fst (join_exited s)) = nprocs s
  /\ pstate (fst (join_exited s)) = pstate s /\ procs (fst (join_exited s)) = procs s
  /\ rst (fst (join_exited s)) = rst s /\ now (fst (join_exited s)) = now s
  /\ snd (join_exited s) = pass_codes s.
Proof.
  destruct (join_exited_shape s) as (A & B & C). pose proof (procs_join_exited s) as D.
  repeat (split; [assumption|]).
  unfold join_exited, pass_codes.
  set (s1 := mark_all_lost s).
  assert (Hp1 : procs s1 = procs s) by reflexivity.
  assert (Hr : filter (exited s1) (rev (wlist s1)) = reaped s).
  { unfold reaped. apply filter_ext_eq. apply exited_procs. exact Hp1. }
  rewrite Hr.
  assert (Hm : map (exit_of s1) (reaped s) = map (exit_of s) (reaped s))
    by (apply map_ext; apply exit_of_procs; exact Hp1).
  destruct (reaped s) as [|c0 cl0]; cbn [fst snd rst now]; [auto|]. rewrite Hm. auto.
Qed.

(* one supervision pass in RUN state *)
Theorem tick_spec s :
  pstate s = 0 ->
  forall r2 n b, lim_loop (missing s) 0 (pass_codes s) (now s) (rst s) = (r2, n, b) ->
  exists s', do_tick s = (s', if b then RExc 10 else RNone)
             /\ rst s' = r2
             /\ wlist s' = kept s ++ map Z.of_nat (seq (length (procs s)) n)
             /\ length (procs s') = (length (procs s) + n)%nat
             /\ nprocs s' = nprocs s
             /\ jobs s' = map (tick_job s) (jobs s).
Proof.
  intros Hp r2 n b Hl.
  pose proof (tick_jobs s) as Hj.
  unfold do_tick in *. destruct (join_exited_fields s) as (A & B & C & D & E & F & G).
  destruct (join_exited s) as [s1 codes]. cbn [fst snd] in A, B, C, D, E, F, G. subst codes.
  assert (Hm : Z.to_nat (nprocs s1 - Z.of_nat (length (wlist s1))) = missing s)
    by (unfold missing; rewrite A, B; reflexivity).
  rewrite Hm in *.
  assert (Hg : (0 < missing s)%nat -> Z.of_nat (length (wlist s1)) + Z.of_nat (missing s) <= nprocs s1)
    by (unfold missing; rewrite A, B; lia).
  rewrite <- F, <- E in Hl.
  assert (Hp1 : pstate s1 = 0) by (rewrite C; exact Hp).
  destruct (repopulate_spec (missing s) 0 (pass_codes s) s1 Hp1 Hg r2 n b Hl)
    as (s2 & E2 & R2 & W2 & P2 & _).
  pose proof (nprocs_repopulate (missing s) 0 (pass_codes s) s1) as N2.
  rewrite E2 in *. cbn [fst] in N2. rewrite A, D in W2. rewrite D in P2. rewrite B in N2.
  destruct b; cbn [fst] in Hj.
  - exists s2. repeat (split; [first [assumption|reflexivity]|]). exact Hj.
  - exists (release_n s2 (length (pass_codes s))). unfold release_n in *.
    cbn [rst wlist procs nprocs jobs with_sem] in *. repeat (split; [first [assumption|reflexivity]|]). exact Hj.
Qed.

(* ================================================================ 2. C09: the lifted pass theorem *)
Lemma charged_clean codes j :
  Forall (fun c => clean_code c = true) codes -> (codes = [] \/ (j < length codes)%nat) ->
  charged codes j = false.
Proof.
  intros Hc Hj. unfold charged. destruct codes as [|c0 cs]; [reflexivity|].
  destruct Hj as [Hj|Hj]; [discriminate|].
  destruct (nth_error (c0 :: cs) j) as [c|] eqn:E.
  - apply nth_error_In in E. rewrite Forall_forall in Hc. rewrite (Hc _ E). reflexivity.
  - apply nth_error_None in E. lia.
Qed.

Lemma lim_loop_uncharged : forall fuel i codes now r,
    (forall j, (i <= j < i + fuel)%nat -> charged codes j = false) ->
    lim_loop fuel i codes now r = (r, fuel, false).
Proof.
  induction fuel as [|f IH]; intros i codes now r H; cbn [lim_loop]; [reflexivity|].
  rewrite (H i) by lia. rewrite IH; [reflexivity|]. intros j Hj. apply H. lia.
Qed.

(* a job whose result has been handled is not touched by a pass (any kind of job) *)
Lemma tick_job_ready s x : ready x = true -> tick_job s x = x.
Proof.
  intros Hr. unfold tick_job, lost_due. rewrite Hr. cbn [negb]. rewrite andb_false_r. cbn [andb].
  destruct (reaped s); [reflexivity|]. destruct (incache x); [|reflexivity].
  unfold on_job_down. destruct (acked_by_gone _ _ x); [rewrite Hr|]; reflexivity.
Qed.

(* C09 "brought back to the configured size": in RUN state, a pass that reaps only workers that
   exited with status 0 or EX_RECYCLE, and has to start no more workers than it reaped (or reaps
   nobody: a pure grow), does not raise, does not consult the restart limiter, brings the list to
   exactly the configured size (or leaves it longer when shrink victims are still alive) by
   appending `missing` fresh workers, and leaves every job whose result was already handled
   exactly as it was *)
Theorem clean_pass s :
  pstate s = 0 ->
  Forall (fun c => clean_code c = true) (pass_codes s) ->
  (reaped s = [] \/ nprocs s - Z.of_nat (length (kept s)) <= Z.of_nat (length (reaped s))) ->
  exists s', do_tick s = (s', RNone)
             /\ Z.of_nat (length (wlist s')) = Z.max (nprocs s) (Z.of_nat (length (kept s)))
             /\ wlist s' = kept s ++ map Z.of_nat (seq (length (procs s)) (missing s))
             /\ nprocs s' = nprocs s
             /\ rst s' = rst s
             /\ (forall j x, get_job s j = Some x -> ready x = true -> get_job s' j = Some x).
Proof.
  intros Hp Hc Hm.
  assert (Hl : lim_loop (missing s) 0 (pass_codes s) (now s) (rst s) = (rst s, missing s, false)).
  { apply lim_loop_uncharged. intros j Hj. apply charged_clean; [exact Hc|].
    unfold pass_codes. rewrite map_length. destruct Hm as [Hm|Hm]; [left; rewrite Hm; reflexivity|].
    right. unfold missing in Hj. lia. }
  destruct (tick_spec s Hp _ _ _ Hl) as (s' & E & A & B & C & D & F).
  exists s'. split; [exact E|]. split; [|split; [exact B|split; [exact D|split; [exact A|]]]].
  - rewrite B, app_length, map_length, seq_length. unfold missing. lia.
  - intros j x Hg Hr. unfold get_job in *. rewrite F. destruct (j <? 0); [discriminate|].
    rewrite nth_error_map, Hg. cbn. rewrite tick_job_ready by exact Hr. reflexivity.
Qed.

(* ---- no exited worker is left in the list by a pass (any state, whatever the pass returns) *)
Definition NoEx (s : pool) : Prop := forall p, In p (wlist s) -> exited s p = false.

Lemma get_proc_start_worker s ix p :
  match get_proc s p with
  | Some q => get_proc (start_worker s ix) p = Some q
  | None => get_proc (start_worker s ix) p = None
            \/ get_proc (start_worker s ix) p = Some (mkproc (Z.of_nat (length (procs s))) ix None false false 0)
  end.
Proof.
  unfold get_proc. cbn [procs start_worker]. destruct (p <? 0); [left; reflexivity|].
  destruct (nth_error (procs s) (Z.to_nat p)) as [x|] eqn:E.
  - rewrite nth_error_app1 by (apply nth_error_Some; congruence). exact E.
  - apply nth_error_None in E. rewrite nth_error_app2 by exact E.
    destruct (Z.to_nat p - length (procs s))%nat as [|k]; cbn; [right; reflexivity|].
    left. destruct k; reflexivity.
Qed.

Lemma exited_start_worker s ix p : exited (start_worker s ix) p = exited s p.
Proof.
  unfold exited. pose proof (get_proc_start_worker s ix p) as H.
  destruct (get_proc s p) as [q|]; [rewrite H; reflexivity|].
  destruct H as [H|H]; rewrite H; reflexivity.
Qed.

Lemma exited_repopulate : forall fuel i codes s p,
    exited (fst (repopulate fuel i codes s)) p = exited s p.
Proof.
  induction fuel as [|f IH]; intros i codes s p; cbn [repopulate]; [reflexivity|].
  destruct (negb (pstate s =? 0)); [reflexivity|].
  match goal with |- context [if ?c then Restart.step (rst s) (now s) else (rst s, false)] =>
    destruct (if c then Restart.step (rst s) (now s) else (rst s, false)) as [r raised] end.
  destruct raised; [reflexivity|].
  destruct (avail_index (with_rst s r)) as [ix|]; [|reflexivity].
  rewrite IH, exited_start_worker. reflexivity.
Qed.

Lemma NoEx_repopulate : forall fuel i codes s, NoEx s -> NoEx (fst (repopulate fuel i codes s)).
Proof.
  induction fuel as [|f IH]; intros i codes s H; cbn [repopulate]; [exact H|].
  destruct (negb (pstate s =? 0)); [exact H|].
  match goal with |- context [if ?c then Restart.step (rst s) (now s) else (rst s, false)] =>
    destruct (if c then Restart.step (rst s) (now s) else (rst s, false)) as [r raised] end.
  destruct raised; [exact H|].
  destruct (avail_index (with_rst s r)) as [ix|]; [|exact H].
  apply IH. intros p Hin. rewrite exited_start_worker.
  cbn [wlist start_worker with_rst] in Hin. apply in_app_or in Hin. destruct Hin as [Hin|[<-|[]]].
  - apply (H p Hin).
  - unfold exited, get_proc. cbn [procs with_rst].
    replace (Z.of_nat (length (procs s)) <? 0) with false by lia. rewrite Nat2Z.id.
    replace (nth_error (procs s) (length (procs s))) with (@None proc); [reflexivity|].
    symmetry. apply nth_error_None. lia.
Qed.

Lemma NoEx_join_exited s : NoEx (fst (join_exited s)).
Proof.
  destruct (join_exited_fields s) as (A & _ & _ & D & _). intros p Hin. rewrite A in Hin.
  rewrite (exited_procs s _ D). unfold kept in Hin. apply filter_In in Hin.
  destruct Hin as [_ H]. apply negb_true_iff in H. exact H.
Qed.

Lemma NoEx_do_tick s : NoEx (fst (do_tick s)).
Proof.
  unfold do_tick. pose proof (NoEx_join_exited s) as H.
  destruct (join_exited s) as [s1 codes]. cbn [fst] in H.
  pose proof (NoEx_repopulate (Z.to_nat (nprocs s1 - Z.of_nat (length (wlist s1)))) 0 codes s1 H) as H2.
  destruct (repopulate _ 0 codes s1) as [s2 r]. cbn [fst] in H2. destruct r; cbn [fst]; exact H2.
Qed.

(* after a pass no worker whose exit has been recorded remains in the pool list ... *)
Theorem tick_no_exited_left s p q :
  In p (wlist (fst (do_tick s))) -> get_proc (fst (do_tick s)) p = Some q -> pexit q = None.
Proof.
  intros Hin Hg. pose proof (NoEx_do_tick s p Hin) as H. unfold exited in H. rewrite Hg in H.
  destruct (pexit q); [discriminate|reflexivity].
Qed.

(* ... in particular every worker the pass reaped is gone from it *)
Theorem tick_reaped_gone s p : In p (reaped s) -> ~ In p (wlist (fst (do_tick s))).
Proof.
  intros Hr Hin. pose proof (NoEx_do_tick s p Hin) as H.
  assert (He : exited (fst (do_tick s)) p = exited s p).
  { unfold do_tick. destruct (join_exited_fields s) as (_ & _ & _ & D & _).
    destruct (join_exited s) as [s1 codes]. cbn [fst] in D.
    pose proof (exited_repopulate (Z.to_nat (nprocs s1 - Z.of_nat (length (wlist s1)))) 0 codes s1 p) as H2.
    destruct (repopulate _ 0 codes s1) as [s2 r]. cbn [fst] in H2.
    rewrite <- (exited_procs s s1 D). destruct r; cbn [fst]; exact H2. }
  unfold reaped in Hr. apply filter_In in Hr. destruct Hr as [_ Hr]. congruence.
Qed.

(* ================================================================ 3. C11 at pool level *)
(* ---------------------------------------------------------------- (b) who touches the limiter *)
Definition limiter_event (e : event) : bool :=
  match e with ETick | ETickClose _ | EAck _ _ _ | EStaleAck _ => true | _ => false end.

Lemma rst_shrink_loop : forall ws i n s, rst (fst (shrink_loop ws i n s)) = rst s.
Proof.
  induction ws as [|p r IH]; intros i n s; cbn [shrink_loop fst]; [reflexivity|].
  destruct (n - 1 <=? i); cbn [fst]; [reflexivity|]. rewrite IH. reflexivity.
Qed.

Lemma rst_join_exited s : rst (fst (join_exited s)) = rst s.
Proof. apply (join_exited_fields s). Qed.

(* only supervision passes and acknowledgements ever touch the restart limiter *)
Theorem limiter_frame s e : limiter_event e = false -> rst (fst (step s e)) = rst s.
Proof.
  intros He. destruct (frame_event e) eqn:Ef.
  - exact (f_equal snd (fr_step s e Ef)).
  - destruct e; try discriminate; unfold step; cbn [fst].
    + unfold do_terminate_job. destruct (in_pool _ p); reflexivity.
    + reflexivity.
    + unfold do_shrink. destruct (inactive _) as [|w ws]; [reflexivity|].
      destruct (LaxSem.value _ <? _); [reflexivity|]. rewrite rst_shrink_loop. reflexivity.
    + unfold do_join_shutdown. destruct (wlist _); cbn [fst]; [reflexivity|].
      apply (rst_join_exited (with_sigs s [])).
Qed.

(* an acknowledgement -- also one for a job that is no longer in the cache -- resets R *)
Theorem ack_resets_limiter s j i p : rst (fst (step s (EAck j i p))) = Restart.ack (rst s).
Proof.
  unfold step, do_ack. destruct (cached _ j) as [x|]; [|reflexivity].
  destruct (kind x); try reflexivity. destruct i; reflexivity.
Qed.
Theorem stale_ack_resets_limiter s p : rst (fst (step s (EStaleAck p))) = Restart.ack (rst s).
Proof. reflexivity. Qed.

(* a pass outside RUN state (after close()/terminate()) replaces nobody and leaves the limiter alone *)
Lemma repopulate_not_running fuel i codes s : pstate s <> 0 -> repopulate fuel i codes s = (s, RNone).
Proof.
  intros Hp. destruct fuel; cbn [repopulate]; [reflexivity|].
  replace (pstate s =? 0) with false by lia. reflexivity.
Qed.

Theorem tick_not_running s :
  pstate s <> 0 ->
  snd (do_tick s) = RNone /\ rst (fst (do_tick s)) = rst s /\ wlist (fst (do_tick s)) = kept s
  /\ procs (fst (do_tick s)) = procs s.
Proof.
  intros Hp. unfold do_tick. destruct (join_exited_fields s) as (A & _ & C & D & E & _).
  destruct (join_exited s) as [s1 codes]. cbn [fst] in *.
  rewrite repopulate_not_running by congruence. cbn [fst snd]. unfold release_n.
  cbn [rst wlist procs with_sem]. auto.
Qed.

Lemma tick_close_not_running s k : pstate s <> 0 -> do_tick_close s k = do_tick s.
Proof.
  intros Hp. unfold do_tick_close, do_tick. destruct (join_exited_fields s) as (_ & _ & C & _).
  destruct (join_exited s) as [s1 codes]. cbn [fst] in *.
  destruct (_ <=? k)%nat; [reflexivity|]. rewrite !repopulate_not_running by congruence.
  unfold do_close. replace (pstate s1 =? 0) with false by lia. reflexivity.
Qed.

(* the pass during which close() is called from the start-up hook of its (k+1)-th worker *)
Theorem tick_close_spec s k :
  pstate s = 0 ->
  forall r2 n b,
    lim_loop (if (missing s <=? k)%nat then missing s else S k) 0 (pass_codes s) (now s) (rst s) = (r2, n, b) ->
    exists s', do_tick_close s k = (s', if b then RExc 10 else RNone)
               /\ rst s' = r2
               /\ wlist s' = kept s ++ map Z.of_nat (seq (length (procs s)) n)
               /\ length (procs s') = (length (procs s) + n)%nat
               /\ nprocs s' = nprocs s.
Proof.
  intros Hp r2 n b Hl. unfold do_tick_close.
  pose proof (tick_spec s Hp r2 n b) as Ht.
  destruct (join_exited_fields s) as (A & B & C & D & E & F & G).
  destruct (join_exited s) as [s1 codes]. cbn [fst snd] in A, B, C, D, E, F, G. subst codes.
  assert (Hm : Z.to_nat (nprocs s1 - Z.of_nat (length (wlist s1))) = missing s)
    by (unfold missing; rewrite A, B; reflexivity).
  rewrite Hm. destruct (missing s <=? k)%nat eqn:Ek.
  - destruct (Ht Hl) as (s' & H1 & H2 & H3 & H4 & H5 & _). exists s'. auto.
  - apply Nat.leb_gt in Ek.
    assert (Hg : (0 < S k)%nat -> Z.of_nat (length (wlist s1)) + Z.of_nat (S k) <= nprocs s1)
      by (unfold missing in Ek; rewrite A, B; lia).
    rewrite <- F, <- E in Hl.
    assert (Hp1 : pstate s1 = 0) by (rewrite C; exact Hp).
    destruct (repopulate_spec (S k) 0 (pass_codes s) s1 Hp1 Hg r2 n b Hl) as (s2 & E2 & R2 & W2 & P2 & _).
    pose proof (nprocs_repopulate (S k) 0 (pass_codes s) s1) as N2.
    rewrite E2 in *. cbn [fst] in N2. rewrite A, D in W2. rewrite D in P2. rewrite B in N2.
    destruct b.
    + exists s2. auto.
    + exists (release_n (do_close s2) (length (pass_codes s))). unfold release_n, do_close.
      destruct (pstate s2 =? 0); cbn [rst wlist procs nprocs with_sem with_pstate]; auto.
Qed.

(* the two kinds of supervision pass, uniformly: how many replacements the loop is asked for *)
Definition pass_fuel (s : pool) (e : event) : option nat :=
  match e with
  | ETick => Some (missing s)
  | ETickClose k => Some (if (missing s <=? k)%nat then missing s else S k)
  | _ => None
  end.

Theorem pass_spec s e fuel :
  pass_fuel s e = Some fuel -> pstate s = 0 ->
  forall r2 n b, lim_loop fuel 0 (pass_codes s) (now s) (rst s) = (r2, n, b) ->
  snd (step s e) = (if b then RExc 10 else RNone)
  /\ rst (fst (step s e)) = r2
  /\ wlist (fst (step s e)) = kept s ++ map Z.of_nat (seq (length (procs s)) n)
  /\ length (procs (fst (step s e))) = (length (procs s) + n)%nat
  /\ nprocs (fst (step s e)) = nprocs s.
Proof.
  intros Hf Hp r2 n b Hl. destruct e; try discriminate; cbn [pass_fuel] in Hf; inversion Hf; subst fuel; unfold step.
  - destruct (tick_spec (with_sigs s []) Hp r2 n b Hl) as (s' & H1 & H2 & H3 & H4 & H5 & _).
    rewrite H1. cbn [fst snd]. auto.
  - destruct (tick_close_spec (with_sigs s []) k Hp r2 n b Hl) as (s' & H1 & H2 & H3 & H4 & H5).
    rewrite H1. cbn [fst snd]. auto.
Qed.

Theorem pass_not_running s e fuel :
  pass_fuel s e = Some fuel -> pstate s <> 0 ->
  snd (step s e) = RNone /\ rst (fst (step s e)) = rst s /\ wlist (fst (step s e)) = kept s
  /\ procs (fst (step s e)) = procs s.
Proof.
  intros Hf Hp. destruct e; try discriminate; unfold step.
  - exact (tick_not_running (with_sigs s []) Hp).
  - rewrite (tick_close_not_running (with_sigs s []) k Hp). exact (tick_not_running (with_sigs s []) Hp).
Qed.

(* ---------------------------------------------------------------- (a) the limiter invariant *)
Lemma inv_lim_step m r now : 1 <= m -> Inv m r -> Inv m (fst (Restart.step r now)).
Proof. intros Hm Hi. exact (inv_do_ev m r (Step now) Hm Hi). Qed.
Lemma inv_lim_ack m r : 1 <= m -> Inv m r -> Inv m (Restart.ack r).
Proof. intros Hm Hi. exact (inv_do_ev m r Ack Hm Hi). Qed.

Lemma inv_repopulate m : forall fuel i codes s,
    1 <= m -> Inv m (rst s) -> Inv m (rst (fst (repopulate fuel i codes s))).
Proof.
  induction fuel as [|f IH]; intros i codes s Hm Hi; cbn [repopulate]; [exact Hi|].
  destruct (negb (pstate s =? 0)); [exact Hi|].
  match goal with |- context [if ?c then Restart.step (rst s) (now s) else (rst s, false)] =>
    assert (Hr : Inv m (fst (if c then Restart.step (rst s) (now s) else (rst s, false))))
      by (destruct c; [apply inv_lim_step; assumption|exact Hi]);
    destruct (if c then Restart.step (rst s) (now s) else (rst s, false)) as [r raised] end.
  cbn [fst] in Hr.
  destruct raised; [exact Hr|].
  destruct (avail_index (with_rst s r)) as [ix|]; [|exact Hr].
  apply IH; [exact Hm|exact Hr].
Qed.

Lemma inv_do_tick m s : 1 <= m -> Inv m (rst s) -> Inv m (rst (fst (do_tick s))).
Proof.
  intros Hm Hi. unfold do_tick. pose proof (rst_join_exited s) as E.
  destruct (join_exited s) as [s1 codes]. cbn [fst] in E. rewrite <- E in Hi.
  pose proof (inv_repopulate m (Z.to_nat (nprocs s1 - Z.of_nat (length (wlist s1)))) 0 codes s1 Hm Hi) as H.
  destruct (repopulate _ 0 codes s1) as [s2 r]. cbn [fst] in H. destruct r; cbn [fst]; exact H.
Qed.

Lemma inv_do_tick_close m s k : 1 <= m -> Inv m (rst s) -> Inv m (rst (fst (do_tick_close s k))).
Proof.
  intros Hm Hi. pose proof (inv_do_tick m s Hm Hi) as Ht. unfold do_tick_close.
  pose proof (rst_join_exited s) as E.
  destruct (join_exited s) as [s1 codes]. cbn [fst] in E. rewrite <- E in Hi.
  destruct (_ <=? k)%nat; [exact Ht|].
  pose proof (inv_repopulate m (S k) 0 codes s1 Hm Hi) as H.
  destruct (repopulate (S k) 0 codes s1) as [s2 r]. cbn [fst] in H. destruct r; cbn [fst]; try exact H.
  unfold release_n, do_close. destruct (pstate s2 =? 0); exact H.
Qed.

Theorem limiter_inv_step m s e : 1 <= m -> Inv m (rst s) -> Inv m (rst (fst (step s e))).
Proof.
  intros Hm Hi. destruct (limiter_event e) eqn:El.
  - destruct e; try discriminate.
    + rewrite ack_resets_limiter. apply inv_lim_ack; assumption.
    + rewrite stale_ack_resets_limiter. apply inv_lim_ack; assumption.
    + apply (inv_do_tick m (with_sigs s []) Hm Hi).
    + apply (inv_do_tick_close m (with_sigs s []) k Hm Hi).
  - rewrite limiter_frame by exact El. exact Hi.
Qed.

Lemma rst_start_n : forall n i s, rst (start_n n i s) = rst s.
Proof. induction n as [|n IH]; intros i s; cbn [start_n]; [reflexivity|]. rewrite IH. reflexivity. Qed.

(* the window length the pool hands to its limiter: restart_state(max_restarts, max_restart_freq or 1) *)
Definition cfg_maxt (c : config) : Z :=
  match py_or (Some (c_maxt c)) (Some 1) with Some v => v | None => 1 end.

Lemma rst_init c : rst (init c) = rs_init (c_maxr c) (cfg_maxt c).
Proof. unfold init. rewrite rst_start_n. reflexivity. Qed.

Lemma limiter_inv_run_from m : forall tr s, 1 <= m -> Inv m (rst s) -> Inv m (rst (run_from s tr)).
Proof.
  unfold run_from. induction tr as [|e tr IH]; intros s Hm Hi; cbn; [exact Hi|].
  apply IH; [exact Hm|]. apply limiter_inv_step; assumption.
Qed.

(* C11 (a): with max_restarts = m >= 1 the pool's limiter satisfies the invariant of
   RestartProofs in EVERY reachable state (so window_budget, step_admit, step_refuse apply to it):
   its budget is the configured one and 0 <= R <= m *)
Theorem pool_limiter_inv c tr m :
  c_maxr c = Some m -> 1 <= m -> Inv m (rst (run c tr)).
Proof.
  intros Hc Hm. apply (limiter_inv_run_from m tr (init c) Hm). rewrite rst_init, Hc.
  apply inv_init. exact Hm.
Qed.

(* the limiter's configuration never changes *)
Theorem pool_limiter_config c tr :
  maxR (rst (run c tr)) = c_maxr c /\ maxT (rst (run c tr)) = cfg_maxt c.
Proof.
  assert (Hstep : forall r now, maxR (fst (Restart.step r now)) = maxR r /\ maxT (fst (Restart.step r now)) = maxT r).
  { intros r now. unfold Restart.step. destruct (window_expired r now); [cbn; auto|].
    destruct (over_budget r && negb (R r =? 0)); cbn; auto. }
  assert (Hrep : forall fuel i codes s,
             maxR (rst (fst (repopulate fuel i codes s))) = maxR (rst s)
             /\ maxT (rst (fst (repopulate fuel i codes s))) = maxT (rst s)).
  { induction fuel as [|f IH]; intros i codes s; cbn [repopulate]; [auto|].
    destruct (negb (pstate s =? 0)); [auto|].
    match goal with |- context [if ?c then Restart.step (rst s) (now s) else (rst s, false)] =>
      assert (Hr : maxR (fst (if c then Restart.step (rst s) (now s) else (rst s, false))) = maxR (rst s)
                   /\ maxT (fst (if c then Restart.step (rst s) (now s) else (rst s, false))) = maxT (rst s))
        by (destruct c; [apply Hstep|auto]);
      destruct (if c then Restart.step (rst s) (now s) else (rst s, false)) as [r raised] end.
    cbn [fst] in Hr. destruct raised; [exact Hr|].
    destruct (avail_index (with_rst s r)) as [ix|]; [|exact Hr].
    destruct (IH (S i) codes (start_worker (with_rst s r) ix)) as [A B]. cbn [rst start_worker with_rst] in A, B.
    destruct Hr. split; congruence. }
  assert (Htick : forall s, maxR (rst (fst (do_tick s))) = maxR (rst s) /\ maxT (rst (fst (do_tick s))) = maxT (rst s)).
  { intros s. unfold do_tick. pose proof (rst_join_exited s) as E.
    destruct (join_exited s) as [s1 codes]. cbn [fst] in E. rewrite <- E.
    pose proof (Hrep (Z.to_nat (nprocs s1 - Z.of_nat (length (wlist s1)))) 0%nat codes s1) as H.
    destruct (repopulate _ 0 codes s1) as [s2 r]. cbn [fst] in H. destruct r; cbn [fst]; exact H. }
  assert (Hone : forall s e, maxR (rst (fst (step s e))) = maxR (rst s) /\ maxT (rst (fst (step s e))) = maxT (rst s)).
  { intros s e. destruct (limiter_event e) eqn:El; [|rewrite limiter_frame by exact El; auto].
    destruct e; try discriminate.
    - rewrite ack_resets_limiter. cbn. auto.
    - rewrite stale_ack_resets_limiter. cbn. auto.
    - apply (Htick (with_sigs s [])).
    - unfold step, do_tick_close. pose proof (Htick (with_sigs s [])) as Ht.
      pose proof (rst_join_exited (with_sigs s [])) as E.
      destruct (join_exited (with_sigs s [])) as [s1 codes]. cbn [fst] in E.
      destruct (_ <=? k)%nat; [exact Ht|].
      change (rst s) with (rst (with_sigs s [])). rewrite <- E.
      pose proof (Hrep (S k) 0%nat codes s1) as H.
      destruct (repopulate (S k) 0 codes s1) as [s2 r]. cbn [fst] in H. destruct r; cbn [fst]; try exact H.
      unfold release_n, do_close. destruct (pstate s2 =? 0); exact H. }
  assert (Hrun : forall tr0 s, maxR (rst (fold_left (fun s e => fst (step s e)) tr0 s)) = maxR (rst s)
                               /\ maxT (rst (fold_left (fun s e => fst (step s e)) tr0 s)) = maxT (rst s)).
  { induction tr0 as [|e tr0 IH]; intros s; cbn; [auto|].
    destruct (IH (fst (step s e))) as [A B]. destruct (Hone s e) as [C D]. split; congruence. }
  unfold run. destruct (Hrun tr (init c)) as [A B]. rewrite A, B, rst_init. cbn. auto.
Qed.

(* ---------------------------------------------------------------- (b) how a pass charges the limiter *)
(* how many of the iterations i, i+1, ..., i+n-1 of the loop consult the limiter *)
Definition n_charged (codes : list Z) (i n : nat) : nat := length (filter (charged codes) (seq i n)).

Lemma n_charged_S codes i n :
  n_charged codes i (S n) = ((if charged codes i then 1 else 0) + n_charged codes (S i) n)%nat.
Proof. unfold n_charged. cbn [seq filter]. destruct (charged codes i); reflexivity. Qed.

Lemma n_charged_app codes i n k :
  n_charged codes i (n + k) = (n_charged codes i n + n_charged codes (i + n) k)%nat.
Proof. unfold n_charged. rewrite seq_app, filter_app, app_length. reflexivity. Qed.

(* the limiter after the loop is the limiter `step`ped once, at the pool's clock, for every charged
   iteration that started a worker, plus once more if the loop was stopped by a raise; all those
   calls but the last were admitted *)
Theorem lim_loop_steps : forall fuel i codes now r r2 n b,
    lim_loop fuel i codes now r = (r2, n, b) ->
    steps r (repeat now (n_charged codes i n + (if b then 1 else 0)))
    = (r2, repeat false (n_charged codes i n) ++ (if b then [true] else [])).
Proof.
  induction fuel as [|f IH]; intros i codes now r r2 n b H; cbn [lim_loop] in H.
  - inversion H; subst. reflexivity.
  - destruct (charged codes i) eqn:Ec.
    + destruct (Restart.step r now) as [r1 raised] eqn:Es. destruct raised.
      * inversion H; subst. cbn [n_charged seq filter length Nat.add repeat steps app]. rewrite Es. reflexivity.
      * destruct (lim_loop f (S i) codes now r1) as [[r2' n'] b'] eqn:El. inversion H; subst.
        rewrite n_charged_S, Ec. cbn [Nat.add repeat steps app]. rewrite Es.
        rewrite (IH _ _ _ _ _ _ _ El). reflexivity.
    + destruct (lim_loop f (S i) codes now r) as [[r2' n'] b'] eqn:El. inversion H; subst.
      rewrite n_charged_S, Ec. cbn [Nat.add]. apply (IH _ _ _ _ _ _ _ El).
Qed.

(* ---------------------------------------------------------------- (c) the window budget *)
Lemma steps_app : forall l1 l2 s,
    steps s (l1 ++ l2) = let (s1, o1) := steps s l1 in let (s2, o2) := steps s1 l2 in (s2, o1 ++ o2).
Proof.
  induction l1 as [|a l1 IH]; intros l2 s; cbn [app steps].
  - destruct (steps s l2); reflexivity.
  - destruct (Restart.step s a) as [sa oa]. rewrite IH.
    destruct (steps sa l1) as [sb ob]. destruct (steps sb l2); reflexivity.
Qed.

(* window_budget / steps_admit_all specialised to one clock reading (all replacements of one pass
   are charged at the same time) *)
Lemma window_admits m r now k :
  Inv m r -> in_window r now -> R r + Z.of_nat k <= m ->
  steps r (repeat now k) = (mk_rs (R r + Z.of_nat k) (T r) (maxR r) (maxT r), repeat false k).
Proof.
  intros Hi Hw Hk. pose proof (steps_admit_all m (repeat now k) r Hi) as H.
  rewrite (repeat_length now k) in H. apply H; [|exact Hk].
  intros x Hx. apply repeat_spec in Hx. subst x. exact Hw.
Qed.

Lemma window_refuses m r now k :
  1 <= m -> Inv m r -> in_window r now -> Z.of_nat k = m - R r ->
  steps r (repeat now (k + 1)) = (mk_rs 0 (T r) (maxR r) (maxT r), repeat false k ++ [true]).
Proof.
  intros Hm Hi Hw Hk. rewrite repeat_app. cbn [repeat].
  pose proof (window_budget m r (repeat now k) now Hm Hi) as H.
  rewrite (repeat_length now k) in H. apply H; [|exact Hk].
  intros x Hx. apply in_app_or in Hx. destruct Hx as [Hx|[<-|[]]]; [|exact Hw].
  apply repeat_spec in Hx. subst x. exact Hw.
Qed.

(* more calls than the budget left: the call number (m - R) + 1 raises *)
Lemma window_overrun m r now k :
  1 <= m -> Inv m r -> in_window r now -> m - R r < Z.of_nat k ->
  nth (Z.to_nat (m - R r)) (snd (steps r (repeat now k))) false = true.
Proof.
  intros Hm Hi Hw Hk. destruct Hi as [Hmr Hr].
  set (k0 := Z.to_nat (m - R r)).
  replace k with ((k0 + 1) + (k - (k0 + 1)))%nat by lia.
  rewrite repeat_app, steps_app.
  rewrite (window_refuses m r now k0 Hm (conj Hmr Hr) Hw) by (unfold k0; lia).
  destruct (steps _ (repeat now (k - (k0 + 1)))) as [s2 o2]. cbn [snd].
  rewrite app_nth1 by (rewrite app_length, repeat_length; cbn; lia).
  rewrite app_nth2 by (rewrite repeat_length; lia).
  rewrite repeat_length, Nat.sub_diag. reflexivity.
Qed.

(* what the replacement loop does inside one restart window, derived from window_budget:
   all charged replacements are admitted while the budget lasts; when the loop needs more of them
   than m - R, it raises at the first one beyond, having started exactly m - R charged ones *)
Lemma lim_loop_window m fuel i codes now r r2 n b :
  1 <= m -> Inv m r -> in_window r now ->
  lim_loop fuel i codes now r = (r2, n, b) ->
  if b
  then m - R r < Z.of_nat (n_charged codes i fuel)
       /\ Z.of_nat (n_charged codes i n) = m - R r /\ (n < fuel)%nat
       /\ r2 = mk_rs 0 (T r) (maxR r) (maxT r)
  else Z.of_nat (n_charged codes i fuel) <= m - R r /\ n = fuel
       /\ r2 = mk_rs (R r + Z.of_nat (n_charged codes i fuel)) (T r) (maxR r) (maxT r).
Proof.
  intros Hm Hi Hw Hl.
  pose proof (lim_loop_steps _ _ _ _ _ _ _ _ Hl) as Hs.
  destruct (lim_loop_started _ _ _ _ _ _ _ _ Hl) as (Hn & Hb0 & Hb1).
  assert (Hr : 0 <= R r <= m) by apply Hi.
  destruct b.
  - set (a := n_charged codes i n) in *. destruct (Hb1 eq_refl) as [Hlt Hch].
    assert (Ha : Z.of_nat a = m - R r).
    { destruct (Z.lt_trichotomy (Z.of_nat a) (m - R r)) as [H|[H|H]]; [exfalso|exact H|exfalso].
      - rewrite (window_admits m r now (a + 1) Hi Hw) in Hs by lia.
        pose proof (f_equal snd Hs) as Ho. cbn [snd] in Ho. rewrite repeat_app in Ho. apply app_inv_head in Ho. discriminate.
      - pose proof (window_overrun m r now (a + 1) Hm Hi Hw ltac:(lia)) as Ho.
        rewrite Hs in Ho. cbn [snd] in Ho.
        rewrite app_nth1 in Ho by (rewrite repeat_length; lia).
        rewrite nth_repeat in Ho. discriminate. }
    split; [|split; [exact Ha|split; [exact Hlt|]]].
    + replace fuel with (n + S (fuel - n - 1))%nat by lia. rewrite n_charged_app, n_charged_S, Hch.
      fold a. lia.
    + rewrite (window_refuses m r now a Hm Hi Hw Ha) in Hs. inversion Hs. reflexivity.
  - pose proof (Hb0 eq_refl) as En. subst n. set (a := n_charged codes i fuel) in *.
    rewrite Nat.add_0_r, app_nil_r in Hs.
    assert (Ha : Z.of_nat a <= m - R r).
    { destruct (Z.le_gt_cases (Z.of_nat a) (m - R r)) as [H|H]; [exact H|exfalso].
      pose proof (window_overrun m r now a Hm Hi Hw ltac:(lia)) as Ho.
      rewrite Hs in Ho. cbn [snd] in Ho. rewrite nth_repeat in Ho. discriminate. }
    split; [exact Ha|]. split; [reflexivity|].
    rewrite (window_admits m r now a Hi Hw) in Hs by lia. inversion Hs. reflexivity.
Qed.

(* the number of replacements an event starts for workers whose exit was not clean (including,
   when more workers are missing than were reaped, those for which no exit status is on record) *)
Definition abn_started (s : pool) (e : event) : nat :=
  match pass_fuel s e with
  | Some fuel =>
    if pstate s =? 0
    then let '(_, n, _) := lim_loop fuel 0 (pass_codes s) (now s) (rst s) in n_charged (pass_codes s) 0 n
    else O
  | None => O
  end.

(* C11 (c), one pass.  In RUN state, inside the current restart window, with max_restarts = m:
   a pass that needs K charged replacements
     - when K <= m - R: does not raise, starts all it was asked for, and has then used K of the budget;
     - when K > m - R: raises RestartFreqExceeded (RExc 10) after starting exactly m - R charged
       replacements (and the uncharged ones before the one refused), fewer workers than it was
       asked for, and R is back to 0 with the window unchanged. *)
Theorem pass_budget m s e fuel :
  pass_fuel s e = Some fuel -> pstate s = 0 ->
  1 <= m -> Inv m (rst s) -> in_window (rst s) (now s) ->
  let K := n_charged (pass_codes s) 0 fuel in
  (Z.of_nat K <= m - R (rst s) ->
   snd (step s e) = RNone
   /\ rst (fst (step s e)) = mk_rs (R (rst s) + Z.of_nat K) (T (rst s)) (maxR (rst s)) (maxT (rst s))
   /\ abn_started s e = K
   /\ length (procs (fst (step s e))) = (length (procs s) + fuel)%nat)
  /\ (m - R (rst s) < Z.of_nat K ->
      snd (step s e) = RExc 10
      /\ rst (fst (step s e)) = mk_rs 0 (T (rst s)) (maxR (rst s)) (maxT (rst s))
      /\ Z.of_nat (abn_started s e) = m - R (rst s)
      /\ (length (procs (fst (step s e))) < length (procs s) + fuel)%nat).
Proof.
  intros Hf Hp Hm Hi Hw K.
  destruct (lim_loop fuel 0 (pass_codes s) (now s) (rst s)) as [[r2 n] b] eqn:El.
  destruct (pass_spec s e fuel Hf Hp r2 n b El) as (S1 & S2 & _ & S4 & _).
  pose proof (lim_loop_window m fuel 0 (pass_codes s) (now s) (rst s) r2 n b Hm Hi Hw El) as Hb.
  assert (Ha : abn_started s e = n_charged (pass_codes s) 0 n).
  { unfold abn_started. rewrite Hf, Hp, El. reflexivity. }
  fold K in Hb. destruct b.
  - destruct Hb as (B1 & B2 & B3 & B4). split; [intros H; exfalso; lia|]. intros _.
    rewrite S1, S2, S4, Ha. repeat split; auto. lia.
  - destruct Hb as (B1 & B2 & B3). split; [|intros H; exfalso; lia]. intros _.
    rewrite S1, S2, S4, Ha, B2. auto.
Qed.

(* ---- histories *)
Definition is_ack (e : event) : bool :=
  match e with EAck _ _ _ | EStaleAck _ => true | _ => false end.

(* a stretch of history inside one restart window: no acknowledgement arrives, and every pass made
   in RUN state happens while the limiter's window is open and does not raise *)
Fixpoint calm (s : pool) (tr : list event) : Prop :=
  match tr with
  | [] => True
  | e :: r =>
    is_ack e = false
    /\ (pass_fuel s e <> None -> pstate s = 0 -> in_window (rst s) (now s) /\ snd (step s e) <> RExc 10)
    /\ calm (fst (step s e)) r
  end.

Fixpoint abn_total (s : pool) (tr : list event) : nat :=
  match tr with
  | [] => O
  | e :: r => (abn_started s e + abn_total (fst (step s e)) r)%nat
  end.

Lemma abn_total_app : forall tr tr' s,
    abn_total s (tr ++ tr') = (abn_total s tr + abn_total (run_from s tr) tr')%nat.
Proof.
  unfold run_from. induction tr as [|e tr IH]; intros tr' s; cbn [app abn_total fold_left]; [reflexivity|].
  rewrite IH. lia.
Qed.

Lemma calm_step m s e :
  1 <= m -> Inv m (rst s) -> is_ack e = false ->
  (pass_fuel s e <> None -> pstate s = 0 -> in_window (rst s) (now s) /\ snd (step s e) <> RExc 10) ->
  R (rst (fst (step s e))) = R (rst s) + Z.of_nat (abn_started s e)
  /\ T (rst (fst (step s e))) = T (rst s).
Proof.
  intros Hm Hi Ha Hc. destruct (pass_fuel s e) as [fuel|] eqn:Ef.
  - destruct (Z.eq_dec (pstate s) 0) as [Hp|Hp].
    + destruct (Hc ltac:(discriminate) Hp) as [Hw Hne].
      destruct (pass_budget m s e fuel Ef Hp Hm Hi Hw) as [H1 H2].
      destruct (Z.le_gt_cases (Z.of_nat (n_charged (pass_codes s) 0 fuel)) (m - R (rst s))) as [H|H].
      * destruct (H1 H) as (_ & A & B & _). rewrite A, B. cbn. auto.
      * destruct (H2 H) as (A & _). congruence.
    + destruct (pass_not_running s e fuel Ef Hp) as (_ & A & _). rewrite A.
      unfold abn_started. rewrite Ef. replace (pstate s =? 0) with false by lia. split; [lia|reflexivity].
  - assert (Hl : limiter_event e = false) by (destruct e; try reflexivity; discriminate).
    rewrite (limiter_frame s e Hl). unfold abn_started. rewrite Ef. split; [lia|reflexivity].
Qed.

(* C11 (c), histories.  From any state whose limiter satisfies the invariant (every reachable
   state does: pool_limiter_inv), over any stretch of events inside one window -- no
   acknowledgement, every RUN-state pass made while the window is open, none of them raising --
   the counter R counts exactly the replacements started for abnormally exited workers, the window
   does not move, and so AT MOST m - R <= max_restarts such replacements are started *)
Theorem window_budget_history m : forall tr s,
    1 <= m -> Inv m (rst s) -> calm s tr ->
    R (rst (run_from s tr)) = R (rst s) + Z.of_nat (abn_total s tr)
    /\ T (rst (run_from s tr)) = T (rst s)
    /\ Z.of_nat (abn_total s tr) <= m - R (rst s) <= m.
Proof.
  intros tr s Hm Hi Hc.
  assert (H : R (rst (run_from s tr)) = R (rst s) + Z.of_nat (abn_total s tr)
              /\ T (rst (run_from s tr)) = T (rst s)).
  { revert s Hi Hc. unfold run_from. induction tr as [|e tr IH]; intros s Hi Hc; cbn [fold_left abn_total]; [split; [lia|reflexivity]|].
    destruct Hc as (Ha & Hp & Hc).
    destruct (calm_step m s e Hm Hi Ha Hp) as [A B].
    destruct (IH (fst (step s e)) (limiter_inv_step m s e Hm Hi) Hc) as [C D].
    split; [lia|congruence]. }
  destruct H as [A B]. split; [exact A|]. split; [exact B|].
  pose proof (limiter_inv_run_from m tr s Hm Hi) as [_ Hr]. destruct Hi as [_ Hr0]. lia.
Qed.

(* ... and the pass that needs one more is refused: when, after such a stretch, a RUN-state pass
   inside the window needs more charged replacements than the budget left, it raises
   RestartFreqExceeded; counting from the start of the stretch exactly m - R (at most
   max_restarts) replacements for abnormal exits were started, and R is 0 again *)
Theorem window_budget_then_raise m tr s e fuel :
  1 <= m -> Inv m (rst s) -> calm s tr ->
  let s1 := run_from s tr in
  pass_fuel s1 e = Some fuel -> pstate s1 = 0 -> in_window (rst s1) (now s1) ->
  m - R (rst s1) < Z.of_nat (n_charged (pass_codes s1) 0 fuel) ->
  snd (step s1 e) = RExc 10
  /\ Z.of_nat (abn_total s (tr ++ [e])) = m - R (rst s)
  /\ R (rst (fst (step s1 e))) = 0 /\ T (rst (fst (step s1 e))) = T (rst s).
Proof.
  intros Hm Hi Hc s1 Hf Hp Hw Hk.
  destruct (window_budget_history m tr s Hm Hi Hc) as (A & B & _). fold s1 in A, B.
  pose proof (limiter_inv_run_from m tr s Hm Hi) as Hi1. fold s1 in Hi1.
  destruct (pass_budget m s1 e fuel Hf Hp Hm Hi1 Hw) as [_ H2].
  destruct (H2 Hk) as (C & D & E & _).
  split; [exact C|]. rewrite abn_total_app. fold s1. cbn [abn_total]. rewrite D. cbn [R T].
  split; [lia|]. split; [reflexivity|exact B].
Qed.

(* the same two statements for the states of the pool: any configuration with max_restarts = m >= 1,
   any history before the stretch *)
Corollary pool_window_budget c tr0 tr m :
  c_maxr c = Some m -> 1 <= m -> calm (run c tr0) tr ->
  let s := run c tr0 in
  R (rst (run c (tr0 ++ tr))) = R (rst s) + Z.of_nat (abn_total s tr)
  /\ Z.of_nat (abn_total s tr) <= m - R (rst s) <= m.
Proof.
  intros Hc Hm Hcalm s.
  destruct (window_budget_history m tr s Hm (pool_limiter_inv c tr0 m Hc Hm) Hcalm) as (A & _ & B).
  unfold run in *. rewrite fold_left_app. split; [exact A|exact B].
Qed.

(* ---------------------------------------------------------------- the limiter of the pool IS a run of the limiter model *)
(* what an event does to the limiter, as a history of the limiter model *)
Definition lim_evs (s : pool) (e : event) : list Restart.ev :=
  if is_ack e then [Ack] else
  match pass_fuel s e with
  | Some fuel =>
    if pstate s =? 0
    then let '(_, n, b) := lim_loop fuel 0 (pass_codes s) (now s) (rst s) in
         repeat (Step (now s)) (n_charged (pass_codes s) 0 n + (if b then 1 else 0))
    else []
  | None => []
  end.

Fixpoint limiter_history (s : pool) (tr : list event) : list Restart.ev :=
  match tr with
  | [] => []
  | e :: r => lim_evs s e ++ limiter_history (fst (step s e)) r
  end.

Lemma run_steps : forall nows r, Restart.run r (map Step nows) = steps r nows.
Proof.
  induction nows as [|a l IH]; intros r; cbn [map Restart.run steps do_ev]; [reflexivity|].
  destruct (Restart.step r a) as [r1 o]. rewrite IH. reflexivity.
Qed.

Lemma run_app_fst : forall l1 l2 r,
    fst (Restart.run r (l1 ++ l2)) = fst (Restart.run (fst (Restart.run r l1)) l2).
Proof.
  induction l1 as [|a l1 IH]; intros l2 r; cbn [app Restart.run]; [reflexivity|].
  destruct (do_ev r a) as [r1 o]. specialize (IH l2 r1).
  destruct (Restart.run r1 (l1 ++ l2)) as [x y]. destruct (Restart.run r1 l1) as [u v]. cbn [fst] in *. exact IH.
Qed.

Lemma repeat_map_step now k : repeat (Step now) k = map Step (repeat now k).
Proof. induction k as [|k IH]; cbn; [reflexivity|]. rewrite IH. reflexivity. Qed.

Theorem limiter_step_events s e : rst (fst (step s e)) = fst (Restart.run (rst s) (lim_evs s e)).
Proof.
  unfold lim_evs. destruct (is_ack e) eqn:Ea.
  - destruct e; try discriminate.
    + rewrite ack_resets_limiter. reflexivity.
    + rewrite stale_ack_resets_limiter. reflexivity.
  - destruct (pass_fuel s e) as [fuel|] eqn:Ef.
    + destruct (pstate s =? 0) eqn:Ep.
      * destruct (lim_loop fuel 0 (pass_codes s) (now s) (rst s)) as [[r2 n] b] eqn:El.
        destruct (pass_spec s e fuel Ef ltac:(lia) r2 n b El) as (_ & A & _).
        rewrite A, repeat_map_step, run_steps, (lim_loop_steps _ _ _ _ _ _ _ _ El). reflexivity.
      * destruct (pass_not_running s e fuel Ef ltac:(lia)) as (_ & A & _). rewrite A. reflexivity.
    + rewrite limiter_frame; [reflexivity|]. destruct e; try reflexivity; discriminate.
Qed.

(* in every reachable state the pool's limiter is the limiter model run from
   restart_state(max_restarts, max_restart_freq or 1) over one Step(now) per charged replacement
   attempt and one Ack per acknowledgement, in the order of the history *)
Theorem pool_limiter_is_restart_run c tr :
  rst (run c tr)
  = fst (Restart.run (rs_init (c_maxr c) (cfg_maxt c)) (limiter_history (init c) tr)).
Proof.
  unfold run. rewrite <- rst_init. generalize (init c).
  induction tr as [|e tr IH]; intros s; cbn [fold_left limiter_history]; [reflexivity|].
  rewrite IH, run_app_fst, <- limiter_step_events. reflexivity.
Qed.

(* ================================================================ boolean checkers for the examples *)
Definition in_windowb (r : rs) (now : Z) : bool :=
  match T r with Some t => negb (t =? 0) && (now - t <? maxT r) | None => false end.
Lemma in_windowb_ok r now : in_windowb r now = true -> in_window r now.
Proof. unfold in_windowb, in_window. destruct (T r); [lia|discriminate]. Qed.

Definition is_rexc10 (r : ret) : bool := match r with RExc c => c =? 10 | _ => false end.

Fixpoint calmb (s : pool) (tr : list event) : bool :=
  match tr with
  | [] => true
  | e :: r =>
    negb (is_ack e)
    && match pass_fuel s e with
       | Some _ => negb (pstate s =? 0) || (in_windowb (rst s) (now s) && negb (is_rexc10 (snd (step s e))))
       | None => true
       end
    && calmb (fst (step s e)) r
  end.

Lemma calmb_ok : forall tr s, calmb s tr = true -> calm s tr.
Proof.
  induction tr as [|e tr IH]; intros s H; cbn [calmb calm] in *; [exact I|].
  apply andb_true_iff in H. destruct H as [H H3]. apply andb_true_iff in H. destruct H as [H1 H2].
  split; [apply negb_true_iff; exact H1|]. split; [|apply IH; exact H3].
  intros Hf Hp. destruct (pass_fuel s e); [|congruence].
  rewrite Hp in H2. cbn in H2. apply andb_true_iff in H2. destruct H2 as [A B].
  split; [apply in_windowb_ok; exact A|]. intros E. rewrite E in B. discriminate.
Qed.

(* ================================================================ examples (non-vacuity) *)
(* ---- 2: the clean pass.  Pool of 3; one job run to the end by worker 0; workers 0 and 1 leave with
   the recycle status / status 0; the pass replaces both without consulting the limiter *)
Definition cp_cfg := mkcfg 3 None None None (Some 1) 100 false false.
Definition cp_tr : list event :=
  [EApply None None None None; EAck 0 None 0; EReady 0 None true 7; EExit 0 155; EExit 1 0].

Example clean_pass_witness :
  let s := run cp_cfg cp_tr in
  pstate s = 0
  /\ Forall (fun c => clean_code c = true) (pass_codes s)
  /\ nprocs s - Z.of_nat (length (kept s)) <= Z.of_nat (length (reaped s))
  /\ (pass_codes s, kept s, R (rst s)) = ([0; 155], [2], 0)
  /\ (exists x, get_job s 0 = Some x /\ ready x = true /\ value x = Some (PValue 7))
  /\ (snd (do_tick s), wlist (fst (do_tick s)), R (rst (fst (do_tick s)))) = (RNone, [2; 3; 4], 0).
Proof.
  split; [vm_compute; reflexivity|]. split.
  - assert (E : pass_codes (run cp_cfg cp_tr) = [0; 155]) by (vm_compute; reflexivity).
    cbn zeta. rewrite E. repeat constructor.
  - split; [vm_compute; discriminate|]. split; [vm_compute; reflexivity|]. split.
    + eexists. split; [vm_compute; reflexivity|]. split; reflexivity.
    + vm_compute. reflexivity.
Qed.

(* the other side of the hypothesis: one recycled worker and grow(1) in the same pass -- two workers
   are missing, one was reaped: the second replacement has no exit status on record, IS charged
   (IndexError path) and, with the budget used up, the pass raises although every exit was clean *)
Example clean_exits_but_short_pool_is_charged :
  let s := run cp_cfg [EExit 2 1; ETick; EExit 0 155; EGrow 1] in
  Forall (fun c => clean_code c = true) (pass_codes s)
  /\ (missing s, length (reaped s), R (rst s)) = (2%nat, 1%nat, 1)
  /\ n_charged (pass_codes s) 0 (missing s) = 1%nat
  /\ (snd (do_tick s), wlist (fst (do_tick s))) = (RExc 10, [1; 3; 4]).
Proof.
  split.
  - assert (E : pass_codes (run cp_cfg [EExit 2 1; ETick; EExit 0 155; EGrow 1]) = [155]) by (vm_compute; reflexivity).
    cbn zeta. rewrite E. repeat constructor.
  - split; [vm_compute; reflexivity|]. split; vm_compute; reflexivity.
Qed.

(* no exited worker left, reaped ones gone *)
Example tick_no_exited_left_witness :
  let s := run cp_cfg cp_tr in
  (reaped s, wlist s, wlist (fst (do_tick s))) = ([1; 0], [0; 1; 2], [2; 3; 4]).
Proof. vm_compute. reflexivity. Qed.

(* ---- 3: the limiter at pool level.  max_restarts = 2, window of 100 s *)
Definition lb_cfg := mkcfg 3 None None None (Some 2) 100 false false.
(* a first crash opens the window (T = 1000) and uses one unit of the budget *)
Definition lb_tr0 : list event := [EExit 0 1; ETick].
(* inside the window: another crash, replaced 5 s later (R = 2); a clean exit, replaced without
   charge; a third crash *)
Definition lb_tr : list event := [EExit 1 1; EAdvance 5; ETick; EExit 2 0; ETick; EExit 3 1].

Example pool_limiter_inv_witness :
  let s := run lb_cfg (lb_tr0 ++ lb_tr) in
  Inv 2 (rst s) /\ (R (rst s), T (rst s)) = (2, Some 1000)
  /\ limiter_history (init lb_cfg) (lb_tr0 ++ lb_tr) = [Step 1000; Step 1005].
Proof.
  split; [apply pool_limiter_inv; [reflexivity|lia]|]. split; vm_compute; reflexivity.
Qed.

Example pass_budget_witness :
  let s := run lb_cfg (lb_tr0 ++ [EExit 1 1; EExit 2 1]) in
  pass_fuel s ETick = Some 2%nat /\ pstate s = 0 /\ Inv 2 (rst s) /\ in_window (rst s) (now s)
  /\ R (rst s) = 1 /\ n_charged (pass_codes s) 0 2 = 2%nat
  /\ snd (step s ETick) = RExc 10 /\ abn_started s ETick = 1%nat
  /\ wlist (fst (step s ETick)) = [3; 4] /\ R (rst (fst (step s ETick))) = 0.
Proof.
  split; [vm_compute; reflexivity|]. split; [vm_compute; reflexivity|].
  split; [apply pool_limiter_inv; [reflexivity|lia]|].
  split; [apply in_windowb_ok; vm_compute; reflexivity|].
  repeat split; vm_compute; reflexivity.
Qed.

Example window_budget_history_witness :
  let s := run lb_cfg lb_tr0 in
  calm s lb_tr /\ R (rst s) = 1 /\ abn_total s lb_tr = 1%nat
  /\ (let s1 := run_from s lb_tr in
      pass_fuel s1 ETick = Some 1%nat /\ pstate s1 = 0 /\ in_window (rst s1) (now s1)
      /\ 2 - R (rst s1) < Z.of_nat (n_charged (pass_codes s1) 0 1)
      /\ snd (step s1 ETick) = RExc 10 /\ abn_total s (lb_tr ++ [ETick]) = 1%nat).
Proof.
  split; [apply calmb_ok; vm_compute; reflexivity|].
  split; [vm_compute; reflexivity|]. split; [vm_compute; reflexivity|].
  cbn zeta. split; [vm_compute; reflexivity|]. split; [vm_compute; reflexivity|].
  split; [apply in_windowb_ok; vm_compute; reflexivity|].
  split; [vm_compute; reflexivity|]. split; vm_compute; reflexivity.
Qed.

(* the limiter is left alone by everything but passes and acknowledgements *)
Example limiter_frame_witness :
  let s := run lb_cfg lb_tr0 in
  (R (rst s), R (rst (fst (step s (EShrink 1)))), R (rst (fst (step s (EAck 0 None 1))))) = (1, 1, 0).
Proof. vm_compute. reflexivity. Qed.
