(* History-level theorems about the parent-side pool model asked for by the audit
   docs/audit/c09c10c11.md:
     C09  "never above the configured size" as an invariant of all reachable states,
          the lifted supervision-pass theorem (clean pass), no exited worker left in the list;
     C11  the restart limiter at pool level: its invariant in every reachable state, exactly
          which events touch it and how a pass charges it, the window budget for passes and
          for histories of passes (derived from RestartProofs.window_budget). *)
From Coq Require Import ZArith List Bool Lia ZifyBool.
From BV Require Import Lib.Cases Model.LaxSem Model.Restart Model.Pool
     Proofs.LaxSemProofs Proofs.RestartProofs Proofs.PoolJobs Proofs.PoolInv Proofs.PoolTick
     Proofs.PoolSup Proofs.PoolIdx Proofs.PoolSem.
Import ListNotations.
Open Scope Z_scope.

(* ================================================================ vocabulary *)
(* the worker is being stopped on purpose (shrink / terminate_job set this flag); exactly the
   test Pool.shrink uses to skip such workers (Pool.inactive) *)
Definition ctl (s : pool) (p : Z) : bool :=
  match get_proc s p with Some q => controlled q | None => false end.

(* the workers of the pool list that are not being stopped *)
Definition uncontrolled (s : pool) : list Z := filter (fun p => negb (ctl s p)) (wlist s).

Definition ctab (s : pool) : list bool := map controlled (procs s).
Definition ctl_of (tab : list bool) (p : Z) : bool :=
  if p <? 0 then false else nth (Z.to_nat p) tab false.

Lemma ctl_tab s p : ctl s p = ctl_of (ctab s) p.
Proof.
  unfold ctl, ctl_of, ctab, get_proc. destruct (p <? 0); [reflexivity|].
  destruct (nth_error (procs s) (Z.to_nat p)) as [q|] eqn:E.
  - symmetry. apply nth_error_nth. rewrite nth_error_map, E. reflexivity.
  - symmetry. apply nth_overflow. rewrite map_length. apply nth_error_None. exact E.
Qed.

Lemma uncontrolled_tab s :
  uncontrolled s = filter (fun p => negb (ctl_of (ctab s) p)) (wlist s).
Proof. unfold uncontrolled. apply filter_ext_eq. intros p. rewrite ctl_tab. reflexivity. Qed.

(* what the size invariant reads *)
Definition cwn (s : pool) := (wlist s, ctab s, nprocs s).
(* ... and the limiter *)
Definition fr (s : pool) := (cwn s, rst s).

Lemma cwn_uncontrolled s s' : cwn s' = cwn s -> uncontrolled s' = uncontrolled s /\ nprocs s' = nprocs s.
Proof.
  unfold cwn. intros H. inversion H as [[Hw Hc Hn]]. rewrite !uncontrolled_tab, Hw, Hc. auto.
Qed.

Lemma map_upd_nth {A B} (g : A -> B) (f : A -> A) :
  (forall q, g (f q) = g q) -> forall l n, map g (upd_nth n f l) = map g l.
Proof.
  intros Hf. induction l as [|a l IH]; intros [|n]; cbn; try reflexivity.
  - rewrite Hf. reflexivity.
  - rewrite IH. reflexivity.
Qed.

Lemma ctab_set_proc s p f : (forall q, controlled (f q) = controlled q) -> ctab (set_proc s p f) = ctab s.
Proof.
  intros Hf. unfold ctab, set_proc. cbn [procs]. destruct (p <? 0); [reflexivity|].
  apply map_upd_nth. exact Hf.
Qed.

Lemma ctab_deliver s p sg l : ctab (deliver s p sg l) = ctab s.
Proof.
  unfold deliver. rewrite ctab_set_proc; [reflexivity|].
  intros q. destruct (pexit q); [reflexivity|]. destruct (sg =? SIGKILL); [reflexivity|].
  destruct ((sg =? SIGTERM) && negb l); reflexivity.
Qed.

Lemma fr_deliver s p sg l : fr (deliver s p sg l) = fr s.
Proof. unfold fr, cwn. rewrite ctab_deliver. reflexivity. Qed.

Lemma fr_scan_job l s j : fr (scan_job l s j) = fr s.
Proof.
  unfold scan_job. destruct (get_job s j) as [x|]; [|reflexivity].
  destruct (kind x); try reflexivity. destruct (time_accepted x) as [t|]; [|reflexivity].
  destruct (timed_out s (Some t) (eff_hard s x)).
  - unfold on_hard. destruct (ready x); [reflexivity|].
    destruct (owner x) as [p|]; [|reflexivity].
    destruct (in_pool _ p); [|reflexivity].
    destruct (negb (exit_of _ p =? 0) && exited _ p); rewrite ?fr_deliver; reflexivity.
  - destruct (negb (memZ j (dirty s)) && timed_out s (Some t) (eff_soft s x)); [|reflexivity].
    change (fr (with_dirty ?a ?b)) with (fr a). unfold on_soft. destruct (ready x); [reflexivity|].
    destruct (owner x) as [p|]; [|reflexivity]. destruct (in_pool s p); [|reflexivity].
    rewrite fr_deliver. reflexivity.
Qed.

(* the events that touch neither the worker list, nor a `controlled` flag, nor the configured
   size, nor the restart limiter *)
Definition frame_event (e : event) : bool :=
  match e with
  | ETick | ETickClose _ | EJoinShutdown | ETerminateJob _ _ | EShrink _ | EGrow _
  | EAck _ _ _ | EStaleAck _ => false
  | _ => true
  end.

Lemma fr_step s e : frame_event e = true -> fr (fst (step s e)) = fr s.
Proof.
  intros He. destruct e; try discriminate; unfold step; cbn [fst]; try reflexivity.
  - unfold do_apply.
    destruct (negb (pstate (with_sigs s []) =? 0)); [reflexivity|].
    destruct ((match slot with Some b => b | None => putlocks (with_sigs s []) end) && (LaxSem.value (sem (with_sigs s [])) =? 0)); [reflexivity|]. cbn [fst].
    destruct (match slot with Some b => b | None => putlocks (with_sigs s []) end); reflexivity.
  - unfold do_map. destruct (negb (pstate (with_sigs s []) =? 0)); reflexivity.
  - unfold do_imap. destruct (negb (pstate (with_sigs s []) =? 0)); reflexivity.
  - unfold do_imap. destruct (negb (pstate (with_sigs s []) =? 0)); reflexivity.
  - change (fr (fst (do_feed (with_sigs s []) fail_at io)) = fr (with_sigs s [])).
    generalize (with_sigs s []). intros s0. unfold do_feed.
    assert (Hft : forall fuel i j k fa io0 s1, fr (fst (fst (feed_tasks fuel i j k fa io0 s1))) = fr s1).
    { induction fuel as [|f IH]; intros; cbn [feed_tasks]; [reflexivity|].
      destruct (okey_eqb (Some k) fa); [|apply IH]. destruct io0; [reflexivity|].
      rewrite IH. destruct (cached s1 j) as [x|]; [|reflexivity].
      destruct (kind x); try reflexivity. destruct (ready x); reflexivity. }
    assert (Hfs : forall fs k fa io0 s1, fr (fst (fst (do_feeds fs k fa io0 s1))) = fr s1).
    { induction fs as [|[[j n] sl] r IH]; intros; cbn [do_feeds]; [reflexivity|].
      pose proof (Hft (Z.to_nat n) 0 j k fa io0 s1) as H0.
      destruct (feed_tasks (Z.to_nat n) 0 j k fa io0 s1) as [[s2 k2] st]. cbn [fst] in H0.
      destruct st; [exact H0|].
      destruct sl.
      - destruct (get_job s2 j) as [x|].
        + destruct (snd (set_length x n)); cbn [fst]; [exact H0|]. rewrite IH. exact H0.
        + rewrite IH. exact H0.
      - rewrite IH. exact H0. }
    pose proof (Hfs (feeds s0) 0 fail_at io s0) as H0.
    destruct (do_feeds (feeds s0) 0 fail_at io s0) as [[s1 rest] r]. cbn [fst] in *. rewrite <- H0. reflexivity.
  - unfold do_ready. destruct (cached _ j) as [x|]; [|reflexivity]. cbn [fst].
    change (fr (set_job ?a ?b ?c)) with (fr a). unfold bump_counter.
    destruct (ready x); destruct (worker_pids x) as [|p0 l0]; try reflexivity;
      destruct (in_pool _ p0); try reflexivity; unfold fr, cwn; cbn [wlist nprocs rst with_sem set_proc];
        try (change (ctab (with_sem ?a ?b)) with (ctab a)); rewrite ctab_set_proc; reflexivity.
  - rewrite fr_deliver. reflexivity.
  - unfold fr, cwn. cbn [wlist nprocs rst set_proc]. rewrite ctab_set_proc; [reflexivity|].
    intros q. destruct (pexit q); reflexivity.
  - change (fr (fst (do_scan (with_sigs s []) lingers)) = fr (with_sigs s [])).
    generalize (with_sigs s []). intros s0. unfold do_scan.
    destruct (negb (scanner s0)); [reflexivity|]. cbn [fst].
    assert (Hfold : forall snap s1, fr (fold_left (scan_job lingers) snap s1) = fr s1).
    { induction snap as [|j snap IH]; intros s1; cbn; [reflexivity|]. rewrite IH. apply fr_scan_job. }
    rewrite Hfold. reflexivity.
  - destruct (negb (scanner _)); reflexivity.
  - destruct (scan_todo _) as [|j0 r0]; cbn [fst]; [reflexivity|].
    change (fr (with_todo ?a ?b)) with (fr a). rewrite fr_scan_job. reflexivity.
  - unfold do_close. destruct (pstate _ =? 0); reflexivity.
  - unfold do_next. destruct (get_job _ j) as [x|]; [|reflexivity].
    destruct (negb (is_imap x)); [reflexivity|].
    destruct (items x); [destruct (okey_eqb _ _)|]; reflexivity.
  - unfold do_apply_q, do_apply.
    destruct (negb (pstate (with_sigs s []) =? 0)); [reflexivity|].
    destruct ((match slot with Some b => b | None => putlocks (with_sigs s []) end) && (LaxSem.value (sem (with_sigs s [])) =? 0)); [reflexivity|]. cbn [fst].
    destruct (match slot with Some b => b | None => putlocks (with_sigs s []) end); reflexivity.
  - unfold do_apply_unsendable. destruct (negb (pstate _ =? 0)); [reflexivity|]. destruct (_ && _); reflexivity.
Qed.

(* acknowledgements touch the limiter only *)
Lemma cwn_ack s j i p : cwn (fst (step s (EAck j i p))) = cwn s.
Proof.
  unfold step, do_ack. destruct (cached _ j) as [x|]; [|reflexivity].
  destruct (kind x); try reflexivity. destruct i; reflexivity.
Qed.
Lemma cwn_stale_ack s p : cwn (fst (step s (EStaleAck p))) = cwn s.
Proof. reflexivity. Qed.

(* ================================================================ 1. C09 "never above" *)
Definition cnt (s : pool) : Z := Z.of_nat (length (uncontrolled s)).

Lemma filter_length_mono {A} (f g : A -> bool) l :
  (forall a, In a l -> f a = true -> g a = true) ->
  (length (filter f l) <= length (filter g l))%nat.
Proof.
  induction l as [|a l IH]; intros H; cbn; [lia|].
  assert (IH' : (length (filter f l) <= length (filter g l))%nat)
    by (apply IH; intros b Hb; apply H; right; exact Hb).
  destruct (f a) eqn:Ef.
  - rewrite (H a (or_introl eq_refl) Ef). cbn. lia.
  - destruct (g a); cbn; lia.
Qed.

Lemma filter_length_strict {A} (f g : A -> bool) l p :
  (forall a, In a l -> f a = true -> g a = true) ->
  In p l -> g p = true -> f p = false ->
  (length (filter f l) < length (filter g l))%nat.
Proof.
  induction l as [|a l IH]; intros H Hin Hg Hf; [destruct Hin|]. cbn.
  assert (Hm : (length (filter f l) <= length (filter g l))%nat)
    by (apply filter_length_mono; intros b Hb; apply H; right; exact Hb).
  destruct Hin as [->|Hin].
  - rewrite Hg, Hf. cbn. lia.
  - assert (IH' : (length (filter f l) < length (filter g l))%nat)
      by (apply IH; auto; intros b Hb; apply H; right; exact Hb).
    destruct (f a) eqn:Ef.
    + rewrite (H a (or_introl eq_refl) Ef). cbn. lia.
    + destruct (g a); cbn; lia.
Qed.

Lemma filter_length_le_all {A} (f : A -> bool) l : (length (filter f l) <= length l)%nat.
Proof. induction l as [|a l IH]; cbn; [lia|]. destruct (f a); cbn; lia. Qed.

Lemma get_proc_set_proc s p f q :
  get_proc (set_proc s p f) q = if q =? p then option_map f (get_proc s q) else get_proc s q.
Proof.
  unfold get_proc, set_proc. cbn [procs].
  destruct (q <? 0) eqn:Eq; [destruct (q =? p); reflexivity|].
  destruct (p <? 0) eqn:Ep; [replace (q =? p) with false by lia; reflexivity|].
  destruct (q =? p) eqn:E.
  - assert (q = p) by lia. subst q.
    destruct (nth_error (procs s) (Z.to_nat p)) as [x|] eqn:En.
    + rewrite (nth_upd_nth_same f _ _ _ En). reflexivity.
    + cbn. apply nth_error_None. rewrite length_upd_nth. apply nth_error_None. exact En.
  - apply nth_upd_nth_other. lia.
Qed.

Lemma ctl_deliver s p sg l q : ctl (deliver s p sg l) q = ctl s q.
Proof. rewrite !ctl_tab, ctab_deliver. reflexivity. Qed.

(* a worker flagged `controlled` stays flagged; the flagged one is flagged *)
Lemma ctl_mark s p f q :
  (forall x, controlled (f x) = true) ->
  ctl (set_proc s p f) q = if q =? p then (match get_proc s q with Some _ => true | None => false end) else ctl s q.
Proof.
  intros Hf. unfold ctl. rewrite get_proc_set_proc. destruct (q =? p); [|reflexivity].
  destruct (get_proc s q); cbn; [apply Hf|reflexivity].
Qed.

Lemma valid_get_proc s p : 0 <= p < Z.of_nat (length (procs s)) -> exists q, get_proc s p = Some q.
Proof.
  intros H. unfold get_proc. replace (p <? 0) with false by lia.
  destruct (nth_error (procs s) (Z.to_nat p)) as [q|] eqn:E; [eauto|].
  apply nth_error_None in E. lia.
Qed.

(* ---- terminate_job *)
Lemma cnt_terminate_job s p sg :
  cnt (fst (do_terminate_job s p sg)) <= cnt s /\ nprocs (fst (do_terminate_job s p sg)) = nprocs s.
Proof.
  unfold do_terminate_job. destruct (in_pool s p); cbn [fst]; [|split; [lia|reflexivity]].
  split; [|reflexivity]. unfold cnt, uncontrolled.
  change (wlist (set_proc ?a ?b ?c)) with (wlist a).
  change (wlist (deliver ?a ?b ?c ?d)) with (wlist a).
  apply Nat2Z.inj_le. apply filter_length_mono. intros q _ Hq.
  rewrite ctl_mark in Hq by reflexivity. rewrite ctl_deliver in Hq.
  destruct (q =? p); [|exact Hq].
  unfold ctl. destruct (get_proc (deliver s p _ false) q) eqn:E; [discriminate|].
  assert (Hc : ctl (deliver s p (match py_or sg (Some SIGTERM) with Some v => v | None => SIGTERM end) false) q = false)
    by (unfold ctl; rewrite E; reflexivity).
  rewrite ctl_deliver in Hc. unfold ctl in Hc. rewrite Hc. reflexivity.
Qed.

(* ---- shrink: every victim lowers the size by one and leaves the unflagged workers *)
Lemma cnt_shrink_loop : forall ws i n s,
    NoDup ws ->
    (forall q, In q ws -> In q (wlist s) /\ ctl s q = false /\ 0 <= q < Z.of_nat (length (procs s))) ->
    cnt (fst (shrink_loop ws i n s)) - nprocs (fst (shrink_loop ws i n s)) <= cnt s - nprocs s.
Proof.
  induction ws as [|p r IH]; intros i n s Hnd Hv; cbn [shrink_loop fst]; [lia|].
  match goal with |- cnt (fst (if ?c then (?a, _) else _)) - _ <= _ => set (s1 := a) end.
  inversion Hnd as [|x xs Hnotin Hnd']; subst.
  destruct (Hv p (or_introl eq_refl)) as (Hin & Hc & Hval).
  assert (Hw1 : wlist s1 = wlist s) by reflexivity.
  assert (Hn1 : nprocs s1 = nprocs s - 1) by reflexivity.
  assert (Hl1 : length (procs s1) = length (procs s)).
  { unfold s1. rewrite procs_len_deliver, procs_len_set_proc. reflexivity. }
  assert (Hctl : forall q, ctl s1 q = if q =? p then true else ctl s q).
  { intros q. unfold s1. rewrite ctl_deliver, ctl_mark by reflexivity.
    destruct (q =? p) eqn:E; [|reflexivity].
    assert (q = p) by lia. subst q.
    destruct (valid_get_proc s p Hval) as (x & Hx).
    change (get_proc (with_sem (with_nprocs s (nprocs s - 1)) _) p) with (get_proc s p).
    rewrite Hx. reflexivity. }
  assert (Hcnt : cnt s1 + 1 <= cnt s).
  { unfold cnt, uncontrolled. rewrite Hw1.
    assert (H : (length (filter (fun q => negb (ctl s1 q)) (wlist s))
                 < length (filter (fun q => negb (ctl s q)) (wlist s)))%nat).
    { apply (filter_length_strict _ _ _ p).
      - intros q _ Hq. rewrite Hctl in Hq. destruct (q =? p); [discriminate|exact Hq].
      - exact Hin.
      - rewrite Hc. reflexivity.
      - rewrite Hctl, Z.eqb_refl. reflexivity. }
    lia. }
  destruct (n - 1 <=? i); cbn [fst]; [lia|].
  assert (H := IH (i + 1) n s1 Hnd').
  assert (Hv1 : forall q, In q r -> In q (wlist s1) /\ ctl s1 q = false /\ 0 <= q < Z.of_nat (length (procs s1))).
  { intros q Hq. destruct (Hv q (or_intror Hq)) as (A & B & C). rewrite Hw1, Hl1, Hctl.
    split; [exact A|]. split; [|exact C].
    destruct (q =? p) eqn:E; [|exact B]. exfalso. assert (q = p) by lia. subst q. auto. }
  specialize (H Hv1). lia.
Qed.

Lemma WInv_wlist_nodup s : WInv s -> NoDup (wlist s).
Proof. intros [H _]. apply NoDup_map_inv in H. exact H. Qed.

Lemma cnt_shrink s n :
  WInv s ->
  cnt (fst (do_shrink s n)) - nprocs (fst (do_shrink s n)) <= cnt s - nprocs s.
Proof.
  intros Hw. unfold do_shrink. destruct (inactive s) as [|w ws] eqn:Ei; [cbn [fst]; lia|].
  destruct (LaxSem.value (sem s) <? _); [cbn [fst]; lia|].
  rewrite <- Ei. apply cnt_shrink_loop.
  - unfold inactive. apply NoDup_filter. apply WInv_wlist_nodup. exact Hw.
  - intros q Hq. unfold inactive in Hq. apply filter_In in Hq. destruct Hq as [Hin Hf].
    split; [exact Hin|]. split; [|apply (proj2 Hw); exact Hin].
    apply andb_true_iff in Hf. destruct Hf as [_ Hf]. apply negb_true_iff in Hf. exact Hf.
Qed.

(* ---- the supervision pass *)
Lemma ctl_start_worker s ix q : ctl (start_worker s ix) q = ctl s q.
Proof.
  unfold ctl, get_proc. cbn [procs start_worker]. destruct (q <? 0); [reflexivity|].
  destruct (nth_error (procs s) (Z.to_nat q)) as [x|] eqn:E.
  - rewrite nth_error_app1 by (apply nth_error_Some; congruence). rewrite E. reflexivity.
  - apply nth_error_None in E. rewrite nth_error_app2 by exact E.
    destruct (Z.to_nat q - length (procs s))%nat as [|k]; cbn; [reflexivity|].
    destruct k; reflexivity.
Qed.

Lemma cnt_start_worker s ix : cnt (start_worker s ix) <= cnt s + 1.
Proof.
  unfold cnt, uncontrolled. cbn [wlist start_worker].
  rewrite (filter_ext_eq _ (fun p => negb (ctl s p))) by (intros a; rewrite ctl_start_worker; reflexivity).
  rewrite filter_app, app_length. cbn [filter].
  destruct (negb (ctl s (Z.of_nat (length (procs s))))); cbn [length]; lia.
Qed.

Lemma cnt_repopulate : forall fuel i codes s,
    cnt (fst (repopulate fuel i codes s)) <= cnt s + Z.of_nat fuel.
Proof.
  induction fuel as [|f IH]; intros i codes s; cbn [repopulate]; [cbn [fst]; lia|].
  destruct (negb (pstate s =? 0)); [cbn [fst]; lia|].
  match goal with |- context [if ?c then Restart.step (rst s) (now s) else (rst s, false)] =>
    destruct (if c then Restart.step (rst s) (now s) else (rst s, false)) as [r raised] end.
  change (cnt s) with (cnt (with_rst s r)).
  destruct raised; [cbn [fst]; lia|].
  destruct (avail_index (with_rst s r)) as [ix|]; [|cbn [fst]; lia].
  specialize (IH (S i) codes (start_worker (with_rst s r) ix)).
  pose proof (cnt_start_worker (with_rst s r) ix). lia.
Qed.

Lemma nprocs_repopulate fuel i codes s : nprocs (fst (repopulate fuel i codes s)) = nprocs s.
Proof. pose proof (sn_repopulate fuel i codes s) as H. unfold sn in H. congruence. Qed.

Lemma cnt_join_exited s :
  cnt (fst (join_exited s)) <= cnt s
  /\ cnt (fst (join_exited s)) <= Z.of_nat (length (wlist (fst (join_exited s))))
  /\ nprocs (fst (join_exited s)) = nprocs s.
Proof.
  destruct (join_exited_shape s) as (Hw & Hn & _).
  pose proof (procs_join_exited s) as Hp.
  assert (Hc : forall q, ctl (fst (join_exited s)) q = ctl s q)
    by (intros q; unfold ctl, get_proc; rewrite Hp; reflexivity).
  unfold cnt, uncontrolled. rewrite Hw.
  rewrite (filter_ext_eq _ (fun p => negb (ctl s p))) by (intros a; rewrite Hc; reflexivity).
  split; [|split; [|exact Hn]].
  - apply Nat2Z.inj_le. unfold kept. generalize (wlist s). intros l.
    induction l as [|a l IH]; cbn; [lia|].
    destruct (negb (exited s a)); cbn; destruct (negb (ctl s a)); cbn; lia.
  - apply Nat2Z.inj_le. apply filter_length_le_all.
Qed.

(* the replacement loop run with at most `missing` iterations from the state the reaping step
   leaves never takes the unflagged workers above the size *)
Lemma cnt_pass s1 fuel i codes :
  cnt s1 <= nprocs s1 -> cnt s1 <= Z.of_nat (length (wlist s1)) ->
  (fuel <= Z.to_nat (nprocs s1 - Z.of_nat (length (wlist s1))))%nat ->
  cnt (fst (repopulate fuel i codes s1)) <= nprocs (fst (repopulate fuel i codes s1)).
Proof.
  intros H1 H2 Hf. rewrite nprocs_repopulate. pose proof (cnt_repopulate fuel i codes s1). lia.
Qed.

Lemma cnt_do_tick s : cnt s <= nprocs s -> cnt (fst (do_tick s)) <= nprocs (fst (do_tick s)).
Proof.
  intros H. unfold do_tick. destruct (cnt_join_exited s) as (A & B & C).
  destruct (join_exited s) as [s1 codes]. cbn [fst] in *.
  pose proof (cnt_pass s1 (Z.to_nat (nprocs s1 - Z.of_nat (length (wlist s1)))) 0 codes ltac:(lia) B ltac:(lia)) as Hp.
  destruct (repopulate _ 0 codes s1) as [s2 r]. cbn [fst] in Hp.
  destruct r; cbn [fst]; exact Hp.
Qed.

Lemma cnt_do_tick_close s k :
  cnt s <= nprocs s -> cnt (fst (do_tick_close s k)) <= nprocs (fst (do_tick_close s k)).
Proof.
  intros H. pose proof (cnt_do_tick s H) as Ht. unfold do_tick_close.
  destruct (cnt_join_exited s) as (A & B & C).
  destruct (join_exited s) as [s1 codes]. cbn [fst] in *.
  destruct (Z.to_nat (nprocs s1 - Z.of_nat (length (wlist s1))) <=? k)%nat eqn:E; [exact Ht|].
  apply Nat.leb_gt in E.
  pose proof (cnt_pass s1 (S k) 0 codes ltac:(lia) B ltac:(lia)) as Hp.
  destruct (repopulate (S k) 0 codes s1) as [s2 r]. cbn [fst] in Hp.
  destruct r; cbn [fst]; try exact Hp.
  unfold release_n, do_close. destruct (pstate s2 =? 0); exact Hp.
Qed.

Lemma cnt_do_join_shutdown s :
  cnt s <= nprocs s -> cnt (fst (do_join_shutdown s)) <= nprocs (fst (do_join_shutdown s)).
Proof.
  intros H. unfold do_join_shutdown. destruct (wlist s) eqn:Ew; cbn [fst].
  - exact H.
  - destruct (cnt_join_exited s) as (A & _ & C). lia.
Qed.

(* ---- every event *)
Definition SzInv (s : pool) : Prop := WInv s /\ cnt s <= nprocs s.

Theorem SzInv_step s e :
  0 <= match e with EGrow n => n | _ => 0 end -> SzInv s -> SzInv (fst (step s e)).
Proof.
  intros Hg [Hw Hc]. split; [apply WInv_step; exact Hw|].
  destruct (frame_event e) eqn:Ef.
  - pose proof (f_equal fst (fr_step s e Ef)) as H1. unfold fr in H1. cbn [fst] in H1.
    destruct (cwn_uncontrolled _ _ H1) as [A B]. unfold cnt. rewrite A, B. exact Hc.
  - assert (Hw0 : WInv (with_sigs s [])) by exact Hw.
    assert (Hc0 : cnt (with_sigs s []) <= nprocs (with_sigs s [])) by exact Hc.
    destruct e; try discriminate; unfold step.
    + destruct (cwn_uncontrolled _ _ (cwn_ack s j i p)) as [A B]. unfold step in A, B.
      unfold cnt. rewrite A, B. exact Hc.
    + exact Hc.
    + apply cnt_do_tick. exact Hc0.
    + destruct (cnt_terminate_job (with_sigs s []) p sig) as [A B]. rewrite B. lia.
    + cbn [fst]. change (cnt (with_sem (with_nprocs (with_sigs s []) ?a) ?b)) with (cnt s).
      cbn [nprocs with_sem with_nprocs with_sigs]. cbn in Hg. lia.
    + pose proof (cnt_shrink (with_sigs s []) n Hw0). lia.
    + apply cnt_do_tick_close. exact Hc0.
    + apply cnt_do_join_shutdown. exact Hc0.
Qed.

Lemma cnt_start_n : forall n i s, cnt (start_n n i s) <= cnt s + Z.of_nat n /\ nprocs (start_n n i s) = nprocs s.
Proof.
  induction n as [|n IH]; intros i s; cbn [start_n]; [split; [lia|reflexivity]|].
  destruct (IH (i + 1) (start_worker s i)) as [A B]. pose proof (cnt_start_worker s i).
  split; [lia|]. rewrite B. reflexivity.
Qed.

Lemma SzInv_init c : 0 <= c_n c -> SzInv (init c).
Proof.
  intros Hn. split; [apply WInv_init; exact Hn|]. unfold init.
  match goal with |- cnt (start_n ?n 0 ?s0) <= _ => destruct (cnt_start_n n 0 s0) as [A B]; rewrite B end.
  cbn [nprocs]. change (cnt (mkpool [] [] [] _ _ _ _ _ _ _ _ _ _ _ _ _ _)) with 0 in A. lia.
Qed.

Lemma SzInv_run_from : forall tr s, grows_nonneg tr -> SzInv s -> SzInv (run_from s tr).
Proof.
  unfold run_from. induction tr as [|e tr IH]; intros s Hg H; cbn; [exact H|].
  inversion Hg as [|e' l' He Hl]; subst. apply IH; [exact Hl|]. apply SzInv_step; [|exact H].
  destruct e; lia.
Qed.

(* C09 "never above": in every reachable state -- any configuration, any history of
   submissions, results, exits, passes, scans, grow (by a non-negative count), shrink,
   terminate_job, close ... -- the workers of the pool list that are not being stopped are at
   most as many as the configured size (as adjusted by grow and shrink) *)
Theorem never_above_size c tr :
  0 <= c_n c -> grows_nonneg tr ->
  let s := run c tr in
  Z.of_nat (length (filter (fun p => negb (ctl s p)) (wlist s))) <= nprocs s.
Proof.
  intros Hn Hg. exact (proj2 (SzInv_run_from tr (init c) Hg (SzInv_init c Hn))).
Qed.

(* the whole list can be longer only by workers that are being stopped *)
Corollary size_exceeded_only_by_stopping_workers c tr :
  0 <= c_n c -> grows_nonneg tr ->
  let s := run c tr in
  Z.of_nat (length (wlist s)) <= nprocs s + Z.of_nat (length (filter (ctl s) (wlist s))).
Proof.
  intros Hn Hg s. pose proof (never_above_size c tr Hn Hg) as H. fold s in H. cbn zeta in H.
  assert (E : forall l, length l = (length (filter (fun p => negb (ctl s p)) l) + length (filter (ctl s) l))%nat).
  { induction l as [|a l IH]; cbn; [reflexivity|]. destruct (ctl s a); cbn; lia. }
  rewrite (E (wlist s)). lia.
Qed.

(* the hypothesis on grow is needed in the MODEL (EGrow n lowers the size for n < 0, whereas
   Pool.grow(n) is `for i in range(n)`, a no-op): *)
Example never_above_needs_nonneg_grow :
  let s := run (mkcfg 2 None None None None 1 false false) [EGrow (-1)] in
  (Z.of_nat (length (filter (fun p => negb (ctl s p)) (wlist s))), nprocs s) = (2, 1).
Proof. vm_compute. reflexivity. Qed.

(* non-vacuity: a history with shrink, grow, terminate_job, exits, close in the middle of a pass *)
Definition sz_cfg := mkcfg 3 None None None (Some 2) 100 false false.
Definition sz_tr : list event :=
  [EShrink 1; ETick; EGrow 2; ETick; ETerminateJob 4 None; ETick; EExit 1 1; EExit 2 0; EGrow 1;
   ETickClose 1; EJoinShutdown].
Example never_above_size_witness :
  grows_nonneg sz_tr /\
  let s := run sz_cfg sz_tr in
  (Z.of_nat (length (filter (fun p => negb (ctl s p)) (wlist s))), nprocs s, wlist s) = (4, 5, [3; 5; 6; 7]).
Proof.
  split; [repeat constructor; lia|]. vm_compute. reflexivity.
Qed.
