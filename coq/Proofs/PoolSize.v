(* History-level theorems about the parent-side pool model asked for by the audit
   docs/audit/c09c10c11.md:
     C09  "never above the configured size" as an invariant of all reachable states,
          the lifted supervision-pass theorem (clean pass), no exited worker left in the list;
     C11  the restart limiter at pool level: its invariant in every reachable state, exactly
          which events touch it and how a pass charges it, the window budget for passes and
          for histories of passes (derived from RestartProofs.window_budget). *)
From Coq Require Import ZArith List Bool Lia ZifyBool.
From BV Require Import Lib.Cases Model.LaxSem Model.Restart Model.Pool
     Proofs.LaxSemProofs Proofs.RestartProofs Proofs.PoolJobs Proofs.PoolInv Proofs.PoolTick
     Proofs.PoolSup Proofs.PoolIdx Proofs.PoolSem.
Import ListNotations.
Open Scope Z_scope.

(* ================================================================ vocabulary *)
(* the worker is being stopped on purpose (shrink / terminate_job set this flag); exactly the
   test Pool.shrink uses to skip such workers (Pool.inactive) *)
Definition ctl (s : pool) (p : Z) : bool :=
  match get_proc s p with Some q => controlled q | None => false end.

(* the workers of the pool list that are not being stopped *)
Definition uncontrolled (s : pool) : list Z := filter (fun p => negb (ctl s p)) (wlist s).

Definition ctab (s : pool) : list bool := map controlled (procs s).
Definition ctl_of (tab : list bool) (p : Z) : bool :=
  if p <? 0 then false else nth (Z.to_nat p) tab false.

Lemma ctl_tab s p : ctl s p = ctl_of (ctab s) p.
Proof.
  unfold ctl, ctl_of, ctab, get_proc. destruct (p <? 0); [reflexivity|].
  destruct (nth_error (procs s) (Z.to_nat p)) as [q|] eqn:E.
  - symmetry. apply nth_error_nth. rewrite nth_error_map, E. reflexivity.
  - symmetry. apply nth_overflow. rewrite map_length. apply nth_error_None. exact E.
Qed.

Lemma uncontrolled_tab s :
  uncontrolled s = filter (fun p => negb (ctl_of (ctab s) p)) (wlist s).
Proof. unfold uncontrolled. apply filter_ext_eq. intros p. rewrite ctl_tab. reflexivity. Qed.

(* what the size invariant reads *)
Definition cwn (s : pool) := (wlist s, ctab s, nprocs s).
(* ... and the limiter *)
Definition fr (s : pool) := (cwn s, rst s).

Lemma cwn_uncontrolled s s' : cwn s' = cwn s -> uncontrolled s' = uncontrolled s /\ nprocs s' = nprocs s.
Proof.
  unfold cwn. intros H. inversion H as [[Hw Hc Hn]]. rewrite !uncontrolled_tab, Hw, Hc. auto.
Qed.

Lemma map_upd_nth {A B} (g : A -> B) (f : A -> A) :
  (forall q, g (f q) = g q) -> forall l n, map g (upd_nth n f l) = map g l.
Proof.
  intros Hf. induction l as [|a l IH]; intros [|n]; cbn; try reflexivity.
  - rewrite Hf. reflexivity.
  - rewrite IH. reflexivity.
Qed.

Lemma ctab_set_proc s p f : (forall q, controlled (f q) = controlled q) -> ctab (set_proc s p f) = ctab s.
Proof.
  intros Hf. unfold ctab, set_proc. cbn [procs]. destruct (p <? 0); [reflexivity|].
  apply map_upd_nth. exact Hf.
Qed.

Lemma ctab_deliver s p sg l : ctab (deliver s p sg l) = ctab s.
Proof.
  unfold deliver. rewrite ctab_set_proc; [reflexivity|].
  intros q. destruct (pexit q); [reflexivity|]. destruct (sg =? SIGKILL); [reflexivity|].
  destruct ((sg =? SIGTERM) && negb l); reflexivity.
Qed.

Lemma fr_deliver s p sg l : fr (deliver s p sg l) = fr s.
Proof. unfold fr, cwn. rewrite ctab_deliver. reflexivity. Qed.

Lemma fr_scan_job l s j : fr (scan_job l s j) = fr s.
Proof.
  unfold scan_job. destruct (get_job s j) as [x|]; [|reflexivity].
  destruct (kind x); try reflexivity. destruct (time_accepted x) as [t|]; [|reflexivity].
  destruct (timed_out s (Some t) (eff_hard s x)).
  - unfold on_hard. destruct (ready x); [reflexivity|].
    destruct (owner x) as [p|]; [|reflexivity].
    destruct (in_pool _ p); [|reflexivity].
    destruct (negb (exit_of _ p =? 0) && exited _ p); rewrite ?fr_deliver; reflexivity.
  - destruct (negb (memZ j (dirty s)) && timed_out s (Some t) (eff_soft s x)); [|reflexivity].
    change (fr (with_dirty ?a ?b)) with (fr a). unfold on_soft. destruct (ready x); [reflexivity|].
    destruct (owner x) as [p|]; [|reflexivity]. destruct (in_pool s p); [|reflexivity].
    rewrite fr_deliver. reflexivity.
Qed.

(* the events that touch neither the worker list, nor a `controlled` flag, nor the configured
   size, nor the restart limiter *)
Definition frame_event (e : event) : bool :=
  match e with
  | ETick | ETickClose _ | EJoinShutdown | ETerminateJob _ _ | EShrink _ | EGrow _
  | EAck _ _ _ | EStaleAck _ => false
  | _ => true
  end.

Lemma fr_step s e : frame_event e = true -> fr (fst (step s e)) = fr s.
Proof.
  intros He. destruct e; try discriminate; unfold step; cbn [fst]; try reflexivity.
  - unfold do_apply.
    destruct (negb (pstate (with_sigs s []) =? 0)); [reflexivity|].
    destruct ((match slot with Some b => b | None => putlocks (with_sigs s []) end) && (LaxSem.value (sem (with_sigs s [])) =? 0)); [reflexivity|]. cbn [fst].
    destruct (match slot with Some b => b | None => putlocks (with_sigs s []) end); reflexivity.
  - unfold do_map. destruct (negb (pstate (with_sigs s []) =? 0)); reflexivity.
  - unfold do_imap. destruct (negb (pstate (with_sigs s []) =? 0)); reflexivity.
  - unfold do_imap. destruct (negb (pstate (with_sigs s []) =? 0)); reflexivity.
  - change (fr (fst (do_feed (with_sigs s []) fail_at io)) = fr (with_sigs s [])).
    generalize (with_sigs s []). intros s0. unfold do_feed.
    assert (Hft : forall fuel i j k fa io0 s1, fr (fst (fst (feed_tasks fuel i j k fa io0 s1))) = fr s1).
    { induction fuel as [|f IH]; intros; cbn [feed_tasks]; [reflexivity|].
      destruct (okey_eqb (Some k) fa); [|apply IH]. destruct io0; [reflexivity|].
      rewrite IH. destruct (cached s1 j) as [x|]; [|reflexivity].
      destruct (kind x); try reflexivity. destruct (ready x); reflexivity. }
    assert (Hfs : forall fs k fa io0 s1, fr (fst (fst (do_feeds fs k fa io0 s1))) = fr s1).
    { induction fs as [|[[j n] sl] r IH]; intros; cbn [do_feeds]; [reflexivity|].
      pose proof (Hft (Z.to_nat n) 0 j k fa io0 s1) as H0.
      destruct (feed_tasks (Z.to_nat n) 0 j k fa io0 s1) as [[s2 k2] st]. cbn [fst] in H0.
      destruct st; [exact H0|].
      destruct sl.
      - destruct (get_job s2 j) as [x|].
        + destruct (snd (set_length x n)); cbn [fst]; [exact H0|]. rewrite IH. exact H0.
        + rewrite IH. exact H0.
      - rewrite IH. exact H0. }
    pose proof (Hfs (feeds s0) 0 fail_at io s0) as H0.
    destruct (do_feeds (feeds s0) 0 fail_at io s0) as [[s1 rest] r]. cbn [fst] in *. rewrite <- H0. reflexivity.
  - unfold do_ready. destruct (cached _ j) as [x|]; [|reflexivity]. cbn [fst].
    change (fr (set_job ?a ?b ?c)) with (fr a). unfold bump_counter.
    destruct (ready x); destruct (worker_pids x) as [|p0 l0]; try reflexivity;
      destruct (in_pool _ p0); try reflexivity; unfold fr, cwn; cbn [wlist nprocs rst with_sem set_proc];
        try (change (ctab (with_sem ?a ?b)) with (ctab a)); rewrite ctab_set_proc; reflexivity.
  - rewrite fr_deliver. reflexivity.
  - unfold fr, cwn. cbn [wlist nprocs rst set_proc]. rewrite ctab_set_proc; [reflexivity|].
    intros q. destruct (pexit q); reflexivity.
  - change (fr (fst (do_scan (with_sigs s []) lingers)) = fr (with_sigs s [])).
    generalize (with_sigs s []). intros s0. unfold do_scan.
    destruct (negb (scanner s0)); [reflexivity|]. cbn [fst].
    assert (Hfold : forall snap s1, fr (fold_left (scan_job lingers) snap s1) = fr s1).
    { induction snap as [|j snap IH]; intros s1; cbn; [reflexivity|]. rewrite IH. apply fr_scan_job. }
    rewrite Hfold. reflexivity.
  - destruct (negb (scanner _)); reflexivity.
  - destruct (scan_todo _) as [|j0 r0]; cbn [fst]; [reflexivity|].
    change (fr (with_todo ?a ?b)) with (fr a). rewrite fr_scan_job. reflexivity.
  - unfold do_close. destruct (pstate _ =? 0); reflexivity.
  - unfold do_next. destruct (get_job _ j) as [x|]; [|reflexivity].
    destruct (negb (is_imap x)); [reflexivity|].
    destruct (items x); [destruct (okey_eqb _ _)|]; reflexivity.
  - unfold do_apply_q, do_apply.
    destruct (negb (pstate (with_sigs s []) =? 0)); [reflexivity|].
    destruct ((match slot with Some b => b | None => putlocks (with_sigs s []) end) && (LaxSem.value (sem (with_sigs s [])) =? 0)); [reflexivity|]. cbn [fst].
    destruct (match slot with Some b => b | None => putlocks (with_sigs s []) end); reflexivity.
  - unfold do_apply_unsendable. destruct (negb (pstate _ =? 0)); [reflexivity|]. destruct (_ && _); reflexivity.
Qed.

(* acknowledgements touch the limiter only *)
Lemma cwn_ack s j i p : cwn (fst (step s (EAck j i p))) = cwn s.
Proof.
  unfold step, do_ack. destruct (cached _ j) as [x|]; [|reflexivity].
  destruct (kind x); try reflexivity. destruct i; reflexivity.
Qed.
Lemma cwn_stale_ack s p : cwn (fst (step s (EStaleAck p))) = cwn s.
Proof. reflexivity. Qed.

(* ================================================================ 1. C09 "never above" *)
Definition cnt (s : pool) : Z := Z.of_nat (length (uncontrolled s)).

Lemma filter_length_mono {A} (f g : A -> bool) l :
  (forall a, In a l -> f a = true -> g a = true) ->
  (length (filter f l) <= length (filter g l))%nat.
Proof.
  induction l as [|a l IH]; intros H; cbn; [lia|].
  assert (IH' : (length (filter f l) <= length (filter g l))%nat)
    by (apply IH; intros b Hb; apply H; right; exact Hb).
  destruct (f a) eqn:Ef.
  - rewrite (H a (or_introl eq_refl) Ef). cbn. lia.
  - destruct (g a); cbn; lia.
Qed.

Lemma filter_length_strict {A} (f g : A -> bool) l p :
  (forall a, In a l -> f a = true -> g a = true) ->
  In p l -> g p = true -> f p = false ->
  (length (filter f l) < length (filter g l))%nat.
Proof.
  induction l as [|a l IH]; intros H Hin Hg Hf; [destruct Hin|]. cbn.
  assert (Hm : (length (filter f l) <= length (filter g l))%nat)
    by (apply filter_length_mono; intros b Hb; apply H; right; exact Hb).
  destruct Hin as [->|Hin].
  - rewrite Hg, Hf. cbn. lia.
  - assert (IH' : (length (filter f l) < length (filter g l))%nat)
      by (apply IH; auto; intros b Hb; apply H; right; exact Hb).
    destruct (f a) eqn:Ef.
    + rewrite (H a (or_introl eq_refl) Ef). cbn. lia.
    + destruct (g a); cbn; lia.
Qed.

Lemma filter_length_le_all {A} (f : A -> bool) l : (length (filter f l) <= length l)%nat.
Proof. induction l as [|a l IH]; cbn; [lia|]. destruct (f a); cbn; lia. Qed.

Lemma get_proc_set_proc s p f q :
  get_proc (set_proc s p f) q = if q =? p then option_map f (get_proc s q) else get_proc s q.
Proof.
  unfold get_proc, set_proc. cbn [procs].
  destruct (q <? 0) eqn:Eq; [destruct (q =? p); reflexivity|].
  destruct (p <? 0) eqn:Ep; [replace (q =? p) with false by lia; reflexivity|].
  destruct (q =? p) eqn:E.
  - assert (q = p) by lia. subst q.
    destruct (nth_error (procs s) (Z.to_nat p)) as [x|] eqn:En.
    + rewrite (nth_upd_nth_same f _ _ _ En). reflexivity.
    + cbn. apply nth_error_None. rewrite length_upd_nth. apply nth_error_None. exact En.
  - apply nth_upd_nth_other. lia.
Qed.

Lemma ctl_deliver s p sg l q : ctl (deliver s p sg l) q = ctl s q.
Proof. rewrite !ctl_tab, ctab_deliver. reflexivity. Qed.

(* a worker flagged `controlled` stays flagged; the flagged one is flagged *)
Lemma ctl_mark s p f q :
  (forall x, controlled (f x) = true) ->
  ctl (set_proc s p f) q = if q =? p then (match get_proc s q with Some _ => true | None => false end) else ctl s q.
Proof.
  intros Hf. unfold ctl. rewrite get_proc_set_proc. destruct (q =? p); [|reflexivity].
  destruct (get_proc s q); cbn; [apply Hf|reflexivity].
Qed.

Lemma valid_get_proc s p : 0 <= p < Z.of_nat (length (procs s)) -> exists q, get_proc s p = Some q.
Proof.
  intros H. unfold get_proc. replace (p <? 0) with false by lia.
  destruct (nth_error (procs s) (Z.to_nat p)) as [q|] eqn:E; [eauto|].
  apply nth_error_None in E. lia.
Qed.

(* ---- terminate_job *)
Lemma cnt_terminate_job s p sg :
  cnt (fst (do_terminate_job s p sg)) <= cnt s /\ nprocs (fst (do_terminate_job s p sg)) = nprocs s.
Proof.
  unfold do_terminate_job. destruct (in_pool s p); cbn [fst]; [|split; [lia|reflexivity]].
  split; [|reflexivity]. unfold cnt, uncontrolled.
  change (wlist (set_proc ?a ?b ?c)) with (wlist a).
  change (wlist (deliver ?a ?b ?c ?d)) with (wlist a).
  apply Nat2Z.inj_le. apply filter_length_mono. intros q _ Hq.
  rewrite ctl_mark in Hq by reflexivity. rewrite ctl_deliver in Hq.
  destruct (q =? p); [|exact Hq].
  unfold ctl. destruct (get_proc (deliver s p _ false) q) eqn:E; [discriminate|].
  assert (Hc : ctl (deliver s p (match py_or sg (Some SIGTERM) with Some v => v | None => SIGTERM end) false) q = false)
    by (unfold ctl; rewrite E; reflexivity).
  rewrite ctl_deliver in Hc. unfold ctl in Hc. rewrite Hc. reflexivity.
Qed.

(* ---- shrink: every victim lowers the size by one and leaves the unflagged workers *)
Lemma cnt_shrink_loop : forall ws i n s,
    NoDup ws ->
    (forall q, In q ws -> In q (wlist s) /\ ctl s q = false /\ 0 <= q < Z.of_nat (length (procs s))) ->
    cnt (fst (shrink_loop ws i n s)) - nprocs (fst (shrink_loop ws i n s)) <= cnt s - nprocs s.
Proof.
  induction ws as [|p r IH]; intros i n s Hnd Hv; cbn [shrink_loop fst]; [lia|].
  match goal with |- cnt (fst (if ?c then (?a, _) else _)) - _ <= _ => set (s1 := a) end.
  inversion Hnd as [|x xs Hnotin Hnd']; subst.
  destruct (Hv p (or_introl eq_refl)) as (Hin & Hc & Hval).
  assert (Hw1 : wlist s1 = wlist s) by reflexivity.
  assert (Hn1 : nprocs s1 = nprocs s - 1) by reflexivity.
  assert (Hl1 : length (procs s1) = length (procs s)).
  { unfold s1. rewrite procs_len_deliver, procs_len_set_proc. reflexivity. }
  assert (Hctl : forall q, ctl s1 q = if q =? p then true else ctl s q).
  { intros q. unfold s1. rewrite ctl_deliver, ctl_mark by reflexivity.
    destruct (q =? p) eqn:E; [|reflexivity].
    assert (q = p) by lia. subst q.
    destruct (valid_get_proc s p Hval) as (x & Hx).
    change (get_proc (with_sem (with_nprocs s (nprocs s - 1)) _) p) with (get_proc s p).
    rewrite Hx. reflexivity. }
  assert (Hcnt : cnt s1 + 1 <= cnt s).
  { unfold cnt, uncontrolled. rewrite Hw1.
    assert (H : (length (filter (fun q => negb (ctl s1 q)) (wlist s))
                 < length (filter (fun q => negb (ctl s q)) (wlist s)))%nat).
    { apply (filter_length_strict _ _ _ p).
      - intros q _ Hq. rewrite Hctl in Hq. destruct (q =? p); [discriminate|exact Hq].
      - exact Hin.
      - rewrite Hc. reflexivity.
      - rewrite Hctl, Z.eqb_refl. reflexivity. }
    lia. }
  destruct (n - 1 <=? i); cbn [fst]; [lia|].
  assert (H := IH (i + 1) n s1 Hnd').
  assert (Hv1 : forall q, In q r -> In q (wlist s1) /\ ctl s1 q = false /\ 0 <= q < Z.of_nat (length (procs s1))).
  { intros q Hq. destruct (Hv q (or_intror Hq)) as (A & B & C). rewrite Hw1, Hl1, Hctl.
    split; [exact A|]. split; [|exact C].
    destruct (q =? p) eqn:E; [|exact B]. exfalso. assert (q = p) by lia. subst q. auto. }
  specialize (H Hv1). lia.
Qed.

Lemma WInv_wlist_nodup s : WInv s -> NoDup (wlist s).
Proof. intros [H _]. apply NoDup_map_inv in H. exact H. Qed.

Lemma cnt_shrink s n :
  WInv s ->
  cnt (fst (do_shrink s n)) - nprocs (fst (do_shrink s n)) <= cnt s - nprocs s.
Proof.
  intros Hw. unfold do_shrink. destruct (inactive s) as [|w ws] eqn:Ei; [cbn [fst]; lia|].
  destruct (LaxSem.value (sem s) <? _); [cbn [fst]; lia|].
  rewrite <- Ei. apply cnt_shrink_loop.
  - unfold inactive. apply NoDup_filter. apply WInv_wlist_nodup. exact Hw.
  - intros q Hq. unfold inactive in Hq. apply filter_In in Hq. destruct Hq as [Hin Hf].
    split; [exact Hin|]. split; [|apply (proj2 Hw); exact Hin].
    apply andb_true_iff in Hf. destruct Hf as [_ Hf]. apply negb_true_iff in Hf. exact Hf.
Qed.

(* ---- the supervision pass *)
Lemma ctl_start_worker s ix q : ctl (start_worker s ix) q = ctl s q.
Proof.
  unfold ctl, get_proc. cbn [procs start_worker]. destruct (q <? 0); [reflexivity|].
  destruct (nth_error (procs s) (Z.to_nat q)) as [x|] eqn:E.
  - rewrite nth_error_app1 by (apply nth_error_Some; congruence). rewrite E. reflexivity.
  - apply nth_error_None in E. rewrite nth_error_app2 by exact E.
    destruct (Z.to_nat q - length (procs s))%nat as [|k]; cbn; [reflexivity|].
    destruct k; reflexivity.
Qed.

Lemma cnt_start_worker s ix : cnt (start_worker s ix) <= cnt s + 1.
Proof.
  unfold cnt, uncontrolled. cbn [wlist start_worker].
  rewrite (filter_ext_eq _ (fun p => negb (ctl s p))) by (intros a; rewrite ctl_start_worker; reflexivity).
  rewrite filter_app, app_length. cbn [filter].
  destruct (negb (ctl s (Z.of_nat (length (procs s))))); cbn [length]; lia.
Qed.

Lemma cnt_repopulate : forall fuel i codes s,
    cnt (fst (repopulate fuel i codes s)) <= cnt s + Z.of_nat fuel.
Proof.
  induction fuel as [|f IH]; intros i codes s; cbn [repopulate]; [cbn [fst]; lia|].
  destruct (negb (pstate s =? 0)); [cbn [fst]; lia|].
  match goal with |- context [if ?c then Restart.step (rst s) (now s) else (rst s, false)] =>
    destruct (if c then Restart.step (rst s) (now s) else (rst s, false)) as [r raised] end.
  change (cnt s) with (cnt (with_rst s r)).
  destruct raised; [cbn [fst]; lia|].
  destruct (avail_index (with_rst s r)) as [ix|]; [|cbn [fst]; lia].
  specialize (IH (S i) codes (start_worker (with_rst s r) ix)).
  pose proof (cnt_start_worker (with_rst s r) ix). lia.
Qed.

Lemma nprocs_repopulate fuel i codes s : nprocs (fst (repopulate fuel i codes s)) = nprocs s.
Proof. pose proof (sn_repopulate fuel i codes s) as H. unfold sn in H. congruence. Qed.

Lemma cnt_join_exited s :
  cnt (fst (join_exited s)) <= cnt s
  /\ cnt (fst (join_exited s)) <= Z.of_nat (length (wlist (fst (join_exited s))))
  /\ nprocs (fst (join_exited s)) = nprocs s.
Proof.
  destruct (join_exited_shape s) as (Hw & Hn & _).
  pose proof (procs_join_exited s) as Hp.
  assert (Hc : forall q, ctl (fst (join_exited s)) q = ctl s q)
    by (intros q; unfold ctl, get_proc; rewrite Hp; reflexivity).
  unfold cnt, uncontrolled. rewrite Hw.
  rewrite (filter_ext_eq _ (fun p => negb (ctl s p))) by (intros a; rewrite Hc; reflexivity).
  split; [|split; [|exact Hn]].
  - apply Nat2Z.inj_le. unfold kept. generalize (wlist s). intros l.
    induction l as [|a l IH]; cbn; [lia|].
    destruct (negb (exited s a)); cbn; destruct (negb (ctl s a)); cbn; lia.
  - apply Nat2Z.inj_le. apply filter_length_le_all.
Qed.

(* the replacement loop run with at most `missing` iterations from the state the reaping step
   leaves never takes the unflagged workers above the size *)
Lemma cnt_pass s1 fuel i codes :
  cnt s1 <= nprocs s1 -> cnt s1 <= Z.of_nat (length (wlist s1)) ->
  (fuel <= Z.to_nat (nprocs s1 - Z.of_nat (length (wlist s1))))%nat ->
  cnt (fst (repopulate fuel i codes s1)) <= nprocs (fst (repopulate fuel i codes s1)).
Proof.
  intros H1 H2 Hf. rewrite nprocs_repopulate. pose proof (cnt_repopulate fuel i codes s1). lia.
Qed.

Lemma cnt_do_tick s : cnt s <= nprocs s -> cnt (fst (do_tick s)) <= nprocs (fst (do_tick s)).
Proof.
  intros H. unfold do_tick. destruct (cnt_join_exited s) as (A & B & C).
  destruct (join_exited s) as [s1 codes]. cbn [fst] in *.
  pose proof (cnt_pass s1 (Z.to_nat (nprocs s1 - Z.of_nat (length (wlist s1)))) 0 codes ltac:(lia) B ltac:(lia)) as Hp.
  destruct (repopulate _ 0 codes s1) as [s2 r]. cbn [fst] in Hp.
  destruct r; cbn [fst]; exact Hp.
Qed.

Lemma cnt_do_tick_close s k :
  cnt s <= nprocs s -> cnt (fst (do_tick_close s k)) <= nprocs (fst (do_tick_close s k)).
Proof.
  intros H. pose proof (cnt_do_tick s H) as Ht. unfold do_tick_close.
  destruct (cnt_join_exited s) as (A & B & C).
  destruct (join_exited s) as [s1 codes]. cbn [fst] in *.
  destruct (Z.to_nat (nprocs s1 - Z.of_nat (length (wlist s1))) <=? k)%nat eqn:E; [exact Ht|].
  apply Nat.leb_gt in E.
  pose proof (cnt_pass s1 (S k) 0 codes ltac:(lia) B ltac:(lia)) as Hp.
  destruct (repopulate (S k) 0 codes s1) as [s2 r]. cbn [fst] in Hp.
  destruct r; cbn [fst]; try exact Hp.
  unfold release_n, do_close. destruct (pstate s2 =? 0); exact Hp.
Qed.

Lemma cnt_do_join_shutdown s :
  cnt s <= nprocs s -> cnt (fst (do_join_shutdown s)) <= nprocs (fst (do_join_shutdown s)).
Proof.
  intros H. unfold do_join_shutdown. destruct (wlist s) eqn:Ew; cbn [fst].
  - exact H.
  - destruct (cnt_join_exited s) as (A & _ & C). lia.
Qed.

(* ---- every event *)
Definition SzInv (s : pool) : Prop := WInv s /\ cnt s <= nprocs s.

Theorem SzInv_step s e :
  0 <= match e with EGrow n => n | _ => 0 end -> SzInv s -> SzInv (fst (step s e)).
Proof.
  intros Hg [Hw Hc]. split; [apply WInv_step; exact Hw|].
  destruct (frame_event e) eqn:Ef.
  - pose proof (f_equal fst (fr_step s e Ef)) as H1. unfold fr in H1. cbn [fst] in H1.
    destruct (cwn_uncontrolled _ _ H1) as [A B]. unfold cnt. rewrite A, B. exact Hc.
  - assert (Hw0 : WInv (with_sigs s [])) by exact Hw.
    assert (Hc0 : cnt (with_sigs s []) <= nprocs (with_sigs s [])) by exact Hc.
    destruct e; try discriminate; unfold step.
    + destruct (cwn_uncontrolled _ _ (cwn_ack s j i p)) as [A B]. unfold step in A, B.
      unfold cnt. rewrite A, B. exact Hc.
    + exact Hc.
    + apply cnt_do_tick. exact Hc0.
    + destruct (cnt_terminate_job (with_sigs s []) p sig) as [A B]. rewrite B. lia.
    + cbn [fst]. change (cnt (with_sem (with_nprocs (with_sigs s []) ?a) ?b)) with (cnt s).
      cbn [nprocs with_sem with_nprocs with_sigs]. cbn in Hg. lia.
    + pose proof (cnt_shrink (with_sigs s []) n Hw0). lia.
    + apply cnt_do_tick_close. exact Hc0.
    + apply cnt_do_join_shutdown. exact Hc0.
Qed.

Lemma cnt_start_n : forall n i s, cnt (start_n n i s) <= cnt s + Z.of_nat n /\ nprocs (start_n n i s) = nprocs s.
Proof.
  induction n as [|n IH]; intros i s; cbn [start_n]; [split; [lia|reflexivity]|].
  destruct (IH (i + 1) (start_worker s i)) as [A B]. pose proof (cnt_start_worker s i).
  split; [lia|]. rewrite B. reflexivity.
Qed.

Lemma SzInv_init c : 0 <= c_n c -> SzInv (init c).
Proof.
  intros Hn. split; [apply WInv_init; exact Hn|]. unfold init.
  match goal with |- cnt (start_n ?n 0 ?s0) <= _ => destruct (cnt_start_n n 0 s0) as [A B]; rewrite B end.
  cbn [nprocs]. change (cnt (mkpool [] [] [] _ _ _ _ _ _ _ _ _ _ _ _ _ _)) with 0 in A. lia.
Qed.

Lemma SzInv_run_from : forall tr s, grows_nonneg tr -> SzInv s -> SzInv (run_from s tr).
Proof.
  unfold run_from. induction tr as [|e tr IH]; intros s Hg H; cbn; [exact H|].
  inversion Hg as [|e' l' He Hl]; subst. apply IH; [exact Hl|]. apply SzInv_step; [|exact H].
  destruct e; lia.
Qed.

(* C09 "never above": in every reachable state -- any configuration, any history of
   submissions, results, exits, passes, scans, grow (by a non-negative count), shrink,
   terminate_job, close ... -- the workers of the pool list that are not being stopped are at
   most as many as the configured size (as adjusted by grow and shrink) *)
Theorem never_above_size c tr :
  0 <= c_n c -> grows_nonneg tr ->
  let s := run c tr in
  Z.of_nat (length (filter (fun p => negb (ctl s p)) (wlist s))) <= nprocs s.
Proof.
  intros Hn Hg. exact (proj2 (SzInv_run_from tr (init c) Hg (SzInv_init c Hn))).
Qed.

(* the whole list can be longer only by workers that are being stopped *)
Corollary size_exceeded_only_by_stopping_workers c tr :
  0 <= c_n c -> grows_nonneg tr ->
  let s := run c tr in
  Z.of_nat (length (wlist s)) <= nprocs s + Z.of_nat (length (filter (ctl s) (wlist s))).
Proof.
  intros Hn Hg s. pose proof (never_above_size c tr Hn Hg) as H. fold s in H. cbn zeta in H.
  assert (E : forall l, length l = (length (filter (fun p => negb (ctl s p)) l) + length (filter (ctl s) l))%nat).
  { induction l as [|a l IH]; cbn; [reflexivity|]. destruct (ctl s a); cbn; lia. }
  rewrite (E (wlist s)). lia.
Qed.

(* the hypothesis on grow is needed in the MODEL (EGrow n lowers the size for n < 0, whereas
   Pool.grow(n) is `for i in range(n)`, a no-op): *)
Example never_above_needs_nonneg_grow :
  let s := run (mkcfg 2 None None None None 1 false false) [EGrow (-1)] in
  (Z.of_nat (length (filter (fun p => negb (ctl s p)) (wlist s))), nprocs s) = (2, 1).
Proof. vm_compute. reflexivity. Qed.

(* non-vacuity: a history with shrink, grow, terminate_job, exits, close in the middle of a pass *)
Definition sz_cfg := mkcfg 3 None None None (Some 2) 100 false false.
Definition sz_tr : list event :=
  [EShrink 1; ETick; EGrow 2; ETick; ETerminateJob 4 None; ETick; EExit 1 1; EExit 2 0; EGrow 1;
   ETickClose 1; EJoinShutdown].
Example never_above_size_witness :
  grows_nonneg sz_tr /\
  let s := run sz_cfg sz_tr in
  (Z.of_nat (length (filter (fun p => negb (ctl s p)) (wlist s))), nprocs s, wlist s) = (4, 5, [3; 5; 6; 7]).
Proof.
  split; [repeat constructor; lia|]. vm_compute. reflexivity.
Qed.

(* ================================================================ what one pass does, exactly *)
(* the exit statuses the reaping step hands to the replacement loop, and how many workers
   the loop is asked to start *)
Definition pass_codes (s : pool) : list Z := map (exit_of s) (reaped s).
Definition missing (s : pool) : nat := Z.to_nat (nprocs s - Z.of_nat (length (kept s))).

(* iteration i of Pool._repopulate_pool consults the limiter iff some worker was reaped by this
   pass and either exitcodes[i] is neither 0 nor EX_RECYCLE, or there is no exitcodes[i]
   (IndexError: more workers are missing than were reaped) *)
Definition charged (codes : list Z) (i : nat) : bool :=
  match codes with
  | [] => false
  | _ => match nth_error codes i with Some c => negb (clean_code c) | None => true end
  end.

(* the replacement loop seen from the limiter: final limiter, number of workers started, and
   whether restart_state.step() raised (then nothing more is started) *)
Fixpoint lim_loop (fuel i : nat) (codes : list Z) (now : Z) (r : rs) : rs * nat * bool :=
  match fuel with
  | O => (r, O, false)
  | S f =>
    let (r1, raised) := if charged codes i then Restart.step r now else (r, false) in
    if raised then (r1, O, true)
    else let '(r2, n, b) := lim_loop f (S i) codes now r1 in (r2, S n, b)
  end.

Lemma lim_loop_started : forall fuel i codes now r r2 n b,
    lim_loop fuel i codes now r = (r2, n, b) ->
    (n <= fuel)%nat /\ (b = false -> n = fuel) /\ (b = true -> (n < fuel)%nat /\ charged codes (i + n) = true).
Proof.
  induction fuel as [|f IH]; intros i codes now r r2 n b H; cbn [lim_loop] in H.
  - inversion H; subst. split; [lia|]. split; [reflexivity|discriminate].
  - destruct (charged codes i) eqn:Ec.
    + destruct (Restart.step r now) as [r1 raised]. destruct raised.
      * inversion H; subst. split; [lia|]. split; [discriminate|]. intros _. split; [lia|].
        rewrite Nat.add_0_r. exact Ec.
      * destruct (lim_loop f (S i) codes now r1) as [[r2' n'] b'] eqn:El. inversion H; subst.
        destruct (IH _ _ _ _ _ _ _ El) as (A & B & C). split; [lia|]. split.
        -- intros Hb. rewrite (B Hb). reflexivity.
        -- intros Hb. destruct (C Hb) as [C1 C2]. split; [lia|]. rewrite <- C2. f_equal. lia.
    + destruct (lim_loop f (S i) codes now r) as [[r2' n'] b'] eqn:El. inversion H; subst.
      destruct (IH _ _ _ _ _ _ _ El) as (A & B & C). split; [lia|]. split.
      * intros Hb. rewrite (B Hb). reflexivity.
      * intros Hb. destruct (C Hb) as [C1 C2]. split; [lia|]. rewrite <- C2. f_equal. lia.
Qed.

(* Pool._repopulate_pool in RUN state, asked for no more workers than the size allows: it never
   fails to find a slot index (no AssertionError), the limiter ends as lim_loop says, the workers
   started are appended to the list with the next process numbers, and the call raises
   RestartFreqExceeded exactly when the limiter did *)
Lemma repopulate_spec : forall fuel i codes s,
    pstate s = 0 ->
    ((0 < fuel)%nat -> Z.of_nat (length (wlist s)) + Z.of_nat fuel <= nprocs s) ->
    forall r2 n b, lim_loop fuel i codes (now s) (rst s) = (r2, n, b) ->
    exists s', repopulate fuel i codes s = (s', if b then RExc 10 else RNone)
               /\ rst s' = r2
               /\ wlist s' = wlist s ++ map Z.of_nat (seq (length (procs s)) n)
               /\ length (procs s') = (length (procs s) + n)%nat
               /\ pstate s' = 0.
Proof.
  induction fuel as [|f IH]; intros i codes s Hp Hg r2 n b Hl.
  - cbn [lim_loop] in Hl. inversion Hl; subst. exists s. cbn [repopulate seq map].
    rewrite app_nil_r, Nat.add_0_r. auto.
  - cbn [lim_loop] in Hl. cbn [repopulate]. rewrite Hp. cbn [Z.eqb negb].
    match goal with |- context [if ?c then Restart.step (rst s) (now s) else (rst s, false)] =>
      change c with (charged codes i) end.
    destruct (if charged codes i then Restart.step (rst s) (now s) else (rst s, false)) as [r1 raised].
    destruct raised.
    + inversion Hl; subst. exists (with_rst s r2). cbn [seq map]. rewrite app_nil_r, Nat.add_0_r. auto.
    + assert (Hlt : Z.of_nat (length (wlist (with_rst s r1))) < nprocs (with_rst s r1))
        by (cbn [wlist nprocs with_rst]; specialize (Hg ltac:(lia)); lia).
      destruct (avail_index_ok _ Hlt) as (ix & Hix & _). rewrite Hix.
      destruct (lim_loop f (S i) codes (now s) r1) as [[r2' n'] b'] eqn:El. inversion Hl; subst.
      set (s1 := start_worker (with_rst s r1) ix).
      assert (Hp1 : pstate s1 = 0) by exact Hp.
      assert (Hg1 : (0 < f)%nat -> Z.of_nat (length (wlist s1)) + Z.of_nat f <= nprocs s1).
      { intros _. unfold s1. cbn [wlist nprocs start_worker with_rst]. rewrite app_length. cbn [length].
        specialize (Hg ltac:(lia)). lia. }
      destruct (IH (S i) codes s1 Hp1 Hg1 r2 n' b El) as (s' & E & A & B & C & D).
      exists s'. split; [exact E|]. split; [exact A|]. split; [|split; [|exact D]].
      * rewrite B. unfold s1. cbn [wlist procs start_worker with_rst]. rewrite app_length. cbn [length seq map].
        rewrite <- app_assoc. cbn [app]. rewrite Nat.add_1_r. reflexivity.
      * rewrite C. unfold s1. cbn [procs start_worker with_rst]. rewrite app_length. cbn [length]. lia.
Qed.

Lemma join_exited_fields s :
  wlist (fst (join_exited s)) = kept s /\ nprocs (fst (join_exited s)) = nprocs s
  /\ pstate (fst (join_exited s)) = pstate s /\ procs (fst (join_exited s)) = procs s
  /\ rst (fst (join_exited s)) = rst s /\ now (fst (join_exited s)) = now s
  /\ snd (join_exited s) = pass_codes s.
Proof.
  destruct (join_exited_shape s) as (A & B & C). pose proof (procs_join_exited s) as D.
  repeat (split; [assumption|]).
  unfold join_exited, pass_codes.
  set (s1 := mark_all_lost s).
  assert (Hp1 : procs s1 = procs s) by reflexivity.
  assert (Hr : filter (exited s1) (rev (wlist s1)) = reaped s).
  { unfold reaped. apply filter_ext_eq. apply exited_procs. exact Hp1. }
  rewrite Hr.
  assert (Hm : map (exit_of s1) (reaped s) = map (exit_of s) (reaped s))
    by (apply map_ext; apply exit_of_procs; exact Hp1).
  destruct (reaped s) as [|c0 cl0]; cbn [fst snd rst now]; [auto|]. rewrite Hm. auto.
Qed.

(* one supervision pass in RUN state *)
Theorem tick_spec s :
  pstate s = 0 ->
  forall r2 n b, lim_loop (missing s) 0 (pass_codes s) (now s) (rst s) = (r2, n, b) ->
  exists s', do_tick s = (s', if b then RExc 10 else RNone)
             /\ rst s' = r2
             /\ wlist s' = kept s ++ map Z.of_nat (seq (length (procs s)) n)
             /\ length (procs s') = (length (procs s) + n)%nat
             /\ nprocs s' = nprocs s
             /\ jobs s' = map (tick_job s) (jobs s).
Proof.
  intros Hp r2 n b Hl.
  pose proof (tick_jobs s) as Hj. pose proof (SemB_sn) as _.
  assert (Hn : nprocs (fst (do_tick s)) = nprocs s).
  { unfold do_tick. destruct (join_exited_fields s) as (_ & B & _).
    destruct (join_exited s) as [s1 codes]. cbn [fst] in B.
    pose proof (nprocs_repopulate (Z.to_nat (nprocs s1 - Z.of_nat (length (wlist s1)))) 0 codes s1) as H.
    destruct (repopulate _ 0 codes s1) as [s2 r]. cbn [fst] in H. destruct r; cbn [fst]; congruence. }
  unfold do_tick in *. destruct (join_exited_fields s) as (A & B & C & D & E & F & G).
  destruct (join_exited s) as [s1 codes]. cbn [fst snd] in *. subst codes.
  assert (Hm : Z.to_nat (nprocs s1 - Z.of_nat (length (wlist s1))) = missing s)
    by (unfold missing; rewrite A, B; reflexivity).
  rewrite Hm in *.
  assert (Hg : (0 < missing s)%nat -> Z.of_nat (length (wlist s1)) + Z.of_nat (missing s) <= nprocs s1)
    by (unfold missing; rewrite A, B; lia).
  rewrite <- F, <- E in Hl.
  destruct (repopulate_spec (missing s) 0 (pass_codes s) s1 ltac:(congruence) Hg r2 n b Hl)
    as (s2 & E2 & R2 & W2 & P2 & _).
  rewrite E2 in *. rewrite A, D in *.
  destruct b.
  - exists s2. cbn [fst] in *. auto 7.
  - exists (release_n s2 (length (pass_codes s))). cbn [fst] in *. auto 7.
Qed.

(* ================================================================ 2. C09: the lifted pass theorem *)
Lemma charged_clean codes j :
  Forall (fun c => clean_code c = true) codes -> (codes = [] \/ (j < length codes)%nat) ->
  charged codes j = false.
Proof.
  intros Hc Hj. unfold charged. destruct codes as [|c0 cs]; [reflexivity|].
  destruct Hj as [Hj|Hj]; [discriminate|].
  destruct (nth_error (c0 :: cs) j) as [c|] eqn:E.
  - apply nth_error_In in E. rewrite Forall_forall in Hc. rewrite (Hc _ E). reflexivity.
  - apply nth_error_None in E. lia.
Qed.

Lemma lim_loop_uncharged : forall fuel i codes now r,
    (forall j, (i <= j < i + fuel)%nat -> charged codes j = false) ->
    lim_loop fuel i codes now r = (r, fuel, false).
Proof.
  induction fuel as [|f IH]; intros i codes now r H; cbn [lim_loop]; [reflexivity|].
  rewrite (H i) by lia. rewrite IH; [reflexivity|]. intros j Hj. apply H. lia.
Qed.

(* a job whose result has been handled is not touched by a pass (any kind of job) *)
Lemma tick_job_ready s x : ready x = true -> tick_job s x = x.
Proof.
  intros Hr. unfold tick_job, lost_due. rewrite Hr. cbn [negb]. rewrite andb_false_r. cbn [andb].
  destruct (reaped s); [reflexivity|]. destruct (incache x); [|reflexivity].
  unfold on_job_down. destruct (acked_by_gone _ _ x); [rewrite Hr|]; reflexivity.
Qed.

(* C09 "brought back to the configured size": in RUN state, a pass that reaps only workers that
   exited with status 0 or EX_RECYCLE, and has to start no more workers than it reaped (or reaps
   nobody: a pure grow), does not raise, does not consult the restart limiter, brings the list to
   exactly the configured size (or leaves it longer when shrink victims are still alive) by
   appending `missing` fresh workers, and leaves every job whose result was already handled
   exactly as it was *)
Theorem clean_pass s :
  pstate s = 0 ->
  Forall (fun c => clean_code c = true) (pass_codes s) ->
  (reaped s = [] \/ nprocs s - Z.of_nat (length (kept s)) <= Z.of_nat (length (reaped s))) ->
  exists s', do_tick s = (s', RNone)
             /\ Z.of_nat (length (wlist s')) = Z.max (nprocs s) (Z.of_nat (length (kept s)))
             /\ wlist s' = kept s ++ map Z.of_nat (seq (length (procs s)) (missing s))
             /\ nprocs s' = nprocs s
             /\ rst s' = rst s
             /\ (forall j x, get_job s j = Some x -> ready x = true -> get_job s' j = Some x).
Proof.
  intros Hp Hc Hm.
  assert (Hl : lim_loop (missing s) 0 (pass_codes s) (now s) (rst s) = (rst s, missing s, false)).
  { apply lim_loop_uncharged. intros j Hj. apply charged_clean; [exact Hc|].
    unfold pass_codes. rewrite map_length. destruct Hm as [Hm|Hm]; [left; rewrite Hm; reflexivity|].
    right. unfold missing in Hj. lia. }
  destruct (tick_spec s Hp _ _ _ Hl) as (s' & E & A & B & C & D & F).
  exists s'. split; [exact E|]. split; [|split; [exact B|split; [exact D|split; [exact A|]]]].
  - rewrite B, app_length, map_length, seq_length. unfold missing. lia.
  - intros j x Hg Hr. unfold get_job in *. rewrite F. destruct (j <? 0); [discriminate|].
    rewrite nth_error_map, Hg. cbn. rewrite tick_job_ready by exact Hr. reflexivity.
Qed.

(* ---- no exited worker is left in the list by a pass (any state, whatever the pass returns) *)
Definition NoEx (s : pool) : Prop := forall p, In p (wlist s) -> exited s p = false.

Lemma get_proc_start_worker s ix p :
  match get_proc s p with
  | Some q => get_proc (start_worker s ix) p = Some q
  | None => get_proc (start_worker s ix) p = None
            \/ get_proc (start_worker s ix) p = Some (mkproc (Z.of_nat (length (procs s))) ix None false false 0)
  end.
Proof.
  unfold get_proc. cbn [procs start_worker]. destruct (p <? 0); [left; reflexivity|].
  destruct (nth_error (procs s) (Z.to_nat p)) as [x|] eqn:E.
  - rewrite nth_error_app1 by (apply nth_error_Some; congruence). exact E.
  - apply nth_error_None in E. rewrite nth_error_app2 by exact E.
    destruct (Z.to_nat p - length (procs s))%nat as [|k]; cbn; [right; reflexivity|].
    left. destruct k; reflexivity.
Qed.

Lemma exited_start_worker s ix p : exited (start_worker s ix) p = exited s p.
Proof.
  unfold exited. pose proof (get_proc_start_worker s ix p) as H.
  destruct (get_proc s p) as [q|]; [rewrite H; reflexivity|].
  destruct H as [H|H]; rewrite H; reflexivity.
Qed.

Lemma exited_repopulate : forall fuel i codes s p,
    exited (fst (repopulate fuel i codes s)) p = exited s p.
Proof.
  induction fuel as [|f IH]; intros i codes s p; cbn [repopulate]; [reflexivity|].
  destruct (negb (pstate s =? 0)); [reflexivity|].
  match goal with |- context [if ?c then Restart.step (rst s) (now s) else (rst s, false)] =>
    destruct (if c then Restart.step (rst s) (now s) else (rst s, false)) as [r raised] end.
  destruct raised; [reflexivity|].
  destruct (avail_index (with_rst s r)) as [ix|]; [|reflexivity].
  rewrite IH, exited_start_worker. reflexivity.
Qed.

Lemma NoEx_repopulate : forall fuel i codes s, NoEx s -> NoEx (fst (repopulate fuel i codes s)).
Proof.
  induction fuel as [|f IH]; intros i codes s H; cbn [repopulate]; [exact H|].
  destruct (negb (pstate s =? 0)); [exact H|].
  match goal with |- context [if ?c then Restart.step (rst s) (now s) else (rst s, false)] =>
    destruct (if c then Restart.step (rst s) (now s) else (rst s, false)) as [r raised] end.
  destruct raised; [exact H|].
  destruct (avail_index (with_rst s r)) as [ix|]; [|exact H].
  apply IH. intros p Hin. rewrite exited_start_worker.
  cbn [wlist start_worker with_rst] in Hin. apply in_app_or in Hin. destruct Hin as [Hin|[<-|[]]].
  - apply (H p Hin).
  - unfold exited, get_proc. cbn [procs with_rst].
    replace (Z.of_nat (length (procs s)) <? 0) with false by lia. rewrite Nat2Z.id.
    replace (nth_error (procs s) (length (procs s))) with (@None proc); [reflexivity|].
    symmetry. apply nth_error_None. lia.
Qed.

Lemma NoEx_join_exited s : NoEx (fst (join_exited s)).
Proof.
  destruct (join_exited_fields s) as (A & _ & _ & D & _). intros p Hin. rewrite A in Hin.
  rewrite (exited_procs s _ D). unfold kept in Hin. apply filter_In in Hin.
  destruct Hin as [_ H]. apply negb_true_iff in H. exact H.
Qed.

Lemma NoEx_do_tick s : NoEx (fst (do_tick s)).
Proof.
  unfold do_tick. pose proof (NoEx_join_exited s) as H.
  destruct (join_exited s) as [s1 codes]. cbn [fst] in H.
  pose proof (NoEx_repopulate (Z.to_nat (nprocs s1 - Z.of_nat (length (wlist s1)))) 0 codes s1 H) as H2.
  destruct (repopulate _ 0 codes s1) as [s2 r]. cbn [fst] in H2. destruct r; cbn [fst]; exact H2.
Qed.

(* after a pass no worker whose exit has been recorded remains in the pool list ... *)
Theorem tick_no_exited_left s p q :
  In p (wlist (fst (do_tick s))) -> get_proc (fst (do_tick s)) p = Some q -> pexit q = None.
Proof.
  intros Hin Hg. pose proof (NoEx_do_tick s p Hin) as H. unfold exited in H. rewrite Hg in H.
  destruct (pexit q); [discriminate|reflexivity].
Qed.

(* ... in particular every worker the pass reaped is gone from it *)
Theorem tick_reaped_gone s p : In p (reaped s) -> ~ In p (wlist (fst (do_tick s))).
Proof.
  intros Hr Hin. pose proof (NoEx_do_tick s p Hin) as H.
  assert (He : exited (fst (do_tick s)) p = exited s p).
  { unfold do_tick. destruct (join_exited_fields s) as (_ & _ & _ & D & _).
    destruct (join_exited s) as [s1 codes]. cbn [fst] in D.
    pose proof (exited_repopulate (Z.to_nat (nprocs s1 - Z.of_nat (length (wlist s1)))) 0 codes s1 p) as H2.
    destruct (repopulate _ 0 codes s1) as [s2 r]. cbn [fst] in H2.
    rewrite <- (exited_procs s s1 D). destruct r; cbn [fst]; exact H2. }
  unfold reaped in Hr. apply filter_In in Hr. destruct Hr as [_ Hr]. congruence.
Qed.
