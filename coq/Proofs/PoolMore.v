(* Further theorems about the pool model asked for by the independent audit of the statements
   (docs/audit/): positive directions, history-level forms. *)
From Coq Require Import ZArith List Bool Lia ZifyBool.
From BV Require Import Lib.Cases Model.LaxSem Model.Restart Model.Pool
     Proofs.LaxSemProofs Proofs.PoolJobs Proofs.PoolInv Proofs.PoolSup.
Import ListNotations.
Open Scope Z_scope.

(* ------------------------------------------------------------------ C06, positive direction *)
(* the signal IS sent, and the callback IS run with the job's limit, when the soft limit is due:
   the scan's step for an accepted, unresolved Apply job whose hard limit is not due, whose soft
   limit is due, which was not signalled before and whose worker is in the pool *)
Theorem scan_job_soft_sends l s j x t p :
  get_job s j = Some x -> kind x = KApply -> time_accepted x = Some t -> ready x = false ->
  timed_out s (Some t) (eff_hard s x) = false ->
  timed_out s (Some t) (eff_soft s x) = true ->
  memZ j (dirty s) = false ->
  owner x = Some p -> in_pool s p = true -> 0 <= j ->
  sigs (scan_job l s j) = sigs s ++ [(p, SIGUSR1)]
  /\ dirty (scan_job l s j) = dirty s ++ [j]
  /\ get_job (scan_job l s j) j = Some (j_add_tmo x (true, soft x)).
Proof.
  intros Hg Hk Ht Hr Hh Hs Hd Ho Hp Hj. unfold scan_job. rewrite Hg, Hk, Ht, Hh, Hd, Hs. cbn [negb andb].
  unfold on_soft. rewrite Hr, Ho, Hp.
  split; [|split].
  - cbn. reflexivity.
  - reflexivity.
  - cbn [get_job with_dirty]. unfold deliver.
    change (get_job (with_dirty ?a ?b) j) with (get_job a j).
    unfold get_job in *. cbn [jobs set_proc with_sigs set_job]. destruct (j <? 0) eqn:E; [lia|].
    rewrite (nth_upd_nth_same _ _ _ _ Hg). reflexivity.
Qed.

(* ... and nothing is sent when the worker is not in the pool (it has been reaped): the job is
   remembered all the same, so "exactly once" can be zero times for such a job *)
Theorem scan_job_soft_owner_gone l s j x t p :
  get_job s j = Some x -> kind x = KApply -> time_accepted x = Some t -> ready x = false ->
  timed_out s (Some t) (eff_hard s x) = false ->
  timed_out s (Some t) (eff_soft s x) = true ->
  memZ j (dirty s) = false ->
  owner x = Some p -> in_pool s p = false ->
  sigs (scan_job l s j) = sigs s /\ dirty (scan_job l s j) = dirty s ++ [j]
  /\ jobs (scan_job l s j) = jobs s.
Proof.
  intros Hg Hk Ht Hr Hh Hs Hd Ho Hp. unfold scan_job. rewrite Hg, Hk, Ht, Hh, Hd, Hs. cbn [negb andb].
  unfold on_soft. rewrite Hr, Ho, Hp. auto.
Qed.

(* ------------------------------------------------------------------ C10: a pass gives back one slot per reaped worker *)
Lemma value_iter_release n x :
  LaxSem.value x <= LaxSem.bound x ->
  LaxSem.value (Nat.iter n LaxSem.release x) = Z.min (LaxSem.bound x) (LaxSem.value x + Z.of_nat n).
Proof.
  intros Hle. induction n as [|n IH].
  - change (Nat.iter 0 LaxSem.release x) with x. change (Z.of_nat 0) with 0. lia.
  - change (Nat.iter (S n) LaxSem.release x) with (LaxSem.release (Nat.iter n LaxSem.release x)).
    pose proof (proj1 (bound_iter_release n x)) as Hb.
    remember (Nat.iter n LaxSem.release x) as y eqn:Ey. rewrite Nat2Z.inj_succ.
    unfold LaxSem.release. destruct (LaxSem.value y <? LaxSem.bound y) eqn:E; cbn [LaxSem.value]; lia.
Qed.

Theorem tick_gives_back_one_slot_per_reaped_worker s s' :
  do_tick s = (s', RNone) -> LaxSem.value (sem s) <= LaxSem.bound (sem s) ->
  LaxSem.value (sem s') = Z.min (LaxSem.bound (sem s))
                                (LaxSem.value (sem s) + Z.of_nat (length (snd (join_exited s))))
  /\ LaxSem.bound (sem s') = LaxSem.bound (sem s).
Proof.
  unfold do_tick. pose proof (sem_join_exited s) as Hje.
  destruct (join_exited s) as [s1 codes]. cbn [fst snd] in *.
  pose proof (sem_repopulate (Z.to_nat (nprocs s1 - Z.of_nat (length (wlist s1)))) 0%nat codes s1) as H1.
  destruct (repopulate _ 0 codes s1) as [s2 r]. cbn [fst] in H1.
  destruct r; try discriminate. intros H Hle; inversion H; subst s'; clear H.
  unfold release_n. cbn [sem with_sem]. rewrite H1, Hje. split.
  - apply value_iter_release. exact Hle.
  - apply (proj1 (bound_iter_release _ _)).
Qed.
