(* Corollaries of the reachability invariant, in the form the property files quote. *)
From Coq Require Import ZArith List Bool Lia ZifyBool.
From BV Require Import Lib.Cases Model.LaxSem Model.Restart Model.Pool
     Proofs.PoolJobs Proofs.PoolInv.
Import ListNotations.
Open Scope Z_scope.

Lemma reach_job c tr j x :
  get_job (run c tr) j = Some x -> JInv x /\ jid x = j.
Proof.
  intros Hg. destruct (reachable_good c tr) as [Ha _].
  destruct (get_job_nth _ _ _ Hg) as [Hj Hn]. destruct (Ha _ _ Hn) as [Hi Hid]. split; [exact Hi|lia].
Qed.

Lemma reach_later c tr tr' j x :
  get_job (run c tr) j = Some x ->
  exists y, get_job (run c (tr ++ tr')) j = Some y /\ jmono x y.
Proof.
  intros Hg. destruct (reachable_good c tr) as [_ Hm].
  destruct (get_job_nth _ _ _ Hg) as [Hj Hn]. destruct (Hm tr' _ _ Hn) as (y & Hy & Hxy).
  exists y. split; [|exact Hxy]. unfold get_job. replace (j <? 0) with false by lia. exact Hy.
Qed.

(* an Apply job's outcome, once observable, is the same in every extension of the history *)
Theorem single_assignment c tr tr' j x :
  get_job (run c tr) j = Some x -> kind x = KApply -> ready x = true ->
  exists y, get_job (run c (tr ++ tr')) j = Some y /\ ready y = true /\ value y = value x
            /\ cb_succ y = cb_succ x /\ cb_err y = cb_err x.
Proof.
  intros Hg Hk Hr. destruct (reach_later c tr tr' j x Hg) as (y & Hy & Hm).
  exists y. split; [exact Hy|]. exact (jm_outcome _ _ Hm Hk Hr).
Qed.

(* success and error callbacks together fire at most once; exactly once iff resolved *)
Theorem callbacks_at_most_once c tr j x :
  get_job (run c tr) j = Some x -> kind x = KApply ->
  0 <= cb_succ x /\ 0 <= cb_err x /\ cb_succ x + cb_err x <= 1
  /\ (ready x = false -> cb_succ x + cb_err x = 0 /\ value x = None)
  /\ (ready x = true -> cb_succ x + cb_err x = 1 /\ value x <> None).
Proof.
  intros Hg Hk. destruct (reach_job c tr j x Hg) as [[u r nn cc lo tl] _].
  destruct (ready x) eqn:Hr.
  - destruct (r Hk eq_refl) as [Hv Hs]. repeat split; try lia; try discriminate; auto.
  - destruct (u Hk eq_refl) as (Hv & Hs & He). repeat split; try lia; try discriminate; auto.
Qed.

(* a pool-made failure is never attached to a different job: WorkerLostError names this
   job and the exit status recorded in this job's marker; TimeLimitExceeded carries this
   job's own hard limit *)
Theorem attribution c tr j x :
  get_job (run c tr) j = Some x -> kind x = KApply ->
  (forall st j', value x = Some (PLost st j') -> j' = j /\ exists t, worker_lost x = Some (t, st))
  /\ (forall l, value x = Some (PTimeLimit l) -> l = hard x).
Proof.
  intros Hg Hk. destruct (reach_job c tr j x Hg) as [[u r nn cc lo tl] Hid]. split.
  - intros st j' Hv. destruct (lo st j' Hk Hv) as [A B]. split; [congruence|exact B].
  - intros l Hv. apply tl; assumption.
Qed.

(* any kind of job: resolved stays resolved, left-the-cache stays out, marker written once,
   limits never change *)
Theorem job_monotone c tr tr' j x :
  get_job (run c tr) j = Some x ->
  exists y, get_job (run c (tr ++ tr')) j = Some y
            /\ kind y = kind x
            /\ (ready x = true -> ready y = true)
            /\ (incache x = false -> incache y = false)
            /\ (forall m, worker_lost x = Some m -> worker_lost y = Some m)
            /\ soft y = soft x /\ hard y = hard x /\ lost_timeout y = lost_timeout x.
Proof.
  intros Hg. destruct (reach_later c tr tr' j x Hg) as (y & Hy & [a1 a2 a3 a4 a5 a6 (b1 & b2 & b3)]).
  exists y. repeat split; auto.
Qed.

(* messages for a job that is not in the cache change nothing but the restart counter *)
Theorem stale_ready_ignored s j i p : cached s j = None -> do_ready s j i p = (s, RNone).
Proof. intros H. unfold do_ready. rewrite H. reflexivity. Qed.

Theorem stale_ack_ignored s j i p :
  cached s j = None ->
  do_ack s j i p = (with_rst s (Restart.ack (rst s)), RNone).
Proof.
  intros H. unfold do_ack.
  assert (Hc : cached (with_rst s (Restart.ack (rst s))) j = None) by exact H.
  rewrite Hc. reflexivity.
Qed.

(* an accepted Apply job leaves the cache exactly when it resolves, so late and duplicate
   worker messages for it are stale in the sense above *)
Theorem resolved_accepted_uncached c tr j x :
  get_job (run c tr) j = Some x -> kind x = KApply -> ready x = true -> accepted x = true ->
  cached (run c tr) j = None.
Proof.
  intros Hg Hk Hr Ha. destruct (reach_job c tr j x Hg) as [[u r nn cc lo tl] _].
  unfold cached. rewrite Hg, (cc Hk Hr Ha). reflexivity.
Qed.

(* READY/ACK for job j leave every other job exactly as it was *)
Theorem ready_frame s j i p j' : j <> j' -> 0 <= j' ->
  get_job (fst (do_ready s j i p)) j' = get_job s j'.
Proof.
  intros Hne Hj'. unfold do_ready. destruct (cached s j) as [x|]; [|reflexivity]. cbn [fst].
  set (s1 := if ready x then bump_counter s x
             else with_sem (bump_counter s x) (LaxSem.release (sem (bump_counter s x)))).
  assert (Hjobs : jobs s1 = jobs s).
  { unfold s1. destruct (ready x); [apply sj_bump_counter|]. cbn [jobs with_sem]. apply sj_bump_counter. }
  unfold get_job, set_job. cbn [jobs]. replace (j' <? 0) with false by lia.
  rewrite Hjobs. destruct (j <? 0) eqn:Ej; [reflexivity|]. apply nth_upd_nth_other. lia.
Qed.

(* ------------------------------------------------------------ close() *)
(* a pool that is not RUN accepts no new job of any kind *)
Theorem closed_rejects_apply s so ha lo slot :
  pstate s <> 0 -> do_apply s so ha lo slot = (s, RRefused).
Proof.
  intros Hp. unfold do_apply. replace (negb (pstate s =? 0)) with true by lia. reflexivity.
Qed.

Theorem closed_rejects_map s n cs : pstate s <> 0 -> do_map s n cs = (s, RRefused).
Proof. intros Hp. unfold do_map. replace (negb (pstate s =? 0)) with true by lia. reflexivity. Qed.

Theorem closed_rejects_imap s k n : pstate s <> 0 -> do_imap s k n = (s, RRefused).
Proof. intros Hp. unfold do_imap. replace (negb (pstate s =? 0)) with true by lia. reflexivity. Qed.

(* results of jobs submitted before close() are handled exactly as on a running pool:
   the result and accept handlers do not look at the pool state at all *)
Theorem ready_ignores_pool_state s q j i p :
  do_ready (with_pstate s q) j i p = (with_pstate (fst (do_ready s j i p)) q, snd (do_ready s j i p)).
Proof.
  unfold do_ready.
  change (cached (with_pstate s q) j) with (cached s j).
  destruct (cached s j) as [x|]; [|reflexivity]. cbn [fst snd].
  unfold bump_counter.
  change (in_pool (with_pstate s q)) with (in_pool s).
  destruct (worker_pids x) as [|w l]; [destruct (ready x); reflexivity|].
  destruct (in_pool s w); destruct (ready x); reflexivity.
Qed.

Theorem ack_ignores_pool_state s q j i p :
  do_ack (with_pstate s q) j i p = (with_pstate (fst (do_ack s j i p)) q, snd (do_ack s j i p)).
Proof.
  unfold do_ack.
  change (cached (with_rst (with_pstate s q) (Restart.ack (rst (with_pstate s q)))) j)
    with (cached (with_rst s (Restart.ack (rst s))) j).
  destruct (cached (with_rst s (Restart.ack (rst s))) j) as [x|]; [|reflexivity].
  destruct (kind x); try reflexivity. destruct i; reflexivity.
Qed.

(* close(): the pool stops accepting, every slot is handed back, nothing else changes *)
Theorem close_effect s :
  pstate s = 0 ->
  fst (step s EClose) = with_sem (with_pstate (with_sigs s []) 1) (LaxSem.clear (sem s))
  /\ LaxSem.value (sem (fst (step s EClose))) = Z.max (LaxSem.value (sem s)) (LaxSem.bound (sem s)).
Proof.
  intros Hp. unfold step, do_close. change (pstate (with_sigs s [])) with (pstate s). rewrite Hp. cbn. auto.
Qed.

(* the result counter of an Apply job is credited to the worker that owns it *)
Theorem apply_result_credits_owner s x p :
  kind x = KApply -> wp x = [p] -> in_pool s p = true ->
  bump_counter s x = set_proc s p (fun q => mkproc (pid q) (widx q) (pexit q) (controlled q) (jterm q) (counter q + 1)).
Proof.
  intros Hk Hw Hp. unfold bump_counter, worker_pids. rewrite Hk, Hw, Hp. reflexivity.
Qed.

(* ------------------------------------------------------------ each cause resolves *)
(* the worker's result for a cached, unresolved Apply job resolves it with exactly that
   payload (success or the worker-made failure) *)
Theorem result_resolves s j x (ok : bool) tag i :
  0 <= j -> cached s j = Some x -> kind x = KApply -> ready x = false ->
  exists y, get_job (fst (do_ready s j i (if ok then PValue tag else PExc tag))) j = Some y
            /\ ready y = true /\ value y = Some (if ok then PValue tag else PExc tag).
Proof.
  intros Hj Hc Hk Hr. unfold do_ready. rewrite Hc. cbn [fst].
  destruct (cached_get _ _ _ Hc) as [Hg _].
  set (s1 := if ready x then bump_counter s x
             else with_sem (bump_counter s x) (LaxSem.release (sem (bump_counter s x)))).
  assert (Hg1 : get_job s1 j = Some x).
  { unfold s1. rewrite Hr. unfold get_job in *. cbn [jobs with_sem].
    rewrite (sj_bump_counter s x). exact Hg. }
  exists (apply_set x (if ok then PValue tag else PExc tag)). split.
  - unfold get_job, set_job. cbn [jobs]. replace (j <? 0) with false by lia.
    unfold get_job in Hg1. replace (j <? 0) with false in Hg1 by lia.
    rewrite (nth_upd_nth_same _ _ _ _ Hg1). unfold job_set. rewrite Hk. reflexivity.
  - unfold apply_set. rewrite Hr. cbn. auto.
Qed.

(* a task that cannot be sent fails its own (cached, unresolved) Apply job, which leaves the
   cache at once (nobody will ever acknowledge it) and gives its slot back *)
Theorem put_failure_resolves s j x i k :
  0 <= j -> cached s j = Some x -> kind x = KApply -> ready x = false ->
  exists y, get_job (fst (fst (feed_tasks 1 i j k (Some k) false s))) j = Some y
            /\ ready y = true /\ value y = Some PPutFailed /\ incache y = false
            /\ sem (fst (fst (feed_tasks 1 i j k (Some k) false s))) = LaxSem.release (sem s).
Proof.
  intros Hj Hc Hk Hr. cbn [feed_tasks]. unfold okey_eqb, opt_eqb. rewrite Z.eqb_refl. rewrite Hc, Hk, Hr. cbn [fst].
  destruct (cached_get _ _ _ Hc) as [Hg _].
  exists (j_uncache (apply_set x PPutFailed)). split; [|split; [|split; [|split]]].
  - unfold get_job, set_job. cbn [jobs with_sem]. replace (j <? 0) with false by lia.
    unfold get_job in Hg. replace (j <? 0) with false in Hg by lia.
    erewrite nth_upd_nth_same; [reflexivity|].
    rewrite (nth_upd_nth_same _ _ _ _ Hg). unfold job_set. rewrite Hk. reflexivity.
  - unfold j_uncache, apply_set. rewrite Hr. reflexivity.
  - unfold j_uncache, apply_set. rewrite Hr. reflexivity.
  - reflexivity.
  - reflexivity.
Qed.
