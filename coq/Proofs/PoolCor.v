(* Corollaries of the reachability invariant, in the form the property files quote. *)
From Coq Require Import ZArith List Bool Lia ZifyBool.
From BV Require Import Lib.Cases Model.LaxSem Model.Restart Model.Pool
     Proofs.PoolJobs Proofs.PoolInv.
Import ListNotations.
Open Scope Z_scope.

Lemma reach_job c tr j x :
  get_job (run c tr) j = Some x -> JInv x /\ jid x = j.
Proof.
  intros Hg. destruct (reachable_good c tr) as [Ha _].
  destruct (get_job_nth _ _ _ Hg) as [Hj Hn]. destruct (Ha _ _ Hn) as [Hi Hid]. split; [exact Hi|lia].
Qed.

Lemma reach_later c tr tr' j x :
  get_job (run c tr) j = Some x ->
  exists y, get_job (run c (tr ++ tr')) j = Some y /\ jmono x y.
Proof.
  intros Hg. destruct (reachable_good c tr) as [_ Hm].
  destruct (get_job_nth _ _ _ Hg) as [Hj Hn]. destruct (Hm tr' _ _ Hn) as (y & Hy & Hxy).
  exists y. split; [|exact Hxy]. unfold get_job. replace (j <? 0) with false by lia. exact Hy.
Qed.

(* an Apply job's outcome, once observable, is the same in every extension of the history *)
Theorem single_assignment c tr tr' j x :
  get_job (run c tr) j = Some x -> kind x = KApply -> ready x = true ->
  exists y, get_job (run c (tr ++ tr')) j = Some y /\ ready y = true /\ value y = value x
            /\ cb_succ y = cb_succ x /\ cb_err y = cb_err x.
Proof.
  intros Hg Hk Hr. destruct (reach_later c tr tr' j x Hg) as (y & Hy & Hm).
  exists y. split; [exact Hy|]. exact (jm_outcome _ _ Hm Hk Hr).
Qed.

(* success and error callbacks together fire at most once; exactly once iff resolved *)
Theorem callbacks_at_most_once c tr j x :
  get_job (run c tr) j = Some x -> kind x = KApply ->
  0 <= cb_succ x /\ 0 <= cb_err x /\ cb_succ x + cb_err x <= 1
  /\ (ready x = false -> cb_succ x + cb_err x = 0 /\ value x = None)
  /\ (ready x = true -> cb_succ x + cb_err x = 1 /\ value x <> None).
Proof.
  intros Hg Hk. destruct (reach_job c tr j x Hg) as [[u r nn cc lo tl] _].
  destruct (ready x) eqn:Hr.
  - destruct (r Hk eq_refl) as [Hv Hs]. repeat split; try lia; try discriminate; auto.
  - destruct (u Hk eq_refl) as (Hv & Hs & He). repeat split; try lia; try discriminate; auto.
Qed.

(* a pool-made failure is never attached to a different job: WorkerLostError names this
   job and the exit status recorded in this job's marker; TimeLimitExceeded carries this
   job's own hard limit *)
Theorem attribution c tr j x :
  get_job (run c tr) j = Some x -> kind x = KApply ->
  (forall st j', value x = Some (PLost st j') -> j' = j /\ exists t, worker_lost x = Some (t, st))
  /\ (forall l, value x = Some (PTimeLimit l) -> l = hard x).
Proof.
  intros Hg Hk. destruct (reach_job c tr j x Hg) as [[u r nn cc lo tl] Hid]. split.
  - intros st j' Hv. destruct (lo st j' Hk Hv) as [A B]. split; [congruence|exact B].
  - intros l Hv. apply tl; assumption.
Qed.

(* any kind of job: resolved stays resolved, left-the-cache stays out, marker written once,
   limits never change *)
Theorem job_monotone c tr tr' j x :
  get_job (run c tr) j = Some x ->
  exists y, get_job (run c (tr ++ tr')) j = Some y
            /\ kind y = kind x
            /\ (ready x = true -> ready y = true)
            /\ (incache x = false -> incache y = false)
            /\ (forall m, worker_lost x = Some m -> worker_lost y = Some m)
            /\ soft y = soft x /\ hard y = hard x /\ lost_timeout y = lost_timeout x.
Proof.
  intros Hg. destruct (reach_later c tr tr' j x Hg) as (y & Hy & [a1 a2 a3 a4 a5 a6 (b1 & b2 & b3)]).
  exists y. repeat split; auto.
Qed.

(* messages for a job that is not in the cache change nothing but the restart counter *)
Theorem stale_ready_ignored s j i p : cached s j = None -> do_ready s j i p = (s, RNone).
Proof. intros H. unfold do_ready. rewrite H. reflexivity. Qed.

Theorem stale_ack_ignored s j i p :
  cached s j = None ->
  do_ack s j i p = (with_rst s (Restart.ack (rst s)), RNone).
Proof.
  intros H. unfold do_ack.
  assert (Hc : cached (with_rst s (Restart.ack (rst s))) j = None) by exact H.
  rewrite Hc. reflexivity.
Qed.

(* an accepted Apply job leaves the cache exactly when it resolves, so late and duplicate
   worker messages for it are stale in the sense above *)
Theorem resolved_accepted_uncached c tr j x :
  get_job (run c tr) j = Some x -> kind x = KApply -> ready x = true -> accepted x = true ->
  cached (run c tr) j = None.
Proof.
  intros Hg Hk Hr Ha. destruct (reach_job c tr j x Hg) as [[u r nn cc lo tl] _].
  unfold cached. rewrite Hg, (cc Hk Hr Ha). reflexivity.
Qed.

(* READY/ACK for job j leave every other job exactly as it was *)
Theorem ready_frame s j i p j' : j <> j' -> 0 <= j' ->
  get_job (fst (do_ready s j i p)) j' = get_job s j'.
Proof.
  intros Hne Hj'. unfold do_ready. destruct (cached s j) as [x|]; [|reflexivity]. cbn [fst].
  set (s1 := if ready x then bump_counter s x
             else with_sem (bump_counter s x) (LaxSem.release (sem (bump_counter s x)))).
  assert (Hjobs : jobs s1 = jobs s).
  { unfold s1. destruct (ready x); [apply sj_bump_counter|]. cbn [jobs with_sem]. apply sj_bump_counter. }
  unfold get_job, set_job. cbn [jobs]. replace (j' <? 0) with false by lia.
  rewrite Hjobs. destruct (j <? 0) eqn:Ej; [reflexivity|]. apply nth_upd_nth_other. lia.
Qed.
