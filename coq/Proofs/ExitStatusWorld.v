(* C19, part 4: the cache automaton, liveness and the children set --
   all histories of operations, all waitpid / sentinel / getpid oracles. *)
From Coq Require Import ZArith List Bool Lia ZifyBool.
From BV Require Import Lib.Cases Lib.ExitStatusWait Model.ExitStatus.
Import ListNotations.
Open Scope Z_scope.

(* ================================================================== Part 4 *)
(* the cache automaton, liveness and the children set: all histories, all oracles *)

Definition rcp (pr : proc) : option Z := match pop pr with Some p => rc p | None => None end.

Lemma rc_of_nth : forall w i,
    rc_of w i = match nth_error (procs w) i with Some pr => rcp pr | None => None end.
Proof. reflexivity. Qed.

(* ---- list update ---- *)
Lemma upd_length : forall A (l : list A) i x, length (upd l i x) = length l.
Proof. induction l as [|y l IH]; intros [|i] x; cbn; auto. Qed.

Lemma nth_error_upd_same : forall A (l : list A) i x y,
    nth_error l i = Some y -> nth_error (upd l i x) i = Some x.
Proof.
  induction l as [|z l IH]; intros [|i] x y H; cbn in *; try discriminate; auto.
  eapply IH; eauto.
Qed.

Lemma nth_error_upd_other : forall A (l : list A) i j x,
    i <> j -> nth_error (upd l i x) j = nth_error l j.
Proof.
  induction l as [|z l IH]; intros [|i] [|j] x H; cbn; auto; try congruence.
Qed.

Lemma upd_same : forall A (l : list A) i x, nth_error l i = Some x -> upd l i x = l.
Proof.
  induction l as [|z l IH]; intros [|i] x H; cbn in *; try discriminate; auto.
  - congruence.
  - f_equal. auto.
Qed.

Lemma world_eta : forall w, mk_world (cur w) (procs w) (children w) = w.
Proof. intros []; reflexivity. Qed.

(* ---- one poll ---- *)
Lemma poll1_spec : forall p a p' r, poll1 p a = (p', r) ->
    ppid p' = ppid p
    /\ (forall c, rc p = Some c -> p' = p /\ r = RVal (Some c))
    /\ (forall v, r = RVal v -> rc p' = v)
    /\ (r <> RHang)
    /\ (r = RAssert -> p' = p)
    /\ (rc p = None -> forall c, rc p' = Some c ->
        exists sts, a = AAns (ppid p) sts /\ decode sts = DOk c).
Proof.
  intros [pp rcv] a p' r. unfold poll1, ExitStatus.poll_ans. cbn [rc ppid].
  destruct rcv as [c0|];
    [|destruct a as [|pid sts];
      [|destruct (pid =? pp) eqn:Ep; [destruct (decode sts) eqn:Ed|]]];
    intros H; inversion H; subst; cbn [rc ppid];
      repeat split; intros; try congruence; try discriminate;
        try solve [ match goal with X : RVal _ = RVal _ |- _ => inversion X; subst; auto end ];
        try solve [ apply Z.eqb_eq in Ep; subst;
                    match goal with X : Some _ = Some _ |- _ => inversion X; subst end; eauto ].
Qed.

Lemma poll_proc_spec : forall b pr p pr' r,
    pop pr = Some p -> poll_proc b pr p = (pr', r) ->
    creator pr' = creator pr /\ fin (orc pr') = fin (orc pr) /\ rdy (orc pr') = rdy (orc pr)
    /\ exists p', pop pr' = Some p' /\ ppid p' = ppid p
       /\ (forall c, rc p = Some c -> pr' = pr /\ r = RVal (Some c))
       /\ (forall v, r = RVal v -> rc p' = v)
       /\ (r = RAssert \/ r = RHang -> rc p' = rc p)
       /\ (rc p = None -> forall c, rc p' = Some c ->
           exists rest sts, waitpid_loop b (pre (orc pr)) (fin (orc pr))
                            = (rest, Some (AAns (ppid p) sts)) /\ decode sts = DOk c).
Proof.
  intros b pr p pr' r Hp. unfold poll_proc. destruct (rc p) as [c0|] eqn:Erc.
  - intros H; inversion H; subst. repeat split; auto. exists p.
    repeat split; auto; intros; try congruence;
      try solve [ match goal with X : RVal _ = RVal _ |- _ => inversion X; subst; auto end ].
  - destruct (waitpid_loop b (pre (orc pr)) (fin (orc pr))) as [rest oa] eqn:Ew.
    destruct oa as [a|].
    + destruct (poll1 p a) as [p1 r1] eqn:E1. intros H; inversion H; subst. cbn [creator orc fin rdy pop].
      repeat split; auto.
      destruct (poll1_spec _ _ _ _ E1) as (A & B & C & D & E & F).
      exists p1. repeat split; auto; intros; try congruence.
      * match goal with X : _ \/ _ |- _ => destruct X as [X|X]; [rewrite (E X); congruence|congruence] end.
      * match goal with X : rc p1 = Some _ |- _ => destruct (F Erc _ X) as (sts & -> & Hd) end. eauto.
    + intros H; inversion H; subst. cbn [creator orc fin rdy pop].
      repeat split; auto. exists p. repeat split; auto; intros; try congruence; try discriminate.
Qed.

Lemma wait_proc_spec : forall t pr p pr' r,
    pop pr = Some p -> wait_proc t pr p = (pr', r) ->
    creator pr' = creator pr
    /\ exists p', pop pr' = Some p' /\ ppid p' = ppid p
       /\ (forall c, rc p = Some c -> pr' = pr /\ r = RVal (Some c))
       /\ (forall v, r = RVal v -> rc p' = v)
       /\ (r = RAssert \/ r = RHang -> rc p' = rc p)
       /\ (rc p = None -> forall c, rc p' = Some c ->
           exists b rest sts, waitpid_loop b (pre (orc pr)) (fin (orc pr))
                              = (rest, Some (AAns (ppid p) sts)) /\ decode sts = DOk c).
Proof.
  intros t pr p pr' r Hp. unfold wait_proc. destruct (rc p) as [c0|] eqn:Erc.
  - intros H; inversion H; subst. split; auto. exists p.
    repeat split; auto; intros; try congruence;
      try solve [ match goal with X : RVal _ = RVal _ |- _ => inversion X; subst; auto end ].
  - destruct t as [t|].
    + set (pr1 := mk_proc (creator pr) (pop pr)
                          (mk_or (pre (orc pr)) (fin (orc pr)) (tl (rdy (orc pr))))).
      destruct (negb match rdy (orc pr) with [] => true | b :: _ => b end).
      * intros H; inversion H; subst. cbn [creator pop]. split; auto.
        exists p. repeat split; auto; intros; try congruence; try discriminate;
          try solve [ match goal with X : RVal _ = RVal _ |- _ => inversion X; subst; auto end ].
      * intros H. assert (Hp1 : pop pr1 = Some p) by exact Hp.
        destruct (poll_proc_spec _ _ _ _ _ Hp1 H) as (A & _ & _ & p' & B & C & D & E & F & G).
        split; [exact A|]. exists p'. repeat split; auto; intros; try congruence;
          try solve [rewrite F by assumption; congruence].
        match goal with X : rc p' = Some _ |- _ => destruct (G Erc _ X) as (rest & sts & W & Hd) end.
        exists (negb (wait_flag_nonblocking (Some t))), rest, sts. split; auto.
    + intros H. destruct (poll_proc_spec _ _ _ _ _ Hp H) as (A & _ & _ & p' & B & C & D & E & F & G).
      split; [exact A|]. exists p'. repeat split; auto; intros; try congruence;
        try solve [rewrite F by assumption; congruence].
      match goal with X : rc p' = Some _ |- _ => destruct (G Erc _ X) as (rest & sts & W & Hd) end.
      exists true, rest, sts. split; auto.
Qed.

(* a timed join / wait whose sentinel is not ready: no waitpid call, nothing changes
   but the consumed readiness answer *)
Theorem timed_wait_not_ready : forall t pr p l,
    pop pr = Some p -> rc p = None -> rdy (orc pr) = false :: l ->
    wait_proc (Some t) pr p =
    (mk_proc (creator pr) (pop pr) (mk_or (pre (orc pr)) (fin (orc pr)) l), RVal None).
Proof.
  intros t pr p l Hp Hrc Hr. unfold wait_proc. rewrite Hrc, Hr. reflexivity.
Qed.

(* ---- "extends": what may happen to a process object over time ---- *)
Definition pext (a b : proc) : Prop :=
  creator b = creator a /\
  match pop a with
  | None => True
  | Some p => exists p', pop b = Some p' /\ ppid p' = ppid p /\
                         (forall c, rc p = Some c -> rc p' = Some c)
  end.

Lemma pext_refl : forall a, pext a a.
Proof. intros a. split; auto. destruct (pop a) as [p|]; auto. exists p; auto. Qed.

Lemma pext_trans : forall a b c, pext a b -> pext b c -> pext a c.
Proof.
  intros a b c [A1 A2] [B1 B2]. split; [congruence|].
  destruct (pop a) as [p|]; auto. destruct A2 as (p' & E1 & E2 & E3). rewrite E1 in B2.
  destruct B2 as (p'' & F1 & F2 & F3). exists p''. repeat split; auto; try congruence.
Qed.

Definition pexts := Forall2 pext.

Lemma pexts_refl : forall l, pexts l l.
Proof. induction l; constructor; auto using pext_refl. Qed.

Lemma pexts_trans : forall a b, pexts a b -> forall c, pexts b c -> pexts a c.
Proof.
  induction 1; intros c0 H1; inversion H1; subst; constructor; eauto using pext_trans.
  apply IHForall2; assumption.
Qed.

Lemma pexts_upd : forall ps i a b, nth_error ps i = Some a -> pext a b -> pexts ps (upd ps i b).
Proof.
  induction ps as [|x ps IH]; intros [|i] a b H E; cbn in *; try discriminate.
  - inversion H; subst. constructor; [assumption|apply pexts_refl].
  - constructor; [apply pext_refl|exact (IH i a b H E)].
Qed.

Lemma pexts_nth : forall a b, pexts a b -> forall i x, nth_error a i = Some x ->
    exists y, nth_error b i = Some y /\ pext x y.
Proof.
  induction 1; intros [|i] z H1; cbn in *; try discriminate.
  - inversion H1; subst. eauto.
  - eauto.
Qed.

Lemma pexts_length : forall a b, pexts a b -> length b = length a.
Proof. induction 1; cbn; auto. Qed.

Lemma poll_proc_pext : forall b pr p pr' r, pop pr = Some p -> poll_proc b pr p = (pr', r) -> pext pr pr'.
Proof.
  intros b pr p pr' r Hp H. destruct (poll_proc_spec _ _ _ _ _ Hp H) as (A & _ & _ & p' & B & C & D & E & F & _).
  split; auto. rewrite Hp. exists p'. repeat split; auto. intros c Hc.
  destruct (D c Hc) as [-> _]. congruence.
Qed.

Lemma wait_proc_pext : forall t pr p pr' r, pop pr = Some p -> wait_proc t pr p = (pr', r) -> pext pr pr'.
Proof.
  intros t pr p pr' r Hp H. destruct (wait_proc_spec _ _ _ _ _ Hp H) as (A & p' & B & C & D & E & F & _).
  split; auto. rewrite Hp. exists p'. repeat split; auto. intros c Hc.
  destruct (D c Hc) as [-> _]. congruence.
Qed.

Lemma cleanup_pexts : forall todo ps ch, pexts ps (fst (fst (cleanup todo ps ch))).
Proof.
  induction todo as [|j r IH]; intros ps ch; cbn [cleanup]; [apply pexts_refl|].
  destruct (nth_error ps j) as [pr|] eqn:En; [|apply IH].
  destruct (pop pr) as [p|] eqn:Ep; [|apply IH].
  destruct (poll_proc false pr p) as [pr' res] eqn:Epoll.
  assert (S1 : pexts ps (upd ps j pr')) by (eapply pexts_upd; eauto using poll_proc_pext).
  destruct res as [[v|]| |]; cbn [fst]; try exact S1; eapply pexts_trans; eauto.
Qed.


(* _cleanup never touches an object that has not been started *)
Lemma cleanup_unstarted : forall todo ps ch i pr,
    nth_error ps i = Some pr -> pop pr = None ->
    nth_error (fst (fst (cleanup todo ps ch))) i = Some pr.
Proof.
  induction todo as [|j r IH]; intros ps ch i pr Hn Hp; cbn [cleanup]; [exact Hn|].
  destruct (nth_error ps j) as [pj|] eqn:En; [|apply IH; auto].
  destruct (pop pj) as [p|] eqn:Ep; [|apply IH; auto].
  destruct (poll_proc false pj p) as [pj' res] eqn:Epoll.
  assert (Hi : nth_error (upd ps j pj') i = Some pr).
  { rewrite nth_error_upd_other; auto. intros ->. congruence. }
  destruct res as [[v|]| |]; cbn [fst]; auto.
Qed.

Lemma step_pexts : forall w o, pexts (procs w) (procs (fst (step w o))).
Proof.
  intros w o. destruct o as [i|i t|i|i| |z]; cbn [step].
  - destruct (nth_error (procs w) i) as [pr|] eqn:En; [|apply pexts_refl].
    destruct (pop pr) as [p|] eqn:Ep; [apply pexts_refl|].
    destruct (negb (creator pr =? cur w)); [apply pexts_refl|].
    pose proof (cleanup_pexts (children w) (procs w) (children w)) as C.
    pose proof (cleanup_unstarted (children w) (procs w) (children w) i pr En Ep) as U.
    destruct (cleanup (children w) (procs w) (children w)) as [[ps ch] e]. cbn [fst] in C, U.
    destruct e; cbn [fst procs]; [exact C|].
    eapply pexts_trans; [exact C|]. eapply pexts_upd; [exact U|].
    split; cbn [creator pop]; auto. rewrite Ep. exact I.
  - destruct (nth_error (procs w) i) as [pr|] eqn:En; [|apply pexts_refl].
    destruct (negb (creator pr =? cur w)); [apply pexts_refl|].
    destruct (pop pr) as [p|] eqn:Ep; [|apply pexts_refl].
    destruct (wait_proc t pr p) as [pr' res] eqn:Ew.
    assert (S1 : pexts (procs w) (upd (procs w) i pr'))
      by (eapply pexts_upd; eauto using wait_proc_pext).
    destruct res as [[v|]| |]; cbn [fst procs]; exact S1.
  - destruct (nth_error (procs w) i) as [pr|] eqn:En; [|apply pexts_refl].
    destruct (negb (creator pr =? cur w)); [apply pexts_refl|].
    destruct (pop pr) as [p|] eqn:Ep; [|apply pexts_refl].
    destruct (poll_proc false pr p) as [pr' res] eqn:Ew.
    assert (S1 : pexts (procs w) (upd (procs w) i pr'))
      by (eapply pexts_upd; eauto using poll_proc_pext).
    destruct res as [v| |]; cbn [fst procs]; exact S1.
  - destruct (nth_error (procs w) i) as [pr|] eqn:En; [|apply pexts_refl].
    destruct (pop pr) as [p|] eqn:Ep; [|apply pexts_refl].
    destruct (poll_proc false pr p) as [pr' res] eqn:Ew. cbn [fst procs].
    eapply pexts_upd; eauto using poll_proc_pext.
  - pose proof (cleanup_pexts (children w) (procs w) (children w)) as C.
    destruct (cleanup (children w) (procs w) (children w)) as [[ps ch] e]. cbn [fst] in C.
    destruct e; cbn [fst procs]; exact C.
  - apply pexts_refl.
Qed.

Lemma run_cons : forall w o r, fst (run w (o :: r)) = fst (run (fst (step w o)) r).
Proof.
  intros. cbn [run]. destruct (step w o) as [w1 x]. cbn [fst]. destruct (run w1 r). reflexivity.
Qed.

Lemma run_pexts : forall ops w, pexts (procs w) (procs (fst (run w ops))).
Proof.
  induction ops as [|o r IH]; intros w; [apply pexts_refl|].
  rewrite run_cons. eapply pexts_trans; [apply step_pexts|apply IH].
Qed.

Lemma pexts_rc : forall ps ps' i c, pexts ps ps' ->
    match nth_error ps i with Some pr => rcp pr | None => None end = Some c ->
    match nth_error ps' i with Some pr => rcp pr | None => None end = Some c.
Proof.
  intros ps ps' i c H E. destruct (nth_error ps i) as [pr|] eqn:En; [|discriminate].
  destruct (pexts_nth _ _ H _ _ En) as (y & Hy & [_ Hext]). rewrite Hy. unfold rcp in *.
  destruct (pop pr) as [p|]; [|discriminate]. destruct Hext as (p' & -> & _ & K). auto.
Qed.

(* ------------------------------------------------------------------ theorems *)

(* once a return code is cached it is the exit code for ever, whatever is done
   afterwards and whatever waitpid would answer *)
Theorem cache_constant : forall ops w i c,
    rc_of w i = Some c -> rc_of (fst (run w ops)) i = Some c.
Proof.
  intros ops w i c H. rewrite rc_of_nth in *. eapply pexts_rc; [apply run_pexts|exact H].
Qed.

Theorem started_for_ever : forall ops w i,
    started w i = true -> started (fst (run w ops)) i = true.
Proof.
  intros ops w i H. unfold started in *.
  destruct (nth_error (procs w) i) as [pr|] eqn:En; [|discriminate].
  destruct (pexts_nth _ _ (run_pexts ops w) _ _ En) as (y & Hy & [_ Hext]). rewrite Hy.
  destruct (pop pr) as [p|]; [|discriminate]. destruct Hext as (p' & -> & _). reflexivity.
Qed.

Definition own (w : world) (i : nat) : bool :=
  match nth_error (procs w) i with Some pr => creator pr =? cur w | None => false end.

(* ... and from then on no operation on it calls waitpid or changes anything *)
Theorem cached_code : forall w i c, rc_of w i = Some c -> step w (OCode i) = (w, OInt c).
Proof.
  intros w i c H. unfold rc_of in H. cbn [step].
  destruct (nth_error (procs w) i) as [pr|] eqn:En; [|discriminate].
  destruct (pop pr) as [p|] eqn:Ep; [|discriminate].
  unfold poll_proc. rewrite H. cbn [ores_of]. rewrite (upd_same _ _ _ _ En). rewrite world_eta. reflexivity.
Qed.

Theorem cached_alive : forall w i c, rc_of w i = Some c -> own w i = true ->
    step w (OAlive i) = (w, OBool false).
Proof.
  intros w i c H O. unfold rc_of in H. unfold own in O. cbn [step].
  destruct (nth_error (procs w) i) as [pr|] eqn:En; [|discriminate]. rewrite O. cbn [negb].
  destruct (pop pr) as [p|] eqn:Ep; [|discriminate].
  unfold poll_proc. rewrite H. rewrite (upd_same _ _ _ _ En). rewrite world_eta. reflexivity.
Qed.

Theorem cached_join : forall w i c t, rc_of w i = Some c -> own w i = true ->
    step w (OJoin i t) = (mk_world (cur w) (procs w) (discard (children w) i), ONone).
Proof.
  intros w i c t H O. unfold rc_of in H. unfold own in O. cbn [step].
  destruct (nth_error (procs w) i) as [pr|] eqn:En; [|discriminate]. rewrite O. cbn [negb].
  destruct (pop pr) as [p|] eqn:Ep; [|discriminate].
  unfold wait_proc. rewrite H. rewrite (upd_same _ _ _ _ En). reflexivity.
Qed.

(* exitcode returns exactly the cache: None while nothing is cached *)
Theorem code_reflects : forall w i w' r, step w (OCode i) = (w', r) ->
    match r with
    | ONone => rc_of w' i = None
    | OInt c => rc_of w' i = Some c
    | OAssert | OHang => rc_of w' i = None
    | OBad => nth_error (procs w) i = None
    | _ => False
    end.
Proof.
  intros w i w' r. cbn [step].
  destruct (nth_error (procs w) i) as [pr|] eqn:En; [|intros H; inversion H; subst; reflexivity].
  destruct (pop pr) as [p|] eqn:Ep.
  - destruct (poll_proc false pr p) as [pr' res] eqn:Ew. intros H; inversion H; subst. clear H.
    destruct (poll_proc_spec _ _ _ _ _ Ep Ew) as (_ & _ & _ & p' & B & _ & D & E & F & _).
    assert (R : rc_of (mk_world (cur w) (upd (procs w) i pr') (children w)) i = rc p').
    { unfold rc_of. cbn [procs]. rewrite (nth_error_upd_same _ _ _ _ _ En). rewrite B. reflexivity. }
    rewrite R. destruct res as [[v|]| |]; cbn [ores_of]; auto.
    + rewrite F by auto. destruct (rc p) eqn:Erc; auto. destruct (D _ eq_refl) as [_ X]. discriminate.
    + rewrite F by auto. destruct (rc p) eqn:Erc; auto. destruct (D _ eq_refl) as [_ X]. discriminate.
  - intros H; inversion H; subst. unfold rc_of. rewrite En, Ep. reflexivity.
Qed.

(* is_alive is True exactly while the (started) child has no cached code *)
Theorem alive_reflects : forall w i w' b, step w (OAlive i) = (w', OBool b) ->
    b = started w' i && match rc_of w' i with None => true | Some _ => false end.
Proof.
  intros w i w' b. cbn [step].
  destruct (nth_error (procs w) i) as [pr|] eqn:En; [|intros H; inversion H].
  destruct (negb (creator pr =? cur w)); [intros H; inversion H|].
  destruct (pop pr) as [p|] eqn:Ep.
  - destruct (poll_proc false pr p) as [pr' res] eqn:Ew.
    destruct (poll_proc_spec _ _ _ _ _ Ep Ew) as (_ & _ & _ & p' & B & _ & _ & E & _ & _).
    destruct res as [v| |]; intros H; inversion H; subst. clear H.
    unfold started, rc_of. cbn [procs]. rewrite (nth_error_upd_same _ _ _ _ _ En). rewrite B.
    rewrite (E v eq_refl). destruct v; reflexivity.
  - intros H; inversion H; subst. unfold started. rewrite En, Ep. reflexivity.
Qed.

(* a code can only come from a status that waitpid reported for this very pid *)
Theorem code_provenance : forall w i w' c, step w (OCode i) = (w', OInt c) -> rc_of w i = None ->
    exists pr p rest sts,
      nth_error (procs w) i = Some pr /\ pop pr = Some p /\
      waitpid_loop false (pre (orc pr)) (fin (orc pr)) = (rest, Some (AAns (ppid p) sts)) /\
      decode sts = DOk c.
Proof.
  intros w i w' c. cbn [step]. unfold rc_of.
  destruct (nth_error (procs w) i) as [pr|] eqn:En; [|intros H; inversion H].
  destruct (pop pr) as [p|] eqn:Ep; [|intros H; inversion H].
  destruct (poll_proc false pr p) as [pr' res] eqn:Ew. intros H Hn; inversion H; subst. clear H.
  destruct (poll_proc_spec _ _ _ _ _ Ep Ew) as (_ & _ & _ & p' & B & _ & D & E & F & G).
  destruct res as [[v|]| |]; cbn [ores_of] in *; try discriminate.
  match goal with X : OInt _ = OInt _ |- _ => inversion X; subst end.
  destruct (G Hn c (E _ eq_refl)) as (rest & sts & W & Hd). exists pr, p, rest, sts. auto.
Qed.

Lemma discard_not_in : forall l i, ~ In i (discard l i).
Proof.
  intros l i H. unfold discard in H. apply filter_In in H. destruct H as [_ H].
  rewrite Nat.eqb_refl in H. discriminate.
Qed.

Lemma discard_incl : forall l i j, In j (discard l i) -> In j l.
Proof. intros l i j H. unfold discard in H. apply filter_In in H. tauto. Qed.

(* join: if it saw the child end, the child is no longer in the children set; if it
   returned without a code (timeout / ECHILD) the set is untouched *)
Theorem join_children : forall w i t w', step w (OJoin i t) = (w', ONone) ->
    (rc_of w' i <> None -> ~ In i (children w')) /\
    (rc_of w' i = None -> children w' = children w).
Proof.
  intros w i t w'. cbn [step].
  destruct (nth_error (procs w) i) as [pr|] eqn:En; [|intros H; inversion H].
  destruct (negb (creator pr =? cur w)); [intros H; inversion H|].
  destruct (pop pr) as [p|] eqn:Ep; [|intros H; inversion H].
  destruct (wait_proc t pr p) as [pr' res] eqn:Ew.
  destruct (wait_proc_spec _ _ _ _ _ Ep Ew) as (_ & p' & B & _ & _ & E & _ & _).
  destruct res as [[v|]| |]; intros H; inversion H; subst; clear H; cbn [children].
  - split; [intros _; apply discard_not_in|].
    unfold rc_of. cbn [procs]. rewrite (nth_error_upd_same _ _ _ _ _ En). rewrite B.
    rewrite (E _ eq_refl). discriminate.
  - split; [|reflexivity].
    unfold rc_of. cbn [procs]. rewrite (nth_error_upd_same _ _ _ _ _ En). rewrite B.
    rewrite (E _ eq_refl). congruence.
Qed.

(* _cleanup: whoever is still in the set afterwards has no code *)
Lemma cleanup_inv : forall todo ps ch ps' ch',
    cleanup todo ps ch = (ps', ch', None) ->
    (forall j, In j ch -> ~ In j todo ->
               match nth_error ps j with Some pr => rcp pr | None => None end = None) ->
    (forall j, In j ch' ->
               match nth_error ps' j with Some pr => rcp pr | None => None end = None)
    /\ incl ch' ch.
Proof.
  induction todo as [|j0 r IH]; intros ps ch ps' ch' H P; cbn [cleanup] in H.
  - inversion H; subst. split; [intros j Hj; apply P; auto|apply incl_refl].
  - destruct (nth_error ps j0) as [pj|] eqn:En.
    2:{ apply (IH _ _ _ _ H). intros j Hj Hr. destruct (Nat.eq_dec j j0) as [->|Hne].
        - rewrite En. reflexivity.
        - apply P; auto. intros [X|X]; auto. }
    destruct (pop pj) as [p|] eqn:Ep.
    2:{ apply (IH _ _ _ _ H). intros j Hj Hr. destruct (Nat.eq_dec j j0) as [->|Hne].
        - rewrite En. unfold rcp. rewrite Ep. reflexivity.
        - apply P; auto. intros [X|X]; auto. }
    destruct (poll_proc false pj p) as [pj' res] eqn:Epoll.
    destruct (poll_proc_spec _ _ _ _ _ Ep Epoll) as (_ & _ & _ & p' & B & _ & _ & E & _ & _).
    destruct res as [[v|]| |]; try discriminate.
    + (* finished: discarded *)
      destruct (IH _ _ _ _ H) as [Q1 Q2].
      * intros j Hj Hr. destruct (Nat.eq_dec j j0) as [->|Hne].
        -- exfalso. eapply discard_not_in; eauto.
        -- rewrite nth_error_upd_other by auto. apply P; [eapply discard_incl; eauto|].
           intros [X|X]; auto.
      * split; auto. intros j Hj. eapply discard_incl. apply Q2. exact Hj.
    + (* still running *)
      apply (IH _ _ _ _ H). intros j Hj Hr. destruct (Nat.eq_dec j j0) as [->|Hne].
      * rewrite (nth_error_upd_same _ _ _ _ _ En). unfold rcp. rewrite B. apply (E _ eq_refl).
      * rewrite nth_error_upd_other by auto. apply P; auto. intros [X|X]; auto.
Qed.

Lemma cleanup_exn : forall todo ps ch ps' ch' x,
    cleanup todo ps ch = (ps', ch', Some x) -> x = OAssert \/ x = OHang.
Proof.
  induction todo as [|j r IH]; intros ps ch ps' ch' x H; cbn [cleanup] in H; [discriminate|].
  destruct (nth_error ps j) as [pj|]; [|eauto].
  destruct (pop pj) as [p|]; [|eauto].
  destruct (poll_proc false pj p) as [pj' res]. destruct res as [[v|]| |]; eauto;
    inversion H; subst; auto.
Qed.

(* active_children() returns (sorted) exactly the set it leaves behind, a subset of the
   previous one, and none of its members has an exit code *)
Theorem active_children_running : forall w w' l, step w OActive = (w', OList l) ->
    l = sort_nat (children w') /\ incl (children w') (children w) /\
    forall j, In j (children w') -> rc_of w' j = None.
Proof.
  intros w w' l. cbn [step].
  destruct (cleanup (children w) (procs w) (children w)) as [[ps ch] e] eqn:Ec.
  destruct e as [x|]; intros H; inversion H; subst; clear H.
  - destruct (cleanup_exn _ _ _ _ _ _ Ec); discriminate.
  - cbn [children]. destruct (cleanup_inv _ _ _ _ _ Ec) as [Q1 Q2]; [intros j Hj Hn; contradiction|].
    repeat split; auto.
Qed.

(* start: only once, only by the creating process; a refused start changes nothing *)
Theorem start_twice_refused : forall w i, started w i = true -> step w (OStart i) = (w, OAssert).
Proof.
  intros w i H. unfold started in H. cbn [step].
  destruct (nth_error (procs w) i) as [pr|]; [|discriminate].
  destruct (pop pr); [reflexivity|discriminate].
Qed.

Theorem start_foreign_refused : forall w i pr,
    nth_error (procs w) i = Some pr -> creator pr <> cur w -> step w (OStart i) = (w, OAssert).
Proof.
  intros w i pr En Hc. cbn [step]. rewrite En. destruct (pop pr); [reflexivity|].
  replace (creator pr =? cur w) with false by lia. reflexivity.
Qed.

Theorem join_alive_foreign_refused : forall w i pr t,
    nth_error (procs w) i = Some pr -> creator pr <> cur w ->
    step w (OJoin i t) = (w, OAssert) /\ step w (OAlive i) = (w, OAssert).
Proof.
  intros w i pr t En Hc. cbn [step]. rewrite En.
  replace (creator pr =? cur w) with false by lia. split; reflexivity.
Qed.

Theorem join_unstarted_refused : forall w i pr t,
    nth_error (procs w) i = Some pr -> pop pr = None -> step w (OJoin i t) = (w, OAssert).
Proof.
  intros w i pr t En Ep. cbn [step]. rewrite En, Ep. destruct (negb (creator pr =? cur w)); reflexivity.
Qed.

(* a successful start: was not started, now is, with no code, and is a child *)
Theorem start_ok : forall w i w', step w (OStart i) = (w', ONone) ->
    started w i = false /\ own w i = true /\
    started w' i = true /\ rc_of w' i = None /\ In i (children w').
Proof.
  intros w i w'. cbn [step]. unfold started, own, rc_of.
  destruct (nth_error (procs w) i) as [pr|] eqn:En; [|intros H; inversion H].
  destruct (pop pr) as [p|] eqn:Ep; [intros H; inversion H|].
  destruct (creator pr =? cur w) eqn:Ec; cbn [negb]; [|intros H; inversion H].
  pose proof (cleanup_unstarted (children w) (procs w) (children w) i pr En Ep) as U.
  destruct (cleanup (children w) (procs w) (children w)) as [[ps ch] e] eqn:Ecl. cbn [fst] in U.
  destruct e as [x|]; intros H; inversion H; subst; clear H.
  { destruct (cleanup_exn _ _ _ _ _ _ Ecl); discriminate. }
  simpl procs. simpl children.
  rewrite (nth_error_upd_same _ _ _ _ _ U). cbn [pop rc].
  repeat split; auto. apply in_or_app. right. left. reflexivity.
Qed.

(* children are always started objects (from the initial, empty set) *)
Definition children_started (w : world) : Prop :=
  forall j, In j (children w) -> started w j = true.

Lemma cleanup_incl : forall todo ps ch, incl (snd (fst (cleanup todo ps ch))) ch.
Proof.
  induction todo as [|j r IH]; intros ps ch; cbn [cleanup]; [apply incl_refl|].
  destruct (nth_error ps j) as [pj|]; [|apply IH].
  destruct (pop pj) as [p|]; [|apply IH].
  destruct (poll_proc false pj p) as [pj' res]. destruct res as [[v|]| |]; cbn [fst snd];
    try apply incl_refl; try apply IH.
  intros x Hx. eapply discard_incl. eapply IH. exact Hx.
Qed.

Lemma started_step : forall w o i, started w i = true -> started (fst (step w o)) i = true.
Proof.
  intros w o i H. pose proof (started_for_ever [o] w i H) as X. rewrite run_cons in X. exact X.
Qed.

Lemma children_started_step : forall w o, children_started w -> children_started (fst (step w o)).
Proof.
  intros w o CS j Hj.
  assert (Old : In j (children w) -> started (fst (step w o)) j = true)
    by (intros X; apply started_step; apply CS; exact X).
  destruct o as [i|i t|i|i| |z]; cbn [step] in *.
  - destruct (nth_error (procs w) i) as [pr|] eqn:En; [|auto].
    destruct (pop pr) as [p|] eqn:Ep; [auto|].
    destruct (creator pr =? cur w) eqn:Ec; cbn [negb] in *; [|auto].
    pose proof (cleanup_unstarted (children w) (procs w) (children w) i pr En Ep) as U.
    pose proof (cleanup_incl (children w) (procs w) (children w)) as I.
    destruct (cleanup (children w) (procs w) (children w)) as [[ps ch] e]. cbn [fst snd] in *.
    destruct e; cbn [fst children procs] in *; [apply Old; apply I; exact Hj|].
    apply in_app_or in Hj. destruct Hj as [Hj|[<-|[]]].
    + apply Old. apply I. exact Hj.
    + unfold started. cbn [procs]. rewrite (nth_error_upd_same _ _ _ _ _ U). reflexivity.
  - destruct (nth_error (procs w) i) as [pr|] eqn:En; [|auto].
    destruct (negb (creator pr =? cur w)); [auto|].
    destruct (pop pr) as [p|] eqn:Ep; [|auto].
    destruct (wait_proc t pr p) as [pr' res]. destruct res as [[v|]| |]; cbn [fst children] in *; auto.
    apply Old. eapply discard_incl; eauto.
  - destruct (nth_error (procs w) i) as [pr|] eqn:En; [|auto].
    destruct (negb (creator pr =? cur w)); [auto|].
    destruct (pop pr) as [p|] eqn:Ep; [|auto].
    destruct (poll_proc false pr p) as [pr' res]. destruct res as [v| |]; cbn [fst children] in *; auto.
  - destruct (nth_error (procs w) i) as [pr|] eqn:En; [|auto].
    destruct (pop pr) as [p|] eqn:Ep; [|auto].
    destruct (poll_proc false pr p) as [pr' res]. cbn [fst children] in *; auto.
  - pose proof (cleanup_incl (children w) (procs w) (children w)) as I.
    destruct (cleanup (children w) (procs w) (children w)) as [[ps ch] e]. cbn [fst snd] in *.
    destruct e; cbn [fst children] in *; apply Old; apply I; exact Hj.
  - cbn [fst children] in *. auto.
Qed.

Theorem children_are_started : forall ops cur0 specs,
    children_started (fst (run (init_world cur0 specs) ops)).
Proof.
  intros ops cur0 specs.
  assert (G : forall ops w, children_started w -> children_started (fst (run w ops))).
  { induction ops0 as [|o r IH]; intros w H; [exact H|].
    rewrite run_cons. apply IH. apply children_started_step. exact H. }
  apply G. intros j Hj. cbn in Hj. contradiction.
Qed.

(* ------------------------------------------------------------------ step acts on the
   addressed object exactly like the single-object view (which K_procguard equals) *)
Lemma existsb_eqb_in : forall l i, existsb (Nat.eqb i) l = true <-> In i l.
Proof.
  intros l i. rewrite existsb_exists. split.
  - intros (x & Hx & E). apply Nat.eqb_eq in E. subst. exact Hx.
  - intros H. exists i. split; auto. apply Nat.eqb_refl.
Qed.

Lemma existsb_discard : forall l i, existsb (Nat.eqb i) (discard l i) = false.
Proof.
  intros l i. destruct (existsb (Nat.eqb i) (discard l i)) eqn:E; auto.
  apply existsb_eqb_in in E. exfalso. eapply discard_not_in; eauto.
Qed.

Theorem step_start_guard : forall w i g w' r,
    proj w i = Some g -> step w (OStart i) = (w', r) ->
    if snd (start_g g (cur w)) then w' = w /\ r = OAssert
    else r = ONone -> proj w' i = Some (fst (start_g g (cur w))).
Proof.
  intros w i g w' r. unfold proj, start_g. cbn [step].
  destruct (nth_error (procs w) i) as [pr|] eqn:En; [|discriminate].
  intros G; inversion G; subst g; clear G. cbn [g_started g_creator g_child].
  destruct (pop pr) as [p|] eqn:Ep; cbn [snd fst].
  - intros H; inversion H; auto.
  - destruct (creator pr =? cur w) eqn:Ec; cbn [negb snd fst].
    + pose proof (cleanup_unstarted (children w) (procs w) (children w) i pr En Ep) as U.
      destruct (cleanup (children w) (procs w) (children w)) as [[ps ch] e] eqn:Ecl. cbn [fst] in U.
      destruct e as [x|]; intros H; inversion H; subst; clear H.
      * intros ->. destruct (cleanup_exn _ _ _ _ _ _ Ecl); discriminate.
      * intros _. simpl procs. simpl children. rewrite (nth_error_upd_same _ _ _ _ _ U).
        cbn [pop creator]. f_equal. f_equal.
        apply existsb_eqb_in. apply in_or_app. right. left. reflexivity.
    + intros H; inversion H; auto.
Qed.

Theorem step_join_guard : forall w i t g w' r,
    proj w i = Some g -> step w (OJoin i t) = (w', r) ->
    if snd (join_g g (cur w) (rc_of w' i)) then w' = w /\ r = OAssert
    else r = ONone -> proj w' i = Some (fst (join_g g (cur w) (rc_of w' i))).
Proof.
  intros w i t g w' r. unfold proj, join_g. cbn [step].
  destruct (nth_error (procs w) i) as [pr|] eqn:En; [|discriminate].
  intros G; inversion G; subst g; clear G. cbn [g_started g_creator g_child].
  destruct (creator pr =? cur w) eqn:Ec; cbn [negb snd fst]; [|intros H; inversion H; auto].
  destruct (pop pr) as [p|] eqn:Ep; cbn [negb snd fst]; [|intros H; inversion H; auto].
  destruct (wait_proc t pr p) as [pr' res] eqn:Ew.
  destruct (wait_proc_spec _ _ _ _ _ Ep Ew) as (A & p' & B & _ & _ & E & _ & _).
  assert (R : forall ch, rc_of (mk_world (cur w) (upd (procs w) i pr') ch) i = rc p').
  { intros ch. unfold rc_of. simpl procs. rewrite (nth_error_upd_same _ _ _ _ _ En). rewrite B. reflexivity. }
  destruct res as [[v|]| |]; intros H; inversion H; subst; clear H; rewrite R.
  - rewrite (E _ eq_refl). cbn [snd fst]. intros _. simpl procs. simpl children.
    rewrite (nth_error_upd_same _ _ _ _ _ En). rewrite B, A. rewrite existsb_discard. reflexivity.
  - rewrite (E _ eq_refl). cbn [snd fst]. intros _. simpl procs. simpl children.
    rewrite (nth_error_upd_same _ _ _ _ _ En). rewrite B, A. reflexivity.
  - destruct (rc p'); cbn [snd]; intros X; discriminate.
  - destruct (rc p'); cbn [snd]; intros X; discriminate.
Qed.

Theorem step_alive_guard : forall w i g w' r,
    proj w i = Some g -> step w (OAlive i) = (w', r) ->
    match alive_g g (cur w) (rc_of w' i) with
    | None => w' = w /\ r = OAssert
    | Some b => r = OBool b \/ r = OAssert \/ r = OHang
    end.
Proof.
  intros w i g w' r. unfold proj, alive_g. cbn [step].
  destruct (nth_error (procs w) i) as [pr|] eqn:En; [|discriminate].
  intros G; inversion G; subst g; clear G. cbn [g_started g_creator g_child].
  destruct (creator pr =? cur w) eqn:Ec; cbn [negb]; [|intros H; inversion H; auto].
  destruct (pop pr) as [p|] eqn:Ep; cbn [negb]; [|intros H; inversion H; auto].
  destruct (poll_proc false pr p) as [pr' res] eqn:Ew.
  destruct (poll_proc_spec _ _ _ _ _ Ep Ew) as (_ & _ & _ & p' & B & _ & _ & E & _ & _).
  destruct res as [v| |]; intros H; inversion H; subst; clear H; auto.
  unfold rc_of. simpl procs. rewrite (nth_error_upd_same _ _ _ _ _ En). rewrite B.
  rewrite (E _ eq_refl). left. reflexivity.
Qed.

Theorem step_code_guard : forall w i g w' r,
    proj w i = Some g -> step w (OCode i) = (w', r) ->
    r = OAssert \/ r = OHang \/
    r = match code_g g (rc_of w' i) with Some c => OInt c | None => ONone end.
Proof.
  intros w i g w' r. unfold proj, code_g. cbn [step].
  destruct (nth_error (procs w) i) as [pr|] eqn:En; [|discriminate].
  intros G; inversion G; subst g; clear G. cbn [g_started].
  destruct (pop pr) as [p|] eqn:Ep; [|intros H; inversion H; auto].
  destruct (poll_proc false pr p) as [pr' res] eqn:Ew.
  destruct (poll_proc_spec _ _ _ _ _ Ep Ew) as (_ & _ & _ & p' & B & _ & _ & E & _ & _).
  intros H; inversion H; subst; clear H.
  destruct res as [v| |]; cbn [ores_of]; auto.
  right. right. unfold rc_of. simpl procs. rewrite (nth_error_upd_same _ _ _ _ _ En). rewrite B.
  rewrite (E _ eq_refl). destruct v; reflexivity.
Qed.

(* ------------------------------------------------------------------ child and parent together:
   if waitpid reports, for this pid, the status the kernel keeps for the way the child
   ended (fork / spawn), then exitcode returns exactly `seen` *)
Definition wait_status (e : ending) : option Z :=
  match e with
  | EExit n => Some (os_status_exit n)
  | EKilled s c => Some (os_status_sig s c)
  | _ => None
  end.

Theorem exitcode_end_to_end : forall m pth w i pr pp sts rest v,
    nth_error (procs w) i = Some pr -> pop pr = Some pp -> rc pp = None ->
    wait_status (ending_of m pth) = Some sts ->
    waitpid_loop false (pre (orc pr)) (fin (orc pr)) = (rest, Some (AAns (ppid pp) sts)) ->
    seen m pth = Some v ->
    snd (step w (OCode i)) = OInt v /\ rc_of (fst (step w (OCode i))) i = Some v.
Proof.
  intros m pth w i pr pp sts rest v En Ep Hrc Hs Hw Hv.
  assert (D : decode sts = DOk v).
  { unfold seen in Hv. destruct (ending_of m pth); cbn [wait_status] in Hs; try discriminate;
      inversion Hs; subst sts.
    - destruct (decode (os_status_exit n)); congruence.
    - destruct (decode (os_status_sig s core)); congruence. }
  cbn [step]. rewrite En, Ep. unfold poll_proc. rewrite Hrc, Hw.
  unfold poll1, poll_ans. rewrite Hrc, Z.eqb_refl, D. cbn [snd fst ores_of].
  split; [reflexivity|]. unfold rc_of. simpl procs. rewrite (nth_error_upd_same _ _ _ _ _ En).
  reflexivity.
Qed.
