(* C09: in every reachable state the workers of the pool list hold pairwise distinct
   slot indices (and are distinct, valid processes). *)
From Coq Require Import ZArith List Bool Lia ZifyBool.
From BV Require Import Lib.Cases Model.LaxSem Model.Restart Model.Pool
     Proofs.PoolJobs Proofs.PoolInv Proofs.PoolTick Proofs.PoolSup.
Import ListNotations.
Open Scope Z_scope.

Definition itab (s : pool) : list Z := map widx (procs s).

Definition idx_of (tab : list Z) (p : Z) : Z :=
  if p <? 0 then -1 else nth (Z.to_nat p) tab (-1).

Definition WInv (s : pool) : Prop :=
  NoDup (map (idx_of (itab s)) (wlist s))
  /\ (forall p, In p (wlist s) -> 0 <= p < Z.of_nat (length (procs s))).

Lemma idx_of_used s p : 0 <= p < Z.of_nat (length (procs s)) ->
  idx_of (itab s) p = match get_proc s p with Some q => widx q | None => -1 end.
Proof.
  intros Hp. unfold idx_of, get_proc, itab. replace (p <? 0) with false by lia.
  destruct (nth_error (procs s) (Z.to_nat p)) as [q|] eqn:E.
  - rewrite (nth_indep _ _ (widx q)) by (rewrite map_length; lia).
    rewrite map_nth. apply nth_error_nth with (d := q) in E. rewrite E. reflexivity.
  - apply nth_error_None in E. lia.
Qed.

Lemma used_idx_eq s : (forall p, In p (wlist s) -> 0 <= p < Z.of_nat (length (procs s))) ->
  used_idx s = map (idx_of (itab s)) (wlist s).
Proof.
  intros Hv. unfold used_idx. apply map_ext_in. intros p Hp. symmetry. apply idx_of_used. auto.
Qed.

(* ---- events other than the supervision pass leave the worker list and the index table alone *)
Lemma itab_upd f : (forall q, widx (f q) = widx q) -> forall l n, map widx (upd_nth n f l) = map widx l.
Proof.
  intros Hf. induction l as [|a l IH]; intros [|n]; cbn; try reflexivity.
  - rewrite Hf. reflexivity.
  - rewrite IH. reflexivity.
Qed.

Lemma itab_set_proc s p f : (forall q, widx (f q) = widx q) -> itab (set_proc s p f) = itab s.
Proof.
  intros Hf. unfold itab, set_proc. cbn [procs]. destruct (p <? 0); [reflexivity|]. apply itab_upd. exact Hf.
Qed.

Lemma itab_deliver s p sg l : itab (deliver s p sg l) = itab s.
Proof.
  unfold deliver. rewrite itab_set_proc; [reflexivity|].
  intros q. destruct (pexit q); [reflexivity|]. destruct (sg =? SIGKILL); [reflexivity|].
  destruct ((sg =? SIGTERM) && negb l); reflexivity.
Qed.

Definition pw (s : pool) := (wlist s, itab s).
Definition event_is_tick (e : event) : bool := match e with ETick | ETickClose _ | EJoinShutdown => true | _ => false end.

Lemma pw_deliver s p sg l : pw (deliver s p sg l) = pw s.
Proof. unfold pw. rewrite itab_deliver. reflexivity. Qed.

Lemma pw_scan_job l s j : pw (scan_job l s j) = pw s.
Proof.
  unfold scan_job. destruct (get_job s j) as [x|]; [|reflexivity].
  destruct (kind x); try reflexivity. destruct (time_accepted x) as [t|]; [|reflexivity].
  destruct (timed_out s (Some t) (eff_hard s x)).
  - unfold on_hard. destruct (ready x); [reflexivity|].
    destruct (owner x) as [p|]; [|reflexivity].
    destruct (in_pool _ p); [|reflexivity].
    destruct (negb (exit_of _ p =? 0) && exited _ p); rewrite ?pw_deliver; reflexivity.
  - destruct (negb (memZ j (dirty s)) && timed_out s (Some t) (eff_soft s x)); [|reflexivity].
    change (pw (with_dirty ?a ?b)) with (pw a). unfold on_soft. destruct (ready x); [reflexivity|].
    destruct (owner x) as [p|]; [|reflexivity]. destruct (in_pool s p); [|reflexivity].
    rewrite pw_deliver. reflexivity.
Qed.

Lemma pw_step s e : e <> ETick -> (forall k, e <> ETickClose k) -> e <> EJoinShutdown -> pw (fst (step s e)) = pw s.
Proof.
  intros Hne Hnk Hnj. destruct e; try congruence; try (exfalso; eapply Hnk; reflexivity); unfold step; cbn [fst]; try reflexivity.
  - unfold do_apply.
    destruct (negb (pstate (with_sigs s []) =? 0)); [reflexivity|].
    destruct ((match slot with Some b => b | None => putlocks (with_sigs s []) end) && (LaxSem.value (sem (with_sigs s [])) =? 0)); [reflexivity|]. cbn [fst].
    destruct (match slot with Some b => b | None => putlocks (with_sigs s []) end); reflexivity.
  - unfold do_map. destruct (negb (pstate (with_sigs s []) =? 0)); reflexivity.
  - unfold do_imap. destruct (negb (pstate (with_sigs s []) =? 0)); reflexivity.
  - unfold do_imap. destruct (negb (pstate (with_sigs s []) =? 0)); reflexivity.
  - change (pw (fst (do_feed (with_sigs s []) fail_at io)) = pw (with_sigs s [])).
    generalize (with_sigs s []). intros s0. unfold do_feed.
    assert (Hft : forall fuel i j k fa io0 s1, pw (fst (fst (feed_tasks fuel i j k fa io0 s1))) = pw s1).
    { induction fuel as [|f IH]; intros; cbn [feed_tasks]; [reflexivity|].
      destruct (okey_eqb (Some k) fa); [|apply IH]. destruct io0; [reflexivity|].
      rewrite IH. destruct (cached s1 j) as [x|]; [|reflexivity].
      destruct (kind x); try reflexivity. destruct (ready x); reflexivity. }
    assert (Hfs : forall fs k fa io0 s1, pw (fst (fst (do_feeds fs k fa io0 s1))) = pw s1).
    { induction fs as [|[[j n] sl] r IH]; intros; cbn [do_feeds]; [reflexivity|].
      pose proof (Hft (Z.to_nat n) 0 j k fa io0 s1) as H0.
      destruct (feed_tasks (Z.to_nat n) 0 j k fa io0 s1) as [[s2 k2] st]. cbn [fst] in H0.
      destruct st; [exact H0|].
      destruct sl.
      - destruct (get_job s2 j) as [x|].
        + destruct (snd (set_length x n)); cbn [fst]; [exact H0|]. rewrite IH. exact H0.
        + rewrite IH. exact H0.
      - rewrite IH. exact H0. }
    pose proof (Hfs (feeds s0) 0 fail_at io s0) as H0.
    destruct (do_feeds (feeds s0) 0 fail_at io s0) as [[s1 rest] r]. cbn [fst] in *. rewrite <- H0. reflexivity.
  - unfold do_ack. destruct (cached _ j) as [x|]; [|reflexivity].
    destruct (kind x); try reflexivity. destruct i; reflexivity.
  - unfold do_ready. destruct (cached _ j) as [x|]; [|reflexivity]. cbn [fst].
    change (pw (set_job ?a ?b ?c)) with (pw a). unfold bump_counter.
    destruct (ready x); destruct (worker_pids x) as [|p0 l0]; try reflexivity;
      destruct (in_pool _ p0); try reflexivity; unfold pw; cbn [wlist with_sem set_proc];
        try (change (itab (with_sem ?a ?b)) with (itab a)); rewrite itab_set_proc; reflexivity.
  - rewrite pw_deliver. reflexivity.
  - unfold pw. cbn [wlist set_proc]. rewrite itab_set_proc; [reflexivity|].
    intros q. destruct (pexit q); reflexivity.
  - change (pw (fst (do_scan (with_sigs s []) lingers)) = pw (with_sigs s [])).
    generalize (with_sigs s []). intros s0. unfold do_scan.
    destruct (negb (scanner s0)); [reflexivity|]. cbn [fst].
    assert (Hfold : forall snap s1, pw (fold_left (scan_job lingers) snap s1) = pw s1).
    { induction snap as [|j snap IH]; intros s1; cbn; [reflexivity|]. rewrite IH. apply pw_scan_job. }
    rewrite Hfold. reflexivity.
  - destruct (negb (scanner _)); reflexivity.
  - destruct (scan_todo _) as [|j0 r0]; cbn [fst]; [reflexivity|].
    change (pw (with_todo ?a ?b)) with (pw a). rewrite pw_scan_job. reflexivity.
  - unfold do_terminate_job. destruct (in_pool _ p); cbn [fst]; [|reflexivity].
    unfold pw. cbn [wlist set_proc]. rewrite itab_set_proc by (intros; reflexivity).
    change (wlist (deliver ?a ?b ?c ?d)) with (wlist a). rewrite itab_deliver. reflexivity.
  - unfold do_shrink. destruct (inactive _) as [|w ws]; [reflexivity|].
    destruct (LaxSem.value _ <? _); [reflexivity|].
    assert (Hsl : forall ws0 i n0 s1, pw (fst (shrink_loop ws0 i n0 s1)) = pw s1).
    { induction ws0 as [|p0 r IH]; intros; cbn [shrink_loop fst]; [reflexivity|].
      match goal with |- pw (fst (if ?c then (?a, _) else _)) = _ =>
        assert (Ha : pw a = pw s1) end.
      { rewrite pw_deliver. unfold pw. cbn [wlist set_proc]. rewrite itab_set_proc by (intros; reflexivity). reflexivity. }
      destruct (n0 - 1 <=? i); cbn [fst]; [exact Ha|rewrite IH; exact Ha]. }
    rewrite Hsl. reflexivity.
  - unfold do_close. destruct (pstate _ =? 0); reflexivity.
  - unfold do_next. destruct (get_job _ j) as [x|]; [|reflexivity].
    destruct (negb (is_imap x)); [reflexivity|].
    destruct (items x); [destruct (okey_eqb _ _)|]; reflexivity.
  - unfold do_apply_q, do_apply.
    destruct (negb (pstate (with_sigs s []) =? 0)); [reflexivity|].
    destruct ((match slot with Some b => b | None => putlocks (with_sigs s []) end) && (LaxSem.value (sem (with_sigs s [])) =? 0)); [reflexivity|]. cbn [fst].
    destruct (match slot with Some b => b | None => putlocks (with_sigs s []) end); reflexivity.
  - unfold do_apply_unsendable. destruct (negb (pstate _ =? 0)); [reflexivity|]. destruct (_ && _); reflexivity.
Qed.

Lemma WInv_pw s s' : pw s' = pw s -> length (procs s') = length (procs s) -> WInv s -> WInv s'.
Proof.
  unfold pw, WInv. intros H Hl [H1 H2]. inversion H as [[Hw Hi]]. rewrite Hw, Hi, Hl. auto.
Qed.

(* ---- the supervision pass *)
Lemma NoDup_map_filter {A B} (f : A -> B) (g : A -> bool) l :
  NoDup (map f l) -> NoDup (map f (filter g l)).
Proof.
  induction l as [|a l IH]; cbn; intros H; [constructor|].
  inversion H as [|x xs Hn Hd]; subst. destruct (g a); cbn; [|auto].
  constructor; [|auto]. intros Hin. apply Hn.
  apply in_map_iff in Hin. destruct Hin as (b & Hb & Hf). apply filter_In in Hf.
  apply in_map_iff. exists b. tauto.
Qed.

Lemma NoDup_app_single {A} (l : list A) a : NoDup l -> ~ In a l -> NoDup (l ++ [a]).
Proof.
  intros Hn Hi. induction l as [|b l IH]; cbn; [constructor; [intros []|constructor]|].
  inversion Hn as [|x xs Hb Hl]; subst. constructor.
  - intros Hin. apply in_app_or in Hin. destruct Hin as [Hin|[<-|[]]]; [auto|].
    apply Hi. left. reflexivity.
  - apply IH; [exact Hl|]. intros H. apply Hi. right. exact H.
Qed.

Lemma WInv_start_worker s ix :
  WInv s -> ~ In ix (used_idx s) -> WInv (start_worker s ix).
Proof.
  intros [H1 H2] Hix. unfold WInv.
  set (pn := Z.of_nat (length (procs s))).
  assert (Hit : itab (start_worker s ix) = itab s ++ [ix])
    by (unfold itab, start_worker; cbn [procs]; rewrite map_app; reflexivity).
  assert (Hwl : wlist (start_worker s ix) = wlist s ++ [pn]) by reflexivity.
  assert (Hlen : length (procs (start_worker s ix)) = S (length (procs s)))
    by (unfold start_worker; cbn [procs]; rewrite app_length; cbn; lia).
  rewrite Hit, Hwl, Hlen.
  assert (Hold : forall p, In p (wlist s) -> idx_of (itab s ++ [ix]) p = idx_of (itab s) p).
  { intros p Hp. specialize (H2 p Hp). unfold idx_of. replace (p <? 0) with false by lia.
    rewrite app_nth1 by (unfold itab; rewrite map_length; lia). reflexivity. }
  assert (Hnew : idx_of (itab s ++ [ix]) pn = ix).
  { unfold idx_of, pn. replace (Z.of_nat (length (procs s)) <? 0) with false by lia.
    rewrite Nat2Z.id. rewrite app_nth2 by (unfold itab; rewrite map_length; lia).
    unfold itab. rewrite map_length, Nat.sub_diag. reflexivity. }
  split.
  - rewrite map_app. cbn [map]. rewrite Hnew.
    rewrite (map_ext_in _ _ _ Hold).
    apply NoDup_app_single; [exact H1|]. rewrite <- (used_idx_eq s H2). exact Hix.
  - intros p Hp. apply in_app_or in Hp. destruct Hp as [Hp|[<-|[]]].
    + specialize (H2 p Hp). lia.
    + unfold pn. lia.
Qed.

Lemma WInv_repopulate : forall fuel i codes s, WInv s -> WInv (fst (repopulate fuel i codes s)).
Proof.
  induction fuel as [|f IH]; intros i codes s Hw; cbn [repopulate]; [exact Hw|].
  destruct (negb (pstate s =? 0)); [exact Hw|].
  match goal with |- context [if ?c then Restart.step (rst s) (now s) else (rst s, false)] =>
    destruct (if c then Restart.step (rst s) (now s) else (rst s, false)) as [r raised] end.
  assert (Hw1 : WInv (with_rst s r)) by exact Hw.
  destruct raised; [exact Hw1|].
  destruct (avail_index (with_rst s r)) as [ix|] eqn:Ea; [|exact Hw1].
  apply IH. apply WInv_start_worker; [exact Hw1|].
  unfold avail_index in Ea. apply find_some in Ea. destruct Ea as [_ Hf].
  intros Hin. apply memZ_In in Hin. fold (used_idx (with_rst s r)) in Hf. rewrite Hin in Hf. discriminate.
Qed.

Lemma WInv_join_exited s : WInv s -> WInv (fst (join_exited s)).
Proof.
  intros [H1 H2].
  destruct (join_exited_shape s) as (Hw & Hn & Hps).
  assert (Hp : procs (fst (join_exited s)) = procs s).
  { unfold join_exited. destruct (filter _ (rev _)); reflexivity. }
  destruct (join_exited s) as [s1 codes]. cbn [fst] in *.
  unfold WInv, itab. rewrite Hw, Hp. split.
  - unfold kept. apply NoDup_map_filter. exact H1.
  - intros p Hin. unfold kept in Hin. apply filter_In in Hin. apply H2. tauto.
Qed.

Lemma WInv_tick s : WInv s -> WInv (fst (do_tick s)).
Proof.
  intros [H1 H2]. unfold do_tick.
  destruct (join_exited_shape s) as (Hw & Hn & Hps).
  assert (Hp : procs (fst (join_exited s)) = procs s).
  { unfold join_exited. destruct (filter _ (rev _)); reflexivity. }
  destruct (join_exited s) as [s1 codes]. cbn [fst] in *.
  assert (Hw1 : WInv s1).
  { unfold WInv, itab. rewrite Hw, Hp. split.
    - unfold kept. apply NoDup_map_filter. exact H1.
    - intros p Hin. unfold kept in Hin. apply filter_In in Hin. apply H2. tauto. }
  pose proof (WInv_repopulate (Z.to_nat (nprocs s1 - Z.of_nat (length (wlist s1)))) 0 codes s1 Hw1) as Hr.
  destruct (repopulate _ 0 codes s1) as [s2 r]. cbn [fst] in Hr.
  destruct r; cbn [fst]; exact Hr.
Qed.

Lemma WInv_tick_close s k : WInv s -> WInv (fst (do_tick_close s k)).
Proof.
  intros Hw0. pose proof (WInv_tick s Hw0) as Ht. destruct Hw0 as [H1 H2]. unfold do_tick_close.
  destruct (join_exited_shape s) as (Hw & Hn & Hps).
  assert (Hp : procs (fst (join_exited s)) = procs s).
  { unfold join_exited. destruct (filter _ (rev _)); reflexivity. }
  destruct (join_exited s) as [s1 codes]. cbn [fst] in *.
  destruct (Z.to_nat (nprocs s1 - Z.of_nat (length (wlist s1))) <=? k)%nat; [exact Ht|].
  assert (Hw1 : WInv s1).
  { unfold WInv, itab. rewrite Hw, Hp. split.
    - unfold kept. apply NoDup_map_filter. exact H1.
    - intros p Hin. unfold kept in Hin. apply filter_In in Hin. apply H2. tauto. }
  pose proof (WInv_repopulate (S k) 0 codes s1 Hw1) as Hr.
  destruct (repopulate (S k) 0 codes s1) as [s2 r]. cbn [fst] in Hr.
  destruct r; cbn [fst]; try exact Hr.
  unfold release_n, do_close. destruct (pstate s2 =? 0); exact Hr.
Qed.

Theorem WInv_step s e : WInv s -> WInv (fst (step s e)).
Proof.
  intros Hw. destruct (event_is_tick e) eqn:E.
  - destruct e; try discriminate; unfold step; cbn [fst].
    + apply WInv_tick. exact Hw.
    + apply WInv_tick_close. exact Hw.
    + unfold do_join_shutdown. destruct (wlist (with_sigs s [])) eqn:Ew; cbn [fst]; [exact Hw|].
      apply (WInv_join_exited (with_sigs s [])). exact Hw.
  - apply (WInv_pw s); [apply pw_step|apply only_tick_starts_workers|exact Hw];
      try (intros ->; discriminate); intros k0 ->; discriminate.
Qed.

Lemma WInv_init c : 0 <= c_n c -> WInv (init c).
Proof.
  intros Hn. unfold init.
  set (s0 := mkpool _ _ _ _ _ _ _ _ _ _ _ _ _ _ _ _ _).
  (* start_n k i s starts k workers with the consecutive indices i, i+1, ... on top of a
     state whose used indices are all below i *)
  assert (Hgen : forall k i s, WInv s -> (forall x, In x (used_idx s) -> x < i) ->
                               WInv (start_n k i s)).
  { induction k as [|k IH]; intros i s Hw Hlt; cbn [start_n]; [exact Hw|].
    apply IH.
    - apply WInv_start_worker; [exact Hw|]. intros Hin. specialize (Hlt _ Hin). lia.
    - intros x Hx. destruct Hw as [_ H2].
      assert (Hv : forall p, In p (wlist (start_worker s i)) ->
                             0 <= p < Z.of_nat (length (procs (start_worker s i)))).
      { intros p Hp. cbn [wlist procs start_worker] in *. rewrite app_length. cbn [length].
        apply in_app_or in Hp. destruct Hp as [Hp|[<-|[]]]; [specialize (H2 p Hp)|]; lia. }
      rewrite (used_idx_eq _ Hv) in Hx. cbn [wlist start_worker] in Hx.
      rewrite map_app in Hx. apply in_app_or in Hx. destruct Hx as [Hx|Hx].
      + assert (Hx' : In x (used_idx s)).
        { rewrite (used_idx_eq s H2). apply in_map_iff in Hx. destruct Hx as (p & Hp & Hin).
          apply in_map_iff. exists p. split; [|exact Hin]. rewrite <- Hp.
          specialize (H2 p Hin). unfold idx_of, itab. cbn [procs start_worker]. rewrite map_app.
          replace (p <? 0) with false by lia. rewrite app_nth1 by (rewrite map_length; lia). reflexivity. }
        specialize (Hlt _ Hx'). lia.
      + cbn [map] in Hx. destruct Hx as [Hx|[]]. rewrite <- Hx.
        unfold idx_of, itab. cbn [procs start_worker].
        replace (Z.of_nat (length (procs s)) <? 0) with false by lia.
        rewrite Nat2Z.id, map_app, app_nth2 by (rewrite map_length; lia).
        rewrite map_length, Nat.sub_diag. cbn. lia. }
  apply Hgen.
  - split; [constructor|intros p []].
  - intros x [].
Qed.

(* C09_indices_distinct: in every reachable state the workers in the pool list hold
   pairwise distinct slot indices *)
Theorem indices_distinct c tr : 0 <= c_n c -> NoDup (used_idx (run c tr)).
Proof.
  intros Hn.
  assert (Hrun : forall tr0 s, WInv s -> WInv (fold_left (fun s e => fst (step s e)) tr0 s)).
  { induction tr0 as [|e tr0 IH]; intros s H; cbn; [exact H|]. apply IH. apply WInv_step. exact H. }
  destruct (Hrun tr (init c) (WInv_init c Hn)) as [H1 H2].
  unfold run. rewrite (used_idx_eq _ H2). exact H1.
Qed.
