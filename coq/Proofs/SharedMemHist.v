(* C15: the history theorem.  For EVERY valid history of creating (any kind / size / initialiser),
   dropping, storing and rebuilding shared ctypes objects from a fresh heap, Model/SharedMem.srun --
   the allocator of C14 underneath, recycled dirty storage included -- never raises, keeps the heap
   invariant, keeps live objects of different roots in different (hence disjoint) blocks, and after
   every op every live object reads exactly its shadow (Model/SharedShadow.v): its initial value
   overwritten by the stores made through it or its aliases, and by nothing else.

   Coupling invariant between the implementation state (heap, memory, object table) and the shadow;
   SNew by create_isolated + the three *_initialised theorems, SDrop by C14's free lemmas,
   SWrite by write_isolated + read_after_write, SRebuild by rebuild_same. *)
From Coq Require Import ZArith List Bool Lia ZifyBool Permutation.
From BV Require Import Lib.PyVal Model.Heap Model.SharedMem Model.SharedShadow.
From BV Require Import Proofs.HeapLib Proofs.HeapIdx Proofs.HeapGeo Proofs.HeapInv Proofs.HeapProofs
  Proofs.SharedMemProofs.
Import ListNotations.
Open Scope Z_scope.

(* ------------------------------------------------------------------ lists *)
Lemma nth_some_lt {A} (l : list (option A)) k x : nth k l None = Some x -> (k < length l)%nat.
Proof.
  intros H. destruct (Nat.lt_ge_cases k (length l)) as [L|G]; [assumption|].
  rewrite nth_overflow in H by assumption. discriminate.
Qed.

Lemma nth_set_same {A} (l : list A) k x d : (k < length l)%nat -> nth k (set_nth l k x) d = x.
Proof.
  revert k; induction l as [|y r IH]; intros [|k] H; cbn [length] in H; cbn [set_nth nth]; try lia.
  - reflexivity.
  - apply IH. lia.
Qed.

Lemma nth_set_other {A} (l : list A) k i x d : i <> k -> nth i (set_nth l k x) d = nth i l d.
Proof.
  revert k i; induction l as [|y r IH]; intros [|k] [|i] H; cbn [set_nth nth]; try reflexivity.
  - congruence.
  - apply IH. congruence.
Qed.

Lemma set_nth_len {A} (l : list A) k x : length (set_nth l k x) = length l.
Proof. revert k; induction l as [|y r IH]; intros [|k]; cbn [set_nth length]; auto. Qed.

Lemma nth_snoc_old {A} (l : list A) x i d : (i < length l)%nat -> nth i (l ++ [x]) d = nth i l d.
Proof. intros H. apply app_nth1. assumption. Qed.

Lemma nth_snoc_new {A} (l : list A) x d : nth (length l) (l ++ [x]) d = x.
Proof. rewrite app_nth2 by lia. rewrite Nat.sub_diag. reflexivity. Qed.

Lemma nth_snoc_cases {A} (l : list (option A)) x i y : nth i (l ++ [x]) None = Some y ->
  ((i < length l)%nat /\ nth i l None = Some y) \/ (i = length l /\ x = Some y).
Proof.
  intros H. destruct (Nat.lt_ge_cases i (length l)) as [L|G].
  - left. split; [assumption|]. rewrite app_nth1 in H by assumption. assumption.
  - right. destruct (Nat.eq_dec i (length l)) as [->|N].
    + rewrite nth_snoc_new in H. split; [reflexivity|assumption].
    + rewrite nth_overflow in H by (rewrite app_length; cbn [length]; lia). discriminate.
Qed.

Lemma nth_map_seq {A} (f : nat -> A) n i d : (i < n)%nat -> nth i (map f (seq 0 n)) d = f i.
Proof.
  intros H. rewrite (nth_indep _ d (f O)) by (rewrite map_length, seq_length; assumption).
  rewrite map_nth. rewrite seq_nth by assumption. reflexivity.
Qed.

(* ------------------------------------------------------------------ overwrite *)
Lemma overwrite_length l off bs : length (overwrite l off bs) = length l.
Proof. unfold overwrite. rewrite map_length, seq_length. reflexivity. Qed.

Lemma overwrite_nth l off bs i : (i < length l)%nat ->
  nth i (overwrite l off bs) 0 =
  if (off <=? i)%nat && (i <? off + length bs)%nat then nth (i - off) bs 0 else nth i l 0.
Proof. intros H. unfold overwrite. rewrite nth_map_seq by assumption. reflexivity. Qed.

(* a store through an object, read back through the same storage: the old bytes overwritten *)
Lemma read_after_write m o off bs m' : 0 <= o_size o ->
  o_write m o off bs = Some m' ->
  o_read m' o = overwrite (o_read m o) (Z.to_nat off) bs.
Proof.
  intros Hs Hw. unfold o_write in Hw.
  destruct ((0 <=? off) && (off + Z.of_nat (length bs) <=? o_size o)) eqn:E; [|discriminate].
  inversion Hw; subst m'. clear Hw. unfold o_read.
  apply list_ext.
  - rewrite overwrite_length, !mread_length. reflexivity.
  - intros i Hi. rewrite mread_length in Hi.
    rewrite overwrite_nth by (rewrite mread_length; assumption).
    rewrite !mread_nth by assumption.
    destruct ((Z.to_nat off <=? i)%nat && (i <? Z.to_nat off + length bs)%nat) eqn:Ei.
    + replace (o_start o + Z.of_nat i) with (o_start o + off + Z.of_nat (i - Z.to_nat off)) by lia.
      apply mwrite_inside. lia.
    + apply mwrite_outside. lia.
Qed.

Lemma o_read_length m o : length (o_read m o) = Z.to_nat (o_size o).
Proof. unfold o_read. apply mread_length. Qed.

(* ------------------------------------------------------------------ creation always succeeds *)
Lemma effects_run pg size init b : forall p s0,
  (forall e, In e p -> e <> ENew) -> (In EInit p -> Z.of_nat (length init) <= size) ->
  exists s1, do_effects pg size init s0 (Some (mk_obj b size)) p = OK (s1, Some (mk_obj b size)).
Proof.
  induction p as [|e r IH]; intros s0 Hp Hi; cbn [do_effects].
  - eexists. reflexivity.
  - assert (Hr : forall e0, In e0 r -> e0 <> ENew) by (intros e0 H0; apply Hp; right; assumption).
    assert (Hir : In EInit r -> Z.of_nat (length init) <= size) by (intros H0; apply Hi; right; assumption).
    destruct e; cbn [do_effect bind].
    + exfalso. apply (Hp ENew); [left; reflexivity|reflexivity].
    + apply IH; assumption.
    + unfold o_write. cbn [o_size].
      assert (Hle : Z.of_nat (length init) <= size) by (apply Hi; left; reflexivity).
      destruct ((0 <=? 0) && (0 + Z.of_nat (length init) <=? size)) eqn:E; [|lia].
      cbn [bind]. apply IH; assumption.
Qed.

Lemma create_runs pg size init p s : pg_ok pg -> HeapInv (sm_heap s) -> 0 <= size < maxsize ->
  (forall e, In e p -> e <> ENew) -> (In EInit p -> Z.of_nat (length init) <= size) ->
  exists s' o, create (ENew :: p) pg size init s = OK (s', o) /\ pending (sm_heap s') = [].
Proof.
  intros Hpg HI Hs Hp Hi.
  destruct (malloc_ok pg (sm_heap s) size Hpg HI Hs) as [b [h' [hd [E [_ [_ [Hpe _]]]]]]].
  destruct (effects_run pg size init b p (mk_sm h' (sm_mem s)) Hp Hi) as [s1 E1].
  exists s1, (mk_obj b size). split.
  - unfold create. cbn [do_effects do_effect]. rewrite E. cbn [bind]. rewrite E1. cbn [bind]. reflexivity.
  - pose proof (effects_heap _ _ _ _ _ _ _ _ Hp E1) as Hh. cbn [sm_heap] in Hh. rewrite Hh. assumption.
Qed.

Lemma prog_of_kind_shape kind : exists p, prog_of_kind kind = ENew :: p /\ (forall e, In e p -> e <> ENew) /\
  (In EInit p -> kind <> 1).
Proof.
  unfold prog_of_kind. destruct (kind =? 0) eqn:E0; [|destruct (kind =? 1) eqn:E1].
  - exists [EZero; EInit]. split; [reflexivity|]. split; [|lia].
    intros e [<-|[<-|[]]]; discriminate.
  - exists [EZero]. split; [reflexivity|]. split.
    + intros e [<-|[]]; discriminate.
    + intros [H|[]]; discriminate.
  - exists [EInit]. split; [reflexivity|]. split; [|lia].
    intros e [<-|[]]; discriminate.
Qed.

Lemma initial_bytes_fits kind size init bs : initial_bytes kind size init = Some bs ->
  kind <> 1 -> Z.of_nat (length init) <= size.
Proof.
  unfold initial_bytes. intros H Hk.
  destruct (kind =? 0); [destruct (Z.of_nat (length init) <=? size) eqn:E; [lia|discriminate]|].
  destruct (kind =? 1) eqn:E1; [lia|].
  destruct (Z.of_nat (length init) =? size) eqn:E; [lia|discriminate].
Qed.

(* what the new object reads, by kind: the three *_initialised theorems *)
Lemma created_reads pg kind size init s s' o bs : 0 <= size ->
  initial_bytes kind size init = Some bs ->
  create (prog_of_kind kind) pg size init s = OK (s', o) -> o_read (sm_mem s') o = bs.
Proof.
  intros Hs Hb Hc. unfold initial_bytes in Hb. unfold prog_of_kind in Hc.
  destruct (kind =? 0).
  - destruct (Z.of_nat (length init) <=? size) eqn:E; [|discriminate]. inversion Hb; subst bs.
    apply (rawvalue_initialised pg size init s s' o Hs ltac:(lia) Hc).
  - destruct (kind =? 1).
    + inversion Hb; subst bs.
      (* RawArray(n) ignores the initialiser argument: its program has no EInit *)
      assert (Hc' : raw_array_n pg size s = OK (s', o)).
      { unfold raw_array_n, create, rawarray_n_prog in *. cbn [do_effects do_effect] in *. exact Hc. }
      apply (rawarray_n_initialised pg size s s' o Hs Hc').
    + destruct (Z.of_nat (length init) =? size) eqn:E; [|discriminate]. inversion Hb; subst bs.
      apply (rawarray_init_initialised pg size init s s' o ltac:(lia) Hc).
Qed.

(* ------------------------------------------------------------------ the coupling invariant *)
Definition cell_ok (s : smstate) (x : option obj) (c : cell) : Prop :=
  match x, c with
  | Some o, Some (_, bs) => obj_ok (sm_heap s) o /\ o_read (sm_mem s) o = bs
  | None, None => True
  | _, _ => False
  end.

Record Coupled (s : smstate) (objs : list (option obj)) (sh : shadow) : Prop := mk_Coupled {
  cp_inv : HeapInv (sm_heap s);
  cp_pend : pending (sm_heap s) = [];
  cp_len : length objs = length sh;
  cp_cells : forall i, cell_ok s (nth i objs None) (nth i sh None);
  cp_roots : forall i r bs, nth i sh None = Some (r, bs) -> (r < length sh)%nat;
  cp_pair : forall i j oi oj ri bi rj bj,
      nth i objs None = Some oi -> nth j objs None = Some oj ->
      nth i sh None = Some (ri, bi) -> nth j sh None = Some (rj, bj) ->
      (ri = rj -> oi = oj) /\ (ri <> rj -> o_block oi <> o_block oj) }.

Lemma coupled_init hsize : Coupled (mk_sm (heap_init hsize) mem0) [] [].
Proof.
  constructor; cbn [sm_heap sm_mem length].
  - apply heap_init_inv.
  - reflexivity.
  - reflexivity.
  - intros i. destruct i; exact I.
  - intros i r bs H. destruct i; discriminate.
  - intros i j oi oj ri bi rj bj H. destruct i; discriminate.
Qed.

(* a live shadow cell has a live object, and vice versa *)
Lemma cell_live_obj s objs sh k r bs : Coupled s objs sh -> nth k sh None = Some (r, bs) ->
  exists o, nth k objs None = Some o /\ obj_ok (sm_heap s) o /\ o_read (sm_mem s) o = bs.
Proof.
  intros C H. pose proof (cp_cells _ _ _ C k) as Hc. rewrite H in Hc. unfold cell_ok in Hc.
  destruct (nth k objs None) as [o|]; [|contradiction]. exists o. tauto.
Qed.

Lemma obj_live_cell s objs sh k o : Coupled s objs sh -> nth k objs None = Some o ->
  exists r bs, nth k sh None = Some (r, bs) /\ obj_ok (sm_heap s) o /\ o_read (sm_mem s) o = bs.
Proof.
  intros C H. pose proof (cp_cells _ _ _ C k) as Hc. rewrite H in Hc. unfold cell_ok in Hc.
  destruct (nth k sh None) as [[r bs]|]; [|contradiction]. exists r, bs. tauto.
Qed.

Lemma shares_false objs ob : shares_wrapper objs ob = false ->
  forall i oi, nth i objs None = Some oi -> o_block oi <> o_block ob.
Proof.
  intros H i oi Hi E. unfold shares_wrapper in H.
  assert (Hin : In (Some oi) objs).
  { rewrite <- Hi. apply nth_In. eapply nth_some_lt; eassumption. }
  assert (Hex : existsb (fun x => match x with Some o' => block_eqb (o_block o') (o_block ob) | None => false end) objs = true).
  { apply existsb_exists. exists (Some oi). split; [assumption|]. apply block_eqb_spec. assumption. }
  congruence.
Qed.

Lemma shares_true objs ob : shares_wrapper objs ob = true ->
  exists i oi, nth i objs None = Some oi /\ o_block oi = o_block ob.
Proof.
  intros H. unfold shares_wrapper in H. apply existsb_exists in H. destruct H as [[o'|] [Hin Hb]]; [|discriminate].
  apply block_eqb_spec in Hb. destruct (In_nth _ _ None Hin) as [i [_ Hi]]. exists i, o'. split; assumption.
Qed.

(* dropping object k: whatever happens to the heap, if the invariant and the other live objects survive *)
Lemma coupled_drop s h' objs sh k : Coupled s objs sh -> (k < length sh)%nat ->
  HeapInv h' -> pending h' = [] ->
  (forall i oi, i <> k -> nth i objs None = Some oi -> obj_ok h' oi) ->
  Coupled (mk_sm h' (sm_mem s)) (set_nth objs k None) (set_nth sh k None).
Proof.
  intros C Hk HI' Hpe Hkeep. pose proof (cp_len _ _ _ C) as Hlen.
  constructor; cbn [sm_heap sm_mem].
  - assumption.
  - assumption.
  - rewrite !set_nth_len. assumption.
  - intros i. destruct (Nat.eq_dec i k) as [->|N].
    + rewrite !nth_set_same by lia. exact I.
    + rewrite !nth_set_other by assumption. pose proof (cp_cells _ _ _ C i) as Hc. unfold cell_ok in *.
      cbn [sm_heap sm_mem].
      destruct (nth i objs None) as [oi|] eqn:Eoi; destruct (nth i sh None) as [[ri bi]|]; try contradiction; try exact I.
      split; [apply (Hkeep i oi N Eoi)|tauto].
  - intros i ri bi Hn. rewrite set_nth_len. destruct (Nat.eq_dec i k) as [->|N].
    + rewrite nth_set_same in Hn by lia. discriminate.
    + rewrite nth_set_other in Hn by assumption. eapply (cp_roots _ _ _ C); eassumption.
  - intros i j oi oj ri bi rj bj Hoi Hoj Hsi Hsj.
    destruct (Nat.eq_dec i k) as [->|Ni]; [rewrite nth_set_same in Hsi by lia; discriminate|].
    destruct (Nat.eq_dec j k) as [->|Nj]; [rewrite nth_set_same in Hsj by lia; discriminate|].
    rewrite nth_set_other in Hoi by assumption. rewrite nth_set_other in Hoj by assumption.
    rewrite nth_set_other in Hsi by assumption. rewrite nth_set_other in Hsj by assumption.
    exact (cp_pair _ _ _ C i j oi oj ri bi rj bj Hoi Hoj Hsi Hsj).
Qed.

(* ------------------------------------------------------------------ one step *)
Lemma step_coupled pg s objs sh o sh' : pg_ok pg -> Coupled s objs sh -> sh_step sh o = Some sh' ->
  exists s' objs' b sz, sstep pg s objs o = OK (s', objs', (b, sz)) /\ Coupled s' objs' sh' /\ 0 <= sz.
Proof.
  intros Hpg C Hst. destruct o as [kind size init|k|k off bs|k]; cbn [sh_step] in Hst.
  - (* ---- SNew *)
    destruct ((0 <=? size) && (size <? maxsize)) eqn:Es; [|discriminate].
    destruct (initial_bytes kind size init) as [ib|] eqn:Eb; [|discriminate].
    inversion Hst; subst sh'. clear Hst.
    assert (Hs : 0 <= size < maxsize) by lia.
    destruct (prog_of_kind_shape kind) as [p [Ep [Hp Hk]]].
    assert (Hfit : In EInit p -> Z.of_nat (length init) <= size).
    { intros Hi. eapply initial_bytes_fits; [eassumption|apply Hk; assumption]. }
    destruct (create_runs pg size init p s Hpg (cp_inv _ _ _ C) Hs Hp Hfit) as [s' [ob [Ec Hpe]]].
    pose proof (create_isolated pg size init p s s' ob Hpg (cp_inv _ _ _ C) Hs Hp Ec) as [HI' [Hok [Hsz Hold]]].
    assert (Hrd : o_read (sm_mem s') ob = ib).
    { apply (created_reads pg kind size init s s' ob ib ltac:(lia) Eb). rewrite Ep. exact Ec. }
    exists s', (objs ++ [Some ob]), (o_block ob), (o_size ob). split.
    { cbn [sstep]. rewrite Ep, Ec. cbn [bind]. reflexivity. }
    split; [|lia].
    (* old objects: still sound, in another block, same bytes *)
    assert (Hkeep : forall i oi, nth i objs None = Some oi ->
              obj_ok (sm_heap s') oi /\ o_block oi <> o_block ob /\ o_read (sm_mem s') oi = o_read (sm_mem s) oi).
    { intros i oi Hi. destruct (obj_live_cell _ _ _ _ _ C Hi) as [r [b0 [_ [Hoki _]]]].
      apply Hold; [assumption|]. rewrite (cp_pend _ _ _ C). intros []. }
    pose proof (cp_len _ _ _ C) as Hlen.
    constructor.
    + assumption.
    + assumption.
    + rewrite !app_length, Hlen. reflexivity.
    + intros i. destruct (Nat.lt_ge_cases i (length objs)) as [L|G].
      * rewrite !nth_snoc_old by lia. pose proof (cp_cells _ _ _ C i) as Hc. unfold cell_ok in *.
        destruct (nth i objs None) as [oi|] eqn:Eo; destruct (nth i sh None) as [[r b0]|]; try contradiction; try exact I.
        destruct (Hkeep i oi Eo) as [A [_ B]]. split; [assumption|]. rewrite B. tauto.
      * destruct (Nat.eq_dec i (length objs)) as [->|N].
        -- rewrite nth_snoc_new. rewrite Hlen, nth_snoc_new. cbn [cell_ok]. split; assumption.
        -- rewrite !nth_overflow by (rewrite app_length; cbn [length]; lia). exact I.
    + intros i r b0 Hn. rewrite app_length. cbn [length].
      apply nth_snoc_cases in Hn. destruct Hn as [[L Hn]|[-> Hn]].
      * pose proof (cp_roots _ _ _ C i r b0 Hn). lia.
      * inversion Hn. lia.
    + intros i j oi oj ri bi rj bj Hoi Hoj Hsi Hsj.
      apply nth_snoc_cases in Hoi. apply nth_snoc_cases in Hoj.
      apply nth_snoc_cases in Hsi. apply nth_snoc_cases in Hsj.
      destruct Hoi as [[Li Hoi]|[-> Hoi]]; destruct Hsi as [[Li' Hsi]|[Ei' Hsi]]; try (exfalso; unfold cell in *; lia);
      destruct Hoj as [[Lj Hoj]|[-> Hoj]]; destruct Hsj as [[Lj' Hsj]|[Ej' Hsj]]; try (exfalso; unfold cell in *; lia).
      * exact (cp_pair _ _ _ C i j oi oj ri bi rj bj Hoi Hoj Hsi Hsj).
      * inversion Hoj; inversion Hsj; subst.
        pose proof (cp_roots _ _ _ C i ri bi Hsi) as Hr. destruct (Hkeep i oi Hoi) as [_ [Hne _]].
        split; [lia|intros _; assumption].
      * inversion Hoi; inversion Hsi; subst.
        pose proof (cp_roots _ _ _ C j rj bj Hsj) as Hr. destruct (Hkeep j oj Hoj) as [_ [Hne _]].
        split; [lia|intros _; congruence].
      * inversion Hoi; inversion Hoj; subst. inversion Hsi; inversion Hsj; subst. split; [reflexivity|lia].
  - (* ---- SDrop *)
    destruct (nth k sh None) as [[r b0]|] eqn:Ek; [|discriminate].
    inversion Hst; subst sh'. clear Hst.
    destruct (cell_live_obj _ _ _ _ _ _ C Ek) as [ob [Eo [[Hin Hsz] Hrd]]].
    assert (Hk : (k < length sh)%nat) by (eapply nth_some_lt; eassumption).
    destruct (shares_wrapper (set_nth objs k None) ob) eqn:Esh.
    + (* an alias still uses the wrapper: nothing is freed *)
      exists s, (set_nth objs k None), none_block, 0. split.
      { cbn [sstep]. rewrite Eo. cbv zeta. rewrite Esh. reflexivity. }
      split; [|lia].
      replace s with (mk_sm (sm_heap s) (sm_mem s)) at 1 by (destruct s; reflexivity).
      apply coupled_drop; [assumption|assumption|apply (cp_inv _ _ _ C)|apply (cp_pend _ _ _ C)|].
      intros i oi _ Hi. destruct (obj_live_cell _ _ _ _ _ C Hi) as [ri [bi [_ [Hoki _]]]]. assumption.
    + (* the last object over this wrapper: its finaliser frees the block (C14's free) *)
      assert (Hnp : ~ In (o_block ob) (pending (sm_heap s))) by (rewrite (cp_pend _ _ _ C); intros []).
      destruct (free_ok (sm_heap s) (o_block ob) (cp_inv _ _ _ C) Hin Hnp) as [h' [Ef [HI' [Hpe _]]]].
      destruct (free_block (sm_heap s) (o_block ob) h' (cp_inv _ _ _ C) Hin Hnp Ef) as [_ [_ Hal]].
      exists (mk_sm h' (sm_mem s)), (set_nth objs k None), none_block, 0. split.
      { cbn [sstep]. rewrite Eo. cbv zeta. rewrite Esh. unfold drop. rewrite Ef. cbn [bind]. reflexivity. }
      split; [|lia].
      apply coupled_drop; try assumption.
      intros i oi Hik Hi. destruct (obj_live_cell _ _ _ _ _ C Hi) as [ri [bi [_ [[Hini Hszi] _]]]].
      split; [|assumption]. apply Hal. split; [assumption|]. split.
      * apply (shares_false _ _ Esh i oi). rewrite nth_set_other by assumption. assumption.
      * rewrite (cp_pend _ _ _ C). intros [].
  - (* ---- SWrite *)
    destruct (nth k sh None) as [[r old]|] eqn:Ek; [|discriminate].
    destruct ((0 <=? off) && (off + Z.of_nat (length bs) <=? Z.of_nat (length old))) eqn:Eb; [|discriminate].
    inversion Hst; subst sh'. clear Hst.
    destruct (cell_live_obj _ _ _ _ _ _ C Ek) as [ob [Eo [[Hin Hsz] Hrd]]].
    assert (Hlo : length old = Z.to_nat (o_size ob)) by (rewrite <- Hrd; apply o_read_length).
    assert (Ew : exists m', o_write (sm_mem s) ob off bs = Some m').
    { unfold o_write. destruct ((0 <=? off) && (off + Z.of_nat (length bs) <=? o_size ob)) eqn:E; [eexists; reflexivity|lia]. }
    destruct Ew as [m' Ew].
    exists (mk_sm (sm_heap s) m'), objs, none_block, 0. split.
    { cbn [sstep]. rewrite Eo, Ew. reflexivity. }
    split; [|lia].
    assert (Hnm : forall i, nth i (map (write_cell r (Z.to_nat off) bs) sh) None
                          = write_cell r (Z.to_nat off) bs (nth i sh None)).
    { intros i. change (@None (nat * list Z)) with (write_cell r (Z.to_nat off) bs None) at 1. apply map_nth. }
    assert (Hinv : forall i ri bi, nth i (map (write_cell r (Z.to_nat off) bs) sh) None = Some (ri, bi) ->
                     exists bi0, nth i sh None = Some (ri, bi0)).
    { intros i ri bi H. rewrite Hnm in H. unfold write_cell in H.
      destruct (nth i sh None) as [[r0 b0]|]; [|discriminate].
      destruct (Nat.eqb r0 r); inversion H; subst; eexists; reflexivity. }
    constructor; cbn [sm_heap sm_mem].
    + apply (cp_inv _ _ _ C).
    + apply (cp_pend _ _ _ C).
    + rewrite map_length. apply (cp_len _ _ _ C).
    + intros i. rewrite Hnm. pose proof (cp_cells _ _ _ C i) as Hc. unfold cell_ok in *. cbn [sm_heap sm_mem].
      destruct (nth i objs None) as [oi|] eqn:Eoi; destruct (nth i sh None) as [[ri bi]|] eqn:Esi;
        cbn [write_cell]; try contradiction; try exact I.
      destruct Hc as [Hoki Hri].
      destruct (cp_pair _ _ _ C i k oi ob ri bi r old Eoi Eo Esi Ek) as [Hsame Hdiff].
      destruct (Nat.eqb ri r) eqn:Er.
      * apply Nat.eqb_eq in Er. specialize (Hsame Er). subst oi. split; [assumption|].
        rewrite (read_after_write (sm_mem s) ob off bs m' ltac:(lia) Ew). rewrite Hri. reflexivity.
      * apply Nat.eqb_neq in Er. split; [assumption|].
        rewrite (write_isolated (sm_heap s) (sm_mem s) ob oi off bs m' (cp_inv _ _ _ C)
                   (conj Hin Hsz) Hoki ltac:(intros E; apply (Hdiff Er); congruence) Ew).
        assumption.
    + intros i ri bi Hn. rewrite map_length. destruct (Hinv i ri bi Hn) as [bi0 H0].
      eapply (cp_roots _ _ _ C); eassumption.
    + intros i j oi oj ri bi rj bj Hoi Hoj Hsi Hsj.
      destruct (Hinv i ri bi Hsi) as [bi0 Hi0]. destruct (Hinv j rj bj Hsj) as [bj0 Hj0].
      exact (cp_pair _ _ _ C i j oi oj ri bi0 rj bj0 Hoi Hoj Hi0 Hj0).
  - (* ---- SRebuild *)
    destruct (nth k sh None) as [[r b0]|] eqn:Ek; [|discriminate].
    inversion Hst; subst sh'. clear Hst.
    destruct (cell_live_obj _ _ _ _ _ _ C Ek) as [ob [Eo [Hok Hrd]]].
    exists s, (objs ++ [Some ob]), (o_block ob), (o_size ob). split.
    { cbn [sstep]. rewrite Eo. rewrite rebuild_same. reflexivity. }
    split; [|destruct Hok; lia].
    pose proof (cp_len _ _ _ C) as Hlen.
    constructor.
    + apply (cp_inv _ _ _ C).
    + apply (cp_pend _ _ _ C).
    + rewrite !app_length, Hlen. reflexivity.
    + intros i. destruct (Nat.lt_ge_cases i (length objs)) as [L|G].
      * rewrite !nth_snoc_old by lia. apply (cp_cells _ _ _ C).
      * destruct (Nat.eq_dec i (length objs)) as [->|N].
        -- rewrite nth_snoc_new. rewrite Hlen, nth_snoc_new. cbn [cell_ok]. split; assumption.
        -- rewrite !nth_overflow by (rewrite app_length; cbn [length]; lia). exact I.
    + intros i ri bi Hn. rewrite app_length. cbn [length].
      apply nth_snoc_cases in Hn. destruct Hn as [[L Hn]|[-> Hn]].
      * pose proof (cp_roots _ _ _ C i ri bi Hn). lia.
      * pose proof (cp_roots _ _ _ C k r b0 Ek) as Hr. inversion Hn; subst. lia.
    + intros i j oi oj ri bi rj bj Hoi Hoj Hsi Hsj.
      apply nth_snoc_cases in Hoi. apply nth_snoc_cases in Hoj.
      apply nth_snoc_cases in Hsi. apply nth_snoc_cases in Hsj.
      destruct Hoi as [[Li Hoi]|[-> Hoi]]; destruct Hsi as [[Li' Hsi]|[Ei' Hsi]]; try (exfalso; unfold cell in *; lia);
      destruct Hoj as [[Lj Hoj]|[-> Hoj]]; destruct Hsj as [[Lj' Hsj]|[Ej' Hsj]]; try (exfalso; unfold cell in *; lia).
      * exact (cp_pair _ _ _ C i j oi oj ri bi rj bj Hoi Hoj Hsi Hsj).
      * assert (Eoj : oj = ob) by congruence. assert (Erj : rj = r) by congruence. subst oj rj.
        exact (cp_pair _ _ _ C i k oi ob ri bi r b0 Hoi Eo Hsi Ek).
      * assert (Eoi : oi = ob) by congruence. assert (Eri : ri = r) by congruence. subst oi ri.
        exact (cp_pair _ _ _ C k j ob oj r b0 rj bj Eo Hoj Ek Hsj).
      * inversion Hoi; inversion Hoj; subst. inversion Hsi; inversion Hsj; subst. split; [reflexivity|congruence].
Qed.

(* ------------------------------------------------------------------ reads = shadow *)
Lemma coupled_reads s : forall objs sh i0, length objs = length sh ->
  (forall i, cell_ok s (nth i objs None) (nth i sh None)) ->
  live_reads (sm_mem s) objs i0 = sh_reads sh i0.
Proof.
  induction objs as [|x r IH]; intros [|c t] i0 Hl Hc; cbn [length] in Hl; try discriminate.
  - reflexivity.
  - pose proof (Hc O) as H0. cbn [nth] in H0. unfold cell_ok in H0.
    assert (Hr : live_reads (sm_mem s) r (S i0) = sh_reads t (S i0)).
    { apply IH; [lia|]. intros i. apply (Hc (S i)). }
    destruct x as [o|]; destruct c as [[r0 b0]|]; try contradiction; cbn [live_reads sh_reads].
    + destruct H0 as [_ H0]. rewrite H0, Hr. reflexivity.
    + assumption.
Qed.

(* ------------------------------------------------------------------ histories *)
Lemma run_coupled pg : pg_ok pg -> forall ops s objs sh sh', Coupled s objs sh -> sh_run sh ops = Some sh' ->
  exists s' objs', sexec pg s objs ops = OK (s', objs') /\ Coupled s' objs' sh'.
Proof.
  intros Hpg. induction ops as [|o r IH]; intros s objs sh sh' C H; cbn [sh_run] in H; cbn [sexec].
  - inversion H; subst. eauto.
  - destruct (sh_step sh o) as [sh1|] eqn:E1; [|discriminate].
    destruct (step_coupled pg s objs sh o sh1 Hpg C E1) as [s1 [objs1 [b [sz [Es [C1 _]]]]]].
    rewrite Es. eapply IH; eassumption.
Qed.

Lemma trace_coupled pg : pg_ok pg -> forall ops s objs sh sh', Coupled s objs sh -> sh_run sh ops = Some sh' ->
  map snd (srun pg s objs ops) = sh_trace sh ops /\
  length (srun pg s objs ops) = length ops /\
  Forall (fun ob => 0 <= snd (fst ob)) (srun pg s objs ops).
Proof.
  intros Hpg. induction ops as [|o r IH]; intros s objs sh sh' C H; cbn [sh_run] in H; cbn [srun sh_trace].
  - split; [reflexivity|]. split; [reflexivity|constructor].
  - destruct (sh_step sh o) as [sh1|] eqn:E1; [|discriminate].
    destruct (step_coupled pg s objs sh o sh1 Hpg C E1) as [s1 [objs1 [b [sz [Es [C1 Hsz]]]]]].
    rewrite Es. destruct (IH _ _ _ _ C1 H) as [A [B D]]. cbn [map snd length].
    split; [|split].
    + f_equal; [|assumption]. apply coupled_reads; [apply (cp_len _ _ _ C1)|apply (cp_cells _ _ _ C1)].
    + rewrite B. reflexivity.
    + constructor; [cbn [fst snd]; assumption|assumption].
Qed.

(* live objects of different roots lie in disjoint blocks *)
Lemma coupled_disjoint s objs sh i j oi oj : Coupled s objs sh ->
  nth i objs None = Some oi -> nth j objs None = Some oj ->
  obj_ok (sm_heap s) oi /\
  (sh_root sh i = sh_root sh j -> oi = oj) /\
  (sh_root sh i <> sh_root sh j -> disj (o_block oi) (o_block oj)).
Proof.
  intros C Hi Hj.
  destruct (obj_live_cell _ _ _ _ _ C Hi) as [ri [bi [Hsi [Hoki _]]]].
  destruct (obj_live_cell _ _ _ _ _ C Hj) as [rj [bj [Hsj [Hokj _]]]].
  destruct (cp_pair _ _ _ C i j oi oj ri bi rj bj Hi Hj Hsi Hsj) as [A B].
  unfold sh_root. rewrite Hsi, Hsj. split; [assumption|]. split.
  - intros E. inversion E. auto.
  - intros N. assert (Hne : o_block oi <> o_block oj) by (apply B; congruence).
    destruct (live_blocks (sm_heap s) (cp_inv _ _ _ C)) as [_ Hd].
    destruct Hoki as [Ii _]. destruct Hokj as [Ij _]. apply Hd; assumption.
Qed.

(* ---- the history theorem, on the final state ... *)
Theorem history_state pg hsize ops sh : pg_ok pg -> sh_run [] ops = Some sh ->
  exists s objs,
    sexec pg (mk_sm (heap_init hsize) mem0) [] ops = OK (s, objs) /\
    HeapInv (sm_heap s) /\
    live_reads (sm_mem s) objs O = sh_reads sh O /\
    forall i j oi oj, nth i objs None = Some oi -> nth j objs None = Some oj ->
      obj_ok (sm_heap s) oi /\
      (sh_root sh i = sh_root sh j -> oi = oj) /\
      (sh_root sh i <> sh_root sh j -> disj (o_block oi) (o_block oj)).
Proof.
  intros Hpg H.
  destruct (run_coupled pg Hpg ops _ _ _ _ (coupled_init hsize) H) as [s [objs [E C]]].
  exists s, objs. split; [assumption|]. split; [apply (cp_inv _ _ _ C)|]. split.
  - apply coupled_reads; [apply (cp_len _ _ _ C)|apply (cp_cells _ _ _ C)].
  - intros i j oi oj Hi Hj. eapply coupled_disjoint; eassumption.
Qed.

(* ---- ... and on what srun observes after every op *)
Theorem history_trace pg hsize ops sh : pg_ok pg -> sh_run [] ops = Some sh ->
  map snd (srun pg (mk_sm (heap_init hsize) mem0) [] ops) = sh_trace [] ops /\
  length (srun pg (mk_sm (heap_init hsize) mem0) [] ops) = length ops /\
  Forall (fun ob => 0 <= snd (fst ob)) (srun pg (mk_sm (heap_init hsize) mem0) [] ops).
Proof. intros Hpg H. eapply trace_coupled; [assumption|apply coupled_init|eassumption]. Qed.

(* ---- non-vacuity: create, dirty, drop, recycle, rebuild, store through the alias, drop the
   ORIGINAL while its alias lives (nothing is freed: the next object goes elsewhere), then the alias
   (now the block is freed and recycled) *)
Definition hist_witness : list sop :=
  [SNew 0 4 [7; 0; 0; 0]; SWrite 0 0 [255; 255; 255; 255]; SNew 2 2 [5; 6]; SDrop 0;
   SNew 0 2 []; SRebuild 2; SWrite 3 1 [9]; SDrop 2; SNew 1 3 []; SDrop 3; SNew 0 1 [1]].

Lemma hist_witness_valid :
  sh_run [] hist_witness
    = Some [None; Some (1%nat, [5; 6]); None; None; Some (4%nat, [0; 0; 0]); Some (5%nat, [1])] /\
  sh_trace [] hist_witness =
    [[(0%nat, [7; 0; 0; 0])]; [(0%nat, [255; 255; 255; 255])]; [(0%nat, [255; 255; 255; 255]); (1%nat, [5; 6])];
     [(1%nat, [5; 6])]; [(1%nat, [5; 6]); (2%nat, [0; 0])]; [(1%nat, [5; 6]); (2%nat, [0; 0]); (3%nat, [0; 0])];
     [(1%nat, [5; 6]); (2%nat, [0; 9]); (3%nat, [0; 9])]; [(1%nat, [5; 6]); (3%nat, [0; 9])];
     [(1%nat, [5; 6]); (3%nat, [0; 9]); (4%nat, [0; 0; 0])]; [(1%nat, [5; 6]); (4%nat, [0; 0; 0])];
     [(1%nat, [5; 6]); (4%nat, [0; 0; 0]); (5%nat, [1])]] /\
  (* object 2 is created in the recycled block of object 0 (which held ff ff ff ff); object 4, created while
     the alias 3 of the dropped object 2 lives, is NOT; object 5, created after the alias is gone, is *)
  map (fun ob => fst (fst ob)) (srun 64 (mk_sm (heap_init 64) mem0) [] hist_witness) =
    [(0, 0, 8); none_block; (0, 8, 16); none_block; (0, 0, 8); (0, 0, 8); none_block; none_block; (0, 16, 24);
     none_block; (0, 0, 8)].
Proof. vm_compute. repeat split; reflexivity. Qed.
