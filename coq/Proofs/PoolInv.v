(* Pool-level lifting: every event of Model/Pool.v preserves the per-job
   invariant of all jobs ([AllJ]) and is monotone on every job ([smono]). *)
From Coq Require Import ZArith List Bool Lia ZifyBool.
From BV Require Import Lib.Cases Model.LaxSem Model.Restart Model.Pool Proofs.PoolJobs.
Import ListNotations.
Open Scope Z_scope.

Definition jobs_mono (l l' : list job) : Prop :=
  forall n x, nth_error l n = Some x -> exists y, nth_error l' n = Some y /\ jmono x y.

Definition smono (s s' : pool) : Prop := jobs_mono (jobs s) (jobs s').

Definition AllJ (s : pool) : Prop :=
  forall n x, nth_error (jobs s) n = Some x -> JInv x /\ jid x = Z.of_nat n.

Lemma jobs_mono_refl l : jobs_mono l l.
Proof. intros n x H. exists x. split; [exact H|apply jmono_refl]. Qed.

Lemma jobs_mono_trans a b c : jobs_mono a b -> jobs_mono b c -> jobs_mono a c.
Proof.
  intros H1 H2 n x Hx. destruct (H1 n x Hx) as (y & Hy & Hxy).
  destruct (H2 n y Hy) as (z & Hz & Hyz). exists z. split; [exact Hz|].
  eapply jmono_trans; eauto.
Qed.

Lemma smono_refl s : smono s s.
Proof. apply jobs_mono_refl. Qed.
Lemma smono_trans a b c : smono a b -> smono b c -> smono a c.
Proof. apply jobs_mono_trans. Qed.

Lemma nth_upd_nth_same {A} (f : A -> A) : forall l n x,
    nth_error l n = Some x -> nth_error (upd_nth n f l) n = Some (f x).
Proof.
  induction l as [|a l IH]; intros [|n] x H; cbn in *; try discriminate.
  - inversion H; reflexivity.
  - apply IH; exact H.
Qed.

Lemma nth_upd_nth_other {A} (f : A -> A) : forall l n m,
    n <> m -> nth_error (upd_nth n f l) m = nth_error l m.
Proof.
  induction l as [|a l IH]; intros [|n] [|m] H; cbn; try reflexivity; try congruence.
  apply IH. congruence.
Qed.

Lemma length_upd_nth {A} (f : A -> A) : forall l n, length (upd_nth n f l) = length l.
Proof. induction l as [|a l IH]; intros [|n]; cbn; auto. Qed.

Lemma get_job_nth s j x : get_job s j = Some x -> 0 <= j /\ nth_error (jobs s) (Z.to_nat j) = Some x.
Proof.
  unfold get_job. destruct (j <? 0) eqn:E; [discriminate|]. intros H. split; [lia|exact H].
Qed.

Lemma cached_get s j x : cached s j = Some x -> get_job s j = Some x /\ incache x = true.
Proof.
  unfold cached. destruct (get_job s j) as [y|]; [|discriminate].
  destruct (incache y) eqn:E; [|discriminate]. intros H; inversion H; subst. auto.
Qed.

(* the workhorse: updating one job by a function that is monotone and
   invariant-preserving on that job *)
Lemma set_job_good s j f :
  AllJ s ->
  (forall x, get_job s j = Some x -> jmono x (f x) /\ JInv (f x)) ->
  AllJ (set_job s j f) /\ smono s (set_job s j f).
Proof.
  intros Ha Hf. unfold set_job, AllJ, smono, get_job in *. cbn [jobs].
  destruct (j <? 0) eqn:Ej; [split; [exact Ha|apply jobs_mono_refl]|].
  split.
  - intros n x Hn. destruct (Nat.eq_dec (Z.to_nat j) n) as [<-|Hne].
    + destruct (nth_error (jobs s) (Z.to_nat j)) as [x0|] eqn:E0.
      * rewrite (nth_upd_nth_same f _ _ _ E0) in Hn. inversion Hn; subst.
        destruct (Hf x0 eq_refl) as [Hm Hi]. split; [exact Hi|].
        rewrite (jm_id _ _ Hm). apply (Ha _ _ E0).
      * exfalso. apply nth_error_None in E0.
        assert (nth_error (upd_nth (Z.to_nat j) f (jobs s)) (Z.to_nat j) = None)
          by (apply nth_error_None; rewrite length_upd_nth; exact E0).
        congruence.
    + rewrite nth_upd_nth_other in Hn by exact Hne. apply Ha; exact Hn.
  - intros n x Hn. destruct (Nat.eq_dec (Z.to_nat j) n) as [<-|Hne].
    + exists (f x). split; [apply nth_upd_nth_same; exact Hn|]. apply (Hf x Hn).
    + exists x. split; [rewrite nth_upd_nth_other by exact Hne; exact Hn|apply jmono_refl].
Qed.

Lemma add_job_good s x :
  AllJ s -> JInv x -> jid x = Z.of_nat (length (jobs s)) ->
  AllJ (add_job s x) /\ smono s (add_job s x).
Proof.
  intros Ha Hi Hid. unfold AllJ, smono, add_job. cbn [jobs]. split.
  - intros n y Hn. destruct (Nat.lt_ge_cases n (length (jobs s))) as [Hlt|Hge].
    + rewrite nth_error_app1 in Hn by exact Hlt. apply Ha; exact Hn.
    + rewrite nth_error_app2 in Hn by exact Hge.
      destruct (n - length (jobs s))%nat as [|k] eqn:Ek; cbn in Hn.
      * inversion Hn; subst. split; [exact Hi|]. rewrite Hid. f_equal. lia.
      * destruct k; discriminate.
  - intros n y Hn. exists y. split; [|apply jmono_refl].
    rewrite nth_error_app1; [exact Hn|]. apply nth_error_Some. congruence.
Qed.

(* a state transformer that leaves the job list alone *)
Definition same_jobs (s s' : pool) : Prop := jobs s' = jobs s.

Lemma same_jobs_good s s' : same_jobs s s' -> AllJ s -> AllJ s' /\ smono s s'.
Proof.
  unfold same_jobs, AllJ, smono. intros H Ha. rewrite H. split; [exact Ha|apply jobs_mono_refl].
Qed.

(* [Good s s'] : s' is a legal successor of s *)
Definition Good (s s' : pool) : Prop := AllJ s -> AllJ s' /\ smono s s'.

Lemma Good_refl s : Good s s.
Proof. intros H; split; [exact H|apply smono_refl]. Qed.

Lemma Good_trans a b c : Good a b -> Good b c -> Good a c.
Proof.
  intros H1 H2 Ha. destruct (H1 Ha) as [Hb Hab]. destruct (H2 Hb) as [Hc Hbc].
  split; [exact Hc|eapply smono_trans; eauto].
Qed.

Lemma Good_same s s' : same_jobs s s' -> Good s s'.
Proof. intros H Ha. apply same_jobs_good; assumption. Qed.

Lemma Good_set_job s j f :
  (forall x, get_job s j = Some x -> JInv x -> jmono x (f x) /\ JInv (f x)) ->
  Good s (set_job s j f).
Proof.
  intros Hf Ha. apply set_job_good; [exact Ha|].
  intros x Hx. apply Hf; [exact Hx|].
  destruct (get_job_nth _ _ _ Hx) as [_ Hn]. apply (Ha _ _ Hn).
Qed.

(* trivial same_jobs facts *)
Lemma sj_with_sem s x : same_jobs s (with_sem s x). Proof. reflexivity. Qed.
Lemma sj_with_rst s x : same_jobs s (with_rst s x). Proof. reflexivity. Qed.
Lemma sj_with_wlist s x : same_jobs s (with_wlist s x). Proof. reflexivity. Qed.
Lemma sj_with_nprocs s x : same_jobs s (with_nprocs s x). Proof. reflexivity. Qed.
Lemma sj_with_now s x : same_jobs s (with_now s x). Proof. reflexivity. Qed.
Lemma sj_with_pstate s x : same_jobs s (with_pstate s x). Proof. reflexivity. Qed.
Lemma sj_with_dirty s x : same_jobs s (with_dirty s x). Proof. reflexivity. Qed.
Lemma sj_with_feeds s x : same_jobs s (with_feeds s x). Proof. reflexivity. Qed.
Lemma sj_with_sigs s x : same_jobs s (with_sigs s x). Proof. reflexivity. Qed.
Lemma sj_set_proc s p f : same_jobs s (set_proc s p f). Proof. reflexivity. Qed.
Lemma sj_start_worker s i : same_jobs s (start_worker s i). Proof. reflexivity. Qed.
Lemma sj_deliver s p sg l : same_jobs s (deliver s p sg l). Proof. reflexivity. Qed.
Lemma sj_trans a b c : same_jobs a b -> same_jobs b c -> same_jobs a c.
Proof. unfold same_jobs; congruence. Qed.
Lemma sj_refl a : same_jobs a a. Proof. reflexivity. Qed.

#[export] Hint Resolve sj_with_sem sj_with_rst sj_with_wlist sj_with_nprocs sj_with_now
  sj_with_pstate sj_with_dirty sj_with_feeds sj_with_sigs sj_set_proc sj_start_worker
  sj_deliver sj_refl Good_refl Good_same : pool.

(* ------------------------------------------------------------ the handlers *)
Lemma good_do_apply s so ha lo slot : Good s (fst (do_apply s so ha lo slot)).
Proof.
  unfold do_apply.
  destruct (negb (pstate s =? 0)); [apply Good_refl|].
  destruct ((match slot with Some b => b | None => putlocks s end) && (LaxSem.value (sem s) =? 0)); [apply Good_refl|]. cbn [fst].
  set (s1 := if match slot with Some b => b | None => putlocks s end
             then with_sem s (sstep' (sem s) Acquire) else s).
  assert (Hs1 : same_jobs s s1) by (unfold s1; destruct (match slot with Some b => b | None => putlocks s end); auto with pool).
  eapply Good_trans; [apply Good_same; exact Hs1|].
  intros Ha. apply add_job_good; [exact Ha| |cbn; reflexivity].
  constructor; cbn; intros; try discriminate; auto; lia.
Qed.

Lemma good_do_map s n cs : Good s (fst (do_map s n cs)).
Proof.
  unfold do_map. destruct (negb (pstate s =? 0)); [apply Good_refl|]. cbn [fst].
  eapply Good_trans; [|apply Good_same; auto with pool].
  intros Ha. apply add_job_good; [exact Ha| |cbn; reflexivity].
  apply (nonapply_inv_any (new_job s KMap)); cbn; [discriminate|lia].
Qed.

Lemma good_do_imap s k n : k <> KApply -> Good s (fst (do_imap s k n)).
Proof.
  intros Hk. unfold do_imap. destruct (negb (pstate s =? 0)); [apply Good_refl|]. cbn [fst].
  eapply Good_trans; [|apply Good_same; auto with pool].
  intros Ha. apply add_job_good; [exact Ha| |cbn; reflexivity].
  apply (nonapply_inv_any (new_job s k)); cbn; [exact Hk|lia].
Qed.

Lemma good_do_ack s j i p : Good s (fst (do_ack s j i p)).
Proof.
  unfold do_ack.
  eapply Good_trans; [apply Good_same; apply (sj_with_rst s (Restart.ack (rst s)))|].
  set (s0 := with_rst s (Restart.ack (rst s))).
  destruct (cached s0 j) as [x|] eqn:Hc; [|apply Good_refl].
  destruct (cached_get _ _ _ Hc) as [Hg _].
  destruct (kind x) eqn:Hk; cbn [fst].
  - apply Good_set_job. intros y Hy Hi. assert (y = x) by congruence. subst y.
    split; [apply apply_ack_mono|apply apply_ack_inv; auto].
  - destruct i as [i|]; cbn [fst]; [|apply Good_refl].
    apply Good_set_job. intros y Hy Hi. assert (y = x) by congruence. subst y.
    split; [apply map_ack_mono|apply map_ack_inv]; auto; congruence.
  - apply Good_set_job. intros y Hy Hi. assert (y = x) by congruence. subst y.
    split; [apply imap_ack_mono|apply imap_ack_inv]; auto; congruence.
  - apply Good_set_job. intros y Hy Hi. assert (y = x) by congruence. subst y.
    split; [apply imap_ack_mono|apply imap_ack_inv]; auto; congruence.
Qed.

Lemma sj_bump_counter s x : same_jobs s (bump_counter s x).
Proof.
  unfold bump_counter. destruct (worker_pids x) as [|p l]; [apply sj_refl|].
  destruct (in_pool s p); auto with pool.
Qed.

(* worker-made payloads carry no pool-made claim *)
Lemma job_set_worker_payload x i (ok : bool) tag :
  JInv x -> JInv (fst (job_set x i (if ok then PValue tag else PExc tag))).
Proof.
  intros Hi. apply job_set_inv; auto; intros; destruct ok; discriminate.
Qed.

Lemma good_do_ready s j i (ok : bool) tag :
  Good s (fst (do_ready s j i (if ok then PValue tag else PExc tag))).
Proof.
  unfold do_ready. destruct (cached s j) as [x|] eqn:Hc; [|apply Good_refl]. cbn [fst].
  set (s1 := bump_counter s x).
  set (s2 := if ready x then s1 else with_sem s1 (LaxSem.release (sem s1))).
  assert (H12 : same_jobs s s2).
  { unfold s2. destruct (ready x); [apply sj_bump_counter|].
    eapply sj_trans; [apply sj_bump_counter|apply sj_with_sem]. }
  eapply Good_trans; [apply Good_same; exact H12|].
  apply Good_set_job. intros y Hy Hi. split; [apply job_set_mono|apply job_set_worker_payload; exact Hi].
Qed.

(* folds whose every iteration is Good *)
Lemma fold_good {A} (f : pool * bool -> A -> pool * bool) :
  (forall acc a, Good (fst acc) (fst (f acc a))) ->
  forall l acc, Good (fst acc) (fst (fold_left f l acc)).
Proof.
  intros Hf. induction l as [|a l IH]; intros acc; cbn; [apply Good_refl|].
  eapply Good_trans; [apply Hf|apply IH].
Qed.

Lemma fold_good1 {A} (f : pool -> A -> pool) :
  (forall s a, Good s (f s a)) -> forall l s, Good s (fold_left f l s).
Proof.
  intros Hf. induction l as [|a l IH]; intros s; cbn; [apply Good_refl|].
  eapply Good_trans; [apply Hf|apply IH].
Qed.

Lemma nth_error_map_inv {A B} (f : A -> B) l n y :
  nth_error (map f l) n = Some y -> exists x, nth_error l n = Some x /\ y = f x.
Proof.
  rewrite nth_error_map. destruct (nth_error l n) as [x|]; cbn; intros H; [|discriminate].
  inversion H. eauto.
Qed.

Lemma good_map_jobs s f :
  (forall x, JInv x -> jmono x (f x) /\ JInv (f x)) -> Good s (map_jobs s f).
Proof.
  intros Hf Ha. unfold AllJ, smono, map_jobs in *. cbn [jobs]. split.
  - intros n y Hn. destruct (nth_error_map_inv _ _ _ _ Hn) as (x & Hx & ->).
    destruct (Ha _ _ Hx) as [Hi Hid]. destruct (Hf x Hi) as [Hm Hi'].
    split; [exact Hi'|]. rewrite (jm_id _ _ Hm). exact Hid.
  - intros n x Hx. exists (f x). split.
    + rewrite nth_error_map, Hx. reflexivity.
    + destruct (Ha _ _ Hx) as [Hi _]. apply (Hf x Hi).
Qed.

Lemma good_mark_all_lost s : Good s (mark_all_lost s).
Proof.
  unfold mark_all_lost. apply good_map_jobs. intros x Hi.
  destruct (lost_due s x); [|split; [apply jmono_refl|exact Hi]].
  split; [apply mark_lost_mono|apply mark_lost_inv; exact Hi].
Qed.

Lemma good_down_all s cl rem : Good s (down_all s cl rem).
Proof.
  unfold down_all. apply good_map_jobs. intros x Hi.
  destruct (incache x); [|split; [apply jmono_refl|exact Hi]].
  split; [apply on_job_down_mono|apply on_job_down_inv; exact Hi].
Qed.

Lemma good_join_exited s : Good s (fst (join_exited s)).
Proof.
  unfold join_exited. pose proof (good_mark_all_lost s) as H0.
  set (s1 := mark_all_lost s) in *.
  set (cl := filter (exited s1) (rev (wlist s1))).
  set (rem := filter (fun p => negb (exited s1 p)) (wlist s1)).
  assert (H1 : Good s (with_wlist s1 rem))
    by (eapply Good_trans; [exact H0|apply Good_same; apply sj_with_wlist]).
  destruct cl as [|c0 cl0] eqn:Ecl; cbn [fst]; [exact H1|].
  eapply Good_trans; [exact H1|apply good_down_all].
Qed.

Lemma sj_repopulate : forall fuel i codes s, same_jobs s (fst (repopulate fuel i codes s)).
Proof.
  induction fuel as [|f IH]; intros i codes s; cbn [repopulate]; [apply sj_refl|].
  destruct (negb (pstate s =? 0)); [apply sj_refl|].
  set (ns := match codes with
             | [] => false
             | _ :: _ => match nth_error codes i with Some c => negb (clean_code c) | None => true end
             end).
  destruct (if ns then Restart.step (rst s) (now s) else (rst s, false)) as [r raised].
  destruct raised; [apply sj_with_rst|].
  destruct (avail_index (with_rst s r)) as [ix|]; [|apply sj_with_rst].
  eapply sj_trans; [|apply IH]. eapply sj_trans; [apply (sj_with_rst s r)|apply sj_start_worker].
Qed.

Lemma good_do_tick s : Good s (fst (do_tick s)).
Proof.
  unfold do_tick. pose proof (good_join_exited s) as H0.
  destruct (join_exited s) as [s1 codes]. cbn [fst] in H0.
  pose proof (sj_repopulate (Z.to_nat (nprocs s1 - Z.of_nat (length (wlist s1)))) 0 codes s1) as H1.
  destruct (repopulate (Z.to_nat (nprocs s1 - Z.of_nat (length (wlist s1)))) 0 codes s1) as [s2 r].
  cbn [fst] in H1.
  eapply Good_trans; [exact H0|].
  destruct r; cbn [fst]; apply Good_same; exact H1.
Qed.

Lemma sj_do_close s : same_jobs s (do_close s).
Proof. unfold do_close. destruct (pstate s =? 0); reflexivity. Qed.

Lemma good_do_tick_close s k : Good s (fst (do_tick_close s k)).
Proof.
  unfold do_tick_close. pose proof (good_join_exited s) as H0. pose proof (good_do_tick s) as Ht.
  destruct (join_exited s) as [s1 codes]. cbn [fst] in H0.
  destruct (Z.to_nat (nprocs s1 - Z.of_nat (length (wlist s1))) <=? k)%nat; [exact Ht|].
  pose proof (sj_repopulate (S k) 0 codes s1) as H1.
  destruct (repopulate (S k) 0 codes s1) as [s2 r]. cbn [fst] in H1.
  eapply Good_trans; [exact H0|].
  destruct r; cbn [fst]; apply Good_same; try exact H1.
  eapply sj_trans; [exact H1|]. eapply sj_trans; [apply sj_do_close|]. reflexivity.
Qed.

Lemma good_do_join_shutdown s : Good s (fst (do_join_shutdown s)).
Proof.
  unfold do_join_shutdown. destruct (wlist s); cbn [fst]; [apply good_mark_all_lost|apply good_join_exited].
Qed.

Lemma get_job_same s s' j : same_jobs s s' -> get_job s' j = get_job s j.
Proof. unfold same_jobs, get_job. intros H. rewrite H. reflexivity. Qed.

Lemma good_on_hard s j x l :
  get_job s j = Some x -> kind x = KApply -> Good s (on_hard s j x l).
Proof.
  intros Hg Hk. unfold on_hard. destruct (ready x); [apply Good_refl|].
  set (s1 := set_job s j (fun x0 => j_add_tmo (apply_set x0 (PTimeLimit (hard x0))) (false, hard x0))).
  assert (H1 : Good s s1).
  { apply Good_set_job. intros y Hy Hi. assert (y = x) by congruence. subst y. split.
    - eapply jmono_trans; [apply apply_set_mono|apply j_add_tmo_mono].
    - apply j_add_tmo_inv. apply apply_set_inv; auto.
      + intros; discriminate.
      + intros l0 H. inversion H. reflexivity. }
  eapply Good_trans; [exact H1|]. apply Good_same.
  destruct (owner x) as [p|]; [|apply sj_refl].
  destruct (in_pool s1 p); [|apply sj_refl].
  destruct (negb (exit_of (deliver s1 p SIGTERM l) p =? 0) && exited (deliver s1 p SIGTERM l) p).
  - apply sj_deliver.
  - eapply sj_trans; apply sj_deliver.
Qed.

Lemma good_on_soft s j x l : Good s (on_soft s j x l).
Proof.
  unfold on_soft. destruct (ready x); [apply Good_refl|].
  destruct (owner x) as [p|]; [|apply Good_refl].
  destruct (in_pool s p); [|apply Good_refl].
  eapply Good_trans; [|apply Good_same; apply sj_deliver].
  apply Good_set_job. intros y _ Hi. split; [apply j_add_tmo_mono|apply j_add_tmo_inv; exact Hi].
Qed.

Lemma good_scan_job l s j : Good s (scan_job l s j).
Proof.
  unfold scan_job. destruct (get_job s j) as [x|] eqn:Hg; [|apply Good_refl].
  destruct (kind x) eqn:Hk; try apply Good_refl.
  destruct (time_accepted x) as [t|]; [|apply Good_refl].
  destruct (timed_out s (Some t) (eff_hard s x)).
  - apply good_on_hard; [exact Hg|exact Hk].
  - destruct (negb (memZ j (dirty s)) && timed_out s (Some t) (eff_soft s x)); [|apply Good_refl].
    eapply Good_trans; [apply good_on_soft|apply Good_same; apply sj_with_dirty].
Qed.

(* Good with the invariant threaded through a fold *)
Lemma fold_good_inv {A} (f : pool -> A -> pool) :
  (forall s a, AllJ s -> Good s (f s a)) ->
  forall l s, Good s (fold_left f l s).
Proof.
  intros Hf. induction l as [|a l IH]; intros s; cbn; [apply Good_refl|].
  intros Ha. destruct (Hf s a Ha Ha) as [Ha1 Hm1]. destruct (IH (f s a) Ha1) as [Ha2 Hm2].
  split; [exact Ha2|eapply smono_trans; eauto].
Qed.

Lemma good_do_scan s l : Good s (fst (do_scan s l)).
Proof.
  unfold do_scan. destruct (negb (scanner s)); [apply Good_refl|]. cbn [fst].
  eapply Good_trans; [apply Good_same; apply sj_with_dirty|].
  apply fold_good1. intros s0 j. apply good_scan_job.
Qed.

Lemma good_feed_tasks : forall fuel i j k fa io s,
    Good s (fst (fst (feed_tasks fuel i j k fa io s))).
Proof.
  induction fuel as [|f IH]; intros i j k fa io s; cbn [feed_tasks]; [apply Good_refl|].
  destruct (okey_eqb (Some k) fa); [|apply IH].
  destruct io; [apply Good_refl|].
  eapply Good_trans; [|apply IH].
  destruct (cached s j) as [x|]; [|apply Good_refl].
  assert (Hone : forall s0, Good s0 (set_job s0 j (fun x0 => fst (job_set x0 (Some i) PPutFailed)))).
  { intros s0. apply Good_set_job. intros y _ Hi. split; [apply job_set_mono|].
    apply job_set_inv; auto; intros; discriminate. }
  destruct (kind x); try apply Hone.
  eapply Good_trans; [|apply Good_set_job; intros y _ Hi; split; [apply j_uncache_mono|apply j_uncache_inv; exact Hi]].
  eapply Good_trans; [|apply Hone].
  destruct (ready x); [apply Good_refl|apply Good_same; apply sj_with_sem].
Qed.

Lemma good_do_feeds : forall fs k fa io s, Good s (fst (fst (do_feeds fs k fa io s))).
Proof.
  induction fs as [|[[j n] sl] r IH]; intros k fa io s; cbn [do_feeds]; [apply Good_refl|].
  pose proof (good_feed_tasks (Z.to_nat n) 0 j k fa io s) as H0.
  destruct (feed_tasks (Z.to_nat n) 0 j k fa io s) as [[s1 k1] stopped]. cbn [fst] in H0.
  destruct stopped; [exact H0|].
  assert (H1 : Good s1 (fst (if sl then
                               match get_job s1 j with
                               | Some x => (set_job s1 j (fun x0 => fst (set_length x0 n)), snd (set_length x n))
                               | None => (s1, false)
                               end else (s1, false)))).
  { destruct sl; [|apply Good_refl]. destruct (get_job s1 j) as [x|] eqn:Hg; [|apply Good_refl].
    cbn [fst]. apply Good_set_job. intros y Hy Hi.
    split; [apply set_length_mono|apply set_length_inv; exact Hi]. }
  destruct (if sl then
              match get_job s1 j with
              | Some x => (set_job s1 j (fun x0 => fst (set_length x0 n)), snd (set_length x n))
              | None => (s1, false)
              end else (s1, false)) as [s2 e]. cbn [fst] in H1.
  destruct e; cbn [fst]; [eapply Good_trans; eauto|].
  eapply Good_trans; [exact H0|]. eapply Good_trans; [exact H1|]. apply IH.
Qed.

Lemma good_do_feed s fa io : Good s (fst (do_feed s fa io)).
Proof.
  unfold do_feed. pose proof (good_do_feeds (feeds s) 0 fa io s) as H.
  destruct (do_feeds (feeds s) 0 fa io s) as [[s1 rest] r]. cbn [fst] in *.
  eapply Good_trans; [exact H|apply Good_same; apply sj_with_feeds].
Qed.

Lemma sj_shrink_loop : forall ws i n s, same_jobs s (fst (shrink_loop ws i n s)).
Proof.
  induction ws as [|p r IH]; intros i n s; cbn [shrink_loop fst]; [apply sj_refl|].
  match goal with |- same_jobs s (fst (if ?c then (?s', _) else _)) =>
    assert (Hs : same_jobs s s') by
      (eapply sj_trans; [|apply sj_deliver]; eapply sj_trans; [|apply sj_set_proc];
       eapply sj_trans; [apply sj_with_nprocs|apply sj_with_sem]);
    destruct c; cbn [fst]; [exact Hs|eapply sj_trans; [exact Hs|apply IH]]
  end.
Qed.

Lemma good_do_next s j : Good s (fst (do_next s j)).
Proof.
  unfold do_next. destruct (get_job s j) as [x|] eqn:Hg; [|apply Good_refl].
  destruct (is_imap x) eqn:Hk; cbn [negb]; [|apply Good_refl].
  apply is_imap_not_apply in Hk.
  destruct (items x) as [|p r] eqn:Hit; cbn [fst].
  - destruct (okey_eqb (Some (index x)) (ilength x)); cbn [fst]; [|apply Good_refl].
    apply Good_set_job. intros y Hy Hi. assert (y = x) by congruence. subst y.
    split; [apply mk_imap_mono|apply mk_imap_inv]; auto.
  - apply Good_set_job. intros y Hy Hi. assert (y = x) by congruence. subst y.
    split; [apply mk_imap_mono|apply mk_imap_inv]; auto.
Qed.

(* ------------------------------------------------------------ every event *)
Theorem good_step s e : Good s (fst (step s e)).
Proof.
  unfold step.
  eapply Good_trans; [apply Good_same; apply (sj_with_sigs s [])|].
  set (s0 := with_sigs s []).
  destruct e.
  - apply good_do_apply.
  - apply good_do_map.
  - apply good_do_imap; discriminate.
  - apply good_do_imap; discriminate.
  - apply good_do_feed.
  - apply good_do_ack.
  - apply good_do_ready.
  - cbn [fst]. auto with pool.
  - apply Good_refl.
  - cbn [fst]. auto with pool.
  - apply Good_refl.
  - cbn [fst]. auto with pool.
  - apply good_do_tick.
  - apply good_do_scan.
  - destruct (negb (scanner s0)); cbn [fst]; [apply Good_refl|].
    apply Good_same. reflexivity.
  - destruct (scan_todo s0) as [|j r]; cbn [fst]; [apply Good_refl|].
    apply (Good_trans s0 (scan_job lingers s0 j)); [apply good_scan_job|apply Good_same; reflexivity].
  - cbn [fst]. apply Good_same. reflexivity.
  - cbn [fst]. auto with pool.
  - cbn [fst]. apply Good_set_job. intros y _ Hi. split; [apply j_uncache_mono|apply j_uncache_inv; exact Hi].
  - unfold do_terminate_job. destruct (in_pool s0 p); cbn [fst]; [|apply Good_refl].
    apply Good_same. eapply sj_trans; [apply sj_deliver|apply sj_set_proc].
  - cbn [fst]. apply Good_same. eapply sj_trans; [apply sj_with_nprocs|apply sj_with_sem].
  - unfold do_shrink. destruct (inactive s0) as [|w ws] eqn:Ei; [apply Good_refl|].
    destruct (LaxSem.value (sem s0) <? Z.min (Z.max n 1) (Z.of_nat (length (w :: ws))));
      [apply Good_refl|]. apply Good_same. apply sj_shrink_loop.
  - cbn [fst]. apply Good_same. apply sj_do_close.
  - apply good_do_next.
  - apply good_do_tick_close.
  - apply good_do_join_shutdown.
  - unfold do_apply_q. pose proof (good_do_apply s0 soft hard lost slot) as H.
    destruct (do_apply s0 soft hard lost slot) as [s1 r]. cbn [fst] in H.
    destruct r; cbn [fst]; exact H.
  - unfold do_apply_unsendable. destruct (negb (pstate s0 =? 0)); [apply Good_refl|].
    destruct (_ && _); apply Good_refl.
Qed.

Lemma AllJ_init c : AllJ (init c).
Proof.
  unfold init.
  assert (H : forall n i s, jobs s = [] -> jobs (start_n n i s) = []).
  { induction n as [|n IH]; intros i s Hs; cbn; [exact Hs|]. apply IH. exact Hs. }
  intros n x Hn. rewrite H in Hn by reflexivity. destruct n; discriminate.
Qed.

Definition run_from (s : pool) (tr : list event) : pool := fold_left (fun s e => fst (step s e)) tr s.

Lemma good_run : forall tr s, AllJ s -> AllJ (run_from s tr) /\ smono s (run_from s tr).
Proof.
  unfold run_from. induction tr as [|e tr IH]; intros s Ha; cbn; [split; [exact Ha|apply smono_refl]|].
  destruct (good_step s e Ha) as [Ha1 Hm1]. destruct (IH _ Ha1) as [Ha2 Hm2].
  split; [exact Ha2|eapply smono_trans; eauto].
Qed.

(* the invariant holds in every reachable state, and every job only ever moves forward *)
Theorem reachable_good c : forall tr,
    AllJ (run c tr) /\ forall tr', smono (run c tr) (run c (tr ++ tr')).
Proof.
  assert (Hrun : forall tr s, AllJ s ->
            AllJ (fold_left (fun s e => fst (step s e)) tr s)
            /\ smono s (fold_left (fun s e => fst (step s e)) tr s)).
  { induction tr as [|e tr IH]; intros s Ha; cbn; [split; [exact Ha|apply smono_refl]|].
    destruct (good_step s e Ha) as [Ha1 Hm1]. destruct (IH _ Ha1) as [Ha2 Hm2].
    split; [exact Ha2|eapply smono_trans; eauto]. }
  intros tr. unfold run. split.
  - apply Hrun. apply AllJ_init.
  - intros tr'. rewrite fold_left_app. apply Hrun. apply Hrun. apply AllJ_init.
Qed.
