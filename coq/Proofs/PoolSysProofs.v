(* Proofs about the closed crash-free composition Model/PoolSys.v:
   every schedule is finite (a measure decreases with every step), the system is never
   stuck before the end, and at the end every job is resolved exactly once with its own
   result and every slot is back.  The parent component of every reachable system state is a
   [Pool.run], so every theorem of the open model applies to it. *)
From Coq Require Import ZArith List Bool Lia ZifyBool.
From BV Require Import Lib.Cases Model.LaxSem Model.Restart Model.Pool Model.PoolSys
     Proofs.PoolJobs Proofs.PoolInv.
Import ListNotations.
Open Scope Z_scope.

(* ------------------------------------------------------------------ counting *)
Definition cnt (j : Z) (l : list Z) : nat := count_occ Z.eq_dec l j.
Definition one (b : bool) : nat := if b then 1%nat else 0%nat.

Lemma cnt_app j a b : cnt j (a ++ b) = (cnt j a + cnt j b)%nat.
Proof. apply count_occ_app. Qed.
Lemma cnt_cons j x l : cnt j (x :: l) = (one (Z.eqb x j) + cnt j l)%nat.
Proof. unfold cnt; cbn. destruct (Z.eq_dec x j), (Z.eqb_spec x j); cbn; congruence. Qed.
Lemma cnt_nil j : cnt j [] = 0%nat. Proof. reflexivity. Qed.
Lemma cnt_one j x : cnt j [x] = one (x =? j).
Proof. rewrite cnt_cons, cnt_nil. lia. Qed.

Definition ocnt (j : Z) (o : option Z) : nat := match o with Some k => one (k =? j) | None => 0%nat end.
Definition olen (o : option Z) : nat := match o with Some _ => 1%nat | None => 0%nat end.

Lemma cnt_somes_upd j o' : forall l i o, nth_error l i = Some o ->
    (cnt j (somes (upd_nth i (fun _ => o') l)) + ocnt j o = cnt j (somes l) + ocnt j o')%nat.
Proof.
  induction l as [|a l IH]; intros [|i] o H; cbn in H; try discriminate.
  - inversion H; subst. cbn [upd_nth].
    destruct o as [k|], o' as [k'|]; cbn [somes ocnt]; rewrite ?cnt_cons; lia.
  - cbn [upd_nth]. specialize (IH i o H).
    destruct a as [k|]; cbn [somes]; rewrite ?cnt_cons; lia.
Qed.

Lemma len_somes_upd o' : forall l i o, nth_error l i = Some o ->
    (length (somes (upd_nth i (fun _ => o') l)) + olen o = length (somes l) + olen o')%nat.
Proof.
  induction l as [|a l IH]; intros [|i] o H; cbn in H; try discriminate.
  - inversion H; subst. cbn [upd_nth]. destruct o, o'; cbn; lia.
  - cbn [upd_nth]. specialize (IH i o H). destruct a; cbn [somes length]; lia.
Qed.

Lemma readys_ack j p r : readys (MAck j p :: r) = readys r. Proof. reflexivity. Qed.
Lemma readys_ready j p ok t r : readys (MReady j p ok t :: r) = j :: readys r. Proof. reflexivity. Qed.
Lemma readys_app q m : readys (q ++ [m]) = readys q ++ readys [m].
Proof. unfold readys. apply flat_map_app. Qed.

(* ------------------------------------------------------------------ job table access *)
Definition gj (l : list job) (j : Z) : option job := if j <? 0 then None else nth_error l (Z.to_nat j).
Lemma get_job_gj s j : get_job s j = gj (jobs s) j. Proof. reflexivity. Qed.

Lemma gj_app_new l x j :
  gj (l ++ [x]) j = if j =? Z.of_nat (length l) then Some x else gj l j.
Proof.
  unfold gj. destruct (j <? 0) eqn:E.
  - destruct (j =? Z.of_nat (length l)) eqn:E2; [lia|reflexivity].
  - destruct (j =? Z.of_nat (length l)) eqn:E2.
    + rewrite nth_error_app2 by lia. replace (Z.to_nat j - length l)%nat with 0%nat by lia. reflexivity.
    + destruct (Z_lt_le_dec j (Z.of_nat (length l))).
      * rewrite nth_error_app1 by lia. reflexivity.
      * assert (H1 : nth_error (l ++ [x]) (Z.to_nat j) = None)
          by (apply nth_error_None; rewrite app_length; cbn; lia).
        assert (H2 : nth_error l (Z.to_nat j) = None) by (apply nth_error_None; lia).
        congruence.
Qed.

Lemma gj_fresh l : gj l (Z.of_nat (length l)) = None.
Proof. unfold gj. destruct (_ <? 0) eqn:E; [reflexivity|]. apply nth_error_None. lia. Qed.

Lemma get_set_same s j f x : get_job s j = Some x -> get_job (set_job s j f) j = Some (f x).
Proof.
  unfold get_job, set_job; cbn. destruct (j <? 0) eqn:E; [discriminate|].
  apply nth_upd_nth_same.
Qed.

Lemma get_set_other s j f j' : j <> j' -> get_job (set_job s j f) j' = get_job s j'.
Proof.
  intros H. unfold get_job, set_job; cbn.
  destruct (j' <? 0) eqn:E'; [reflexivity|]. destruct (j <? 0) eqn:E; [reflexivity|].
  apply nth_upd_nth_other. lia.
Qed.

Lemma len_set_job s j f : length (jobs (set_job s j f)) = length (jobs s).
Proof. unfold set_job; cbn. destruct (j <? 0); [reflexivity|apply length_upd_nth]. Qed.

Definition unres (s : pool) (j : Z) : bool :=
  match get_job s j with Some x => negb (ready x) | None => false end.

(* what is known about every job of the closed system *)
Definition JF (bad : list Z) (j : Z) (x : job) : Prop :=
  jid x = j /\ kind x = KApply
  /\ (ready x = false -> incache x = true /\ value x = None /\ cb_succ x = 0 /\ cb_err x = 0)
  /\ (ready x = true -> value x = Some (outcome_of bad j)
                        /\ cb_succ x = (if task_ok bad j then 1 else 0)
                        /\ cb_err x = (if task_ok bad j then 0 else 1)).

(* ------------------------------------------------------------------ the three parent events *)
Record same_env (s s' : pool) : Prop := {
  se_pstate : pstate s' = pstate s;
  se_putlocks : putlocks s' = putlocks s;
  se_wlist : wlist s' = wlist s;
  se_nprocs : nprocs s' = nprocs s
}.

Lemma apply_spec bad s s' :
  0 <= LaxSem.value (sem s) ->
  step s (EApply None None None None) = (s', RNone) ->
  same_env s s' /\ pstate s = 0
  /\ (exists x, jobs s' = jobs s ++ [x] /\ JF bad (Z.of_nat (length (jobs s))) x /\ ready x = false)
  /\ (putlocks s = true -> 0 < LaxSem.value (sem s)
                           /\ sem s' = mk_sem (LaxSem.value (sem s) - 1) (LaxSem.bound (sem s)) (LaxSem.pending (sem s)))
  /\ (putlocks s = false -> sem s' = sem s).
Proof.
  intros Hnn. unfold step, do_apply. cbn [putlocks with_sigs sem pstate].
  destruct (pstate s =? 0) eqn:Es; cbn [negb]; [|discriminate].
  destruct (putlocks s) eqn:Ep; cbn [andb].
  - destruct (LaxSem.value (sem s) =? 0) eqn:Ev; [discriminate|].
    intros H; inversion H; subst; clear H.
    split; [constructor; reflexivity|]. split; [lia|]. split.
    + eexists. split; [reflexivity|]. cbn. unfold JF, tag_of; cbn. repeat split; try reflexivity; intros; discriminate.
    + split; [|discriminate]. intros _.
      unfold sstep', LaxSem.sstep. cbn.
      destruct (0 <? LaxSem.value (sem s)) eqn:Eg; [|lia].
      split; [lia|reflexivity].
  - intros H; inversion H; subst; clear H.
    split; [constructor; reflexivity|]. split; [lia|]. split.
    + eexists. split; [reflexivity|]. unfold JF, tag_of; cbn. repeat split; try reflexivity; intros; discriminate.
    + split; [discriminate|reflexivity].
Qed.

Definition AllJF (bad : list Z) (s : pool) : Prop := forall k x, get_job s k = Some x -> JF bad k x.

Lemma ack_spec bad s j p :
  AllJF bad s ->
  let s' := fst (step s (EAck j None p)) in
  same_env s s' /\ sem s' = sem s /\ length (jobs s') = length (jobs s)
  /\ (forall k, unres s' k = unres s k) /\ AllJF bad s'.
Proof.
  intros HJ. unfold step, do_ack.
  change (cached (with_rst (with_sigs s []) (Restart.ack (rst (with_sigs s [])))) j) with (cached s j).
  destruct (cached s j) as [x|] eqn:Ec.
  - destruct (cached_get _ _ _ Ec) as [Hg Hi]. destruct (HJ j x Hg) as (Hid & Hk & Hnr & Hr).
    rewrite Hk. cbn [fst].
    set (s1 := with_rst (with_sigs s []) (Restart.ack (rst (with_sigs s [])))).
    assert (Hg1 : get_job s1 j = Some x) by exact Hg.
    split; [constructor; reflexivity|]. split; [reflexivity|]. split; [rewrite len_set_job; reflexivity|].
    split.
    + intros k. unfold unres. destruct (Z.eq_dec j k) as [->|Hne].
      * rewrite (get_set_same s1 k _ x Hg1). change (get_job s k) with (get_job s1 k). rewrite Hg1. reflexivity.
      * rewrite get_set_other by exact Hne. reflexivity.
    + intros k y. destruct (Z.eq_dec j k) as [->|Hne].
      * rewrite (get_set_same s1 k _ x Hg1). intros H; inversion H; subst y; clear H.
        unfold JF, apply_ack; cbn. split; [exact Hid|]. split; [exact Hk|]. split.
        -- intros Hr0. rewrite Hr0. destruct (Hnr Hr0) as (A & B & C & D). auto.
        -- intros Hr1. exact (Hr Hr1).
      * rewrite get_set_other by exact Hne. apply HJ.
  - cbn [fst]. split; [constructor; reflexivity|]. split; [reflexivity|]. split; [reflexivity|].
    split; [reflexivity|exact HJ].
Qed.

Lemma sem_bump_counter s x : sem (bump_counter s x) = sem s.
Proof. unfold bump_counter. destruct (worker_pids x); [reflexivity|]. destruct (in_pool s z); reflexivity. Qed.

Lemma env_bump_counter s x : same_env s (bump_counter s x).
Proof. unfold bump_counter. destruct (worker_pids x); [constructor; reflexivity|]. destruct (in_pool s z); constructor; reflexivity. Qed.

Lemma jobs_bump_counter s x : jobs (bump_counter s x) = jobs s.
Proof. unfold bump_counter. destruct (worker_pids x); [reflexivity|]. destruct (in_pool s z); reflexivity. Qed.

Lemma ready_spec bad s j ok t :
  AllJF bad s -> unres s j = true -> t = tag_of j -> ok = task_ok bad j ->
  let s' := fst (step s (EReady j None ok t)) in
  same_env s s' /\ sem s' = LaxSem.release (sem s) /\ length (jobs s') = length (jobs s)
  /\ unres s' j = false /\ (forall k, k <> j -> unres s' k = unres s k) /\ AllJF bad s'.
Proof.
  intros HJ Hu Ht Hok. unfold unres in Hu. destruct (get_job s j) as [x|] eqn:Hg; [|discriminate].
  destruct (HJ j x Hg) as (Hid & Hk & Hnr & Hr).
  assert (Hr0 : ready x = false) by (destruct (ready x); [discriminate|reflexivity]).
  destruct (Hnr Hr0) as (Hin & Hv & Hcs & Hce).
  unfold step, do_ready.
  assert (Hc : cached (with_sigs s []) j = Some x).
  { unfold cached. change (get_job (with_sigs s []) j) with (get_job s j). rewrite Hg, Hin. reflexivity. }
  rewrite Hc, Hr0. cbn [fst].
  set (s1 := with_sem (bump_counter (with_sigs s []) x) (LaxSem.release (sem (bump_counter (with_sigs s []) x)))).
  assert (Hjobs : jobs s1 = jobs s) by (unfold s1; cbn; rewrite jobs_bump_counter; reflexivity).
  assert (Hg1 : get_job s1 j = Some x) by (rewrite get_job_gj, Hjobs, <- get_job_gj; exact Hg).
  assert (Hgk : forall k, get_job s1 k = get_job s k) by (intros k; rewrite !get_job_gj, Hjobs; reflexivity).
  split.
  { destruct (env_bump_counter (with_sigs s []) x) as [A B C D]. constructor; cbn; assumption. }
  split; [unfold s1; cbn; rewrite sem_bump_counter; reflexivity|].
  split; [rewrite len_set_job, Hjobs; reflexivity|].
  set (pl := if ok then PValue t else PExc t).
  assert (Hnew : get_job (set_job s1 j (fun x0 => fst (job_set x0 None pl))) j
                 = Some (apply_set x pl)).
  { rewrite (get_set_same s1 j _ x Hg1). unfold job_set. rewrite Hk. reflexivity. }
  split; [unfold unres; rewrite Hnew; unfold apply_set; rewrite Hr0; reflexivity|].
  split.
  - intros k Hne. unfold unres. rewrite get_set_other by congruence. rewrite Hgk. reflexivity.
  - intros k y. destruct (Z.eq_dec j k) as [<-|Hne].
    + rewrite Hnew. intros H; inversion H; subst y; clear H.
      unfold JF, apply_set. rewrite Hr0. cbn. split; [exact Hid|]. split; [exact Hk|].
      split; [intros; discriminate|]. intros _. subst t ok. unfold pl, outcome_of.
      rewrite Hcs, Hce. destruct (task_ok bad j); cbn; repeat split; lia.
    + rewrite get_set_other by exact Hne. rewrite Hgk. apply HJ.
Qed.

Lemma apply_refused_spec s s' :
  step s (EApply None None None None) = (s', RRefused) ->
  same_env s s' /\ jobs s' = jobs s /\ sem s' = sem s /\ pstate s <> 0.
Proof.
  unfold step, do_apply. cbn [putlocks with_sigs sem pstate].
  destruct (pstate s =? 0) eqn:Es; cbn [negb].
  - destruct (putlocks s && (LaxSem.value (sem s) =? 0)); discriminate.
  - intros H; inversion H; subst; clear H.
    split; [constructor; reflexivity|]. split; [reflexivity|]. split; [reflexivity|lia].
Qed.

Lemma pstate_apply s : pstate (fst (step s (EApply None None None None))) = pstate s.
Proof.
  unfold step, do_apply. cbn [putlocks with_sigs sem pstate].
  destruct (negb (pstate s =? 0)); [reflexivity|].
  destruct (putlocks s && (LaxSem.value (sem s) =? 0)); [reflexivity|]. destruct (putlocks s); reflexivity.
Qed.

Lemma pstate_set_job s j f : pstate (set_job s j f) = pstate s.
Proof. reflexivity. Qed.

Lemma pstate_ack s j i p : pstate (fst (step s (EAck j i p))) = pstate s.
Proof.
  unfold step, do_ack.
  destruct (cached _ j) as [x|]; [|reflexivity].
  destruct (kind x); [reflexivity| |reflexivity|reflexivity]. destruct i; reflexivity.
Qed.

Lemma pstate_ready s j i ok t : pstate (fst (step s (EReady j i ok t))) = pstate s.
Proof.
  unfold step, do_ready. destruct (cached _ j) as [x|]; [|reflexivity]. cbn [fst].
  rewrite pstate_set_job. destruct (ready x).
  - destruct (env_bump_counter (with_sigs s []) x) as [A _ _ _]. exact A.
  - cbn. destruct (env_bump_counter (with_sigs s []) x) as [A _ _ _]. exact A.
Qed.

Lemma close_spec s :
  pstate s = 0 ->
  let s' := fst (step s EClose) in
  pstate s' = 1 /\ jobs s' = jobs s /\ putlocks s' = putlocks s /\ wlist s' = wlist s
  /\ sem s' = LaxSem.clear (sem s).
Proof.
  intros H. unfold step, do_close. cbn [with_sigs pstate]. rewrite H. cbn. auto.
Qed.

(* ------------------------------------------------------------------ the system invariant *)
Local Opaque step.
Record YInv (n : nat) (y : sys) : Prop := {
  i_tok : forall j, cnt j (tokens y) = one (unres (par y) j);
  i_job : AllJF (bad y) (par y);
  i_msg : forall j p ok t, In (MReady j p ok t) (outq y) -> t = tag_of j /\ ok = task_ok (bad y) j;
  i_st : pstate (par y) = 0 \/ pstate (par y) = 1;
  i_nn : 0 <= LaxSem.value (sem (par y));
  i_sem : putlocks (par y) = true -> pstate (par y) = 0 ->
          LaxSem.value (sem (par y)) + Z.of_nat (length (tokens y)) = LaxSem.bound (sem (par y));
  i_cnt : (length (jobs (par y)) + todo y <= n)%nat
          /\ (pstate (par y) = 0 -> (length (jobs (par y)) + todo y = n)%nat);
  i_wk : wk y <> [];
  i_bound : 1 <= LaxSem.bound (sem (par y));
  i_closed : pstate (par y) = 1 -> 1 <= LaxSem.value (sem (par y))   (* close() frees every slot *)
}.

Lemma cnt_tokens j y :
  cnt j (tokens y) = (cnt j (taskq y) + cnt j (inq y) + cnt j (somes (wk y)) + cnt j (readys (outq y)))%nat.
Proof. unfold tokens. rewrite !cnt_app. lia. Qed.

Lemma len_tokens y :
  length (tokens y) = (length (taskq y) + length (inq y) + length (somes (wk y)) + length (readys (outq y)))%nat.
Proof. unfold tokens. rewrite !app_length. lia. Qed.

Lemma upd_nth_nonempty {A} (f : A -> A) l i : l <> [] -> upd_nth i f l <> [].
Proof. intros H E. apply H. apply length_zero_iff_nil. rewrite <- (length_upd_nth f l i), E. reflexivity. Qed.

Lemma one_le b : (one b <= 1)%nat. Proof. destruct b; cbn; lia. Qed.

Lemma inv_submit n y y' : YInv n y -> sys_step y SSubmit = Some y' -> YInv n y'.
Proof.
  intros [Ht Hj Hm Hst Hnn Hs [Hc Hc0] Hw Hb Hcl]. cbn [sys_step].
  destruct (todo y) as [|k] eqn:Etd; [discriminate|].
  destruct (step (par y) (EApply None None None None)) as [s' r] eqn:Est.
  destruct r; try discriminate; intros H; inversion H; subst y'; clear H.
  - (* accepted *)
    destruct (apply_spec (bad y) _ _ Hnn Est) as ([E1 E2 E3 E4] & Hp0 & (x & Hjobs & HJx & Hrx) & Hl & Hnl).
    set (jn := Z.of_nat (length (jobs (par y)))) in *.
    assert (Hget : forall j, get_job s' j = if j =? jn then Some x else get_job (par y) j).
    { intros j. rewrite !get_job_gj, Hjobs. apply gj_app_new. }
    assert (Hfresh : get_job (par y) jn = None) by (rewrite get_job_gj; apply gj_fresh).
    constructor; cbn [par bad todo taskq inq wk outq].
    + intros j. rewrite cnt_tokens; cbn [par bad todo taskq inq wk outq]. rewrite cnt_app, cnt_one.
      specialize (Ht j). rewrite cnt_tokens in Ht. unfold unres in *. rewrite Hget.
      destruct (Z.eqb_spec j jn) as [->|Hne].
      * rewrite Hfresh in Ht. rewrite Hrx, Z.eqb_refl. cbn in *. lia.
      * replace (jn =? j) with false by lia. cbn [one]. lia.
    + intros k0 y0. rewrite Hget. destruct (Z.eqb_spec k0 jn) as [->|Hne].
      * intros H; inversion H; subst y0. exact HJx.
      * apply Hj.
    + exact Hm.
    + rewrite E1. exact Hst.
    + destruct (putlocks (par y)) eqn:Ep.
      * destruct (Hl eq_refl) as [Hpos ->]. cbn. lia.
      * rewrite (Hnl eq_refl). exact Hnn.
    + rewrite E1, E2. intros Ep Hp. destruct (Hl Ep) as [Hpos ->]. specialize (Hs Ep Hp). cbn [LaxSem.value LaxSem.bound].
      rewrite len_tokens in *. cbn [par bad todo taskq inq wk outq]. rewrite app_length. cbn [length]. lia.
    + rewrite E1, Hjobs, app_length. cbn [length]. specialize (Hc0 Hp0). split; [lia|intros _; lia].
    + exact Hw.
    + destruct (putlocks (par y)) eqn:Ep.
      * destruct (Hl eq_refl) as [Hpos ->]. exact Hb.
      * rewrite (Hnl eq_refl). exact Hb.
    + rewrite E1, Hp0. discriminate.
  - (* refused: the pool is closed, no job is created *)
    destruct (apply_refused_spec _ _ Est) as ([E1 E2 E3 E4] & Hjobs & Hsem & Hp).
    assert (Hget : forall j, get_job s' j = get_job (par y) j) by (intros j; rewrite !get_job_gj, Hjobs; reflexivity).
    constructor; cbn [par bad todo taskq inq wk outq].
    + intros j. specialize (Ht j). unfold unres in *. rewrite Hget. exact Ht.
    + intros k0 y0. rewrite Hget. apply Hj.
    + exact Hm.
    + rewrite E1. exact Hst.
    + rewrite Hsem. exact Hnn.
    + rewrite E1. intros _ Hp0. contradiction.
    + rewrite E1, Hjobs. split; [lia|intros Hp0; contradiction].
    + exact Hw.
    + rewrite Hsem. exact Hb.
    + rewrite E1, Hsem. exact Hcl.
Qed.

Lemma inv_put n y y' : YInv n y -> sys_step y SPut = Some y' -> YInv n y'.
Proof.
  intros [Ht Hj Hm Hst Hnn Hs Hc Hw Hb Hcl]. cbn [sys_step].
  destruct (taskq y) as [|j r] eqn:Eq; [discriminate|]. intros H; inversion H; subst y'; clear H.
  constructor; cbn [par bad todo taskq inq wk outq]; try assumption.
  - intros j0. specialize (Ht j0). rewrite cnt_tokens in *. cbn [par bad todo taskq inq wk outq].
    rewrite Eq in Ht. rewrite cnt_app, cnt_one. rewrite cnt_cons in Ht. lia.
  - intros Ep Hp. specialize (Hs Ep Hp). rewrite len_tokens in *. cbn [par bad todo taskq inq wk outq].
    rewrite Eq in Hs. rewrite app_length. cbn [length] in *. lia.
Qed.

Lemma inv_take n y i y' : YInv n y -> sys_step y (STake i) = Some y' -> YInv n y'.
Proof.
  intros [Ht Hj Hm Hst Hnn Hs Hc Hw Hb Hcl]. cbn [sys_step].
  destruct (nth_error (wk y) i) as [[?|]|] eqn:En; try discriminate.
  destruct (inq y) as [|j r] eqn:Eq; [discriminate|]. intros H; inversion H; subst y'; clear H.
  constructor; cbn [par bad todo taskq inq wk outq]; try assumption.
  - intros j0. specialize (Ht j0). rewrite cnt_tokens in *. cbn [par bad todo taskq inq wk outq].
    rewrite Eq in Ht. rewrite cnt_cons in Ht. rewrite readys_app. cbn [readys flat_map]. rewrite app_nil_r.
    pose proof (cnt_somes_upd j0 (Some j) _ _ _ En) as Hu. cbn [ocnt] in Hu. lia.
  - intros j0 p ok t Hin. apply in_app_or in Hin. destruct Hin as [Hin|[Hin|[]]]; [eauto|discriminate].
  - intros Ep Hp. specialize (Hs Ep Hp). rewrite len_tokens in *. cbn [par bad todo taskq inq wk outq].
    rewrite Eq in Hs. rewrite readys_app. cbn [readys flat_map]. rewrite app_nil_r.
    pose proof (len_somes_upd (Some j) _ _ _ En) as Hu. cbn [olen length] in *. lia.
  - apply upd_nth_nonempty. exact Hw.
Qed.

Lemma inv_finish n y i y' : YInv n y -> sys_step y (SFinish i) = Some y' -> YInv n y'.
Proof.
  intros [Ht Hj Hm Hst Hnn Hs Hc Hw Hb Hcl]. cbn [sys_step].
  destruct (nth_error (wk y) i) as [[j|]|] eqn:En; try discriminate.
  intros H; inversion H; subst y'; clear H.
  constructor; cbn [par bad todo taskq inq wk outq]; try assumption.
  - intros j0. specialize (Ht j0). rewrite cnt_tokens in *. cbn [par bad todo taskq inq wk outq].
    rewrite readys_app. cbn [readys flat_map]. rewrite app_nil_r, cnt_app, cnt_one.
    pose proof (cnt_somes_upd j0 None _ _ _ En) as Hu. cbn [ocnt] in Hu. lia.
  - intros j0 p ok t Hin. apply in_app_or in Hin. destruct Hin as [Hin|[Hin|[]]]; [eauto|].
    inversion Hin; subst. split; reflexivity.
  - intros Ep Hp. specialize (Hs Ep Hp). rewrite len_tokens in *. cbn [par bad todo taskq inq wk outq].
    rewrite readys_app. cbn [readys flat_map]. rewrite app_nil_r, app_length.
    pose proof (len_somes_upd None _ _ _ En) as Hu. cbn [olen length] in *. lia.
  - apply upd_nth_nonempty. exact Hw.
Qed.

Lemma inv_recv n y y' : YInv n y -> sys_step y SRecv = Some y' -> YInv n y'.
Proof.
  intros [Ht Hj Hm Hst Hnn Hs Hc Hw Hb Hcl]. cbn [sys_step].
  destruct (outq y) as [|[j p|j p ok t] r] eqn:Eq; [discriminate| |]; intros H; inversion H; subst y'; clear H.
  - destruct (ack_spec (bad y) (par y) j p Hj) as ([E1 E2 E3 E4] & Esem & Elen & Hun & HJ').
    constructor; cbn [par bad todo taskq inq wk outq]; try assumption.
    + intros j0. specialize (Ht j0). rewrite cnt_tokens in *. cbn [par bad todo taskq inq wk outq].
      rewrite Eq in Ht. rewrite ?readys_ack, ?readys_ready in Ht. rewrite Hun. exact Ht.
    + intros j0 p0 ok0 t Hin. apply (Hm j0 p0 ok0 t). right. exact Hin.
    + rewrite E1. exact Hst.
    + rewrite Esem. exact Hnn.
    + rewrite E1, E2, Esem. intros Ep Hp. specialize (Hs Ep Hp). rewrite len_tokens in *. cbn [par bad todo taskq inq wk outq].
      rewrite Eq in Hs. rewrite ?readys_ack, ?readys_ready in Hs. exact Hs.
    + rewrite E1, Elen. exact Hc.
    + rewrite Esem. exact Hb.
    + rewrite E1, Esem. exact Hcl.
  - assert (Htag : t = tag_of j /\ ok = task_ok (bad y) j) by (apply (Hm j p ok t); left; reflexivity).
    destruct Htag as [Htag Hok].
    assert (Hu : unres (par y) j = true).
    { specialize (Ht j). rewrite cnt_tokens, Eq in Ht. rewrite ?readys_ack, ?readys_ready in Ht.
      rewrite cnt_cons, Z.eqb_refl in Ht. destruct (unres (par y) j); [reflexivity|cbn in Ht; lia]. }
    destruct (ready_spec (bad y) (par y) j ok t Hj Hu Htag Hok) as ([E1 E2 E3 E4] & Esem & Elen & Hun & Hoth & HJ').
    assert (Hlen : (1 <= length (tokens y))%nat).
    { rewrite len_tokens, Eq, readys_ready. cbn [length]. lia. }
    constructor; cbn [par bad todo taskq inq wk outq]; try assumption.
    + intros j0. specialize (Ht j0). rewrite cnt_tokens in *. cbn [par bad todo taskq inq wk outq].
      rewrite Eq in Ht. rewrite ?readys_ack, ?readys_ready in Ht. rewrite cnt_cons in Ht.
      destruct (Z.eqb_spec j j0) as [<-|Hne].
      * rewrite Hun. rewrite Hu in Ht. cbn [one] in *. lia.
      * rewrite Hoth by congruence. cbn [one] in Ht. lia.
    + intros j0 p0 ok0 t0 Hin. apply (Hm j0 p0 ok0 t0). right. exact Hin.
    + rewrite E1. exact Hst.
    + rewrite Esem. unfold LaxSem.release. destruct (_ <? _); cbn; lia.
    + rewrite E1, E2, Esem. intros Ep Hp. specialize (Hs Ep Hp). unfold LaxSem.release.
      rewrite len_tokens in *. cbn [par bad todo taskq inq wk outq]. rewrite Eq in Hs.
      rewrite ?readys_ack, ?readys_ready in Hs. cbn [length] in Hs.
      destruct (LaxSem.value (sem (par y)) <? LaxSem.bound (sem (par y))) eqn:El; cbn; lia.
    + rewrite E1, Elen. exact Hc.
    + rewrite Esem. unfold LaxSem.release. destruct (_ <? _); exact Hb.
    + rewrite E1, Esem. intros Hp. specialize (Hcl Hp). unfold LaxSem.release. destruct (_ <? _); cbn; lia.
Qed.

Lemma inv_close n y y' : YInv n y -> sys_step y SClose = Some y' -> YInv n y'.
Proof.
  intros [Ht Hj Hm Hst Hnn Hs [Hc Hc0] Hw Hb Hcl]. cbn [sys_step].
  destruct (pstate (par y) =? 0) eqn:Ep0; [|discriminate]. intros H; inversion H; subst y'; clear H.
  assert (Hp0 : pstate (par y) = 0) by lia.
  destruct (close_spec (par y) Hp0) as (E1 & Ejobs & E2 & E3 & Esem).
  assert (Hget : forall j, get_job (fst (step (par y) EClose)) j = get_job (par y) j)
    by (intros j; rewrite !get_job_gj, Ejobs; reflexivity).
  constructor; cbn [par bad todo taskq inq wk outq].
  - intros j. specialize (Ht j). unfold unres in *. rewrite Hget. exact Ht.
  - intros k0 y0. rewrite Hget. apply Hj.
  - exact Hm.
  - right. exact E1.
  - rewrite Esem. unfold LaxSem.clear. cbn. lia.
  - intros _ Hp. rewrite E1 in Hp. discriminate.
  - rewrite Ejobs, E1. split; [exact Hc|intros H; discriminate].
  - exact Hw.
  - rewrite Esem. exact Hb.
  - intros _. rewrite Esem. unfold LaxSem.clear. cbn. lia.
Qed.

Theorem inv_step n y a y' : YInv n y -> sys_step y a = Some y' -> YInv n y'.
Proof.
  destruct a; [apply inv_submit|apply inv_put|apply inv_take|apply inv_finish|apply inv_recv|apply inv_close].
Qed.

(* ------------------------------------------------------------------ the initial state *)
Lemma start_n_frame : forall n i s,
    jobs (start_n n i s) = jobs s /\ sem (start_n n i s) = sem s /\ pstate (start_n n i s) = pstate s
    /\ putlocks (start_n n i s) = putlocks s.
Proof.
  induction n as [|n IH]; intros i s; cbn [start_n]; [auto|].
  destruct (IH (i + 1) (start_worker s i)) as (A & B & C & D). rewrite A, B, C, D. auto.
Qed.

Lemma somes_repeat_none k : somes (repeat None k) = [].
Proof. induction k as [|k IH]; cbn; [reflexivity|exact IH]. Qed.

Lemma inv_init c n bd : 1 <= c_n c -> YInv n (sinit_bad c n bd).
Proof.
  intros Hn. unfold sinit_bad, init.
  match goal with |- context [start_n ?k ?i ?s0] =>
    destruct (start_n_frame k i s0) as (A & B & C & D); remember (start_n k i s0) as s eqn:Es end.
  cbn [jobs sem pstate putlocks] in A, B, C, D. clear Es.
  assert (Hg : forall j, get_job s j = None).
  { intros j. rewrite get_job_gj, A. unfold gj. destruct (j <? 0); [reflexivity|]. destruct (Z.to_nat j); reflexivity. }
  assert (Htk : forall k, tokens (mksys s bd n [] [] (repeat None k) []) = []).
  { intros k. unfold tokens. cbn [taskq inq wk outq]. rewrite somes_repeat_none. reflexivity. }
  constructor; cbn [par bad todo taskq inq wk outq]; rewrite ?Htk.
  - intros j. unfold unres. rewrite Hg. reflexivity.
  - intros k x. rewrite Hg. discriminate.
  - intros j p ok t [].
  - left. exact C.
  - rewrite B. cbn. lia.
  - intros _ _. rewrite B. cbn. lia.
  - rewrite A. cbn. lia.
  - destruct (Z.to_nat (c_n c)) eqn:E; [lia|]. cbn. discriminate.
  - rewrite B. cbn. lia.
  - rewrite C. discriminate.
Qed.

(* ------------------------------------------------------------------ every schedule is finite *)
Theorem step_decreases y a y' : sys_step y a = Some y' -> (measure y' < measure y)%nat.
Proof.
  unfold measure, work. destruct a; cbn [sys_step].
  - destruct (todo y) as [|k]; [discriminate|].
    destruct (step (par y) (EApply None None None None)) as [s' r] eqn:Est.
    assert (Hp : pstate s' = pstate (par y)) by (rewrite <- (pstate_apply (par y)), Est; reflexivity).
    destruct r; try discriminate; intros H; inversion H; subst y'; clear H;
      cbn [par bad todo taskq inq wk outq]; rewrite Hp, ?app_length; cbn [length]; lia.
  - destruct (taskq y) as [|j r]; [discriminate|]. intros H; inversion H; subst y'; clear H.
    cbn [par bad todo taskq inq wk outq]. rewrite app_length. cbn [length]. lia.
  - destruct (nth_error (wk y) i) as [[?|]|] eqn:En; try discriminate.
    destruct (inq y) as [|j r]; [discriminate|]. intros H; inversion H; subst y'; clear H.
    cbn [par bad todo taskq inq wk outq]. rewrite app_length. cbn [length].
    pose proof (len_somes_upd (Some j) _ _ _ En) as Hu. cbn [olen] in Hu. lia.
  - destruct (nth_error (wk y) i) as [[j|]|] eqn:En; try discriminate.
    intros H; inversion H; subst y'; clear H.
    cbn [par bad todo taskq inq wk outq]. rewrite app_length. cbn [length].
    pose proof (len_somes_upd None _ _ _ En) as Hu. cbn [olen] in Hu. lia.
  - destruct (outq y) as [|[j p|j p t] r]; [discriminate| |]; intros H; inversion H; subst y'; clear H;
      cbn [par todo taskq inq wk outq length]; rewrite ?pstate_ack, ?pstate_ready; lia.
  - destruct (pstate (par y) =? 0) eqn:Ep0; [|discriminate]. intros H; inversion H; subst y'; clear H.
    cbn [par bad todo taskq inq wk outq].
    destruct (close_spec (par y)) as (E1 & _); [lia|]. rewrite E1. cbn. lia.
Qed.

Theorem schedules_are_finite : forall sched y y',
    srun y sched = Some y' -> (length sched + measure y' <= measure y)%nat.
Proof.
  induction sched as [|a r IH]; intros y y'; cbn [srun length].
  - intros H; inversion H; lia.
  - destruct (sys_step y a) as [y1|] eqn:E; [|discriminate]. intros H.
    specialize (IH _ _ H). pose proof (step_decreases _ _ _ E). lia.
Qed.

(* ------------------------------------------------------------------ never stuck before the end *)
Lemma measure_work y : measure y = (work y + (if Z.eqb (pstate (par y)) 0 then 1 else 0))%nat.
Proof. reflexivity. Qed.

(* while work remains, a step OTHER than close() is enabled: the system never depends on
   close() being called, and never deadlocks on the slot semaphore *)
Theorem progress n y : YInv n y -> (0 < work y)%nat ->
  exists a y', a <> SClose /\ sys_step y a = Some y'.
Proof.
  intros [Ht Hj Hm Hst Hnn Hs Hc Hw Hb Hcl] Hpos. unfold work in Hpos.
  destruct (outq y) as [|m r] eqn:Eo.
  2:{ exists SRecv. cbn [sys_step]. rewrite Eo. destruct m; eexists; (split; [discriminate|reflexivity]). }
  destruct (taskq y) as [|j r] eqn:Eq.
  2:{ exists SPut. cbn [sys_step]. rewrite Eq. eexists; (split; [discriminate|reflexivity]). }
  destruct (wk y) as [|w ws] eqn:Ew; [congruence|].
  destruct w as [j|].
  { exists (SFinish 0). cbn [sys_step]. rewrite Ew. cbn. eexists; (split; [discriminate|reflexivity]). }
  destruct (inq y) as [|j r] eqn:Ei.
  2:{ exists (STake 0). cbn [sys_step]. rewrite Ew, Ei. cbn. eexists; (split; [discriminate|reflexivity]). }
  destruct (somes ws) as [|j r] eqn:Esm.
  2:{ (* some other worker is busy *)
    assert (Hex : exists i j, nth_error ws i = Some (Some j)).
    { clear - Esm. revert j r Esm. induction ws as [|[k|] ws IH]; intros j r Esm; cbn in Esm; [discriminate| |].
      - exists 0%nat, k. reflexivity.
      - destruct (IH _ _ Esm) as (i & j' & H). exists (S i), j'. exact H. }
    destruct Hex as (i & j' & Hi). exists (SFinish (S i)). cbn [sys_step]. rewrite Ew. cbn [nth_error]. rewrite Hi.
    eexists; (split; [discriminate|reflexivity]). }
  (* everything is empty: the client must have calls left; a slot is free, or the pool is closed
     and the call is refused at once *)
  assert (Htk : tokens y = []) by (unfold tokens; rewrite Eq, Ei, Ew, Eo; cbn [somes]; rewrite Esm; reflexivity).
  destruct (todo y) as [|k] eqn:Etd.
  { exfalso. cbn [somes length] in Hpos. rewrite Esm in Hpos. cbn in Hpos. lia. }
  exists SSubmit. cbn [sys_step]. rewrite Etd.
  Local Transparent step.
  unfold step, do_apply. cbn [putlocks with_sigs sem pstate].
  destruct Hst as [Hp|Hp]; rewrite Hp; cbn [Z.eqb negb].
  - destruct (putlocks (par y)) eqn:Ep; cbn [andb].
    + specialize (Hs eq_refl Hp). rewrite Htk in Hs. cbn in Hs.
      destruct (LaxSem.value (sem (par y)) =? 0) eqn:Ev; [lia|]. eexists; (split; [discriminate|reflexivity]).
    + eexists; (split; [discriminate|reflexivity]).
  - (* closed: the call is refused at once, whatever the slots *)
    eexists; (split; [discriminate|reflexivity]).
  Local Opaque step.
Qed.

(* ------------------------------------------------------------------ reachable states *)
Inductive sreach (c : config) (n : nat) : sys -> Prop :=
| sr_init bd : sreach c n (sinit_bad c n bd)
| sr_step y a y' : sreach c n y -> sys_step y a = Some y' -> sreach c n y'.

Theorem sreach_inv c n y : 1 <= c_n c -> sreach c n y -> YInv n y.
Proof.
  intros Hn H. induction H as [|y a y' _ IH Hs]; [apply inv_init; exact Hn|].
  eapply inv_step; eauto.
Qed.

Lemma run_snoc c tr e : run c (tr ++ [e]) = fst (step (run c tr) e).
Proof. unfold run. rewrite fold_left_app. reflexivity. Qed.

(* the parent of every reachable system state is a state of the open pool model: everything
   proved about [run c tr] (Props/C01 ... C11) holds of it *)
Theorem sreach_is_run c n y : sreach c n y -> exists tr, par y = run c tr.
Proof.
  intros H. induction H as [|y a y' _ (tr & IH) Hs]; [exists []; reflexivity|].
  destruct a; cbn [sys_step] in Hs.
  - destruct (todo y); [discriminate|].
    destruct (step (par y) (EApply None None None None)) as [s' r] eqn:E.
    destruct r; try discriminate; inversion Hs; subst y'; exists (tr ++ [EApply None None None None]);
      rewrite run_snoc, <- IH, E; reflexivity.
  - destruct (taskq y); [discriminate|]. inversion Hs; subst y'. exists tr. exact IH.
  - destruct (nth_error (wk y) i) as [[?|]|]; try discriminate. destruct (inq y); [discriminate|].
    inversion Hs; subst y'. exists tr. exact IH.
  - destruct (nth_error (wk y) i) as [[?|]|]; try discriminate. inversion Hs; subst y'. exists tr. exact IH.
  - destruct (outq y) as [|[j p|j p ok t] r]; [discriminate| |]; inversion Hs; subst y'; cbn [par].
    + exists (tr ++ [EAck j None p]). rewrite run_snoc, <- IH. reflexivity.
    + exists (tr ++ [EReady j None ok t]). rewrite run_snoc, <- IH. reflexivity.
  - destruct (pstate (par y) =? 0); [|discriminate]. inversion Hs; subst y'; cbn [par].
    exists (tr ++ [EClose]). rewrite run_snoc, <- IH. reflexivity.
Qed.

Lemma srun_reach c n : forall sched y y', sreach c n y -> srun y sched = Some y' -> sreach c n y'.
Proof.
  induction sched as [|a r IH]; intros y y' Hy; cbn [srun].
  - intros H; inversion H; subst; exact Hy.
  - destruct (sys_step y a) as [y1|] eqn:E; [|discriminate]. apply IH. eapply sr_step; eauto.
Qed.

Lemma measure_init c n bd : measure (sinit_bad c n bd) = (6 * n + 1)%nat.
Proof.
  unfold measure, work, sinit_bad. cbn [par bad todo taskq inq wk outq]. rewrite somes_repeat_none. cbn [length].
  unfold init. match goal with |- context [start_n ?k ?i ?s0] => destruct (start_n_frame k i s0) as (_ & _ & C & _) end.
  cbn [pstate] in C. rewrite C. cbn. lia.
Qed.

(* no schedule of the closed system is longer than six steps per job, plus the close() call *)
Theorem every_schedule_is_short c n bd sched y :
  srun (sinit_bad c n bd) sched = Some y -> (length sched <= 6 * n + 1)%nat.
Proof. intros H. pose proof (schedules_are_finite _ _ _ H) as Hm. rewrite measure_init in Hm. lia. Qed.

(* every job that exists is resolved, with its own result, exactly once; nothing is queued *)
Definition all_resolved (y : sys) : Prop :=
  (forall j, 0 <= j < Z.of_nat (length (jobs (par y))) ->
     exists x, get_job (par y) j = Some x /\ ready x = true
               /\ value x = Some (outcome_of (bad y) j)
               /\ cb_succ x = (if task_ok (bad y) j then 1 else 0)
               /\ cb_err x = (if task_ok (bad y) j then 0 else 1))
  /\ todo y = 0%nat /\ taskq y = [] /\ inq y = [] /\ outq y = [] /\ somes (wk y) = [].

Lemma done_at_zero n y : YInv n y -> work y = 0%nat ->
  all_resolved y
  /\ (length (jobs (par y)) <= n)%nat
  /\ (pstate (par y) = 0 -> length (jobs (par y)) = n
                             /\ (putlocks (par y) = true -> LaxSem.value (sem (par y)) = LaxSem.bound (sem (par y)))).
Proof.
  intros [Ht Hj Hm Hst Hnn Hs [Hc Hc0] Hw Hb Hcl] H0. unfold work in H0.
  assert (E1 : todo y = 0%nat) by lia.
  assert (E2 : taskq y = []) by (apply length_zero_iff_nil; lia).
  assert (E3 : inq y = []) by (apply length_zero_iff_nil; lia).
  assert (E4 : somes (wk y) = []) by (apply length_zero_iff_nil; lia).
  assert (E5 : outq y = []) by (apply length_zero_iff_nil; lia).
  assert (Htk : tokens y = []) by (unfold tokens; rewrite E2, E3, E4, E5; reflexivity).
  split; [|split; [lia|]].
  - unfold all_resolved. split; [|auto 10].
    intros j Hjr. destruct (nth_error (jobs (par y)) (Z.to_nat j)) as [x|] eqn:En.
    2:{ apply nth_error_None in En. lia. }
    assert (Hg : get_job (par y) j = Some x).
    { rewrite get_job_gj. unfold gj. destruct (j <? 0) eqn:E; [lia|exact En]. }
    exists x. split; [exact Hg|]. specialize (Ht j). rewrite Htk in Ht. unfold unres in Ht. rewrite Hg in Ht.
    destruct (ready x) eqn:Er; [|discriminate]. destruct (Hj j x Hg) as (_ & _ & _ & Hrd).
    destruct (Hrd Er) as (A & B & C). auto.
  - intros Hp. specialize (Hc0 Hp). split; [lia|]. intros Ep. specialize (Hs Ep Hp). rewrite Htk in Hs. cbn in Hs. lia.
Qed.

(* a state where nothing but close() can move: every one of the n jobs is resolved once with
   its own result, every slot is back (if close() was not called), nothing is left in any queue *)
Theorem completion c n y :
  1 <= c_n c -> sreach c n y -> (forall a, a <> SClose -> sys_step y a = None) ->
  all_resolved y
  /\ (length (jobs (par y)) <= n)%nat
  /\ (pstate (par y) = 0 -> length (jobs (par y)) = n
                             /\ (putlocks (par y) = true -> LaxSem.value (sem (par y)) = LaxSem.bound (sem (par y)))).
Proof.
  intros Hn Hr Hstuck. pose proof (sreach_inv _ _ _ Hn Hr) as Hi.
  apply (done_at_zero n); [exact Hi|]. destruct (work y) eqn:Em; [reflexivity|exfalso].
  destruct (progress n y Hi) as (a & y' & Hne & Hs); [lia|]. rewrite (Hstuck a Hne) in Hs. discriminate.
Qed.

(* ... and from every reachable state a schedule to that end exists that never calls close()
   (no state is doomed, and nothing depends on close()) *)
Theorem can_always_complete c n : 1 <= c_n c -> forall y, sreach c n y ->
  exists sched y', srun y sched = Some y' /\ ~ In SClose sched /\ work y' = 0%nat /\ all_resolved y'.
Proof.
  intros Hn. assert (H : forall m y, (measure y <= m)%nat -> sreach c n y ->
                                 exists sched y', srun y sched = Some y' /\ ~ In SClose sched /\ work y' = 0%nat /\ all_resolved y').
  { induction m as [|m IH]; intros y Hm Hr; pose proof (sreach_inv _ _ _ Hn Hr) as Hi.
    - assert (Hw0 : work y = 0%nat) by (rewrite measure_work in Hm; lia).
      exists [], y. split; [reflexivity|]. split; [intros []|]. split; [exact Hw0|]. apply (done_at_zero n); assumption.
    - destruct (work y) eqn:Em.
      + exists [], y. split; [reflexivity|]. split; [intros []|]. split; [exact Em|]. apply (done_at_zero n); assumption.
      + destruct (progress n y Hi) as (a & y1 & Hne & Hs); [lia|].
        pose proof (step_decreases _ _ _ Hs) as Hd.
        destruct (IH y1) as (sched & y' & Hrun & Hnc & Hw0 & Hdone); [lia|eapply sr_step; eauto|].
        exists (a :: sched), y'. cbn [srun]. rewrite Hs. split; [exact Hrun|]. split; [|auto].
        intros [E|Hin]; [congruence|contradiction]. }
  intros y Hr. apply (H (measure y)); [lia|exact Hr].
Qed.

(* every maximal schedule from the start ends closed, with every job that was accepted resolved,
   within 6 n + 1 steps *)
Theorem every_maximal_schedule_completes c n bd sched y :
  1 <= c_n c -> srun (sinit_bad c n bd) sched = Some y -> (forall a, sys_step y a = None) ->
  all_resolved y /\ pstate (par y) = 1 /\ (length (jobs (par y)) <= n)%nat /\ (length sched <= 6 * n + 1)%nat.
Proof.
  intros Hn Hrun Hstuck.
  assert (Hr : sreach c n y) by (eapply srun_reach; [apply sr_init|exact Hrun]).
  destruct (completion c n y Hn Hr) as (A & B & C); [intros a _; apply Hstuck|].
  split; [exact A|]. split; [|split; [exact B|eapply every_schedule_is_short; eauto]].
  destruct (sreach_inv _ _ _ Hn Hr) as [_ _ _ [Hp|Hp] _ _ _ _ _ _]; [|exact Hp].
  exfalso. specialize (Hstuck SClose). cbn [sys_step] in Hstuck. rewrite Hp in Hstuck. discriminate.
Qed.

(* jobs submitted before close() keep their results; the ones after it are refused and create
   nothing: with close() called after the last submission all n jobs exist and are resolved *)
Theorem close_keeps_results c n bd sched y :
  1 <= c_n c -> srun (sinit_bad c n bd) sched = Some y -> (forall a, sys_step y a = None) ->
  forall j, 0 <= j < Z.of_nat (length (jobs (par y))) ->
    exists x, get_job (par y) j = Some x /\ ready x = true /\ value x = Some (outcome_of (bad y) j)
              /\ cb_succ x = (if task_ok (bad y) j then 1 else 0)
              /\ cb_err x = (if task_ok (bad y) j then 0 else 1).
Proof. intros Hn Hr Hs. exact (proj1 (proj1 (every_maximal_schedule_completes c n bd sched y Hn Hr Hs))). Qed.

(* the set of raising tasks never changes *)
Lemma step_bad y a y' : sys_step y a = Some y' -> bad y' = bad y.
Proof.
  destruct a; cbn [sys_step].
  - destruct (todo y); [discriminate|]. destruct (step (par y) (EApply None None None None)) as [s' r].
    destruct r; try discriminate; intros H; inversion H; reflexivity.
  - destruct (taskq y); [discriminate|]. intros H; inversion H; reflexivity.
  - destruct (nth_error (wk y) i) as [[?|]|]; try discriminate. destruct (inq y); [discriminate|].
    intros H; inversion H; reflexivity.
  - destruct (nth_error (wk y) i) as [[?|]|]; try discriminate. intros H; inversion H; reflexivity.
  - destruct (outq y) as [|[j p|j p ok t] r]; [discriminate| |]; intros H; inversion H; reflexivity.
  - destruct (pstate (par y) =? 0); [|discriminate]. intros H; inversion H; reflexivity.
Qed.

Lemma srun_bad : forall sched y y', srun y sched = Some y' -> bad y' = bad y.
Proof.
  induction sched as [|a r IH]; intros y y'; cbn [srun]; [intros H; inversion H; reflexivity|].
  destruct (sys_step y a) as [y1|] eqn:E; [|discriminate]. intros H.
  rewrite (IH _ _ H). eapply step_bad; eauto.
Qed.

(* non-vacuity: a concrete maximal schedule, evaluated *)
Example closed_system_runs :
  let c := mkcfg 2 None None None None 1 true false in
  let r := auto_run 100 [0;1;2;3;4;5;6;0;3;5;1;2;4;6;0;1;2;3;4;5;6;0;3;5;1;2;4;6]%nat (sinit c 4) in
  srun (sinit c 4) (snd r) = Some (fst r) /\ measure (fst r) = 0%nat
  /\ map (fun x => (ready x, value x)) (jobs (par (fst r)))
     = [(true, Some (PValue 0)); (true, Some (PValue 1))]   (* close() came after two submissions: the other two were refused *)
  /\ In SClose (snd r).
Proof. vm_compute. auto 10. Qed.

(* slot conservation in the closed system: free slots + jobs in flight = the bound, always
   (until close(), which frees every slot) *)
Theorem slots_account c n y :
  1 <= c_n c -> sreach c n y -> putlocks (par y) = true -> pstate (par y) = 0 ->
  LaxSem.value (sem (par y)) + Z.of_nat (length (tokens y)) = LaxSem.bound (sem (par y))
  /\ 0 <= LaxSem.value (sem (par y)).
Proof.
  intros Hn Hr Ep Hp. destruct (sreach_inv _ _ _ Hn Hr) as [Ht Hj Hm Hrn Hnn Hs Hc Hw Hb Hcl].
  split; [exact (Hs Ep Hp)|exact Hnn].
Qed.

(* ... and in-flight means unresolved: a job id is in exactly one of the queues / workers iff it
   is not resolved yet *)
Theorem in_flight_iff_unresolved c n y j :
  1 <= c_n c -> sreach c n y ->
  count_occ Z.eq_dec (tokens y) j = if unres (par y) j then 1%nat else 0%nat.
Proof. intros Hn Hr. destruct (sreach_inv _ _ _ Hn Hr) as [Ht _ _ _ _ _ _ _ _ _]. exact (Ht j). Qed.

Theorem all_slots_back c n y :
  1 <= c_n c -> sreach c n y -> (forall a, a <> SClose -> sys_step y a = None) ->
  pstate (par y) = 0 -> putlocks (par y) = true ->
  LaxSem.value (sem (par y)) = LaxSem.bound (sem (par y)).
Proof.
  intros Hn Hr Hs Hp. exact (proj2 (proj2 (proj2 (completion c n y Hn Hr Hs)) Hp)).
Qed.

(* non-vacuity with a raising task: job 1 fails with its own exception, error callback once *)
Example closed_system_with_a_raising_task :
  let c := mkcfg 2 None None None None 1 false false in
  let r := auto_run 100 [1;2;4;5;1;2;4;5;1;2;4;5;1;2;4;5;1;2;4;5;1;2;4;5;1;2;4;5]%nat (sinit_bad c 3 [1]) in
  srun (sinit_bad c 3 [1]) (snd r) = Some (fst r) /\ work (fst r) = 0%nat
  /\ map (fun x => (value x, cb_succ x, cb_err x)) (jobs (par (fst r)))
     = [(Some (PValue 0), 1, 0); (Some (PExc 1), 0, 1); (Some (PValue 2), 1, 0)].
Proof. vm_compute. auto. Qed.
