(* Proofs about the closed crash-free composition Model/PoolSys.v:
   every schedule is finite (a measure decreases with every step), the system is never
   stuck before the end, and at the end every job is resolved exactly once with its own
   result and every slot is back.  The parent component of every reachable system state is a
   [Pool.run], so every theorem of the open model applies to it. *)
From Coq Require Import ZArith List Bool Lia ZifyBool.
From BV Require Import Lib.Cases Model.LaxSem Model.Restart Model.Pool Model.PoolSys
     Proofs.PoolJobs Proofs.PoolInv.
Import ListNotations.
Open Scope Z_scope.

(* ------------------------------------------------------------------ counting *)
Definition cnt (j : Z) (l : list Z) : nat := count_occ Z.eq_dec l j.
Definition one (b : bool) : nat := if b then 1%nat else 0%nat.

Lemma cnt_app j a b : cnt j (a ++ b) = (cnt j a + cnt j b)%nat.
Proof. apply count_occ_app. Qed.
Lemma cnt_cons j x l : cnt j (x :: l) = (one (Z.eqb x j) + cnt j l)%nat.
Proof. unfold cnt; cbn. destruct (Z.eq_dec x j), (Z.eqb_spec x j); cbn; congruence. Qed.
Lemma cnt_nil j : cnt j [] = 0%nat. Proof. reflexivity. Qed.
Lemma cnt_one j x : cnt j [x] = one (x =? j).
Proof. rewrite cnt_cons, cnt_nil. lia. Qed.

Definition ocnt (j : Z) (o : option Z) : nat := match o with Some k => one (k =? j) | None => 0%nat end.
Definition olen (o : option Z) : nat := match o with Some _ => 1%nat | None => 0%nat end.

Lemma cnt_somes_upd j o' : forall l i o, nth_error l i = Some o ->
    (cnt j (somes (upd_nth i (fun _ => o') l)) + ocnt j o = cnt j (somes l) + ocnt j o')%nat.
Proof.
  induction l as [|a l IH]; intros [|i] o H; cbn in H; try discriminate.
  - inversion H; subst. cbn [upd_nth].
    destruct o as [k|], o' as [k'|]; cbn [somes ocnt]; rewrite ?cnt_cons; lia.
  - cbn [upd_nth]. specialize (IH i o H).
    destruct a as [k|]; cbn [somes]; rewrite ?cnt_cons; lia.
Qed.

Lemma len_somes_upd o' : forall l i o, nth_error l i = Some o ->
    (length (somes (upd_nth i (fun _ => o') l)) + olen o = length (somes l) + olen o')%nat.
Proof.
  induction l as [|a l IH]; intros [|i] o H; cbn in H; try discriminate.
  - inversion H; subst. cbn [upd_nth]. destruct o, o'; cbn; lia.
  - cbn [upd_nth]. specialize (IH i o H). destruct a; cbn [somes length]; lia.
Qed.

Lemma readys_ack j p r : readys (MAck j p :: r) = readys r. Proof. reflexivity. Qed.
Lemma readys_ready j p t r : readys (MReady j p t :: r) = j :: readys r. Proof. reflexivity. Qed.
Lemma readys_app q m : readys (q ++ [m]) = readys q ++ readys [m].
Proof. unfold readys. apply flat_map_app. Qed.

(* ------------------------------------------------------------------ job table access *)
Definition gj (l : list job) (j : Z) : option job := if j <? 0 then None else nth_error l (Z.to_nat j).
Lemma get_job_gj s j : get_job s j = gj (jobs s) j. Proof. reflexivity. Qed.

Lemma gj_app_new l x j :
  gj (l ++ [x]) j = if j =? Z.of_nat (length l) then Some x else gj l j.
Proof.
  unfold gj. destruct (j <? 0) eqn:E.
  - destruct (j =? Z.of_nat (length l)) eqn:E2; [lia|reflexivity].
  - destruct (j =? Z.of_nat (length l)) eqn:E2.
    + rewrite nth_error_app2 by lia. replace (Z.to_nat j - length l)%nat with 0%nat by lia. reflexivity.
    + destruct (Z_lt_le_dec j (Z.of_nat (length l))).
      * rewrite nth_error_app1 by lia. reflexivity.
      * assert (H1 : nth_error (l ++ [x]) (Z.to_nat j) = None)
          by (apply nth_error_None; rewrite app_length; cbn; lia).
        assert (H2 : nth_error l (Z.to_nat j) = None) by (apply nth_error_None; lia).
        congruence.
Qed.

Lemma gj_fresh l : gj l (Z.of_nat (length l)) = None.
Proof. unfold gj. destruct (_ <? 0) eqn:E; [reflexivity|]. apply nth_error_None. lia. Qed.

Lemma get_set_same s j f x : get_job s j = Some x -> get_job (set_job s j f) j = Some (f x).
Proof.
  unfold get_job, set_job; cbn. destruct (j <? 0) eqn:E; [discriminate|].
  apply nth_upd_nth_same.
Qed.

Lemma get_set_other s j f j' : j <> j' -> get_job (set_job s j f) j' = get_job s j'.
Proof.
  intros H. unfold get_job, set_job; cbn.
  destruct (j' <? 0) eqn:E'; [reflexivity|]. destruct (j <? 0) eqn:E; [reflexivity|].
  apply nth_upd_nth_other. lia.
Qed.

Lemma len_set_job s j f : length (jobs (set_job s j f)) = length (jobs s).
Proof. unfold set_job; cbn. destruct (j <? 0); [reflexivity|apply length_upd_nth]. Qed.

Definition unres (s : pool) (j : Z) : bool :=
  match get_job s j with Some x => negb (ready x) | None => false end.

(* what is known about every job of the closed system *)
Definition JF (j : Z) (x : job) : Prop :=
  jid x = j /\ kind x = KApply
  /\ (ready x = false -> incache x = true /\ value x = None /\ cb_succ x = 0 /\ cb_err x = 0)
  /\ (ready x = true -> value x = Some (PValue (tag_of j)) /\ cb_succ x = 1 /\ cb_err x = 0).

(* ------------------------------------------------------------------ the three parent events *)
Record same_env (s s' : pool) : Prop := {
  se_pstate : pstate s' = pstate s;
  se_putlocks : putlocks s' = putlocks s;
  se_wlist : wlist s' = wlist s;
  se_nprocs : nprocs s' = nprocs s
}.

Lemma apply_spec s s' :
  0 <= LaxSem.value (sem s) ->
  step s (EApply None None None None) = (s', RNone) ->
  same_env s s' /\ pstate s = 0
  /\ (exists x, jobs s' = jobs s ++ [x] /\ JF (Z.of_nat (length (jobs s))) x /\ ready x = false)
  /\ (putlocks s = true -> 0 < LaxSem.value (sem s)
                           /\ sem s' = mk_sem (LaxSem.value (sem s) - 1) (LaxSem.bound (sem s)) (LaxSem.pending (sem s)))
  /\ (putlocks s = false -> sem s' = sem s).
Proof.
  intros Hnn. unfold step, do_apply. cbn [putlocks with_sigs sem pstate].
  destruct (putlocks s) eqn:Ep; cbn [andb].
  - destruct (LaxSem.value (sem s) =? 0) eqn:Ev; [discriminate|].
    destruct (pstate s =? 0) eqn:Es; cbn [negb]; [|discriminate].
    intros H; inversion H; subst; clear H.
    split; [constructor; reflexivity|]. split; [lia|]. split.
    + eexists. split; [reflexivity|]. cbn. unfold JF, tag_of; cbn. repeat split; try reflexivity; intros; discriminate.
    + split; [|discriminate]. intros _.
      unfold sstep', LaxSem.sstep. cbn.
      destruct (0 <? LaxSem.value (sem s)) eqn:Eg; [|lia].
      split; [lia|reflexivity].
  - destruct (pstate s =? 0) eqn:Es; cbn [negb]; [|discriminate].
    intros H; inversion H; subst; clear H.
    split; [constructor; reflexivity|]. split; [lia|]. split.
    + eexists. split; [reflexivity|]. unfold JF, tag_of; cbn. repeat split; try reflexivity; intros; discriminate.
    + split; [discriminate|reflexivity].
Qed.

Definition AllJF (s : pool) : Prop := forall k x, get_job s k = Some x -> JF k x.

Lemma ack_spec s j p :
  AllJF s ->
  let s' := fst (step s (EAck j None p)) in
  same_env s s' /\ sem s' = sem s /\ length (jobs s') = length (jobs s)
  /\ (forall k, unres s' k = unres s k) /\ AllJF s'.
Proof.
  intros HJ. unfold step, do_ack.
  change (cached (with_rst (with_sigs s []) (Restart.ack (rst (with_sigs s [])))) j) with (cached s j).
  destruct (cached s j) as [x|] eqn:Ec.
  - destruct (cached_get _ _ _ Ec) as [Hg Hi]. destruct (HJ j x Hg) as (Hid & Hk & Hnr & Hr).
    rewrite Hk. cbn [fst].
    set (s1 := with_rst (with_sigs s []) (Restart.ack (rst (with_sigs s [])))).
    assert (Hg1 : get_job s1 j = Some x) by exact Hg.
    split; [constructor; reflexivity|]. split; [reflexivity|]. split; [rewrite len_set_job; reflexivity|].
    split.
    + intros k. unfold unres. destruct (Z.eq_dec j k) as [->|Hne].
      * rewrite (get_set_same s1 k _ x Hg1). change (get_job s k) with (get_job s1 k). rewrite Hg1. reflexivity.
      * rewrite get_set_other by exact Hne. reflexivity.
    + intros k y. destruct (Z.eq_dec j k) as [->|Hne].
      * rewrite (get_set_same s1 k _ x Hg1). intros H; inversion H; subst y; clear H.
        unfold JF, apply_ack; cbn. split; [exact Hid|]. split; [exact Hk|]. split.
        -- intros Hr0. rewrite Hr0. destruct (Hnr Hr0) as (A & B & C & D). auto.
        -- intros Hr1. exact (Hr Hr1).
      * rewrite get_set_other by exact Hne. apply HJ.
  - cbn [fst]. split; [constructor; reflexivity|]. split; [reflexivity|]. split; [reflexivity|].
    split; [reflexivity|exact HJ].
Qed.

Lemma sem_bump_counter s x : sem (bump_counter s x) = sem s.
Proof. unfold bump_counter. destruct (worker_pids x); [reflexivity|]. destruct (in_pool s z); reflexivity. Qed.

Lemma env_bump_counter s x : same_env s (bump_counter s x).
Proof. unfold bump_counter. destruct (worker_pids x); [constructor; reflexivity|]. destruct (in_pool s z); constructor; reflexivity. Qed.

Lemma jobs_bump_counter s x : jobs (bump_counter s x) = jobs s.
Proof. unfold bump_counter. destruct (worker_pids x); [reflexivity|]. destruct (in_pool s z); reflexivity. Qed.

Lemma ready_spec s j t :
  AllJF s -> unres s j = true -> t = tag_of j ->
  let s' := fst (step s (EReady j None true t)) in
  same_env s s' /\ sem s' = LaxSem.release (sem s) /\ length (jobs s') = length (jobs s)
  /\ unres s' j = false /\ (forall k, k <> j -> unres s' k = unres s k) /\ AllJF s'.
Proof.
  intros HJ Hu Ht. unfold unres in Hu. destruct (get_job s j) as [x|] eqn:Hg; [|discriminate].
  destruct (HJ j x Hg) as (Hid & Hk & Hnr & Hr).
  assert (Hr0 : ready x = false) by (destruct (ready x); [discriminate|reflexivity]).
  destruct (Hnr Hr0) as (Hin & Hv & Hcs & Hce).
  unfold step, do_ready.
  assert (Hc : cached (with_sigs s []) j = Some x).
  { unfold cached. change (get_job (with_sigs s []) j) with (get_job s j). rewrite Hg, Hin. reflexivity. }
  rewrite Hc, Hr0. cbn [fst].
  set (s1 := with_sem (bump_counter (with_sigs s []) x) (LaxSem.release (sem (bump_counter (with_sigs s []) x)))).
  assert (Hjobs : jobs s1 = jobs s) by (unfold s1; cbn; rewrite jobs_bump_counter; reflexivity).
  assert (Hg1 : get_job s1 j = Some x) by (rewrite get_job_gj, Hjobs, <- get_job_gj; exact Hg).
  assert (Hgk : forall k, get_job s1 k = get_job s k) by (intros k; rewrite !get_job_gj, Hjobs; reflexivity).
  split.
  { destruct (env_bump_counter (with_sigs s []) x) as [A B C D]. constructor; cbn; assumption. }
  split; [unfold s1; cbn; rewrite sem_bump_counter; reflexivity|].
  split; [rewrite len_set_job, Hjobs; reflexivity|].
  assert (Hnew : get_job (set_job s1 j (fun x0 => fst (job_set x0 None (PValue t)))) j
                 = Some (apply_set x (PValue t))).
  { rewrite (get_set_same s1 j _ x Hg1). unfold job_set. rewrite Hk. reflexivity. }
  split; [unfold unres; rewrite Hnew; unfold apply_set; rewrite Hr0; reflexivity|].
  split.
  - intros k Hne. unfold unres. rewrite get_set_other by congruence. rewrite Hgk. reflexivity.
  - intros k y. destruct (Z.eq_dec j k) as [<-|Hne].
    + rewrite Hnew. intros H; inversion H; subst y; clear H.
      unfold JF, apply_set. rewrite Hr0. cbn. split; [exact Hid|]. split; [exact Hk|].
      split; [intros; discriminate|]. intros _. subst t. rewrite Hcs, Hce. repeat split; lia.
    + rewrite get_set_other by exact Hne. rewrite Hgk. apply HJ.
Qed.

(* ------------------------------------------------------------------ the system invariant *)
Local Opaque step.
Record YInv (n : nat) (y : sys) : Prop := {
  i_tok : forall j, cnt j (tokens y) = one (unres (par y) j);
  i_job : AllJF (par y);
  i_msg : forall j p t, In (MReady j p t) (outq y) -> t = tag_of j;
  i_run : pstate (par y) = 0;
  i_nn : 0 <= LaxSem.value (sem (par y));
  i_sem : putlocks (par y) = true ->
          LaxSem.value (sem (par y)) + Z.of_nat (length (tokens y)) = LaxSem.bound (sem (par y));
  i_cnt : (length (jobs (par y)) + todo y = n)%nat;
  i_wk : wk y <> [];
  i_bound : 1 <= LaxSem.bound (sem (par y))
}.

Lemma cnt_tokens j y :
  cnt j (tokens y) = (cnt j (taskq y) + cnt j (inq y) + cnt j (somes (wk y)) + cnt j (readys (outq y)))%nat.
Proof. unfold tokens. rewrite !cnt_app. lia. Qed.

Lemma len_tokens y :
  length (tokens y) = (length (taskq y) + length (inq y) + length (somes (wk y)) + length (readys (outq y)))%nat.
Proof. unfold tokens. rewrite !app_length. lia. Qed.

Lemma upd_nth_nonempty {A} (f : A -> A) l i : l <> [] -> upd_nth i f l <> [].
Proof. intros H E. apply H. apply length_zero_iff_nil. rewrite <- (length_upd_nth f l i), E. reflexivity. Qed.

Lemma one_le b : (one b <= 1)%nat. Proof. destruct b; cbn; lia. Qed.

Lemma inv_submit n y y' : YInv n y -> sys_step y SSubmit = Some y' -> YInv n y'.
Proof.
  intros [Ht Hj Hm Hr Hnn Hs Hc Hw Hb]. cbn [sys_step].
  destruct (todo y) as [|k] eqn:Etd; [discriminate|].
  destruct (step (par y) (EApply None None None None)) as [s' r] eqn:Est.
  destruct r; try discriminate. intros H; inversion H; subst y'; clear H.
  destruct (apply_spec _ _ Hnn Est) as ([E1 E2 E3 E4] & Hp0 & (x & Hjobs & HJx & Hrx) & Hl & Hnl).
  set (jn := Z.of_nat (length (jobs (par y)))) in *.
  assert (Hget : forall j, get_job s' j = if j =? jn then Some x else get_job (par y) j).
  { intros j. rewrite !get_job_gj, Hjobs. apply gj_app_new. }
  assert (Hfresh : get_job (par y) jn = None) by (rewrite get_job_gj; apply gj_fresh).
  constructor; cbn [par todo taskq inq wk outq].
  - intros j. rewrite cnt_tokens; cbn [par todo taskq inq wk outq]. rewrite cnt_app, cnt_one.
    specialize (Ht j). rewrite cnt_tokens in Ht. unfold unres in *. rewrite Hget.
    destruct (Z.eqb_spec j jn) as [->|Hne].
    + rewrite Hfresh in Ht. rewrite Hrx, Z.eqb_refl. cbn in *. lia.
    + replace (jn =? j) with false by lia. cbn [one]. lia.
  - intros k0 y0. rewrite Hget. destruct (Z.eqb_spec k0 jn) as [->|Hne].
    + intros H; inversion H; subst y0. exact HJx.
    + apply Hj.
  - exact Hm.
  - rewrite E1. exact Hr.
  - destruct (putlocks (par y)) eqn:Ep.
    + destruct (Hl eq_refl) as [Hpos ->]. cbn. lia.
    + rewrite (Hnl eq_refl). exact Hnn.
  - rewrite E2. intros Ep. destruct (Hl Ep) as [Hpos ->]. specialize (Hs Ep). cbn [LaxSem.value LaxSem.bound].
    rewrite len_tokens in *. cbn [par todo taskq inq wk outq]. rewrite app_length. cbn [length]. lia.
  - rewrite Hjobs, app_length. cbn [length]. lia.
  - exact Hw.
  - destruct (putlocks (par y)) eqn:Ep.
    + destruct (Hl eq_refl) as [Hpos ->]. exact Hb.
    + rewrite (Hnl eq_refl). exact Hb.
Qed.

Lemma inv_put n y y' : YInv n y -> sys_step y SPut = Some y' -> YInv n y'.
Proof.
  intros [Ht Hj Hm Hr Hnn Hs Hc Hw Hb]. cbn [sys_step].
  destruct (taskq y) as [|j r] eqn:Eq; [discriminate|]. intros H; inversion H; subst y'; clear H.
  constructor; cbn [par todo taskq inq wk outq]; try assumption.
  - intros j0. specialize (Ht j0). rewrite cnt_tokens in *. cbn [par todo taskq inq wk outq].
    rewrite Eq in Ht. rewrite cnt_app, cnt_one. rewrite cnt_cons in Ht. lia.
  - intros Ep. specialize (Hs Ep). rewrite len_tokens in *. cbn [par todo taskq inq wk outq].
    rewrite Eq in Hs. rewrite app_length. cbn [length] in *. lia.
Qed.

Lemma inv_take n y i y' : YInv n y -> sys_step y (STake i) = Some y' -> YInv n y'.
Proof.
  intros [Ht Hj Hm Hr Hnn Hs Hc Hw Hb]. cbn [sys_step].
  destruct (nth_error (wk y) i) as [[?|]|] eqn:En; try discriminate.
  destruct (inq y) as [|j r] eqn:Eq; [discriminate|]. intros H; inversion H; subst y'; clear H.
  constructor; cbn [par todo taskq inq wk outq]; try assumption.
  - intros j0. specialize (Ht j0). rewrite cnt_tokens in *. cbn [par todo taskq inq wk outq].
    rewrite Eq in Ht. rewrite cnt_cons in Ht. rewrite readys_app. cbn [readys flat_map]. rewrite app_nil_r.
    pose proof (cnt_somes_upd j0 (Some j) _ _ _ En) as Hu. cbn [ocnt] in Hu. lia.
  - intros j0 p t Hin. apply in_app_or in Hin. destruct Hin as [Hin|[Hin|[]]]; [eauto|discriminate].
  - intros Ep. specialize (Hs Ep). rewrite len_tokens in *. cbn [par todo taskq inq wk outq].
    rewrite Eq in Hs. rewrite readys_app. cbn [readys flat_map]. rewrite app_nil_r.
    pose proof (len_somes_upd (Some j) _ _ _ En) as Hu. cbn [olen length] in *. lia.
  - apply upd_nth_nonempty. exact Hw.
Qed.

Lemma inv_finish n y i y' : YInv n y -> sys_step y (SFinish i) = Some y' -> YInv n y'.
Proof.
  intros [Ht Hj Hm Hr Hnn Hs Hc Hw Hb]. cbn [sys_step].
  destruct (nth_error (wk y) i) as [[j|]|] eqn:En; try discriminate.
  intros H; inversion H; subst y'; clear H.
  constructor; cbn [par todo taskq inq wk outq]; try assumption.
  - intros j0. specialize (Ht j0). rewrite cnt_tokens in *. cbn [par todo taskq inq wk outq].
    rewrite readys_app. cbn [readys flat_map]. rewrite app_nil_r, cnt_app, cnt_one.
    pose proof (cnt_somes_upd j0 None _ _ _ En) as Hu. cbn [ocnt] in Hu. lia.
  - intros j0 p t Hin. apply in_app_or in Hin. destruct Hin as [Hin|[Hin|[]]]; [eauto|].
    inversion Hin; reflexivity.
  - intros Ep. specialize (Hs Ep). rewrite len_tokens in *. cbn [par todo taskq inq wk outq].
    rewrite readys_app. cbn [readys flat_map]. rewrite app_nil_r, app_length.
    pose proof (len_somes_upd None _ _ _ En) as Hu. cbn [olen length] in *. lia.
  - apply upd_nth_nonempty. exact Hw.
Qed.

Lemma inv_recv n y y' : YInv n y -> sys_step y SRecv = Some y' -> YInv n y'.
Proof.
  intros [Ht Hj Hm Hr Hnn Hs Hc Hw Hb]. cbn [sys_step].
  destruct (outq y) as [|[j p|j p t] r] eqn:Eq; [discriminate| |]; intros H; inversion H; subst y'; clear H.
  - destruct (ack_spec (par y) j p Hj) as ([E1 E2 E3 E4] & Esem & Elen & Hun & HJ').
    constructor; cbn [par todo taskq inq wk outq]; try assumption.
    + intros j0. specialize (Ht j0). rewrite cnt_tokens in *. cbn [par todo taskq inq wk outq].
      rewrite Eq in Ht. rewrite ?readys_ack, ?readys_ready in Ht. rewrite Hun. exact Ht.
    + intros j0 p0 t Hin. apply (Hm j0 p0 t). right. exact Hin.
    + rewrite E1. exact Hr.
    + rewrite Esem. exact Hnn.
    + rewrite E2, Esem. intros Ep. specialize (Hs Ep). rewrite len_tokens in *. cbn [par todo taskq inq wk outq].
      rewrite Eq in Hs. rewrite ?readys_ack, ?readys_ready in Hs. exact Hs.
    + rewrite Elen. exact Hc.
    + rewrite Esem. exact Hb.
  - assert (Htag : t = tag_of j) by (apply (Hm j p t); left; reflexivity).
    assert (Hu : unres (par y) j = true).
    { specialize (Ht j). rewrite cnt_tokens, Eq in Ht. rewrite ?readys_ack, ?readys_ready in Ht.
      rewrite cnt_cons, Z.eqb_refl in Ht. destruct (unres (par y) j); [reflexivity|cbn in Ht; lia]. }
    destruct (ready_spec (par y) j t Hj Hu Htag) as ([E1 E2 E3 E4] & Esem & Elen & Hun & Hoth & HJ').
    assert (Hlen : (1 <= length (tokens y))%nat).
    { rewrite len_tokens, Eq, readys_ready. cbn [length]. lia. }
    constructor; cbn [par todo taskq inq wk outq]; try assumption.
    + intros j0. specialize (Ht j0). rewrite cnt_tokens in *. cbn [par todo taskq inq wk outq].
      rewrite Eq in Ht. rewrite ?readys_ack, ?readys_ready in Ht. rewrite cnt_cons in Ht.
      destruct (Z.eqb_spec j j0) as [<-|Hne].
      * rewrite Hun. rewrite Hu in Ht. cbn [one] in *. lia.
      * rewrite Hoth by congruence. cbn [one] in Ht. lia.
    + intros j0 p0 t0 Hin. apply (Hm j0 p0 t0). right. exact Hin.
    + rewrite E1. exact Hr.
    + rewrite Esem. unfold LaxSem.release. destruct (_ <? _); cbn; lia.
    + rewrite E2, Esem. intros Ep. specialize (Hs Ep). unfold LaxSem.release.
      rewrite len_tokens in *. cbn [par todo taskq inq wk outq]. rewrite Eq in Hs.
      rewrite ?readys_ack, ?readys_ready in Hs. cbn [length] in Hs.
      destruct (LaxSem.value (sem (par y)) <? LaxSem.bound (sem (par y))) eqn:El; cbn; lia.
    + rewrite Elen. exact Hc.
    + rewrite Esem. unfold LaxSem.release. destruct (_ <? _); exact Hb.
Qed.

Theorem inv_step n y a y' : YInv n y -> sys_step y a = Some y' -> YInv n y'.
Proof.
  destruct a; [apply inv_submit|apply inv_put|apply inv_take|apply inv_finish|apply inv_recv].
Qed.

(* ------------------------------------------------------------------ the initial state *)
Lemma start_n_frame : forall n i s,
    jobs (start_n n i s) = jobs s /\ sem (start_n n i s) = sem s /\ pstate (start_n n i s) = pstate s
    /\ putlocks (start_n n i s) = putlocks s.
Proof.
  induction n as [|n IH]; intros i s; cbn [start_n]; [auto|].
  destruct (IH (i + 1) (start_worker s i)) as (A & B & C & D). rewrite A, B, C, D. auto.
Qed.

Lemma somes_repeat_none k : somes (repeat None k) = [].
Proof. induction k as [|k IH]; cbn; [reflexivity|exact IH]. Qed.

Lemma inv_init c n : 1 <= c_n c -> YInv n (sinit c n).
Proof.
  intros Hn. unfold sinit, init.
  match goal with |- context [start_n ?k ?i ?s0] =>
    destruct (start_n_frame k i s0) as (A & B & C & D); remember (start_n k i s0) as s eqn:Es end.
  cbn [jobs sem pstate putlocks] in A, B, C, D. clear Es.
  assert (Hg : forall j, get_job s j = None).
  { intros j. rewrite get_job_gj, A. unfold gj. destruct (j <? 0); [reflexivity|]. destruct (Z.to_nat j); reflexivity. }
  assert (Htk : forall k, tokens (mksys s n [] [] (repeat None k) []) = []).
  { intros k. unfold tokens. cbn [taskq inq wk outq]. rewrite somes_repeat_none. reflexivity. }
  constructor; cbn [par todo taskq inq wk outq]; rewrite ?Htk.
  - intros j. unfold unres. rewrite Hg. reflexivity.
  - intros k x. rewrite Hg. discriminate.
  - intros j p t [].
  - exact C.
  - rewrite B. cbn. lia.
  - intros _. rewrite B. cbn. lia.
  - rewrite A. cbn. lia.
  - destruct (Z.to_nat (c_n c)) eqn:E; [lia|]. cbn. discriminate.
  - rewrite B. cbn. lia.
Qed.

(* ------------------------------------------------------------------ every schedule is finite *)
Theorem step_decreases y a y' : sys_step y a = Some y' -> (measure y' < measure y)%nat.
Proof.
  unfold measure. destruct a; cbn [sys_step].
  - destruct (todo y) as [|k]; [discriminate|].
    destruct (step (par y) (EApply None None None None)) as [s' r]. destruct r; try discriminate.
    intros H; inversion H; subst y'; clear H. cbn [todo taskq inq wk outq]. rewrite app_length. cbn [length]. lia.
  - destruct (taskq y) as [|j r]; [discriminate|]. intros H; inversion H; subst y'; clear H.
    cbn [todo taskq inq wk outq]. rewrite app_length. cbn [length]. lia.
  - destruct (nth_error (wk y) i) as [[?|]|] eqn:En; try discriminate.
    destruct (inq y) as [|j r]; [discriminate|]. intros H; inversion H; subst y'; clear H.
    cbn [todo taskq inq wk outq]. rewrite app_length. cbn [length].
    pose proof (len_somes_upd (Some j) _ _ _ En) as Hu. cbn [olen] in Hu. lia.
  - destruct (nth_error (wk y) i) as [[j|]|] eqn:En; try discriminate.
    intros H; inversion H; subst y'; clear H.
    cbn [todo taskq inq wk outq]. rewrite app_length. cbn [length].
    pose proof (len_somes_upd None _ _ _ En) as Hu. cbn [olen] in Hu. lia.
  - destruct (outq y) as [|[j p|j p t] r]; [discriminate| |]; intros H; inversion H; subst y'; clear H;
      cbn [todo taskq inq wk outq length]; lia.
Qed.

Theorem schedules_are_finite : forall sched y y',
    srun y sched = Some y' -> (length sched + measure y' <= measure y)%nat.
Proof.
  induction sched as [|a r IH]; intros y y'; cbn [srun length].
  - intros H; inversion H; lia.
  - destruct (sys_step y a) as [y1|] eqn:E; [|discriminate]. intros H.
    specialize (IH _ _ H). pose proof (step_decreases _ _ _ E). lia.
Qed.

(* ------------------------------------------------------------------ never stuck before the end *)
Theorem progress n y : YInv n y -> (0 < measure y)%nat -> exists a y', sys_step y a = Some y'.
Proof.
  intros [Ht Hj Hm Hr Hnn Hs Hc Hw Hb] Hpos. unfold measure in Hpos.
  destruct (outq y) as [|m r] eqn:Eo.
  2:{ exists SRecv. cbn [sys_step]. rewrite Eo. destruct m; eauto. }
  destruct (taskq y) as [|j r] eqn:Eq.
  2:{ exists SPut. cbn [sys_step]. rewrite Eq. eauto. }
  destruct (wk y) as [|w ws] eqn:Ew; [congruence|].
  destruct w as [j|].
  { exists (SFinish 0). cbn [sys_step]. rewrite Ew. cbn. eauto. }
  destruct (inq y) as [|j r] eqn:Ei.
  2:{ exists (STake 0). cbn [sys_step]. rewrite Ew, Ei. cbn. eauto. }
  destruct (somes ws) as [|j r] eqn:Esm.
  2:{ (* some other worker is busy *)
    assert (Hex : exists i j, nth_error ws i = Some (Some j)).
    { clear - Esm. revert j r Esm. induction ws as [|[k|] ws IH]; intros j r Esm; cbn in Esm; [discriminate| |].
      - exists 0%nat, k. reflexivity.
      - destruct (IH _ _ Esm) as (i & j' & H). exists (S i), j'. exact H. }
    destruct Hex as (i & j' & Hi). exists (SFinish (S i)). cbn [sys_step]. rewrite Ew. cbn [nth_error]. rewrite Hi. eauto. }
  (* everything is empty: the client must have calls left, and a slot is free *)
  assert (Htk : tokens y = []) by (unfold tokens; rewrite Eq, Ei, Ew, Eo; cbn [somes]; rewrite Esm; reflexivity).
  destruct (todo y) as [|k] eqn:Etd.
  { exfalso. cbn [somes length] in Hpos. rewrite Esm in Hpos. cbn in Hpos. lia. }
  exists SSubmit. cbn [sys_step]. rewrite Etd.
  Local Transparent step.
  unfold step, do_apply. cbn [putlocks with_sigs sem pstate]. rewrite Hr. cbn [Z.eqb negb].
  destruct (putlocks (par y)) eqn:Ep; cbn [andb].
  - specialize (Hs eq_refl). rewrite Htk in Hs. cbn in Hs.
    destruct (LaxSem.value (sem (par y)) =? 0) eqn:Ev; [lia|]. eauto.
  - eauto.
Qed.

(* ------------------------------------------------------------------ reachable states *)
Inductive sreach (c : config) (n : nat) : sys -> Prop :=
| sr_init : sreach c n (sinit c n)
| sr_step y a y' : sreach c n y -> sys_step y a = Some y' -> sreach c n y'.

Theorem sreach_inv c n y : 1 <= c_n c -> sreach c n y -> YInv n y.
Proof.
  intros Hn H. induction H as [|y a y' _ IH Hs]; [apply inv_init; exact Hn|].
  eapply inv_step; eauto.
Qed.

Lemma run_snoc c tr e : run c (tr ++ [e]) = fst (step (run c tr) e).
Proof. unfold run. rewrite fold_left_app. reflexivity. Qed.

(* the parent of every reachable system state is a state of the open pool model: everything
   proved about [run c tr] (Props/C01 ... C11) holds of it *)
Theorem sreach_is_run c n y : sreach c n y -> exists tr, par y = run c tr.
Proof.
  intros H. induction H as [|y a y' _ (tr & IH) Hs]; [exists []; reflexivity|].
  destruct a; cbn [sys_step] in Hs.
  - destruct (todo y); [discriminate|].
    destruct (step (par y) (EApply None None None None)) as [s' r] eqn:E. destruct r; try discriminate.
    inversion Hs; subst y'. exists (tr ++ [EApply None None None None]). rewrite run_snoc, <- IH, E. reflexivity.
  - destruct (taskq y); [discriminate|]. inversion Hs; subst y'. exists tr. exact IH.
  - destruct (nth_error (wk y) i) as [[?|]|]; try discriminate. destruct (inq y); [discriminate|].
    inversion Hs; subst y'. exists tr. exact IH.
  - destruct (nth_error (wk y) i) as [[?|]|]; try discriminate. inversion Hs; subst y'. exists tr. exact IH.
  - destruct (outq y) as [|[j p|j p t] r]; [discriminate| |]; inversion Hs; subst y'; cbn [par].
    + exists (tr ++ [EAck j None p]). rewrite run_snoc, <- IH. reflexivity.
    + exists (tr ++ [EReady j None true t]). rewrite run_snoc, <- IH. reflexivity.
Qed.

Lemma srun_reach c n : forall sched y y', sreach c n y -> srun y sched = Some y' -> sreach c n y'.
Proof.
  induction sched as [|a r IH]; intros y y' Hy; cbn [srun].
  - intros H; inversion H; subst; exact Hy.
  - destruct (sys_step y a) as [y1|] eqn:E; [|discriminate]. apply IH. eapply sr_step; eauto.
Qed.

Lemma measure_init c n : measure (sinit c n) = (6 * n)%nat.
Proof. unfold measure, sinit. cbn [todo taskq inq wk outq]. rewrite somes_repeat_none. cbn [length]. lia. Qed.

(* no schedule of the closed system is longer than six steps per job *)
Theorem every_schedule_is_short c n sched y :
  srun (sinit c n) sched = Some y -> (length sched <= 6 * n)%nat.
Proof. intros H. pose proof (schedules_are_finite _ _ _ H) as Hm. rewrite measure_init in Hm. lia. Qed.

Definition all_done (n : nat) (y : sys) : Prop :=
  length (jobs (par y)) = n
  /\ (forall j, 0 <= j < Z.of_nat n ->
        exists x, get_job (par y) j = Some x /\ ready x = true
                  /\ value x = Some (PValue (tag_of j)) /\ cb_succ x = 1 /\ cb_err x = 0)
  /\ (putlocks (par y) = true -> LaxSem.value (sem (par y)) = LaxSem.bound (sem (par y)))
  /\ todo y = 0%nat /\ taskq y = [] /\ inq y = [] /\ outq y = [] /\ somes (wk y) = [].

Lemma done_at_zero n y : YInv n y -> measure y = 0%nat -> all_done n y.
Proof.
  intros [Ht Hj Hm Hr Hnn Hs Hc Hw Hb] H0. unfold measure in H0.
  assert (E1 : todo y = 0%nat) by lia.
  assert (E2 : taskq y = []) by (apply length_zero_iff_nil; lia).
  assert (E3 : inq y = []) by (apply length_zero_iff_nil; lia).
  assert (E4 : somes (wk y) = []) by (apply length_zero_iff_nil; lia).
  assert (E5 : outq y = []) by (apply length_zero_iff_nil; lia).
  assert (Htk : tokens y = []) by (unfold tokens; rewrite E2, E3, E4, E5; reflexivity).
  unfold all_done. split; [lia|]. split; [|split; [|auto 10]].
  - intros j Hjr. destruct (nth_error (jobs (par y)) (Z.to_nat j)) as [x|] eqn:En.
    2:{ apply nth_error_None in En. lia. }
    assert (Hg : get_job (par y) j = Some x).
    { rewrite get_job_gj. unfold gj. destruct (j <? 0) eqn:E; [lia|exact En]. }
    exists x. split; [exact Hg|]. specialize (Ht j). rewrite Htk in Ht. unfold unres in Ht. rewrite Hg in Ht.
    destruct (ready x) eqn:Er; [|discriminate]. destruct (Hj j x Hg) as (_ & _ & _ & Hrd).
    destruct (Hrd Er) as (A & B & C). auto.
  - intros Ep. specialize (Hs Ep). rewrite Htk in Hs. cbn in Hs. lia.
Qed.

(* a state where nothing can move is the end: every job resolved once with its own result,
   every slot back, nothing left in any queue *)
Theorem completion c n y :
  1 <= c_n c -> sreach c n y -> (forall a, sys_step y a = None) -> all_done n y.
Proof.
  intros Hn Hr Hstuck. pose proof (sreach_inv _ _ _ Hn Hr) as Hi.
  apply done_at_zero; [exact Hi|]. destruct (measure y) eqn:Em; [reflexivity|exfalso].
  destruct (progress n y Hi) as (a & y' & Hs); [lia|]. rewrite Hstuck in Hs. discriminate.
Qed.

(* ... and from every reachable state a schedule to that end exists (no state is doomed) *)
Theorem can_always_complete c n : 1 <= c_n c -> forall y, sreach c n y ->
  exists sched y', srun y sched = Some y' /\ all_done n y'.
Proof.
  intros Hn. assert (H : forall m y, (measure y <= m)%nat -> sreach c n y ->
                                 exists sched y', srun y sched = Some y' /\ all_done n y').
  { induction m as [|m IH]; intros y Hm Hr; pose proof (sreach_inv _ _ _ Hn Hr) as Hi.
    - exists [], y. split; [reflexivity|]. apply done_at_zero; [exact Hi|lia].
    - destruct (measure y) eqn:Em.
      + exists [], y. split; [reflexivity|]. apply done_at_zero; assumption.
      + destruct (progress n y Hi) as (a & y1 & Hs); [lia|].
        pose proof (step_decreases _ _ _ Hs) as Hd.
        destruct (IH y1) as (sched & y' & Hrun & Hdone); [lia|eapply sr_step; eauto|].
        exists (a :: sched), y'. cbn [srun]. rewrite Hs. auto. }
  intros y Hr. apply (H (measure y)); [lia|exact Hr].
Qed.

(* every maximal schedule from the start ends in that state, within 6 n steps *)
Theorem every_maximal_schedule_completes c n sched y :
  1 <= c_n c -> srun (sinit c n) sched = Some y -> (forall a, sys_step y a = None) ->
  all_done n y /\ (length sched <= 6 * n)%nat.
Proof.
  intros Hn Hrun Hstuck. split.
  - apply (completion c n y Hn); [|exact Hstuck]. eapply srun_reach; [apply sr_init|exact Hrun].
  - eapply every_schedule_is_short; eauto.
Qed.

(* non-vacuity: a concrete maximal schedule, evaluated *)
Example closed_system_runs :
  let c := mkcfg 2 None None None None 1 true false in
  let r := auto_run 100 [0;1;2;3;4;5;6;0;3;5;1;2;4;6;0;1;2;3;4;5;6;0;3;5;1;2;4;6]%nat (sinit c 4) in
  srun (sinit c 4) (snd r) = Some (fst r) /\ measure (fst r) = 0%nat /\ length (snd r) = 24%nat.
Proof. vm_compute. auto. Qed.

(* slot conservation in the closed system: free slots + jobs in flight = the bound, always *)
Theorem slots_account c n y :
  1 <= c_n c -> sreach c n y -> putlocks (par y) = true ->
  LaxSem.value (sem (par y)) + Z.of_nat (length (tokens y)) = LaxSem.bound (sem (par y))
  /\ 0 <= LaxSem.value (sem (par y)).
Proof.
  intros Hn Hr Ep. destruct (sreach_inv _ _ _ Hn Hr) as [Ht Hj Hm Hrn Hnn Hs Hc Hw Hb].
  split; [exact (Hs Ep)|exact Hnn].
Qed.

(* ... and in-flight means unresolved: a job id is in exactly one of the queues / workers iff it
   is not resolved yet *)
Theorem in_flight_iff_unresolved c n y j :
  1 <= c_n c -> sreach c n y ->
  count_occ Z.eq_dec (tokens y) j = if unres (par y) j then 1%nat else 0%nat.
Proof. intros Hn Hr. destruct (sreach_inv _ _ _ Hn Hr) as [Ht _ _ _ _ _ _ _ _]. exact (Ht j). Qed.

Theorem all_slots_back c n sched y :
  1 <= c_n c -> srun (sinit c n) sched = Some y -> (forall a, sys_step y a = None) ->
  putlocks (par y) = true -> LaxSem.value (sem (par y)) = LaxSem.bound (sem (par y)).
Proof.
  intros Hn Hr Hs. exact (proj1 (proj2 (proj2 (proj1 (every_maximal_schedule_completes c n sched y Hn Hr Hs))))).
Qed.
