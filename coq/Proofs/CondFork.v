(* C17 with forks: the Condition / Event theorems hold for histories in which processes fork (also while holding the
   condition's lock, also in the middle of wait / notify), because SemLock.__init__ registers the after-fork reset of a
   lock object for every lock created on POSIX (Gen/G_semfork.semlock_after_fork_guard, read from the code on this run).
   Refuted without the reset, on the generated programs: the condition's RLock gets two holders; under a Lock,
   Condition.wait in the child raises ValueError. *)
From Coq Require Import ZArith List Bool Lia ZifyBool Arith.
From BV Require Import Model.SemProg Model.CondProg Model.SemFork Proofs.SemProgProofs Proofs.CondProofs Proofs.SemForkProofs.
From BV Require Gen.P_cond Gen.G_semfork.
Import ListNotations.
Open Scope Z_scope.

(* ---- the code: every lock object created on POSIX -- named or not, i.e. under every start method -- gets the hook *)
Lemma gen_after_fork_reset : forall named, resets_after_fork G_semfork.semlock_after_fork_guard named = true.
Proof. intros named. destruct named; reflexivity. Qed.

Lemma gen_after_fork_guard : G_semfork.semlock_after_fork_guard = GuardPosix.
Proof. reflexivity. Qed.

Lemma gen_child_runs_hooks : G_semfork.forked_child_runs_after_fork_hooks_before_target = true.
Proof. reflexivity. Qed.

(* the reset that the lock objects of a world get: [named] = do the primitives keep their names (start method) *)
Definition gen_reset (named : bool) : bool := resets_after_fork G_semfork.semlock_after_fork_guard named.

(* no counter reaches SEM_VALUE_MAX along the history *)
Fixpoint gen_frun_small (reset : bool) (g : sys) (acts : list act) : Prop :=
  small g /\
  match acts with
  | [] => True
  | AStep i go :: r =>
    match step P_cond.code g i go with Some (g1, _) => gen_frun_small reset g1 r | None => True end
  | AFork i sc :: r =>
    match fork P_cond.code reset g i sc with Some g1 => gen_frun_small reset g1 r | None => True end
  end.

(* states reachable by the generated programs with forks: any number of initial processes, any scripts, any history of
   steps and forks (every action enabled: any state reached at all is reached by such a history, SemForkProofs.
   frun_ok_prefix), children running any scripts of client calls *)
Definition FReach (g : sys) : Prop :=
  exists named lockrec k scripts acts es,
    Forall (Forall okcall) scripts /\ Forall (Forall okcall) (forked_of acts) /\
    gen_frun_small (gen_reset named) (gen_init lockrec k scripts) acts /\
    frun P_cond.code (gen_reset named) (gen_init lockrec k scripts) acts = (g, es, true).

Lemma frun_small_late_start : forall acts S T g es,
    frun P_cond.code true (mkS S T) acts = (g, es, true) ->
    gen_frun_small true (mkS S T) acts ->
    gen_run_small (mkS S (T ++ map (start P_cond.code [] []) (forked_of acts))) (steps_of acts).
Proof.
  induction acts as [|[i go|i sc] acts IH]; intros S T g es Hrun H;
    cbn [frun gen_frun_small gen_run_small steps_of forked_of map] in *.
  - destruct H as [H _]. split; [exact H|exact I].
  - destruct H as [Hs H]. split; [exact Hs|].
    destruct (step P_cond.code (mkS S T) i go) as [[g1 e]|] eqn:Es; [|discriminate].
    rewrite (step_frame _ _ _ _ _ _ _ (map (start P_cond.code [] []) (forked_of acts)) Es).
    destruct (frun P_cond.code true g1 acts) as [[g2 es2] ok2] eqn:Er. inversion Hrun; subst; clear Hrun.
    destruct g1 as [S1 T1]. cbn [sems thr]. eapply IH; [exact Er|exact H].
  - destruct H as [Hs H]. unfold fork in H, Hrun. cbn [thr sems] in H, Hrun.
    destruct (nth_error T i) as [t|]; [|discriminate].
    cbn [child_held] in H, Hrun. pose proof (IH _ _ _ _ Hrun H) as H2. rewrite <- app_assoc in H2. exact H2.
Qed.

(* a state reached with forks is a state reached without: the children are there from the start, holding nothing,
   and are not scheduled before their fork *)
Theorem freach_reach : forall g, FReach g -> Reach g.
Proof.
  intros g (named & lockrec & k & scripts & acts & es & Hs & Hf & Hsm & Hrun).
  unfold gen_reset in *. rewrite gen_after_fork_reset in *.
  exists lockrec, k, (scripts ++ forked_of acts), (steps_of acts), es, true.
  split; [apply Forall_app; split; assumption|].
  unfold gen_init in *. split.
  - unfold init_sys in *. rewrite map_app. eapply frun_small_late_start; eassumption.
  - apply fork_is_late_start. exact Hrun.
Qed.

(* hence every C17 theorem stated for [Reach] holds with forks; the ones about who holds what, spelled out *)
Theorem freach_inv : forall g, FReach g -> Inv g.
Proof. intros g H. apply reach_inv, freach_reach, H. Qed.

Theorem freach_mutex : forall g i j ti tj, FReach g ->
    nth_error (thr g) i = Some ti -> nth_error (thr g) j = Some tj ->
    0 < nth 0 (held ti) 0 -> 0 < nth 0 (held tj) 0 -> i = j.
Proof. intros g i j ti tj H. apply G_mutex, freach_reach, H. Qed.

Theorem freach_results : forall g t, FReach g -> In t (thr g) -> Forall okres (results t).
Proof. intros g t H. apply G_results, freach_reach, H. Qed.

(* ------------------------------------------------------------------ without the reset: refuted *)
(* the condition's lock is an RLock (lockrec = true); process 0 is inside notify (it holds the lock) and forks a child
   that calls notify: the child's copy of the lock says "mine", its acquire succeeds at once -- two holders *)
Definition two_holders_acts : list act := [AStep 0 true; AFork 0 [(1%nat, 0, 0)]; AStep 1 true].

Lemma fork_without_reset_two_holders :
  match frun P_cond.code false (gen_init true 1 [[(1%nat, 0, 0)]]) two_holders_acts with
  | (g, es, ok) =>
      ok = true /\ vv 0 g = 0 /\
      match nth_error (thr g) 0, nth_error (thr g) 1 with
      | Some t0, Some t1 => 0 < nth 0 (held t0) 0 /\ 0 < nth 0 (held t1) 0
      | _, _ => False
      end
  end.
Proof. vm_compute. repeat split; reflexivity. Qed.

(* with the reset the same history is not even executable: the child blocks on its first acquire *)
Lemma fork_with_reset_child_blocks :
  match frun P_cond.code true (gen_init true 1 [[(1%nat, 0, 0)]]) two_holders_acts with
  | (g, es, ok) => ok = false /\ length (thr g) = 2%nat /\ es = [(0%nat, 0%nat, 0, 1)]
  end.
Proof. vm_compute. repeat split; reflexivity. Qed.

(* the condition's lock is a Lock (lockrec = false); process 0 is inside notify and forks a child that calls wait()
   without a timeout; process 0 finishes; the child's acquire takes the semaphore, but its copy of the lock counts 2
   (1 inherited): wait() releases the lock `count` times, the second release is refused with ValueError.  The untimed
   wait returns an exception instead of True, and leaves an announced sleeper that will never acknowledge
   (sleeping_count = 1, woken_count = 0, nobody waiting) *)
Definition wait_raises_acts : list act :=
  [AStep 0 true; AFork 0 [(0%nat, 0, 0)]] ++ repeat (AStep 0 true) 4 ++ repeat (AStep 1 true) 4.

Lemma fork_without_reset_wait_raises :
  match frun P_cond.code false (gen_init false 1 [[(1%nat, 0, 0)]]) wait_raises_acts with
  | (g, es, ok) =>
      ok = true /\ vv 1 g = 1 /\ vv 2 g = 0 /\
      match nth_error (thr g) 1 with
      | Some t1 => fin t1 = true /\ results t1 = [((0%nat, 0, 0), E_VALUE)]
      | None => False
      end
  end.
Proof. vm_compute. repeat split; reflexivity. Qed.

(* ------------------------------------------------------------------ the generic theorems for the reset the code registers *)
Lemma gen_reset_true : forall named, gen_reset named = true.
Proof. intros named. apply gen_after_fork_reset. Qed.

Theorem G_fork_is_late_start : forall named code ss scripts acts g es,
    frun code (gen_reset named) (init_sys code ss scripts) acts = (g, es, true) ->
    run code (init_sys code ss (scripts ++ forked_of acts)) (steps_of acts) = (g, es, true).
Proof. intros named. rewrite gen_reset_true. intros code. apply fork_is_late_start. Qed.

Theorem G_rlock_mutex_fork : forall named code s ss scripts acts g es ok i j ti tj,
    recur (nth s ss dsem) = true -> val (nth s ss dsem) = 1 ->
    frun code (gen_reset named) (init_sys code ss scripts) acts = (g, es, ok) ->
    nth_error (thr g) i = Some ti -> nth_error (thr g) j = Some tj ->
    0 < hs s ti -> 0 < hs s tj -> i = j.
Proof. intros named. rewrite gen_reset_true. intros code. apply rlock_mutex_fork. Qed.

Theorem G_lock_mutex_fork : forall named code s ss scripts acts g es ok i j ti tj,
    recur (nth s ss dsem) = false -> val (nth s ss dsem) = 1 ->
    frun code (gen_reset named) (init_sys code ss scripts) acts = (g, es, ok) ->
    (forall t, In t (thr g) -> 0 <= hs s t) ->
    nth_error (thr g) i = Some ti -> nth_error (thr g) j = Some tj ->
    0 < hs s ti -> 0 < hs s tj -> i = j.
Proof. intros named. rewrite gen_reset_true. intros code. apply lock_mutex_fork. Qed.

Theorem G_sem_bound_fork : forall named code s ss scripts acts g es ok,
    recur (nth s ss dsem) = false -> 0 <= val (nth s ss dsem) ->
    frun code (gen_reset named) (init_sys code ss scripts) acts = (g, es, ok) ->
    0 <= vs s g /\ vs s g + sumz (hs s) (thr g) = val (nth s ss dsem).
Proof. intros named. rewrite gen_reset_true. intros code. apply sem_bound_fork. Qed.

Theorem G_fork_child_holds_nothing : forall named code g i sc g',
    fork code (gen_reset named) g i sc = Some g' ->
    exists c, thr g' = thr g ++ [c] /\ sems g' = sems g /\ forall s, hs s c = 0.
Proof. intros named. rewrite gen_reset_true. intros code. apply fork_child_holds_nothing. Qed.
