(* Forks in the SemProg world (Model/SemFork.v), for ANY program table.

   Main lemma [fork_is_late_start]: when the after-fork reset is registered, a history with forks is a plain
   schedule of a system in which the children exist from the start (with no lock held) and are simply not
   scheduled before their fork: same final state, same events.  Every theorem about [run] from an initial
   system therefore holds for histories with forks; the primitive theorems are restated below.
   Without the reset the child inherits the parent's hold counts: refuted in Proofs/CondFork.v on the
   generated programs. *)
From Coq Require Import ZArith List Bool Lia ZifyBool Arith.
From BV Require Import Model.SemProg Model.SemFork Proofs.SemProgProofs.
Import ListNotations.
Open Scope Z_scope.

Lemma resets_posix : forall named, resets_after_fork GuardPosix named = true.
Proof. reflexivity. Qed.

Lemma child_held_count : forall reset h s, nth s (child_held reset h) 0 = child_count reset (nth s h 0).
Proof. intros [|] h s; cbn [child_held child_count]; [destruct s; reflexivity|reflexivity]. Qed.

Lemma upd_app : forall A (l x : list A) i v, (i < length l)%nat -> upd (l ++ x) i v = upd l i v ++ x.
Proof.
  induction l as [|y l IH]; intros x [|i] v H; cbn [length] in H; try lia; cbn [app upd]; [reflexivity|].
  rewrite IH by lia. reflexivity.
Qed.

Section Generic.
Variable code : nat -> list instr.

(* a step reads and writes the semaphores and thread i only *)
Lemma step_local : forall g i go g' e,
    step code g i go = Some (g', e) ->
    exists t t',
      nth_error (thr g) i = Some t /\ thr g' = upd (thr g) i t' /\
      forall T2, nth_error T2 i = Some t ->
        step code (mkS (sems g) T2) i go = Some (mkS (sems g') (upd T2 i t'), e).
Proof.
  intros g i go g' e H. unfold step in H.
  destruct (nth_error (thr g) i) as [t|] eqn:Ht; [|discriminate].
  destruct (fin t) eqn:Hf; [discriminate|].
  destruct (nth_error (code (cid t)) (pc t)) as [ins|] eqn:Hi; [|discriminate].
  destruct ins as [s0 b tm d|s0|s0 d| | | | | | | | | | | | ]; try discriminate.
  - destruct go.
    + destruct (sem_acq (nth s0 (sems g) dsem) (nth s0 (held t) 0)) as [[sm' h']|] eqn:Ea.
      * inversion H; subst; clear H. eexists; eexists. split; [reflexivity|]. split; [reflexivity|].
        intros T2 H2. unfold step. cbn [thr sems]. rewrite H2, Hf, Hi, Ea. reflexivity.
      * destruct (flagv b (rg t)) eqn:Eb; [discriminate|].
        inversion H; subst; clear H. eexists; eexists. split; [reflexivity|]. split; [reflexivity|].
        intros T2 H2. unfold step. cbn [thr sems]. rewrite H2, Hf, Hi, Ea, Eb. reflexivity.
    + destruct (flagv b (rg t) && flagv tm (rg t)) eqn:Eb; [|discriminate].
      inversion H; subst; clear H. eexists; eexists. split; [reflexivity|]. split; [reflexivity|].
      intros T2 H2. unfold step. cbn [thr sems]. rewrite H2, Hf, Hi, Eb. reflexivity.
  - destruct go; [|discriminate].
    destruct (sem_rel (nth s0 (sems g) dsem) (nth s0 (held t) 0)) as [[sm' h'] e'] eqn:Er.
    destruct (e' =? 0) eqn:Ee.
    + inversion H; subst; clear H. eexists; eexists. split; [reflexivity|]. split; [reflexivity|].
      intros T2 H2. unfold step. cbn [thr sems]. rewrite H2, Hf, Hi, Er, Ee. reflexivity.
    + inversion H; subst; clear H. eexists; eexists. split; [reflexivity|]. split; [reflexivity|].
      intros T2 H2. unfold step. cbn [thr sems]. rewrite H2, Hf, Hi, Er, Ee. reflexivity.
  - destruct go; [|discriminate].
    inversion H; subst; clear H. eexists; eexists. split; [reflexivity|]. split; [reflexivity|].
    intros T2 H2. unfold step. cbn [thr sems]. rewrite H2, Hf, Hi. reflexivity.
Qed.

(* ... hence threads appended behind the thread list do not matter, and are not touched *)
Lemma step_frame : forall S T i go g' e X,
    step code (mkS S T) i go = Some (g', e) ->
    step code (mkS S (T ++ X)) i go = Some (mkS (sems g') (thr g' ++ X), e).
Proof.
  intros S T i go g' e X H.
  destruct (step_local _ _ _ _ _ H) as (t & t' & Ht & Hthr & Hloc). cbn [thr sems] in *.
  assert (Hlt : (i < length T)%nat) by (apply nth_error_Some; congruence).
  rewrite Hthr, <- upd_app by exact Hlt. apply Hloc. rewrite nth_error_app1 by exact Hlt. exact Ht.
Qed.

(* ------------------------------------------------------------------ a fork with the reset = a late start *)
Theorem fork_is_late_start_gen : forall acts S T g es,
    frun code true (mkS S T) acts = (g, es, true) ->
    run code (mkS S (T ++ map (start code [] []) (forked_of acts))) (steps_of acts) = (g, es, true).
Proof.
  induction acts as [|[i go|i sc] acts IH]; intros S T g es H; cbn [frun steps_of forked_of run map] in *.
  - inversion H; subst. rewrite app_nil_r. reflexivity.
  - destruct (step code (mkS S T) i go) as [[g1 e]|] eqn:Es; [|discriminate].
    destruct (frun code true g1 acts) as [[g2 es2] ok2] eqn:Er. inversion H; subst; clear H.
    rewrite (step_frame _ _ _ _ _ _ (map (start code [] []) (forked_of acts)) Es).
    destruct g1 as [S1 T1]. cbn [sems thr]. rewrite (IH _ _ _ _ Er). reflexivity.
  - unfold fork in H. cbn [thr sems] in H. destruct (nth_error T i) as [t|]; [|discriminate].
    cbn [child_held] in H. apply IH in H. rewrite <- app_assoc in H. exact H.
Qed.

Theorem fork_is_late_start : forall ss scripts acts g es,
    frun code true (init_sys code ss scripts) acts = (g, es, true) ->
    run code (init_sys code ss (scripts ++ forked_of acts)) (steps_of acts) = (g, es, true).
Proof.
  intros ss scripts acts g es H. unfold init_sys in *. rewrite map_app. apply fork_is_late_start_gen. exact H.
Qed.

(* every result of frun is the result of a history all of whose actions were enabled (its successful prefix) *)
Lemma frun_ok_prefix : forall reset acts g0 g es ok,
    frun code reset g0 acts = (g, es, ok) -> exists acts', frun code reset g0 acts' = (g, es, true).
Proof.
  intros reset. induction acts as [|[i go|i sc] acts IH]; intros g0 g es ok H; cbn [frun] in H.
  - inversion H; subst. exists []. reflexivity.
  - destruct (step code g0 i go) as [[g1 e]|] eqn:Es.
    + destruct (frun code reset g1 acts) as [[g2 es2] ok2] eqn:Er. inversion H; subst; clear H.
      destruct (IH _ _ _ _ Er) as [acts' Ha]. exists (AStep i go :: acts'). cbn [frun]. rewrite Es, Ha. reflexivity.
    + inversion H; subst. exists []. reflexivity.
  - destruct (fork code reset g0 i sc) as [g1|] eqn:Ef.
    + destruct (IH _ _ _ _ H) as [acts' Ha]. exists (AFork i sc :: acts'). cbn [frun]. rewrite Ef. exact Ha.
    + inversion H; subst. exists []. reflexivity.
Qed.

(* ------------------------------------------------------------------ the primitive theorems, with forks *)
Theorem rlock_mutex_fork : forall s ss scripts acts g es ok i j ti tj,
    recur (nth s ss dsem) = true -> val (nth s ss dsem) = 1 ->
    frun code true (init_sys code ss scripts) acts = (g, es, ok) ->
    nth_error (thr g) i = Some ti -> nth_error (thr g) j = Some tj ->
    0 < hs s ti -> 0 < hs s tj -> i = j.
Proof.
  intros s ss scripts acts g es ok i j ti tj Hr Hv H.
  destruct (frun_ok_prefix _ _ _ _ _ _ H) as [acts' H']. apply fork_is_late_start in H'.
  eapply rlock_mutex; eauto.
Qed.

Theorem sem_bound_fork : forall s ss scripts acts g es ok,
    recur (nth s ss dsem) = false -> 0 <= val (nth s ss dsem) ->
    frun code true (init_sys code ss scripts) acts = (g, es, ok) ->
    0 <= vs s g /\ vs s g + sumz (hs s) (thr g) = val (nth s ss dsem).
Proof.
  intros s ss scripts acts g es ok Hr Hv H.
  destruct (frun_ok_prefix _ _ _ _ _ _ H) as [acts' H']. apply fork_is_late_start in H'.
  eapply sem_bound; eauto.
Qed.

Theorem lock_mutex_fork : forall s ss scripts acts g es ok i j ti tj,
    recur (nth s ss dsem) = false -> val (nth s ss dsem) = 1 ->
    frun code true (init_sys code ss scripts) acts = (g, es, ok) ->
    (forall t, In t (thr g) -> 0 <= hs s t) ->
    nth_error (thr g) i = Some ti -> nth_error (thr g) j = Some tj ->
    0 < hs s ti -> 0 < hs s tj -> i = j.
Proof.
  intros s ss scripts acts g es ok i j ti tj Hr Hv H.
  destruct (frun_ok_prefix _ _ _ _ _ _ H) as [acts' H']. apply fork_is_late_start in H'.
  eapply lock_mutex; eauto.
Qed.

(* the child of a fork with the reset holds nothing *)
Lemma fork_child_holds_nothing : forall g i sc g',
    fork code true g i sc = Some g' ->
    exists c, thr g' = thr g ++ [c] /\ sems g' = sems g /\ forall s, hs s c = 0.
Proof.
  intros g i sc g' H. unfold fork in H. destruct (nth_error (thr g) i) as [t|]; [|discriminate].
  inversion H; subst; clear H. eexists. split; [reflexivity|]. split; [reflexivity|].
  intros s. unfold hs. rewrite held_start. cbn [child_held]. destruct s; reflexivity.
Qed.

End Generic.

(* the semantics with forks depends on the program table pointwise *)
Lemma frun_ext : forall code1 code2 reset, (forall c, code1 c = code2 c) ->
    forall acts g, frun code1 reset g acts = frun code2 reset g acts.
Proof.
  intros code1 code2 reset Hext. induction acts as [|[i go|i sc] acts IH]; intros g; cbn [frun]; [reflexivity| |].
  - rewrite (step_ext code1 code2 Hext). destruct (step code2 g i go) as [[g1 e]|]; [|reflexivity].
    rewrite IH. reflexivity.
  - unfold fork. destruct (nth_error (thr g) i) as [t|]; [|reflexivity].
    rewrite (start_ext code1 code2 Hext). apply IH.
Qed.
