(* C15, atomicity across forks (Model/SharedFork.v): with the after-fork reset of the lock object, for any number of
   updater processes, any iteration counts and ANY history of steps and forks -- also forks from inside the
   `with v.get_lock():` block -- no update is lost, at most one process is inside, a process outside cannot step while
   one is inside (the forked child blocks until the parent releases), and there is no deadlock.  The lock is the C17
   primitive (SemProg.sem_acq / sem_rel over one shared kernel semaphore and per-process ownership counts), not the
   ideal lock of SharedMemLockProofs.v.  Without the reset: refuted by computed histories. *)
From Coq Require Import ZArith List Bool Lia ZifyBool Arith.
From BV Require Import Lib.PyVal Model.Heap Model.SharedMem Model.SharedFork Proofs.SharedMemLockProofs.
From BV Require Model.SemProg Model.SemFork Model.CondProg Gen.G_semfork.
Import ListNotations.
Open Scope Z_scope.

(* ---- the code: every lock object created on POSIX, named or not, registers the reset *)
Lemma gen_fork_reset : forall named, SemFork.resets_after_fork G_semfork.semlock_after_fork_guard named = true.
Proof. intros named. destruct named; reflexivity. Qed.

Lemma gen_fork_hooks_run : G_semfork.forked_child_runs_after_fork_hooks_before_target = true.
Proof. reflexivity. Qed.

Lemma rlock0_is_ctor : rlock0 = CondProg.ctor_RLock.
Proof. reflexivity. Qed.

(* ---- sums over the process list *)
Fixpoint fsum (f : fthread -> Z) (l : list fthread) : Z :=
  match l with [] => 0 | t :: r => f t + fsum f r end.

Lemma fsum_set_nth f l i t x : nth_error l i = Some t -> fsum f (set_nth l i x) = fsum f l - f t + f x.
Proof.
  revert i. induction l as [|y r IH]; intros [|i]; cbn [nth_error set_nth fsum]; try discriminate.
  - intros H; inversion H; subst. lia.
  - intros H. rewrite (IH _ H). lia.
Qed.

Lemma fsum_app f l1 l2 : fsum f (l1 ++ l2) = fsum f l1 + fsum f l2.
Proof. induction l1 as [|y r IH]; cbn [app fsum]; [lia|]. rewrite IH. lia. Qed.

Lemma fsum_nonneg f l : (forall t, 0 <= f t) -> 0 <= fsum f l.
Proof. intros H. induction l as [|y r IH]; cbn [fsum]; [lia|]. pose proof (H y). lia. Qed.

Lemma fsum_two f l i j a b : (forall t, 0 <= f t) ->
  nth_error l i = Some a -> nth_error l j = Some b -> i <> j -> f a + f b <= fsum f l.
Proof.
  intros Hnn. revert i j. induction l as [|y r IH]; intros [|i] [|j] Ha Hb Hne; cbn [nth_error fsum] in *; try discriminate; try congruence.
  - inversion Ha; subst.
    assert (f b <= fsum f r).
    { clear - Hnn Hb. revert j Hb. induction r as [|z r IH]; intros [|j] Hb; cbn [nth_error fsum] in *; try discriminate.
      - inversion Hb; subst. pose proof (fsum_nonneg f r Hnn). lia.
      - pose proof (IH _ Hb). pose proof (Hnn z). lia. }
    lia.
  - inversion Hb; subst.
    assert (f a <= fsum f r).
    { clear - Hnn Ha. revert i Ha. induction r as [|z r IH]; intros [|i] Ha; cbn [nth_error fsum] in *; try discriminate.
      - inversion Ha; subst. pose proof (fsum_nonneg f r Hnn). lia.
      - pose proof (IH _ Ha). pose proof (Hnn z). lia. }
    lia.
  - pose proof (IH i j Ha Hb ltac:(congruence)). pose proof (Hnn y). lia.
Qed.

Lemma fsum_one f l i a : (forall t, 0 <= f t) -> nth_error l i = Some a -> f a <= fsum f l.
Proof.
  intros Hnn. revert i. induction l as [|y r IH]; intros [|i] Ha; cbn [nth_error fsum] in *; try discriminate.
  - inversion Ha; subst. pose proof (fsum_nonneg f r Hnn). lia.
  - pose proof (IH _ Ha). pose proof (Hnn y). lia.
Qed.

Lemma In_set_nth_inv {A} (l : list A) i v x :
  In x (set_nth l i v) -> x = v \/ exists j, j <> i /\ nth_error l j = Some x.
Proof.
  revert i. induction l as [|y r IH]; intros [|i] H; cbn [set_nth In] in H; try contradiction.
  - destruct H as [H|H]; [left; congruence|].
    right. apply In_nth_error in H as [j Hj]. exists (S j). split; [lia|exact Hj].
  - destruct H as [H|H].
    + right. exists O. split; [lia|]. cbn. congruence.
    + destruct (IH _ H) as [E|[j [Hne Hj]]]; [left; exact E|].
      right. exists (S j). split; [lia|exact Hj].
Qed.

(* ---- the invariant *)
Definition fcontrib (t : fthread) : Z :=
  Z.of_nat (ft_k t) - Z.of_nat (ft_left t) + (if wrote (ft_pc t) then 1 else 0).
Definition ins (t : fthread) : Z := if Nat.eqb (ft_pc t) 0 then 0 else 1.
Definition ftotal (l : list fthread) : Z := fsum fcontrib l.

Lemma ins_nonneg t : 0 <= ins t.
Proof. unfold ins. destruct (Nat.eqb (ft_pc t) 0); lia. Qed.

(* per process: its copy of the lock object counts exactly the depth of `with`/accessor nesting it is at *)
Definition ftinv (v : Z) (t : fthread) : Prop :=
  (ft_pc t < 8)%nat /\
  ft_cnt t = Z.of_nat (depth_at (ft_pc t)) /\
  (ft_pc t <> 0%nat -> (0 < ft_left t)%nat) /\
  (holds_read (ft_pc t) = true -> ft_reg t = v) /\
  (ft_left t <= ft_k t)%nat.

Definition FInv (v0 : Z) (w : fworld) : Prop :=
  SemProg.recur (fw_sem w) = true /\
  0 <= SemProg.val (fw_sem w) /\
  SemProg.val (fw_sem w) + fsum ins (fw_threads w) = 1 /\       (* semaphore taken <-> exactly one process inside *)
  (forall t, In t (fw_threads w) -> ftinv (fw_val w) t) /\
  fw_val w = v0 + ftotal (fw_threads w).

Lemma finit_inv v0 n k : FInv v0 (fworld_init v0 n k).
Proof.
  unfold FInv, fworld_init. cbn [fw_sem fw_val fw_threads rlock0 SemProg.recur SemProg.val].
  assert (Hs : forall f, f (mk_ft 0 0 k k 0) = 0 -> fsum f (repeat (mk_ft 0 0 k k 0) n) = 0).
  { intros f Hf. induction n as [|m IH]; cbn [repeat fsum]; [reflexivity|]. rewrite Hf, IH. reflexivity. }
  split; [reflexivity|]. split; [lia|]. split; [rewrite Hs by reflexivity; lia|]. split.
  - intros t Ht. apply repeat_spec in Ht. subst t. unfold ftinv. cbn [ft_pc ft_cnt ft_left ft_reg ft_k depth_at holds_read].
    repeat split; try lia; try discriminate; try (intros H; exfalso; apply H; reflexivity).
  - unfold ftotal. rewrite Hs; [lia|]. unfold fcontrib. cbn. lia.
Qed.

(* whoever is inside: every other process is outside *)
Lemma fothers_outside v0 w i t : FInv v0 w -> nth_error (fw_threads w) i = Some t -> ft_pc t <> 0%nat ->
  forall j u, j <> i -> nth_error (fw_threads w) j = Some u -> ft_pc u = 0%nat.
Proof.
  intros (_ & Hv & Hsum & _ & _) Hi Hpc j u Hne Hj.
  pose proof (fsum_two ins _ i j t u ins_nonneg Hi Hj ltac:(congruence)) as H2.
  unfold ins in H2 at 1 2. destruct (Nat.eqb (ft_pc t) 0) eqn:Et; [apply Nat.eqb_eq in Et; contradiction|].
  destruct (Nat.eqb (ft_pc u) 0) eqn:Eu; [apply Nat.eqb_eq in Eu; exact Eu|lia].
Qed.

Lemma finside_sem_taken v0 w i t : FInv v0 w -> nth_error (fw_threads w) i = Some t -> ft_pc t <> 0%nat ->
  SemProg.val (fw_sem w) = 0.
Proof.
  intros (_ & Hv & Hsum & _ & _) Hi Hpc.
  pose proof (fsum_one ins _ i t ins_nonneg Hi) as H1. unfold ins in H1 at 1.
  destruct (Nat.eqb (ft_pc t) 0) eqn:Et; [apply Nat.eqb_eq in Et; contradiction|lia].
Qed.

(* re-establishing the invariant after process i changed to t', the semaphore to s', the value to val' *)
Lemma fclose v0 w i t s' val' t' :
  FInv v0 w -> nth_error (fw_threads w) i = Some t ->
  SemProg.recur s' = true -> 0 <= SemProg.val s' ->
  SemProg.val s' + ins t' = SemProg.val (fw_sem w) + ins t ->
  ftinv val' t' ->
  val' = fw_val w - fcontrib t + fcontrib t' ->
  (val' = fw_val w \/ ft_pc t <> 0%nat) ->
  FInv v0 (mk_fw s' val' (set_nth (fw_threads w) i t')).
Proof.
  intros HW Hi Hr Hv Hins Ht' Hval Hch. pose proof HW as (_ & _ & Hsum & HT & HV).
  unfold FInv. cbn [fw_sem fw_val fw_threads].
  split; [exact Hr|]. split; [exact Hv|]. split; [rewrite (fsum_set_nth ins _ _ _ _ Hi); lia|]. split.
  - intros u Hu. destruct (In_set_nth_inv _ _ _ _ Hu) as [->|[j [Hne Hj]]]; [exact Ht'|].
    pose proof (HT u (nth_error_In _ _ Hj)) as (A & B & C & D & E).
    unfold ftinv. repeat split; try assumption.
    intros Hrd. destruct Hch as [->|Hpc]; [apply D; exact Hrd|].
    rewrite (fothers_outside v0 w i t HW Hi Hpc j u Hne Hj) in Hrd. discriminate.
  - unfold ftotal in *. rewrite (fsum_set_nth fcontrib _ _ _ _ Hi). lia.
Qed.

Lemma fstep_inv v0 w i w' : FInv v0 w -> fstep incr_prog w i = Some w' -> FInv v0 w'.
Proof.
  intros HW Hs. pose proof HW as (Hrec & Hv & Hsum & HT & HV).
  unfold fstep in Hs. destruct (nth_error (fw_threads w) i) as [t|] eqn:Hi; [|discriminate].
  destruct (Nat.eqb (ft_left t) 0) eqn:El; [discriminate|]. apply Nat.eqb_neq in El.
  destruct (HT t (nth_error_In _ _ Hi)) as (Hlt & Hcnt & Hn0 & Hrd & Hk).
  destruct t as [pc reg left k cnt]. cbn [ft_pc ft_reg ft_left ft_k ft_cnt] in *.
  unfold SemProg.sem_acq, SemProg.sem_rel, fadvance in Hs. cbn [ft_pc ft_reg ft_left ft_k ft_cnt] in Hs. rewrite Hrec in Hs.
  destruct pc as [|[|[|[|[|[|[|[|pc]]]]]]]]; [| | | | | | | |lia];
    cbn [nth_error incr_prog depth_at] in Hs, Hcnt; subst cnt; cbn [andb Z.of_nat Z.ltb Z.leb Z.compare Pos.compare Pos.compare_cont length incr_prog Nat.eqb Pos.of_succ_nat Pos.succ] in Hs.
  - (* 0: outer Acq -- needs the semaphore *)
    destruct (0 <? SemProg.val (fw_sem w)) eqn:Ev; [|discriminate]. injection Hs as <-.
    eapply fclose; [exact HW|exact Hi|cbn [SemProg.recur SemProg.set_val]; exact Hrec|cbn [SemProg.val SemProg.set_val]; lia| | | |left; reflexivity].
    + unfold ins. cbn. lia.
    + unfold ftinv. cbn. repeat split; try lia; try discriminate.
    + unfold fcontrib. cbn. lia.
  - (* 1: inner Acq of getvalue -- recursive, the process's own count says "mine" *)
    injection Hs as <-.
    eapply fclose; [exact HW|exact Hi|exact Hrec|exact Hv| | | |left; reflexivity].
    + unfold ins. cbn. lia.
    + unfold ftinv. cbn. repeat split; try lia; try discriminate.
    + unfold fcontrib. cbn. lia.
  - (* 2: Read *)
    injection Hs as <-.
    eapply fclose; [exact HW|exact Hi|exact Hrec|exact Hv| | | |left; reflexivity].
    + unfold ins. cbn. lia.
    + unfold ftinv. cbn. repeat split; try lia; try discriminate.
    + unfold fcontrib. cbn. lia.
  - (* 3: Rel of getvalue *)
    injection Hs as <-.
    eapply fclose; [exact HW|exact Hi|exact Hrec|exact Hv| | | |left; reflexivity].
    + unfold ins. cbn. lia.
    + unfold ftinv. cbn. repeat split; try lia; try discriminate. intros _. apply Hrd. reflexivity.
    + unfold fcontrib. cbn. lia.
  - (* 4: inner Acq of setvalue *)
    injection Hs as <-.
    eapply fclose; [exact HW|exact Hi|exact Hrec|exact Hv| | | |left; reflexivity].
    + unfold ins. cbn. lia.
    + unfold ftinv. cbn. repeat split; try lia; try discriminate. intros _. apply Hrd. reflexivity.
    + unfold fcontrib. cbn. lia.
  - (* 5: Write *)
    injection Hs as <-. pose proof (Hrd eq_refl) as Hreg.
    eapply fclose; [exact HW|exact Hi|exact Hrec|exact Hv| | | |right; cbn; lia].
    + unfold ins. cbn. lia.
    + unfold ftinv. cbn. repeat split; try lia; try discriminate.
    + unfold fcontrib. cbn. lia.
  - (* 6: Rel of setvalue *)
    injection Hs as <-.
    eapply fclose; [exact HW|exact Hi|exact Hrec|exact Hv| | | |left; reflexivity].
    + unfold ins. cbn. lia.
    + unfold ftinv. cbn. repeat split; try lia; try discriminate.
    + unfold fcontrib. cbn. lia.
  - (* 7: outer Rel -- the count drops to 0, the semaphore is posted; the iteration is complete *)
    injection Hs as <-. specialize (Hn0 ltac:(lia)).
    eapply fclose; [exact HW|exact Hi|cbn [SemProg.recur SemProg.set_val]; exact Hrec|cbn [SemProg.val SemProg.set_val]; lia| | | |left; reflexivity].
    + unfold ins. cbn. lia.
    + unfold ftinv. cbn. repeat split; try lia; try discriminate; try (intros H; exfalso; apply H; reflexivity).
    + unfold fcontrib. cbn. lia.
Qed.

(* a fork WITH the reset: the child is outside, owns nothing, has done nothing *)
Lemma ffork_inv v0 w i k w' : FInv v0 w -> ffork true w i k = Some w' -> FInv v0 w'.
Proof.
  intros (Hrec & Hv & Hsum & HT & HV) Hf. unfold ffork in Hf.
  destruct (nth_error (fw_threads w) i) as [t|]; [|discriminate]. injection Hf as <-.
  unfold FInv. cbn [fw_sem fw_val fw_threads SemFork.child_count].
  split; [exact Hrec|]. split; [exact Hv|]. split; [rewrite fsum_app; cbn [fsum]; unfold ins at 2; cbn; lia|]. split.
  - intros u Hu. apply in_app_or in Hu as [Hu|[<-|[]]]; [apply HT; exact Hu|].
    unfold ftinv. cbn. repeat split; try lia; try discriminate; try (intros H; exfalso; apply H; reflexivity).
  - unfold ftotal in *. rewrite fsum_app. cbn [fsum]. unfold fcontrib at 2. cbn. lia.
Qed.

Lemma fdo_inv v0 w a w' : FInv v0 w -> fdo true incr_prog w a = Some w' -> FInv v0 w'.
Proof. destruct a as [i|i k]; cbn [fdo]; intros HW H; [eapply fstep_inv|eapply ffork_inv]; eassumption. Qed.

Lemma frun_inv v0 acts : forall w, FInv v0 w -> FInv v0 (frun true incr_prog w acts).
Proof.
  induction acts as [|a r IH]; intros w HW; cbn [frun]; [exact HW|].
  destruct (fdo true incr_prog w a) as [w'|] eqn:E; [apply IH; eapply fdo_inv; eassumption|apply IH; exact HW].
Qed.

(* ---- the theorems: any number of initial updaters, any iteration counts, any history of steps and forks *)
Lemma ftotal_done l : (forall t, In t l -> ft_left t = 0%nat /\ ft_pc t = 0%nat) -> ftotal l = started l.
Proof.
  unfold ftotal. induction l as [|t r IH]; intros H; cbn [fsum started]; [reflexivity|].
  rewrite IH by (intros u Hu; apply H; right; exact Hu).
  destruct (H t (or_introl eq_refl)) as [Hl Hp]. unfold fcontrib. rewrite Hl, Hp. cbn [wrote]. lia.
Qed.

Theorem fork_no_lost_update n k v0 acts :
  let w := frun true incr_prog (fworld_init v0 n k) acts in
  fw_val w = v0 + ftotal (fw_threads w) /\
  (fall_done w = true -> fw_val w = v0 + started (fw_threads w)).
Proof.
  intros w. pose proof (frun_inv v0 acts _ (finit_inv v0 n k)) as (_ & _ & _ & HT & HV). fold w in HT, HV.
  split; [exact HV|]. intros Hd. rewrite HV. f_equal. apply ftotal_done.
  intros t Ht. unfold fall_done in Hd. rewrite forallb_forall in Hd. specialize (Hd t Ht). apply Nat.eqb_eq in Hd.
  split; [exact Hd|]. destruct (HT t Ht) as (_ & _ & Hn0 & _).
  destruct (Nat.eq_dec (ft_pc t) 0) as [E|E]; [exact E|]. specialize (Hn0 E). lia.
Qed.

Theorem fork_mutual_exclusion n k v0 acts i j ti tj :
  let w := frun true incr_prog (fworld_init v0 n k) acts in
  nth_error (fw_threads w) i = Some ti -> nth_error (fw_threads w) j = Some tj ->
  ft_pc ti <> 0%nat -> ft_pc tj <> 0%nat -> i = j.
Proof.
  intros w Hi Hj Pi Pj. pose proof (frun_inv v0 acts _ (finit_inv v0 n k)) as HW. fold w in HW.
  destruct (Nat.eq_dec i j) as [E|E]; [exact E|exfalso].
  apply Pj. eapply (fothers_outside v0 w i ti HW Hi Pi j tj); [congruence|exact Hj].
Qed.

(* while process i is inside, no other process can step (a forked child blocks until the parent releases) and
   whatever another process does -- it can only fork -- leaves the value, the semaphore and process i alone *)
Theorem fork_others_blocked n k v0 acts i ti :
  let w := frun true incr_prog (fworld_init v0 n k) acts in
  nth_error (fw_threads w) i = Some ti -> ft_pc ti <> 0%nat ->
  (forall j, j <> i -> fstep incr_prog w j = None) /\
  (forall j k' w', fdo true incr_prog w (FFork j k') = Some w' ->
                   fw_val w' = fw_val w /\ fw_sem w' = fw_sem w /\ nth_error (fw_threads w') i = Some ti).
Proof.
  intros w Hi Pi. pose proof (frun_inv v0 acts _ (finit_inv v0 n k)) as HW. fold w in HW. split.
  - intros j Hne. unfold fstep. destruct (nth_error (fw_threads w) j) as [u|] eqn:Hj; [|reflexivity].
    destruct (Nat.eqb (ft_left u) 0); [reflexivity|].
    pose proof (fothers_outside v0 w i ti HW Hi Pi j u Hne Hj) as Hu.
    pose proof (finside_sem_taken v0 w i ti HW Hi Pi) as Hz.
    destruct HW as (Hrec & _ & _ & HT & _).
    destruct (HT u (nth_error_In _ _ Hj)) as (_ & Hcnt & _).
    rewrite Hu in Hcnt |- *. cbn [nth_error incr_prog depth_at Z.of_nat] in Hcnt |- *.
    unfold SemProg.sem_acq. rewrite Hrec, Hcnt, Hz. reflexivity.
  - intros j k' w' Hf. cbn [fdo] in Hf. unfold ffork in Hf.
    destruct (nth_error (fw_threads w) j) as [u|]; [|discriminate]. injection Hf as <-. cbn [fw_val fw_sem fw_threads].
    split; [reflexivity|]. split; [reflexivity|].
    rewrite nth_error_app1; [exact Hi|]. apply nth_error_Some. congruence.
Qed.

(* while some process is unfinished some process can step *)
Theorem fork_no_deadlock n k v0 acts :
  let w := frun true incr_prog (fworld_init v0 n k) acts in
  fall_done w = false -> exists i w', fstep incr_prog w i = Some w'.
Proof.
  intros w Hnd. pose proof (frun_inv v0 acts _ (finit_inv v0 n k)) as HW. fold w in HW.
  pose proof HW as (Hrec & Hv & Hsum & HT & _).
  (* is some process inside? *)
  destruct (existsb finside (fw_threads w)) eqn:Ein.
  - apply existsb_exists in Ein as [t [Ht Hin]]. apply In_nth_error in Ht as [i Hi].
    unfold finside in Hin. apply negb_true_iff, Nat.eqb_neq in Hin.
    destruct (HT t (nth_error_In _ _ Hi)) as (Hlt & Hcnt & Hn0 & _). specialize (Hn0 Hin).
    exists i. unfold fstep. rewrite Hi. destruct (Nat.eqb (ft_left t) 0) eqn:El; [apply Nat.eqb_eq in El; lia|].
    unfold SemProg.sem_acq, SemProg.sem_rel. rewrite Hrec, Hcnt.
    destruct (ft_pc t) as [|[|[|[|[|[|[|[|pc]]]]]]]]; try lia; try (exfalso; apply Hin; reflexivity);
      cbn [nth_error incr_prog depth_at Z.of_nat Pos.of_succ_nat Pos.succ andb Z.ltb Z.leb Z.compare Pos.compare Pos.compare_cont Z.eqb];
      eexists; reflexivity.
  - (* nobody inside: the semaphore is free, any unfinished process can take it *)
    assert (Hall : forall t, In t (fw_threads w) -> ft_pc t = 0%nat).
    { intros t Ht. destruct (Nat.eq_dec (ft_pc t) 0) as [E|E]; [exact E|exfalso].
      assert (existsb finside (fw_threads w) = true); [|congruence].
      apply existsb_exists. exists t. split; [exact Ht|]. unfold finside. apply negb_true_iff, Nat.eqb_neq. exact E. }
    assert (Hz : fsum ins (fw_threads w) = 0).
    { clear - Hall. induction (fw_threads w) as [|x r IH]; cbn [fsum]; [reflexivity|].
      rewrite IH by (intros t Ht; apply Hall; right; exact Ht). unfold ins. rewrite (Hall x (or_introl eq_refl)). reflexivity. }
    assert (exists j u, nth_error (fw_threads w) j = Some u /\ ft_left u <> 0%nat) as [j [u [Hj Hl]]].
    { unfold fall_done in Hnd. clear - Hnd. induction (fw_threads w) as [|x r IH]; cbn in Hnd; [discriminate|].
      destruct (Nat.eqb (ft_left x) 0) eqn:E; cbn in Hnd.
      - destruct (IH Hnd) as [j [u [Hj Hl]]]. exists (S j), u. split; assumption.
      - exists O, x. split; [reflexivity|apply Nat.eqb_neq; assumption]. }
    destruct (HT u (nth_error_In _ _ Hj)) as (_ & Hcnt & _).
    pose proof (Hall u (nth_error_In _ _ Hj)) as Hpc. rewrite Hpc in Hcnt. cbn [depth_at Z.of_nat] in Hcnt.
    exists j. unfold fstep. rewrite Hj. destruct (Nat.eqb (ft_left u) 0) eqn:El; [apply Nat.eqb_eq in El; contradiction|].
    rewrite Hpc. cbn [nth_error incr_prog]. unfold SemProg.sem_acq. rewrite Hrec, Hcnt.
    replace (0 <? SemProg.val (fw_sem w)) with true by lia. cbn [andb Z.ltb Z.compare]. eexists; reflexivity.
Qed.

(* ---- the same theorems for the reset that the code registers (any start method: named or unnamed primitive) *)
Definition gen_reset (named : bool) : bool := SemFork.resets_after_fork G_semfork.semlock_after_fork_guard named.

Lemma gen_reset_true named : gen_reset named = true.
Proof. apply gen_fork_reset. Qed.

Theorem G_fork_no_lost_update named n k v0 acts :
  let w := frun (gen_reset named) incr_prog (fworld_init v0 n k) acts in
  fw_val w = v0 + ftotal (fw_threads w) /\
  (fall_done w = true -> fw_val w = v0 + started (fw_threads w)).
Proof. rewrite gen_reset_true. apply fork_no_lost_update. Qed.

Theorem G_fork_mutual_exclusion named n k v0 acts i j ti tj :
  let w := frun (gen_reset named) incr_prog (fworld_init v0 n k) acts in
  nth_error (fw_threads w) i = Some ti -> nth_error (fw_threads w) j = Some tj ->
  ft_pc ti <> 0%nat -> ft_pc tj <> 0%nat -> i = j.
Proof. rewrite gen_reset_true. apply fork_mutual_exclusion. Qed.

Theorem G_fork_others_blocked named n k v0 acts i ti :
  let w := frun (gen_reset named) incr_prog (fworld_init v0 n k) acts in
  nth_error (fw_threads w) i = Some ti -> ft_pc ti <> 0%nat ->
  (forall j, j <> i -> fstep incr_prog w j = None) /\
  (forall j k' w', fdo (gen_reset named) incr_prog w (FFork j k') = Some w' ->
                   fw_val w' = fw_val w /\ fw_sem w' = fw_sem w /\ nth_error (fw_threads w') i = Some ti).
Proof. rewrite gen_reset_true. apply fork_others_blocked. Qed.

Theorem G_fork_no_deadlock named n k v0 acts :
  let w := frun (gen_reset named) incr_prog (fworld_init v0 n k) acts in
  fall_done w = false -> exists i w', fstep incr_prog w i = Some w'.
Proof. rewrite gen_reset_true. apply fork_no_deadlock. Qed.

(* ---- WITHOUT the reset: refuted.  One updater (one increment to make) takes the lock, reads 0 and forks, from
   inside its critical section, an updater with one increment to make.  The child's copy of the lock object counts 2
   (inherited): "mine".  It runs its whole locked increment while the parent is inside (value 0 -> 1 under the held
   lock, two processes inside); the parent then stores 0 + 1: two increments, value 1 *)
Definition lost_update_acts : list fact :=
  [FStep 0; FStep 0; FStep 0; FFork 0 1] ++ repeat (FStep 1) 8 ++ repeat (FStep 0) 5.

Lemma fork_without_reset_loses_update :
  let w := frun false incr_prog (fworld_init 0 1 1) lost_update_acts in
  fall_done w = true /\ started (fw_threads w) = 2 /\ fw_val w = 1.
Proof. vm_compute. repeat split; reflexivity. Qed.

Lemma fork_without_reset_two_inside :
  let w1 := frun false incr_prog (fworld_init 0 1 1) [FStep 0; FStep 0; FStep 0; FFork 0 1] in
  let w2 := frun false incr_prog w1 (repeat (FStep 1) 6) in
  map ft_pc (fw_threads w1) = [3; 0]%nat /\ fw_val w1 = 0 /\
  map ft_pc (fw_threads w2) = [3; 6]%nat /\ fw_val w2 = 1 /\      (* both inside; the value changed under the held lock *)
  SemProg.val (fw_sem w2) = 0.
Proof. vm_compute. repeat split; reflexivity. Qed.

(* with the reset the same history leaves the child blocked and loses nothing *)
Lemma fork_with_reset_same_history :
  let w := frun true incr_prog (fworld_init 0 1 1) lost_update_acts in
  map ft_pc (fw_threads w) = [0; 0]%nat /\ map ft_left (fw_threads w) = [0; 1]%nat /\ fw_val w = 1 /\
  fw_val (frun true incr_prog w (repeat (FStep 1) 8)) = 2.
Proof. vm_compute. repeat split; reflexivity. Qed.
