(* C18, audit follow-up (item A): "exact" = exact up to HMAC key normalisation.

   AuthProofs.mutual_exact says: both sides are handed a connection IFF the two
   digest equations hold.  Here the digest equations are reduced to an equation
   between KEYS under two explicit hypotheses about the MAC:

     (H1) mac_norm : the MAC looks at its key only through norm B h key
          (Lib/AuthKey.v: hash the key if it is longer than the block, pad with
          NULs to the block) -- true of the real HMAC, checked on sampled inputs
          by the harness;
     (H2) no two distinct NORMALISED keys have the same digest on (one of) the
          challenge(s) used in this handshake -- the cryptographic assumption.

   Results (for the endpoints assembled from the generated kernel):
     code_iff_same_normalised_key  both Returned <-> norm kl = norm kc   (H1, H2)
     code_iff_same_key_literal     both Returned <-> kl = kc, for keys no longer
                                   than the block without trailing NUL     (H1, H2)
     code_equivalent_keys_accepted norm kl = norm kc -> both Returned     (H1 only)
     code_nul_padded_key_accepted, code_hashed_key_accepted,
     code_iff_same_key_refuted     the known finding, for EVERY mac with (H1)
   and a computed witness that (H1) and (H2) are jointly satisfiable. *)
From Coq Require Import ZArith List Bool Lia ZifyBool.
From BV Require Import Lib.AuthBase Lib.AuthKey Gen.K_auth Model.Auth Proofs.AuthProofs.
Import ListNotations.
Open Scope Z_scope.

(* ------------------------------------------------------------------ *)
(* zero padding                                                         *)

Lemma strip0_zeros : forall n, strip0 (repeat 0 n) = [].
Proof.
  induction n as [|n IH]; [reflexivity|].
  change (strip0 (repeat 0 (S n))) with
    (match strip0 (repeat 0 n) with [] => if 0 =? 0 then [] else [0] | s => 0 :: s end).
  rewrite IH. reflexivity.
Qed.

Lemma strip0_cons : forall x r,
    strip0 (x :: r) = match strip0 r with [] => if x =? 0 then [] else [x] | s => x :: s end.
Proof. reflexivity. Qed.

Lemma strip0_app_zeros : forall k n, strip0 (k ++ repeat 0 n) = strip0 k.
Proof.
  induction k as [|x r IH]; intros n.
  - apply strip0_zeros.
  - change ((x :: r) ++ repeat 0 n) with (x :: (r ++ repeat 0 n)).
    rewrite !strip0_cons, IH. reflexivity.
Qed.

Lemma strip0_id : forall k, no_trailing_nul k -> strip0 k = k.
Proof.
  unfold no_trailing_nul.
  induction k as [|x r IH]; intros H; [reflexivity|].
  destruct r as [|y t].
  - cbn [last] in H. rewrite strip0_cons. cbn [strip0].
    destruct (x =? 0) eqn:E; [lia|reflexivity].
  - change (last (x :: y :: t) 1) with (last (y :: t) 1) in H.
    rewrite strip0_cons, (IH H). reflexivity.
Qed.

(* zero padding is injective on keys without trailing NUL (whatever their length) *)
Lemma zpad_inj : forall B a b,
    no_trailing_nul a -> no_trailing_nul b -> zpad B a = zpad B b -> a = b.
Proof.
  intros B a b Ha Hb E. unfold zpad in E.
  apply (f_equal strip0) in E. rewrite !strip0_app_zeros in E.
  rewrite (strip0_id a Ha), (strip0_id b Hb) in E. exact E.
Qed.

Lemma zpad_length : forall B k, (length k <= B)%nat -> length (zpad B k) = B.
Proof.
  intros B k H. unfold zpad. rewrite app_length, (repeat_length 0 (B - length k)). lia.
Qed.

Lemma zpad_full : forall B k, (B <= length k)%nat -> zpad B k = k.
Proof.
  intros B k H. unfold zpad. replace (B - length k)%nat with 0%nat by lia.
  cbn [repeat]. apply app_nil_r.
Qed.

Lemma zpad_app_zeros : forall B k j,
    (length k + j <= B)%nat -> zpad B (k ++ repeat 0 j) = zpad B k.
Proof.
  intros B k j H. unfold zpad.
  rewrite app_length, (repeat_length 0 j), <- app_assoc, <- repeat_app.
  f_equal. f_equal. lia.
Qed.

(* ------------------------------------------------------------------ *)
(* norm                                                                 *)

Lemma norm_short : forall B h k, (length k <= B)%nat -> norm B h k = zpad B k.
Proof.
  intros B h k H. unfold norm.
  destruct (B <? length k)%nat eqn:E; [apply Nat.ltb_lt in E; lia|reflexivity].
Qed.

Lemma norm_long : forall B h k, (B < length k)%nat -> norm B h k = zpad B (h k).
Proof.
  intros B h k H. unfold norm.
  destruct (B <? length k)%nat eqn:E; [reflexivity|apply Nat.ltb_ge in E; lia].
Qed.

(* when the hash is not longer than the block (digest_size <= block_size: every
   hash HMAC is used with), a normalised key is exactly one block, and norm is
   idempotent *)
Lemma norm_length : forall B h,
    (forall k, (length (h k) <= B)%nat) -> forall k, length (norm B h k) = B.
Proof.
  intros B h Hh k. unfold norm. destruct (B <? length k)%nat eqn:E.
  - apply zpad_length, Hh.
  - apply zpad_length. apply Nat.ltb_ge in E. exact E.
Qed.

Lemma norm_idem : forall B h,
    (forall k, (length (h k) <= B)%nat) -> forall k, norm B h (norm B h k) = norm B h k.
Proof.
  intros B h Hh k. pose proof (norm_length B h Hh k) as L.
  rewrite (norm_short B h (norm B h k)) by lia. apply zpad_full. lia.
Qed.

(* the two families of distinct keys HMAC identifies *)
Lemma norm_app_zeros : forall B h k j,
    (length k + j <= B)%nat -> norm B h (k ++ repeat 0 j) = norm B h k.
Proof.
  intros B h k j H.
  assert (L : length (k ++ repeat 0 j) = (length k + j)%nat)
    by (rewrite app_length, (repeat_length 0 j); reflexivity).
  rewrite (norm_short B h (k ++ repeat 0 j)) by lia.
  rewrite (norm_short B h k) by lia. apply zpad_app_zeros. exact H.
Qed.

Lemma norm_hashed : forall B h k,
    (B < length k)%nat -> (length (h k) <= B)%nat -> norm B h (h k) = norm B h k.
Proof.
  intros B h k H1 H2. rewrite (norm_long B h k H1). apply norm_short. exact H2.
Qed.

Lemma app_zeros_neq : forall (k : bytes) j, (0 < j)%nat -> k <> k ++ repeat 0 j.
Proof.
  intros k j Hj E. apply (f_equal (@length Z)) in E.
  rewrite app_length, (repeat_length 0 j) in E. lia.
Qed.

(* on keys that fit in a block and have no trailing NUL, norm is injective *)
Lemma norm_inj_short : forall B h a b,
    (length a <= B)%nat -> (length b <= B)%nat -> no_trailing_nul a -> no_trailing_nul b ->
    norm B h a = norm B h b -> a = b.
Proof.
  intros B h a b La Lb Na Nb E.
  rewrite (norm_short B h a La), (norm_short B h b Lb) in E.
  exact (zpad_inj B a b Na Nb E).
Qed.

(* ------------------------------------------------------------------ *)
(* the handshake, keys compared through norm                            *)

Section KeyNorm.
  Variable B : nat.                       (* block size of the hash: 64 for MD5 *)
  Variable h : bytes -> bytes.            (* the hash (abstract) *)
  Variable mac : bytes -> bytes -> bytes. (* HMAC over that hash (abstract) *)
  Local Notation nrm := (norm B h).

  (* CRYPTO HYPOTHESIS H1 -- key normalisation.  The MAC depends on its key only
     through the normalised key.  TRUE of the real HMAC (RFC 2104: the key enters
     only as (K' xor ipad), (K' xor opad) with K' = norm key); the harness checks
     it on sampled keys against CPython's hmac on every run. *)
  Hypothesis mac_norm : forall k m, mac k m = mac (nrm k) m.

  (* CRYPTO HYPOTHESIS H2 (stated per message, used as a premise below, for the
     listener's OR the client's challenge -- one of the two suffices): distinct
     normalised keys never give the same digest of message m.  This is the
     idealised form of "HMAC has no key collisions"; nothing weaker can give the
     only-if direction, since the handshake compares nothing but digests of the
     two challenges. *)
  Definition key_collision_free_on (m : bytes) : Prop :=
    forall a b, mac (nrm a) m = mac (nrm b) m -> nrm a = nrm b.

  Lemma equal_norm_equal_digest : forall a b m, nrm a = nrm b -> mac a m = mac b m.
  Proof. intros a b m E. rewrite (mac_norm a m), (mac_norm b m), E. reflexivity. Qed.

  (* handshake_outcome for the generated endpoints, constants written out *)
  Lemma code_handshake_outcome : forall n k0 k kc ul uc,
      let kl := k0 :: k in
      let cl := ul 20 in
      let cc := uc 20 in
      blen cl = 20 -> blen cc = 20 -> blen (mac kc cl) <= 256 -> blen (mac kl cc) <= 256 ->
      code_handshake mac (13 + n) (KBytes kl) (KBytes kc) ul uc = expected mac kl kc cl cc.
  Proof.
    intros n k0 k kc ul uc kl cl cc H1 H2 H3 H4. rewrite code_handshake_eq.
    exact (handshake_outcome mac n k0 k kc ul uc H1 H2 H3 H4).
  Qed.

  (* -- H1 alone: keys with the same normalisation authenticate each other, with
        exactly the transcript of a same-key handshake *)
  Theorem code_equivalent_keys_accepted : forall n k0 k kc ul uc,
      let kl := k0 :: k in
      let cl := ul 20 in
      let cc := uc 20 in
      blen cl = 20 -> blen cc = 20 -> blen (mac kc cl) <= 256 -> blen (mac kl cc) <= 256 ->
      nrm kl = nrm kc ->
      code_handshake mac (13 + n) (KBytes kl) (KBytes kc) ul uc =
      ((Returned, [K_auth.CHALLENGE ++ cl; K_auth.WELCOME; mac kl cc]),
       (Returned, [mac kc cl; K_auth.CHALLENGE ++ cc; K_auth.WELCOME])).
  Proof.
    intros n k0 k kc ul uc kl cl cc H1 H2 H3 H4 E.
    subst kl cl cc.
    rewrite (code_handshake_outcome n k0 k kc ul uc H1 H2 H3 H4). unfold expected.
    rewrite (equal_norm_equal_digest kc (k0 :: k) (ul 20) (eq_sym E)), bytes_eqb_refl.
    rewrite (equal_norm_equal_digest (k0 :: k) kc (uc 20) E), bytes_eqb_refl. reflexivity.
  Qed.

  (* -- H1 + H2: a connection on both sides IFF the normalised keys are equal;
        otherwise both sides raise AuthenticationError *)
  Theorem code_iff_same_normalised_key : forall n k0 k kc ul uc,
      let kl := k0 :: k in
      let cl := ul 20 in
      let cc := uc 20 in
      blen cl = 20 -> blen cc = 20 -> blen (mac kc cl) <= 256 -> blen (mac kl cc) <= 256 ->
      key_collision_free_on cl \/ key_collision_free_on cc ->
      let r := code_handshake mac (13 + n) (KBytes kl) (KBytes kc) ul uc in
      ((fst (fst r) = Returned /\ fst (snd r) = Returned) <-> nrm kl = nrm kc) /\
      (nrm kl <> nrm kc ->
       fst (fst r) = Raised AuthenticationError /\ fst (snd r) = Raised AuthenticationError).
  Proof.
    intros n k0 k kc ul uc kl cl cc H1 H2 H3 H4 Hinj r.
    pose proof (code_mutual_exact mac n k0 k kc ul uc H1 H2 H3 H4) as HM. cbv zeta in HM.
    fold kl cl cc in HM. fold r in HM. destruct HM as [Hiff Hor].
    assert (Hdir : fst (fst r) = Returned /\ fst (snd r) = Returned -> nrm kl = nrm kc).
    { intros Hb. apply Hiff in Hb. destruct Hb as [A C].
      destruct Hinj as [I|I].
      - symmetry. apply I. rewrite <- (mac_norm kc cl), <- (mac_norm kl cl). exact A.
      - apply I. rewrite <- (mac_norm kc cc), <- (mac_norm kl cc). exact C. }
    split; [split; [exact Hdir|]|].
    - intros E. apply Hiff. split.
      + exact (equal_norm_equal_digest kc kl cl (eq_sym E)).
      + exact (equal_norm_equal_digest kl kc cc E).
    - intros Hne. destruct Hor as [Hb|Hb]; [|exact Hb]. apply Hdir in Hb. contradiction.
  Qed.

  (* -- the LITERAL statement of the property, for keys no longer than a block and
        without trailing NUL (on both sides): connection IFF same key *)
  Theorem code_iff_same_key_literal : forall n k0 k kc ul uc,
      let kl := k0 :: k in
      let cl := ul 20 in
      let cc := uc 20 in
      blen cl = 20 -> blen cc = 20 -> blen (mac kc cl) <= 256 -> blen (mac kl cc) <= 256 ->
      (length kl <= B)%nat -> (length kc <= B)%nat -> last kl 1 <> 0 -> last kc 1 <> 0 ->
      key_collision_free_on cl \/ key_collision_free_on cc ->
      let r := code_handshake mac (13 + n) (KBytes kl) (KBytes kc) ul uc in
      ((fst (fst r) = Returned /\ fst (snd r) = Returned) <-> kl = kc) /\
      (kl <> kc ->
       fst (fst r) = Raised AuthenticationError /\ fst (snd r) = Raised AuthenticationError).
  Proof.
    intros n k0 k kc ul uc kl cl cc H1 H2 H3 H4 Ll Lc Nl Nc Hinj r.
    pose proof (code_iff_same_normalised_key n k0 k kc ul uc H1 H2 H3 H4 Hinj) as HN.
    cbv zeta in HN. fold kl cl cc in HN. fold r in HN. destruct HN as [Hiff Hne].
    assert (Hk : nrm kl = nrm kc <-> kl = kc).
    { split; [apply norm_inj_short; assumption|intros ->; reflexivity]. }
    split.
    - rewrite Hiff. exact Hk.
    - intros D. apply Hne. intros E. apply D, Hk, E.
  Qed.

  (* -- the known finding as a theorem about EVERY mac with H1: a key and the same
        key followed by NUL bytes (within the block) authenticate each other, in
        both role assignments *)
  Theorem code_nul_padded_key_accepted : forall n k0 k j ul uc,
      let key := k0 :: k in
      let padded := key ++ repeat 0 j in
      (0 < j)%nat -> (length key + j <= B)%nat ->
      blen (ul 20) = 20 -> blen (uc 20) = 20 -> (forall a m, blen (mac a m) <= 256) ->
      key <> padded /\
      (let r := code_handshake mac (13 + n) (KBytes key) (KBytes padded) ul uc in
       fst (fst r) = Returned /\ fst (snd r) = Returned) /\
      (let r := code_handshake mac (13 + n) (KBytes padded) (KBytes key) ul uc in
       fst (fst r) = Returned /\ fst (snd r) = Returned).
  Proof.
    intros n k0 k j ul uc key padded Hj HB H1 H2 Hd.
    assert (E : nrm padded = nrm key) by (apply norm_app_zeros; exact HB).
    split; [apply app_zeros_neq; exact Hj|]. split.
    - cbv zeta. subst key.
      rewrite (code_equivalent_keys_accepted n k0 k padded ul uc H1 H2 (Hd _ _) (Hd _ _) (eq_sym E)).
      split; reflexivity.
    - cbv zeta. subst padded key. change ((k0 :: k) ++ repeat 0 j) with (k0 :: (k ++ repeat 0 j)) in *.
      rewrite (code_equivalent_keys_accepted n k0 (k ++ repeat 0 j) (k0 :: k) ul uc H1 H2 (Hd _ _) (Hd _ _) E).
      split; reflexivity.
  Qed.

  (* ... and a key longer than the block and its hash authenticate each other *)
  Theorem code_hashed_key_accepted : forall n k0 k ul uc,
      let key := k0 :: k in
      (B < length key)%nat -> (length (h key) <= B)%nat ->
      blen (ul 20) = 20 -> blen (uc 20) = 20 -> (forall a m, blen (mac a m) <= 256) ->
      key <> h key /\
      (let r := code_handshake mac (13 + n) (KBytes key) (KBytes (h key)) ul uc in
       fst (fst r) = Returned /\ fst (snd r) = Returned).
  Proof.
    intros n k0 k ul uc key HL Hh H1 H2 Hd.
    assert (E : nrm (h key) = nrm key) by (apply norm_hashed; assumption).
    split.
    - intros D. rewrite <- D in Hh. lia.
    - cbv zeta. subst key.
      rewrite (code_equivalent_keys_accepted n k0 k (h (k0 :: k)) ul uc H1 H2 (Hd _ _) (Hd _ _) (eq_sym E)).
      split; reflexivity.
  Qed.

  (* -- hence the unconditional "connection IFF same key" is false for every mac
        with H1, as soon as a block holds two bytes *)
  Theorem code_iff_same_key_refuted_any_mac : forall n ul uc,
      (2 <= B)%nat ->
      blen (ul 20) = 20 -> blen (uc 20) = 20 -> (forall a m, blen (mac a m) <= 256) ->
      exists kl kc,
        kl <> kc /\ kl <> [] /\ kc <> [] /\
        fst (fst (code_handshake mac (13 + n) (KBytes kl) (KBytes kc) ul uc)) = Returned /\
        fst (snd (code_handshake mac (13 + n) (KBytes kl) (KBytes kc) ul uc)) = Returned.
  Proof.
    intros n ul uc HB H1 H2 Hd.
    exists [1], [1; 0].
    assert (E : nrm [1] = nrm [1; 0]).
    { symmetry. apply (norm_app_zeros B h [1] 1). cbn [length]. lia. }
    rewrite (code_equivalent_keys_accepted n 1 [] [1; 0] ul uc H1 H2 (Hd _ _) (Hd _ _) E).
    repeat split; discriminate.
  Qed.
End KeyNorm.

(* ------------------------------------------------------------------ *)
(* H1 and H2 are jointly satisfiable: norm_mac reveals the normalised key *)

Lemma norm_mac_norm : forall B h,
    (forall k, (length (h k) <= B)%nat) ->
    forall k m, norm_mac B h k m = norm_mac B h (norm B h k) m.
Proof. intros B h Hh k m. unfold norm_mac. rewrite (norm_idem B h Hh k). reflexivity. Qed.

Lemma norm_mac_collision_free : forall B h,
    (forall k, (length (h k) <= B)%nat) ->
    forall m, key_collision_free_on B h (norm_mac B h) m.
Proof.
  intros B h Hh m a b E. unfold norm_mac in E. apply app_inv_tail in E.
  rewrite !(norm_idem B h Hh) in E. exact E.
Qed.

(* a toy hash with 3-byte digests *)
Definition toy_h (k : bytes) : bytes := firstn 2 k ++ [Z.of_nat (length k)].

Lemma toy_h_short : forall k, (length (toy_h k) <= 64)%nat.
Proof.
  intros k. unfold toy_h. rewrite app_length, firstn_length. cbn [length]. lia.
Qed.

Definition toy_hmac := norm_mac 64 toy_h.
Definition long_key : bytes := repeat 5 65.

Lemma toy_hmac_witness :
  (forall k m, toy_hmac k m = toy_hmac (norm 64 toy_h k) m) /\
  (forall m, key_collision_free_on 64 toy_h toy_hmac m) /\
  (* one bit apart: refused on both sides *)
  (let r := code_handshake toy_hmac 13 (KBytes [1; 2; 3]) (KBytes [1; 2; 4]) (const20 7) (const20 9) in
   fst (fst r) = Raised AuthenticationError /\ fst (snd r) = Raised AuthenticationError) /\
  (* same key: accepted *)
  (let r := code_handshake toy_hmac 13 (KBytes [1; 2; 3]) (KBytes [1; 2; 3]) (const20 7) (const20 9) in
   fst (fst r) = Returned /\ fst (snd r) = Returned) /\
  (* key vs NUL-padded key: accepted *)
  (let r := code_handshake toy_hmac 13 (KBytes [1; 2; 3]) (KBytes [1; 2; 3; 0]) (const20 7) (const20 9) in
   fst (fst r) = Returned /\ fst (snd r) = Returned) /\
  (* 65-byte key vs its hash: accepted *)
  (let r := code_handshake toy_hmac 13 (KBytes long_key) (KBytes (toy_h long_key)) (const20 7) (const20 9) in
   fst (fst r) = Returned /\ fst (snd r) = Returned) /\
  (* 64-byte key vs the same key plus one NUL (65 bytes: hashed): refused *)
  (let r := code_handshake toy_hmac 13 (KBytes (repeat 5 64)) (KBytes (repeat 5 64 ++ [0])) (const20 7) (const20 9) in
   fst (fst r) = Raised AuthenticationError /\ fst (snd r) = Raised AuthenticationError).
Proof.
  split; [exact (norm_mac_norm 64 toy_h toy_h_short)|].
  split; [exact (norm_mac_collision_free 64 toy_h toy_h_short)|].
  repeat split; vm_compute; reflexivity.
Qed.

(* the old concrete witness (AuthProofs.pad_mac, block of 4) also satisfies H1, with
   any hash, on keys that fit the block -- kept for reference: it is an instance of
   code_nul_padded_key_accepted's conclusion *)
Lemma pad_mac_is_norm_mac : forall h k m,
    (length k <= 4)%nat -> pad_mac k m = norm_mac 4 h k m.
Proof.
  intros h k m H. unfold pad_mac, norm_mac. rewrite (norm_short 4 h k H). unfold zpad.
  f_equal.
  destruct k as [|a [|b [|c [|d [|e t]]]]]; cbn [length] in H; try lia; reflexivity.
Qed.
