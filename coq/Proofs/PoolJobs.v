(* Job-level facts about Model/Pool.v: a per-job invariant [JInv] and a
   monotonicity relation [jmono] ("what may never change once it is
   observable"), both preserved by every function the pool model ever applies
   to a job record. *)
From Coq Require Import ZArith List Bool Lia ZifyBool.
From BV Require Import Lib.Cases Model.LaxSem Model.Restart Model.Pool.
Import ListNotations.
Open Scope Z_scope.

(* ------------------------------------------------------------------ jmono *)
(* y is a later version of x *)
Record jmono (x y : job) : Prop := mk_jmono {
  jm_id : jid y = jid x;
  jm_kind : kind y = kind x;
  jm_uncached : incache x = false -> incache y = false;
  (* an Apply job keeps its outcome and its callback counts once resolved *)
  jm_outcome : kind x = KApply -> ready x = true ->
               ready y = true /\ value y = value x /\ cb_succ y = cb_succ x /\ cb_err y = cb_err x;
  (* any job: resolved stays resolved *)
  jm_ready : ready x = true -> ready y = true;
  (* the lost-worker marker is written once *)
  jm_marker : forall m, worker_lost x = Some m -> worker_lost y = Some m;
  (* limits are fixed at submission *)
  jm_limits : soft y = soft x /\ hard y = hard x /\ lost_timeout y = lost_timeout x
}.

Lemma jmono_refl x : jmono x x.
Proof. constructor; auto. Qed.

Lemma jmono_trans x y z : jmono x y -> jmono y z -> jmono x z.
Proof.
  intros [a1 a2 a3 a4 a5 a6 a7] [b1 b2 b3 b4 b5 b6 b7]. constructor.
  - congruence.
  - congruence.
  - auto.
  - intros Hk Hr. destruct (a4 Hk Hr) as (r1 & r2 & r3 & r4).
    assert (Hk' : kind y = KApply) by congruence.
    destruct (b4 Hk' r1) as (q1 & q2 & q3 & q4). repeat split; congruence.
  - auto.
  - auto.
  - destruct a7 as (? & ? & ?), b7 as (? & ? & ?). repeat split; congruence.
Qed.

(* ------------------------------------------------------------------- JInv *)
(* per-job invariant *)
Record JInv (x : job) : Prop := mk_JInv {
  (* Apply: unresolved = no outcome, no result callback; resolved = exactly one callback *)
  ji_apply_unres : kind x = KApply -> ready x = false ->
                   value x = None /\ cb_succ x = 0 /\ cb_err x = 0;
  ji_apply_res : kind x = KApply -> ready x = true ->
                 value x <> None /\ cb_succ x + cb_err x = 1;
  ji_cb_nonneg : 0 <= cb_succ x /\ 0 <= cb_err x;
  (* Apply: once accepted and resolved it has left the cache *)
  ji_apply_cache : kind x = KApply -> ready x = true -> accepted x = true -> incache x = false;
  (* Apply: a WorkerLost outcome names this job and the status of its marker *)
  ji_lost : forall st j, kind x = KApply -> value x = Some (PLost st j) ->
                         j = jid x /\ exists t, worker_lost x = Some (t, st);
  (* Apply: a TimeLimit outcome carries the job's own hard limit *)
  ji_tl : forall l, kind x = KApply -> value x = Some (PTimeLimit l) -> l = hard x
}.

(* --------------------------------------------------- the job-level functions *)
Ltac jm := constructor; cbn; auto; try (intros; repeat split; congruence).

Lemma apply_set_mono x p : jmono x (apply_set x p).
Proof.
  unfold apply_set. destruct (ready x) eqn:Hr; [apply jmono_refl|].
  constructor; cbn; auto; try (intros; congruence).
  intros H. destruct (accepted x); auto.
Qed.

Lemma map_set_mono x p : kind x <> KApply -> jmono x (map_set x p).
Proof.
  intros Hk. unfold map_set.
  destruct (payload_success p); [destruct (number_left x - 1 =? 0)|];
    constructor; cbn; auto; try (intros; contradiction);
      try (intros H; destruct (accepted x); auto).
Qed.

Lemma mk_imap_mono x inc rdy idx len uns its :
  kind x <> KApply ->
  (incache x = false -> inc = false) -> (ready x = true -> rdy = true) ->
  jmono x (mk_imap x inc rdy idx len uns its).
Proof.
  intros Hk Hi Hr. constructor; cbn; auto; try (intros; contradiction).
Qed.

Lemma imap_set_mono x i p : kind x <> KApply -> jmono x (fst (imap_set x i p)).
Proof.
  intros Hk. unfold imap_set.
  destruct (if okey_eqb (Some (index x)) i
            then drain (length (unsorted x)) (index x + 1) (unsorted x) (items x ++ [p])
            else (index x, assoc_put i p (unsorted x), items x)) as [[idx uns] its].
  destruct (okey_eqb (Some idx) (ilength x)); cbn [fst]; apply mk_imap_mono; auto.
Qed.

Lemma imapu_set_mono x p : kind x <> KApply -> jmono x (fst (imapu_set x p)).
Proof.
  intros Hk. unfold imapu_set.
  destruct (okey_eqb (Some (index x + 1)) (ilength x)); cbn [fst]; apply mk_imap_mono; auto.
Qed.

Lemma job_set_mono x i p : jmono x (fst (job_set x i p)).
Proof.
  unfold job_set. destruct (kind x) eqn:Hk; cbn [fst].
  - apply apply_set_mono.
  - apply map_set_mono; congruence.
  - apply imap_set_mono; congruence.
  - apply imapu_set_mono; congruence.
Qed.

Lemma is_imap_not_apply x : is_imap x = true -> kind x <> KApply.
Proof. unfold is_imap. destruct (kind x); intros; congruence. Qed.

Lemma set_length_mono x n : jmono x (fst (set_length x n)).
Proof.
  unfold set_length. destruct (is_imap x) eqn:Hk; cbn [negb fst]; [|apply jmono_refl].
  apply is_imap_not_apply in Hk.
  destruct (okey_eqb (Some (index x)) (Some n)); cbn [fst]; apply mk_imap_mono; auto.
Qed.

Lemma apply_ack_mono x t p : jmono x (apply_ack x t p).
Proof.
  constructor; cbn; auto; try (intros H; destruct (ready x); auto; fail).
Qed.

Lemma map_ack_mono x i p : kind x <> KApply -> jmono x (map_ack x i p).
Proof.
  intros Hk. constructor; cbn; auto; try (intros; contradiction).
  intros H. destruct (ready x); auto.
Qed.

Lemma imap_ack_mono x p : kind x <> KApply -> jmono x (imap_ack x p).
Proof. intros Hk. constructor; cbn; auto; try (intros; contradiction). Qed.

Lemma j_uncache_mono x : jmono x (j_uncache x).
Proof. constructor; cbn; auto. Qed.

Lemma j_add_tmo_mono x t : jmono x (j_add_tmo x t).
Proof. constructor; cbn; auto. Qed.

Lemma j_set_lost_mono x m : worker_lost x = None -> jmono x (j_set_lost x (Some m)).
Proof. intros H. constructor; cbn; auto. intros m0 H0; congruence. Qed.

Lemma mark_lost_mono x : jmono x (fst (mark_lost x)).
Proof.
  unfold mark_lost. destruct (worker_lost x) as [[t st]|]; [apply job_set_mono|apply jmono_refl].
Qed.

Lemma on_job_down_mono s cl rem x : jmono x (fst (on_job_down s cl rem x)).
Proof.
  unfold on_job_down. destruct (acked_by_gone cl rem x) as [p|]; [|apply jmono_refl].
  destruct (ready x); [apply jmono_refl|].
  destruct (memZ p cl && match get_proc s p with Some q => jterm q | None => false end).
  - apply job_set_mono.
  - destruct (worker_lost x) eqn:Hw; cbn [fst]; [apply jmono_refl|apply j_set_lost_mono; auto].
Qed.

Lemma do_next_job_mono x r :
  kind x <> KApply -> jmono x (mk_imap x (incache x) (ready x) (index x) (ilength x) (unsorted x) r).
Proof. intros; apply mk_imap_mono; auto. Qed.

Lemma do_next_stop_mono x :
  kind x <> KApply -> jmono x (mk_imap x (incache x) true (index x) (ilength x) (unsorted x) (items x)).
Proof. intros; apply mk_imap_mono; auto. Qed.

(* ------------------------------------------------------------ JInv preserved *)
Ltac ji_nonapply Hk :=
  constructor; cbn; try (intros; exfalso; apply Hk; assumption); try (intros; congruence).

Lemma apply_set_inv x p :
  kind x = KApply -> JInv x ->
  (forall st j, p = PLost st j -> j = jid x /\ exists t, worker_lost x = Some (t, st)) ->
  (forall l, p = PTimeLimit l -> l = hard x) ->
  JInv (apply_set x p).
Proof.
  intros Hk Hi Hlost Htl. unfold apply_set.
  destruct (ready x) eqn:Hr; [exact Hi|].
  destruct Hi as [u r nn c lo tl].
  destruct (u Hk Hr) as (Hv & Hs & He).
  constructor; cbn.
  - intros _ H; discriminate.
  - intros _ _. split; [discriminate|]. destruct (payload_success p); lia.
  - destruct (payload_success p); lia.
  - intros _ _ Ha. rewrite Ha. reflexivity.
  - intros st j _ H. inversion H; subst. apply Hlost; reflexivity.
  - intros l _ H. inversion H; subst. apply Htl; reflexivity.
Qed.

Lemma nonapply_inv_any (x y : job) :
  kind y <> KApply -> 0 <= cb_succ y /\ 0 <= cb_err y -> JInv y.
Proof.
  intros Hk Hn. constructor; try (intros; exfalso; apply Hk; assumption); auto.
Qed.

Lemma map_set_inv x p : kind x <> KApply -> JInv x -> JInv (map_set x p).
Proof.
  intros Hk [u r nn c lo tl]. apply (nonapply_inv_any x).
  - unfold map_set. destruct (payload_success p); [destruct (number_left x - 1 =? 0)|]; cbn; auto.
  - unfold map_set. destruct (payload_success p); [destruct (number_left x - 1 =? 0)|]; cbn; lia.
Qed.

Lemma mk_imap_inv x inc rdy idx len uns its :
  kind x <> KApply -> JInv x -> JInv (mk_imap x inc rdy idx len uns its).
Proof.
  intros Hk [u r nn c lo tl]. apply (nonapply_inv_any x); cbn; auto.
Qed.

Lemma job_set_inv x i p :
  JInv x ->
  (kind x = KApply -> forall st j, p = PLost st j -> j = jid x /\ exists t, worker_lost x = Some (t, st)) ->
  (kind x = KApply -> forall l, p = PTimeLimit l -> l = hard x) ->
  JInv (fst (job_set x i p)).
Proof.
  intros Hi Hl Ht. unfold job_set. destruct (kind x) eqn:Hk; cbn [fst].
  - apply apply_set_inv; auto.
  - apply map_set_inv; [congruence|auto].
  - unfold imap_set.
    destruct (if okey_eqb (Some (index x)) i
              then drain (length (unsorted x)) (index x + 1) (unsorted x) (items x ++ [p])
              else (index x, assoc_put i p (unsorted x), items x)) as [[idx uns] its].
    destruct (okey_eqb (Some idx) (ilength x)); cbn [fst]; apply mk_imap_inv; auto; congruence.
  - unfold imapu_set.
    destruct (okey_eqb (Some (index x + 1)) (ilength x)); cbn [fst]; apply mk_imap_inv; auto; congruence.
Qed.

Lemma set_length_inv x n : JInv x -> JInv (fst (set_length x n)).
Proof.
  intros Hi. unfold set_length. destruct (is_imap x) eqn:Hk; cbn [negb fst]; [|exact Hi].
  apply is_imap_not_apply in Hk.
  destruct (okey_eqb (Some (index x)) (Some n)); cbn [fst]; apply mk_imap_inv; auto.
Qed.

Lemma apply_ack_inv x t p : kind x = KApply -> JInv x -> JInv (apply_ack x t p).
Proof.
  intros Hk [u r nn c lo tl]. constructor; cbn; auto.
  intros _ Hr _. rewrite Hr. reflexivity.
Qed.

Lemma map_ack_inv x i p : kind x <> KApply -> JInv x -> JInv (map_ack x i p).
Proof. intros Hk [u r nn c lo tl]. apply (nonapply_inv_any x); cbn; auto. Qed.

Lemma imap_ack_inv x p : kind x <> KApply -> JInv x -> JInv (imap_ack x p).
Proof. intros Hk [u r nn c lo tl]. apply (nonapply_inv_any x); cbn; auto. Qed.

Lemma j_uncache_inv x : JInv x -> JInv (j_uncache x).
Proof. intros [u r nn c lo tl]. constructor; cbn; auto. Qed.

Lemma j_add_tmo_inv x t : JInv x -> JInv (j_add_tmo x t).
Proof. intros [u r nn c lo tl]. constructor; cbn; auto. Qed.

Lemma j_set_lost_inv x m : worker_lost x = None -> JInv x -> JInv (j_set_lost x (Some m)).
Proof.
  intros Hw [u r nn c lo tl]. constructor; cbn; auto.
  intros st j Hk Hv. destruct (lo st j Hk Hv) as (_ & t & Ht). congruence.
Qed.

Lemma mark_lost_inv x : JInv x -> JInv (fst (mark_lost x)).
Proof.
  intros Hi. unfold mark_lost. destruct (worker_lost x) as [[t st]|] eqn:Hw; [|exact Hi].
  apply job_set_inv; auto.
  - intros _ st' j H. inversion H; subst. split; [reflexivity|]. exists t. exact Hw.
  - intros _ l H. discriminate.
Qed.

Lemma on_job_down_inv s cl rem x : JInv x -> JInv (fst (on_job_down s cl rem x)).
Proof.
  intros Hi. unfold on_job_down. destruct (acked_by_gone cl rem x) as [p|]; [|exact Hi].
  destruct (ready x); [exact Hi|].
  destruct (memZ p cl && match get_proc s p with Some q => jterm q | None => false end).
  - apply job_set_inv; auto; intros; discriminate.
  - destruct (worker_lost x) eqn:Hw; cbn [fst]; [exact Hi|apply j_set_lost_inv; auto].
Qed.

Lemma new_job_inv s k : JInv (new_job s k).
Proof. constructor; cbn; intros; try discriminate; auto; lia. Qed.
