(* C14: the heap.  Part 1 (here): the generated kernels equal the model's arithmetic.
   Part 2 (HeapIdx.v): index invariant -- the four free-list indexes describe one set of free blocks.
   Part 3 (HeapGeo.v, HeapInv.v): geometric invariant (partition, disjointness, alignment,
   coalescing) preserved by every operation.
   Part 4 (here): the property theorems, for all op sequences with valid frees. *)
From Coq Require Import ZArith List Bool Lia ZifyBool Permutation.
From BV Require Import Lib.PyVal Gen.K_heap Gen.G_heap Model.Heap.
From BV Require Import Proofs.HeapLib Proofs.HeapIdx Proofs.HeapGeo Proofs.HeapRe Proofs.HeapInv.
Import ListNotations.
Open Scope Z_scope.

(* ------------------------------------------------------------------ *)
(* Part 1: code = model                                                 *)

Lemma land_mask (n k : Z) : 0 <= k ->
  Z.land (n + (2 ^ k - 1)) (- (2 ^ k - 1) - 1) = (n + (2 ^ k - 1)) / 2 ^ k * 2 ^ k.
Proof.
  intros Hk.
  replace (- (2 ^ k - 1) - 1) with (Z.lnot (Z.ones k)).
  2:{ rewrite Z.ones_equiv. unfold Z.lnot. lia. }
  rewrite <- Z.ldiff_land, Z.ldiff_ones_r by assumption.
  rewrite Z.shiftr_div_pow2, Z.shiftl_mul_pow2 by assumption. reflexivity.
Qed.

(* Heap._roundup as translated on this run is the model's roundup for every n and every
   power-of-two alignment *)
Lemma gen_roundup : forall n k, 0 <= k ->
  K_heap.roundup tt (PInt n) (PInt (2 ^ k)) = Ok (PInt (Heap.roundup n (2 ^ k))) tt.
Proof.
  intros n k Hk. unfold K_heap.roundup, Heap.roundup. cbn.
  rewrite land_mask by assumption. reflexivity.
Qed.

Lemma gen_roundup_val n k : 0 <= k ->
  roundup_val (PInt n) (PInt (2 ^ k)) = PInt (Heap.roundup n (2 ^ k)).
Proof. intros Hk. unfold roundup_val. rewrite gen_roundup by assumption. reflexivity. Qed.

Lemma gen_alignment : c__alignment = PInt Heap.alignment.
Proof. reflexivity. Qed.

Lemma gen_malloc_size : forall n, G_heap.malloc_size (PInt n) = PInt (Heap.norm_size n).
Proof.
  intros n. unfold G_heap.malloc_size, Heap.norm_size, c__alignment, Heap.alignment.
  cbn [py_max arith as_int]. change 8 with (2 ^ 3). apply gen_roundup_val. lia.
Qed.

Lemma gen_arena_length : forall ns size k, 0 <= k ->
  G_heap.arena_length (PInt ns) (PInt size) (PInt (2 ^ k)) = PInt (Heap.arena_length ns size (2 ^ k)).
Proof.
  intros ns size k Hk. unfold G_heap.arena_length, Heap.arena_length.
  cbn [py_max arith as_int]. apply gen_roundup_val. assumption.
Qed.

Lemma gen_next_size : forall ns, G_heap.next_size (PInt ns) = PInt (ns * 2).
Proof. reflexivity. Qed.

Lemma gen_malloc_assert : forall n,
  truth (G_heap.malloc_assert (PInt n) (PInt Heap.maxsize)) = negb ((n <? 0) || (Heap.maxsize <=? n)).
Proof.
  intros n. unfold G_heap.malloc_assert. cbn.
  destruct (0 <=? n) eqn:E1; cbn; destruct (n <? Heap.maxsize) eqn:E2; cbn; lia.
Qed.

Lemma gen_malloc_split : forall a b,
  G_heap.malloc_new_stop (PInt a) (PInt b) = PInt (a + b) /\
  G_heap.malloc_split (PInt a) (PInt b) = PBool (a <? b).
Proof. intros; split; reflexivity. Qed.

Lemma gen_search : G_heap.search_is_bisect_left = true.
Proof. reflexivity. Qed.

(* the lock created by Heap.__init__ is of the kind the model assumes (not re-entrant), and free()
   takes it with a non-blocking acquire whose failure branch is the append to the pending list *)
Lemma gen_lock : G_heap.lock_reentrant = Heap.lock_reentrant /\ G_heap.free_trylock = true.
Proof. split; reflexivity. Qed.

(* ------------------------------------------------------------------ *)
(* Part 4: the property theorems                                        *)

(* every sequence of operations with valid frees runs without an exception and ends in a
   state satisfying the invariant *)
Theorem reachable_inv pg size ops : pg_ok pg -> valid_run pg (heap_init size) ops ->
  exists h, run pg (heap_init size) ops = OK h /\ HeapInv h.
Proof. intros Hpg Hv. apply run_ok; [assumption|apply heap_init_inv|assumption]. Qed.

Lemma inv_L_alloc h x : In x (alloc h) -> In x (L h []).
Proof. intros Hx. unfold L. apply in_or_app; right. apply in_or_app; left. assumption. Qed.
Lemma inv_L_free h x : In x (F h) -> In x (L h []).
Proof. intros Hx. unfold L. apply in_or_app; left. assumption. Qed.
Lemma L_nil h : L h [] = F h ++ alloc h.
Proof. unfold L. rewrite app_nil_r. reflexivity. Qed.

(* live blocks: inside their arena, 8-aligned, non-empty, pairwise disjoint *)
Theorem live_blocks h : HeapInv h ->
  (forall b, In b (alloc h) -> wf (arenas h) b) /\
  (forall x y, In x (alloc h) -> In y (alloc h) -> x <> y -> disj x y).
Proof.
  intros [[_ HG _] _]. split.
  - intros b Hb. eapply geo_wf; [exact HG|apply inv_L_alloc; assumption].
  - intros x y Hx Hy Hne. eapply geo_disj; [exact HG| | |assumption]; apply inv_L_alloc; assumption.
Qed.

(* free + live blocks exactly partition every arena *)
Theorem partition h : HeapInv h ->
  NoDup (F h ++ alloc h) /\
  (forall b, In b (F h ++ alloc h) -> wf (arenas h) b) /\
  (forall x y, In x (F h ++ alloc h) -> In y (F h ++ alloc h) -> x <> y -> disj x y) /\
  (forall a sz p, asize (arenas h) a = Some sz -> 0 <= p < sz ->
     exists b, In b (F h ++ alloc h) /\ b_arena b = a /\ b_start b <= p < b_stop b).
Proof.
  intros [[_ HG _] _]. rewrite <- L_nil. split; [eapply geo_nodup; exact HG|]. split; [|split].
  - intros b Hb. eapply geo_wf; eassumption.
  - intros x y Hx Hy Hne. eapply geo_disj; eassumption.
  - exact (g_cov _ _ HG).
Qed.

(* hence: the owner of a byte is unique *)
Theorem owner_unique h u v a p : HeapInv h ->
  In u (F h ++ alloc h) -> In v (F h ++ alloc h) ->
  b_arena u = a -> b_start u <= p < b_stop u -> b_arena v = a -> b_start v <= p < b_stop v -> u = v.
Proof.
  intros HI Hu Hv Hau Hpu Hav Hpv.
  destruct (partition h HI) as [_ [_ [Hd _]]].
  destruct (block_eqb u v) eqn:E; [apply block_eqb_spec; assumption|].
  assert (Hne : u <> v) by (intros ->; rewrite (proj2 (block_eqb_spec v v) eq_refl) in E; discriminate).
  specialize (Hd u v Hu Hv Hne). unfold disj in Hd. lia.
Qed.

(* no two free blocks are adjacent *)
Theorem free_coalesced h : HeapInv h -> coalesced (F h).
Proof. intros [[_ _ HC] _]. exact HC. Qed.

(* the four indexes describe the same set of free blocks *)
Theorem indexes_agree h : HeapInv h ->
  NoDup (F h) /\
  (forall l, In l (lengths h) <-> exists b, In b (F h) /\ blen b = l) /\
  (forall l seq, dget Z.eqb l (l2s h) = Some seq -> seq <> [] /\ forall b, In b seq -> blen b = l /\ In b (F h)) /\
  (forall k b, dget key_eqb k (s2b h) = Some b <-> In b (F h) /\ k = skey b) /\
  (forall k b, dget key_eqb k (e2b h) = Some b <-> In b (F h) /\ k = ekey b).
Proof.
  intros [[HI _ _] _]. destruct HI as [HL Hnd Hs He]. split; [assumption|]. split; [|split; [|split]].
  - intros l. rewrite (l_keys _ _ HL). split.
    + intros Hl. apply in_map_iff in Hl as [[l0 seq] [E Hent]]. cbn in E; subst l0.
      destruct (l_seq _ _ HL _ _ Hent) as [Hne Hb]. destruct seq as [|b r]; [contradiction|].
      exists b. split; [|apply Hb; left; reflexivity].
      unfold F. apply in_concat. exists (b :: r). split; [|left; reflexivity].
      change (b :: r) with (snd (l, b :: r)). apply in_map. assumption.
    + intros [b [Hb Hl]].
      assert (HI : IdxInv h) by (constructor; assumption).
      pose proof (F_blen_in_lengths h b HI Hb) as H. rewrite Hl in H. apply (l_keys _ _ HL). assumption.
  - intros l seq Hg. apply dget_some_in in Hg; [|apply zeqb_spec].
    destruct (l_seq _ _ HL _ _ Hg) as [Hne Hb]. split; [assumption|]. intros b Hin. split; [auto|].
    unfold F. apply in_concat. exists seq. split; [|assumption].
    change seq with (snd (l, seq)). apply in_map. assumption.
  - intros k b. split; [intros Hg; exact (KInv_get skey _ (F h) k b Hs Hg)|].
    intros [Hb ->]. exact (KInv_get_in skey _ (F h) b Hs Hb).
  - intros k b. split; [intros Hg; exact (KInv_get ekey _ (F h) k b He Hg)|].
    intros [Hb ->]. exact (KInv_get_in ekey _ (F h) b He Hb).
Qed.

(* what malloc returns *)
Theorem malloc_block pg h n b h' : pg_ok pg -> HeapInv h -> 0 <= n < maxsize ->
  malloc pg h n = OK (b, h') ->
  HeapInv h' /\ In b (alloc h') /\ Z.max n 1 <= blen b /\ wf (arenas h') b /\
  (forall x, In x (alloc h') -> x <> b -> disj b x) /\
  (forall x, In x (alloc h) -> ~ In x (pending h) -> In x (alloc h') /\ x <> b).
Proof.
  intros Hpg HI Hn E.
  destruct (malloc_ok pg h n Hpg HI Hn) as [b0 [h0 [hd [E0 [Ed [HI' [Hp [Hlen [Ha [Hni _]]]]]]]]]].
  rewrite E in E0. inversion E0; subst b0 h0.
  assert (Hb : In b (alloc h')) by (rewrite Ha; left; reflexivity).
  destruct (live_blocks h' HI') as [Hwf Hdj].
  split; [assumption|]. split; [assumption|].
  split; [destruct (norm_size_props n ltac:(lia)); lia|]. split; [auto|]. split; [intros x Hx Hne; apply Hdj; auto|].
  intros x Hx Hnp.
  destruct (drain_ok h HI) as [hd' [Ed' [_ [_ [_ [_ HP]]]]]]. rewrite Ed in Ed'. inversion Ed'; subst hd'.
  assert (Hxd : In x (alloc hd)).
  { eapply Permutation_in in Hx; [|exact HP]. apply in_app_or in Hx. destruct Hx as [Hx|Hx]; [|assumption].
    apply in_rev in Hx. contradiction. }
  split; [rewrite Ha; right; assumption|]. intros ->. contradiction.
Qed.

(* a new arena is mapped only when (after the pending frees) every free block is too short;
   otherwise the block is carved from the start of a best-fitting free block *)
Theorem no_needless_arena pg h n b h' hd : pg_ok pg -> HeapInv h -> 0 <= n < maxsize ->
  malloc pg h n = OK (b, h') -> drain h = OK hd ->
  (arenas h' = arenas h /\
   exists blk, In blk (F hd) /\ b_arena b = b_arena blk /\ b_start b = b_start blk /\
               norm_size n <= blen blk /\
               forall x, In x (F hd) -> norm_size n <= blen x -> blen blk <= blen x)
  \/
  (arenas h' = arenas h ++ [arena_length (nsize h) (norm_size n) pg] /\
   b_arena b = Z.of_nat (length (arenas h)) /\ b_start b = 0 /\ nsize h' = nsize h * 2 /\
   forall x, In x (F hd) -> blen x < norm_size n).
Proof.
  intros Hpg HI Hn E Ed.
  destruct (malloc_ok pg h n Hpg HI Hn) as [b0 [h0 [hd0 [E0 [Ed0 [_ [_ [_ [_ [_ Hcase]]]]]]]]]].
  rewrite E in E0. inversion E0; subst b0 h0. rewrite Ed in Ed0. inversion Ed0; subst hd0.
  destruct Hcase as [[H1 [H2 H3]]|[H1 [H2 [H3 [H4 H5]]]]]; [left; auto|right; auto 6].
Qed.

Lemma nodup_app_r {A} (l1 l2 : list A) : NoDup (l1 ++ l2) -> NoDup l2.
Proof. induction l1 as [|a r IH]; cbn; [trivial|]. intros H; inversion H; auto. Qed.
Lemma nodup_app_disjoint {A} (l1 l2 : list A) x : NoDup (l1 ++ l2) -> In x l1 -> In x l2 -> False.
Proof.
  induction l1 as [|a r IH]; cbn; [intros _ []|]. intros H [->|Hx] Hx2; inversion H as [|? ? Hni Hr]; subst.
  - apply Hni, in_or_app; right; assumption.
  - eapply IH; eassumption.
Qed.

(* free: exactly the block and the pending ones leave the live set; nothing is mapped *)
Theorem free_block h b h' : HeapInv h -> In b (alloc h) -> ~ In b (pending h) ->
  free h b = OK h' ->
  HeapInv h' /\ arenas h' = arenas h /\
  forall x, In x (alloc h') <-> (In x (alloc h) /\ x <> b /\ ~ In x (pending h)).
Proof.
  intros HI Hb Hnp E.
  destruct (free_ok h b HI Hb Hnp) as [h0 [E0 [HI' [_ [Har [_ HP]]]]]].
  rewrite E in E0. inversion E0; subst h0. split; [assumption|]. split; [assumption|].
  assert (Hnd : NoDup (b :: rev (pending h) ++ alloc h')).
  { eapply Permutation_NoDup; [exact HP|]. destruct (partition h HI) as [Hnd _].
    eapply nodup_app_r; eassumption. }
  intros x. split.
  - intros Hx. split; [eapply Permutation_in; [apply Permutation_sym; exact HP|right; apply in_or_app; right; assumption]|].
    inversion Hnd as [|? ? Hni Hnd']; subst. split.
    + intros ->. apply Hni. apply in_or_app; right; assumption.
    + intros Hxp. apply in_rev in Hxp. eapply nodup_app_disjoint; eassumption.
  - intros [Hx [Hne Hnp']]. eapply Permutation_in in Hx; [|exact HP].
    destruct Hx as [<-|Hx]; [contradiction|]. apply in_app_or in Hx. destruct Hx as [Hx|Hx]; [|assumption].
    apply in_rev in Hx. contradiction.
Qed.

(* ---- deferred free ---- *)
(* it only appends to the pending list ... *)
Theorem deferred_only_queues h b :
  let h' := free_deferred h b in
  lengths h' = lengths h /\ l2s h' = l2s h /\ s2b h' = s2b h /\ e2b h' = e2b h /\
  alloc h' = alloc h /\ arenas h' = arenas h /\ nsize h' = nsize h /\ pending h' = pending h ++ [b].
Proof. cbn. repeat split. Qed.

Lemma set_pending_nil h : pending h = [] -> set_pending h [] = h.
Proof. destruct h; cbn. intros ->. reflexivity. Qed.

Lemma drain_deferred h b : pending h = [] -> drain (free_deferred h b) = free h b.
Proof.
  intros Hp. unfold free, drain, free_deferred. cbn [pending set_pending]. rewrite Hp. cbn [app rev drain_list bind].
  unfold set_pending. cbn [lengths l2s s2b e2b alloc arenas nsize].
  destruct (free_one _ b); reflexivity.
Qed.

(* ... and at the next malloc/free it has exactly the effect of an immediate free *)
Definition plain_op (o : op) : Prop := match o with Malloc _ | Free _ => True | _ => False end.

Theorem deferred_equals_immediate pg h b o : HeapInv h -> pending h = [] ->
  In b (alloc h) -> plain_op o ->
  step pg (free_deferred h b) o = (do xh <- step pg h (Free b); step pg (snd xh) o).
Proof.
  intros HI Hp Hb Ho.
  assert (Hnp : ~ In b (pending h)) by (rewrite Hp; intros []).
  destruct (free_ok h b HI Hb Hnp) as [hf [Ef [_ [Hpf _]]]].
  assert (Hd : drain hf = OK hf).
  { unfold drain. rewrite Hpf. cbn [rev drain_list]. rewrite (set_pending_nil hf Hpf). reflexivity. }
  cbn [step]. rewrite Ef. cbn [bind snd].
  destruct o as [n|c|c|n p v|c p v]; try contradiction; cbn [step].
  - unfold malloc. destruct ((n <? 0) || (maxsize <=? n)); [reflexivity|].
    rewrite (drain_deferred h b Hp), Ef, Hd. reflexivity.
  - unfold free. rewrite (drain_deferred h b Hp), Ef, Hd. reflexivity.
Qed.

(* ---- the free blocks are determined by the live set ------------------------------
   Two states with the same arenas and the same live blocks have the same free blocks:
   the free list is exactly the set of maximal gaps between live blocks.  In particular
   the order in which frees (immediate or deferred) were processed is irrelevant for
   which memory is free. *)
Lemma free_not_live h x : HeapInv h -> In x (F h) -> In x (alloc h) -> False.
Proof.
  intros HI Hf Ha. destruct (partition h HI) as [Hnd _]. eapply nodup_app_disjoint; eassumption.
Qed.

Lemma other_owner_free h1 h2 x a p : HeapInv h1 -> HeapInv h2 ->
  arenas h1 = arenas h2 -> (forall b, In b (alloc h1) <-> In b (alloc h2)) ->
  In x (F h1) -> b_arena x = a -> b_start x <= p < b_stop x ->
  exists y, In y (F h2) /\ b_arena y = a /\ b_start y <= p < b_stop y.
Proof.
  intros H1 H2 Har Hal Hx Ha Hp.
  destruct (partition h1 H1) as [_ [Hwf1 _]]. destruct (partition h2 H2) as [_ [_ [_ Hc2]]].
  destruct (Hwf1 x (in_or_app _ _ _ (or_introl Hx))) as [sz [Hsz Hw]]. rewrite Ha, Har in Hsz.
  destruct (Hc2 a sz p Hsz ltac:(lia)) as [y [Hy [Hya Hyp]]].
  apply in_app_or in Hy. destruct Hy as [Hy|Hy]; [exists y; auto|].
  exfalso. apply Hal in Hy.
  assert (x = y).
  { apply (owner_unique h1 x y a p H1 (in_or_app _ _ _ (or_introl Hx)) (in_or_app _ _ _ (or_intror Hy))); assumption. }
  subst y. eapply (free_not_live h1); eassumption.
Qed.

Lemma free_canonical_incl h1 h2 : HeapInv h1 -> HeapInv h2 ->
  arenas h1 = arenas h2 -> (forall b, In b (alloc h1) <-> In b (alloc h2)) ->
  forall x, In x (F h1) -> In x (F h2).
Proof.
  intros H1 H2 Har Hal x Hx.
  assert (Hal' : forall b, In b (alloc h2) <-> In b (alloc h1)) by (intros b; symmetry; apply Hal).
  destruct (partition h1 H1) as [_ [Hwf1 [Hd1 _]]]. destruct (partition h2 H2) as [_ [Hwf2 [Hd2 _]]].
  pose proof (free_coalesced h1 H1) as HC1. pose proof (free_coalesced h2 H2) as HC2.
  destruct (Hwf1 x (in_or_app _ _ _ (or_introl Hx))) as [sz [Hsz Hw]].
  (* the h2-owner of the first byte of x *)
  destruct (other_owner_free h1 h2 x (b_arena x) (b_start x) H1 H2 Har Hal Hx eq_refl ltac:(lia)) as [y [Hy [Hya Hyp]]].
  destruct (Hwf2 y (in_or_app _ _ _ (or_introl Hy))) as [szy [Hszy Hwy]].
  assert (Es : b_start y = b_start x).
  { destruct (Z.eq_dec (b_start y) (b_start x)) as [|Hne]; [assumption|exfalso].
    (* then the byte before x belongs to the free block y in h2, hence to a free block z of h1
       that ends where x starts *)
    destruct (other_owner_free h2 h1 y (b_arena x) (b_start x - 1) H2 H1 (eq_sym Har) Hal' Hy Hya ltac:(lia))
      as [z [Hz [Hza Hzp]]].
    assert (Hzx : z <> x) by (intros ->; lia).
    pose proof (Hd1 z x (in_or_app _ _ _ (or_introl Hz)) (in_or_app _ _ _ (or_introl Hx)) Hzx) as D.
    apply (HC1 z x Hz Hx Hza). unfold disj in D. lia. }
  assert (Ee : b_stop y = b_stop x).
  { destruct (Z.lt_trichotomy (b_stop y) (b_stop x)) as [Hlt|[|Hgt]]; [exfalso|assumption|exfalso].
    - (* y ends inside x: the byte after y is free in h1 (in x), hence free in h2, adjacent to y *)
      destruct (other_owner_free h1 h2 x (b_arena x) (b_stop y) H1 H2 Har Hal Hx eq_refl ltac:(lia))
        as [w [Hw' [Hwa Hwp]]].
      assert (Hwney : w <> y) by (intros ->; lia).
      pose proof (Hd2 y w (in_or_app _ _ _ (or_introl Hy)) (in_or_app _ _ _ (or_introl Hw')) (not_eq_sym Hwney)) as D.
      apply (HC2 y w Hy Hw'); [congruence|]. unfold disj in D. lia.
    - (* y extends beyond x: the byte after x is free in h2 (in y), hence free in h1, adjacent to x *)
      destruct (other_owner_free h2 h1 y (b_arena x) (b_stop x) H2 H1 (eq_sym Har) Hal' Hy Hya ltac:(lia))
        as [z [Hz [Hza Hzp]]].
      assert (Hzx : z <> x) by (intros ->; lia).
      pose proof (Hd1 x z (in_or_app _ _ _ (or_introl Hx)) (in_or_app _ _ _ (or_introl Hz)) (not_eq_sym Hzx)) as D.
      apply (HC1 x z Hx Hz); [congruence|]. unfold disj in D. lia. }
  assert (y = x).
  { rewrite (block_eta y), (block_eta x). congruence. }
  subst y. assumption.
Qed.

Theorem free_canonical h1 h2 : HeapInv h1 -> HeapInv h2 ->
  arenas h1 = arenas h2 -> (forall b, In b (alloc h1) <-> In b (alloc h2)) ->
  forall x, In x (F h1) <-> In x (F h2).
Proof.
  intros H1 H2 Har Hal x. split.
  - apply free_canonical_incl; assumption.
  - apply free_canonical_incl; [assumption|assumption|congruence|]. intros b; symmetry; apply Hal.
Qed.

(* ---- the re-entrant free ----------------------------------------------------------
   free(v) issued by the thread that is inside malloc(n) / free(b) (a finaliser run by the
   garbage collector): with the lock the code creates, at whichever point of the outer call
   it happens, it is a deferred free -- placed before the outer call if the pending list has
   not been drained yet, after it otherwise. *)
Theorem nested_free_in_malloc pg p v h n :
  malloc_re lock_reentrant pg (Some (p, v)) h n =
  if rpoint_eqb p RLocked then malloc pg (free_deferred h v) n
  else do bh <- malloc pg h n; OK (fst bh, free_deferred (snd bh) v).
Proof.
  unfold lock_reentrant. destruct p; cbn [rpoint_eqb];
    [apply malloc_re_locked|apply malloc_re_post; discriminate ..].
Qed.

Theorem nested_free_in_free p v h b :
  free_re lock_reentrant (Some (p, v)) h b =
  if rpoint_eqb p RLocked then free (free_deferred h v) b
  else do h' <- free h b; OK (free_deferred h' v).
Proof.
  unfold lock_reentrant. destruct p; cbn [rpoint_eqb];
    [apply free_re_locked|apply free_re_post; discriminate ..].
Qed.
