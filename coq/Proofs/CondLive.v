(* C17, second part: LIVENESS-side facts about the Condition / Event programs.

   Proofs/CondProofs.v proves the safety invariant [Inv].  Every "is woken" theorem there
   is conditional on the notifier reaching the end of its call.  This file closes that gap:

   - [Live]: a LOWER bound on the wake-up tokens (the acknowledgements a notifier still
     waits for are covered by tokens in the wait semaphore, acknowledgements already in
     the woken count, or threads standing at their acknowledgement), and "the event flag
     is 1 while a set() is past its flag release";
   - [M]: a variant that strictly decreases with EVERY step of EVERY thread, so every
     schedule is finite, with an explicit bound (no fairness assumption is needed);
   - progress: a notifier standing at its blocking acquire of the woken count always has
     an enabled thread next to it; more generally a state in which no thread can step has
     the lock free and consists of finished threads, untimed sleepers and threads blocked
     on the user semaphores only;
   - the unconditional wake-up theorems and the trace forms for notify / Event.set. *)
From Coq Require Import ZArith List Bool Lia ZifyBool Arith.
From BV Require Import Model.SemProg Model.CondProg Proofs.SemProgProofs Proofs.CondProofs.
Import ListNotations.
Open Scope Z_scope.

Opaque upds updz upd.

(* ------------------------------------------------------------------ weights *)
Local Open Scope nat_scope.
(* acknowledgements this notifier is still going to collect with a BLOCKING acquire, for
   which it has already released the token *)
Definition w_low (c p : nat) (r : regs) : Z :=
  match c, p with
  | 1, 12 => 1%Z
  | 2, (10|12) => r3 r
  | 2, 18 => (r3 r - r4 r)%Z
  | 4, (12|14) => r3 r
  | 4, 20 => (r3 r - r4 r)%Z
  | _, _ => 0%Z
  end.
(* a waiter standing at its acknowledgement (_woken_count.release()) *)
Definition w_a10 (c p : nat) : Z :=
  match c, p with
  | 0, 10 => 1%Z
  | 6, 14 => 1%Z
  | _, _ => 0%Z
  end.
(* Event.set past its flag acquire *)
Definition w_set (c p : nat) : Z :=
  match c, p with
  | 4, (2|4|6|8|12|14|20|23|26) => 1%Z
  | _, _ => 0%Z
  end.
(* variant: position inside the call, plus 64 for every counter increment the rest of the
   call may still perform (weights: woken 64, sleeping 128, wait semaphore 64) *)
Definition w_mu (c p : nat) : Z :=
  match c, p with
  | 0, 0 => 252%Z
  | 0, 2 => 248%Z
  | 0, 6 => 112%Z
  | 0, 9 => 106%Z
  | 0, 10 => 104%Z
  | 0, 13 => 34%Z
  | 0, 17 => 26%Z
  | 1, 0 => 60%Z
  | 1, 2 => 56%Z
  | 1, 4 => 52%Z
  | 1, 6 => 48%Z
  | 1, 9 => 42%Z
  | 1, 11 => 102%Z
  | 1, 12 => 36%Z
  | 1, 13 => 34%Z
  | 1, 14 => 32%Z
  | 2, 0 => 60%Z
  | 2, 2 => 56%Z
  | 2, 4 => 52%Z
  | 2, 6 => 48%Z
  | 2, 10 => 40%Z
  | 2, 12 => 105%Z
  | 2, 18 => 24%Z
  | 2, 21 => 18%Z
  | 2, 24 => 12%Z
  | 3, 0 => 60%Z
  | 3, 1 => 58%Z
  | 3, 3 => 54%Z
  | 3, 4 => 52%Z
  | 3, 7 => 46%Z
  | 4, 0 => 60%Z
  | 4, 1 => 58%Z
  | 4, 2 => 56%Z
  | 4, 4 => 52%Z
  | 4, 6 => 48%Z
  | 4, 8 => 44%Z
  | 4, 12 => 36%Z
  | 4, 14 => 101%Z
  | 4, 20 => 20%Z
  | 4, 23 => 14%Z
  | 4, 26 => 8%Z
  | 5, 0 => 60%Z
  | 5, 1 => 58%Z
  | 5, 2 => 56%Z
  | 6, 0 => 252%Z
  | 6, 1 => 250%Z
  | 6, 3 => 246%Z
  | 6, 6 => 240%Z
  | 6, 10 => 104%Z
  | 6, 13 => 98%Z
  | 6, 14 => 96%Z
  | 6, 17 => 26%Z
  | 6, 21 => 18%Z
  | 6, 23 => 14%Z
  | 6, 24 => 12%Z
  | 6, 27 => 6%Z
  | (7|8|9|10|11|12|13|14), 0 => 60%Z
  | _, _ => 0%Z
  end.
Local Close Scope nat_scope.

Definition cw (c : call) : Z := w_mu (fst (fst c)) 0.
Definition scw (sc : list call) : Z := sumz cw sc.

Definition t_low (t : thread) : Z := if fin t then 0 else w_low (cid t) (pc t) (rg t).
Definition t_a10 (t : thread) : Z := if fin t then 0 else w_a10 (cid t) (pc t).
Definition t_set (t : thread) : Z := if fin t then 0 else w_set (cid t) (pc t).
Definition t_mu (t : thread) : Z := if fin t then 0 else scw (script t) + w_mu (cid t) (pc t).

(* the liveness invariant *)
Definition Live (g : sys) : Prop :=
  sumz t_low (thr g) <= vv 3 g + vv 2 g + sumz t_a10 (thr g) /\
  (0 < sumz t_set (thr g) -> aflag g = 1).

(* the variant *)
Definition M (g : sys) : Z := 64 * (vv 2 g + 2 * vv 1 g + vv 3 g) + sumz t_mu (thr g).

(* ------------------------------------------------------------------ shape of a step, generalised *)
(* inside the body of notify / notify_all / Event.set, holding the lock *)
Definition in_body (t : thread) : bool :=
  negb (fin t) && ((Nat.eqb (cid t) 1 && Nat.leb 2 (pc t)) || (Nat.eqb (cid t) 2 && Nat.leb 2 (pc t))
                   || (Nat.eqb (cid t) 4 && Nat.leb 1 (pc t))).
(* a waiter between its token acquire and its re-acquisition of the lock *)
Definition in_wwx (t : thread) : bool :=
  negb (fin t) && ((Nat.eqb (cid t) 0 && (Nat.eqb (pc t) 9 || Nat.eqb (pc t) 10 || Nat.eqb (pc t) 13))
                   || (Nat.eqb (cid t) 6 && (Nat.eqb (pc t) 13 || Nat.eqb (pc t) 14 || Nat.eqb (pc t) 17))).

(* the last scheduling point of notify / notify_all / Event.set: the final lock release *)
Definition at_end (t : thread) : bool := at_ t 1 14 || at_ t 2 24 || at_ t 4 26.

Definition shape2 (g : sys) (t t' : thread) : Prop :=
  (results t' = results t \/ exists v, results t' = (cur t, v) :: results t) /\
  (results t' = results t ->
   fin t' = false /\ cur t' = cur t /\ (cid t = 0%nat \/ cid t = 6%nat -> (pc t < pc t')%nat)) /\
  (in_body t = true -> results t' = results t -> in_body t' = true) /\
  (in_body t = true -> results t' = results t \/ at_end t = true) /\
  (in_wwx t = true -> vv 0 g = 0 -> in_wwx t' = true /\ results t' = results t).

Local Open Scope nat_scope.
(* what a step of notify does to the sleeping / woken counts *)
Definition n1_spec (g g' : sys) (t t' : thread) : Prop :=
  fin t = false -> cid t = 1 ->
  match pc t with
  | 2 => at_ t' 1 4 = true /\ vv 1 g' = vv 1 g /\ vv 2 g' = vv 2 g
  | 4 => (at_ t' 1 6 = true /\ vv 1 g' = vv 1 g) \/
         (at_ t' 1 9 = true /\ vv 1 g' = vv 1 g /\ vv 2 g' = 0%Z)
  | 6 => at_ t' 1 4 = true
  | 9 => (at_ t' 1 11 = true /\ vv 1 g' = (vv 1 g - 1)%Z /\ vv 2 g' = vv 2 g) \/
         (at_ t' 1 14 = true /\ vv 1 g' = 0%Z)
  | 11 => at_ t' 1 12 = true /\ vv 1 g' = vv 1 g /\ vv 2 g' = vv 2 g
  | 12 => at_ t' 1 13 = true /\ vv 1 g' = vv 1 g
  | 13 => at_ t' 1 14 = true /\ vv 1 g' = vv 1 g
  | 14 => results t' <> results t
  | _ => True
  end.
Local Close Scope nat_scope.

Definition live_spec (g g' : sys) (t t' : thread) : Prop :=
  (Live g -> Live g') /\
  M g' < M g /\
  (t_hl t = 0 -> vv 1 g' = vv 1 g /\ t_win t' <= t_win t) /\
  (t_hl t = 0 -> t_win t = 0 -> vv 2 g' = vv 2 g /\ vv 3 g' = vv 3 g) /\
  (at_ t 0 9 || at_ t 6 13 = true -> 0 < vv 3 g \/ r0 (rg t) <> 0) /\
  shape2 g t t' /\
  n1_spec g g' t t'.

(* ------------------------------------------------------------------ small facts *)
Lemma w_a10_01 : forall c p, 0 <= w_a10 c p <= 1.
Proof. intros c p. dn c 16%nat; dn p 28%nat; cbn; lia. Qed.
Lemma w_set_01 : forall c p, 0 <= w_set c p <= 1.
Proof. intros c p. dn c 16%nat; dn p 28%nat; cbn; lia. Qed.
Lemma w_mu_nonneg : forall c p, 0 <= w_mu c p.
Proof. intros c p. dn c 16%nat; dn p 28%nat; cbn; lia. Qed.
Lemma w_excl2 : forall c p r, w_hl c p <= 0 -> w_low c p r = 0 /\ w_set c p = 0.
Proof. intros c p r. dn c 16%nat; dn p 28%nat; cbn; intros; repeat split; lia. Qed.

Lemma t_a10_01 : forall t, 0 <= t_a10 t <= 1.
Proof. intros t. unfold t_a10. destruct (fin t); [lia|apply w_a10_01]. Qed.
Lemma t_set_01 : forall t, 0 <= t_set t <= 1.
Proof. intros t. unfold t_set. destruct (fin t); [lia|apply w_set_01]. Qed.
Lemma t_excl2 : forall t, t_hl t <= 0 -> t_low t = 0 /\ t_set t = 0.
Proof. intros t. unfold t_hl, t_low, t_set. destruct (fin t); [auto|apply w_excl2]. Qed.

Lemma scw_nonneg : forall sc, 0 <= scw sc.
Proof. intros sc. apply sumz_nonneg. intros x _. apply w_mu_nonneg. Qed.
Lemma t_mu_nonneg : forall t, 0 <= t_mu t.
Proof.
  intros t. unfold t_mu. destruct (fin t); [lia|].
  pose proof (scw_nonneg (script t)). pose proof (w_mu_nonneg (cid t) (pc t)). lia.
Qed.

Lemma start_facts2 : forall sc h res, Forall okcall sc ->
    let t := start code h res sc in
    t_low t = 0 /\ t_a10 t = 0 /\ t_set t = 0 /\ t_mu t = scw sc /\
    in_body t = false /\ in_wwx t = false /\ results t = res.
Proof.
  intros [|[[c a0] a1] sc] h res Hsc.
  - cbn. repeat split; reflexivity.
  - inversion Hsc as [|x l Hc Hsc']; subst. unfold okcall in Hc; cbn in Hc.
    cbv zeta. rewrite start_cons by auto.
    unfold t_low, t_a10, t_set, t_mu, in_body, in_wwx, cid, scw, cw;
      cbn [fin script results rg cur pc held fst snd sumz].
    dn c 15%nat; try lia;
      cbn [w_low w_a10 w_set w_mu Nat.eqb Nat.leb andb orb negb fst snd]; repeat split; lia.
Qed.

Lemma cons_neq : forall A (x : A) l, x :: l = l -> False.
Proof. intros A x l H. apply (f_equal (@length _)) in H. cbn in H. lia. Qed.

Ltac simpw2 :=
  cbn [t_hl t_win t_pend t_ntok t_fh t_sz w_hl w_win w_pend w_ntok w_fh w_sz
       t_low t_a10 t_set t_mu w_low w_a10 w_set w_mu
       r0 r1 r2 r3 r4 r5 r6 r7 rg cur pc held script results fin cid fst snd val set_val maxv recur] in *.

Ltac solve_start2 Hsc :=
  match goal with
  | |- context [start code ?h' ?res' ?sc'] =>
      let SG := fresh "SG" in
      pose proof (start_facts2 sc' h' res' Hsc) as SG; cbv zeta in SG;
      destruct SG as (SG0 & SG1 & SG2 & SG3 & SG4 & SG5 & SG6)
  end.

Ltac rw_start :=
  repeat match goal with
         | E : _ (start code _ _ _) = _ |- _ => rewrite ?E in *; revert E
         end; intros.

(* the arithmetic conjuncts *)
Ltac fin_arith Ht :=
  unfold Live, M, aflag, vv; cbn [sems thr];
  rewrite ?(sumz_upd _ t_low _ _ _ _ Ht), ?(sumz_upd _ t_a10 _ _ _ _ Ht), ?(sumz_upd _ t_set _ _ _ _ Ht),
          ?(sumz_upd _ t_mu _ _ _ _ Ht), ?(sumz_upd _ t_fh _ _ _ _ Ht);
  rewrite ?nth_upds_same, ?nth_upds_other by discriminate;
  cbn [t_hl t_win t_pend t_ntok t_fh t_sz w_hl w_win w_pend w_ntok w_fh w_sz
       t_low t_a10 t_set t_mu w_low w_a10 w_set w_mu
       r0 r1 r2 r3 r4 r5 r6 r7 rg cur pc held script results fin cid fst snd val set_val maxv recur];
  repeat match goal with E : _ (start code _ _ _) = _ |- _ => rewrite ?E end.

Ltac fin_shape Ht :=
  unfold shape2, n1_spec, vv; cbn [sems thr];
  rewrite ?nth_upds_same, ?nth_upds_other by discriminate;
  repeat match goal with E : _ (start code _ _ _) = _ |- _ => rewrite ?E end;
  unfold at_end, in_body, in_wwx, at_; simpw2; cbn [Nat.eqb Nat.leb andb negb orb];
  repeat split; intros; try discriminate;
  try match goal with |- _ <> _ => intro end;
  try (exfalso; eapply cons_neq; eassumption);
  try lia; auto;
  try solve [left; repeat split; try reflexivity; lia
            | right; repeat split; try reflexivity; lia
            | right; eexists; reflexivity].

Lemma step_live : forall g i go g' e t, Inv g -> small g -> nth_error (thr g) i = Some t ->
    step code g i go = Some (g', e) ->
    live_spec g g' t (thread_at g' i).
Proof.
  intros g i go g' e t HI Hsm Ht H.
  unfold step in H. rewrite Ht in H.
  destruct (fin t) eqn:Hf; [discriminate|].
  pose proof (i_li g HI t (nth_error_In _ _ Ht)) as Hli.
  destruct (i_shape g HI) as [HmL H14].
  destruct (H14 1%nat ltac:(lia)) as [Hr1 Hm1]. destruct (H14 2%nat ltac:(lia)) as [Hr2 Hm2].
  destruct (H14 3%nat ltac:(lia)) as [Hr3 Hm3]. destruct (H14 4%nat ltac:(lia)) as [Hr4 Hm4].
  pose proof (i_lock g HI) as Ilock. pose proof (i_lock0 g HI) as Ilock0.
  pose proof (i_count g HI) as Icount. pose proof (i_s0 g HI) as Is0. pose proof (i_w0 g HI) as Iw0.
  pose proof (i_tok g HI) as Itok. pose proof (i_flag g HI) as Iflag. pose proof (i_sz g HI) as Isz.
  destruct Hsm as (Hs1 & Hs2 & Hs3). unfold vv, SVM in *.
  assert (Hge : t_hl t <= sumz t_hl (thr g)) by (eapply sumz_ge_elem; eauto; intros; apply t_hl_01).
  assert (Hgw : t_win t <= sumz t_win (thr g)) by (eapply sumz_ge_elem; eauto; intros; apply t_win_01).
  assert (Hgn : 0 <= sumz t_win (thr g)) by (apply sumz_nonneg; intros; apply t_win_01).
  assert (Hgf : 0 <= sumz t_fh (thr g)) by (apply sumz_nonneg; intros; apply t_fh_01).
  assert (Hga : 0 <= sumz t_a10 (thr g)) by (apply sumz_nonneg; intros; apply t_a10_01).
  assert (Hgs : 0 <= sumz t_set (thr g)) by (apply sumz_nonneg; intros; apply t_set_01).
  assert (Hgaa : t_a10 t <= sumz t_a10 (thr g)) by (eapply sumz_ge_elem; eauto; intros; apply t_a10_01).
  assert (Hex : 1 <= t_hl t -> sumz t_pend (thr g) = t_pend t /\ sumz t_ntok (thr g) = t_ntok t /\
                               sumz t_fh (thr g) = t_fh t /\ sumz t_sz (thr g) = t_sz t /\
                               sumz t_low (thr g) = t_low t /\ sumz t_set (thr g) = t_set t).
  { intros H1. repeat split; eapply (sumz_excl _ t_hl); eauto; try (intros; apply t_hl_01); try lia;
      intros x Hx; first [apply (t_excl x Hx) | apply (t_excl2 x Hx)]. }
  assert (Hex0 : t_hl t <= 0 -> t_pend t = 0 /\ t_ntok t = 0 /\ t_fh t = 0 /\ t_sz t = 0 /\
                                t_low t = 0 /\ t_set t = 0).
  { intros H1. destruct (t_excl t H1) as (A & B & C & D). destruct (t_excl2 t H1) as (E & F). auto 10. }
  destruct t as [[[c a0] a1] p [x0 x1 x2 x3 x4 x5 x6 x7] h sc rs f]. cbn [fin] in Hf; subst f.
  unfold LI in Hli; cbn [fin script results rg cur pc held cid fst snd] in Hli.
  destruct Hli as (Hsc & Hrs & Hr0 & Hpc).
  unfold cid in H; cbn [cur fst pc rg held] in H.
  dn c 15%nat; dn p 28%nat; cbn in Hpc; try contradiction.
  all: simpw2; unfold res2 in *; simpw2; split_all.
  all: first [ specialize (Hex ltac:(lia)); clear Hex0 | specialize (Hex0 ltac:(lia)); clear Hex ]; split_all.
  all: simp_in H; unfold sem_acq, sem_rel in H;
    rewrite ?Hr1, ?Hr2, ?Hr3, ?Hr4, ?Hm1, ?Hm2, ?Hm3, ?Hm4, ?HmL in H; cbn [andb] in H;
    destr_H H; try discriminate.
  all: clear Hr1 Hr2 Hr3 Hr4 Hm1 Hm2 Hm3 Hm4 HmL H14.
  all: try (exfalso; lia).
  all: inversion H; subst g' e; clear H.
  all: rewrite (thread_at_upd _ _ _ _ _ Ht).
  all: unfold advance, abort; simp; norm_held; fin_if.
  all: try solve_start Hsc Hrs.
  all: try solve_start2 Hsc.
  all: unfold live_spec.
  all: (split; [ solve [fin_arith Ht; intros [L1 L2]; split; [lia | intros; lia]] | ]).
  all: (split; [ solve [fin_arith Ht; lia] | ]).
  all: (split; [ solve [fin_arith Ht; intros; split; lia] | ]).
  all: (split; [ solve [fin_arith Ht; intros; split; lia] | ]).
  all: (split; [ solve [unfold at_, vv; simpw2; cbn [Nat.eqb andb negb orb]; intros; try discriminate; lia] | ]).
  all: solve [fin_shape Ht].
Qed.
