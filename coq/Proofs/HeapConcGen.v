(* C14, threads: the statement structure of Heap.malloc / Heap.free / Heap._free_pending_blocks as read from
   heap.py on this run (Gen/G_heap.v) is the one the interleaving model (Model/HeapConc.v) is written for:
   which statements run outside the lock, which inside `with self._lock` / after a successful try-lock,
   what the lock-taken branch of free does, and that the lock is released in a `finally`. *)
From Coq Require Import List Bool String.
From BV Require Gen.G_heap Model.HeapConc.
Import ListNotations.

Lemma gen_lock_regions :
  G_heap.malloc_outside = HeapConc.malloc_outside /\
  G_heap.malloc_locked = HeapConc.malloc_locked /\
  G_heap.free_outside = HeapConc.free_outside /\
  G_heap.free_lock_taken = HeapConc.free_lock_taken /\
  G_heap.free_locked = HeapConc.free_locked /\
  G_heap.free_finally = HeapConc.free_finally /\
  G_heap.drain_is_pop_loop = true.
Proof. repeat split; reflexivity. Qed.
