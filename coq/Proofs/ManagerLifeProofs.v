(* C20, second layer of proofs over Model/Manager.v (on top of Proofs/ManagerProofs.v):

   1. POSITIVE DISPOSAL.  A user-level operation that does not lose a reference (it is not the
      call of a proxy-returning method through a proxy without a manager -- [leaks] -- and not a
      holder vanishing without a decref -- [H_vanish]) leaves no creation in progress and no
      orphan behind.  Hence over all such histories refcount = number of LIVE PROXIES, a
      referent is in the server's table iff some live proxy (in any process) holds it, and
      once every proxy has been released the tables are exactly the initial ones
      (number_of_objects = 0).  The two excluded steps are the exact boundary: each of them
      leaves one reference that no later operation releases.

   2. THE HISTORY SEEN THROUGH THE PROXIES OF ONE REFERENT IS A LOCAL OBJECT'S HISTORY.
      In every history of request-grain events from any number of clients (creations, copies,
      drops, calls on this and on other referents, failing sends), the observations made by
      the calls that go through proxies to referent [id], in the order the server executes
      them, are those of ONE local object of the same type and initial value subjected to
      the same calls in the same order; and as long as the referent is in the table its value
      is that local object's value.  (What a single call returns on a local object is
      Manager.apply_local -- that this function is CPython's list / dict / Value is
      established by the correspondence, not here.) *)
From Coq Require Import String ZArith List Bool Lia ZifyBool.
From BV Require Import Lib.ManagerLib Lib.Cases Model.Manager Proofs.ManagerProofs.
Import ListNotations.
Open Scope Z_scope.

(* ===================================================================== small list facts *)
Lemma nth_error_last {A} (l : list A) x : nth_error (l ++ [x]) (length l) = Some x.
Proof. induction l as [|a l IH]; cbn [length app nth_error]; [reflexivity|exact IH]. Qed.

Lemma remove_nth_last {A} (l : list A) x : remove_nth (length l) (l ++ [x]) = l.
Proof.
  induction l as [|a l IH]; cbn [length app remove_nth]; [reflexivity|]. f_equal. exact IH.
Qed.

Lemma last_pending_app y l x : y_pending y = l ++ [x] -> last_pending y = length l.
Proof.
  unfold last_pending. intros ->. rewrite app_length. cbn [length].
  rewrite Nat.add_1_r. reflexivity.
Qed.

Lemma count_pos_in id (l : list Z) : 1 <= count_z id l <-> In id l.
Proof.
  induction l as [|x r IH]; cbn [count_z In].
  - split; [lia|tauto].
  - pose proof (count_z_nonneg id r). destruct (x =? id) eqn:E.
    + split; [intros _; left; lia|lia].
    + split.
      * intros H1. right. apply IH. lia.
      * intros [H1|H1]; [lia|]. apply IH in H1. lia.
Qed.

(* ============================================ 1. no reference is left behind: the fields *)
Lemma proxy_fields y pid id mg :
  y_pending (fst (cstep y (K_proxy pid id mg))) = y_pending y /\
  y_orphans (fst (cstep y (K_proxy pid id mg))) = y_orphans y.
Proof. cbn [cstep]. destruct (incref (y_srv y) id); cbn [fst y_pending y_orphans]; auto. Qed.

Lemma drop_fields y k :
  y_pending (fst (cstep y (K_drop k))) = y_pending y /\
  y_orphans (fst (cstep y (K_drop k))) = y_orphans y.
Proof. cbn [cstep]. destruct (nth_error (y_proxies y) k); cbn [fst y_pending y_orphans]; auto. Qed.

Lemma release_last_fields y l x :
  y_pending y = l ++ [x] ->
  y_pending (fst (cstep y (K_release (last_pending y)))) = l /\
  y_orphans (fst (cstep y (K_release (last_pending y)))) = y_orphans y.
Proof.
  intros Hp. rewrite (last_pending_app y l x Hp). cbn [cstep].
  rewrite Hp, nth_error_last. cbn [fst y_pending y_orphans]. rewrite remove_nth_last. auto.
Qed.

Lemma create_fields y t a newid :
  y_orphans (fst (cstep y (K_create t a newid))) = y_orphans y /\
  match snd (cstep y (K_create t a newid)) with
  | CO_reply (R_return (VCreated id)) =>
    y_pending (fst (cstep y (K_create t a newid))) = y_pending y ++ [id]
  | _ => y_pending (fst (cstep y (K_create t a newid))) = y_pending y
  end.
Proof.
  cbn [cstep]. destruct (create (y_srv y) t a newid) as [v s'|e s']; [destruct v|];
    cbn [fst snd y_pending y_orphans]; auto.
Qed.

Lemma call_fields y k m a newid :
  y_orphans (fst (cstep y (K_call k m a newid O))) = y_orphans y /\
  match snd (cstep y (K_call k m a newid O)) with
  | CO_reply (R_proxy rid _) =>
    y_pending (fst (cstep y (K_call k m a newid O))) = y_pending y ++ [rid]
  | _ => y_pending (fst (cstep y (K_call k m a newid O))) = y_pending y
  end.
Proof.
  cbn [cstep]. destruct (nth_error (y_proxies y) k) as [p|]; [|cbn [fst snd]; auto].
  destruct (dispatch (y_srv y) (p_id p) m a newid) as [msg s']. cbn [deliver_msg].
  destruct msg; cbn [fst snd y_pending y_orphans]; auto.
Qed.

Definition is_vanish (h : hop) : bool := match h with H_vanish _ => true | _ => false end.

(* a user-level operation that loses no reference leaves the creations-in-progress and the
   orphans exactly as they were: whatever it started, it finished *)
Lemma hstep_keeps_fields y h :
  leaks y h = false -> is_vanish h = false ->
  y_pending (fst (hstep y h)) = y_pending y /\ y_orphans (fst (hstep y h)) = y_orphans y.
Proof.
  intros Hl Hv. destruct h as [pid t a newid|k pid|k pid|pid id|k|k|k m a newid];
    cbn [hstep is_vanish] in *; try discriminate Hv.
  - pose proof (create_fields y t a newid) as [Ho Hp].
    destruct (cstep y (K_create t a newid)) as [y1 o1]. cbn [fst snd] in *.
    destruct o1 as [[v|e|rid t2|e|]| | | |]; try (split; [exact Hp|exact Ho]).
    destruct v; try (split; [exact Hp|exact Ho]).
    pose proof (proxy_fields y1 pid id true) as [Hp2 Ho2].
    destruct (cstep y1 (K_proxy pid id true)) as [y2 o2]. cbn [fst] in *.
    assert (Hp2' : y_pending y2 = y_pending y ++ [id]) by congruence.
    pose proof (release_last_fields y2 _ _ Hp2') as [Hp3 Ho3].
    destruct (cstep y2 (K_release (last_pending y2))) as [y3 o3]. cbn [fst] in *.
    split; congruence.
  - destruct (nth_error (y_proxies y) k) as [p|]; [apply proxy_fields|auto].
  - destruct (nth_error (y_proxies y) k) as [p|]; [apply proxy_fields|auto].
  - apply proxy_fields.
  - apply drop_fields.
  - cbn [leaks] in Hl. revert Hl.
    destruct (nth_error (y_proxies y) k) as [p|] eqn:En; intros Hl.
    2:{ cbn [cstep]. rewrite En. cbn [fst]. auto. }
    pose proof (call_fields y k m a newid) as [Ho Hp]. revert Hl.
    destruct (cstep y (K_call k m a newid 0)) as [y1 o1]. cbn [fst snd] in *. intros Hl.
    destruct o1 as [[v|e|rid t2|e|]| | | |]; try (split; [exact Hp|exact Ho]).
    assert (Hm : p_mgr p = true) by (destruct (p_mgr p); [reflexivity|discriminate Hl]).
    rewrite Hm.
    pose proof (proxy_fields y1 (p_pid p) rid true) as [Hp2 Ho2].
    destruct (cstep y1 (K_proxy (p_pid p) rid true)) as [y2 o2]. cbn [fst] in *.
    assert (Hp2' : y_pending y2 = y_pending y ++ [rid]) by congruence.
    pose proof (release_last_fields y2 _ _ Hp2') as [Hp3 Ho3].
    destruct (cstep y2 (K_release (last_pending y2))) as [y3 o3]. cbn [fst] in *.
    split; congruence.
Qed.

Definition no_vanish (l : list hop) : Prop := Forall (fun h => is_vanish h = false) l.

Lemma hrun_keeps_fields : forall l y,
    leaks_any y l = false -> no_vanish l ->
    y_pending (fst (hrun y l)) = y_pending y /\ y_orphans (fst (hrun y l)) = y_orphans y.
Proof.
  induction l as [|h r IH]; intros y Hl Hv; cbn [hrun fst]; [auto|].
  cbn [leaks_any] in Hl. apply orb_false_elim in Hl as [Hl1 Hl2].
  inversion Hv as [|? ? Hv1 Hv2]; subst.
  pose proof (hstep_keeps_fields y h Hl1 Hv1) as [Hp Ho].
  destruct (hstep y h) as [y1 o]. cbn [fst] in *.
  specialize (IH y1 Hl2 Hv2). destruct (hrun y1 r) as [y2 os]. cbn [fst] in *.
  split; [rewrite <- Hp|rewrite <- Ho]; apply IH.
Qed.

(* ---- the boundary: each of the two excluded steps leaves one reference for ever *)
Lemma leaking_step_leaves_creation y h :
  leaks y h = true ->
  exists rid, y_pending (fst (hstep y h)) = y_pending y ++ [rid] /\
              snd (hstep y h) = CO_fail E_Attribute.
Proof.
  intros Hl. destruct h as [pid t a newid|k pid|k pid|pid id|k|k|k m a newid];
    cbn [leaks] in Hl; try discriminate Hl.
  cbn [hstep]. pose proof (call_fields y k m a newid) as [Ho Hp]. revert Hl.
  destruct (cstep y (K_call k m a newid 0)) as [y1 o1]. cbn [fst snd] in *. intros Hl.
  destruct (nth_error (y_proxies y) k) as [p|]; [|discriminate Hl].
  destruct o1 as [[v|e|rid t2|e|]| | | |]; try discriminate Hl.
  destruct (p_mgr p); [discriminate Hl|]. exists rid. cbn [fst snd]. auto.
Qed.

Lemma vanishing_step_leaves_orphan y k p :
  nth_error (y_proxies y) k = Some p ->
  hstep y (H_vanish k) =
  (mk_sys (y_srv y) (remove_nth k (y_proxies y)) (y_pending y) (y_orphans y ++ [p_id p]), CO_ok).
Proof. intros En. cbn [hstep]. rewrite En. reflexivity. Qed.

(* no user-level operation ever releases an orphan *)
Lemma hstep_orphans_grow y h id :
  count_z id (y_orphans y) <= count_z id (y_orphans (fst (hstep y h))).
Proof.
  destruct h as [pid t a newid|k pid|k pid|pid id0|k|k|k m a newid]; cbn [hstep].
  - pose proof (create_fields y t a newid) as [Ho _].
    destruct (cstep y (K_create t a newid)) as [y1 o1]. cbn [fst snd] in *.
    destruct o1 as [[v|e|rid t2|e|]| | | |]; cbn [fst]; try (rewrite Ho; lia).
    destruct v as [|z|b|l|d|l|k0 v0|o|o| |cid|]; cbn [fst]; try (rewrite Ho; lia).
    pose proof (proxy_fields y1 pid cid true) as [_ Ho2].
    destruct (cstep y1 (K_proxy pid cid true)) as [y2 o2]. cbn [fst] in *.
    assert (Ho3 : y_orphans (fst (cstep y2 (K_release (last_pending y2)))) = y_orphans y2).
    { cbn [cstep]. destruct (nth_error (y_pending y2) (last_pending y2)); reflexivity. }
    destruct (cstep y2 (K_release (last_pending y2))) as [y3 o3]. cbn [fst] in *.
    rewrite Ho3, Ho2, Ho. lia.
  - destruct (nth_error (y_proxies y) k) as [p|]; [|cbn [fst]; lia].
    rewrite (proj2 (proxy_fields y pid (p_id p) false)). lia.
  - destruct (nth_error (y_proxies y) k) as [p|]; [|cbn [fst]; lia].
    rewrite (proj2 (proxy_fields y pid (p_id p) false)). lia.
  - rewrite (proj2 (proxy_fields y pid id0 false)). lia.
  - rewrite (proj2 (drop_fields y k)). lia.
  - destruct (nth_error (y_proxies y) k) as [p|]; cbn [fst y_orphans]; [|lia].
    rewrite count_z_app. pose proof (count_z_nonneg id [p_id p]). lia.
  - pose proof (call_fields y k m a newid) as [Ho _].
    destruct (cstep y (K_call k m a newid 0)) as [y1 o1]. cbn [fst snd] in *.
    destruct o1 as [[v|e|rid t2|e|]| | | |]; cbn [fst]; try (rewrite Ho; lia).
    destruct (nth_error (y_proxies y) k) as [p|]; cbn [fst]; [|rewrite Ho; lia].
    destruct (p_mgr p); cbn [fst]; [|rewrite Ho; lia].
    pose proof (proxy_fields y1 (p_pid p) rid true) as [_ Ho2].
    destruct (cstep y1 (K_proxy (p_pid p) rid true)) as [y2 o2]. cbn [fst] in *.
    assert (Ho3 : y_orphans (fst (cstep y2 (K_release (last_pending y2)))) = y_orphans y2).
    { cbn [cstep]. destruct (nth_error (y_pending y2) (last_pending y2)); reflexivity. }
    destruct (cstep y2 (K_release (last_pending y2))) as [y3 o3]. cbn [fst] in *.
    rewrite Ho3, Ho2, Ho. lia.
Qed.

Lemma hrun_orphans_grow : forall l y id,
    count_z id (y_orphans y) <= count_z id (y_orphans (fst (hrun y l))).
Proof.
  induction l as [|h r IH]; intros y id; cbn [hrun fst]; [lia|].
  pose proof (hstep_orphans_grow y h id) as H1.
  destruct (hstep y h) as [y1 o]. cbn [fst] in *.
  specialize (IH y1 id). destruct (hrun y1 r) as [y2 os]. cbn [fst] in *. lia.
Qed.

(* ... so the referent of a holder that vanished (killed client, swallowed decref) stays in the
   server's table whatever happens afterwards *)
Theorem orphan_never_disposed : forall l y id,
    sysinv y -> Forall hop_ok l -> 1 <= count_z id (y_orphans y) ->
    dmem (objs (y_srv (fst (hrun y l)))) id = true /\ 1 <= refcount (y_srv (fst (hrun y l))) id.
Proof.
  intros l y id Hy Hok Ho.
  pose proof (hrun_inv l y Hok Hy) as Hy'. pose proof (hrun_orphans_grow l y id) as Hg.
  set (y' := fst (hrun y l)) in *.
  assert (Hh : 1 <= holders y' id).
  { rewrite holders_unfold. pose proof (count_z_nonneg id (map p_id (y_proxies y'))).
    pose proof (count_z_nonneg id (y_pending y')). lia. }
  assert (Hid : id <> 0).
  { intros ->. rewrite (holders_zero y' Hy') in Hh. lia. }
  split; [apply (live_iff y' id Hy' Hid); exact Hh|].
  destruct Hy' as [_ H']. rewrite (H' id). exact Hh.
Qed.

Theorem vanished_holder_never_released : forall y k p l,
    sysinv y -> nth_error (y_proxies y) k = Some p -> Forall hop_ok l ->
    let y1 := fst (hstep y (H_vanish k)) in
    y_srv y1 = y_srv y /\ y_proxies y1 = remove_nth k (y_proxies y) /\
    dmem (objs (y_srv (fst (hrun y1 l)))) (p_id p) = true /\
    1 <= refcount (y_srv (fst (hrun y1 l))) (p_id p).
Proof.
  intros y k p l Hy En Hok. cbv zeta. rewrite (vanishing_step_leaves_orphan y k p En). cbn [fst].
  split; [reflexivity|]. split; [reflexivity|].
  pose proof (hstep_inv y (H_vanish k) Logic.I Hy) as Hy1.
  rewrite (vanishing_step_leaves_orphan y k p En) in Hy1. cbn [fst] in Hy1.
  apply orphan_never_disposed; [exact Hy1|exact Hok|].
  cbn [y_orphans]. rewrite count_z_app. cbn [count_z]. rewrite Z.eqb_refl.
  pose proof (count_z_nonneg (p_id p) (y_orphans y)). lia.
Qed.

(* ========================================== the keys of the object table are distinct *)
Lemma in_keys_dset {V} (d : dict V) k v k' :
  In k' (map fst (dset d k v)) -> k' = k \/ In k' (map fst d).
Proof.
  induction d as [|[k0 v0] r IH]; cbn [dset map fst In].
  - intros [H|[]]; auto.
  - destruct (k0 =? k) eqn:E; cbn [map fst In].
    + intros [H|H]; auto.
    + intros [H|H]; auto. destruct (IH H); auto.
Qed.

Lemma nodup_dset {V} (d : dict V) k v : NoDup (map fst d) -> NoDup (map fst (dset d k v)).
Proof.
  induction d as [|[k0 v0] r IH]; cbn [dset map fst]; intros H.
  - constructor; [intros []|constructor].
  - inversion H as [|? ? Hn Hr]; subst. destruct (k0 =? k) eqn:E; cbn [map fst].
    + assert (k0 = k) by lia. subst. constructor; assumption.
    + constructor; [|exact (IH Hr)]. intros Hi. destruct (in_keys_dset r k v k0 Hi); [lia|auto].
Qed.

Lemma in_keys_ddel {V} (d : dict V) k k' : In k' (map fst (ddel d k)) -> In k' (map fst d).
Proof.
  induction d as [|[k0 v0] r IH]; cbn [ddel map fst In]; [auto|].
  destruct (k0 =? k); cbn [map fst In]; intros H; [auto|]. destruct H; auto.
Qed.

Lemma nodup_ddel {V} (d : dict V) k : NoDup (map fst d) -> NoDup (map fst (ddel d k)).
Proof.
  induction d as [|[k0 v0] r IH]; cbn [ddel map fst]; intros H; [constructor|].
  inversion H as [|? ? Hn Hr]; subst. destruct (k0 =? k); [exact (IH Hr)|].
  cbn [map fst]. constructor; [|exact (IH Hr)]. intros Hi. apply Hn. exact (in_keys_ddel r k k0 Hi).
Qed.

Definition keys_ok (s : st) : Prop := NoDup (map fst (objs s)).

Lemma keys_init : keys_ok init_st.
Proof. unfold keys_ok, init_st. cbn. constructor; [intros []|constructor]. Qed.

Lemma keys_incref s id : keys_ok s -> keys_ok (out_st (incref s id)).
Proof. unfold incref. destruct (dget (rcs s) id); cbn [out_st]; auto. Qed.

Lemma keys_decref s id : keys_ok s -> keys_ok (out_st (decref s id)).
Proof.
  unfold decref, keys_ok. intros H. destruct (dget (rcs s) id) as [n|]; cbn [out_st]; [|exact H].
  destruct (n >=? 1); cbn [out_st]; [|exact H].
  destruct (n - 1 =? 0); cbn [out_st objs set_rcs]; [|exact H].
  destruct (dmem (objs s) id); cbn [out_st objs set_rcs]; [|exact H].
  apply nodup_ddel. exact H.
Qed.

Lemma keys_create_tail s id e : keys_ok s -> keys_ok (out_st (create_tail s id e)).
Proof.
  unfold create_tail, keys_ok. intros H. cbn [out_st objs set_rcs set_objs]. apply nodup_dset. exact H.
Qed.

Lemma keys_create s t a newid : keys_ok s -> keys_ok (out_st (create s t a newid)).
Proof.
  intros H. unfold create. destruct (mk_obj t a) as [[o|]|e]; cbn [out_st]; try exact H.
  pose proof (keys_create_tail s newid (SlotE o t) H) as H1.
  destruct (create_tail s newid (SlotE o t)); exact H1.
Qed.

Lemma keys_dispatch s id m a newid : keys_ok s -> keys_ok (snd (dispatch s id m a newid)).
Proof.
  intros H. unfold dispatch. destruct (dget (objs s) id) as [[|o t]|]; cbn [snd]; try exact H.
  destruct (exposed_of t m && has_attr t m); cbn [snd]; [|exact H].
  destruct (apply_ref o t m a) as [[v o']|x]; cbn [snd]; [|exact H].
  assert (H1 : keys_ok (set_obj s id o' t)).
  { unfold keys_ok, set_obj, set_objs. cbn [objs]. apply nodup_dset. exact H. }
  destruct (m2t_of t m) as [t2|]; cbn [snd]; [|exact H1].
  unfold proxy_create. destruct v; cbn [snd]; try exact H1.
  - pose proof (keys_create_tail (set_obj s id o' t) newid (SlotE (OList l) t2) H1) as H2.
    destruct (create_tail (set_obj s id o' t) newid (SlotE (OList l) t2)); exact H2.
  - pose proof (keys_create_tail (set_obj s id o' t) id (SlotE o' t2) H1) as H2.
    destruct (create_tail (set_obj s id o' t) id (SlotE o' t2)); exact H2.
Qed.

Lemma keys_cstep y ev : keys_ok (y_srv y) -> keys_ok (y_srv (fst (cstep y ev))).
Proof.
  intros H. destruct ev as [t a newid|pid id mg|k|k|k m a newid sf]; cbn [cstep].
  - pose proof (keys_create (y_srv y) t a newid H) as H1.
    destruct (create (y_srv y) t a newid) as [v s'|e s']; [destruct v|]; exact H1.
  - pose proof (keys_incref (y_srv y) id H) as H1.
    destruct (incref (y_srv y) id); exact H1.
  - destruct (nth_error (y_pending y) k) as [id|]; [|exact H]. cbn [fst y_srv].
    apply keys_decref. exact H.
  - destruct (nth_error (y_proxies y) k) as [p|]; [|exact H]. cbn [fst y_srv].
    apply keys_decref. exact H.
  - destruct (nth_error (y_proxies y) k) as [p|]; [|exact H].
    pose proof (keys_dispatch (y_srv y) (p_id p) m a newid H) as H1.
    destruct (dispatch (y_srv y) (p_id p) m a newid) as [msg s']. cbn [snd] in H1.
    destruct (deliver_msg msg sf) as [outs dead].
    destruct msg; try destruct sf; exact H1.
Qed.

Lemma keys_hstep y h : keys_ok (y_srv y) -> keys_ok (y_srv (fst (hstep y h))).
Proof.
  intros H. destruct h as [pid t a newid|k pid|k pid|pid id|k|k|k m a newid]; cbn [hstep].
  - pose proof (keys_cstep y (K_create t a newid) H) as H1.
    destruct (cstep y (K_create t a newid)) as [y1 o1]. cbn [fst] in H1.
    destruct o1 as [[v|e|rid t2|e|]| | | |]; try exact H1. destruct v; try exact H1.
    pose proof (keys_cstep y1 (K_proxy pid id true) H1) as H2.
    destruct (cstep y1 (K_proxy pid id true)) as [y2 o2]. cbn [fst] in H2.
    pose proof (keys_cstep y2 (K_release (last_pending y2)) H2) as H3.
    destruct (cstep y2 (K_release (last_pending y2))) as [y3 o3]. exact H3.
  - destruct (nth_error (y_proxies y) k) as [p|]; [|exact H]. apply keys_cstep. exact H.
  - destruct (nth_error (y_proxies y) k) as [p|]; [|exact H]. apply keys_cstep. exact H.
  - apply keys_cstep. exact H.
  - apply keys_cstep. exact H.
  - destruct (nth_error (y_proxies y) k) as [p|]; exact H.
  - pose proof (keys_cstep y (K_call k m a newid 0) H) as H1.
    destruct (cstep y (K_call k m a newid 0)) as [y1 o1]. cbn [fst] in H1.
    destruct o1 as [[v|e|rid t2|e|]| | | |]; try exact H1.
    destruct (nth_error (y_proxies y) k) as [p|]; [|exact H1].
    destruct (p_mgr p); [|exact H1].
    pose proof (keys_cstep y1 (K_proxy (p_pid p) rid true) H1) as H2.
    destruct (cstep y1 (K_proxy (p_pid p) rid true)) as [y2 o2]. cbn [fst] in H2.
    pose proof (keys_cstep y2 (K_release (last_pending y2)) H2) as H3.
    destruct (cstep y2 (K_release (last_pending y2))) as [y3 o3]. exact H3.
Qed.

Lemma keys_hrun : forall l y, keys_ok (y_srv y) -> keys_ok (y_srv (fst (hrun y l))).
Proof.
  induction l as [|h r IH]; intros y H; cbn [hrun fst]; [exact H|].
  pose proof (keys_hstep y h H) as H1. destruct (hstep y h) as [y1 o]. cbn [fst] in H1.
  specialize (IH y1 H1). destruct (hrun y1 r) as [y2 os]. exact IH.
Qed.

(* a table with distinct keys in which only ident 0 is present is the initial table *)
Lemma only_zero_table (d : dict slot) :
  NoDup (map fst d) -> dget d 0 = Some Slot0 -> (forall id, id <> 0 -> dmem d id = false) ->
  d = [(0, Slot0)].
Proof.
  intros Hn H0 Hnone. destruct d as [|[k v] r]; [discriminate H0|].
  assert (Hk : k = 0).
  { destruct (Z.eq_dec k 0) as [E|E]; [exact E|]. specialize (Hnone k E).
    unfold dmem in Hnone. cbn [dget] in Hnone. rewrite Z.eqb_refl in Hnone. discriminate. }
  subst k. cbn [dget] in H0. rewrite Z.eqb_refl in H0. inversion H0; subst v.
  destruct r as [|[k' v'] r']; [reflexivity|]. exfalso.
  cbn [map fst] in Hn. inversion Hn as [|? ? Hni _]; subst.
  assert (Hk' : k' <> 0) by (intros ->; apply Hni; left; reflexivity).
  specialize (Hnone k' Hk'). unfold dmem in Hnone. cbn [dget] in Hnone.
  replace (0 =? k') with false in Hnone by lia. rewrite Z.eqb_refl in Hnone. discriminate.
Qed.

Lemma empty_counts (d : dict Z) : (forall id, dget d id = None) -> d = [].
Proof.
  intros H. destruct d as [|[k v] r]; [reflexivity|]. specialize (H k). cbn [dget] in H.
  rewrite Z.eqb_refl in H. discriminate.
Qed.

(* ======================================================= 1. the positive theorems *)
(* no creation in progress, no orphan: every counted reference is a live proxy *)
Definition drained (y : sys) : Prop := y_pending y = [] /\ y_orphans y = [].

Lemma drained_refcount y id :
  sysinv y -> drained y -> refcount (y_srv y) id = count_z id (map p_id (y_proxies y)).
Proof.
  intros [_ H] [Hp Ho]. rewrite (H id), holders_unfold, Hp, Ho. cbn [count_z]. lia.
Qed.

Lemma drained_live_iff y id :
  sysinv y -> drained y -> id <> 0 ->
  (dmem (objs (y_srv y)) id = true <-> exists p, In p (y_proxies y) /\ p_id p = id).
Proof.
  intros Hy [Hp Ho] Hid. rewrite (live_iff y id Hy Hid), holders_unfold, Hp, Ho. cbn [count_z].
  rewrite !Z.add_0_r, count_pos_in, in_map_iff. split.
  - intros (p & E & Hi). exists p. auto.
  - intros (p & Hi & E). exists p. auto.
Qed.

Lemma drained_all_released y :
  sysinv y -> keys_ok (y_srv y) -> drained y -> y_proxies y = [] ->
  objs (y_srv y) = [(0, Slot0)] /\ rcs (y_srv y) = [] /\ number_of_objects (y_srv y) = 0.
Proof.
  intros Hy Hk Hd He. pose proof Hy as [I H].
  assert (Ho : objs (y_srv y) = [(0, Slot0)]).
  { apply only_zero_table; [exact Hk|exact (inv_zero _ I)|].
    intros id Hid. destruct (dmem (objs (y_srv y)) id) eqn:E; [|reflexivity].
    apply (drained_live_iff y id Hy Hd Hid) in E. destruct E as (p & Hi & _).
    rewrite He in Hi. destruct Hi. }
  assert (Hr : rcs (y_srv y) = []).
  { apply empty_counts. intros id.
    pose proof (drained_refcount y id Hy Hd) as E. rewrite He in E. cbn [map count_z] in E.
    unfold refcount in E. destruct (dget (rcs (y_srv y)) id) as [n|] eqn:En; [|reflexivity].
    pose proof (inv_pos _ I id n En). lia. }
  split; [exact Ho|]. split; [exact Hr|]. unfold number_of_objects. rewrite Ho. reflexivity.
Qed.

(* THE POSITIVE DISPOSAL THEOREM: all histories of user-level operations in which no step loses
   a reference *)
Theorem disposed_iff_no_live_proxy : forall l,
    Forall hop_ok l -> leaks_any init_sys l = false -> no_vanish l ->
    let y := fst (hrun init_sys l) in
    y_pending y = [] /\ y_orphans y = [] /\
    (forall id, refcount (y_srv y) id = count_z id (map p_id (y_proxies y))) /\
    (forall id, id <> 0 ->
                (dmem (objs (y_srv y)) id = true <-> exists p, In p (y_proxies y) /\ p_id p = id)) /\
    (y_proxies y = [] ->
     objs (y_srv y) = [(0, Slot0)] /\ rcs (y_srv y) = [] /\ number_of_objects (y_srv y) = 0).
Proof.
  intros l Hok Hl Hv. cbv zeta.
  pose proof (hrun_inv l init_sys Hok sysinv_init) as Hy.
  pose proof (hrun_keeps_fields l init_sys Hl Hv) as [Hp Ho].
  pose proof (keys_hrun l init_sys keys_init) as Hk.
  set (y := fst (hrun init_sys l)) in *.
  assert (Hd : drained y) by (split; [exact Hp|exact Ho]).
  split; [exact Hp|]. split; [exact Ho|]. split; [|split].
  - intros id. apply drained_refcount; assumption.
  - intros id Hid. apply drained_live_iff; assumption.
  - intros He. apply drained_all_released; assumption.
Qed.

(* the same from any state of the invariant in which nothing is in progress or orphaned *)
Theorem disposed_iff_no_live_proxy_from : forall l y0,
    sysinv y0 -> drained y0 -> Forall hop_ok l -> leaks_any y0 l = false -> no_vanish l ->
    let y := fst (hrun y0 l) in
    drained y /\
    (forall id, refcount (y_srv y) id = count_z id (map p_id (y_proxies y))) /\
    (forall id, id <> 0 ->
                (dmem (objs (y_srv y)) id = true <-> exists p, In p (y_proxies y) /\ p_id p = id)).
Proof.
  intros l y0 Hy0 [Hp0 Ho0] Hok Hl Hv. cbv zeta.
  pose proof (hrun_inv l y0 Hok Hy0) as Hy.
  pose proof (hrun_keeps_fields l y0 Hl Hv) as [Hp Ho].
  set (y := fst (hrun y0 l)) in *.
  assert (Hd : drained y) by (split; congruence).
  split; [exact Hd|]. split.
  - intros id. apply drained_refcount; assumption.
  - intros id Hid. apply drained_live_iff; assumption.
Qed.

(* the last release disposes: dropping the only live proxy of a drained state removes its
   referent, dropping one of several does not *)
Theorem last_drop_disposes y k p :
  sysinv y -> drained y -> nth_error (y_proxies y) k = Some p ->
  let y' := fst (hstep y (H_drop k)) in
  (count_z (p_id p) (map p_id (y_proxies y)) = 1 -> dmem (objs (y_srv y')) (p_id p) = false) /\
  (1 < count_z (p_id p) (map p_id (y_proxies y)) ->
   dget (objs (y_srv y')) (p_id p) = dget (objs (y_srv y)) (p_id p)).
Proof.
  intros Hy [Hp Ho] En. cbv zeta. cbn [hstep].
  pose proof (drop_disposes_exactly_last y k p Hy En) as (_ & H1 & H2 & _).
  assert (Hh : holders y (p_id p) = count_z (p_id p) (map p_id (y_proxies y))).
  { rewrite holders_unfold, Hp, Ho. cbn [count_z]. lia. }
  rewrite Hh in H1, H2. auto.
Qed.

(* ============================ 2. the history of one referent is a local object's history *)
(* one call on a local object standing where the referent stands: an exposed method that is an
   attribute is executed (value or exception, the object mutated), any other name is refused
   with the object untouched (traceback, or the str / repr / copy of the CURRENT value for the
   three fallback names) *)
Definition local_step (o : obj) (t : typ) (m : meth) (a : list arg) : reply * obj :=
  if exposed_of t m && has_attr t m
  then (reply_of_local (apply_local o t m a), obj_of_local o (apply_local o t m a))
  else (fallback o m a, o).

(* what the caller gets when sf of the server's next sends fail *)
Definition client_sees (msg : reply) (sf : nat) : cobs :=
  match fst (deliver_msg msg sf) with r :: _ => CO_reply r | [] => CO_lost end.

Definition call := (meth * list arg * nat)%type.

Fixpoint local_run (o : obj) (t : typ) (cs : list call) : list cobs * obj :=
  match cs with
  | [] => ([], o)
  | (m, a, sf) :: r =>
    let (obs, o2) := local_run (snd (local_step o t m a)) t r in
    (client_sees (fst (local_step o t m a)) sf :: obs, o2)
  end.

(* the calls that go through proxies to referent id in a history, in the order the server
   executes them, each with what its caller observed *)
Definition call_on (id : Z) (y : sys) (e : cev) : list (call * cobs) :=
  match e with
  | K_call k m a newid sf =>
    match nth_error (y_proxies y) k with
    | Some p => if p_id p =? id then [((m, a, sf), snd (cstep y e))] else []
    | None => []
    end
  | _ => []
  end.

Fixpoint calls_on (id : Z) (y : sys) (evs : list cev) : list (call * cobs) :=
  match evs with
  | [] => []
  | e :: r => call_on id y e ++ calls_on id (fst (cstep y e)) r
  end.

(* the ident is not given to another object while we watch it (CPython: id() of a live object
   is unique; a freed address may be reused -- that history is a different referent) *)
Definition fresh_for (id : Z) (e : cev) : Prop :=
  match e with
  | K_create _ _ n => n <> id
  | K_call _ _ _ n _ => n <> id
  | _ => True
  end.

Definition alive_as (y : sys) (id : Z) (o : obj) (t : typ) : Prop :=
  dget (objs (y_srv y)) id = Some (SlotE o t) \/ dmem (objs (y_srv y)) id = false.

Lemma crun_cons_fst y e r : fst (crun y (e :: r)) = fst (crun (fst (cstep y e)) r).
Proof.
  cbn [crun]. destruct (cstep y e) as [y1 o]. cbn [fst]. destruct (crun y1 r). reflexivity.
Qed.

(* what a call event does, in terms of dispatch *)
Lemma cstep_call y k m a newid sf p :
  nth_error (y_proxies y) k = Some p ->
  y_srv (fst (cstep y (K_call k m a newid sf))) = snd (dispatch (y_srv y) (p_id p) m a newid) /\
  snd (cstep y (K_call k m a newid sf)) = client_sees (fst (dispatch (y_srv y) (p_id p) m a newid)) sf.
Proof.
  intros En. cbn [cstep]. rewrite En. unfold client_sees.
  destruct (dispatch (y_srv y) (p_id p) m a newid) as [msg s']. cbn [fst snd].
  destruct (deliver_msg msg sf) as [outs dead] eqn:Ed. cbn [fst].
  destruct msg; try destruct sf; cbn [fst snd y_srv]; auto.
Qed.

(* a call through a proxy to the referent = the local step *)
Lemma dispatch_is_local_step s id m a newid o t :
  dget (objs s) id = Some (SlotE o t) -> m2t_of t m = None ->
  fst (dispatch s id m a newid) = fst (local_step o t m a) /\
  dget (objs (snd (dispatch s id m a newid))) id = Some (SlotE (snd (local_step o t m a)) t).
Proof.
  intros Hg Hm. unfold local_step. destruct (exposed_of t m && has_attr t m) eqn:E.
  - apply andb_prop in E as [He Ha].
    destruct (dispatch_executes s id m a newid o t Hg He Ha Hm) as (H1 & H2 & _).
    cbn [fst snd]. auto.
  - destruct (dispatch_refuses s id m a newid) as (_ & _ & H3).
    destruct (H3 o t Hg E) as [H4 _]. rewrite H4. cbn [fst snd]. auto.
Qed.

(* any other event leaves the referent as it is, or disposes of it *)
Lemma other_event_keeps_or_disposes y e id :
  sysinv y -> ev_ok e -> fresh_for id e -> call_on id y e = [] ->
  dget (objs (y_srv (fst (cstep y e)))) id = dget (objs (y_srv y)) id \/
  dmem (objs (y_srv (fst (cstep y e)))) id = false.
Proof.
  intros Hy Hok Hf Hc. pose proof Hy as [I H].
  destruct e as [t a newid|pid id0 mg|k|k|k m a newid sf]; cbn [fresh_for call_on] in *.
  - left. apply untouched_referent_stable; [exact Hy|exact Hok|]. cbn [touches]. exact Hf.
  - left. apply untouched_referent_stable; [exact Hy|exact Hok|]. cbn [touches]. tauto.
  - cbn [cstep]. destruct (nth_error (y_pending y) k) as [id1|] eqn:En; [|left; reflexivity].
    cbn [fst y_srv]. pose proof (decref_spec (y_srv y) id1 I) as C.
    destruct (decref (y_srv y) id1) as [u s'|x s']; cbn [out_st].
    + destruct C as (_ & _ & _ & _ & F & L). destruct (Z.eq_dec id id1) as [->|Hne].
      * destruct (refcount (y_srv y) id1 =? 1); [right; exact L|left; exact L].
      * left. apply F. exact Hne.
    + destruct C as (_ & -> & _). left. reflexivity.
  - cbn [cstep]. destruct (nth_error (y_proxies y) k) as [p|] eqn:En; [|left; reflexivity].
    cbn [fst y_srv]. pose proof (decref_spec (y_srv y) (p_id p) I) as C.
    destruct (decref (y_srv y) (p_id p)) as [u s'|x s']; cbn [out_st].
    + destruct C as (_ & _ & _ & _ & F & L). destruct (Z.eq_dec id (p_id p)) as [->|Hne].
      * destruct (refcount (y_srv y) (p_id p) =? 1); [right; exact L|left; exact L].
      * left. apply F. exact Hne.
    + destruct C as (_ & -> & _). left. reflexivity.
  - left. apply untouched_referent_stable; [exact Hy|exact Hok|]. cbn [touches].
    intros [E|(p & En & E)]; [exact (Hf E)|]. rewrite En in Hc.
    replace (p_id p =? id) with true in Hc by lia. discriminate Hc.
Qed.

(* no proxy points to an ident that is not in the table *)
Lemma gone_no_calls y e id :
  sysinv y -> dmem (objs (y_srv y)) id = false -> call_on id y e = [].
Proof.
  intros Hy Hg. destruct e as [t a newid|pid id0 mg|k|k|k m a newid sf]; cbn [call_on]; try reflexivity.
  destruct (nth_error (y_proxies y) k) as [p|] eqn:En; [|reflexivity].
  destruct (p_id p =? id) eqn:E; [|reflexivity]. exfalso.
  destruct (proxy_live y k p Hy En) as (_ & o & t & Hd). assert (p_id p = id) by lia. subst id.
  unfold dmem in Hg. rewrite Hd in Hg. discriminate.
Qed.

Lemma call_on_cases id y e :
  call_on id y e = [] \/
  exists k m a newid sf p,
    e = K_call k m a newid sf /\ nth_error (y_proxies y) k = Some p /\ p_id p = id /\
    call_on id y e = [((m, a, sf), snd (cstep y e))].
Proof.
  destruct e as [? ? ?|? ? ?|?|?|k m a newid sf]; try (left; reflexivity).
  unfold call_on. destruct (nth_error (y_proxies y) k) as [p|] eqn:En; [|left; reflexivity].
  destruct (p_id p =? id) eqn:Ep; [|left; reflexivity].
  right. exists k, m, a, newid, sf, p. repeat split; try reflexivity; [exact En|lia].
Qed.

Section OneReferent.
  Variable id : Z.
  Variable t : typ.
  Hypothesis no_result_proxies : forall m, m2t_of t m = None.

  Lemma history_gen : forall evs y o,
      sysinv y -> Forall ev_ok evs -> Forall (fresh_for id) evs -> alive_as y id o t ->
      map snd (calls_on id y evs) = fst (local_run o t (map fst (calls_on id y evs))) /\
      alive_as (fst (crun y evs)) id (snd (local_run o t (map fst (calls_on id y evs)))) t.
  Proof.
    induction evs as [|e r IH]; intros y o Hy Hok Hf Ha.
    - cbn [calls_on map local_run fst snd crun]. split; [reflexivity|exact Ha].
    - inversion Hok as [|? ? Hok1 Hok2]; subst. inversion Hf as [|? ? Hf1 Hf2]; subst.
      rewrite crun_cons_fst. cbn [calls_on].
      pose proof (cstep_inv y e Hok1 Hy) as Hy1.
      destruct (call_on_cases id y e) as [Ec|(k & m & a & newid & sf & p & -> & En & Hpid & Ec)];
        rewrite Ec.
      + (* not a call on the referent *)
        cbn [app]. apply IH; [exact Hy1|exact Hok2|exact Hf2|].
        destruct (other_event_keeps_or_disposes y e id Hy Hok1 Hf1 Ec) as [Hs|Hg];
          [|right; exact Hg].
        destruct Ha as [Ha|Ha]; [left; rewrite Hs; exact Ha|right].
        unfold dmem in *. rewrite Hs. exact Ha.
      + (* a call through a proxy to the referent *)
        destruct Ha as [Ha|Ha]; [|rewrite (gone_no_calls y _ id Hy Ha) in Ec; discriminate Ec].
        destruct (cstep_call y k m a newid sf p En) as [Hsrv Hobs].
        destruct (dispatch_is_local_step (y_srv y) (p_id p) m a newid o t) as [Hr Hv];
          [rewrite Hpid; exact Ha|apply no_result_proxies|].
        assert (Ha1 : alive_as (fst (cstep y (K_call k m a newid sf))) id (snd (local_step o t m a)) t).
        { left. rewrite Hsrv, <- Hpid. exact Hv. }
        destruct (IH (fst (cstep y (K_call k m a newid sf))) (snd (local_step o t m a)) Hy1 Hok2 Hf2 Ha1)
          as [IH1 IH2].
        set (y1 := fst (cstep y (K_call k m a newid sf))) in *.
        set (ob := snd (cstep y (K_call k m a newid sf))) in *.
        cbn [app map fst snd local_run].
        destruct (local_run (snd (local_step o t m a)) t (map fst (calls_on id y1 r))) as [obs o2].
        cbn [fst snd] in *. split; [|exact IH2].
        rewrite Hobs, Hr, IH1. reflexivity.
  Qed.
End OneReferent.

(* THE HISTORY THEOREM *)
Theorem proxy_history_is_local_history : forall evs y id o t,
    sysinv y -> dget (objs (y_srv y)) id = Some (SlotE o t) ->
    (forall m, m2t_of t m = None) ->
    Forall ev_ok evs -> Forall (fresh_for id) evs ->
    let tr := calls_on id y evs in
    let y' := fst (crun y evs) in
    map snd tr = fst (local_run o t (map fst tr)) /\
    (dmem (objs (y_srv y')) id = true ->
     dget (objs (y_srv y')) id = Some (SlotE (snd (local_run o t (map fst tr))) t)).
Proof.
  intros evs y id o t Hy Hg Hm Hok Hf. cbv zeta.
  destruct (history_gen id t Hm evs y o Hy Hok Hf (or_introl Hg)) as [H1 H2].
  split; [exact H1|]. intros Hd. destruct H2 as [H2|H2]; [exact H2|]. rewrite H2 in Hd. discriminate.
Qed.

(* a freshly created referent: its whole life, from Server.create on *)
Theorem created_referent_history_is_local : forall evs y ty a newid o,
    sysinv y -> newid <> 0 -> mk_obj ty a = inl (Some o) -> (forall m, m2t_of ty m = None) ->
    Forall ev_ok evs -> Forall (fresh_for newid) evs ->
    let y0 := fst (cstep y (K_create ty a newid)) in
    let tr := calls_on newid y0 evs in
    map snd tr = fst (local_run o ty (map fst tr)) /\
    (dmem (objs (y_srv (fst (crun y0 evs)))) newid = true ->
     dget (objs (y_srv (fst (crun y0 evs)))) newid
     = Some (SlotE (snd (local_run o ty (map fst tr))) ty)).
Proof.
  intros evs y ty a newid o Hy Hn Hmk Hm Hok Hf. cbv zeta.
  pose proof (cstep_inv y (K_create ty a newid) Hn Hy) as Hy0.
  assert (Hg : dget (objs (y_srv (fst (cstep y (K_create ty a newid))))) newid = Some (SlotE o ty)).
  { destruct Hy as [I _]. pose proof (create_spec (y_srv y) ty a newid I Hn) as C.
    cbn [cstep]. unfold create in *. rewrite Hmk in *.
    destruct (create_tail (y_srv y) newid (SlotE o ty)) as [id' s'|e s'] eqn:Ect.
    - destruct C as (_ & _ & _ & (o1 & E1 & G) & _). cbn [fst y_srv]. inversion E1; subst o1. exact G.
    - unfold create_tail in Ect. discriminate Ect. }
  exact (proxy_history_is_local_history evs _ newid o ty Hy0 Hg Hm Hok Hf).
Qed.

(* non-vacuity of the history theorem: two clients interleave appends and pops on one list while a
   third works on a dict; the list's clients observe exactly a local list's answers *)
Definition hist_witness : list cev :=
  [K_proxy 10 1 true; K_release 0; K_proxy 11 1 false;
   K_create TDict [] 2; K_proxy 12 2 true; K_release 0;
   K_call 0 M_append [AZ 5] 9 0; K_call 2 M_setitem [AZ 1; AZ 7] 9 0; K_call 1 M_pop [] 9 0;
   K_call 1 M_pop [] 9 0; K_call 0 M_len [] 9 1; K_drop 0; K_call 0 M_append [AZ 6] 9 0].

Lemma hist_witness_ok :
  let y0 := fst (cstep init_sys (K_create TList [AL [1]] 1)) in
  Forall ev_ok hist_witness /\ Forall (fresh_for 1) hist_witness /\
  map fst (calls_on 1 y0 hist_witness)
  = [(M_append, [AZ 5], O); (M_pop, [], O); (M_pop, [], O); (M_len, [], 1%nat); (M_append, [AZ 6], O)] /\
  map snd (calls_on 1 y0 hist_witness)
  = [CO_reply (R_return VNone); CO_reply (R_return (VInt 5)); CO_reply (R_return (VInt 1));
     CO_reply R_unserializable; CO_reply (R_return VNone)] /\
  dget (objs (y_srv (fst (crun y0 hist_witness)))) 1 = Some (SlotE (OList [6]) TList).
Proof.
  cbv zeta. split; [repeat constructor; discriminate|]. split; [repeat constructor; discriminate|].
  vm_compute. repeat split; reflexivity.
Qed.

(* ================= 3. characteristic laws of the local-object specification [apply_local] *)
(* Independent of how apply_local is written: what a Python list / dict / Value must satisfy for
   ALL values.  (A sanity net under the specification; that apply_local IS CPython's behaviour
   case by case is the correspondence's business.) *)
Definition ok (v : val) : cobs := CO_reply (R_return v).

(* l.append(x); l.pop() returns x and restores l; len is back to len(l) *)
Theorem law_list_append_pop : forall l x,
    local_run (OList l) TList [(M_append, [AZ x], O); (M_len, [], O); (M_pop, [], O); (M_len, [], O)]
    = ([ok VNone; ok (VInt (Z.of_nat (length l) + 1)); ok (VInt x); ok (VInt (Z.of_nat (length l)))], OList l).
Proof.
  intros l x. unfold local_run, local_step, client_sees, ok.
  cbn [exposed_of list_exposed has_attr andb apply_local list_apply is_shelf reply_of_local obj_of_local
       fst snd deliver_msg].
  rewrite rev_unit, rev_involutive, app_length. cbn [length fst snd reply_of_local obj_of_local].
  repeat f_equal. lia.
Qed.

(* d[k] = v; d[k] is v; k in d; del d[k]; k not in d; d[k] raises KeyError *)
Theorem law_dict_set_get_del : forall d k v,
    fst (local_run (ODict d) TDict
                   [(M_setitem, [AZ k; AZ v], O); (M_getitem, [AZ k], O); (M_contains, [AZ k], O);
                    (M_delitem, [AZ k], O); (M_contains, [AZ k], O); (M_getitem, [AZ k], O)])
    = [ok VNone; ok (VInt v); ok (VBool true); ok VNone; ok (VBool false); CO_reply (R_error E_Key)].
Proof.
  intros d k v. unfold local_run, local_step, client_sees, ok.
  cbn [exposed_of has_attr andb apply_local dict_apply reply_of_local obj_of_local fst snd deliver_msg].
  rewrite dget_dset_same.
  cbn [exposed_of has_attr andb apply_local dict_apply reply_of_local obj_of_local fst snd deliver_msg].
  rewrite dmem_dset_same.
  cbn [exposed_of has_attr andb apply_local dict_apply reply_of_local obj_of_local fst snd deliver_msg].
  unfold dmem. rewrite dget_ddel_same. reflexivity.
Qed.

(* v.set(x); v.get() is x *)
Theorem law_value_set_get : forall v0 x,
    local_run (OVal v0) TValue [(M_set, [AZ x], O); (M_get, [], O)] = ([ok VNone; ok (VInt x)], OVal x).
Proof. intros v0 x. reflexivity. Qed.

(* iterating to exhaustion yields the items in order, then StopIteration for ever *)
Theorem law_iter_yields_items : forall l,
    fst (local_run (OIter l) TIter (repeat (M_next, [], O) (length l) ++ [(M_next, [], O); (M_next, [], O)]))
    = map (fun x => ok (VInt x)) l ++ [CO_reply (R_error E_StopIteration); CO_reply (R_error E_StopIteration)].
Proof.
  induction l as [|x r IH]; [reflexivity|].
  cbn [length repeat app local_run]. unfold local_step at 1 2.
  cbn [exposed_of has_attr andb apply_local iter_apply reply_of_local obj_of_local fst snd].
  destruct (local_run (OIter r) TIter (repeat (M_next, [], 0%nat) (length r) ++ [(M_next, [], 0%nat); (M_next, [], 0%nat)]))
    as [obs o2]. cbn [fst map app] in *. rewrite IH. reflexivity.
Qed.
