(* C16: the invariant of the queue programs (Model/QueueCode.v) under the interleaving
   semantics of Model/QueueProg.v is inductive: THE step lemma (about 140 leaf cases).  Any number of main threads per process (own = the process of each (main thread,
   feeder slot) pair).  Definitions, the update lemma and the tactics are in Proofs/QueueInvBase.v.
   Initial state, runs and consequences: Proofs/QueueInvProofs.v. *)
From Coq Require Import ZArith List Bool Lia ZifyBool Arith.
From BV Require Import Model.SemProg Model.QueueProg Model.QueueCode Proofs.SemProgProofs.
From BV Require Export Proofs.QueueInvBase.
Import ListNotations.
Open Scope Z_scope.

Opaque upds updz upd updp.
Opaque nls nss sid.

Ltac qabstract_thread :=
  repeat match goal with
   | E : qproc ?t = _ |- context [qproc ?t] => rewrite E
   | E : qfeeder ?t = _ |- context [qfeeder ?t] => rewrite E
   | E : qt_tr ?t = 0 |- context [qt_tr ?t] => rewrite E
   | E : qt_rl ?t = 0 |- context [qt_rl ?t] => rewrite E
   | E : qt_wl ?t = 0 |- context [qt_wl ?t] => rewrite E
   | E : ftr ?t = [] |- context [ftr ?t] => rewrite E
   | E : forall q, qt_nl q ?t = 0 |- context [qt_nl _ ?t] => rewrite E
   end.

(* THE step lemma: capacity accounting, the three lock invariants, per-producer FIFO between
   put and pipe, FIFO of the pipe and the merge property are inductive; in particular no
   release of the capacity semaphore or of a lock raises. *)

Ltac qdestr_H H :=
  repeat match type of H with
         | context [if ?b then _ else _] => destruct b eqn:?
         | context [match ?x with _ => _ end] => destruct x eqn:?
         end.
Ltac split_all := repeat match goal with H : _ /\ _ |- _ => destruct H end.

Lemma qstep_inv : forall M own g i go g' e, QInv M own g -> qsmall g -> qstep qcode g i go = Some (g', e) -> QInv M own g'.
Proof.
  intros M own g i go g' e HI Hsm H.
  assert (Hex : exists t, nth_error (qthr g) i = Some t).
  { unfold qstep in H. destruct (nth_error (qthr g) i); [eauto|discriminate]. }
  destruct Hex as [t Ht].
  pose proof (q_li M own g HI t (nth_error_In _ _ Ht)) as Hli.
  pose proof (q_wf M own g HI i t Ht) as [Wp Wf].
  assert (Hi : (i < length (qthr g))%nat) by (apply nth_error_Some; congruence).
  assert (Hpl : (qproc t < length (procs g))%nat).
  { pose proof (q_len M own g HI). pose proof (div2_odd_idx i). rewrite Wp. apply (q_own M own g HI). destruct (Nat.odd i); lia. }
  destruct (q_shape M own g HI) as (Sh0m & Sh0r & Sh12 & Sh3567 & Sh4 & ShP).
  destruct (Sh12 1%nat ltac:(auto)) as [Hm1 Hr1]. destruct (Sh12 2%nat ltac:(auto)) as [Hm2 Hr2].
  destruct (Sh3567 3%nat ltac:(auto)) as [Hm3 Hr3]. destruct (Sh3567 5%nat ltac:(auto)) as [Hm5 Hr5].
  destruct (Sh3567 6%nat ltac:(auto)) as [Hm6 Hr6]. destruct (Sh3567 7%nat ltac:(auto)) as [Hm7 Hr7].
  destruct (ShP (qproc t) Hpl) as (Hm8 & Hr8 & Hm9 & Hr9).
  pose proof (q_cap M own g HI) as Icap. pose proof (q_cap0 M own g HI) as Icap0.
  pose proof (q_rl M own g HI) as [Irl Irl0]. pose proof (q_wl M own g HI) as [Iwl Iwl0].
  pose proof (q_nl M own g HI (qproc t) Hpl) as [Inl Inl0].
  pose proof (q_fifo M own g HI (qproc t)) as Ififo. pose proof (q_pipe M own g HI) as Ipipe.
  pose proof (q_merge M own g HI) as Imerge. pose proof (q_order M own g HI) as Iorder.
  pose proof (q_ret M own g HI) as Iret. pose proof (q_unf M own g HI) as [Iunf Iunf0].
  pose proof (q_b0 M own g HI (qproc t)) as Ib0. pose proof (q_st M own g HI i t Ht) as Ist.
  pose proof (q_tp M own g HI i t Ht) as Itp. unfold tput in Itp.
  destruct Hsm as (Hs3 & Hs5 & Hs6 & Hs7 & Hs9). specialize (Hs9 (qproc t)).
  pose proof (nls_eq (qproc t)) as Enl. pose proof (nss_eq (qproc t)) as Ens.
  unfold qv, QSVM in *.
  assert (Gtr : qt_tr t <= sumz qt_tr (qthr g)) by (eapply sumz_ge_elem; eauto; intros; apply qt_01).
  assert (Grl : qt_rl t <= sumz qt_rl (qthr g)) by (eapply sumz_ge_elem; eauto; intros; apply qt_01).
  assert (Gwl : qt_wl t <= sumz qt_wl (qthr g)) by (eapply sumz_ge_elem; eauto; intros; apply qt_01).
  assert (Gnl : qt_nl (qproc t) t <= sumz (qt_nl (qproc t)) (qthr g)) by (eapply sumz_ge_elem; eauto; intros; apply qt_01).
  assert (Gb : 0 <= sumz blen (procs g)) by (apply sumz_nonneg; intros; unfold blen; apply Nat2Z.is_nonneg).
  assert (Gbp : blen (nth (qproc t) (procs g) dps) <= sumz blen (procs g)).
  { apply (sumz_ge_elem _ blen (procs g) (qproc t)); [intros; unfold blen; apply Nat2Z.is_nonneg|apply nth_error_nth'; auto]. }
  assert (Gt0 : 0 <= sumz qt_tr (qthr g)) by (apply sumz_nonneg; intros; apply qt_01).
  assert (Hnth : nth i (qthr g) dqt = t) by (apply nth_error_nth; auto).
  unfold qstep in H. rewrite Ht in H.
  destruct (qfin t) eqn:Hf; [discriminate|].
  destruct (qdormant g i t) eqn:Hdorm; [discriminate|].
  pose proof (active_feeder M own g i t HI Ht Hdorm) as Hact0. clear Hdorm.
  remember (nth (qproc t) (procs g) dps) as ps eqn:Eps.
  destruct t as [p fd [[[c a0] a1] a2] pc [x0 x1 x2 x3 x4 x5 x6 x7] h sc rs f]. cbn [qfin] in Hf; subst f.
  cbn [qproc qfeeder] in *.
  unfold QLI in Hli; cbn [qfeeder qfin qscript qcur qcid qpc qrg qheld fst snd] in Hli.
  destruct Hli as [Hh4 Hli].
  unfold qcid in H; cbn [qcur fst qpc qrg qheld] in H.
  destruct ps as [bf nwv stt pl sl0].
  destruct fd.
  - (* feeder *)
    destruct Hli as (_ & Hc & Hsc & Hpc). unfold qcid in Hc; cbn [qcur fst] in Hc. subst c sc.
    destruct (Hact0 eq_refl) as [Hact1 Efd]. clear Hact0. rewrite Efd in Ififo. clear Efd Ist.
    dn pc 16%nat; cbn [qli_pc] in Hpc; try contradiction.
    all: qsimpw; rewrite ?Nat.eqb_refl in *.
    all: qsimp_in H;
      unfold sem_acq, sem_rel in H;
      rewrite ?Hr1, ?Hr2, ?Hr3, ?Hr5, ?Hr6, ?Hr7, ?Hr8, ?Hr9, ?Sh0r, ?Sh4, ?Hm1, ?Hm2, ?Hm3, ?Hm5, ?Hm6, ?Hm7, ?Hm8, ?Hm9, ?Sh0m in H;
      cbn [andb] in H; qdestr_H H; try discriminate.
    all: clear Sh12 Sh3567 ShP Hr1 Hr2 Hr3 Hr5 Hr6 Hr7 Hr8 Hr9 Hm1 Hm2 Hm3 Hm5 Hm6 Hm7 Hm8 Hm9 Sh0r Sh4.
    all: try (exfalso; lia).
    all: inversion H; subst g' e; clear H.
    all: unfold qadvance, qabort; qsimp0.
    all: repeat match goal with |- context [match ?x with [] => _ | _ :: _ => _ end] => destruct x end; qsimp0.
    all: repeat match goal with |- context [if picklable ?x then _ else _] => destruct (picklable x) eqn:? end; qsimp0.
    all: unfold commit; cbn [qproc].

    all: (eapply (qinv_upd _ _ _ _ _ _ _ _ _ _ _ HI Ht); qprem HI Wf Eps Imerge Hh4 Ififo Ipipe Iorder Iret Ib0 Itp).
  - (* main thread *)
    destruct Hli as [Hsc Hli]. destruct (Hli eq_refl) as [Hok Hpc]. clear Hli.
    unfold okq in Hok; cbn [qcur fst snd] in Hok. unfold qcid, a2_of in Hpc; cbn [qcur fst snd] in Hpc.
    clear Hact0.
    destruct Hok as [E|[E|[E|[E|E]]]]; subst c.
    all: dn pc 31%nat; cbn [qli_pc] in Hpc; try contradiction.
    all: try match type of Hpc with _ /\ _ => destruct Hpc as [Hpc Hpc'] end.
    all: qsimpw; rewrite ?Nat.eqb_refl in *.
    all: qsimp_in H;
      unfold sem_acq, sem_rel in H;
      rewrite ?Hr1, ?Hr2, ?Hr3, ?Hr5, ?Hr6, ?Hr7, ?Hr8, ?Hr9, ?Sh0r, ?Sh4, ?Hm1, ?Hm2, ?Hm3, ?Hm5, ?Hm6, ?Hm7, ?Hm8, ?Hm9, ?Sh0m in H;
      cbn [andb] in H; qdestr_H H; try discriminate.
    all: clear Sh12 Sh3567 ShP Hr1 Hr2 Hr3 Hr5 Hr6 Hr7 Hr8 Hr9 Hm1 Hm2 Hm3 Hm5 Hm6 Hm7 Hm8 Hm9 Sh0r Sh4.
    all: try (exfalso; lia).
    all: inversion H; subst g' e; clear H.
    all: unfold qadvance, qabort; qsimp0.
    all: repeat (match goal with |- context [if ?b then _ else _] =>
        first [ let v := eval vm_compute in b in lazymatch v with true => change b with true | false => change b with false end
              | destruct b eqn:? ] end; qsimp0).
    all: unfold commit.
    all: try match goal with |- context [qstart qcode ?p0 false ?h' ?res' ?sc' ?ps'] =>
       let SF := fresh "SF" in
       assert (SF : exists t, qstart qcode p0 false h' res' sc' ps' = (t, ps') /\ QLI t /\ qproc t = p0 /\ qfeeder t = false /\ landed t /\ qresults t = res' /\ pheld t = [])
         by (apply qstart_facts; [exact Hsc | rewrite ?nth_updz_same, ?nth_updz_other by qside; lia]);
       destruct SF as (t' & Est & Hli' & Hp' & Hf' & (L1 & L2 & L3 & L4 & L5 & L6 & L7) & Hres' & Lph); rewrite Est; cbv beta iota; rewrite ?Hp' end.
    (* a thread standing at _start_thread: no feeder yet, hence nothing buffered *)
    all: try (assert (Est : stt = []) by (apply Ist; unfold at_start, qcid; cbn [qfin qcur qpc fst]; auto); subst stt;
              pose proof (Ib0 eq_refl) as Eb0; subst bf).
    all: (eapply (qinv_upd _ _ _ _ _ _ _ _ _ _ _ HI Ht); qabstract_thread; qprem HI Wf Eps Imerge Hh4 Ififo Ipipe Iorder Iret Ib0 Itp).
Qed.
