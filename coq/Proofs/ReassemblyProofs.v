(* C02: proofs about Model/Reassembly.v.
   Part A: chunking and chunk-size arithmetic.
   Part B: MapResult reassembly in any arrival order; failure path.
   Part C: IMapIterator / IMapUnorderedIterator ordering.
   Part D: the chunked imap generator (refutation + partial result).
   Part E: Gen (translated from pool.py on this run) = Model. *)
From Coq Require Import ZArith List Bool Lia ZifyBool Arith PeanoNat Permutation.
From BV Require Import Lib.PyVal Lib.Cases Model.Reassembly.
Import ListNotations.
Open Scope Z_scope.

(* ================================================================== *)
(* Part A: chunks                                                       *)

Section Chunks.
Context {A : Type}.
Open Scope nat_scope.

Lemma firstn_nil_inv (k : nat) (l : list A) : 1 <= k -> firstn k l = [] -> l = [].
Proof. destruct k; [lia|]. destruct l; [reflexivity|discriminate]. Qed.

Lemma skipn_add (x y : nat) (l : list A) : skipn x (skipn y l) = skipn (y + x) l.
Proof.
  revert l. induction y as [|y IH]; intros l; [reflexivity|].
  destruct l; [destruct x; reflexivity|]. cbn [skipn Nat.add]. apply IH.
Qed.

(* the i-th batch is the i-th window of width k, and there is one exactly while
   the window starts inside the input *)
Lemma chunks_fuel_nth (k : nat) : 1 <= k -> forall fuel (l : list A) i,
    length l < fuel ->
    nth_error (chunks_fuel fuel l k) i =
    if i * k <? length l then Some (firstn k (skipn (i * k) l)) else None.
Proof.
  intros Hk. induction fuel as [|fuel IH]; intros l i Hl; [lia|].
  cbn [chunks_fuel]. destruct (firstn k l) as [|a c] eqn:F.
  - apply firstn_nil_inv in F; [|exact Hk]. subst l. cbn [length].
    replace (i * k <? 0) with false by (symmetry; apply Nat.ltb_ge; lia).
    destruct i; reflexivity.
  - assert (Hne : 1 <= length l) by (destruct l; [destruct k; discriminate|cbn; lia]).
    destruct i as [|i].
    + cbn [nth_error Nat.mul skipn]. rewrite <- F.
      replace (0 <? length l) with true by (symmetry; apply Nat.ltb_lt; lia). reflexivity.
    + cbn [nth_error]. rewrite IH by (rewrite skipn_length; lia).
      rewrite skipn_length, skipn_add.
      replace (S i * k) with (k + i * k) by lia.
      destruct (i * k <? length l - k) eqn:E1; destruct (k + i * k <? length l) eqn:E2;
        try reflexivity;
        apply Nat.ltb_lt in E1 || apply Nat.ltb_ge in E1;
        apply Nat.ltb_lt in E2 || apply Nat.ltb_ge in E2; lia.
Qed.

Lemma chunks_nth (l : list A) (k i : nat) : 1 <= k ->
    nth_error (chunks l k) i =
    if i * k <? length l then Some (firstn k (skipn (i * k) l)) else None.
Proof. intros Hk. unfold chunks. apply chunks_fuel_nth; [exact Hk|lia]. Qed.

Lemma chunks_index_lt (l : list A) (k i : nat) : 1 <= k ->
    (i < length (chunks l k) <-> i * k < length l).
Proof.
  intros Hk. pose proof (chunks_nth l k i Hk) as H.
  destruct (i * k <? length l) eqn:E.
  - apply Nat.ltb_lt in E. split; [intros _; exact E|intros _].
    apply nth_error_Some. rewrite H. discriminate.
  - apply Nat.ltb_ge in E. apply nth_error_None in H. split; lia.
Qed.

Lemma chunks_nth_default (l : list A) (k i : nat) : 1 <= k -> i < length (chunks l k) ->
    nth i (chunks l k) [] = firstn k (skipn (i * k) l).
Proof.
  intros Hk Hi. apply chunks_index_lt in Hi; [|exact Hk].
  apply nth_error_nth. rewrite chunks_nth by exact Hk.
  replace (i * k <? length l) with true by (symmetry; apply Nat.ltb_lt; exact Hi). reflexivity.
Qed.

Lemma chunks_fuel_concat (k : nat) : 1 <= k -> forall fuel (l : list A),
    length l < fuel -> concat (chunks_fuel fuel l k) = l.
Proof.
  intros Hk. induction fuel as [|fuel IH]; intros l Hl; [lia|].
  cbn [chunks_fuel]. destruct (firstn k l) as [|a c] eqn:F.
  - apply firstn_nil_inv in F; [|exact Hk]. subst l. reflexivity.
  - assert (Hne : 1 <= length l) by (destruct l; [destruct k; discriminate|cbn; lia]).
    cbn [concat]. rewrite IH by (rewrite skipn_length; lia).
    rewrite <- F. apply firstn_skipn.
Qed.

Theorem chunks_concat (l : list A) (k : nat) : 1 <= k -> concat (chunks l k) = l.
Proof. intros Hk. apply chunks_fuel_concat; [exact Hk|lia]. Qed.

(* every batch is non-empty and at most k long; every batch but the last is exactly k long *)
Theorem chunks_lengths (l : list A) (k i : nat) (c : list A) : 1 <= k ->
    nth_error (chunks l k) i = Some c ->
    1 <= length c <= k /\ (S i < length (chunks l k) -> length c = k).
Proof.
  intros Hk H. rewrite chunks_nth in H by exact Hk.
  destruct (i * k <? length l) eqn:E; [|discriminate]. apply Nat.ltb_lt in E.
  inversion H; subst c; clear H. rewrite firstn_length, skipn_length. split; [lia|].
  intros Hs. apply chunks_index_lt in Hs; [|exact Hk]. cbn in Hs. lia.
Qed.

Theorem chunks_nil (k : nat) : chunks (@nil A) k = [].
Proof. unfold chunks. cbn. destruct k; reflexivity. Qed.

(* size 0: islice yields the empty tuple at once *)
Theorem chunks_zero (l : list A) : chunks l 0 = [].
Proof. reflexivity. Qed.

End Chunks.

(* number of batches = the _number_left formula *)
Lemma number_left_char (n k i : Z) : 1 <= k -> 0 <= n -> 0 <= i ->
    (i < number_left n k <-> i * k < n).
Proof.
  intros Hk Hn Hi. unfold number_left.
  replace (k <=? 0) with false by lia.
  pose proof (Z.div_mod n k ltac:(lia)) as Hd.
  pose proof (Z.mod_pos_bound n k ltac:(lia)) as Hm.
  destruct (n mod k =? 0) eqn:E; split; intros H; nia.
Qed.

Theorem number_left_chunks {A} (l : list A) (k : nat) : (1 <= k)%nat ->
    number_left (Z.of_nat (length l)) (Z.of_nat k) = Z.of_nat (length (chunks l k)).
Proof.
  intros Hk. set (m := length (chunks l k)). set (n := length l).
  assert (Hnl0 : 0 <= number_left (Z.of_nat n) (Z.of_nat k)).
  { unfold number_left. destruct (Z.of_nat k <=? 0); [lia|].
    pose proof (Z.div_pos (Z.of_nat n) (Z.of_nat k) ltac:(lia) ltac:(lia)).
    destruct (Z.of_nat n mod Z.of_nat k =? 0); lia. }
  destruct (Z.lt_trichotomy (number_left (Z.of_nat n) (Z.of_nat k)) (Z.of_nat m)) as [H|[H|H]];
    [exfalso|exact H|exfalso].
  - (* fewer than m: the window number_left starts inside, contradiction *)
    set (i := Z.to_nat (number_left (Z.of_nat n) (Z.of_nat k))).
    assert (Hi : (i < m)%nat) by (subst i; lia).
    apply (chunks_index_lt l k i Hk) in Hi.
    assert (Hc : Z.of_nat i < number_left (Z.of_nat n) (Z.of_nat k)).
    { apply number_left_char; try lia; try (fold n in Hi; nia). }
    subst i. lia.
  - assert (Hc : Z.of_nat m * Z.of_nat k < Z.of_nat n) by (apply number_left_char; lia).
    assert (Hi : (m < m)%nat).
    { apply (chunks_index_lt l k m Hk). fold n. try lia; nia. }
    lia.
Qed.

(* default chunk size: at least 1 for a non-empty input, and at most 4p batches *)
Theorem default_chunksize_pos (n p : Z) : 1 <= n -> 1 <= p ->
    exists k, default_chunksize n p = Some k /\ 1 <= k.
Proof.
  intros Hn Hp. unfold default_chunksize, resolve_chunksize.
  replace (p * 4 =? 0) with false by lia. replace (n =? 0) with false by lia.
  pose proof (Z.div_mod n (p * 4) ltac:(lia)) as Hd.
  pose proof (Z.mod_pos_bound n (p * 4) ltac:(lia)) as Hm.
  pose proof (Z.div_pos n (p * 4) ltac:(lia) ltac:(lia)) as Hq.
  eexists; split; [reflexivity|].
  destruct (n mod (p * 4) =? 0) eqn:E; nia.
Qed.

Theorem default_chunksize_batches (n p k : Z) : 0 <= n -> 1 <= p ->
    default_chunksize n p = Some k -> number_left n k <= 4 * p.
Proof.
  intros Hn Hp. unfold default_chunksize, resolve_chunksize.
  replace (p * 4 =? 0) with false by lia.
  pose proof (Z.div_mod n (p * 4) ltac:(lia)) as Hd.
  pose proof (Z.mod_pos_bound n (p * 4) ltac:(lia)) as Hm.
  pose proof (Z.div_pos n (p * 4) ltac:(lia) ltac:(lia)) as Hq.
  intros H. inversion H as [Hk]; clear H. rewrite Hk.
  destruct (n =? 0) eqn:En.
  - subst k. change (number_left n 0) with 0. lia.
  - assert (H1 : 1 <= k) by (subst k; destruct (n mod (p * 4) =? 0) eqn:E; nia).
    destruct (Z_le_gt_dec (number_left n k) (4 * p)) as [Hle|Hgt]; [exact Hle|exfalso].
    assert (Hc : (4 * p) * k < n) by (apply number_left_char; lia).
    subst k. destruct (n mod (p * 4) =? 0) eqn:E; nia.
Qed.

Theorem default_chunksize_empty (p : Z) : p <> 0 -> default_chunksize 0 p = Some 0.
Proof.
  intros Hp. unfold default_chunksize, resolve_chunksize.
  replace (p * 4 =? 0) with false by lia. reflexivity.
Qed.

(* ================================================================== *)
(* Part B: MapResult                                                    *)

Section ListFacts.
Context {X : Type}.
Open Scope nat_scope.

Lemma nth_error_firstn' (k j : nat) (l : list X) : j < k ->
    nth_error (firstn k l) j = nth_error l j.
Proof.
  revert j l. induction k as [|k IH]; intros j l Hj; [lia|].
  destruct l as [|x l]; [destruct j; reflexivity|].
  destruct j as [|j]; [reflexivity|]. cbn. apply IH. lia.
Qed.

Lemma nth_error_skipn' (a j : nat) (l : list X) :
    nth_error (skipn a l) j = nth_error l (a + j).
Proof.
  revert l. induction a as [|a IH]; intros l; [reflexivity|].
  destruct l as [|x l]; [destruct j; reflexivity|]. cbn. apply IH.
Qed.

Lemma nth_error_ext' (v w : list X) :
    (forall j, nth_error v j = nth_error w j) -> v = w.
Proof.
  revert w. induction v as [|x v IH]; intros w H.
  - destruct w as [|y w]; [reflexivity|]. specialize (H 0). discriminate.
  - destruct w as [|y w]; [specialize (H 0); discriminate|].
    pose proof (H 0) as H0. cbn in H0. inversion H0; subst y. f_equal.
    apply IH. intros j. exact (H (S j)).
Qed.

Lemma splice_length (v r : list X) (a b : nat) : a <= length v ->
    length (firstn a v ++ r ++ skipn b v) = a + length r + (length v - b).
Proof.
  intros Ha. rewrite !app_length, firstn_length, skipn_length. lia.
Qed.

Lemma splice_nth_lt (v r : list X) (a b j : nat) : a <= length v -> j < a ->
    nth_error (firstn a v ++ r ++ skipn b v) j = nth_error v j.
Proof.
  intros Ha Hj. rewrite nth_error_app1 by (rewrite firstn_length; lia).
  apply nth_error_firstn'. exact Hj.
Qed.

Lemma splice_nth_mid (v r : list X) (a b j : nat) : a <= length v ->
    a <= j < a + length r ->
    nth_error (firstn a v ++ r ++ skipn b v) j = nth_error r (j - a).
Proof.
  intros Ha Hj. rewrite nth_error_app2 by (rewrite firstn_length; lia).
  rewrite firstn_length. replace (Nat.min a (length v)) with a by lia.
  apply nth_error_app1. lia.
Qed.

Lemma splice_nth_ge (v r : list X) (a b j : nat) : a <= length v ->
    a + length r <= j ->
    nth_error (firstn a v ++ r ++ skipn b v) j = nth_error v (b + (j - (a + length r))).
Proof.
  intros Ha Hj. rewrite nth_error_app2 by (rewrite firstn_length; lia).
  rewrite firstn_length. replace (Nat.min a (length v)) with a by lia.
  rewrite nth_error_app2 by lia. rewrite nth_error_skipn'. f_equal. lia.
Qed.

(* with 0 <= a <= b Python's slice assignment is the plain splice *)
Lemma slice_assign_nat (v r : list X) (a b : nat) : a <= b ->
    slice_assign v (Z.of_nat a) (Z.of_nat b) r = firstn a v ++ r ++ skipn b v.
Proof.
  intros Hab. unfold slice_assign, norm_idx.
  replace (Z.of_nat a <? 0)%Z with false by lia.
  replace (Z.of_nat b <? 0)%Z with false by lia.
  destruct (le_gt_dec a (length v)) as [Ha|Ha].
  - replace (Z.to_nat (Z.min (Z.of_nat a) (Z.of_nat (length v)))) with a by lia.
    destruct (le_gt_dec b (length v)) as [Hb|Hb].
    + replace (Z.to_nat (Z.max (Z.min (Z.of_nat a) (Z.of_nat (length v)))
                               (Z.min (Z.of_nat b) (Z.of_nat (length v))))) with b by lia.
      reflexivity.
    + replace (Z.to_nat (Z.max (Z.min (Z.of_nat a) (Z.of_nat (length v)))
                               (Z.min (Z.of_nat b) (Z.of_nat (length v)))))
        with (length v) by lia.
      rewrite (skipn_all2 (n := b)) by lia. rewrite skipn_all. reflexivity.
  - replace (Z.to_nat (Z.min (Z.of_nat a) (Z.of_nat (length v)))) with (length v) by lia.
    replace (Z.to_nat (Z.max (Z.min (Z.of_nat a) (Z.of_nat (length v)))
                             (Z.min (Z.of_nat b) (Z.of_nat (length v)))))
      with (length v) by lia.
    rewrite (firstn_all2 (n := a)) by lia. rewrite firstn_all.
    rewrite (skipn_all2 (n := b)) by lia. rewrite skipn_all. reflexivity.
Qed.

Lemma list_truthy_length (l : list X) : 1 <= length l -> list_truthy l = true.
Proof. destruct l; [cbn; lia|reflexivity]. Qed.

End ListFacts.

Section MapAnyOrder.
Context {A B E : Type}.
Variable none : B.
Variable f : A -> B.
Variable l : list A.
Variable k : nat.
Hypothesis Hk : (1 <= k)%nat.

Let n := length l.
Let m := length (chunks l k).

Definition chunk_result (i : nat) : list B := map f (nth i (chunks l k) []).

Open Scope nat_scope.

(* writing the i-th chunk's results into a buffer of the right length *)
Lemma splice_chunk (v : list B) (i : nat) : length v = n -> i < m ->
    let v' := firstn (i * k) v ++ chunk_result i ++ skipn ((i + 1) * k) v in
    length v' = n /\
    (forall j, j < i * k \/ (i + 1) * k <= j -> nth_error v' j = nth_error v j) /\
    (forall j x, i * k <= j < (i + 1) * k -> nth_error l j = Some x ->
                 nth_error v' j = Some (f x)).
Proof.
  intros Hv Hi. cbv zeta.
  assert (Ha : i * k < n) by (apply chunks_index_lt in Hi; [exact Hi|exact Hk]).
  unfold chunk_result. rewrite chunks_nth_default by assumption.
  set (a := i * k) in *. replace ((i + 1) * k) with (a + k) by (subst a; lia).
  set (r := map f (firstn k (skipn a l))).
  assert (Hr : length r = Nat.min k (n - a)).
  { subst r. rewrite map_length, firstn_length, skipn_length. reflexivity. }
  split; [|split].
  - rewrite splice_length by lia. lia.
  - intros j [Hj|Hj].
    + apply splice_nth_lt; lia.
    + destruct (le_gt_dec n j) as [Hn|Hn].
      * transitivity (@None B); [|symmetry]; apply nth_error_None;
          [rewrite splice_length by lia|]; lia.
      * rewrite splice_nth_ge by lia. f_equal. lia.
  - intros j x Hj Hx.
    assert (Hjn : j < n) by (apply nth_error_Some; rewrite Hx; discriminate).
    rewrite splice_nth_mid by lia. subst r.
    apply map_nth_error. rewrite nth_error_firstn' by lia.
    rewrite nth_error_skipn'. replace (a + (j - a)) with j by lia. exact Hx.
Qed.

Variables hc he : bool.

(* H = the chunk indices handled so far, in order of arrival *)
Definition MInv (H : list nat) (st : mres B E) : Prop :=
  exists v,
    m_value st = VList v /\ length v = n /\
    (forall i j x, In i H -> i * k <= j < (i + 1) * k -> nth_error l j = Some x ->
                   nth_error v j = Some (f x)) /\
    (forall j, j < n -> (forall i, In i H -> ~ (i * k <= j < (i + 1) * k)) ->
               nth_error v j = Some none) /\
    m_left st = (Z.of_nat m - Z.of_nat (length H))%Z /\
    m_k st = Z.of_nat k /\ m_len st = Z.of_nat n /\ m_success st = true /\
    length (m_accepted st) = n /\
    m_has_cb st = hc /\ m_has_ecb st = he /\ m_ecb st = [] /\
    m_ready st = ((0 <? length H) && (length H =? m)) /\
    m_incache st = negb (m_ready st) /\
    m_cb st = (if hc && m_ready st then [v] else []).

Lemma minv_init : MInv [] (map_init none (Z.of_nat n) (Z.of_nat k) hc he).
Proof.
  unfold map_init. replace (Z.of_nat k <=? 0)%Z with false by lia.
  exists (repeat none n). cbn [m_value m_left m_k m_len m_success m_accepted m_has_cb
                              m_has_ecb m_ecb m_ready m_incache m_cb length].
  rewrite Nat2Z.id, !repeat_length.
  repeat split; try reflexivity.
  - intros i j x [].
  - intros j Hj _. rewrite nth_error_repeat by exact Hj. reflexivity.
  - subst n m. rewrite number_left_chunks by exact Hk. lia.
  - rewrite andb_false_r. reflexivity.
Qed.

Lemma handled_bound (H : list nat) (i : nat) :
    NoDup H -> (forall x, In x H -> x < m) -> ~ In i H -> i < m -> S (length H) <= m.
Proof.
  intros Hnd Hb Hni Hi.
  assert (Hnd' : NoDup (i :: H)) by (constructor; assumption).
  pose proof (NoDup_incl_length (l := i :: H) (l' := seq 0 m) Hnd') as Hlen.
  rewrite seq_length in Hlen. cbn [length] in Hlen. apply Hlen.
  intros x [Hx|Hx]; apply in_seq; [subst x|apply Hb in Hx]; lia.
Qed.

Ltac fin := first [assumption | reflexivity | lia].

Lemma minv_step (H : list nat) (st : mres B E) (i : nat) :
    MInv H st -> NoDup H -> (forall x, In x H -> x < m) -> ~ In i H -> i < m ->
    MInv (H ++ [i]) (fst (map_set st (MOk (Z.of_nat i) (chunk_result i)))) /\
    snd (map_set st (MOk (Z.of_nat i) (chunk_result i))) = None.
Proof.
  intros (v & Hval & Hlen & Hdone & Hnone & Hleft & Hmk & Hml & Hsucc & Hacc & Hhc & Hhe
          & Hecb & Hready & Hcache & Hcb) Hnd Hb Hni Hi.
  pose proof (handled_bound H i Hnd Hb Hni Hi) as Hcount.
  assert (Hnpos : 1 <= n).
  { apply chunks_index_lt in Hi; [|exact Hk]. fold n in Hi. lia. }
  unfold map_set. rewrite Hval, Hmk.
  replace (Z.of_nat i * Z.of_nat k)%Z with (Z.of_nat (i * k)) by lia.
  replace ((Z.of_nat i + 1) * Z.of_nat k)%Z with (Z.of_nat ((i + 1) * k)) by lia.
  rewrite slice_assign_nat by lia.
  destruct (splice_chunk v i Hlen Hi) as (Hlen' & Hsame & Hnew).
  set (v' := firstn (i * k) v ++ chunk_result i ++ skipn ((i + 1) * k) v) in *.
  rewrite (list_truthy_length (m_accepted st)) by lia.
  assert (Hold_ready : m_ready st = false).
  { rewrite Hready. destruct (length H =? m) eqn:Eq1; [apply Nat.eqb_eq in Eq1; lia|].
    apply andb_false_r. }
  assert (Hdisj : forall i' j, In i' H -> i' * k <= j < (i' + 1) * k ->
                               j < i * k \/ (i + 1) * k <= j).
  { intros i' j Hi' Hj. assert (i' <> i) by (intros ->; contradiction).
    destruct (Nat.lt_trichotomy i' i) as [Hlt|[Heq|Hgt]]; [left|contradiction|right]; nia. }
  assert (Hdone' : forall i' j x, In i' (H ++ [i]) -> i' * k <= j < (i' + 1) * k ->
                                  nth_error l j = Some x -> nth_error v' j = Some (f x)).
  { intros i' j x Hin Hj Hx. apply in_app_or in Hin. destruct Hin as [Hin|[<-|[]]].
    - rewrite Hsame by (eapply Hdisj; eassumption). eapply Hdone; eassumption.
    - eapply Hnew; eassumption. }
  assert (Hnone' : forall j, j < n ->
                     (forall i', In i' (H ++ [i]) -> ~ (i' * k <= j < (i' + 1) * k)) ->
                     nth_error v' j = Some none).
  { intros j Hj Hfree.
    assert (Hi0 : ~ (i * k <= j < (i + 1) * k))
      by (apply Hfree; apply in_or_app; right; left; reflexivity).
    rewrite Hsame by lia. apply Hnone; [exact Hj|].
    intros i' Hin. apply Hfree. apply in_or_app. left. exact Hin. }
  assert (Hlen1 : length (H ++ [i]) = length H + 1) by (rewrite app_length; reflexivity).
  destruct (m_left st - 1 =? 0)%Z eqn:El; cbn [fst snd]; (split; [|reflexivity]);
    exists v'; cbn [m_value m_left m_k m_len m_success m_accepted m_has_cb
                    m_has_ecb m_ecb m_ready m_incache m_cb]; rewrite Hlen1.
  - (* last chunk *)
    replace (0 <? length H + 1) with true by (symmetry; apply Nat.ltb_lt; lia).
    replace (length H + 1 =? m) with true by (symmetry; apply Nat.eqb_eq; lia).
    cbn [andb negb]. rewrite Hhc, Hcb, Hold_ready, andb_false_r, andb_true_r.
    split; [fin|]. split; [exact Hlen'|]. split; [exact Hdone'|].
    split; [exact Hnone'|]. split; [fin|]. split; [fin|]. split; [fin|].
    split; [fin|]. split; [fin|]. split; [fin|].
    split; [fin|]. split; [fin|]. split; [fin|].
    split; [fin|]. destruct hc; reflexivity.
  - replace (length H + 1 =? m) with false by (symmetry; apply Nat.eqb_neq; lia).
    rewrite Hcb, Hcache, Hold_ready. rewrite !andb_false_r.
    split; [fin|]. split; [exact Hlen'|]. split; [exact Hdone'|].
    split; [exact Hnone'|]. split; [fin|]. split; [fin|]. split; [fin|].
    split; [fin|]. split; [fin|]. split; [fin|].
    split; [fin|]. split; [fin|]. split; [fin|].
    split; [fin|]. fin.
Qed.

(* complete: every chunk handled -> the buffer is the sequential result *)
Lemma minv_complete (H : list nat) (st : mres B E) :
    MInv H st -> NoDup H -> (forall x, In x H -> x < m) -> length H = m ->
    m_value st = VList (map f l).
Proof.
  intros (v & Hval & Hlen & Hdone & _) Hnd Hb Hfull.
  rewrite Hval. f_equal. apply nth_error_ext'. intros j.
  destruct (le_gt_dec n j) as [Hj|Hj].
  - transitivity (@None B); [|symmetry]; apply nth_error_None; [|rewrite map_length]; fold n; lia.
  - destruct (nth_error l j) as [x|] eqn:Hx;
      [|apply nth_error_None in Hx; fold n in Hx; lia].
    rewrite (map_nth_error f j l Hx).
    set (i := j / k).
    assert (Hlo : i * k <= j) by (subst i; rewrite Nat.mul_comm; apply Nat.mul_div_le; lia).
    assert (Hhi : j < (i + 1) * k).
    { subst i. rewrite Nat.add_1_r, Nat.mul_comm. apply Nat.mul_succ_div_gt. lia. }
    assert (Him : i < m) by (apply chunks_index_lt; [exact Hk|fold n; lia]).
    assert (Hin : In i H).
    { apply (NoDup_length_incl Hnd (l' := seq 0 m)).
      - rewrite seq_length. lia.
      - intros y Hy. apply in_seq. apply Hb in Hy. lia.
      - apply in_seq. lia. }
    eapply Hdone; eauto.
Qed.

Definition map_msgs (d : bool) (H : list nat) : list (mop B E) :=
  map (fun i => (if d then MDeliver else MSet) (MOk (Z.of_nat i) (chunk_result i))) H.

Lemma map_run_app (st : mres B E) (o1 o2 : list (mop B E)) :
    map_run st (o1 ++ o2) =
    let (s1, x1) := map_run st o1 in
    let (s2, x2) := map_run s1 o2 in (s2, x1 ++ x2).
Proof.
  revert st. induction o1 as [|o o1 IH]; intros st; cbn [map_run app].
  - destruct (map_run st o2); reflexivity.
  - destruct (map_op st o) as [s x]. rewrite IH.
    destruct (map_run s o1) as [s1 x1]. destruct (map_run s1 o2); reflexivity.
Qed.

Lemma map_run_minv (d : bool) (H : list nat) :
    NoDup H -> (forall x, In x H -> x < m) ->
    MInv H (fst (map_run (map_init none (Z.of_nat n) (Z.of_nat k) hc he) (map_msgs d H))) /\
    snd (map_run (map_init none (Z.of_nat n) (Z.of_nat k) hc he) (map_msgs d H))
    = repeat OUnit (length H).
Proof.
  induction H as [|i H IH] using rev_ind; intros Hnd Hb.
  - cbn. split; [apply minv_init|reflexivity].
  - assert (HndH : NoDup H /\ ~ In i H).
    { apply NoDup_remove in Hnd. rewrite app_nil_r in Hnd. exact Hnd. }
    destruct HndH as [HndH Hni].
    assert (HbH : forall x, In x H -> x < m) by (intros x Hx; apply Hb, in_or_app; left; exact Hx).
    assert (Hi : i < m) by (apply Hb, in_or_app; right; left; reflexivity).
    destruct (IH HndH HbH) as [Hinv Houts].
    unfold map_msgs in *. rewrite map_app, map_run_app.
    destruct (map_run (map_init none (Z.of_nat n) (Z.of_nat k) hc he)
                      (map (fun i0 => (if d then MDeliver else MSet)
                                        (MOk (Z.of_nat i0) (chunk_result i0))) H)) as [s1 x1].
    cbn [fst snd] in Hinv, Houts. cbn [map map_run].
    destruct (minv_step H s1 i Hinv HndH HbH Hni Hi) as [Hinv' Hnone].
    assert (Hcache : m_incache s1 = true).
    { destruct Hinv as (v & _ & _ & _ & _ & _ & _ & _ & _ & _ & _ & _ & _ & Hr & Hc & _).
      rewrite Hc, Hr.
      pose proof (handled_bound H i HndH HbH Hni Hi).
      replace (length H =? m) with false by (symmetry; apply Nat.eqb_neq; lia).
      rewrite andb_false_r. reflexivity. }
    assert (Hop : map_op s1 ((if d then MDeliver else MSet) (MOk (Z.of_nat i) (chunk_result i)))
                  = (fst (map_set s1 (MOk (Z.of_nat i) (chunk_result i))), OUnit)).
    { destruct d; cbn [map_op]; unfold map_deliver; rewrite ?Hcache;
        destruct (map_set s1 (MOk (Z.of_nat i) (chunk_result i))) as [s e]; cbn [fst snd] in *;
        rewrite Hnone; reflexivity. }
    rewrite Hop. cbn [fst snd]. split; [exact Hinv'|].
    rewrite Houts, app_length. cbn [length]. rewrite repeat_app. reflexivity.
Qed.

(* THE REASSEMBLY THEOREM.  H is any duplicate-free list of chunk indices (so: any
   prefix of any arrival order); results are delivered directly or through the
   cache look-up. *)
Theorem map_any_order (d : bool) (H : list nat) :
    NoDup H -> (forall x, In x H -> x < m) ->
    let r := map_run (map_init none (Z.of_nat n) (Z.of_nat k) hc he) (map_msgs d H) in
    let st := fst r in
    snd r = repeat OUnit (length H) /\
    m_left st = (Z.of_nat m - Z.of_nat (length H))%Z /\
    m_success st = true /\
    m_ready st = ((0 <? length H) && (length H =? m)) /\
    m_incache st = negb (m_ready st) /\
    m_cb st = (if hc && m_ready st then [map f l] else []) /\
    m_ecb st = [] /\
    (length H = m -> m_value st = VList (map f l)) /\
    map_get st = (if m_ready st then OList (map f l) else OTimeout).
Proof.
  intros Hnd Hb. cbv zeta.
  destruct (map_run_minv d H Hnd Hb) as [Hinv Houts].
  set (st := fst (map_run (map_init none (Z.of_nat n) (Z.of_nat k) hc he) (map_msgs d H))) in *.
  pose proof (minv_complete H st Hinv Hnd Hb) as Hfull.
  destruct Hinv as (v & Hval & Hlen & _ & _ & Hleft & _ & _ & Hsucc & _ & _ & _ & Hecb
                    & Hready & Hcache & Hcb).
  assert (Hrv : m_ready st = true -> v = map f l).
  { intros Hr. rewrite Hready in Hr. apply andb_prop in Hr. destruct Hr as [_ Hr].
    apply Nat.eqb_eq in Hr. specialize (Hfull Hr). rewrite Hval in Hfull.
    inversion Hfull. reflexivity. }
  repeat split; try assumption.
  - rewrite Hcb. destruct (m_ready st) eqn:Er; [rewrite Hrv by reflexivity|];
      destruct hc; reflexivity.
  - unfold map_get. rewrite Hsucc, Hval. destruct (m_ready st) eqn:Er; [|reflexivity].
    rewrite Hrv by reflexivity. reflexivity.
Qed.

End MapAnyOrder.

(* ------------------------------------------------------------------ *)
(* failure path, empty input, non-positive chunk size, corollaries      *)

Section MapFailure.
Context {A E : Type}.
Implicit Types (st : mres A E) (m : mmsg A E).

Lemma deliver_out_of_cache st m : m_incache st = false -> map_deliver st m = (st, None).
Proof. intros H. unfold map_deliver. rewrite H. reflexivity. Qed.

Lemma deliver_all_out_of_cache (msgs : list (mmsg A E)) : forall st,
    m_incache st = false ->
    map_run st (map MDeliver msgs) = (st, repeat OUnit (length msgs)).
Proof.
  induction msgs as [|m msgs IH]; intros st H; [reflexivity|].
  cbn [map map_run map_op length repeat]. rewrite deliver_out_of_cache by exact H.
  cbn [exn_out]. rewrite IH by exact H. reflexivity.
Qed.

Lemma map_set_accepted st m : m_accepted (fst (map_set st m)) = m_accepted st.
Proof.
  destruct m as [i r|i e]; cbn [map_set]; [|reflexivity].
  destruct (m_value st); [|reflexivity].
  destruct (m_left st - 1 =? 0); reflexivity.
Qed.

Lemma map_run_deliver_accepted (msgs : list (mmsg A E)) : forall st,
    m_accepted (fst (map_run st (map MDeliver msgs))) = m_accepted st.
Proof.
  induction msgs as [|m msgs IH]; intros st; [reflexivity|].
  cbn [map map_run map_op]. unfold map_deliver.
  destruct (m_incache st).
  - pose proof (map_set_accepted st m) as Hs. destruct (map_set st m) as [s e].
    cbn [fst] in Hs. specialize (IH s). destruct (map_run s (map MDeliver msgs)).
    cbn [fst] in *. congruence.
  - specialize (IH st). destruct (map_run st (map MDeliver msgs)). exact IH.
Qed.

(* a failure handled while the job is still in the cache *)
Lemma deliver_fail st i e :
    m_incache st = true -> list_truthy (m_accepted st) = true ->
    let st' := fst (map_deliver st (MFail i e)) in
    m_success st' = false /\ m_value st' = VErr e /\ m_ready st' = true /\
    m_incache st' = false /\
    m_ecb st' = (if m_has_ecb st then m_ecb st ++ [e] else m_ecb st) /\
    m_cb st' = m_cb st /\ map_get st' = ORaise e.
Proof.
  intros Hc Ha. unfold map_deliver. rewrite Hc. cbn [map_set fst]. rewrite Ha.
  unfold map_get. cbn. repeat split.
Qed.

(* FIRST FAILURE WINS under cache-guarded delivery (what the result handler does):
   whatever was delivered before (pre) as long as the job is still in the cache
   -- i.e. it neither completed nor failed --, the failure (i, e) becomes the
   job's outcome, and NO later message (post: anything, including other failures,
   successes, duplicates) changes it. *)
Theorem map_first_failure_wins st (pre post : list (mmsg A E)) i e :
    list_truthy (m_accepted st) = true ->
    m_incache (fst (map_run st (map MDeliver pre))) = true ->
    let s1 := fst (map_run st (map MDeliver pre)) in
    let st' := fst (map_run st (map MDeliver (pre ++ MFail i e :: post))) in
    m_success st' = false /\ m_value st' = VErr e /\ m_ready st' = true /\
    map_get st' = ORaise e /\
    m_ecb st' = (if m_has_ecb s1 then m_ecb s1 ++ [e] else m_ecb s1) /\
    m_cb st' = m_cb s1.
Proof.
  intros Ha Hc. cbv zeta. rewrite map_app, map_run_app.
  pose proof (map_run_deliver_accepted pre st) as Hacc.
  destruct (map_run st (map MDeliver pre)) as [s1 x1]. cbn [fst] in *.
  cbn [map map_run map_op].
  assert (Ha1 : list_truthy (m_accepted s1) = true) by (rewrite Hacc; exact Ha).
  destruct (deliver_fail s1 i e Hc Ha1) as (H1 & H2 & H3 & H4 & H5 & H6 & H7).
  destruct (map_deliver s1 (MFail i e)) as [s2 e2]. cbn [fst] in *.
  rewrite deliver_all_out_of_cache by exact H4. cbn [fst].
  repeat split; assumption.
Qed.

(* at the object level (no cache look-up) the LAST failure wins, and a success
   arriving after a failure raises TypeError and changes nothing *)
Lemma set_fail_overwrites st i e :
    m_value (fst (map_set st (MFail i e))) = VErr e /\
    m_success (fst (map_set st (MFail i e))) = false.
Proof. cbn. split; reflexivity. Qed.

Lemma set_ok_after_failure st i r e0 :
    m_value st = VErr e0 -> map_set st (MOk i r) = (st, Some TypeError).
Proof. intros H. cbn [map_set]. rewrite H. reflexivity. Qed.

End MapFailure.

Section MapEdges.
Context {A B E : Type}.
Variable none : B.

(* empty input: resolved at construction with [], nothing is sent *)
Theorem map_empty (cs : option Z) (p : Z) : (cs = None -> p <> 0) ->
    exists st : mres B E,
      map_async none (@nil A) cs p = Some (0, Some [], st) /\
      m_ready st = true /\ m_success st = true /\ map_get st = OList [] /\
      m_incache st = false.
Proof.
  intros Hp. unfold map_async, resolve_chunksize. cbn [length Z.of_nat].
  destruct cs as [c|].
  - eexists; split; [reflexivity|]. cbn. repeat split.
  - replace (p * 4 =? 0) with false by (specialize (Hp eq_refl); lia).
    eexists; split; [reflexivity|]. cbn. repeat split.
Qed.

(* what _map_async hands to the task handler and to the caller, k >= 1 *)
Theorem map_async_resolves (l : list A) (cs : option Z) (p : Z) :
    l <> [] -> (cs = None -> 1 <= p) -> (forall c, cs = Some c -> 1 <= c) ->
    exists k : nat,
      (1 <= k)%nat /\
      resolve_chunksize cs (Z.of_nat (length l)) p = Some (Z.of_nat k) /\
      map_async (E := E) none l cs p =
      Some (Z.of_nat k, Some (chunks l k),
            map_init none (Z.of_nat (length l)) (Z.of_nat k) false false).
Proof.
  intros Hl Hp Hc.
  assert (Hn : 1 <= Z.of_nat (length l)) by (destruct l; [contradiction|cbn; lia]).
  assert (Hres : exists k, resolve_chunksize cs (Z.of_nat (length l)) p = Some k /\ 1 <= k).
  { destruct cs as [c|].
    - exists c. unfold resolve_chunksize.
      replace (Z.of_nat (length l) =? 0) with false by lia.
      split; [reflexivity|apply Hc; reflexivity].
    - apply default_chunksize_pos; [exact Hn|apply Hp; reflexivity]. }
  destruct Hres as (kz & Hr & Hk). exists (Z.to_nat kz).
  rewrite Z2Nat.id by lia. split; [lia|]. split; [exact Hr|].
  unfold map_async. rewrite Hr. unfold get_tasks.
  replace (kz <? 0) with false by lia. reflexivity.
Qed.

(* OBSERVATION (not what a caller expects): an explicit chunksize <= 0 with a
   non-empty input is resolved at construction -- get() returns n Nones, no
   task is ever computed. *)
Theorem map_nonpositive_chunksize (n k : Z) (hc he : bool) : k <= 0 ->
    map_get (map_init (E := E) none n k hc he) = OList (repeat none (Z.to_nat n)).
Proof.
  intros Hk. unfold map_init. replace (k <=? 0) with true by lia. reflexivity.
Qed.

End MapEdges.

(* starmap: the same reassembly with the mapper starmapstar *)
Theorem starmap_any_order {A1 A2 B E : Type} (none : B) (g : A1 -> A2 -> B)
        (l : list (A1 * A2)) (k : nat) (hc he d : bool) (H : list nat) :
    (1 <= k)%nat -> NoDup H -> (forall x, In x H -> (x < length (chunks l k))%nat) ->
    length H = length (chunks l k) ->
    let msgs := map (fun i => (if d then MDeliver else MSet)
                                (MOk (E := E) (Z.of_nat i)
                                     (starmapstar g (nth i (chunks l k) [])))) H in
    let st := fst (map_run (map_init none (Z.of_nat (length l)) (Z.of_nat k) hc he) msgs) in
    m_value st = VList (map (fun p => g (fst p) (snd p)) l) /\
    (H <> [] -> map_get st = OList (map (fun p => g (fst p) (snd p)) l)).
Proof.
  intros Hk Hnd Hb Hfull. cbv zeta.
  pose proof (map_any_order (E := E) none (fun p => g (fst p) (snd p)) l k Hk hc he d H Hnd Hb)
    as Hm.
  cbv zeta in Hm. unfold map_msgs, chunk_result in Hm. unfold starmapstar.
  destruct Hm as (_ & _ & _ & Hr & _ & _ & _ & Hv & Hg).
  split; [apply Hv; exact Hfull|].
  intros Hne. rewrite Hg, Hr.
  replace (0 <? length H)%nat with true
    by (symmetry; apply Nat.ltb_lt; destruct H; [contradiction|cbn; lia]).
  rewrite Hfull, Nat.eqb_refl. reflexivity.
Qed.

(* apply: one job, one result; acks may come before or after it *)
Section Apply.
Context {A E : Type}.

Lemma apply_acks_keep (st : ares A E) (n : nat) :
    let st' := fst (apply_run st (repeat AAck n)) in
    a_ready st' = a_ready st /\ a_value st' = a_value st /\ a_cb st' = a_cb st /\
    a_ecb st' = a_ecb st /\ a_has_cb st' = a_has_cb st /\ a_has_ecb st' = a_has_ecb st.
Proof.
  revert st. induction n as [|n IH]; intros st; cbn [repeat apply_run fst].
  - repeat split.
  - cbn [apply_op]. specialize (IH (apply_ack st)).
    destruct (apply_run (apply_ack st) (repeat AAck n)) as [s x]. cbn [fst] in *.
    exact IH.
Qed.

Lemma apply_run_app (st : ares A E) (o1 o2 : list (aop A E)) :
    fst (apply_run st (o1 ++ o2)) = fst (apply_run (fst (apply_run st o1)) o2).
Proof.
  revert st. induction o1 as [|o o1 IH]; intros st; cbn [apply_run app]; [reflexivity|].
  destruct (apply_op st o) as [s x]. specialize (IH s).
  destruct (apply_run s (o1 ++ o2)). destruct (apply_run s o1). cbn [fst] in *. exact IH.
Qed.

Theorem apply_result (hc he : bool) (n1 n2 : nat) (d : bool) (b : item A E) :
    let ops := repeat AAck n1 ++ [if d then ADeliver b else ASet b] ++ repeat AAck n2 in
    let st := fst (apply_run (apply_init hc he) ops) in
    apply_get st = (match b with Good v => OYield v | Bad e => ORaise e end) /\
    a_cb st = (match b with Good v => if hc then [v] else [] | Bad _ => [] end) /\
    a_ecb st = (match b with Bad e => if he then [e] else [] | Good _ => [] end).
Proof.
  cbv zeta. rewrite !apply_run_app.
  destruct (apply_acks_keep (apply_init hc he) n1) as (R1 & V1 & C1 & E1 & HC1 & HE1).
  set (s1 := fst (apply_run (apply_init hc he) (repeat AAck n1))) in *.
  assert (Hc1 : a_incache s1 = true).
  { subst s1. clear. induction n1 as [|n IH]; [reflexivity|].
    cbn [repeat apply_run apply_op].
    assert (G : forall (s : ares A E) k, a_ready s = false -> a_incache s = true ->
                a_incache (fst (apply_run s (repeat AAck k))) = true).
    { intros s k; revert s. induction k as [|k IHk]; intros s Hr Hc; [exact Hc|].
      cbn [repeat apply_run apply_op]. specialize (IHk (apply_ack s)).
      destruct (apply_run (apply_ack s) (repeat AAck k)). cbn [fst] in *.
      apply IHk; cbn; rewrite ?Hr; [reflexivity|exact Hc]. }
    specialize (G (apply_ack (apply_init hc he)) n eq_refl eq_refl).
    destruct (apply_run (apply_ack (apply_init hc he)) (repeat AAck n)). exact G. }
  set (s2 := fst (apply_run s1 [if d then ADeliver b else ASet b])).
  assert (Hs2 : s2 = apply_set s1 b).
  { subst s2. destruct d; cbn [apply_run apply_op fst]; rewrite ?Hc1; reflexivity. }
  destruct (apply_acks_keep s2 n2) as (R2 & V2 & C2 & E2 & _ & _).
  unfold apply_get. rewrite R2, V2, C2, E2, Hs2. unfold apply_set. rewrite R1.
  cbn [apply_init a_ready a_value a_cb a_ecb].
  rewrite C1, E1, HC1, HE1. cbn [apply_init a_cb a_ecb a_has_cb a_has_ecb].
  destruct b; repeat split.
Qed.

End Apply.

(* END TO END: Pool.map(f, l, chunksize) on a pool of p workers, for a non-empty
   input: _map_async cuts l into batches that concatenate to l and, whatever the
   permutation in which the batch results mapstar(f, batch_i) come back, get()
   returns exactly map f l. *)
Theorem map_end_to_end {A B E : Type} (none : B) (f : A -> B) (l : list A)
        (cs : option Z) (p : Z) (d : bool) (H : list nat) :
    l <> [] -> (cs = None -> 1 <= p) -> (forall c, cs = Some c -> 1 <= c) ->
    exists (k : nat) (batches : list (list A)) (st0 : mres B E),
      map_async none l cs p = Some (Z.of_nat k, Some batches, st0) /\
      concat batches = l /\
      (Permutation H (seq 0 (length batches)) ->
       let msgs := map (fun i => (if d then MDeliver else MSet)
                                   (MOk (Z.of_nat i) (mapstar f (nth i batches [])))) H in
       map_get (fst (map_run st0 msgs)) = OList (map f l) /\
       m_cb (fst (map_run st0 msgs)) = [] /\ m_success (fst (map_run st0 msgs)) = true).
Proof.
  intros Hl Hp Hc.
  destruct (map_async_resolves (E := E) none l cs p Hl Hp Hc) as (k & Hk & _ & Hasync).
  exists k, (chunks l k), (map_init none (Z.of_nat (length l)) (Z.of_nat k) false false).
  split; [exact Hasync|]. split; [apply chunks_concat; exact Hk|].
  intros Hperm. cbv zeta.
  assert (Hnd : NoDup H).
  { apply (Permutation_NoDup (l := seq 0 (length (chunks l k)))).
    - apply Permutation_sym. exact Hperm.
    - apply seq_NoDup. }
  assert (Hb : forall x, In x H -> (x < length (chunks l k))%nat).
  { intros x Hx. apply (Permutation_in _ Hperm) in Hx. apply in_seq in Hx. lia. }
  assert (Hlen : length H = length (chunks l k)).
  { rewrite (Permutation_length Hperm). apply seq_length. }
  pose proof (map_any_order (E := E) none f l k Hk false false d H Hnd Hb) as Hm.
  cbv zeta in Hm. unfold map_msgs, chunk_result in Hm. unfold mapstar.
  destruct Hm as (_ & _ & Hs & Hr & _ & Hcb & _ & _ & Hg).
  assert (Hpos : (0 < length (chunks l k))%nat).
  { apply chunks_index_lt; [exact Hk|]. destruct l; [contradiction|cbn; lia]. }
  rewrite Hr in Hg, Hcb. rewrite Hlen in Hg, Hcb.
  replace (0 <? length (chunks l k))%nat with true in * by (symmetry; apply Nat.ltb_lt; exact Hpos).
  rewrite Nat.eqb_refl in *. cbn [andb] in *.
  split; [exact Hg|]. split; [exact Hcb|exact Hs].
Qed.

(* an ApplyResult keeps its first outcome: later results change nothing *)
Theorem apply_first_outcome_kept {A E : Type} (st : ares A E) (ops : list (aop A E)) :
    a_ready st = true ->
    let st' := fst (apply_run st ops) in
    a_ready st' = true /\ a_value st' = a_value st /\ a_cb st' = a_cb st /\ a_ecb st' = a_ecb st /\
    apply_get st' = apply_get st.
Proof.
  revert st. induction ops as [|o ops IH]; intros st Hr; cbn [apply_run fst].
  - repeat split. exact Hr.
  - assert (Hstep : a_ready (fst (apply_op st o)) = true /\
                    a_value (fst (apply_op st o)) = a_value st /\
                    a_cb (fst (apply_op st o)) = a_cb st /\ a_ecb (fst (apply_op st o)) = a_ecb st).
    { destruct o as [b|b| |]; cbn [apply_op fst]; unfold apply_set; rewrite ?Hr;
        try (destruct (a_incache st)); cbn [fst apply_ack a_ready a_value a_cb a_ecb];
        rewrite ?Hr; repeat split; reflexivity. }
    destruct (apply_op st o) as [s x]. cbn [fst] in Hstep.
    destruct Hstep as (H1 & H2 & H3 & H4). specialize (IH s H1). cbv zeta in IH.
    destruct (apply_run s ops) as [s2 xs]. cbn [fst] in *.
    destruct IH as (I1 & I2 & I3 & I4 & I5).
    split; [exact I1|]. split; [congruence|]. split; [congruence|]. split; [congruence|].
    rewrite I5. unfold apply_get. rewrite H1, H2, Hr. reflexivity.
Qed.
