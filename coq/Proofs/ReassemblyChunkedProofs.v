(* C02, Part E: imap / imap_unordered with chunksize > 1 -- the POSITIVE theorem.

   The consumer of  (item for chunk in result for item in chunk)  over an
   IMapIterator / IMapUnorderedIterator of chunk results sees, for EVERY
   well-formed interleaving of chunk arrivals, the length announcement and its
   own next() calls:

     the values of the leading good chunks, flattened, in order;
     if a chunk failed: after the values of the chunks before it, Exception(e)
     of the FIRST failing chunk, and from then on only StopIteration (the code's
     behaviour -- known finding C02:imap-chunked-error-ends-iteration);
     StopIteration otherwise only after every chunk arrived, the length was
     announced and every value was handed out.

   Proof idea: the inner iterator keeps the chunksize-1 invariant (IInv / UInv of
   ReassemblyImapProofs, at element type item (list V) E); on top of it the
   "remaining output" of a generator state -- the rest of the current chunk followed
   by the specification of the chunks not yet popped -- shrinks by exactly what
   next() hands out. *)
From Coq Require Import ZArith List Bool Lia ZifyBool Arith PeanoNat Permutation.
From BV Require Import Lib.PyVal Lib.Cases Model.Reassembly Proofs.ReassemblyProofs
     Proofs.ReassemblyImapProofs.
Import ListNotations.
Open Scope nat_scope.

(* ------------------------------------------------------------------ *)
(* the specification                                                    *)
Section FlatSpec.
Context {V E : Type}.
Notation C := (item (list V) E).

(* what a consumer gets out of the chunk sequence cs, up to the first failure *)
Fixpoint flat_spec (cs : list C) : list (out V E) :=
  match cs with
  | [] => []
  | Good vs :: r => map OYield vs ++ flat_spec r
  | Bad e :: _ => [ORaise e]
  end.

(* the results of the chunks before the first failing one *)
Fixpoint good_prefix (cs : list C) : list (list V) :=
  match cs with Good vs :: r => vs :: good_prefix r | _ => [] end.

(* the payload of the first failing chunk *)
Fixpoint first_bad (cs : list C) : option E :=
  match cs with [] => None | Good _ :: r => first_bad r | Bad e :: _ => Some e end.

Definition chunked_expected (cs : list C) : list (out V E) :=
  map OYield (concat (good_prefix cs)) ++
  match first_bad cs with Some e => [ORaise e] | None => [] end.

Lemma flat_spec_expected (cs : list C) : flat_spec cs = chunked_expected cs.
Proof.
  unfold chunked_expected.
  induction cs as [|[vs|e] r IH]; cbn [flat_spec good_prefix first_bad concat map app].
  - reflexivity.
  - rewrite IH, map_app, app_assoc. reflexivity.
  - reflexivity.
Qed.

Lemma good_prefix_all_good (vs : list (list V)) : good_prefix (map Good vs) = vs.
Proof. induction vs as [|v vs IH]; cbn [map good_prefix]; [reflexivity|rewrite IH; reflexivity]. Qed.

Lemma first_bad_all_good (vs : list (list V)) : first_bad (map Good vs) = None.
Proof. induction vs as [|v vs IH]; cbn [map first_bad]; [reflexivity|exact IH]. Qed.

Lemma chunked_expected_all_good (vs : list (list V)) :
    chunked_expected (map Good vs) = map OYield (concat vs).
Proof.
  unfold chunked_expected. rewrite good_prefix_all_good, first_bad_all_good, app_nil_r. reflexivity.
Qed.

Lemma no_raise_without_bad (cs : list C) (e : E) :
    first_bad cs = None -> ~ In (ORaise e) (chunked_expected cs).
Proof.
  intros Hn Hin. unfold chunked_expected in Hin. rewrite Hn, app_nil_r in Hin.
  apply in_map_iff in Hin. destruct Hin as (x & Hx & _). discriminate.
Qed.

Lemma skipn_nth {X} (l : list X) (k : nat) (x : X) :
    nth_error l k = Some x -> skipn k l = x :: skipn (S k) l.
Proof.
  revert l. induction k as [|k IH]; intros l H; destruct l as [|y l]; try discriminate.
  - cbn in H. inversion H. reflexivity.
  - cbn [nth_error] in H. cbn [skipn]. rewrite (IH l H). reflexivity.
Qed.

Lemma flat_spec_skipn_ge (l : list C) (k : nat) : length l <= k -> flat_spec (skipn k l) = [].
Proof. intros H. rewrite skipn_all2 by exact H. reflexivity. Qed.

End FlatSpec.

(* ------------------------------------------------------------------ *)
(* the generator over ANY inner iterator whose pop obeys `pop_ok`       *)
Section Pull.
Context {V E : Type}.
Notation C := (item (list V) E).

Definition popped (st : istate C) (r : list C) : istate C :=
  mk_ist r (i_index st) (i_length st) (i_ready st) (i_unsorted st) (i_incache st).
Definition stopped (st : istate C) : istate C :=
  mk_ist [] (i_index st) (i_length st) true (i_unsorted st) (i_incache st).

Variable L : list C.                       (* the sequence the inner iterator releases *)
Variable P : nat -> istate C -> Prop.      (* inner invariant, indexed by the number popped *)
Variables Fin Blocked : Prop.              (* what holds when the inner next() stops / would block *)

Hypothesis pop_ok : forall rho st, P rho st ->
  match i_items st with
  | x :: r => nth_error L rho = Some x /\ P (S rho) (popped st r)
  | [] => if at_length st
          then length L <= rho /\ Fin /\ P rho (stopped st)
          else Blocked
  end.

(* what the consumer will still get from generator state fs with rho chunks popped *)
Definition Rem (fs : fstate V E) (rho : nat) : list (out V E) :=
  if f_dead fs then [] else map OYield (f_cur fs) ++ flat_spec (skipn rho L).

Lemma flat_pull_gen : forall fuel st rho, P rho st -> length (i_items st) < fuel ->
    exists fs' o rho', flat_pull fuel st = (fs', o) /\ rho <= rho' /\ P rho' (f_inner fs') /\
      ((exists x, o = OYield x /\ f_dead fs' = false /\
                  flat_spec (skipn rho L) =
                  OYield x :: map OYield (f_cur fs') ++ flat_spec (skipn rho' L)) \/
       (exists e, o = ORaise e /\ f_dead fs' = true /\ flat_spec (skipn rho L) = [ORaise e]) \/
       (o = OStop /\ f_dead fs' = true /\ flat_spec (skipn rho L) = [] /\ Fin) \/
       (o = OTimeout /\ f_dead fs' = false /\ f_cur fs' = [] /\
        flat_spec (skipn rho L) = flat_spec (skipn rho' L) /\ Blocked)).
Proof.
  induction fuel as [|fuel IH]; intros st rho HP Hlen; [lia|].
  pose proof (pop_ok rho st HP) as Hpop. unfold popped, stopped in *.
  cbn [flat_pull]. unfold imap_pop.
  destruct (i_items st) as [|x r] eqn:Hit.
  - destruct (at_length st) eqn:Hat.
    + destruct Hpop as (Hge & Hfin & HP').
      eexists _, _, rho. split; [reflexivity|]. split; [lia|]. split; [exact HP'|].
      right; right; left. split; [reflexivity|]. split; [reflexivity|].
      split; [apply flat_spec_skipn_ge; exact Hge|exact Hfin].
    + eexists _, _, rho. split; [reflexivity|]. split; [lia|]. split; [exact HP|].
      right; right; right. split; [reflexivity|]. split; [reflexivity|]. split; [reflexivity|].
      split; [reflexivity|exact Hpop].
  - destruct Hpop as (Hx & HP'). rewrite (skipn_nth L rho x Hx).
    destruct x as [[|y ys]|e].
    + destruct (IH (mk_ist r (i_index st) (i_length st) (i_ready st) (i_unsorted st) (i_incache st))
                   (S rho) HP') as (fs' & o & rho' & Hp & Hle & HP'' & Hc).
      { cbn [i_items]. cbn [length] in Hlen. lia. }
      exists fs', o, rho'. split; [exact Hp|]. split; [lia|]. split; [exact HP''|].
      cbn [flat_spec map app]. exact Hc.
    + eexists _, _, (S rho). split; [reflexivity|]. split; [lia|]. split; [exact HP'|].
      left. exists y. split; [reflexivity|]. split; [reflexivity|]. reflexivity.
    + eexists _, _, (S rho). split; [reflexivity|]. split; [lia|]. split; [exact HP'|].
      right; left. exists e. split; [reflexivity|]. split; reflexivity.
Qed.

(* one next() of the consumer *)
Lemma flat_next_gen (fs : fstate V E) (rho : nat) : P rho (f_inner fs) ->
    exists fs' o rho', flat_next fs = (fs', o) /\ rho <= rho' /\ P rho' (f_inner fs') /\
      ((seen o = true /\ o <> OStop /\ Rem fs rho = o :: Rem fs' rho' /\ f_dead fs = false /\
        (f_dead fs' = false \/ exists e, o = ORaise e)) \/
       (o = OStop /\ Rem fs rho = [] /\ Rem fs' rho' = [] /\ (f_dead fs = false -> Fin)) \/
       (o = OTimeout /\ Rem fs' rho' = Rem fs rho /\ f_dead fs = false /\ f_dead fs' = false /\
        Blocked)).
Proof.
  intros HP. unfold flat_next, Rem. destruct (f_dead fs) eqn:Hd.
  - exists fs, OStop, rho. split; [reflexivity|]. split; [lia|]. split; [exact HP|].
    right; left. rewrite Hd. split; [reflexivity|]. split; [reflexivity|]. split; [reflexivity|].
    discriminate.
  - destruct (f_cur fs) as [|x r] eqn:Hc.
    + destruct (flat_pull_gen (S (length (i_items (f_inner fs)))) (f_inner fs) rho HP ltac:(lia))
        as (fs' & o & rho' & Hp & Hle & HP' & Hcase).
      exists fs', o, rho'. split; [exact Hp|]. split; [exact Hle|]. split; [exact HP'|].
      cbn [map app].
      destruct Hcase as [(x & -> & Hd' & Hs)|[(e & -> & Hd' & Hs)|[(-> & Hd' & Hs & Hf)|
                         (-> & Hd' & Hc' & Hs & Hb)]]]; rewrite Hd'.
      * left. split; [reflexivity|]. split; [discriminate|]. split; [exact Hs|].
        split; [reflexivity|]. left; reflexivity.
      * left. split; [reflexivity|]. split; [discriminate|]. split; [exact Hs|].
        split; [reflexivity|]. right; exists e; reflexivity.
      * right; left. split; [reflexivity|]. split; [exact Hs|]. split; [reflexivity|].
        intros _; exact Hf.
      * right; right. split; [reflexivity|]. rewrite Hc'. cbn [map app].
        split; [symmetry; exact Hs|]. split; [reflexivity|]. split; [reflexivity|exact Hb].
    + eexists _, _, rho. split; [reflexivity|]. split; [lia|]. split; [exact HP|].
      left. cbn [f_dead f_cur map app]. split; [reflexivity|]. split; [discriminate|].
      split; [reflexivity|]. split; [reflexivity|]. left; reflexivity.
Qed.

(* a consumer that keeps calling next() while nothing else happens, the inner
   iterator being unable to block *)
Lemma flat_nexts_gen (u : bool) : ~ Blocked ->
    forall k fs rho, P rho (f_inner fs) ->
    view (snd (flat_run u fs (repeat INext k))) =
      firstn k (Rem fs rho) ++ repeat OStop (k - length (Rem fs rho)).
Proof.
  intros Hnb. induction k as [|k IH]; intros fs rho HP.
  - cbn. reflexivity.
  - cbn [repeat flat_run flat_op].
    destruct (flat_next_gen fs rho HP) as (fs' & o & rho' & Hn & Hle & HP' & Hcase).
    rewrite Hn. specialize (IH fs' rho' HP').
    destruct (flat_run u fs' (repeat INext k)) as [s2 xs]. cbn [fst snd] in *.
    destruct Hcase as [(Hs & _ & HR & _)|[(-> & HR & HR' & _)|(-> & _ & _ & _ & Hb)]].
    + unfold view in *. cbn [filter]. rewrite Hs, IH, HR. cbn [firstn length app Nat.sub].
      reflexivity.
    + unfold view in *. cbn [filter seen]. rewrite IH, HR, HR'. rewrite firstn_nil.
      cbn [firstn length app]. rewrite !Nat.sub_0_r. reflexivity.
    + contradiction.
Qed.

End Pull.

Lemma flat_op_ctl {V E} (u : bool) (fs : fstate V E) (o : iop (item (list V) E))
      (st' : istate (item (list V) E)) :
    o <> INext -> imap_op u (f_inner fs) o = (st', OUnit) ->
    flat_op u fs o = (mk_fst st' (f_cur fs) (f_dead fs), OUnit).
Proof.
  intros Hne H. destruct o as [i b|i b|k|]; try contradiction; cbn [flat_op imap_op] in *;
    destruct (imap_ctl u (f_inner fs) _) as [s e]; destruct e as [x|]; cbn [exn_out] in *;
    inversion H; reflexivity.
Qed.

(* ================================================================== *)
(* ordered: Pool.imap(chunksize > 1)                                    *)
Section ChunkedOrdered.
Context {V E : Type}.
Notation C := (item (list V) E).
Variable chunks : list C.      (* chunk i's outcome: Good (map f chunk_i) or Bad e *)
Variable dflt : C.
Notation n := (length chunks).

Definition fin_o (got : list nat) (ls : bool) : Prop :=
  ls = true /\ forall i, i < n -> In i got.

Lemma iinv_pop_ok (got : list nat) (ls : bool) : forall rho st, IInv chunks got rho ls st ->
    match i_items st with
    | x :: r => nth_error chunks rho = Some x /\ IInv chunks got (S rho) ls (popped st r)
    | [] => if at_length st
            then n <= rho /\ fin_o got ls /\ IInv chunks got rho ls (stopped st)
            else ~ fin_o got ls
    end.
Proof.
  intros rho st (c & Hidx & Hcn & Hlow & Hnc & Hd & Hpre & Hrc & Hlen & Hcache).
  destruct (i_items st) as [|x r] eqn:Hitems.
  - apply prefix_done in Hpre; [|exact Hrc|exact Hcn]. subst rho.
    unfold at_length. rewrite Hlen, Hidx. destruct ls.
    + destruct (Z.of_nat c =? Z.of_nat n)%Z eqn:En.
      * assert (c = n) by lia. subst c. split; [lia|]. split; [split; [reflexivity|exact Hlow]|].
        exists n. unfold stopped. cbn [i_length i_index i_incache i_items i_unsorted i_ready].
        repeat split; try assumption; try lia. rewrite app_nil_r. reflexivity.
      * intros (_ & Hall). apply Hnc, Hall. lia.
    + intros (Hf & _). discriminate.
  - destruct (prefix_head chunks c rho x r Hpre Hrc Hcn) as (Hx & Hlt & Hpre').
    split; [exact Hx|]. exists c. unfold popped.
    cbn [i_length i_index i_incache i_items i_unsorted i_ready].
    repeat split; try assumption; try lia.
Qed.

Notation RemO := (Rem chunks).

Lemma flat_run_inv (d : bool) : forall h fs got rho ls,
    IInv chunks got rho ls (f_inner fs) -> (forall j, In j got -> j < n) ->
    wf_from chunks got ls h ->
    exists t s got' rho' ls',
      IInv chunks got' rho' ls'
           (f_inner (fst (flat_run false fs (map (ev_op chunks dflt d) h)))) /\
      view (snd (flat_run false fs (map (ev_op chunks dflt d) h))) =
        firstn t (RemO fs rho) ++ repeat OStop s /\
      t <= length (RemO fs rho) /\
      RemO (fst (flat_run false fs (map (ev_op chunks dflt d) h))) rho' = skipn t (RemO fs rho) /\
      (0 < s -> t = length (RemO fs rho) /\
                (f_dead fs = false ->
                 (exists e, In (ORaise e) (RemO fs rho)) \/ fin_o got' ls')) /\
      (forall i, In i got' <-> In i (arrivals h) \/ In i got) /\
      ls' = (ls || (0 <? count_len h)).
Proof.
  induction h as [|e h IH]; intros fs got rho ls Hinv HS (Hnd & Hrange & Hcount).
  - exists 0, 0, got, rho, ls. cbn. rewrite orb_false_r.
    split; [exact Hinv|]. split; [reflexivity|]. split; [lia|]. split; [reflexivity|].
    split; [lia|]. split; [tauto|reflexivity].
  - destruct e as [i| |].
    + (* a chunk arrives *)
      cbn [arrivals app] in Hnd. apply NoDup_cons_iff in Hnd. destruct Hnd as [Hni Hnd].
      assert (Hni' : ~ In i got) by (intros H; apply Hni, in_or_app; right; exact H).
      assert (Hin : i < n) by (apply Hrange; left; reflexivity).
      destruct (iinv_arr chunks dflt got rho ls d (f_inner fs) i Hinv HS Hni' Hin)
        as (st' & Hop & Hinv').
      assert (Hfop : flat_op false fs (ev_op chunks dflt d (Arr i)) =
                     (mk_fst st' (f_cur fs) (f_dead fs), OUnit)).
      { apply flat_op_ctl; [destruct d; discriminate|exact Hop]. }
      destruct (IH (mk_fst st' (f_cur fs) (f_dead fs)) (i :: got) rho ls Hinv')
        as (t & s & got' & rho' & ls' & H1 & H2 & H3 & H4 & H5 & H6 & H7).
      * intros j [<-|Hj]; [exact Hin|apply HS, Hj].
      * split; [|split].
        -- apply (Permutation_NoDup (l := i :: arrivals h ++ got)).
           ++ apply Permutation_middle.
           ++ constructor; assumption.
        -- intros j Hj. apply Hrange. right. exact Hj.
        -- exact Hcount.
      * exists t, s, got', rho', ls'. cbn [map flat_run]. rewrite Hfop.
        destruct (flat_run false (mk_fst st' (f_cur fs) (f_dead fs)) (map (ev_op chunks dflt d) h))
          as [s2 xs]. cbn [fst snd] in *.
        split; [exact H1|]. split; [exact H2|]. split; [exact H3|]. split; [exact H4|].
        split; [exact H5|]. split; [|exact H7].
        intros j. rewrite H6. cbn [arrivals In]. tauto.
    + (* the length is announced *)
      assert (ls = false) by (destruct ls; [cbn [count_len] in Hcount; lia|reflexivity]). subst ls.
      destruct (iinv_len chunks dflt got rho d (f_inner fs) Hinv) as (st' & Hop & Hinv').
      assert (Hfop : flat_op false fs (ev_op chunks dflt d Len) =
                     (mk_fst st' (f_cur fs) (f_dead fs), OUnit)).
      { apply flat_op_ctl; [discriminate|exact Hop]. }
      destruct (IH (mk_fst st' (f_cur fs) (f_dead fs)) got rho true Hinv' HS)
        as (t & s & got' & rho' & ls' & H1 & H2 & H3 & H4 & H5 & H6 & H7).
      * split; [exact Hnd|]. split; [exact Hrange|]. cbn [count_len] in Hcount. lia.
      * exists t, s, got', rho', ls'. cbn [map flat_run]. rewrite Hfop.
        destruct (flat_run false (mk_fst st' (f_cur fs) (f_dead fs)) (map (ev_op chunks dflt d) h))
          as [s2 xs]. cbn [fst snd] in *.
        split; [exact H1|]. split; [exact H2|]. split; [exact H3|]. split; [exact H4|].
        split; [exact H5|]. split; [exact H6|]. rewrite H7. reflexivity.
    + (* the consumer calls next() *)
      destruct (flat_next_gen chunks (fun r => IInv chunks got r ls) (fin_o got ls) (~ fin_o got ls)
                              (iinv_pop_ok got ls) fs rho Hinv)
        as (fs' & o & rho1 & Hn & Hle & Hinv' & Hcase).
      destruct (IH fs' got rho1 ls Hinv' HS (conj Hnd (conj Hrange Hcount)))
        as (t & s & got' & rho' & ls' & H1 & H2 & H3 & H4 & H5 & H6 & H7).
      cbn [map flat_run ev_op flat_op]. rewrite Hn.
      destruct (flat_run false fs' (map (ev_op chunks dflt d) h)) as [s2 xs]. cbn [fst snd] in *.
      destruct Hcase as [(Hs & Hns & HR & Hd & Hd')|[(-> & HR & HR' & Hf)|
                         (-> & HR & Hd & Hd' & Hb)]].
      * exists (S t), s, got', rho', ls'.
        split; [exact H1|]. unfold view in *. cbn [filter]. rewrite Hs, H2, HR.
        cbn [firstn skipn length app]. split; [reflexivity|]. split; [lia|]. split; [exact H4|].
        split; [|split; [exact H6|exact H7]].
        intros Hs0. destruct (H5 Hs0) as (Ht & Hfin). split; [lia|]. intros _.
        destruct Hd' as [Hd'|(e & ->)].
        -- destruct (Hfin Hd') as [(e & He)|Hf]; [left; exists e; right; exact He|right; exact Hf].
        -- left. exists e. left. reflexivity.
      * exists 0, (S s), got', rho', ls'.
        split; [exact H1|]. unfold view in *. cbn [filter seen]. rewrite H2, HR, HR' in *.
        rewrite firstn_nil in *. rewrite skipn_nil in H4. cbn [firstn skipn length app repeat].
        split; [reflexivity|]. split; [lia|]. split; [exact H4|].
        split; [|split; [exact H6|exact H7]].
        intros _. split; [reflexivity|]. intros Hd. right. destruct (Hf Hd) as (Hls & Hall).
        split.
        -- rewrite H7, Hls. reflexivity.
        -- intros i Hi. apply H6. right. apply Hall. exact Hi.
      * exists t, s, got', rho', ls'.
        split; [exact H1|]. unfold view in *. cbn [filter seen]. rewrite HR in *.
        split; [exact H2|]. split; [exact H3|]. split; [exact H4|].
        split; [|split; [exact H6|exact H7]].
        intros Hs0. destruct (H5 Hs0) as (Ht & Hfin). split; [exact Ht|]. intros _. apply Hfin, Hd'.
Qed.

(* ORDER THEOREM for chunked imap (safety), every interleaving. *)
Theorem chunked_in_order (d : bool) (h : list ev) : wf chunks h ->
    exists t s,
      view (snd (flat_run false flat_init (map (ev_op chunks dflt d) h))) =
        firstn t (chunked_expected chunks) ++ repeat OStop s /\
      t <= length (chunked_expected chunks) /\
      (0 < s -> t = length (chunked_expected chunks) /\
                (first_bad chunks = None ->
                 count_len h = 1 /\ forall i, i < n -> In i (arrivals h))).
Proof.
  intros (Hnd & Hrange & Hcount).
  destruct (flat_run_inv d h flat_init [] 0 false (iinv_init chunks))
    as (t & s & got' & rho' & ls' & H1 & H2 & H3 & H4 & H5 & H6 & H7).
  - intros j [].
  - split; [rewrite app_nil_r; exact Hnd|]. split; [exact Hrange|]. lia.
  - unfold Rem in H2, H3, H5. cbn [flat_init f_dead f_cur map app skipn] in H2, H3, H5.
    rewrite flat_spec_expected in H2, H3, H5.
    exists t, s. split; [exact H2|]. split; [exact H3|].
    intros Hs. destruct (H5 Hs) as (Ht & Hfin). split; [exact Ht|]. intros Hnb.
    destruct (Hfin eq_refl) as [(e & He)|(Hls & Hall)].
    + exfalso. exact (no_raise_without_bad chunks e Hnb He).
    + split.
      * rewrite Hls in H7. cbn [orb] in H7.
        destruct (count_len h) as [|[|k]]; try lia; discriminate.
      * intros i Hi. apply Hall in Hi. apply H6 in Hi. destruct Hi as [Hi|[]]. exact Hi.
Qed.

(* completeness: every chunk arrives, the length is announced, the consumer pulls enough *)
Theorem chunked_complete (d : bool) (h : list ev) : wf chunks h ->
    (forall i, i < n -> In i (arrivals h)) -> count_len h = 1 ->
    exists s,
      view (snd (flat_run false flat_init
                   (map (ev_op chunks dflt d) h ++
                    repeat INext (S (length (chunked_expected chunks)))))) =
        chunked_expected chunks ++ repeat OStop (S s).
Proof.
  intros (Hnd & Hrange & Hcount) Hall Hlen1.
  destruct (flat_run_inv d h flat_init [] 0 false (iinv_init chunks))
    as (t & s & got' & rho' & ls' & H1 & H2 & H3 & H4 & H5 & H6 & H7).
  - intros j [].
  - split; [rewrite app_nil_r; exact Hnd|]. split; [exact Hrange|]. lia.
  - rewrite flat_run_app.
    destruct (flat_run false flat_init (map (ev_op chunks dflt d) h)) as [s1 x1]. cbn [fst snd] in *.
    assert (Hls : ls' = true) by (rewrite H7, Hlen1; reflexivity). rewrite Hls in H1.
    assert (Hall' : forall i, i < n -> In i got') by (intros i Hi; apply H6; left; apply Hall, Hi).
    pose proof (flat_nexts_gen chunks (fun r => IInv chunks got' r true) (fin_o got' true)
                  (~ fin_o got' true) (iinv_pop_ok got' true) false
                  (fun H => H (conj eq_refl Hall'))
                  (S (length (chunked_expected chunks))) s1 rho' H1) as Hd.
    destruct (flat_run false s1 (repeat INext (S (length (chunked_expected chunks))))) as [s2 x2].
    cbn [fst snd] in *. rewrite view_app, H2, Hd, H4.
    unfold Rem in *. cbn [flat_init f_dead f_cur map app skipn] in *.
    rewrite flat_spec_expected in *.
    set (R := chunked_expected chunks) in *.
    destruct s as [|s].
    + cbn [repeat]. rewrite app_nil_r, app_assoc.
      rewrite (firstn_all2 (n := S (length R))) by (rewrite skipn_length; lia).
      rewrite firstn_skipn, skipn_length.
      exists (t). replace (S (length R) - (length R - t)) with (S t) by lia. reflexivity.
    + destruct (H5 ltac:(lia)) as (Ht & _). subst t.
      rewrite firstn_all, skipn_all, firstn_nil. cbn [length app].
      rewrite <- app_assoc, <- repeat_app. exists (s + (S (length R) - 0)).
      replace (S s + (S (length R) - 0)) with (S (s + (S (length R) - 0))) by lia. reflexivity.
Qed.

End ChunkedOrdered.

(* ================================================================== *)
(* unordered: Pool.imap_unordered(chunksize > 1): chunks in arrival      *)
(* order, the items of a chunk in their own order                        *)
Section ChunkedUnordered.
Context {V E : Type}.
Notation C := (item (list V) E).
Variable N : nat.          (* the number of chunks that will be announced *)

Definition fin_u (arrs : list C) (ls : bool) : Prop := length arrs = N /\ ls = true.

Lemma uinv_pop_ok (arrs fut : list C) (ls : bool) : length arrs + length fut <= N ->
    forall rho st, UInv N arrs rho ls st ->
    match i_items st with
    | x :: r => nth_error (arrs ++ fut) rho = Some x /\ UInv N arrs (S rho) ls (popped st r)
    | [] => if at_length st
            then length (arrs ++ fut) <= rho /\ fin_u arrs ls /\ UInv N arrs rho ls (stopped st)
            else ~ fin_u arrs ls
    end.
Proof.
  intros Hcap rho st (Hidx & Hpre & Hr & HN & Hlen & Hcache).
  assert (Hpre0 : firstn (length arrs) arrs = firstn rho arrs ++ i_items st)
    by (rewrite firstn_all; exact Hpre).
  destruct (i_items st) as [|x r] eqn:Hitems.
  - apply prefix_done in Hpre0; [|exact Hr|lia]. subst rho.
    unfold at_length. rewrite Hlen, Hidx. destruct ls.
    + destruct (Z.of_nat (length arrs) =? Z.of_nat N)%Z eqn:En.
      * assert (HlN : length arrs = N) by lia.
        split; [rewrite app_length; lia|]. split; [split; [exact HlN|reflexivity]|].
        unfold UInv, stopped. cbn [i_length i_index i_incache i_items i_unsorted i_ready].
        repeat split; try assumption; try lia.
      * intros (HlN & _). lia.
    + intros (_ & Hf). discriminate.
  - destruct (prefix_head arrs (length arrs) rho x r Hpre0 Hr ltac:(lia)) as (Hx & Hlt & Hpre').
    split.
    + rewrite nth_error_app1 by lia. exact Hx.
    + unfold UInv, popped. cbn [i_length i_index i_incache i_items i_unsorted i_ready].
      rewrite firstn_all in Hpre'. repeat split; try assumption; try lia.
Qed.

Lemma flatu_run_inv (d : bool) : forall h fs arrs rho ls,
    UInv N arrs rho ls (f_inner fs) ->
    length arrs + length (uarrived h) <= N ->
    ucount_len h + (if ls then 1 else 0) <= 1 ->
    let all := arrs ++ uarrived h in
    exists t s rho' ls',
      UInv N all rho' ls' (f_inner (fst (flat_run true fs (map (uev_op N d) h)))) /\
      view (snd (flat_run true fs (map (uev_op N d) h))) =
        firstn t (Rem all fs rho) ++ repeat OStop s /\
      t <= length (Rem all fs rho) /\
      Rem all (fst (flat_run true fs (map (uev_op N d) h))) rho' = skipn t (Rem all fs rho) /\
      (0 < s -> t = length (Rem all fs rho) /\
                (f_dead fs = false ->
                 (exists e, In (ORaise e) (Rem all fs rho)) \/ fin_u all ls')) /\
      ls' = (ls || (0 <? ucount_len h)).
Proof.
  induction h as [|e h IH]; intros fs arrs rho ls Hinv Hcap Hcount; cbv zeta.
  - exists 0, 0, rho, ls. cbn. rewrite app_nil_r, orb_false_r.
    split; [exact Hinv|]. split; [reflexivity|]. split; [lia|]. split; [reflexivity|].
    split; [lia|reflexivity].
  - destruct e as [i b| |].
    + cbn [uarrived length] in Hcap.
      destruct (uinv_arr N arrs rho ls d (f_inner fs) i b Hinv ltac:(lia)) as (st' & Hop & Hinv').
      assert (Hfop : flat_op true fs (uev_op N d (UArr i b)) =
                     (mk_fst st' (f_cur fs) (f_dead fs), OUnit)).
      { apply flat_op_ctl; [destruct d; discriminate|exact Hop]. }
      destruct (IH (mk_fst st' (f_cur fs) (f_dead fs)) (arrs ++ [b]) rho ls Hinv')
        as (t & s & rho' & ls' & H1 & H2 & H3 & H4 & H5 & H7).
      * rewrite app_length. cbn [length]. lia.
      * exact Hcount.
      * cbv zeta in *. cbn [uarrived]. rewrite <- app_assoc in *. cbn [app] in *.
        exists t, s, rho', ls'. cbn [map flat_run]. rewrite Hfop.
        destruct (flat_run true (mk_fst st' (f_cur fs) (f_dead fs)) (map (uev_op N d) h))
          as [s2 xs]. cbn [fst snd] in *.
        split; [exact H1|]. split; [exact H2|]. split; [exact H3|]. split; [exact H4|].
        split; [exact H5|exact H7].
    + assert (ls = false) by (destruct ls; [cbn [ucount_len] in Hcount; lia|reflexivity]). subst ls.
      destruct (uinv_len N arrs rho d (f_inner fs) Hinv) as (st' & Hop & Hinv').
      assert (Hfop : flat_op true fs (uev_op N d ULen) =
                     (mk_fst st' (f_cur fs) (f_dead fs), OUnit)).
      { apply flat_op_ctl; [discriminate|exact Hop]. }
      destruct (IH (mk_fst st' (f_cur fs) (f_dead fs)) arrs rho true Hinv' Hcap)
        as (t & s & rho' & ls' & H1 & H2 & H3 & H4 & H5 & H7).
      * cbn [ucount_len] in Hcount. lia.
      * cbv zeta in *. cbn [uarrived]. exists t, s, rho', ls'. cbn [map flat_run]. rewrite Hfop.
        destruct (flat_run true (mk_fst st' (f_cur fs) (f_dead fs)) (map (uev_op N d) h))
          as [s2 xs]. cbn [fst snd] in *.
        split; [exact H1|]. split; [exact H2|]. split; [exact H3|]. split; [exact H4|].
        split; [exact H5|]. rewrite H7. reflexivity.
    + cbn [uarrived ucount_len] in Hcap, Hcount. cbn [uarrived].
      destruct (flat_next_gen (arrs ++ uarrived h) (fun r => UInv N arrs r ls) (fin_u arrs ls)
                              (~ fin_u arrs ls) (uinv_pop_ok arrs (uarrived h) ls Hcap) fs rho Hinv)
        as (fs' & o & rho1 & Hn & Hle & Hinv' & Hcase).
      destruct (IH fs' arrs rho1 ls Hinv' Hcap Hcount)
        as (t & s & rho' & ls' & H1 & H2 & H3 & H4 & H5 & H7). cbv zeta in *.
      cbn [map flat_run uev_op flat_op]. rewrite Hn.
      destruct (flat_run true fs' (map (uev_op N d) h)) as [s2 xs]. cbn [fst snd] in *.
      destruct Hcase as [(Hs & Hns & HR & Hd & Hd')|[(-> & HR & HR' & Hf)|
                         (-> & HR & Hd & Hd' & Hb)]].
      * exists (S t), s, rho', ls'.
        split; [exact H1|]. unfold view in *. cbn [filter]. rewrite Hs, H2, HR.
        cbn [firstn skipn length app]. split; [reflexivity|]. split; [lia|]. split; [exact H4|].
        split; [|exact H7].
        intros Hs0. destruct (H5 Hs0) as (Ht & Hfin). split; [lia|]. intros _.
        destruct Hd' as [Hd'|(e & ->)].
        -- destruct (Hfin Hd') as [(e & He)|Hf]; [left; exists e; right; exact He|right; exact Hf].
        -- left. exists e. left. reflexivity.
      * exists 0, (S s), rho', ls'.
        split; [exact H1|]. unfold view in *. cbn [filter seen]. rewrite H2, HR, HR' in *.
        rewrite firstn_nil in *. rewrite skipn_nil in H4. cbn [firstn skipn length app repeat].
        split; [reflexivity|]. split; [lia|]. split; [exact H4|]. split; [|exact H7].
        intros _. split; [reflexivity|]. intros Hd. right. destruct (Hf Hd) as (HlN & Hls).
        assert (Hnil : uarrived h = []).
        { destruct (uarrived h); [reflexivity|]. cbn [length] in Hcap. lia. }
        split.
        -- rewrite Hnil, app_nil_r. exact HlN.
        -- rewrite H7, Hls. reflexivity.
      * exists t, s, rho', ls'.
        split; [exact H1|]. unfold view in *. cbn [filter seen]. rewrite HR in *.
        split; [exact H2|]. split; [exact H3|]. split; [exact H4|]. split; [|exact H7].
        intros Hs0. destruct (H5 Hs0) as (Ht & Hfin). split; [exact Ht|]. intros _. apply Hfin, Hd'.
Qed.

(* UNORDERED chunked theorem (safety) *)
Theorem chunkedu_arrival_order (d : bool) (h : list (@uev (list V) E)) :
    length (uarrived h) <= N -> ucount_len h <= 1 ->
    exists t s,
      view (snd (flat_run true flat_init (map (uev_op N d) h))) =
        firstn t (chunked_expected (uarrived h)) ++ repeat OStop s /\
      t <= length (chunked_expected (uarrived h)) /\
      (0 < s -> t = length (chunked_expected (uarrived h)) /\
                (first_bad (uarrived h) = None ->
                 length (uarrived h) = N /\ ucount_len h = 1)).
Proof.
  intros Hcap Hcount.
  destruct (flatu_run_inv d h flat_init [] 0 false (uinv_init N))
    as (t & s & rho' & ls' & H1 & H2 & H3 & H4 & H5 & H7).
  - cbn. exact Hcap.
  - lia.
  - cbv zeta in *. cbn [app] in *.
    unfold Rem in H2, H3, H5. cbn [flat_init f_dead f_cur map app skipn] in H2, H3, H5.
    rewrite flat_spec_expected in H2, H3, H5.
    exists t, s. split; [exact H2|]. split; [exact H3|].
    intros Hs. destruct (H5 Hs) as (Ht & Hfin). split; [exact Ht|]. intros Hnb.
    destruct (Hfin eq_refl) as [(e & He)|(HlN & Hls)].
    + exfalso. exact (no_raise_without_bad (uarrived h) e Hnb He).
    + split; [exact HlN|]. rewrite Hls in H7. cbn [orb] in H7.
      destruct (ucount_len h) as [|[|k]]; try lia; discriminate.
Qed.

Theorem chunkedu_complete (d : bool) (h : list (@uev (list V) E)) :
    length (uarrived h) = N -> ucount_len h = 1 ->
    exists s,
      view (snd (flat_run true flat_init
                   (map (uev_op N d) h ++
                    repeat INext (S (length (chunked_expected (uarrived h))))))) =
        chunked_expected (uarrived h) ++ repeat OStop (S s).
Proof.
  intros HN Hlen1.
  destruct (flatu_run_inv d h flat_init [] 0 false (uinv_init N))
    as (t & s & rho' & ls' & H1 & H2 & H3 & H4 & H5 & H7).
  - cbn. lia.
  - lia.
  - cbv zeta in *. cbn [app] in *. rewrite flat_run_app.
    destruct (flat_run true flat_init (map (uev_op N d) h)) as [s1 x1]. cbn [fst snd] in *.
    assert (Hls : ls' = true) by (rewrite H7, Hlen1; reflexivity). rewrite Hls in H1.
    assert (Hcap0 : length (uarrived h) + length (@nil C) <= N) by (cbn; lia).
    pose proof (flat_nexts_gen (uarrived h ++ []) (fun r => UInv N (uarrived h) r true)
                  (fin_u (uarrived h) true) (~ fin_u (uarrived h) true)
                  (uinv_pop_ok (uarrived h) [] true Hcap0) true
                  (fun H => H (conj HN eq_refl))
                  (S (length (chunked_expected (uarrived h)))) s1 rho' H1) as Hd.
    rewrite app_nil_r in Hd.
    destruct (flat_run true s1 (repeat INext (S (length (chunked_expected (uarrived h))))))
      as [s2 x2].
    cbn [fst snd] in *. rewrite view_app, H2, Hd, H4.
    unfold Rem in *. cbn [flat_init f_dead f_cur map app skipn] in *.
    rewrite flat_spec_expected in *.
    set (R := chunked_expected (uarrived h)) in *.
    destruct s as [|s].
    + cbn [repeat]. rewrite app_nil_r, app_assoc.
      rewrite (firstn_all2 (n := S (length R))) by (rewrite skipn_length; lia).
      rewrite firstn_skipn, skipn_length.
      exists (t). replace (S (length R) - (length R - t)) with (S t) by lia. reflexivity.
    + destruct (H5 ltac:(lia)) as (Ht & _). subst t.
      rewrite firstn_all, skipn_all, firstn_nil. cbn [length app].
      rewrite <- app_assoc, <- repeat_app. exists (s + (S (length R) - 0)).
      replace (S s + (S (length R) - 0)) with (S (s + (S (length R) - 0))) by lia. reflexivity.
Qed.

End ChunkedUnordered.

(* statements quoted as they stand by Props/C02.v *)
Lemma chunked_expected_def :
  forall (V E : Type) (cs : list (item (list V) E)),
    chunked_expected cs =
    (map OYield (concat (good_prefix cs)) ++
     match first_bad cs with Some e => [ORaise e] | None => [] end)%list /\
    good_prefix cs = (match cs with Good vs :: r => vs :: good_prefix r | _ => [] end) /\
    first_bad cs = (match cs with [] => None | Good _ :: r => first_bad r | Bad e :: _ => Some e end).
Proof. intros V E cs. destruct cs as [|[vs|e] r]; repeat split. Qed.

Lemma chunked_all_good :
  forall (V E : Type) (vs : list (list V)) (dflt : item (list V) E) (d : bool) (h : list ev),
    let chunks := map (@Good (list V) E) vs in
    wf chunks h -> (forall i, (i < length vs)%nat -> In i (arrivals h)) ->
    count_len h = 1%nat ->
    exists s,
      view (snd (flat_run false flat_init
                   (map (ev_op chunks dflt d) h ++
                    repeat INext (S (length (concat vs))))%list)) =
        (map OYield (concat vs) ++ repeat OStop (S s))%list.
Proof.
  intros V E vs dflt d h chunks Hwf Hall Hlen.
  pose proof (chunked_complete chunks dflt d h Hwf) as H.
  subst chunks. rewrite map_length in H. specialize (H Hall Hlen).
  rewrite chunked_expected_all_good, map_length in H. exact H.
Qed.
