(* C13: proofs about Model/Framing.v.
   Part 1: lists and the header.  Part 2: the write-all and read-exactly loops
   under every OS script.  Part 3: messages, sequences of messages, end of
   stream, maxlength, recv_bytes_into, argument validation. *)
From Coq Require Import ZArith List Bool Lia ZifyBool.
From BV Require Import Model.Framing.
Import ListNotations.
Open Scope Z_scope.

(* ------------------------------------------------------------------ *)
(* Part 1: len / take / drop                                            *)

Lemma len_nonneg {A} (l : list A) : 0 <= len l.
Proof. unfold len; lia. Qed.

Lemma len_nil {A} : len (@nil A) = 0.
Proof. reflexivity. Qed.

Lemma len_cons {A} (x : A) l : len (x :: l) = 1 + len l.
Proof. unfold len; cbn [length]; lia. Qed.

Lemma len_app {A} (a b : list A) : len (a ++ b) = len a + len b.
Proof. unfold len; rewrite app_length; lia. Qed.

Lemma len_zero_nil {A} (l : list A) : len l = 0 -> l = [].
Proof. destruct l; [reflexivity|rewrite len_cons; pose proof (len_nonneg l); lia]. Qed.

Lemma take_firstn {A} k (l : list A) : take k l = firstn (Z.to_nat k) l.
Proof.
  unfold take, len. destruct (Z_le_gt_dec k (Z.of_nat (length l))) as [H|H].
  - rewrite Z.min_l by lia. reflexivity.
  - rewrite Z.min_r by lia. rewrite Nat2Z.id.
    rewrite firstn_all. symmetry. apply firstn_all2. lia.
Qed.

Lemma drop_skipn {A} k (l : list A) : drop k l = skipn (Z.to_nat k) l.
Proof.
  unfold drop, len. destruct (Z_le_gt_dec k (Z.of_nat (length l))) as [H|H].
  - rewrite Z.min_l by lia. reflexivity.
  - rewrite Z.min_r by lia. rewrite Nat2Z.id.
    rewrite skipn_all. symmetry. apply skipn_all2. lia.
Qed.

Lemma take_drop {A} k (l : list A) : take k l ++ drop k l = l.
Proof. rewrite take_firstn, drop_skipn. apply firstn_skipn. Qed.

Lemma len_take {A} k (l : list A) : len (take k l) = Z.min (Z.max 0 k) (len l).
Proof. rewrite take_firstn. unfold len. rewrite firstn_length. lia. Qed.

Lemma len_drop {A} k (l : list A) : len (drop k l) = len l - Z.min (Z.max 0 k) (len l).
Proof. rewrite drop_skipn. unfold len. rewrite skipn_length. lia. Qed.

Lemma take_all {A} k (l : list A) : len l <= k -> take k l = l.
Proof. intros H. rewrite take_firstn. apply firstn_all2. unfold len in H. lia. Qed.

Lemma drop_all {A} k (l : list A) : len l <= k -> drop k l = [].
Proof. intros H. rewrite drop_skipn. apply skipn_all2. unfold len in H. lia. Qed.

Lemma take_nonpos {A} k (l : list A) : k <= 0 -> take k l = [].
Proof. intros H. rewrite take_firstn. replace (Z.to_nat k) with O by lia. reflexivity. Qed.

Lemma drop_nonpos {A} k (l : list A) : k <= 0 -> drop k l = l.
Proof. intros H. rewrite drop_skipn. replace (Z.to_nat k) with O by lia. reflexivity. Qed.

Lemma take_app_le {A} k (a b : list A) : k <= len a -> take k (a ++ b) = take k a.
Proof.
  intros H. rewrite !take_firstn. rewrite firstn_app.
  replace (Z.to_nat k - length a)%nat with O by (unfold len in H; lia).
  cbn [firstn]. apply app_nil_r.
Qed.

Lemma drop_app_le {A} k (a b : list A) : k <= len a -> drop k (a ++ b) = drop k a ++ b.
Proof.
  intros H. rewrite !drop_skipn. rewrite skipn_app.
  replace (Z.to_nat k - length a)%nat with O by (unfold len in H; lia).
  reflexivity.
Qed.

Lemma take_len_app {A} (a b : list A) : take (len a) (a ++ b) = a.
Proof. rewrite take_app_le by lia. apply take_all. lia. Qed.

Lemma drop_len_app {A} (a b : list A) : drop (len a) (a ++ b) = b.
Proof. rewrite drop_app_le by lia. rewrite drop_all by lia. reflexivity. Qed.

Lemma slice_whole {A} (l : list A) : slice 0 (0 + (len l - 0)) l = l.
Proof. unfold slice. rewrite drop_nonpos by lia. apply take_all. lia. Qed.

Lemma len_slice {A} lo hi (l : list A) : 0 <= lo -> lo <= hi -> hi <= len l -> len (slice lo hi l) = hi - lo.
Proof. intros. unfold slice. rewrite len_take, len_drop. lia. Qed.

(* ------------------------------------------------------------------ *)
(* the header                                                           *)

Lemma len_be32 n : len (be32 n) = 4.
Proof. reflexivity. Qed.

(* struct.unpack inverts struct.pack on every length the format can express;
   arithmetic, not enumeration *)
Lemma dec32_be32 n : -2147483648 <= n <= 2147483647 -> dec32 (be32 n) = n.
Proof.
  intros H. unfold be32, dec32.
  assert (D1 : n / 65536 = n / 256 / 256) by (rewrite Z.div_div by lia; reflexivity).
  assert (D2 : n / 16777216 = n / 65536 / 256) by (rewrite D1, !Z.div_div by lia; reflexivity).
  assert (D3 : n / 4294967296 = n / 16777216 / 256) by (rewrite D2, D1, !Z.div_div by lia; reflexivity).
  pose proof (Z.div_mod n 256 ltac:(lia)) as E0.
  pose proof (Z.div_mod (n / 256) 256 ltac:(lia)) as E1. rewrite <- D1 in E1.
  pose proof (Z.div_mod (n / 65536) 256 ltac:(lia)) as E2. rewrite <- D2 in E2.
  pose proof (Z.div_mod (n / 16777216) 256 ltac:(lia)) as E3. rewrite <- D3 in E3.
  pose proof (Z.mod_pos_bound n 256 ltac:(lia)).
  pose proof (Z.mod_pos_bound (n / 256) 256 ltac:(lia)).
  pose proof (Z.mod_pos_bound (n / 65536) 256 ltac:(lia)).
  pose proof (Z.mod_pos_bound (n / 16777216) 256 ltac:(lia)).
  assert (Hq : n / 4294967296 = 0 \/ n / 4294967296 = -1).
  { destruct (Z_lt_ge_dec n 0).
    - right. symmetry. apply (Z.div_unique n 4294967296 (-1) (n + 4294967296)); lia.
    - left. apply Z.div_small. lia. }
  destruct (_ >=? 2147483648) eqn:Eg; lia.
Qed.

Lemma be32_bytes n : Forall (fun b => 0 <= b < 256) (be32 n).
Proof.
  unfold be32. repeat constructor; apply Z.mod_pos_bound; lia.
Qed.

Lemma app_len_inj {A} : forall (a c b d : list A),
    a ++ b = c ++ d -> len a = len c -> a = c /\ b = d.
Proof.
  induction a as [|x a IH]; intros c b d H L.
  - symmetry in L. apply len_zero_nil in L. subst c. split; [reflexivity|exact H].
  - destruct c as [|y c].
    + rewrite len_cons, len_nil in L. pose proof (len_nonneg a). lia.
    + cbn [app] in H. injection H as Hx Hr. rewrite !len_cons in L.
      destruct (IH c b d Hr ltac:(lia)) as [-> ->]. subst y. split; reflexivity.
Qed.

Lemma take_len_take {A} n (l : list A) : take (len (take n l)) l = take n l.
Proof.
  rewrite len_take.
  destruct (Z_le_gt_dec n 0).
  - rewrite !(take_nonpos _ l) by lia. reflexivity.
  - destruct (Z_le_gt_dec n (len l)).
    + replace (Z.min (Z.max 0 n) (len l)) with n by lia. reflexivity.
    + replace (Z.min (Z.max 0 n) (len l)) with (len l) by lia.
      rewrite !take_all by lia. reflexivity.
Qed.

Lemma take_drop_len {A} n (l : list A) : take n l ++ drop (len (take n l)) l = l.
Proof.
  pose proof (take_drop (len (take n l)) l) as H. rewrite take_len_take in H. exact H.
Qed.

(* ------------------------------------------------------------------ *)
(* Part 2: the loops, for every OS script                               *)

Lemma sys_write_bounds k buf : 0 < len buf -> 1 <= sys_write k buf <= len buf.
Proof. unfold sys_write; lia. Qed.

Lemma sys_read_bounds k r : 0 < r -> 1 <= sys_read k r <= r.
Proof. unfold sys_read; lia. Qed.

(* Connection._send under ANY script: what reached the OS is a prefix of the
   buffer, the whole buffer when the call returned normally; the only possible
   exception is the one the OS raised; without such an error it returns normally *)
Lemma send_loop_spec : forall o buf o' w t e,
    send_loop o buf = (o', w, t, e) ->
    (exists rest, buf = w ++ rest /\ (e = None -> rest = [])) /\
    (e = None \/ e = Some EIo) /\
    (~ In WErr o -> e = None) /\
    incl o' o.
Proof.
  induction o as [|r o IH]; intros buf o' w t e H; cbn [send_loop] in H.
  - injection H as <- <- <- <-. repeat split.
    + exists []. rewrite app_nil_r. split; reflexivity.
    + left; reflexivity.
    + apply incl_refl.
  - destruct r as [k| |].
    + set (n := sys_write k buf) in *.
      destruct (len buf - n =? 0) eqn:E.
      * injection H as <- <- <- <-. repeat split.
        -- exists (drop n buf). rewrite take_drop. split; [reflexivity|].
           intros _. apply drop_all. lia.
        -- left; reflexivity.
        -- apply incl_tl, incl_refl.
      * destruct (send_loop o (drop n buf)) as [[[o2 w2] t2] e2] eqn:E2.
        injection H as <- <- <- <-.
        destruct (IH _ _ _ _ _ E2) as ((rest & Hb & Hr) & He & Hc & Hi).
        repeat split.
        -- exists rest. rewrite <- app_assoc, <- Hb, take_drop. split; [reflexivity|exact Hr].
        -- exact He.
        -- intros Hn. apply Hc. intros Hin. apply Hn. right; exact Hin.
        -- apply incl_tl, Hi.
    + destruct (send_loop o buf) as [[[o2 w2] t2] e2] eqn:E2.
      injection H as <- <- <- <-.
      destruct (IH _ _ _ _ _ E2) as (Hp & He & Hc & Hi).
      repeat split; try assumption.
      * intros Hn. apply Hc. intros Hin. apply Hn. right; exact Hin.
      * apply incl_tl, Hi.
    + injection H as <- <- <- <-. repeat split.
      * exists buf. split; [reflexivity|discriminate].
      * right; reflexivity.
      * intros Hn. exfalso. apply Hn. left; reflexivity.
      * apply incl_tl, incl_refl.
Qed.

Lemma not_in_incl {A} (x : A) (a b : list A) : incl a b -> ~ In x b -> ~ In x a.
Proof. intros Hi Hn Hin. apply Hn, Hi, Hin. Qed.

(* Connection._send_bytes under ANY script *)
Lemma send_bytes_raw_spec : forall o m o' w t e,
    send_bytes_raw o m = (o', w, t, e) ->
    (exists rest, encode m = w ++ rest /\ (e = None -> rest = [])) /\
    (e = None -> len m <= MAXLEN) /\
    (MAXLEN < len m -> e = Some EStruct /\ w = [] /\ t = [] /\ o' = o) /\
    (~ In WErr o -> len m <= MAXLEN -> e = None) /\
    (e = None \/ e = Some EIo \/ e = Some EStruct) /\
    incl o' o.
Proof.
  intros o m o' w t e H. unfold send_bytes_raw in H.
  destruct (len m >? MAXLEN) eqn:Emax.
  - injection H as <- <- <- <-. repeat split; try discriminate; try lia.
    + exists (encode m). split; [reflexivity|discriminate].
    + right; right; reflexivity.
    + apply incl_refl.
  - destruct (len m >? THRESH) eqn:Eth.
    + destruct (send_loop o (be32 (len m))) as [[[o1 w1] t1] e1] eqn:E1.
      destruct (send_loop_spec _ _ _ _ _ _ E1) as ((r1 & Hb1 & Hr1) & He1 & Hc1 & Hi1).
      destruct e1 as [e1|].
      * injection H as <- <- <- <-. repeat split; try lia; try discriminate.
        -- exists (r1 ++ m). unfold encode. rewrite Hb1, <- app_assoc. split; [reflexivity|discriminate].
        -- intros Hn _. specialize (Hc1 Hn). discriminate.
        -- destruct He1 as [?|He1]; [discriminate|]. right; left; exact He1.
        -- exact Hi1.
      * destruct (send_loop o1 m) as [[[o2 w2] t2] e2] eqn:E2.
        injection H as <- <- <- <-.
        destruct (send_loop_spec _ _ _ _ _ _ E2) as ((r2 & Hb2 & Hr2) & He2 & Hc2 & Hi2).
        rewrite (Hr1 eq_refl), app_nil_r in Hb1.
        repeat split; try lia.
        -- exists r2. unfold encode. rewrite Hb1, <- app_assoc, <- Hb2. split; [reflexivity|exact Hr2].
        -- intros Hn _. apply Hc2. eapply not_in_incl; eassumption.
        -- destruct He2 as [->| ->]; [left|right; left]; reflexivity.
        -- eapply incl_tran; eassumption.
    + destruct (send_loop_spec _ _ _ _ _ _ H) as ((r & Hb & Hr) & He & Hc & Hi).
      repeat split; try lia; try assumption.
      * exists r. split; [exact Hb|exact Hr].
      * intros Hn _. apply Hc, Hn.
      * destruct He as [->| ->]; [left|right; left]; reflexivity.
Qed.

(* Connection._recv: whatever the script, a normal return delivers exactly the
   next `remaining` bytes of the stream and leaves the rest in place *)
Lemma recv_loop_sound : forall o size remaining stream o' s' t d,
    0 < remaining ->
    recv_loop o size remaining stream = (o', s', t, inr d) ->
    stream = d ++ s' /\ len d = remaining /\ incl o' o.
Proof.
  induction o as [|r o IH]; intros size remaining stream o' s' t d Hpos H; cbn [recv_loop] in H.
  - destruct (len (take remaining stream) =? remaining) eqn:E.
    + injection H as <- <- <- <-. rewrite take_drop. repeat split; [lia|apply incl_refl].
    + destruct (len (take remaining stream) =? 0); discriminate.
  - destruct r as [k| |].
    + set (n := sys_read k remaining) in *.
      pose proof (sys_read_bounds k remaining Hpos) as Hn. fold n in Hn.
      destruct (len (take n stream) =? 0) eqn:E0; [discriminate|].
      destruct (remaining - len (take n stream) >? 0) eqn:Er.
      * destruct (recv_loop o size (remaining - len (take n stream)) (drop (len (take n stream)) stream))
          as [[[o2 s2] t2] r2] eqn:E2.
        destruct r2 as [e2|d2]; [discriminate|].
        injection H as <- <- <- <-.
        assert (Hp : 0 < remaining - len (take n stream)) by lia.
        destruct (IH _ _ _ _ _ _ _ Hp E2) as (Hs & Hl & Hi).
        repeat split.
        -- rewrite <- app_assoc, <- Hs. symmetry. apply take_drop_len.
        -- rewrite len_app, Hl. lia.
        -- apply incl_tl, Hi.
      * injection H as <- <- <- <-. repeat split.
        -- symmetry. apply take_drop_len.
        -- rewrite len_take in *. lia.
        -- apply incl_tl, incl_refl.
    + destruct (recv_loop o size remaining stream) as [[[o2 s2] t2] r2] eqn:E2.
      injection H as <- <- <- ->.
      destruct (IH _ _ _ _ _ _ _ Hpos E2) as (Hs & Hl & Hi).
      repeat split; [exact Hs|exact Hl|apply incl_tl, Hi].
    + discriminate.
Qed.

(* ... and with enough bytes in the stream and no I/O error it does return normally *)
Lemma recv_loop_ok : forall o size remaining d rest,
    ~ In RErr o -> 0 < remaining -> len d = remaining ->
    exists o' t, recv_loop o size remaining (d ++ rest) = (o', rest, t, inr d) /\ incl o' o.
Proof.
  induction o as [|r o IH]; intros size remaining d rest Hn Hpos Hl; cbn [recv_loop].
  - rewrite <- Hl, take_len_app, drop_len_app, Z.eqb_refl.
    eexists _, _. split; [reflexivity|apply incl_refl].
  - destruct r as [k| |].
    + set (n := sys_read k remaining).
      pose proof (sys_read_bounds k remaining Hpos) as Hb. fold n in Hb.
      rewrite take_app_le by lia.
      assert (Hg : len (take n d) = n) by (rewrite len_take; lia).
      rewrite Hg. replace (n =? 0) with false by lia.
      destruct (remaining - n >? 0) eqn:Er.
      * rewrite drop_app_le by lia.
        destruct (IH size (remaining - n) (drop n d) rest) as (o2 & t2 & E2 & Hi).
        { intros Hin. apply Hn. right; exact Hin. }
        { lia. }
        { rewrite len_drop. lia. }
        rewrite E2. rewrite take_drop.
        eexists _, _. split; [reflexivity|apply incl_tl, Hi].
      * rewrite take_all by lia. replace n with (len d) by lia. rewrite drop_len_app.
        eexists _, _. split; [reflexivity|apply incl_tl, incl_refl].
    + destruct (IH size remaining d rest) as (o2 & t2 & E2 & Hi); try assumption.
      { intros Hin. apply Hn. right; exact Hin. }
      rewrite E2. eexists _, _. split; [reflexivity|apply incl_tl, Hi].
    + exfalso. apply Hn. left; reflexivity.
Qed.

(* the stream ends before `remaining` bytes: EOFError exactly when nothing at
   all of this _recv call had arrived, OSError otherwise; never a short result *)
Lemma recv_loop_eof : forall o size remaining stream,
    ~ In RErr o -> 0 < remaining <= size -> len stream < remaining ->
    exists o' s' t,
      recv_loop o size remaining stream =
      (o', s', t, inl (if (len stream =? 0) && (remaining =? size) then EEof else EEofMid)).
Proof.
  induction o as [|r o IH]; intros size remaining stream Hn Hr Hl; cbn [recv_loop].
  - rewrite take_all by lia.
    replace (len stream =? remaining) with false by lia.
    destruct (len stream =? 0) eqn:E0; cbn [andb]; unfold eof_err; eexists _, _, _; reflexivity.
  - destruct r as [k| |].
    + set (n := sys_read k remaining).
      pose proof (sys_read_bounds k remaining ltac:(lia)) as Hb. fold n in Hb.
      pose proof (len_take n stream) as Hg. pose proof (len_nonneg stream).
      destruct (len stream =? 0) eqn:E0.
      * replace (len (take n stream) =? 0) with true by lia.
        cbn [andb]. unfold eof_err. eexists _, _, _; reflexivity.
      * replace (len (take n stream) =? 0) with false by lia.
        replace (remaining - len (take n stream) >? 0) with true by lia.
        destruct (IH size (remaining - len (take n stream)) (drop (len (take n stream)) stream))
          as (o2 & s2 & t2 & E2).
        { intros Hin. apply Hn. right; exact Hin. }
        { lia. }
        { rewrite len_drop. lia. }
        rewrite E2.
        replace (remaining - len (take n stream) =? size) with false by lia.
        rewrite andb_false_r. cbn [andb]. eexists _, _, _; reflexivity.
    + destruct (IH size remaining stream) as (o2 & s2 & t2 & E2); try assumption.
      { intros Hin. apply Hn. right; exact Hin. }
      rewrite E2. eexists _, _, _; reflexivity.
    + exfalso. apply Hn. left; reflexivity.
Qed.

(* _recv(size) as called *)
Lemma recv_exact_sound o size stream o' s' t d :
  recv_exact o size stream = (o', s', t, inr d) ->
  stream = d ++ s' /\ len d = Z.max 0 size /\ incl o' o.
Proof.
  unfold recv_exact. destruct (size >? 0) eqn:E; intros H.
  - assert (Hp : 0 < size) by lia.
    destruct (recv_loop_sound _ _ _ _ _ _ _ _ Hp H) as (Hs & Hl & Hi).
    repeat split; [exact Hs|lia|exact Hi].
  - injection H as <- <- <- <-. repeat split; [rewrite len_nil; lia|apply incl_refl].
Qed.

Lemma recv_exact_ok o size d rest :
  ~ In RErr o -> len d = size ->
  exists o' t, recv_exact o size (d ++ rest) = (o', rest, t, inr d) /\ incl o' o.
Proof.
  intros Hn Hl. unfold recv_exact. destruct (size >? 0) eqn:E.
  - apply recv_loop_ok; [assumption|lia|assumption].
  - assert (d = []) by (apply len_zero_nil; pose proof (len_nonneg d); lia). subst d.
    eexists _, _. split; [reflexivity|apply incl_refl].
Qed.

Lemma recv_exact_eof o size stream :
  ~ In RErr o -> len stream < size ->
  exists o' s' t, recv_exact o size stream =
                  (o', s', t, inl (if len stream =? 0 then EEof else EEofMid)).
Proof.
  intros Hn Hl. unfold recv_exact. pose proof (len_nonneg stream).
  replace (size >? 0) with true by lia.
  destruct (recv_loop_eof o size size stream Hn ltac:(lia) Hl) as (o' & s' & t & E).
  rewrite E, Z.eqb_refl, andb_true_r. eexists _, _, _; reflexivity.
Qed.

(* ------------------------------------------------------------------ *)
(* Part 3: messages                                                     *)

Definition fits (m : list Z) : Prop := len m <= MAXLEN.

Lemma dec_header m : fits m -> dec32 (be32 (len m)) = len m.
Proof. intros H. apply dec32_be32. unfold fits, MAXLEN in H. pose proof (len_nonneg m). lia. Qed.

(* _recv_bytes on a stream that starts with a whole message *)
Lemma recv_raw_ok o m rest mx :
  ~ In RErr o -> fits m -> over_max (len m) mx = false ->
  exists o' t, recv_bytes_raw o (encode m ++ rest) mx = (o', rest, t, inr (Some m)) /\ incl o' o.
Proof.
  intros Hn Hf Hm. unfold recv_bytes_raw, encode, HDR. rewrite <- app_assoc.
  destruct (recv_exact_ok o 4 (be32 (len m)) (m ++ rest) Hn (len_be32 _)) as (o1 & t1 & E1 & I1).
  rewrite E1, (dec_header m Hf), Hm.
  destruct (recv_exact_ok o1 (len m) m rest (not_in_incl _ _ _ I1 Hn) eq_refl) as (o2 & t2 & E2 & I2).
  rewrite E2. eexists _, _. split; [reflexivity|eapply incl_tran; eassumption].
Qed.

(* too long for the receiver: only the header is consumed *)
Lemma recv_raw_toolong o m rest mx :
  ~ In RErr o -> fits m -> mx < len m ->
  exists o' t, recv_bytes_raw o (encode m ++ rest) (Some mx) = (o', m ++ rest, t, inr None) /\ incl o' o.
Proof.
  intros Hn Hf Hm. unfold recv_bytes_raw, encode, HDR. rewrite <- app_assoc.
  destruct (recv_exact_ok o 4 (be32 (len m)) (m ++ rest) Hn (len_be32 _)) as (o1 & t1 & E1 & I1).
  rewrite E1, (dec_header m Hf). unfold over_max. replace (len m >? mx) with true by lia.
  eexists _, _. split; [reflexivity|exact I1].
Qed.

(* whatever the script and whatever the stream: a message that IS returned is
   exactly the bytes that follow a 4-byte header, as many as the header says *)
Lemma recv_raw_sound o stream mx o' s' t d :
  recv_bytes_raw o stream mx = (o', s', t, inr (Some d)) ->
  exists h, stream = h ++ d ++ s' /\ len h = 4 /\ len d = Z.max 0 (dec32 h) /\
            over_max (dec32 h) mx = false.
Proof.
  unfold recv_bytes_raw, HDR. intros H.
  destruct (recv_exact o 4 stream) as [[[o1 s1] t1] r1] eqn:E1.
  destruct r1 as [e1|h]; [discriminate|].
  destruct (recv_exact_sound _ _ _ _ _ _ _ E1) as (Hs1 & Hl1 & _).
  destruct (over_max (dec32 h) mx) eqn:Em; [discriminate|].
  destruct (recv_exact o1 (dec32 h) s1) as [[[o2 s2] t2] r2] eqn:E2.
  destruct r2 as [e2|d2]; [discriminate|].
  injection H as <- <- <- <-.
  destruct (recv_exact_sound _ _ _ _ _ _ _ E2) as (Hs2 & Hl2 & _).
  exists h. rewrite <- Hs2. split; [exact Hs1|]. split; [lia|]. split; [exact Hl2|exact Em].
Qed.

(* hence: if the stream does start with a whole message, nothing else can be returned *)
Lemma recv_raw_sound_msg o m rest mx o' s' t d :
  fits m ->
  recv_bytes_raw o (encode m ++ rest) mx = (o', s', t, inr (Some d)) ->
  d = m /\ s' = rest.
Proof.
  intros Hf H. destruct (recv_raw_sound _ _ _ _ _ _ _ H) as (h & Hs & Hl & Hd & _).
  unfold encode in Hs. rewrite <- app_assoc in Hs.
  destruct (app_len_inj _ _ _ _ Hs ltac:(rewrite len_be32; lia)) as [<- Hs2].
  rewrite (dec_header m Hf) in Hd.
  destruct (app_len_inj _ _ _ _ Hs2 ltac:(pose proof (len_nonneg m); lia)) as [<- <-].
  split; reflexivity.
Qed.

(* the peer closes inside message m: `partial` is a proper prefix of its encoding *)
Lemma recv_raw_eof o m partial more mx :
  ~ In RErr o -> fits m -> over_max (len m) mx = false ->
  encode m = partial ++ more -> more <> [] ->
  exists o' s' t,
    recv_bytes_raw o partial mx =
    (o', s', t, inl (if (len partial =? 0) || (len partial =? 4) then EEof else EEofMid)).
Proof.
  intros Hn Hf Hm He Hmore. unfold recv_bytes_raw, HDR.
  pose proof (len_nonneg partial) as Hp0.
  destruct (Z_lt_ge_dec (len partial) 4) as [Hlt|Hge].
  - destruct (recv_exact_eof o 4 partial Hn Hlt) as (o1 & s1 & t1 & E1). rewrite E1.
    replace (len partial =? 4) with false by lia. rewrite orb_false_r.
    eexists _, _, _; reflexivity.
  - (* partial = header ++ p2, m = p2 ++ more *)
    assert (Hsplit : partial = be32 (len m) ++ drop 4 partial /\ m = drop 4 partial ++ more).
    { unfold encode in He.
      assert (H1 : be32 (len m) ++ m = take 4 partial ++ (drop 4 partial ++ more)).
      { rewrite app_assoc, take_drop. exact He. }
      destruct (app_len_inj _ _ _ _ H1 ltac:(rewrite len_be32, len_take; lia)) as [Ha Hb].
      split; [rewrite Ha; symmetry; apply take_drop|exact Hb]. }
    destruct Hsplit as [Hpa Hmb]. remember (drop 4 partial) as p2 eqn:Hp2. clear Hp2.
    assert (Hl2 : len p2 < len m).
    { rewrite Hmb. rewrite len_app. destruct more; [congruence|]. rewrite len_cons.
      pose proof (len_nonneg more). lia. }
    clear He Hge Hp0. subst partial.
    assert (Hlp : len (be32 (len m) ++ p2) = 4 + len p2) by (rewrite len_app, len_be32; reflexivity).
    destruct (recv_exact_ok o 4 (be32 (len m)) p2 Hn (len_be32 _)) as (o1 & t1 & E1 & I1).
    rewrite E1, (dec_header m Hf), Hm.
    destruct (recv_exact_eof o1 (len m) p2 (not_in_incl _ _ _ I1 Hn) Hl2) as (o2 & s2 & t2 & E2).
    rewrite E2, Hlp. pose proof (len_nonneg p2).
    replace (4 + len p2 =? 0) with false by lia. cbn [orb].
    replace (4 + len p2 =? 4) with (len p2 =? 0) by lia.
    eexists _, _, _; reflexivity.
Qed.

(* ---- recv_bytes ---- *)
Definition openr (c : conn) : Prop := closed c = false /\ readable c = true.
Definition openw (c : conn) : Prop := closed c = false /\ writable c = true.
Definition max_ok (m : list Z) (mx : option Z) : Prop :=
  match mx with None => True | Some k => len m <= k end.

Lemma max_ok_args c m mx : openr c -> max_ok m mx -> recv_args c mx = None /\ over_max (len m) mx = false.
Proof.
  intros [Hc Hr] Hm. unfold recv_args, over_max. rewrite Hc, Hr. cbn [negb].
  destruct mx as [k|]; cbn in Hm; pose proof (len_nonneg m).
  - replace (k <? 0) with false by lia. split; [reflexivity|lia].
  - split; reflexivity.
Qed.

Lemma recv_bytes_ok c o m rest mx :
  openr c -> ~ In RErr o -> fits m -> max_ok m mx ->
  exists o' t, recv_bytes c o (encode m ++ rest) mx = (c, o', rest, t, inr m) /\ incl o' o.
Proof.
  intros Hc Hn Hf Hm. destruct (max_ok_args c m mx Hc Hm) as [Ha Ho].
  unfold recv_bytes. rewrite Ha.
  destruct (recv_raw_ok o m rest mx Hn Hf Ho) as (o' & t & E & I). rewrite E.
  eexists _, _. split; [reflexivity|exact I].
Qed.

(* any script, any stream: a returned message is what the header announced *)
Lemma recv_bytes_sound c o stream mx c' o' s' t d :
  recv_bytes c o stream mx = (c', o', s', t, inr d) ->
  c' = c /\ openr c /\
  exists h, stream = h ++ d ++ s' /\ len h = 4 /\ len d = Z.max 0 (dec32 h) /\
            over_max (dec32 h) mx = false.
Proof.
  unfold recv_bytes, recv_args. intros H.
  destruct (closed c) eqn:Ec; [discriminate|].
  destruct (readable c) eqn:Er; cbn [negb] in H; [|discriminate].
  assert (Hgo : exists o1 s1 t1 r, recv_bytes_raw o stream mx = (o1, s1, t1, r) /\
            match r with
            | inl e => (c, o1, s1, t1, @inl err (list Z) e)
            | inr None => (bad_length c, o1, s1, t1, inl EBadLen)
            | inr (Some d0) => (c, o1, s1, t1, inr d0)
            end = (c', o', s', t, inr d)).
  { destruct mx as [k|]; [destruct (k <? 0); [discriminate|]|];
      destruct (recv_bytes_raw o stream _) as [[[o1 s1] t1] r] eqn:E; eexists _, _, _, _; split; try reflexivity; exact H. }
  destruct Hgo as (o1 & s1 & t1 & r & E & H').
  destruct r as [e|[d0|]]; try discriminate.
  injection H' as <- <- <- <- <-.
  split; [reflexivity|]. split; [split; assumption|].
  eapply recv_raw_sound; exact E.
Qed.

Lemma recv_bytes_sound_msg c o m rest mx c' o' s' t d :
  fits m -> recv_bytes c o (encode m ++ rest) mx = (c', o', s', t, inr d) -> d = m /\ s' = rest /\ c' = c.
Proof.
  intros Hf H. destruct (recv_bytes_sound _ _ _ _ _ _ _ _ _ H) as (-> & _ & h & Hs & Hl & Hd & _).
  unfold encode in Hs. rewrite <- app_assoc in Hs.
  destruct (app_len_inj _ _ _ _ Hs ltac:(rewrite len_be32; lia)) as [<- Hs2].
  rewrite (dec_header m Hf) in Hd.
  destruct (app_len_inj _ _ _ _ Hs2 ltac:(pose proof (len_nonneg m); lia)) as [<- <-].
  repeat split.
Qed.

Lemma recv_bytes_eof c o m partial more mx :
  openr c -> ~ In RErr o -> fits m -> max_ok m mx ->
  encode m = partial ++ more -> more <> [] ->
  exists o' s' t,
    recv_bytes c o partial mx =
    (c, o', s', t, inl (if (len partial =? 0) || (len partial =? 4) then EEof else EEofMid)).
Proof.
  intros Hc Hn Hf Hm He Hmore. destruct (max_ok_args c m mx Hc Hm) as [Ha Ho].
  unfold recv_bytes. rewrite Ha.
  destruct (recv_raw_eof o m partial more mx Hn Hf Ho He Hmore) as (o' & s' & t & E). rewrite E.
  eexists _, _, _; reflexivity.
Qed.

(* maxlength exceeded: OSError, payload still in the stream, handle no longer usable
   for reading (not readable when duplex, closed when read-only) *)
Lemma recv_bytes_toolong c o m rest mx :
  openr c -> ~ In RErr o -> fits m -> 0 <= mx < len m ->
  exists o' t, recv_bytes c o (encode m ++ rest) (Some mx) =
               (bad_length c, o', m ++ rest, t, inl EBadLen) /\ incl o' o.
Proof.
  intros [Hc Hr] Hn Hf Hm. unfold recv_bytes, recv_args. rewrite Hc, Hr. cbn [negb].
  replace (mx <? 0) with false by lia.
  destruct (recv_raw_toolong o m rest mx Hn Hf ltac:(lia)) as (o' & t & E & I). rewrite E.
  eexists _, _. split; [reflexivity|exact I].
Qed.

Lemma bad_length_unusable c : ~ openr (bad_length c).
Proof.
  unfold openr, bad_length. destruct (writable c); cbn; intros [H1 H2]; discriminate.
Qed.

(* every check of recv_bytes fails before any I/O: script, stream, flags untouched *)
Lemma recv_bytes_rejected c o stream mx e :
  recv_args c mx = Some e -> recv_bytes c o stream mx = (c, o, stream, [], inl e).
Proof. intros H. unfold recv_bytes. rewrite H. reflexivity. Qed.

Lemma recv_args_spec c mx :
  recv_args c mx =
  if closed c then Some EClosed
  else if negb (readable c) then Some ENotReadable
  else match mx with Some k => if k <? 0 then Some EMaxNeg else None | None => None end.
Proof. reflexivity. Qed.

Lemma not_openr_rejected c o stream mx :
  ~ openr c -> exists e, recv_bytes c o stream mx = (c, o, stream, [], inl e) /\ (e = EClosed \/ e = ENotReadable).
Proof.
  intros H. unfold openr in H. unfold recv_bytes, recv_args.
  destruct (closed c) eqn:Ec.
  - exists EClosed. split; [reflexivity|left; reflexivity].
  - destruct (readable c) eqn:Er.
    + exfalso. apply H. split; reflexivity.
    + exists ENotReadable. split; [reflexivity|right; reflexivity].
Qed.

(* ---- recv_bytes_into ---- *)
Lemma into_args_ok c bytesize off :
  openr c -> 0 <= off <= bytesize -> into_args c bytesize off = None.
Proof.
  intros [Hc Hr] Ho. unfold into_args. rewrite Hc, Hr. cbn [negb].
  replace (off <? 0) with false by lia. replace (off >? bytesize) with false by lia. reflexivity.
Qed.

(* buffer too small: BufferTooShort carries the WHOLE message, the message is
   consumed from the stream, the flags are unchanged, and no buffer is written
   (the result carries no new buffer) *)
Lemma into_too_short c o m rest buf it off :
  openr c -> ~ In RErr o -> fits m ->
  0 <= off <= it * (len buf / it) -> it * (len buf / it) < off + len m ->
  exists o' t, recv_bytes_into c o (encode m ++ rest) buf it off =
               (c, o', rest, t, inl (ETooShort m)) /\ incl o' o.
Proof.
  intros Hc Hn Hf Ho Hs. unfold recv_bytes_into. rewrite (into_args_ok c _ off Hc Ho).
  destruct (recv_raw_ok o m rest None Hn Hf eq_refl) as (o' & t & E & I). rewrite E.
  replace (it * (len buf / it) <? off + len m) with true by lia.
  eexists _, _. split; [reflexivity|exact I].
Qed.

(* the message fits and offset and length are multiples of the item size
   (always true for byte buffers, it = 1): the message lands at [off, off+n),
   every other byte of the buffer is unchanged, n is returned *)
Lemma readinto_aligned buf it off m :
  0 < it -> off mod it = 0 -> len m mod it = 0 -> 0 <= off ->
  readinto buf it off m = take off buf ++ m ++ drop (off + len m) buf.
Proof.
  intros Hit Ho Hm Hoff. unfold readinto.
  assert (Eo : off = it * (off / it)) by (apply Z.div_exact; lia).
  assert (Em : len m = it * (len m / it)) by (apply Z.div_exact; lia).
  assert (Es : (off + len m) / it = off / it + len m / it).
  { rewrite Eo at 1. rewrite Em at 1. rewrite <- Z.mul_add_distr_l.
    rewrite Z.mul_comm. apply Z.div_mul. lia. }
  rewrite Es.
  replace ((off / it + len m / it - off / it) * it) with (len m) by lia.
  replace (off / it * it) with off by lia.
  rewrite Z.min_id. rewrite (take_all (len m) m) by lia. reflexivity.
Qed.

Lemma into_ok c o m rest buf it off :
  openr c -> ~ In RErr o -> fits m ->
  0 < it -> off mod it = 0 -> len m mod it = 0 ->
  0 <= off -> off + len m <= it * (len buf / it) ->
  exists o' t, recv_bytes_into c o (encode m ++ rest) buf it off =
               (c, o', rest, t, inr (len m, take off buf ++ m ++ drop (off + len m) buf)) /\ incl o' o.
Proof.
  intros Hc Hn Hf Hit Ho Hm Hoff Hs. unfold recv_bytes_into.
  pose proof (len_nonneg m).
  assert (Hrange : 0 <= off <= it * (len buf / it)) by lia.
  rewrite (into_args_ok c _ off Hc Hrange).
  destruct (recv_raw_ok o m rest None Hn Hf eq_refl) as (o' & t & E & I). rewrite E.
  replace (it * (len buf / it) <? off + len m) with false by lia.
  rewrite (readinto_aligned buf it off m Hit Ho Hm Hoff).
  eexists _, _. split; [reflexivity|exact I].
Qed.

Lemma into_rejected c o stream buf it off e :
  into_args c (it * (len buf / it)) off = Some e ->
  recv_bytes_into c o stream buf it off = (c, o, stream, [], inl e).
Proof. intros H. unfold recv_bytes_into. rewrite H. reflexivity. Qed.

(* any script, any stream: recv_bytes_into never changes the flags and whatever it
   reports (a size or BufferTooShort) concerns exactly the announced bytes *)
Lemma into_sound c o stream buf it off c' o' s' t n b :
  recv_bytes_into c o stream buf it off = (c', o', s', t, inr (n, b)) ->
  c' = c /\ exists h d, stream = h ++ d ++ s' /\ len h = 4 /\ len d = Z.max 0 (dec32 h) /\
                        n = len d /\ b = readinto buf it off d /\ off + n <= it * (len buf / it).
Proof.
  unfold recv_bytes_into. intros H.
  destruct (into_args c (it * (len buf / it)) off); [discriminate|].
  destruct (recv_bytes_raw o stream None) as [[[o1 s1] t1] r] eqn:E.
  destruct r as [e|[d|]]; try discriminate.
  destruct (it * (len buf / it) <? off + len d) eqn:El; [discriminate|].
  injection H as <- <- <- <- <- <-.
  destruct (recv_raw_sound _ _ _ _ _ _ _ E) as (h & Hs & Hl & Hd & _).
  split; [reflexivity|]. exists h, d. repeat split; try assumption. lia.
Qed.

(* The statement "the message lands at [off, off+n)" is FALSE of the code when the
   buffer has items wider than a byte and offset or length is not a multiple of the
   item size: the slice m[off // it : (off + n) // it] is shorter than n bytes or
   starts before off.  Witness: 16-byte buffer of 4-byte items, offset 1, message
   b"XY": recv_bytes_into returns 2 and writes nothing. *)
Definition into_lands (buf : list Z) (off : Z) (m after : list Z) : Prop :=
  after = take off buf ++ m ++ drop (off + len m) buf.

Lemma into_unaligned_refuted :
  exists c o m buf it off o' t b,
    openr c /\ ~ In RErr o /\ fits m /\ 0 < it /\ 0 <= off /\ off + len m <= it * (len buf / it) /\
    recv_bytes_into c o (encode m) buf it off = (c, o', [], t, inr (len m, b)) /\
    ~ into_lands buf off m b.
Proof.
  exists (mkc false true false), [], [88; 89], (repeat 0 16), 4, 1, [], [4; 2], (repeat 0 16).
  split; [split; reflexivity|]. split; [intros []|]. split; [vm_compute; discriminate|].
  split; [reflexivity|]. split; [discriminate|]. split; [vm_compute; discriminate|].
  split; [vm_compute; reflexivity|].
  unfold into_lands. vm_compute. discriminate.
Qed.

(* ---- send_bytes ---- *)
Lemma send_args_spec c n off size lo hi :
  send_args c n off size = inr (lo, hi) <->
  openw c /\ 0 <= off <= n /\ lo = off /\
  match size with None => hi = n | Some sz => 0 <= sz /\ off + sz <= n /\ hi = off + sz end.
Proof.
  unfold send_args, openw.
  destruct (closed c); [split; [discriminate|intros [[? _] _]; discriminate]|].
  destruct (writable c); cbn [negb]; [|split; [discriminate|intros [[_ ?] _]; discriminate]].
  destruct (off <? 0) eqn:E1; [split; [discriminate|lia]|].
  destruct (n <? off) eqn:E2; [split; [discriminate|lia]|].
  destruct size as [sz|].
  - destruct (sz <? 0) eqn:E3; [split; [discriminate|lia]|].
    destruct (off + sz >? n) eqn:E4; [split; [discriminate|lia]|].
    split.
    + intros H. injection H as <- <-. repeat split; lia.
    + intros (_ & Ho & -> & _ & _ & ->). reflexivity.
  - split.
    + intros H. injection H as <- <-. repeat split; lia.
    + intros (_ & Ho & -> & ->). f_equal. f_equal. lia.
Qed.

(* rejected arguments / closed / read-only handle: nothing is written, the script
   is not consulted *)
Lemma send_bytes_rejected c o buf off size e :
  send_args c (len buf) off size = inl e ->
  send_bytes c o buf off size = (o, [], [], Some e).
Proof. intros H. unfold send_bytes. rewrite H. reflexivity. Qed.

Lemma send_bytes_accepted c o buf off size lo hi :
  send_args c (len buf) off size = inr (lo, hi) ->
  send_bytes c o buf off size = send_bytes_raw o (slice lo hi buf).
Proof. intros H. unfold send_bytes. rewrite H. reflexivity. Qed.

(* wire format, any script: a normal return means the wire got exactly
   header ++ payload of the selected slice; an exception means a prefix of it *)
Lemma send_bytes_wire c o buf off size o' w t e :
  send_bytes c o buf off size = (o', w, t, e) ->
  match send_args c (len buf) off size with
  | inl e0 => e = Some e0 /\ w = [] /\ t = [] /\ o' = o
  | inr (lo, hi) =>
      let m := slice lo hi buf in
      (exists rest, encode m = w ++ rest /\ (e = None -> rest = [])) /\
      (e = None -> fits m) /\
      (MAXLEN < len m -> e = Some EStruct /\ w = [] /\ t = [] /\ o' = o) /\
      (~ In WErr o -> fits m -> e = None)
  end.
Proof.
  unfold send_bytes. destruct (send_args c (len buf) off size) as [e0|[lo hi]]; intros H.
  - injection H as <- <- <- <-. repeat split.
  - destruct (send_bytes_raw_spec _ _ _ _ _ _ H) as (Hp & Hf & Hs & Hc & _ & _).
    cbn zeta. split; [exact Hp|]. split; [exact Hf|]. split; [exact Hs|exact Hc].
Qed.

(* both sides of the threshold put the same bytes on the wire; they differ only
   in the number of _send calls (trace) *)
Lemma send_raw_threshold_irrelevant m :
  fits m ->
  let '(_, w, _, e) := send_bytes_raw [] m in w = encode m /\ e = None.
Proof.
  intros Hf. destruct (send_bytes_raw [] m) as [[[o' w] t] e] eqn:E.
  destruct (send_bytes_raw_spec _ _ _ _ _ _ E) as ((r & Hb & Hr) & _ & _ & Hc & _ & _).
  specialize (Hc (fun x => x) Hf). subst e. rewrite (Hr eq_refl), app_nil_r in Hb. split; [symmetry; exact Hb|reflexivity].
Qed.

(* ------------------------------------------------------------------ *)
(* Part 4: sequences of messages                                        *)

Definition wire_of (msgs : list (list Z)) : list Z := concat (map encode msgs).
Definition recvs (mxs : list (option Z)) : list rop := map RRecv mxs.
Definition ok_obs (c : conn) (m : list Z) : robs := mk_robs 0 m (-1) [] (flags c).

(* a send operation whose arguments pass the checks and select the bytes m *)
Definition valid_send (c : conn) (op : sop) (m : list Z) : Prop :=
  exists buf off size lo hi,
    op = SSend buf off size /\ send_args c (len buf) off size = inr (lo, hi) /\ m = slice lo hi buf.

Lemma valid_send_whole c m : openw c -> valid_send c (SSend m 0 None) m.
Proof.
  intros Hc. exists m, 0, None, 0, (len m). repeat split.
  - apply send_args_spec. pose proof (len_nonneg m). repeat split; try lia; apply Hc.
  - unfold slice. rewrite drop_nonpos by lia. symmetry. apply take_all. lia.
Qed.

(* the sender: any script without an OS error, any list of valid sends *)
Lemma run_sender_all : forall ops msgs c o,
    Forall2 (valid_send c) ops msgs -> ~ In WErr o -> Forall fits msgs ->
    exists t, run_sender c o ops = (wire_of msgs, t, map (fun _ => (0, flags c)) msgs).
Proof.
  intros ops msgs c o H. revert o. induction H as [|op m ops msgs Hv _ IH]; intros o Hn Hf.
  - exists []. reflexivity.
  - destruct Hv as (buf & off & size & lo & hi & -> & Ha & ->).
    inversion Hf as [|? ? Hf1 Hf2]; subst.
    cbn [run_sender]. rewrite (send_bytes_accepted _ _ _ _ _ _ _ Ha).
    destruct (send_bytes_raw o (slice lo hi buf)) as [[[o1 w1] t1] e1] eqn:E1.
    destruct (send_bytes_raw_spec _ _ _ _ _ _ E1) as ((r & Hb & Hr) & _ & _ & Hc & _ & Hi).
    specialize (Hc Hn Hf1). subst e1. rewrite (Hr eq_refl), app_nil_r in Hb.
    destruct (IH o1 (not_in_incl _ _ _ Hi Hn) Hf2) as (t & Et). rewrite Et.
    exists (t1 ++ t). unfold wire_of. cbn [map concat code_of]. rewrite Hb. reflexivity.
Qed.

(* the receiver: any script without an OS error; whatever follows the messages in
   the stream (`rest`) and whatever operations follow (`more`) are handed on untouched *)
Lemma run_receiver_prefix : forall msgs mxs c o rest,
    openr c -> ~ In RErr o -> Forall fits msgs -> Forall2 max_ok msgs mxs ->
    exists o' t, incl o' o /\ forall more,
        run_receiver c o (wire_of msgs ++ rest) (recvs mxs ++ more) =
        (let '(s, t2, obs2) := run_receiver c o' rest more in
         (s, t ++ t2, map (ok_obs c) msgs ++ obs2)).
Proof.
  intros msgs mxs c o rest Hc Hn Hf H2. revert o Hn Hf.
  induction H2 as [|m mx msgs mxs Hm _ IH]; intros o Hn Hf.
  - exists o, []. split; [apply incl_refl|]. intros more. cbn.
    destruct (run_receiver c o rest more) as [[s t2] obs2]. reflexivity.
  - inversion Hf as [|? ? Hf1 Hf2]; subst.
    unfold wire_of. cbn [map concat]. rewrite <- app_assoc. fold (wire_of msgs).
    destruct (recv_bytes_ok c o m (wire_of msgs ++ rest) mx Hc Hn Hf1 Hm) as (o1 & t1 & E1 & I1).
    destruct (IH o1 (not_in_incl _ _ _ I1 Hn) Hf2) as (o' & t & I' & IH').
    exists o', (t1 ++ t). split; [eapply incl_tran; eassumption|]. intros more.
    cbn [recvs map app run_receiver]. rewrite E1. fold (recvs mxs). rewrite IH'.
    destruct (run_receiver c o' rest more) as [[s t2] obs2].
    rewrite <- app_assoc. reflexivity.
Qed.

Lemma run_receiver_all msgs mxs c o rest :
  openr c -> ~ In RErr o -> Forall fits msgs -> Forall2 max_ok msgs mxs ->
  exists t, run_receiver c o (wire_of msgs ++ rest) (recvs mxs) = (rest, t, map (ok_obs c) msgs).
Proof.
  intros Hc Hn Hf H2.
  destruct (run_receiver_prefix msgs mxs c o rest Hc Hn Hf H2) as (o' & t & _ & H).
  specialize (H []). rewrite !app_nil_r in H. cbn in H. rewrite ?app_nil_r in H.
  exists t. exact H.
Qed.

(* ROUND TRIP.  Any messages, any valid way of naming them in send_bytes, any
   write script and any read script without an OS-level error (short writes,
   short reads, EINTR anywhere), any maxlength that admits each message, any
   bytes following in the stream: the wire is the concatenation of the framed
   messages, every send returns normally, the receiver returns exactly the
   messages, in order, one per call, and the following bytes are untouched. *)
Lemma roundtrip sc rc wo ro ops msgs mxs rest :
  Forall2 (valid_send sc) ops msgs -> Forall fits msgs -> Forall2 max_ok msgs mxs ->
  openr rc -> ~ In WErr wo -> ~ In RErr ro ->
  exists tw tr,
    run_sender sc wo ops = (wire_of msgs, tw, map (fun _ => (0, flags sc)) msgs) /\
    run_receiver rc ro (wire_of msgs ++ rest) (recvs mxs) = (rest, tr, map (ok_obs rc) msgs).
Proof.
  intros Hv Hf Hm Hr Hw Hn.
  destruct (run_sender_all ops msgs sc wo Hv Hw Hf) as (tw & Es).
  destruct (run_receiver_all msgs mxs rc ro rest Hr Hn Hf Hm) as (tr & Er).
  exists tw, tr. split; assumption.
Qed.

(* END OF STREAM after k whole messages, inside message m (possibly at its very
   start): the k messages are delivered, then the next receive raises EOFError
   when the cut is at the boundary or exactly after the header, OSError when it
   is inside the header or inside the payload; nothing short is ever returned *)
Lemma eof_after msgs mxs c o m partial more mx :
  openr c -> ~ In RErr o -> Forall fits msgs -> Forall2 max_ok msgs mxs ->
  fits m -> max_ok m mx -> encode m = partial ++ more -> more <> [] ->
  exists s t,
    run_receiver c o (wire_of msgs ++ partial) (recvs mxs ++ [RRecv mx]) =
    (s, t, map (ok_obs c) msgs ++
           [mk_robs (if (len partial =? 0) || (len partial =? 4) then 301 else 105)
                    [] (-1) [] (flags c)]).
Proof.
  intros Hc Hn Hf H2 Hfm Hm He Hmore.
  destruct (run_receiver_prefix msgs mxs c o partial Hc Hn Hf H2) as (o' & t & I & H).
  rewrite H. cbn [run_receiver].
  destruct (recv_bytes_eof c o' m partial more mx Hc (not_in_incl _ _ _ I Hn) Hfm Hm He Hmore)
    as (o2 & s2 & t2 & E). rewrite E.
  eexists _, _. destruct ((len partial =? 0) || (len partial =? 4)); reflexivity.
Qed.
