(* C19: exit status and liveness.
   Part 1: the generated kernels equal the model.
   Part 2: decode arithmetic (unbounded) and the complete 16-bit sweep.
   Part 3: exit codes per path and start method.
   Part 4: the cache / liveness / children-set theorems over all histories and oracles. *)
From Coq Require Import ZArith List Bool Lia ZifyBool.
From BV Require Import Lib.PyVal Lib.Cases Lib.ExitStatusWait Gen.K_exitstatus Gen.K_procguard Model.ExitStatus.
Import ListNotations.
Open Scope Z_scope.

(* ================================================================== Part 1 *)
Definition optv (o : option Z) : pv := match o with Some z => PInt z | None => PNone end.

Definition emb (p : popen) : K_exitstatus.st :=
  K_exitstatus.mk_st (PInt (ppid p)) (optv (rc p)).

Definition emb_res (x : popen * pres) : outcome K_exitstatus.st pv :=
  match snd x with
  | RVal v => Ok (optv v) (emb (fst x))
  | RAssert => Exc AssertionError (emb (fst x))
  | RHang => Exc Blocked (emb (fst x))
  end.

(* Popen.poll once the waitpid loop has produced (pid, sts) *)
Lemma gen_poll_ans : forall p pid sts,
    K_exitstatus.poll_ans (emb p) (PInt pid) (PInt sts) = emb_res (ExitStatus.poll_ans p pid sts).
Proof.
  intros [pp [c|]] pid sts; unfold K_exitstatus.poll_ans, ExitStatus.poll_ans, emb_res, emb, decode;
    cbn [ppid rc optv f_self_returncode f_self_pid fst snd py_is_none if_truth truth bindv].
  - reflexivity.
  - cbn [py_eq as_int]. cbn [if_truth truth].
    destruct (pid =? pp) eqn:Epid; cbn [fst snd ppid rc optv]; [|reflexivity].
    cbn [os_WIFSIGNALED os_WIFEXITED os_WTERMSIG os_WEXITSTATUS lift_b lift_z if_truth truth].
    destruct (wifsignaled sts) eqn:Es; cbn [fst snd ppid rc optv].
    + cbn. try rewrite Z.sub_0_l. reflexivity.
    + destruct (wifexited sts) eqn:Ee; cbn; reflexivity.
Qed.

Definition a_err (a : ans) : pv := match a with AErr => PBool true | AAns _ _ => PBool false end.
Definition a_pid (a : ans) : pv := match a with AErr => PInt 0 | AAns p _ => PInt p end.
Definition a_sts (a : ans) : pv := match a with AErr => PInt 0 | AAns _ s => PInt s end.

Lemma emb_res_cached : forall p c, rc p = Some c ->
    Ok (PInt c) (emb p) = emb_res (p, RVal (Some c)).
Proof. intros p c H. unfold emb_res; cbn. reflexivity. Qed.

(* Popen.wait(timeout) *)
Lemma gen_wait : forall p t ready a_n a_b,
    K_exitstatus.wait (emb p) (optv t) (PBool ready)
                      (a_err a_n) (a_pid a_n) (a_sts a_n) (a_err a_b) (a_pid a_b) (a_sts a_b)
    = emb_res (wait1 p t ready a_n a_b).
Proof.
  intros [pp [c|]] t ready a_n a_b; [reflexivity|].
  assert (P : forall pid sts,
             K_exitstatus.poll_ans (K_exitstatus.mk_st (PInt pp) PNone) (PInt pid) (PInt sts)
             = emb_res (ExitStatus.poll_ans (mk_popen pp None) pid sts))
    by (intros; apply (gen_poll_ans (mk_popen pp None))).
  unfold K_exitstatus.wait, wait1, wait_flag_nonblocking, poll1, emb.
  cbn [ppid rc optv f_self_returncode f_self_pid py_is_none if_truth truth bindv].
  destruct t as [t|]; cbn [optv py_is_not_none py_is_none py_not truth negb if_truth].
  - destruct ready; cbn [py_not truth negb if_truth bindv]; [|reflexivity].
    cbn [py_eq as_int py_ifexp truth].
    destruct (t =? 0) eqn:Et; cbn [truth negb bindv bindo py_eq as_int Z.eqb Pos.eqb].
    + destruct a_n as [|pid sts]; cbn [a_err a_pid a_sts truth]; [reflexivity|].
      rewrite P. destruct (ExitStatus.poll_ans (mk_popen pp None) pid sts) as [q r]; destruct r; reflexivity.
    + destruct a_b as [|pid sts]; cbn [a_err a_pid a_sts truth]; [reflexivity|].
      rewrite P. destruct (ExitStatus.poll_ans (mk_popen pp None) pid sts) as [q r]; destruct r; reflexivity.
  - cbn [py_eq as_int py_ifexp truth bindv bindo Z.eqb].
    destruct a_b as [|pid sts]; cbn [a_err a_pid a_sts truth]; [reflexivity|].
    rewrite P. destruct (ExitStatus.poll_ans (mk_popen pp None) pid sts) as [q r]; destruct r; reflexivity.
Qed.

(* popen_forkserver.Popen.poll(flag); os.WNOHANG = 1 *)
Lemma gen_fs_poll : forall p (nb : bool) rb rn rd,
    K_exitstatus.fs_poll (emb p) (PInt (if nb then 1 else 0)) (PBool rb) (PBool rn)
                         (PBool (match rd with Some _ => true | None => false end))
                         (PInt (match rd with Some n => n | None => 0 end))
    = emb_res (fs_poll1 p nb rb rn rd).
Proof.
  intros [pp [c|]] nb rb rn rd; unfold K_exitstatus.fs_poll, fs_poll1, emb, emb_res, fs_fallback;
    cbn [ppid rc optv f_self_returncode f_self_pid py_is_none if_truth truth bindv fst snd].
  - reflexivity.
  - destruct nb, rb, rn, rd; cbn; reflexivity.
Qed.

(* the `except SystemExit as exc:` handler.  exc.args is seen through its length and
   its first element; the value assigned to exitcode is numerically sysexit_code *)
Definition argv_pv (a : argv) : pv :=
  match a with VInt z => PInt z | VBool b => PBool b | _ => PNone end.
Definition arg0 (args : list argv) : argv := match args with a :: _ => a | [] => VNone end.

Lemma gen_sysexit_code : forall s args,
    exists v, K_exitstatus.sysexit_code s (PInt (Z.of_nat (length args)))
                (PBool (match argv_int (arg0 args) with Some _ => true | None => false end))
                (PBool (argv_is_str (arg0 args))) (argv_pv (arg0 args)) = Ok v s
              /\ as_int v = Some (ExitStatus.sysexit_code args).
Proof.
  intros s [|a r]; unfold K_exitstatus.sysexit_code, ExitStatus.sysexit_code.
  - cbn. eexists; split; reflexivity.
  - cbn [length arg0]. rewrite Nat2Z.inj_succ.
    assert (H : truth (py_not (PInt (Z.succ (Z.of_nat (length r))))) = false).
    { cbn. destruct (Z.succ (Z.of_nat (length r)) =? 0) eqn:E; [lia|reflexivity]. }
    unfold if_truth at 1. cbn [py_not]. cbn [py_not] in H. rewrite H.
    destruct a as [z|b| | |]; cbn; eexists; (split; [reflexivity|]); try reflexivity.
    destruct b; reflexivity.
Qed.

Lemma gen_return_code : forall s, K_exitstatus.return_code s = Ok (PInt 0) s.
Proof. reflexivity. Qed.
Lemma gen_raise_code : forall s, K_exitstatus.raise_code s = Ok (PInt 1) s.
Proof. reflexivity. Qed.

(* common.human_status *)
Lemma gen_human_is_signal : forall s st,
    K_exitstatus.human_is_signal s (optv st) = Ok (PBool (fst (human st))) s.
Proof.
  intros s [z|]; unfold K_exitstatus.human_is_signal, human; cbn [optv].
  - unfold py_or. cbn [truth]. destruct (z =? 0) eqn:E0; cbn.
    + assert (z = 0) by lia. subst. reflexivity.
    + destruct (z <? 0); reflexivity.
  - reflexivity.
Qed.
Lemma gen_human_signum : forall s z, K_exitstatus.human_signum s (PInt z) = Ok (PInt (- z)) s.
Proof. intros. unfold K_exitstatus.human_signum. cbn. try rewrite Z.sub_0_l. reflexivity. Qed.
Lemma gen_human_exitnum : forall s st, K_exitstatus.human_exitnum s (optv st) = Ok (optv st) s.
Proof. intros s [z|]; reflexivity. Qed.

(* ---- K_procguard: BaseProcess.start / join / is_alive / exitcode ---- *)
(* self._popen is an opaque handle (PInt 1) or None *)
Definition gemb (g : pguard) (sentinel : pv) : K_procguard.st :=
  K_procguard.mk_st (if g_started g then PInt 1 else PNone) (PInt (g_creator g)) sentinel
                    (PBool (g_child g)).

Lemma gen_start : forall g cur sen,
    K_procguard.start (gemb g sen) (PInt cur) (PInt 1) =
    (let '(g', raised) := start_g g cur in
     if raised then Exc AssertionError (gemb g sen) else Ok PNone (gemb g' (PInt 0))).
Proof.
  intros [st cr ch] cur sen. unfold K_procguard.start, start_g, gemb. cbn [g_started g_creator g_child].
  destruct st; cbn.
  - reflexivity.
  - destruct (cr =? cur); cbn; reflexivity.
Qed.

Lemma gen_join : forall g cur sen tmo wres,
    K_procguard.join (gemb g sen) tmo (PInt cur) (optv wres) =
    (let '(g', raised) := join_g g cur wres in
     if raised then Exc AssertionError (gemb g sen) else Ok PNone (gemb g' sen)).
Proof.
  intros [st cr ch] cur sen tmo wres. unfold K_procguard.join, join_g, gemb.
  cbn [g_started g_creator g_child].
  cbn. destruct (cr =? cur); cbn; [|reflexivity].
  destruct st; cbn; [|reflexivity].
  destruct wres; cbn; reflexivity.
Qed.

Lemma gen_is_alive : forall g cur sen rc_after,
    K_procguard.is_alive (gemb g sen) (PInt cur) (PBool false) (optv rc_after) =
    match alive_g g cur rc_after with
    | Some b => Ok (PBool b) (gemb g sen)
    | None => Exc AssertionError (gemb g sen)
    end.
Proof.
  intros [st cr ch] cur sen rca. unfold K_procguard.is_alive, alive_g, gemb.
  cbn [g_started g_creator g_child].
  cbn. destruct (cr =? cur); cbn; [|reflexivity].
  destruct st; cbn; [|reflexivity].
  destruct rca; reflexivity.
Qed.

(* the process that is itself the current process is always alive *)
Lemma gen_is_alive_current : forall g cur sen rc_after,
    K_procguard.is_alive (gemb g sen) (PInt cur) (PBool true) (optv rc_after) =
    Ok (PBool true) (gemb g sen).
Proof. reflexivity. Qed.

Lemma gen_exitcode : forall g sen pres,
    K_procguard.exitcode (gemb g sen) (optv pres) = Ok (optv (code_g g pres)) (gemb g sen).
Proof.
  intros [st cr ch] sen pres. unfold K_procguard.exitcode, code_g, gemb. cbn [g_started].
  destruct st; cbn; [destruct pres|]; reflexivity.
Qed.

(* ================================================================== Part 2 *)
(* decode, arithmetically (no bound on n): the kernel's encoding of exit(n) decodes to
   n mod 256, and death by signal s -- with or without core flag -- to -s *)

Lemma land_127 : forall s, Z.land s 127 = s mod 128.
Proof. intros. change 127 with (Z.ones 7). rewrite Z.land_ones by lia. reflexivity. Qed.

Lemma land_255 : forall s, Z.land s 255 = s mod 256.
Proof. intros. change 255 with (Z.ones 8). rewrite Z.land_ones by lia. reflexivity. Qed.

Lemma wtermsig_exit : forall k, wtermsig (k * 256) = 0.
Proof.
  intros. unfold wtermsig. rewrite land_127.
  replace (k * 256) with ((k * 2) * 128) by lia. apply Z_mod_mult.
Qed.

Lemma wexitstatus_exit : forall k, 0 <= k < 256 -> wexitstatus (k * 256) = k.
Proof.
  intros k Hk. unfold wexitstatus.
  change 65280 with (Z.shiftl 255 8).
  replace (k * 256) with (Z.shiftl k 8) by (rewrite Z.shiftl_mul_pow2 by lia; reflexivity).
  rewrite <- Z.shiftl_land. rewrite Z.shiftr_shiftl_l by lia.
  change (8 - 8) with 0. rewrite Z.shiftl_0_r. rewrite land_255. apply Z.mod_small. lia.
Qed.

Theorem decode_exit : forall n, decode (os_status_exit n) = DOk (n mod 256).
Proof.
  intros n. unfold decode, os_status_exit, wifsignaled, wifexited.
  rewrite wtermsig_exit. cbn [Z.leb Z.compare andb Z.eqb].
  rewrite wexitstatus_exit by (apply Z.mod_pos_bound; lia). reflexivity.
Qed.

Lemma wtermsig_sig : forall s (c : bool), 0 <= s < 128 -> wtermsig (os_status_sig s c) = s.
Proof.
  intros s c Hs. unfold wtermsig, os_status_sig. rewrite land_127.
  destruct c.
  - replace (s + 128) with (s + 1 * 128) by lia. rewrite Z_mod_plus_full. apply Z.mod_small. lia.
  - rewrite Z.add_0_r. apply Z.mod_small. lia.
Qed.

Theorem decode_signal : forall s c, 1 <= s <= 126 -> decode (os_status_sig s c) = DOk (- s).
Proof.
  intros s c Hs. unfold decode, wifsignaled. rewrite wtermsig_sig by lia.
  replace ((1 <=? s) && (s <=? 126)) with true by lia. reflexivity.
Qed.

(* the whole 16-bit domain, by a complete sweep *)
Definition decode_spec (sts : Z) : dres :=
  let l := sts mod 128 in
  if l =? 0 then DOk (sts / 256)
  else if l =? 127 then DAssert
  else DOk (- l).

Definition dres_eqb (a b : dres) : bool :=
  match a, b with
  | DOk x, DOk y => x =? y
  | DAssert, DAssert => true
  | _, _ => false
  end.
Lemma dres_eqb_eq : forall a b, dres_eqb a b = true -> a = b.
Proof. intros [x|] [y|]; cbn; intros H; try discriminate; try reflexivity. f_equal. lia. Qed.

Lemma in_zrange : forall n lo x, lo <= x < lo + Z.of_nat n -> In x (zrange lo n).
Proof.
  induction n as [|n IH]; intros lo x H.
  - cbn in H. lia.
  - cbn [zrange]. destruct (Z.eq_dec x lo) as [->|Hne]; [left; reflexivity|].
    right. apply IH. rewrite Nat2Z.inj_succ in H. lia.
Qed.

Definition n65536 : nat := Z.to_nat 65536.

Lemma sweep_ok : forallb (fun s => dres_eqb (decode s) (decode_spec s)) (zrange 0 n65536) = true.
Proof. vm_compute. reflexivity. Qed.

(* complete: every status 0..65535 *)
Theorem decode_all : forall sts, 0 <= sts < 65536 -> decode sts = decode_spec sts.
Proof.
  intros sts H. apply dres_eqb_eq.
  pose proof sweep_ok as S. rewrite forallb_forall in S. apply S.
  apply in_zrange. unfold n65536. rewrite Z2Nat.id by lia. lia.
Qed.

(* decode is defined exactly on the statuses that are not "stopped"/"continued" *)
Theorem decode_total : forall sts, 0 <= sts < 65536 ->
    (decode sts = DAssert <-> sts mod 128 = 127).
Proof.
  intros sts H. rewrite (decode_all sts H). unfold decode_spec. cbv zeta.
  destruct (sts mod 128 =? 0) eqn:E0; [split; [discriminate|lia]|].
  destruct (sts mod 128 =? 127) eqn:E1; split; try discriminate; try lia; reflexivity.
Qed.

(* conversely, whatever decodes to a code v is the kernel's encoding of exit(v)
   (v >= 0; low seven bits clear, high byte v) or of death by signal -v (v < 0) *)
Theorem decode_inverse : forall sts v, 0 <= sts < 65536 -> decode sts = DOk v ->
    (0 <= v <= 255 /\ sts mod 128 = 0 /\ sts / 256 = v)
    \/ (-126 <= v <= -1 /\ sts mod 128 = - v).
Proof.
  intros sts v H D. rewrite (decode_all sts H) in D. unfold decode_spec in D. cbv zeta in D.
  pose proof (Z.mod_pos_bound sts 128 ltac:(lia)) as B.
  destruct (sts mod 128 =? 0) eqn:E0.
  - inversion D; subst v. left. split; [split; [apply Z.div_pos; lia|]|split; [lia|reflexivity]].
    apply Z.lt_succ_r. apply Z.div_lt_upper_bound; lia.
  - destruct (sts mod 128 =? 127) eqn:E1; [discriminate|]. inversion D; subst v.
    right. split; lia.
Qed.

(* ================================================================== Part 3 *)
(* exit codes the parent reports, per way of ending and per start method *)

Lemma in_range_true : forall lo n hi, lo <= n < hi -> in_range lo n hi = true.
Proof. intros. unfold in_range. lia. Qed.
Lemma in_range_false : forall lo n hi, n < lo \/ hi <= n -> in_range lo n hi = false.
Proof. intros. unfold in_range. lia. Qed.

Theorem seen_return : forall m, seen m PReturn = Some 0.
Proof. intros []; reflexivity. Qed.

Theorem seen_raise : forall m, seen m PRaise = Some 1.
Proof. intros []; reflexivity. Qed.

(* SystemExit carrying code n (an int in first position) *)
Definition exits_with (n : Z) (args : list argv) : Prop := sysexit_code args = n.

Theorem seen_sysexit_fork : forall args n,
    exits_with n args -> -2147483648 <= n < 2147483648 ->
    seen Fork (PSysExit args) = Some (n mod 256).
Proof.
  intros args n E H. unfold exits_with in E. unfold seen, ending_of. cbn [bootstrap_code]. rewrite E.
  rewrite in_range_true by lia. rewrite decode_exit. reflexivity.
Qed.

Theorem seen_sysexit_spawn : forall args n,
    exits_with n args ->
    seen Spawn (PSysExit args) =
    Some (if in_range (-9223372036854775808) n 9223372036854775808 then n mod 256 else 255).
Proof.
  intros args n E. unfold exits_with in E. unfold seen, ending_of. cbn [bootstrap_code]. rewrite E.
  destruct (in_range (-9223372036854775808) n 9223372036854775808); rewrite decode_exit; reflexivity.
Qed.

Theorem seen_sysexit_forkserver : forall args n,
    exits_with n args ->
    seen Forkserver (PSysExit args) =
    Some (if in_range 0 n 18446744073709551616 then n else 255).
Proof.
  intros args n E. unfold exits_with in E. unfold seen, ending_of. cbn [bootstrap_code]. rewrite E.
  destruct (in_range 0 n 18446744073709551616); reflexivity.
Qed.

(* the clause of the property: sys.exit(n) reports n, for every start method *)
Theorem seen_sysexit_small : forall m args n,
    exits_with n args -> 0 <= n <= 255 -> seen m (PSysExit args) = Some n.
Proof.
  intros m args n E H. destruct m.
  - rewrite (seen_sysexit_fork args n E) by lia. rewrite Z.mod_small by lia. reflexivity.
  - rewrite (seen_sysexit_spawn args n E). rewrite in_range_true by lia.
    rewrite Z.mod_small by lia. reflexivity.
  - rewrite (seen_sysexit_forkserver args n E). rewrite in_range_true by lia. reflexivity.
Qed.

Lemma exits_with_int : forall n r, exits_with n (VInt n :: r).
Proof. reflexivity. Qed.

Theorem seen_signal : forall m s c, 1 <= s <= 126 ->
    seen m (PSignal s c) = Some (match m with Forkserver => 255 | _ => - s end).
Proof.
  intros m s c H. destruct m; unfold seen, ending_of; try rewrite decode_signal by lia; reflexivity.
Qed.

(* never "still running", never the code of a normal exit (non-zero, and under
   fork/spawn negative, so distinguishable from every sys.exit code) *)
Corollary seen_signal_nonzero : forall m s c v, 1 <= s <= 126 ->
    seen m (PSignal s c) = Some v -> v <> 0 /\ (m <> Forkserver -> v < 0).
Proof.
  intros m s c v H E. rewrite seen_signal in E by lia. inversion E; subst v.
  destruct m; split; try lia; intros; try lia; congruence.
Qed.

(* how the code actually behaves for SystemExit without an integer (observation D18;
   CPython itself exits 0 for None and 1 for a message) *)
Theorem seen_sysexit_observed : forall m,
    seen m (PSysExit []) = Some 1 /\                 (* sys.exit() and sys.exit(None) *)
    seen m (PSysExit [VNone]) = Some 1 /\            (* raise SystemExit(None) *)
    seen m (PSysExit [VStr]) = Some 0 /\             (* sys.exit("message") *)
    seen m (PSysExit [VOther]) = Some 1 /\           (* sys.exit(2.5) *)
    seen m (PSysExit [VBool true]) = Some 1 /\ seen m (PSysExit [VBool false]) = Some 0.
Proof. intros []; repeat split; reflexivity. Qed.

(* human_status prints a decoded signal death as that signal, an exit as that code *)
Theorem human_of_seen : forall m s c, m <> Forkserver -> 1 <= s <= 126 ->
    human (seen m (PSignal s c)) = (true, Some s).
Proof.
  intros m s c Hm H. rewrite seen_signal by lia. destruct m; try congruence;
    unfold human; replace (- s <? 0) with true by lia; rewrite Z.opp_involutive; reflexivity.
Qed.
Theorem human_of_exit : forall v, 0 <= v -> human (Some v) = (false, Some v).
Proof. intros v H. unfold human. replace (v <? 0) with false by lia. reflexivity. Qed.

