(* C17, fourth part: the wake-up theorems for notify_all / Event.set and for notify with a
   single sleeper (instances of the generic trace arguments of Proofs/CondWake.v), their
   transport to the generated programs, and the non-vacuity witnesses. *)
From Coq Require Import ZArith List Bool Lia ZifyBool Arith.
From BV Require Import Model.SemProg Model.CondProg Proofs.SemProgProofs Proofs.CondProofs Proofs.CondLive
  Proofs.CondWake.
From BV Require Gen.P_cond.
Import ListNotations.
Open Scope Z_scope.

Opaque upds updz upd.

(* ------------------------------------------------------------------ notify_all and Event.set *)
Lemma at_end_cases : forall t, at_end t = true ->
    at_ t 1 14 = true \/ at_ t 2 24 = true \/ at_ t 4 26 = true.
Proof.
  intros t H. unfold at_end in H. apply orb_true_iff in H. destruct H as [H|H]; [|auto].
  apply orb_true_iff in H. destruct H; auto.
Qed.

Lemma in_nallx_facts : forall t, in_nallx t = true ->
    in_body t = true /\ (cid t = 2 \/ cid t = 4)%nat.
Proof.
  intros t H. unfold in_nallx in H. unfold in_body. destruct (fin t); [discriminate|].
  cbn [negb andb] in *. apply orb_true_iff in H.
  destruct H as [H|H]; apply andb_true_iff in H; destruct H as [H1 H2]; rewrite H1; apply Nat.eqb_eq in H1.
  - rewrite H2. rewrite orb_true_r. auto.
  - assert (Nat.leb 1 (pc t) = true) by (apply Nat.leb_le; apply Nat.leb_le in H2; lia).
    rewrite H. rewrite !orb_true_r. auto.
Qed.

Lemma nall_A_end : forall n j tn tu, in_nallx tn = true ->
    forall g tn' tu', Inv g -> Live g -> base n j tn tu g -> True ->
    nth_error (thr g) n = Some tn' -> nth_error (thr g) j = Some tu' ->
    at_end tn' = true -> t_win tu' = 0.
Proof.
  intros n j tn tu Hin g tn' tu' HI _ (ta & tb & Ha & Hb & _ & _ & Ca & _) _ Hn Hj Hend.
  assert (ta = tn') by congruence. subst ta.
  destruct (in_nallx_facts tn Hin) as [_ Hc]. pose proof (cid_cur tn tn' Ca) as Hcid.
  assert (Hd : nall_done tn').
  { destruct (at_end_cases tn' Hend) as [H|[H|H]]; destruct (at_inv _ _ _ H) as (F & C & P).
    - lia.
    - split; [auto|]. left. auto.
    - split; [auto|]. right. auto. }
  destruct (notify_all_wakes g n tn' HI Hn Hd) as (Hw & _).
  apply Hw. eapply nth_error_In; eauto.
Qed.

Lemma base_init : forall n j tn tu g, nth_error (thr g) n = Some tn -> nth_error (thr g) j = Some tu ->
    in_body tn = true -> sleeping_at tu = true -> base n j tn tu g.
Proof.
  intros n j tn tu g Hn Hj Hb Hs. exists tn, tu.
  destruct (sleeping_at_facts tu Hs) as (W & _). repeat split; auto.
Qed.

Lemma thread_at_nth : forall g i t, nth_error (thr g) i = Some t -> thread_at g i = t.
Proof. intros g i t H. unfold thread_at. apply nth_error_nth. auto. Qed.

Lemma thread_at_live : forall g i, fin (thread_at g i) = false ->
    nth_error (thr g) i = Some (thread_at g i).
Proof.
  intros g i H. destruct (nth_error (thr g) i) as [t|] eqn:E.
  - rewrite (thread_at_nth g i t E). reflexivity.
  - exfalso. unfold thread_at in H. apply nth_error_None in E. rewrite nth_overflow in H by auto. discriminate.
Qed.

Lemma awake_pending_x : forall g1 g2 j tu, Inv g1 -> Inv g2 ->
    nth_error (thr g1) j = Some tu -> sleeping_at tu = true -> r0 (rg tu) = 0 ->
    awake_at (thread_at g2 j) = true -> cur (thread_at g2 j) = cur tu -> cid tu = 0%nat ->
    pending (thread_at g2 j) = Some 1.
Proof.
  intros g1 g2 j tu HI HI2 Hj Hsl Hr0 Haw Hcur Hc0.
  destruct (awake_pcs _ Haw) as (Ff & Hpc).
  pose proof (thread_at_live g2 j Ff) as Hsome.
  pose proof (i_li g2 HI2 _ (nth_error_In _ _ Hsome)) as Hli2.
  pose proof (i_li g1 HI tu (nth_error_In _ _ Hj)) as Hli1.
  destruct (sleeping_at_facts tu Hsl) as (W & _). destruct (in_wwx_facts tu W) as (Fu & _).
  pose proof (li_r0 tu (thread_at g2 j) Hli1 Hli2 Fu Ff Hcur) as Hr.
  pose proof (cid_cur tu (thread_at g2 j) Hcur) as Hcid.
  apply awake_pending; auto; [|lia].
  unfold at_. rewrite Ff. destruct Hpc as [[A B]|[A B]]; [rewrite A, B; reflexivity|lia].
Qed.

(* NO LOST WAKE-UP, trace form, for notify_all AND Event.set, Condition.wait AND Event.wait:
   thread n is inside the body of a notify_all (or of an Event.set past its flag acquire) in
   g1 while thread j is an untimed waiter blocked on the wait semaphore.  Whatever the
   schedule, if in g2 thread n stands at the final lock release of that same call, then
   thread j stands at the lock re-acquisition of that same wait call; a Condition.wait is
   then going to return True; after an Event.set the flag is 1. *)
Theorem wakes_trace_x : forall sched g1 g2 es ok n j tn tu,
    Inv g1 -> Live g1 -> run_small g1 sched -> run code g1 sched = (g2, es, ok) -> n <> j ->
    nth_error (thr g1) n = Some tn -> in_nallx tn = true ->
    nth_error (thr g1) j = Some tu -> sleeping_at tu = true -> r0 (rg tu) = 0 ->
    at_end (thread_at g2 n) = true -> results (thread_at g2 n) = results tn ->
    awake_at (thread_at g2 j) = true /\
    cur (thread_at g2 j) = cur tu /\ results (thread_at g2 j) = results tu /\
    (cid tu = 0%nat -> pending (thread_at g2 j) = Some 1) /\
    (cid tn = 4%nat -> aflag g2 = 1).
Proof.
  intros sched g1 g2 es ok n j tn tu HI HL Hsm Hrun Hnj Hn Hin Hj Hsl Hr0 Hend Hres.
  destruct (in_nallx_facts tn Hin) as [Hb Hc].
  destruct (wake_trace_gen n j tn tu (fun _ => True) Hnj Hsl (fun _ _ _ _ _ _ _ _ _ _ _ _ => I)
              (nall_A_end n j tn tu Hin) sched g1 g2 es ok HI HL Hsm Hrun Hn
              (base_init n j tn tu g1 Hn Hj Hb Hsl) I Hend Hres) as (HI2 & HL2 & Hcn & Haw & Hcur & Hrs).
  split; [auto|]. split; [auto|]. split; [auto|]. split.
  - intros Hc0. apply (awake_pending_x g1 g2 j tu HI HI2 Hj Hsl Hr0 Haw Hcur Hc0).
  - intros Hc4. destruct HL2 as [_ HS]. apply HS.
    pose proof (cid_cur tn (thread_at g2 n) Hcn) as Hcid.
    assert (H26 : at_ (thread_at g2 n) 4 26 = true).
    { destruct (at_end_cases _ Hend) as [H|[H|H]]; destruct (at_inv _ _ _ H) as (F & C & P); try lia; auto. }
    destruct (at_inv _ _ _ H26) as (F & C & P).
    pose proof (thread_at_live g2 n F) as Hsome.
    assert (t_set (thread_at g2 n) = 1) by (unfold t_set; rewrite F, C, P; reflexivity).
    pose proof (sumz_ge_elem _ t_set (thr g2) n _ (fun x _ => proj1 (t_set_01 x)) Hsome). lia.
Qed.

Lemma okres_in : forall g i t0 l v, Inv g -> results (thread_at g i) = l ++ (cur t0, v) :: results t0 ->
    okres (cur t0, v).
Proof.
  intros g i t0 l v HI H.
  destruct (nth_error (thr g) i) as [t|] eqn:E.
  - rewrite (thread_at_nth g i t E) in H.
    pose proof (cond_results g t HI (nth_error_In _ _ E)) as Hall. rewrite H in Hall.
    rewrite Forall_forall in Hall. apply Hall. apply in_or_app. right. left. reflexivity.
  - exfalso. unfold thread_at in H. apply nth_error_None in E. rewrite nth_overflow in H by auto.
    cbn in H. destruct l; discriminate.
Qed.

(* NO LOST WAKE-UP, UNCONDITIONAL.  Same situation in g1.  (1) EVERY schedule from g1 is
   finite: it executes at most [M g1] steps -- no fairness assumption is involved.  (2) In
   every state g2 reached from g1 in which no thread can step any more (in particular at the
   end of every schedule that runs until nothing is enabled), the notifier has returned from
   that call with None and the waiter has returned from that wait call, with True for a
   Condition.wait.  So the waiter cannot sleep forever. *)
Theorem wakes_uncond_x : forall sched g1 g2 es ok n j tn tu,
    Inv g1 -> Live g1 -> M g1 < 64 * SVM -> run code g1 sched = (g2, es, ok) -> n <> j ->
    nth_error (thr g1) n = Some tn -> in_nallx tn = true ->
    nth_error (thr g1) j = Some tu -> sleeping_at tu = true -> r0 (rg tu) = 0 ->
    Z.of_nat (length es) <= M g1 /\
    (stuck g2 ->
     (exists l, results (thread_at g2 n) = l ++ (cur tn, V_NONE) :: results tn) /\
     (exists l v, results (thread_at g2 j) = l ++ (cur tu, v) :: results tu /\
                  (v = 0 \/ v = 1) /\ (cid tu = 0%nat -> v = 1))).
Proof.
  intros sched g1 g2 es ok n j tn tu HI HL HM Hrun Hnj Hn Hin Hj Hsl Hr0.
  destruct (run_bounded sched g1 g2 es ok HI HM Hrun) as [HI2 Hb].
  pose proof (M_nonneg g2 HI2). split; [lia|]. intros Hst.
  destruct (in_nallx_facts tn Hin) as [Hbody Hc].
  destruct (wake_uncond_gen n j tn tu (fun _ => True) Hnj Hsl (fun _ _ _ _ _ _ _ _ _ _ _ _ => I)
              (nall_A_end n j tn tu Hin) sched g1 g2 es ok HI HL (run_small_of_M sched g1 HI HM) Hrun
              (base_init n j tn tu g1 Hn Hj Hbody Hsl) I Hst) as (_ & (ln & vn & Rn) & (lu & vu & Ru)).
  pose proof (okres_in g2 n tn ln vn HI2 Rn) as On.
  pose proof (okres_in g2 j tu lu vu HI2 Ru) as Ou.
  pose proof (i_li g1 HI tu (nth_error_In _ _ Hj)) as (_ & _ & Hli1).
  destruct (sleeping_at_facts tu Hsl) as (W & _ & Hpu). destruct (in_wwx_facts tu W) as (Fu & _).
  rewrite Fu in Hli1. destruct Hli1 as [Ha0 _].
  split.
  - exists ln. unfold cid in Hc. destruct (cur tn) as [[c a0] a1]. cbn [fst] in Hc. cbn [okres] in On.
    destruct Hc as [Hc|Hc]; subst c; rewrite On in Rn; exact Rn.
  - exists lu, vu. split; [exact Ru|].
    unfold cid in *. destruct (cur tu) as [[c a0] a1]. cbn [fst snd] in *. cbn [okres] in Ou.
    destruct Hpu as [[Hc' _]|[Hc' _]]; subst c.
    + destruct Ou as [O1 O2]. split; [auto|]. intros _. apply O2. lia.
    + split; [auto|]. intros; lia.
Qed.

(* ------------------------------------------------------------------ notify with exactly one sleeper *)
Local Open Scope nat_scope.
(* bookkeeping along the body of notify while thread j is the only thread in the window *)
Definition R_pc (g : sys) (p : nat) (tu' : thread) : Prop :=
  match p with
  | 2 | 4 | 6 => sleeping_at tu' = true
  | 9 => sleeping_at tu' = true /\ vv 2 g = 0%Z
  | 11 => sleeping_at tu' = true /\ vv 2 g = 0%Z /\ vv 1 g = 0%Z
  | 12 | 13 | 14 => vv 1 g = 0%Z
  | _ => False
  end.
Local Close Scope nat_scope.

Definition R1 (n j : nat) (tn tu : thread) (g : sys) : Prop :=
  cid tn = 1%nat /\ r0 (rg tu) = 0 /\ LI tu /\ fin tu = false /\
  exists tn' tu', nth_error (thr g) n = Some tn' /\ nth_error (thr g) j = Some tu' /\
    sumz t_win (thr g) = t_win tu' /\ R_pc g (pc tn') tu'.

Lemma cid1_facts : forall t, fin t = false -> cid t = 1%nat ->
    t_win t = 0 /\ t_pend t = w_pend 1 (pc t) (rg t) /\ t_ntok t = w_ntok 1 (pc t) (rg t).
Proof. intros t F C. unfold t_win, t_pend, t_ntok. rewrite F, C. auto. Qed.

Lemma R_pc_same : forall g g' p t, vv 1 g' = vv 1 g -> vv 2 g' = vv 2 g -> R_pc g p t -> R_pc g' p t.
Proof. intros g g' p t E1 E2 H. unfold R_pc in *. rewrite E1, E2. exact H. Qed.

Ltac to_pc A :=
  let P := fresh "P" in destruct (at_inv _ _ _ A) as (_ & _ & P); rewrite P; cbn [R_pc].

Lemma R1_step : forall n j tn tu, n <> j ->
    forall g i go g' e, Inv g -> Live g -> small g -> base n j tn tu g -> R1 n j tn tu g ->
    step code g i go = Some (g', e) -> base n j tn tu g' -> R1 n j tn tu g'.
Proof.
  intros n j tn tu Hnj g i go g' e HI HL Hsm B (Hc1 & Hr0 & Hli & Fu0 & tn' & tu' & Hn & Hj & Hsum & Hpc) Es B'.
  destruct B as (ta & tb & Ha & Hb & Rn & Bn & Cn & Ru & Wu & Cu).
  assert (ta = tn') by congruence. assert (tb = tu') by congruence. subst ta tb.
  destruct (step_thr _ _ _ _ _ Es) as (t & Ht & Hthr & Hnew).
  destruct (step_live g i go g' e t HI Hsm Ht Es) as (_ & _ & F1 & F2 & W9 & _ & N1).
  pose proof (i_li g HI tn' (nth_error_In _ _ Hn)) as Hlin.
  pose proof (i_li g HI tu' (nth_error_In _ _ Hj)) as Hliu.
  pose proof (in_body_hl tn' Hlin Bn) as Hhl.
  destruct (hl_excl_sums g n tn' HI Hn Hhl) as (Sp & Sn & _ & _ & L0).
  destruct (in_body_cid tn' Bn) as (Fn & _).
  pose proof (cid_cur tn tn' Cn) as Hcid. rewrite Hc1 in Hcid.
  destruct (cid1_facts tn' Fn Hcid) as (Wn & Pn & Nn).
  destruct (in_wwx_facts tu' Wu) as (Fu & Hlu & _ & _).
  pose proof (li_r0 tu tu' Hli Hliu Fu0 Fu Cu) as Hr0'.
  pose proof (i_count g HI) as Icnt. pose proof (i_tok g HI) as Itok.
  pose proof (i_s0 g HI) as Is0. pose proof (i_w0 g HI) as Iw0.
  rewrite Sp, Pn, Hsum in Icnt. rewrite Sn, Nn in Itok.
  split; [auto|]. split; [auto|]. split; [auto|]. split; [auto|].
  destruct B' as (ta & tb & Ha' & Hb' & Rn' & Bn' & Cn' & Ru' & Wu' & Cu').
  exists ta, tb. split; [auto|]. split; [auto|].
  assert (Hwin' : sumz t_win (thr g') = sumz t_win (thr g) - t_win t + t_win (thread_at g' i))
    by (rewrite Hthr; apply sumz_upd; auto).
  assert (Hother : forall k x, k <> i -> nth_error (thr g) k = Some x -> nth_error (thr g') k = Some x).
  { intros k x Hk Hx. rewrite Hthr, nth_error_upd_other; auto. }
  destruct (Nat.eq_dec i n) as [En|En]; [|destruct (Nat.eq_dec i j) as [Ej|Ej]].
  - (* the notifier steps *)
    subst i. assert (t = tn') by congruence. subst t.
    assert (ta = thread_at g' n) by congruence. subst ta.
    assert (tb = tu') by (pose proof (Hother j tu' ltac:(auto) Hj); congruence). subst tb.
    destruct (in_body_cid _ Bn') as (Fa & _).
    pose proof (cid_cur tn _ Cn') as Hcida. rewrite Hc1 in Hcida.
    destruct (cid1_facts _ Fa Hcida) as (Wa & _ & _).
    split; [rewrite Hwin'; clear - Hsum Wn Wa; lia|].
    specialize (N1 Fn Hcid).
    remember (pc tn') as p eqn:Ep.
    dn p 15%nat; cbn [R_pc] in Hpc; try contradiction; cbn [w_pend w_ntok] in *.
    + destruct N1 as (A1 & _). to_pc A1. exact Hpc.
    + destruct N1 as [(A1 & _)|(A1 & _ & E2)]; to_pc A1; auto.
    + to_pc N1. exact Hpc.
    + destruct Hpc as (Hs & HW). destruct (sleeping_at_facts tu' Hs) as (_ & Hw1 & _).
      destruct N1 as [(A1 & E1 & E2)|(A1 & E1)]; to_pc A1; [|auto].
      split; [auto|]. clear - Icnt Hw1 E1 E2 HW Is0 Iw0. split; lia.
    + destruct Hpc as (Hs & HW & HS). destruct N1 as (A1 & E1 & E2). to_pc A1. clear - HW HS E1 E2. lia.
    + destruct N1 as (A1 & E1). to_pc A1. clear - Hpc E1. lia.
    + destruct N1 as (A1 & E1). to_pc A1. clear - Hpc E1. lia.
    + exfalso. apply N1. congruence.
  - (* the waiter steps *)
    subst i. assert (t = tu') by congruence. subst t.
    assert (tb = thread_at g' j) by congruence. subst tb.
    assert (ta = tn') by (pose proof (Hother n tn' ltac:(auto) Hn); congruence). subst ta.
    destruct (F1 Hlu) as (ES & Hwle).
    unfold sleeping_at in *.
    remember (pc tn') as p eqn:Ep.
    dn p 15%nat; cbn [R_pc] in Hpc |- *; try contradiction; cbn [w_pend w_ntok] in *;
      try (exfalso; destruct (W9 ltac:(tauto)) as [W9'|W9']; clear - W9' Itok Hr0' Hr0; lia).
    all: split; [rewrite Hwin'; clear - Hsum; lia|clear - ES Hpc; lia].
  - (* somebody else steps *)
    assert (ta = tn') by (pose proof (Hother n tn' ltac:(auto) Hn); congruence). subst ta.
    assert (tb = tu') by (pose proof (Hother j tu' ltac:(auto) Hj); congruence). subst tb.
    assert (H0 : t_hl t = 0).
    { pose proof (sumz_two _ t_hl (thr g) n i tn' t (fun x _ => proj1 (t_hl_01 x)) Hn Ht ltac:(auto)).
      pose proof (i_lock g HI). pose proof (i_lock0 g HI). pose proof (t_hl_01 t). lia. }
    assert (Hw0 : t_win t = 0).
    { pose proof (sumz_two _ t_win (thr g) j i tu' t (fun x _ => proj1 (t_win_01 x)) Hj Ht ltac:(auto)).
      pose proof (t_win_01 t). lia. }
    destruct (F1 H0) as (ES & Hwle). destruct (F2 H0 Hw0) as (EW & ET).
    pose proof (t_win_01 (thread_at g' i)) as Hb01.
    split; [rewrite Hwin'; clear - Hsum Hw0 Hwle Hb01; lia|]. apply (R_pc_same g g'); auto.
Qed.

Lemma R1_end : forall n j tn tu g tn' tu', Inv g -> Live g -> base n j tn tu g -> R1 n j tn tu g ->
    nth_error (thr g) n = Some tn' -> nth_error (thr g) j = Some tu' ->
    at_end tn' = true -> t_win tu' = 0.
Proof.
  intros n j tn tu g tn' tu' HI _ (ta & tb & Ha & Hb & _ & Bn & Cn & _) (Hc1 & _ & _ & _ & tc & td & Hc & Hd & _ & Hpc) Hn Hj Hend.
  assert (ta = tn') by congruence. assert (tc = tn') by congruence. subst ta tc.
  pose proof (cid_cur tn tn' Cn) as Hcid. rewrite Hc1 in Hcid.
  assert (H14 : at_ tn' 1 14 = true).
  { destruct (at_end_cases _ Hend) as [H|[H|H]]; destruct (at_inv _ _ _ H) as (F & C & P); try lia; auto. }
  destruct (at_inv _ _ _ H14) as (F & C & P). rewrite P in Hpc. cbn [R_pc] in Hpc.
  pose proof (in_body_hl tn' (i_li g HI tn' (nth_error_In _ _ Hn)) Bn) as Hhl.
  destruct (notify_one g n tn' HI Hn F C Hhl) as (_ & Hw).
  apply (Hw (or_intror P) Hpc). eapply nth_error_In; eauto.
Qed.

Lemma R1_init : forall n j tn tu g, Inv g -> nth_error (thr g) n = Some tn -> nth_error (thr g) j = Some tu ->
    at_ tn 1 2 = true -> sleeping_at tu = true -> r0 (rg tu) = 0 -> sumz t_win (thr g) = 1 ->
    in_body tn = true /\ R1 n j tn tu g.
Proof.
  intros n j tn tu g HI Hn Hj Hat Hsl Hr0 Hsum.
  destruct (at_inv _ _ _ Hat) as (F & C & P).
  destruct (sleeping_at_facts tu Hsl) as (W & Hw1 & _). destruct (in_wwx_facts tu W) as (Fu & _).
  split; [unfold in_body; rewrite F, C, P; reflexivity|].
  split; [auto|]. split; [auto|]. split; [apply (i_li g HI tu); eapply nth_error_In; eauto|]. split; [auto|].
  exists tn, tu. repeat split; auto; [lia|]. rewrite P. exact Hsl.
Qed.

(* notify, trace form.  Thread n has just taken the lock in notify() (it stands at the first
   operation of the body) and thread j, an untimed waiter blocked on the wait semaphore, is
   the ONLY thread between its announcement and its acknowledgement.  Whatever the schedule,
   when thread n stands at the final lock release of that same call, thread j stands at the
   lock re-acquisition of that same wait call (a Condition.wait is going to return True). *)
Theorem notify_one_trace : forall sched g1 g2 es ok n j tn tu,
    Inv g1 -> Live g1 -> run_small g1 sched -> run code g1 sched = (g2, es, ok) -> n <> j ->
    nth_error (thr g1) n = Some tn -> at_ tn 1 2 = true ->
    nth_error (thr g1) j = Some tu -> sleeping_at tu = true -> r0 (rg tu) = 0 ->
    sumz t_win (thr g1) = 1 ->
    at_ (thread_at g2 n) 1 14 = true -> results (thread_at g2 n) = results tn ->
    awake_at (thread_at g2 j) = true /\
    cur (thread_at g2 j) = cur tu /\ results (thread_at g2 j) = results tu /\
    (cid tu = 0%nat -> pending (thread_at g2 j) = Some 1).
Proof.
  intros sched g1 g2 es ok n j tn tu HI HL Hsm Hrun Hnj Hn Hat Hj Hsl Hr0 Hsum Hend Hres.
  destruct (R1_init n j tn tu g1 HI Hn Hj Hat Hsl Hr0 Hsum) as [Hb HR].
  assert (Hend' : at_end (thread_at g2 n) = true) by (unfold at_end; rewrite Hend; reflexivity).
  destruct (wake_trace_gen n j tn tu (R1 n j tn tu) Hnj Hsl (R1_step n j tn tu Hnj) (R1_end n j tn tu)
              sched g1 g2 es ok HI HL Hsm Hrun Hn
              (base_init n j tn tu g1 Hn Hj Hb Hsl) HR Hend' Hres) as (HI2 & HL2 & Hcn & Haw & Hcur & Hrs).
  split; [auto|]. split; [auto|]. split; [auto|].
  intros Hc0. apply (awake_pending_x g1 g2 j tu HI HI2 Hj Hsl Hr0 Haw Hcur Hc0).
Qed.

(* notify, unconditional: in the same situation every schedule is finite, and in every
   state without an enabled thread the notifier has returned None and the single sleeper
   has returned from that wait (True for a Condition.wait) *)
Theorem notify_one_uncond : forall sched g1 g2 es ok n j tn tu,
    Inv g1 -> Live g1 -> M g1 < 64 * SVM -> run code g1 sched = (g2, es, ok) -> n <> j ->
    nth_error (thr g1) n = Some tn -> at_ tn 1 2 = true ->
    nth_error (thr g1) j = Some tu -> sleeping_at tu = true -> r0 (rg tu) = 0 ->
    sumz t_win (thr g1) = 1 ->
    Z.of_nat (length es) <= M g1 /\
    (stuck g2 ->
     (exists l, results (thread_at g2 n) = l ++ (cur tn, V_NONE) :: results tn) /\
     (exists l v, results (thread_at g2 j) = l ++ (cur tu, v) :: results tu /\
                  (v = 0 \/ v = 1) /\ (cid tu = 0%nat -> v = 1))).
Proof.
  intros sched g1 g2 es ok n j tn tu HI HL HM Hrun Hnj Hn Hat Hj Hsl Hr0 Hsum.
  destruct (run_bounded sched g1 g2 es ok HI HM Hrun) as [HI2 Hb].
  pose proof (M_nonneg g2 HI2). split; [lia|]. intros Hst.
  destruct (R1_init n j tn tu g1 HI Hn Hj Hat Hsl Hr0 Hsum) as [Hbody HR].
  destruct (wake_uncond_gen n j tn tu (R1 n j tn tu) Hnj Hsl (R1_step n j tn tu Hnj) (R1_end n j tn tu)
              sched g1 g2 es ok HI HL (run_small_of_M sched g1 HI HM) Hrun
              (base_init n j tn tu g1 Hn Hj Hbody Hsl) HR Hst) as (_ & (ln & vn & Rn) & (lu & vu & Ru)).
  pose proof (okres_in g2 n tn ln vn HI2 Rn) as On.
  pose proof (okres_in g2 j tu lu vu HI2 Ru) as Ou.
  pose proof (i_li g1 HI tu (nth_error_In _ _ Hj)) as (_ & _ & Hli1).
  destruct (sleeping_at_facts tu Hsl) as (W & _ & Hpu). destruct (in_wwx_facts tu W) as (Fu & _).
  rewrite Fu in Hli1. destruct Hli1 as [Ha0 _].
  destruct (at_inv _ _ _ Hat) as (_ & Hc & _).
  split.
  - exists ln. unfold cid in Hc. destruct (cur tn) as [[c a0] a1]. cbn [fst] in Hc. cbn [okres] in On.
    subst c. rewrite On in Rn. exact Rn.
  - exists lu, vu. split; [exact Ru|].
    unfold cid in *. destruct (cur tu) as [[c a0] a1]. cbn [fst snd] in *. cbn [okres] in Ou.
    destruct Hpu as [[Hc' _]|[Hc' _]]; subst c.
    + destruct Ou as [O1 O2]. split; [auto|]. intros _. apply O2. lia.
    + split; [auto|]. intros; lia.
Qed.

(* ------------------------------------------------------------------ the notifier alone *)
Definition Nb (n : nat) (tn : thread) (g : sys) : Prop :=
  exists tn', nth_error (thr g) n = Some tn' /\
    ((results tn' = results tn /\ in_body tn' = true /\ cur tn' = cur tn) \/ returned tn tn').

Lemma Nb_step : forall n tn g i go g' e, Inv g -> small g -> Nb n tn g ->
    step code g i go = Some (g', e) -> Nb n tn g'.
Proof.
  intros n tn g i go g' e HI Hsm (tn' & Hn & HP) Es.
  destruct (step_thr _ _ _ _ _ Es) as (t & Ht & Hthr & Hnew).
  destruct (step_live g i go g' e t HI Hsm Ht Es) as (_ & _ & _ & _ & _ & (S1 & S2 & S3 & _) & _).
  destruct (Nat.eq_dec i n) as [En|En].
  - subst i. assert (t = tn') by congruence. subst t. exists (thread_at g' n). split; [auto|].
    destruct HP as [(Rn & Bn & Cn)|Rn]; [|right; eapply returned_grow; eauto].
    destruct S1 as [S1|[v S1]].
    + left. destruct (S2 S1) as (_ & C & _). repeat split; auto; congruence.
    + right. exists [], v. rewrite S1, Rn, Cn. reflexivity.
  - exists tn'. split; [rewrite Hthr, nth_error_upd_other; auto|auto].
Qed.

Lemma Nb_run : forall n tn sched g g' es ok, Inv g -> run_small g sched ->
    run code g sched = (g', es, ok) -> Nb n tn g -> Nb n tn g'.
Proof.
  intros n tn. induction sched as [|[i go] sched IH]; intros g g' es ok HI Hs H HQ; cbn [run] in H.
  - inversion H; subst; auto.
  - cbn [run_small] in Hs. destruct Hs as [Hsm Hs].
    destruct (step code g i go) as [[g1 e]|] eqn:Es; [|inversion H; subst; auto].
    destruct (run code g1 sched) as [[gb es2] ok2] eqn:Er. inversion H; subst.
    apply (IH g1 g' es2 ok); auto; [eapply inv_step; eauto|eapply Nb_step; eauto].
Qed.

(* a notify / notify_all / Event.set that holds the lock has returned None in every state
   without enabled threads *)
Theorem body_returns : forall sched g1 g2 es ok n tn,
    Inv g1 -> Live g1 -> run_small g1 sched -> run code g1 sched = (g2, es, ok) ->
    nth_error (thr g1) n = Some tn -> in_body tn = true -> stuck g2 ->
    exists l, results (thread_at g2 n) = l ++ (cur tn, V_NONE) :: results tn.
Proof.
  intros sched g1 g2 es ok n tn HI HL Hsm Hrun Hn Hb Hst.
  destruct (live_run sched g1 g2 es ok HI HL Hsm Hrun) as [HI2 HL2].
  assert (H1 : Nb n tn g1) by (exists tn; split; [auto|left; auto]).
  destruct (Nb_run n tn sched g1 g2 es ok HI Hsm Hrun H1) as (tn2 & Hn2 & HP).
  destruct (stuck_sleepers g2 HI2 HL2 Hst) as (_ & _ & _ & Hall).
  rewrite (thread_at_nth g2 n tn2 Hn2).
  destruct HP as [(_ & Bn & _)|(l & v & Rn)].
  - exfalso. destruct (in_body_cid tn2 Bn) as (Fn & Hc).
    destruct (Hall tn2 (nth_error_In _ _ Hn2)) as [F|[S|U]]; [congruence| |lia].
    destruct (sleeping_hl tn2 S) as (_ & _ & Hc'). lia.
  - exists l. rewrite <- (thread_at_nth g2 n tn2 Hn2) in Rn.
    pose proof (okres_in g2 n tn l v HI2 Rn) as On. rewrite (thread_at_nth g2 n tn2 Hn2) in Rn.
    destruct (in_body_cid tn Hb) as (_ & Hc). unfold cid in Hc.
    destruct (cur tn) as [[c a0] a1]. cbn [fst] in Hc. cbn [okres] in On.
    destruct Hc as [Hc|[Hc|Hc]]; subst c; rewrite On in Rn; exact Rn.
Qed.

(* ================================================================== transport to the generated programs *)
Definition gstuck (g : sys) : Prop := forall u go, step P_cond.code g u go = None.

Lemma gstuck_eq : forall g, gstuck g <-> stuck g.
Proof. intros g. unfold gstuck, stuck. split; intros H u go; [rewrite <- gstep|rewrite gstep]; apply H. Qed.

Theorem G_inv_live : forall g, Reach g -> Inv g /\ Live g.
Proof. intros g HR. split; [apply reach_inv|apply reach_live]; auto. Qed.

Theorem G_run_bounded : forall sched g g' es ok, Reach g -> M g < 64 * SVM ->
    run P_cond.code g sched = (g', es, ok) ->
    Z.of_nat (length es) + M g' <= M g /\ 0 <= M g' /\ small g'.
Proof.
  intros sched g g' es ok HR HM Hrun. rewrite grun in Hrun.
  destruct (run_bounded sched g g' es ok (reach_inv g HR) HM Hrun) as [HI' Hb].
  pose proof (M_nonneg g' HI'). split; [auto|]. split; [auto|]. apply small_of_M; auto. lia.
Qed.

Theorem G_ack_progress : forall g n tn, Reach g ->
    nth_error (thr g) n = Some tn -> at_ack tn = true ->
    exists u, step P_cond.code g u true <> None.
Proof.
  intros g n tn HR Hn Ha.
  destruct (ack_progress g n tn (reach_inv g HR) (reach_live g HR) Hn Ha) as [u Hu].
  exists u. rewrite gstep. exact Hu.
Qed.

Theorem G_stuck_sleepers : forall g, Reach g -> gstuck g ->
    vv 0 g = 1 /\ vv 3 g = 0 /\ vv 1 g - vv 2 g = sumz t_win (thr g) /\
    forall t, In t (thr g) -> fin t = true \/ sleeping t \/ (7 <= cid t)%nat.
Proof.
  intros g HR Hs. apply stuck_sleepers; [apply reach_inv|apply reach_live|apply gstuck_eq]; auto.
Qed.

Theorem G_reaches_stuck : forall g, Reach g -> M g < 64 * SVM ->
    exists sched g2 es, run P_cond.code g sched = (g2, es, true) /\ gstuck g2.
Proof.
  intros g HR HM. destruct (reaches_stuck g (reach_inv g HR) HM) as (sched & g2 & es & Hr & Hs).
  exists sched, g2, es. rewrite grun. split; [auto|]. apply gstuck_eq; auto.
Qed.

Theorem G_wakes_trace_x : forall sched g1 g2 es ok n j tn tu,
    Reach g1 -> gen_run_small g1 sched -> run P_cond.code g1 sched = (g2, es, ok) -> n <> j ->
    nth_error (thr g1) n = Some tn -> in_nallx tn = true ->
    nth_error (thr g1) j = Some tu -> sleeping_at tu = true -> r0 (rg tu) = 0 ->
    at_end (thread_at g2 n) = true -> results (thread_at g2 n) = results tn ->
    awake_at (thread_at g2 j) = true /\
    cur (thread_at g2 j) = cur tu /\ results (thread_at g2 j) = results tu /\
    (cid tu = 0%nat -> pending (thread_at g2 j) = Some 1) /\
    (cid tn = 4%nat -> aflag g2 = 1).
Proof.
  intros sched g1 g2 es ok n j tn tu HR Hsm Hrun Hnj Hn Hin Hj Hsl Hr0 Hend Hres. rewrite grun in Hrun.
  exact (wakes_trace_x sched g1 g2 es ok n j tn tu (reach_inv g1 HR) (reach_live g1 HR)
           (gen_run_small_eq _ _ Hsm) Hrun Hnj Hn Hin Hj Hsl Hr0 Hend Hres).
Qed.

Theorem G_wakes_uncond_x : forall sched g1 g2 es ok n j tn tu,
    Reach g1 -> M g1 < 64 * SVM -> run P_cond.code g1 sched = (g2, es, ok) -> n <> j ->
    nth_error (thr g1) n = Some tn -> in_nallx tn = true ->
    nth_error (thr g1) j = Some tu -> sleeping_at tu = true -> r0 (rg tu) = 0 ->
    Z.of_nat (length es) <= M g1 /\
    (gstuck g2 ->
     (exists l, results (thread_at g2 n) = l ++ (cur tn, V_NONE) :: results tn) /\
     (exists l v, results (thread_at g2 j) = l ++ (cur tu, v) :: results tu /\
                  (v = 0 \/ v = 1) /\ (cid tu = 0%nat -> v = 1))).
Proof.
  intros sched g1 g2 es ok n j tn tu HR HM Hrun Hnj Hn Hin Hj Hsl Hr0. rewrite grun in Hrun.
  destruct (wakes_uncond_x sched g1 g2 es ok n j tn tu (reach_inv g1 HR) (reach_live g1 HR) HM Hrun
              Hnj Hn Hin Hj Hsl Hr0) as [A B].
  split; [auto|]. intros Hs. apply B. apply gstuck_eq. auto.
Qed.

(* there IS a schedule on which the notify_all / Event.set finishes and EVERY untimed waiter
   that was blocked on the wait semaphore returns (True for Condition.wait) *)
Theorem G_wake_schedule_exists : forall g1 n tn,
    Reach g1 -> M g1 < 64 * SVM -> nth_error (thr g1) n = Some tn -> in_nallx tn = true ->
    exists sched g2 es, run P_cond.code g1 sched = (g2, es, true) /\ gstuck g2 /\
      (exists l, results (thread_at g2 n) = l ++ (cur tn, V_NONE) :: results tn) /\
      forall j tu, n <> j -> nth_error (thr g1) j = Some tu -> sleeping_at tu = true -> r0 (rg tu) = 0 ->
        exists l v, results (thread_at g2 j) = l ++ (cur tu, v) :: results tu /\
                    (v = 0 \/ v = 1) /\ (cid tu = 0%nat -> v = 1).
Proof.
  intros g1 n tn HR HM Hn Hin.
  destruct (G_reaches_stuck g1 HR HM) as (sched & g2 & es & Hrun & Hst).
  exists sched, g2, es. split; [auto|]. split; [auto|].
  pose proof (reach_inv g1 HR) as HI. pose proof (reach_live g1 HR) as HL.
  rewrite grun in Hrun.
  apply gstuck_eq in Hst.
  destruct (in_nallx_facts tn Hin) as [Hb Hc].
  split.
  - apply (body_returns sched g1 g2 es true n tn HI HL (run_small_of_M sched g1 HI HM) Hrun Hn Hb Hst).
  - intros j tu Hnj Hj Hsl Hr0.
    destruct (wakes_uncond_x sched g1 g2 es true n j tn tu HI HL HM Hrun Hnj Hn Hin Hj Hsl Hr0) as [_ B].
    destruct (B Hst) as [_ C]. exact C.
Qed.

Theorem G_notify_one_trace : forall sched g1 g2 es ok n j tn tu,
    Reach g1 -> gen_run_small g1 sched -> run P_cond.code g1 sched = (g2, es, ok) -> n <> j ->
    nth_error (thr g1) n = Some tn -> at_ tn 1 2 = true ->
    nth_error (thr g1) j = Some tu -> sleeping_at tu = true -> r0 (rg tu) = 0 ->
    sumz t_win (thr g1) = 1 ->
    at_ (thread_at g2 n) 1 14 = true -> results (thread_at g2 n) = results tn ->
    awake_at (thread_at g2 j) = true /\
    cur (thread_at g2 j) = cur tu /\ results (thread_at g2 j) = results tu /\
    (cid tu = 0%nat -> pending (thread_at g2 j) = Some 1).
Proof.
  intros sched g1 g2 es ok n j tn tu HR Hsm Hrun Hnj Hn Hat Hj Hsl Hr0 Hsum Hend Hres. rewrite grun in Hrun.
  exact (notify_one_trace sched g1 g2 es ok n j tn tu (reach_inv g1 HR) (reach_live g1 HR)
           (gen_run_small_eq _ _ Hsm) Hrun Hnj Hn Hat Hj Hsl Hr0 Hsum Hend Hres).
Qed.

Theorem G_notify_one_uncond : forall sched g1 g2 es ok n j tn tu,
    Reach g1 -> M g1 < 64 * SVM -> run P_cond.code g1 sched = (g2, es, ok) -> n <> j ->
    nth_error (thr g1) n = Some tn -> at_ tn 1 2 = true ->
    nth_error (thr g1) j = Some tu -> sleeping_at tu = true -> r0 (rg tu) = 0 ->
    sumz t_win (thr g1) = 1 ->
    Z.of_nat (length es) <= M g1 /\
    (gstuck g2 ->
     (exists l, results (thread_at g2 n) = l ++ (cur tn, V_NONE) :: results tn) /\
     (exists l v, results (thread_at g2 j) = l ++ (cur tu, v) :: results tu /\
                  (v = 0 \/ v = 1) /\ (cid tu = 0%nat -> v = 1))).
Proof.
  intros sched g1 g2 es ok n j tn tu HR HM Hrun Hnj Hn Hat Hj Hsl Hr0 Hsum. rewrite grun in Hrun.
  destruct (notify_one_uncond sched g1 g2 es ok n j tn tu (reach_inv g1 HR) (reach_live g1 HR) HM Hrun
              Hnj Hn Hat Hj Hsl Hr0 Hsum) as [A B].
  split; [auto|]. intros Hs. apply B. apply gstuck_eq. auto.
Qed.

(* ------------------------------------------------------------------ non-vacuity *)
(* [ex_state] (Proofs/CondProofs.v): thread 0 an untimed waiter blocked on the wait
   semaphore, thread 1 a timed waiter that gave up and has not acknowledged, thread 2 a
   notify_all standing at its BLOCKING acquire of the woken count.  The hypotheses of the
   progress lemma and of the unconditional theorem hold there, and on the schedule below
   everybody returns: the untimed wait True, the timed-out one False. *)
Definition ex_fin_sched : list (nat * bool) :=
  [(1%nat, true); (2%nat, true); (0%nat, true); (0%nat, true); (2%nat, true); (2%nat, true);
   (2%nat, true); (2%nat, true); (0%nat, true); (0%nat, true); (1%nat, true); (1%nat, true)].
Definition ex_fin_state : sys := fst (fst (run P_cond.code ex_state ex_fin_sched)).

Definition stuckb (g : sys) : bool :=
  forallb (fun u => negb (enabled P_cond.code g u)) (seq 0 (length (thr g))).

Lemma ex_live_witness :
  Reach ex_state /\ M ex_state < 64 * SVM /\
  (exists t, nth_error (thr ex_state) 2 = Some t /\ at_ack t = true /\ in_nallx t = true) /\
  (exists t, nth_error (thr ex_state) 0 = Some t /\ sleeping_at t = true /\ r0 (rg t) = 0) /\
  snd (run P_cond.code ex_state ex_fin_sched) = true /\ stuckb ex_fin_state = true /\
  map results (thr ex_fin_state) =
    [[((0%nat, 0, 0), 1)]; [((0%nat, 1, 0), 0)]; [((2%nat, 0, 0), V_NONE)]].
Proof.
  split; [exact (proj1 ex_witness)|].
  split; [vm_compute; reflexivity|].
  split; [eexists; split; [vm_compute; reflexivity|split; vm_compute; reflexivity]|].
  split; [eexists; split; [vm_compute; reflexivity|split; vm_compute; reflexivity]|].
  split; [vm_compute; reflexivity|]. split; vm_compute; reflexivity.
Qed.

(* notify with exactly one sleeper: the hypotheses of [G_notify_one_trace] are satisfiable and
   its conclusion is the observed one *)
Definition ex1_scripts : list (list call) := [[(0%nat, 0, 0)]; [(1%nat, 0, 0)]].
Definition ex1_sched1 : list (nat * bool) :=
  [(0%nat, true); (0%nat, true); (0%nat, true); (1%nat, true)].
Definition ex1_sched2 : list (nat * bool) :=
  [(1%nat, true); (1%nat, true); (1%nat, true); (1%nat, true); (0%nat, true); (0%nat, true);
   (1%nat, true); (1%nat, true)].
Definition ex1_g1 : sys := fst (fst (run P_cond.code (gen_init true 1 ex1_scripts) ex1_sched1)).
Definition ex1_g2 : sys := fst (fst (run P_cond.code ex1_g1 ex1_sched2)).

Lemma ex1_witness :
  Reach ex1_g1 /\ gen_run_small ex1_g1 ex1_sched2 /\ sumz t_win (thr ex1_g1) = 1 /\
  (exists t, nth_error (thr ex1_g1) 1 = Some t /\ at_ t 1 2 = true) /\
  (exists t, nth_error (thr ex1_g1) 0 = Some t /\ sleeping_at t = true /\ r0 (rg t) = 0) /\
  at_ (thread_at ex1_g2 1) 1 14 = true /\ at_ (thread_at ex1_g2 0) 0 13 = true /\
  pending (thread_at ex1_g2 0) = Some 1.
Proof.
  split.
  - exists true, 1, ex1_scripts, ex1_sched1.
    destruct (run P_cond.code (gen_init true 1 ex1_scripts) ex1_sched1) as [[g es] ok] eqn:E.
    exists es, ok. split; [|split].
    + repeat constructor; unfold okcall; cbn; lia.
    + vm_compute. repeat split.
    + unfold ex1_g1. rewrite E. reflexivity.
  - split; [vm_compute; repeat split|]. split; [vm_compute; reflexivity|].
    split; [eexists; split; vm_compute; reflexivity|].
    split; [eexists; split; [vm_compute; reflexivity|split; vm_compute; reflexivity]|].
    split; [vm_compute; reflexivity|]. split; vm_compute; reflexivity.
Qed.
