(* C14, part 3a: geometry of block lists -- well-formed (inside the arena, aligned,
   non-empty), pairwise disjoint, covering every arena -- and how merging, splitting and
   mapping a new arena act on it. *)
From Coq Require Import ZArith List Bool Lia ZifyBool Permutation.
From BV Require Import Lib.PyVal Model.Heap Proofs.HeapLib Proofs.HeapIdx.
Import ListNotations.
Open Scope Z_scope.

Definition asize (ar : list Z) (a : Z) : option Z :=
  if a <? 0 then None else nth_error ar (Z.to_nat a).

Definition wf (ar : list Z) (b : block) : Prop :=
  exists sz, asize ar (b_arena b) = Some sz /\
             0 <= b_start b /\ b_start b < b_stop b /\ b_stop b <= sz /\
             b_start b mod 8 = 0 /\ b_stop b mod 8 = 0.

Definition disj (x y : block) : Prop :=
  b_arena x <> b_arena y \/ b_stop x <= b_start y \/ b_stop y <= b_start x.

Definition cover (ar : list Z) (L : list block) : Prop :=
  forall a sz x, asize ar a = Some sz -> 0 <= x < sz ->
                 exists b, In b L /\ b_arena b = a /\ b_start b <= x < b_stop b.

Definition coalesced (Fl : list block) : Prop :=
  forall x y, In x Fl -> In y Fl -> b_arena x = b_arena y -> b_stop x <> b_start y.

Record Geo (ar : list Z) (L : list block) : Prop := {
  g_wf : Forall (wf ar) L;
  g_pw : allpairs disj L;
  g_cov : cover ar L }.

Lemma disj_sym x y : disj x y -> disj y x.
Proof. unfold disj. intros [H|[H|H]]; auto. Qed.

Lemma geo_perm ar L L' : Permutation L L' -> Geo ar L -> Geo ar L'.
Proof.
  intros HP [H1 H2 H3]. constructor.
  - eapply Permutation_Forall; eassumption.
  - eapply allpairs_perm; [exact disj_sym|eassumption|assumption].
  - intros a sz x Ha Hx. destruct (H3 a sz x Ha Hx) as [b [Hb Hr]]. exists b. split; [|assumption].
    eapply Permutation_in; eassumption.
Qed.

Lemma geo_nodup ar L : Geo ar L -> NoDup L.
Proof.
  intros [H1 H2 _]. induction L as [|x r IH]; constructor.
  - intros Hin. cbn in H2. destruct H2 as [H2 _]. specialize (H2 x Hin).
    inversion H1 as [|? ? [sz Hw] _]; subst. unfold disj in H2. lia.
  - inversion H1; subst. destruct H2. apply IH; assumption.
Qed.

(* two distinct members are disjoint *)
Lemma geo_disj ar L x y : Geo ar L -> In x L -> In y L -> x <> y -> disj x y.
Proof.
  intros [_ H2 _] Hx Hy Hne.
  destruct (allpairs_in disj disj_sym L x y H2 Hx Hy); [contradiction|assumption].
Qed.

Lemma geo_wf ar L x : Geo ar L -> In x L -> wf ar x.
Proof. intros [H _ _] Hx. rewrite Forall_forall in H. auto. Qed.

(* merging two adjacent members *)
Lemma geo_merge ar x y R :
  Geo ar (x :: y :: R) -> b_arena x = b_arena y -> b_stop x = b_start y ->
  Geo ar ((b_arena x, b_start x, b_stop y) :: R).
Proof.
  intros [H1 H2 H3] Ha Hadj.
  destruct x as [[xa xs] xe], y as [[ya ys] ye]. unfold b_arena, b_start, b_stop in *. cbn [fst snd] in *. subst ya ys.
  inversion H1 as [|? ? [sx Hwx] H1']; subst. inversion H1' as [|? ? [sy Hwy] H1'']; subst.
  unfold b_arena, b_start, b_stop in *. cbn [fst snd] in *.
  destruct Hwx as [Hax Hwx], Hwy as [Hay Hwy]. rewrite Hax in Hay. inversion Hay; subst sy.
  cbn in H2. destruct H2 as [H2x [H2y H2r]].
  constructor.
  - constructor; [|assumption]. exists sx. unfold b_arena, b_start, b_stop. cbn [fst snd]. repeat split; try tauto; try lia.
  - cbn. split; [|assumption]. intros z Hz.
    pose proof (H2x z (or_intror Hz)) as D1. pose proof (H2y z Hz) as D2.
    rewrite Forall_forall in H1''. destruct (H1'' z Hz) as [sz [_ Hwz]].
    unfold disj, b_arena, b_start, b_stop in *. cbn [fst snd] in *. lia.
  - intros a sz p Ha Hp. destruct (H3 a sz p Ha Hp) as [b [Hb [Hba Hbp]]].
    destruct Hb as [<-|[<-|Hb]].
    + eexists. split; [left; reflexivity|]. unfold b_arena, b_start, b_stop in *. cbn [fst snd] in *. split; [assumption|lia].
    + eexists. split; [left; reflexivity|]. unfold b_arena, b_start, b_stop in *. cbn [fst snd] in *. split; [assumption|lia].
    + exists b. split; [right; assumption|auto].
Qed.

(* splitting a member at an aligned interior point *)
Lemma geo_split ar a s e m R :
  Geo ar ((a, s, e) :: R) -> s < m < e -> m mod 8 = 0 ->
  Geo ar ((a, s, m) :: (a, m, e) :: R).
Proof.
  intros [H1 H2 H3] Hm Hal.
  inversion H1 as [|? ? [sz Hw] H1']; subst.
  unfold b_arena, b_start, b_stop in Hw. cbn [fst snd] in Hw.
  cbn in H2. destruct H2 as [H2x H2r].
  constructor.
  - constructor; [|constructor; [|assumption]]; exists sz; unfold b_arena, b_start, b_stop; cbn [fst snd];
      repeat split; try tauto; lia.
  - cbn. split; [|split; [|assumption]].
    + intros z [<-|Hz]; [unfold disj, b_arena, b_start, b_stop; cbn [fst snd]; lia|].
      pose proof (H2x z Hz) as D. unfold disj, b_arena, b_start, b_stop in *. cbn [fst snd] in *. lia.
    + intros z Hz. pose proof (H2x z Hz) as D. unfold disj, b_arena, b_start, b_stop in *. cbn [fst snd] in *. lia.
  - intros a0 sz0 p Ha Hp. destruct (H3 a0 sz0 p Ha Hp) as [b [Hb [Hba Hbp]]].
    destruct Hb as [<-|Hb].
    + unfold b_arena, b_start, b_stop in *. cbn [fst snd] in *.
      destruct (Z_lt_ge_dec p m).
      * exists (a, s, m). split; [left; reflexivity|]. unfold b_arena, b_start, b_stop. cbn [fst snd]. split; [assumption|lia].
      * exists (a, m, e). split; [right; left; reflexivity|]. unfold b_arena, b_start, b_stop. cbn [fst snd]. split; [assumption|lia].
    + exists b. split; [right; right; assumption|auto].
Qed.

Lemma asize_app ar len a sz : asize ar a = Some sz -> asize (ar ++ [len]) a = Some sz.
Proof.
  unfold asize. destruct (a <? 0); [discriminate|]. intros H.
  rewrite nth_error_app1; [assumption|]. apply nth_error_Some. congruence.
Qed.

Lemma asize_lt ar a sz : asize ar a = Some sz -> 0 <= a < Z.of_nat (length ar).
Proof.
  unfold asize. destruct (a <? 0) eqn:E; [discriminate|]. intros H.
  assert (Z.to_nat a < length ar)%nat by (apply nth_error_Some; congruence). lia.
Qed.

Lemma asize_new ar len : asize (ar ++ [len]) (Z.of_nat (length ar)) = Some len.
Proof.
  unfold asize. destruct (Z.of_nat (length ar) <? 0) eqn:E; [lia|].
  rewrite Nat2Z.id, nth_error_app2 by lia. rewrite Nat.sub_diag. reflexivity.
Qed.

Lemma asize_app_inv ar len a sz : asize (ar ++ [len]) a = Some sz ->
  asize ar a = Some sz \/ (a = Z.of_nat (length ar) /\ sz = len).
Proof.
  unfold asize. destruct (a <? 0) eqn:E; [discriminate|]. intros H.
  destruct (Nat.lt_ge_cases (Z.to_nat a) (length ar)) as [Hlt|Hge].
  - rewrite nth_error_app1 in H by assumption. left; assumption.
  - rewrite nth_error_app2 in H by assumption.
    destruct (Z.to_nat a - length ar)%nat as [|k] eqn:Ek; cbn in H.
    + inversion H; subst. right. split; [lia|reflexivity].
    + destruct k; discriminate.
Qed.

(* mapping a new arena: its whole extent is one new member *)
Lemma geo_new_arena ar L len :
  Geo ar L -> 0 < len -> len mod 8 = 0 ->
  Geo (ar ++ [len]) ((Z.of_nat (length ar), 0, len) :: L).
Proof.
  intros [H1 H2 H3] Hlen Hal. constructor.
  - constructor.
    + exists len. unfold b_arena, b_start, b_stop. cbn [fst snd]. split; [apply asize_new|]. repeat split; try lia; try reflexivity; try assumption.
    + rewrite Forall_forall in *. intros x Hx. destruct (H1 x Hx) as [sz [Ha Hr]]. exists sz. split; [apply asize_app; assumption|assumption].
  - cbn. split; [|assumption]. intros z Hz. rewrite Forall_forall in H1. destruct (H1 z Hz) as [sz [Ha _]].
    apply asize_lt in Ha. unfold disj, b_arena in *. cbn [fst snd] in *. lia.
  - intros a sz p Ha Hp. apply asize_app_inv in Ha. destruct Ha as [Ha|[-> ->]].
    + destruct (H3 a sz p Ha Hp) as [b [Hb Hr]]. exists b. split; [right; assumption|assumption].
    + eexists. split; [left; reflexivity|]. unfold b_arena, b_start, b_stop. cbn [fst snd]. split; [reflexivity|lia].
Qed.

(* ---- roundup ---- *)
Lemma roundup_ge n al : 0 < al -> n <= roundup n al.
Proof.
  intros Hal. unfold roundup.
  pose proof (Z.div_mod (n + (al - 1)) al ltac:(lia)) as E.
  pose proof (Z.mod_pos_bound (n + (al - 1)) al Hal). nia.
Qed.

Lemma roundup_mod n al : 0 < al -> roundup n al mod al = 0.
Proof. intros Hal. unfold roundup. apply Z.mod_mul. lia. Qed.

Lemma roundup_mod8 n al : 0 < al -> al mod 8 = 0 -> roundup n al mod 8 = 0.
Proof.
  intros Hal H8. unfold roundup.
  apply Z.mod_divide in H8; [|lia]. destruct H8 as [c ->].
  rewrite Z.mul_assoc. apply Z.mod_mul. lia.
Qed.

Lemma norm_size_props n : 0 <= n -> 0 < norm_size n /\ norm_size n mod 8 = 0 /\ Z.max n 1 <= norm_size n.
Proof.
  intros Hn. unfold norm_size, alignment.
  pose proof (roundup_ge (Z.max n 1) 8 ltac:(lia)).
  pose proof (roundup_mod (Z.max n 1) 8 ltac:(lia)). lia.
Qed.
