From Coq Require Import ZArith List Bool Lia ZifyBool.
From BV Require Import Lib.PyVal Gen.K_worker Model.Worker.
Import ListNotations.
Open Scope Z_scope.

Definition optv (o : option Z) : pv := match o with Some z => PInt z | None => PNone end.

Lemma gen_consts :
  c_ACK = PInt ACK /\ c_READY = PInt READY /\ c_TASK = PInt TASK /\ c_NACK = PInt NACK /\
  c_EX_OK = PInt EX_OK /\ c_EX_FAILURE = PInt EX_FAILURE /\ c_EX_RECYCLE = PInt EX_RECYCLE /\
  c_GUARANTEE_MESSAGE_CONSUMPTION_RETRY_LIMIT = PInt (Z.of_nat RETRY_LIMIT).
Proof. repeat split; reflexivity. Qed.

Lemma gen_loop_guard : forall mt n,
    exists v, K_worker.loop_guard tt (optv mt) (PInt n) = Ok v tt /\ truth v = guard mt n.
Proof.
  intros [m|] n; unfold K_worker.loop_guard, guard; cbn.
  - destruct (m =? 0) eqn:E; cbn; eexists; (split; [reflexivity|]); cbn; rewrite ?E; cbn; lia.
  - eexists. split; reflexivity.
Qed.

Lemma gen_exit_status : forall mt n,
    K_worker.exit_status tt (optv mt) (PInt n) = Ok (PInt (Worker.exit_status mt n)) tt.
Proof.
  intros [m|] n; unfold K_worker.exit_status, Worker.exit_status; cbn; [|reflexivity].
  destruct (m =? 0); cbn; [reflexivity|]. destruct (n =? m); reflexivity.
Qed.

Lemma gen_mem_check : forall maxm used,
    K_worker.mem_check tt (PInt maxm) (PInt used) =
    Ok (if mem_exceeded maxm used then PInt EX_RECYCLE else PNone) tt.
Proof.
  intros maxm used. unfold K_worker.mem_check, mem_exceeded. cbn.
  destruct (maxm >? 0); cbn; [|reflexivity].
  destruct (used <=? 0) eqn:E1; cbn; destruct (used >? 0) eqn:E2; cbn; try lia;
    try reflexivity; destruct (used >? maxm); reflexivity.
Qed.

Lemma gen_syn_decide : forall ty,
    K_worker.syn_decide tt (PInt ty) =
    match Worker.syn_decide ty with
    | Some b => Ok (PBool b) tt
    | None => Exc AssertionError tt
    end.
Proof.
  intros ty. unfold K_worker.syn_decide, Worker.syn_decide. cbn.
  change 3 with NACK. destruct (ty =? NACK); cbn; [reflexivity|].
  change 0 with ACK. destruct (ty =? ACK); reflexivity.
Qed.

Lemma gen_task_check : forall ty,
    K_worker.task_check tt (PInt ty) =
    if task_ok ty then Ok PNone tt else Exc AssertionError tt.
Proof.
  intros ty. unfold K_worker.task_check, task_ok. cbn. change 2 with TASK.
  destruct (ty =? TASK); reflexivity.
Qed.

Lemma gen_pid_default : forall p os,
    K_worker.pid_default tt (optv p) (PInt os) = Ok (PInt (or_default p os)) tt.
Proof.
  intros [p|] os; unfold K_worker.pid_default, or_default; cbn; [|reflexivity].
  destruct (p =? 0); reflexivity.
Qed.

Lemma gen_maxmem_default : forall m,
    K_worker.maxmem_default tt (optv m) = Ok (PInt (or_default m 0)) tt.
Proof.
  intros [m|]; unfold K_worker.maxmem_default, or_default; cbn; [|reflexivity].
  destruct (m =? 0); reflexivity.
Qed.

Lemma gen_do_exit_code : forall (recorded : option Z) (exc : bool),
    K_worker.do_exit_code tt (optv recorded) (if exc then PBool true else PNone) =
    Ok (PInt (Worker.do_exit_code recorded exc)) tt.
Proof. intros [c|] [|]; reflexivity. Qed.

Lemma gen_ensure_test : forall completed value,
    K_worker.ensure_test tt (PInt completed) (PInt value) =
    Ok (PBool (Worker.ensure_test value completed)) tt.
Proof. intros; reflexivity. Qed.

(* ================================================================== *)
(* projections of the loop's result                                      *)
Definition evs (t : list ev * exit * Z) : list ev := fst (fst t).
Definition xit (t : list ev * exit * Z) : exit := snd (fst t).
Definition cnt (t : list ev * exit * Z) : Z := snd t.

Lemma pre_evs l t : evs (pre l t) = l ++ evs t.
Proof. destruct t as [[l' x] n]. reflexivity. Qed.
Lemma pre_xit l t : xit (pre l t) = xit t.
Proof. destruct t as [[l' x] n]. reflexivity. Qed.
Lemma pre_cnt l t : cnt (pre l t) = cnt t.
Proof. destruct t as [[l' x] n]. reflexivity. Qed.

(* one unfolding of the loop, by the shape of the next input *)
Lemma loop_stop c n ins :
  guard (maxtasks c) n = false ->
  loop c n ins = ([], XReturn (Worker.exit_status (maxtasks c) n), n).
Proof. intros G. destruct ins; cbn [loop]; rewrite G; reflexivity. Qed.

Lemma loop_nil c n :
  guard (maxtasks c) n = true -> loop c n [] = ([EInq], XStarved, n).
Proof. intros G. cbn [loop]. rewrite G. reflexivity. Qed.

Lemma loop_cons c n e rest :
  guard (maxtasks c) n = true ->
  loop c n (e :: rest) =
  match protected_receive e with
  | RoExit code => ([EInq], XSysExit code, n)
  | RoNone | RoFalsy => pre [EInq] (loop c n rest)
  | RoMsg q =>
    if negb (task_ok (q_ty q)) then ([EInq], XAssert, n) else
    match fst (syn_result c q) with
    | SynFalse => pre (accept_events c q) (loop c n rest)
    | SynExit code => (accept_events c q, XSysExit code, n)
    | SynAssert => (accept_events c q, XAssert, n)
    | SynStarved => (accept_events c q, XStarved, n)
    | SynTrue =>
      match task_escapes q with
      | Some x => (accept_events c q ++ [ERun (q_job q) (q_i q)], x, n)
      | None =>
        if mem_exceeded (eff_maxmem c) (q_mem q)
        then (accept_events c q ++ exec_events c q, XReturn EX_RECYCLE, n + 1)
        else pre (accept_events c q ++ exec_events c q) (loop c (n + 1) rest)
      end
    end
  end.
Proof. intros G. cbn [loop]. rewrite G. reflexivity. Qed.

(* a tactic: case analysis following one iteration of the loop *)
Ltac loop_cases c n e rest G :=
  rewrite (loop_cons c n e rest G);
  destruct e as [| | | | | | |q]; cbn [protected_receive];
  [ | | | | | | |
    destruct (task_ok (q_ty q)) eqn:Hty; cbn [negb];
    [ destruct (fst (syn_result c q)) as [| |xcode| |] eqn:Hsyn;
      [ destruct (task_escapes q) as [xesc|] eqn:Hesc;
        [ | destruct (mem_exceeded (eff_maxmem c) (q_mem q)) eqn:Hmem ] | | | | ] | ] ].

(* ------------------------------------------------------------------ *)
(* facts about the SYN wait                                              *)
Lemma wait_for_syn_calls l : (1 <= snd (wait_for_syn l))%nat.
Proof.
  induction l as [|e r IH]; cbn [wait_for_syn]; [cbn; lia|].
  destruct (protected_receive e); cbn [snd]; try lia;
    destruct (wait_for_syn r); cbn [snd] in *; lia.
Qed.

Lemma syn_false_has_syn c q :
  fst (syn_result c q) = SynFalse -> has_syn c = true /\ (1 <= snd (syn_result c q))%nat.
Proof.
  unfold syn_result. destruct (has_syn c); cbn [fst snd]; [|discriminate].
  intros _. split; [reflexivity|apply wait_for_syn_calls].
Qed.

Lemma no_syn_confirms c q : has_syn c = false -> syn_result c q = (SynTrue, O).
Proof. unfold syn_result. intros ->. reflexivity. Qed.

(* a refusal after any number of empty polls *)
Lemma wait_for_syn_timeouts k resp :
  wait_for_syn (repeat RTimeout k ++ [RMsg resp]) =
  (match Worker.syn_decide resp with
   | Some true => SynTrue | Some false => SynFalse | None => SynAssert end, S k).
Proof.
  induction k as [|k IH]; cbn [repeat app wait_for_syn protected_receive]; [reflexivity|].
  rewrite IH. reflexivity.
Qed.

(* ------------------------------------------------------------------ *)
(* views                                                                 *)
Lemma proto_app a b : proto (a ++ b) = proto a ++ proto b.
Proof. unfold proto. apply filter_app. Qed.
Lemma proto_repeat_syn k : proto (repeat ESyn k) = [].
Proof. induction k; cbn; auto. Qed.
Lemma puts_app a b : puts (a ++ b) = puts a ++ puts b.
Proof. induction a as [|e a IH]; cbn; [reflexivity|]. destruct e; cbn; rewrite ?IH; reflexivity. Qed.
Lemma runs_app a b : runs (a ++ b) = (runs a + runs b)%nat.
Proof. induction a as [|e a IH]; cbn; [reflexivity|]. destruct e; cbn; rewrite ?IH; reflexivity. Qed.
Lemma runs_repeat_syn k : runs (repeat ESyn k) = O.
Proof. induction k; cbn; auto. Qed.
Lemma puts_repeat_syn k : puts (repeat ESyn k) = [].
Proof. induction k; cbn; auto. Qed.

Definition confirmed (c : cfg) (q : req) : bool :=
  match fst (syn_result c q) with SynTrue => true | _ => false end.

Lemma proto_accept c q : proto (accept_events c q) = [EPut (ack_msg c q)].
Proof. unfold accept_events. rewrite proto_app, proto_repeat_syn. reflexivity. Qed.
Lemma runs_accept c q : runs (accept_events c q) = O.
Proof. unfold accept_events. rewrite runs_app, runs_repeat_syn. reflexivity. Qed.
Lemma puts_accept c q : puts (accept_events c q) = [ack_msg c q].
Proof. unfold accept_events. rewrite puts_app, puts_repeat_syn. reflexivity. Qed.

Lemma proto_exec c q :
  proto (exec_events c q) =
  [ERun (q_job q) (q_i q); EPut (ready_msg c q (final_res (q_beh q)))].
Proof.
  unfold exec_events, ready_events.
  destruct (q_beh q); cbn [first_put_fails final_res];
    destruct (eff_maxmem c >? 0); reflexivity.
Qed.
Lemma runs_exec c q : runs (exec_events c q) = 1%nat.
Proof.
  unfold exec_events, ready_events.
  destruct (first_put_fails (q_beh q)); destruct (eff_maxmem c >? 0); reflexivity.
Qed.
(* exactly one READY per executed job, whatever the task did *)
Lemma puts_exec c q : puts (exec_events c q) = [ready_msg c q (final_res (q_beh q))].
Proof.
  unfold exec_events, ready_events.
  destruct (q_beh q); cbn [first_put_fails final_res];
    destruct (eff_maxmem c >? 0); reflexivity.
Qed.

(* ------------------------------------------------------------------ *)
(* Message grammar                                                       *)
Definition escapes (q : req) : bool :=
  match task_escapes q with Some _ => true | None => false end.
(* jobs that are executed to the end and counted *)
Definition counted (c : cfg) (q : req) : bool := confirmed c q && negb (escapes q).

Definition block (c : cfg) (q : req) : list ev :=
  EPut (ack_msg c q) ::
  (if confirmed c q
   then ERun (q_job q) (q_i q) ::
        (if escapes q then [] else [EPut (ready_msg c q (final_res (q_beh q)))])
   else []).

(* the task messages of an input script, in order *)
Fixpoint tasks (ins : list (rcv req)) : list req :=
  match ins with
  | [] => []
  | RMsg q :: r => if task_ok (q_ty q) then q :: tasks r else tasks r
  | _ :: r => tasks r
  end.

Theorem loop_grammar c : forall ins n, exists k,
    proto (evs (loop c n ins)) = flat_map (block c) (firstn k (tasks ins)) /\
    cnt (loop c n ins) = n + Z.of_nat (length (filter (counted c) (firstn k (tasks ins)))).
Proof.
  induction ins as [|e rest IH]; intros n.
  - exists O. destruct (guard (maxtasks c) n) eqn:G.
    + rewrite loop_nil by exact G. cbn. split; [reflexivity|lia].
    + rewrite loop_stop by exact G. cbn. split; [reflexivity|lia].
  - destruct (guard (maxtasks c) n) eqn:G;
      [|exists O; rewrite loop_stop by exact G; cbn; split; [reflexivity|lia]].
    loop_cases c n e rest G;
      try (exists O; cbn; split; [reflexivity|lia]);
      try (destruct (IH n) as [k [Hp Hc]]; exists k;
           rewrite pre_evs, pre_cnt; cbn [tasks app proto filter is_proto]; split; assumption).
    + (* confirmed, the task's exception leaves the loop *)
      exists 1%nat. cbn [tasks]. rewrite Hty. cbn [firstn flat_map filter].
      unfold evs, cnt. cbn [fst snd]. unfold counted, block, confirmed, escapes.
      rewrite Hsyn, Hesc. rewrite proto_app, proto_accept, app_nil_r. cbn. split; [reflexivity|lia].
    + (* confirmed, memory limit exceeded *)
      exists 1%nat. cbn [tasks]. rewrite Hty. cbn [firstn flat_map filter].
      unfold evs, cnt. cbn [fst snd]. unfold counted, block, confirmed, escapes.
      rewrite Hsyn, Hesc. cbn [andb negb].
      rewrite proto_app, proto_accept, proto_exec, app_nil_r. cbn [length]. split; [reflexivity|lia].
    + (* confirmed, continues *)
      destruct (IH (n + 1)) as [k [Hp Hc]]. exists (S k).
      rewrite pre_evs, pre_cnt. cbn [tasks]. rewrite Hty. cbn [firstn flat_map filter].
      unfold counted at 1, block at 1, confirmed, escapes. rewrite Hsyn, Hesc. cbn [andb negb].
      rewrite !proto_app, proto_accept, proto_exec, Hp. cbn [length].
      split; [reflexivity|]. fold (confirmed c) in *. unfold counted in Hc. unfold counted. lia.
    + (* refused *)
      destruct (IH n) as [k [Hp Hc]]. exists (S k).
      rewrite pre_evs, pre_cnt. cbn [tasks]. rewrite Hty. cbn [firstn flat_map filter].
      unfold counted at 1, block at 1, confirmed. rewrite Hsyn. cbn [andb].
      rewrite proto_app, proto_accept, Hp. split; [reflexivity|exact Hc].
    + exists 1%nat. cbn [tasks]. rewrite Hty. cbn [firstn flat_map filter].
      unfold evs, cnt, counted, block, confirmed. cbn [fst snd]. rewrite Hsyn, proto_accept.
      cbn. split; [reflexivity|lia].
    + exists 1%nat. cbn [tasks]. rewrite Hty. cbn [firstn flat_map filter].
      unfold evs, cnt, counted, block, confirmed. cbn [fst snd]. rewrite Hsyn, proto_accept.
      cbn. split; [reflexivity|lia].
    + exists 1%nat. cbn [tasks]. rewrite Hty. cbn [firstn flat_map filter].
      unfold evs, cnt, counted, block, confirmed. cbn [fst snd]. rewrite Hsyn, proto_accept.
      cbn. split; [reflexivity|lia].
Qed.

(* ------------------------------------------------------------------ *)
(* The protocol monitor accepts every trace of the loop                   *)
Lemma mrun_app s a b :
  mrun s (a ++ b) = match mrun s a with Some s' => mrun s' b | None => None end.
Proof.
  revert s. induction a as [|e a IH]; intros s; cbn [app mrun]; [reflexivity|].
  destruct (mstep s e); [apply IH|reflexivity].
Qed.

Lemma oz_eqb_refl i : oz_eqb i i = true.
Proof. destruct i; cbn; [apply Z.eqb_refl|reflexivity]. Qed.

(* states in which the next wait_for_job call is legal *)
Definition pollable (s : mstate) : Prop :=
  s = MIdle \/ s = MDone \/ s = MPolled \/ exists j i, s = MAcked j i true.

Lemma pollable_inq s : pollable s -> mstep s EInq = Some MPolled.
Proof. intros [->|[->|[->|[j [i ->]]]]]; reflexivity. Qed.

Lemma mrun_syns j i b k :
  mrun (MAcked j i b) (repeat ESyn k) = Some (MAcked j i (b || (0 <? Z.of_nat k))).
Proof.
  revert b. induction k as [|k IH]; intros b.
  - cbn. rewrite orb_false_r. reflexivity.
  - replace (0 <? Z.of_nat (S k)) with true by lia. rewrite orb_true_r.
    destruct b; cbn [repeat mrun mstep]; rewrite IH; reflexivity.
Qed.

Lemma mrun_accept c q s :
  pollable s ->
  mrun s (accept_events c q) =
  Some (MAcked (q_job q) (q_i q) (0 <? Z.of_nat (snd (syn_result c q)))).
Proof.
  intros P. unfold accept_events. rewrite mrun_app.
  cbn [mrun]. rewrite (pollable_inq s P). cbn [mstep ack_msg m_pl m_ty m_job m_i].
  rewrite Z.eqb_refl. rewrite mrun_syns. reflexivity.
Qed.

Lemma mrun_exec c q b :
  exists s', mrun (MAcked (q_job q) (q_i q) b) (exec_events c q) = Some s' /\ pollable s'.
Proof.
  unfold exec_events, ready_events.
  destruct (first_put_fails (q_beh q)); destruct (eff_maxmem c >? 0); destruct b;
    repeat (progress (cbn [app mrun mstep ready_msg m_pl m_ty m_job m_i andb];
                      rewrite ?Z.eqb_refl, ?oz_eqb_refl));
    eexists; (split; [reflexivity|unfold pollable; auto]).
Qed.

Theorem loop_monitored c : forall ins n s,
    pollable s -> exists s', mrun s (evs (loop c n ins)) = Some s'.
Proof.
  induction ins as [|e rest IH]; intros n s P.
  - destruct (guard (maxtasks c) n) eqn:G.
    + rewrite loop_nil by exact G. cbn. rewrite (pollable_inq s P). eauto.
    + rewrite loop_stop by exact G. cbn. eauto.
  - destruct (guard (maxtasks c) n) eqn:G;
      [|rewrite loop_stop by exact G; cbn; eauto].
    assert (Hone : exists s', mrun s [EInq] = Some s')
      by (cbn; rewrite (pollable_inq s P); eauto).
    assert (Hskip : exists s', mrun s (evs (pre [EInq] (loop c n rest))) = Some s').
    { rewrite pre_evs, mrun_app. cbn [mrun]. rewrite (pollable_inq s P).
      apply IH. unfold pollable; auto. }
    loop_cases c n e rest G; try exact Hone; try exact Hskip.
    + unfold evs; cbn [fst]. rewrite mrun_app, (mrun_accept c q s P).
      destruct (0 <? Z.of_nat (snd (syn_result c q))); cbn [mrun mstep];
        rewrite Z.eqb_refl, oz_eqb_refl; cbn; eauto.
    + unfold evs; cbn [fst]. rewrite mrun_app, (mrun_accept c q s P).
      destruct (mrun_exec c q (0 <? Z.of_nat (snd (syn_result c q)))) as [s' [E _]].
      rewrite E. eauto.
    + rewrite pre_evs. rewrite !mrun_app, (mrun_accept c q s P).
      destruct (mrun_exec c q (0 <? Z.of_nat (snd (syn_result c q)))) as [s' [E P']].
      rewrite E. apply IH. exact P'.
    + rewrite pre_evs. rewrite mrun_app, (mrun_accept c q s P).
      destruct (syn_false_has_syn c q Hsyn) as [_ Hn].
      replace (0 <? Z.of_nat (snd (syn_result c q))) with true by lia.
      apply IH. unfold pollable. eauto 6.
    + unfold evs; cbn [fst]. rewrite (mrun_accept c q s P). eauto.
    + unfold evs; cbn [fst]. rewrite (mrun_accept c q s P). eauto.
    + unfold evs; cbn [fst]. rewrite (mrun_accept c q s P). eauto.
Qed.

Corollary workloop_monitored c ins n : monitor (evs (loop c n ins)) = true.
Proof.
  unfold monitor. destruct (loop_monitored c ins n MIdle) as [s' E]; [unfold pollable; auto|].
  rewrite E. reflexivity.
Qed.

(* ------------------------------------------------------------------ *)
(* A refused job: no execution, no oracle consulted, quota untouched      *)

(* one iteration on a task message that is not confirmed by a NACK *)
Theorem nack_step c n q rest :
  guard (maxtasks c) n = true -> task_ok (q_ty q) = true ->
  fst (syn_result c q) = SynFalse ->
  loop c n (RMsg q :: rest) = pre (accept_events c q) (loop c n rest).
Proof.
  intros G Hty Hsyn. rewrite (loop_cons c n _ rest G). cbn [protected_receive].
  rewrite Hty, Hsyn. reflexivity.
Qed.

(* two requests that differ at most in the oracles of the execution phase *)
Definition same_request (q q' : req) : Prop :=
  q_ty q = q_ty q' /\ q_job q = q_job q' /\ q_i q = q_i q' /\ q_t q = q_t q' /\
  q_syn q = q_syn q'.

Lemma same_request_accept c q q' :
  same_request q q' ->
  syn_result c q = syn_result c q' /\ accept_events c q = accept_events c q'.
Proof.
  intros (Hty & Hj & Hi & Ht & Hs).
  assert (E : syn_result c q = syn_result c q') by (unfold syn_result; rewrite Hs; reflexivity).
  split; [exact E|]. unfold accept_events, ack_msg. rewrite E, Hj, Hi, Ht. reflexivity.
Qed.

(* whatever the task would have done, and whatever mem_rss() would have said: if the
   job is not confirmed the whole run of the worker is the same *)
Theorem unconfirmed_oracles_irrelevant c : forall front n q q' rest,
    same_request q q' -> confirmed c q = false ->
    loop c n (front ++ RMsg q :: rest) = loop c n (front ++ RMsg q' :: rest).
Proof.
  induction front as [|e front IH]; intros n q q' rest Hs Hc.
  - cbn [app]. destruct (guard (maxtasks c) n) eqn:G;
      [|rewrite !loop_stop by exact G; reflexivity].
    rewrite !(loop_cons c n _ rest G). cbn [protected_receive].
    destruct (same_request_accept c q q' Hs) as [E1 E2].
    destruct Hs as (Hty & _). rewrite <- Hty, <- E1, <- E2.
    unfold confirmed in Hc.
    destruct (negb (task_ok (q_ty q))); [reflexivity|].
    destruct (fst (syn_result c q)); try reflexivity. discriminate.
  - cbn [app]. destruct (guard (maxtasks c) n) eqn:G;
      [|rewrite !loop_stop by exact G; reflexivity].
    rewrite !(loop_cons c n e _ G).
    destruct (protected_receive e) as [| |q0|code]; try reflexivity;
      try (rewrite (IH n q q' rest Hs Hc); reflexivity).
    destruct (negb (task_ok (q_ty q0))); [reflexivity|].
    destruct (fst (syn_result c q0)); try reflexivity;
      try (rewrite (IH n q q' rest Hs Hc); reflexivity).
    destruct (mem_exceeded (eff_maxmem c) (q_mem q0)); [reflexivity|].
    rewrite (IH (n + 1) q q' rest Hs Hc). reflexivity.
Qed.

(* ------------------------------------------------------------------ *)
(* Quota                                                                 *)
(* executions that were cut short by a termination request: at most the last one *)
Definition cut_short (x : exit) : Z :=
  match x with XTaskExc _ _ | XTerminated _ => 1 | _ => 0 end.

Lemma task_escapes_kind q x : task_escapes q = Some x -> cut_short x = 1.
Proof.
  unfold task_escapes. destruct (q_beh q); try discriminate;
    try (destruct (q_term q); [|discriminate]); intros E; inversion E; reflexivity.
Qed.

Lemma loop_cnt_runs c : forall ins n,
    cnt (loop c n ins) + cut_short (xit (loop c n ins)) =
    n + Z.of_nat (runs (evs (loop c n ins))).
Proof.
  induction ins as [|e rest IH]; intros n.
  - destruct (guard (maxtasks c) n) eqn:G;
      [rewrite loop_nil by exact G|rewrite loop_stop by exact G]; cbn; lia.
  - destruct (guard (maxtasks c) n) eqn:G;
      [|rewrite loop_stop by exact G; cbn; lia].
    loop_cases c n e rest G;
      rewrite ?pre_evs, ?pre_cnt, ?pre_xit, ?runs_app, ?runs_accept; unfold evs, cnt, xit; cbn [fst snd];
      rewrite ?runs_app, ?runs_accept, ?runs_exec; try (cbn; lia);
      try (specialize (IH n); unfold evs, cnt, xit in IH; cbn [runs]; lia).
    + rewrite (task_escapes_kind q xesc Hesc). cbn. lia.
    + specialize (IH (n + 1)); unfold evs, cnt, xit in IH. lia.
Qed.

Ltac esc_absurd H :=
  let E := fresh "E" in
  intros E; rewrite E in H; apply task_escapes_kind in H; discriminate H.

Lemma guard_quota N n : 1 <= N -> guard (Some N) n = (n <? N).
Proof. intros H. unfold guard. replace (N =? 0) with false by lia. reflexivity. Qed.

Lemma loop_cnt_bounds c N : maxtasks c = Some N -> 1 <= N ->
  forall ins n, n <= N -> n <= cnt (loop c n ins) <= N.
Proof.
  intros HN H1. induction ins as [|e rest IH]; intros n Hn.
  - destruct (guard (maxtasks c) n) eqn:G;
      [rewrite loop_nil by exact G|rewrite loop_stop by exact G]; cbn; lia.
  - destruct (guard (maxtasks c) n) eqn:G;
      [|rewrite loop_stop by exact G; cbn; lia].
    assert (Hlt : n < N) by (rewrite HN, guard_quota in G by exact H1; lia).
    loop_cases c n e rest G; rewrite ?pre_cnt; unfold cnt; cbn [snd];
      try lia; try (specialize (IH n Hn); unfold cnt in IH; lia).
    specialize (IH (n + 1) ltac:(lia)); unfold cnt in IH. lia.
Qed.

(* with a valid quota the loop can only return EX_RECYCLE *)
Lemma quota_return_code c N : maxtasks c = Some N -> 1 <= N ->
  forall ins n code, n <= N -> xit (loop c n ins) = XReturn code -> code = EX_RECYCLE.
Proof.
  intros HN H1. induction ins as [|e rest IH]; intros n code Hn.
  - destruct (guard (maxtasks c) n) eqn:G.
    + rewrite loop_nil by exact G. cbn. discriminate.
    + rewrite loop_stop by exact G. cbn. rewrite HN in *. rewrite guard_quota in G by exact H1.
      intros E; inversion E. unfold Worker.exit_status.
      replace (N =? 0) with false by lia. replace (n =? N) with true by lia. reflexivity.
  - destruct (guard (maxtasks c) n) eqn:G.
    + assert (Hlt : n < N) by (rewrite HN, guard_quota in G by exact H1; lia).
      loop_cases c n e rest G; rewrite ?pre_xit; unfold xit at 1; cbn [fst snd];
        try discriminate; try (apply IH; lia).
      * esc_absurd Hesc.
      * intros E; inversion E; reflexivity.
    + rewrite loop_stop by exact G. cbn. rewrite HN in *. rewrite guard_quota in G by exact H1.
      intros E; inversion E. unfold Worker.exit_status.
      replace (N =? 0) with false by lia. replace (n =? N) with true by lia. reflexivity.
Qed.

(* reaching the quota ends the loop with EX_RECYCLE *)
Lemma quota_full_recycles c N : maxtasks c = Some N -> 1 <= N ->
  forall ins n, n <= N -> cnt (loop c n ins) = N -> xit (loop c n ins) = XReturn EX_RECYCLE.
Proof.
  intros HN H1. induction ins as [|e rest IH]; intros n Hn.
  - destruct (guard (maxtasks c) n) eqn:G.
    + rewrite loop_nil by exact G. cbn. rewrite HN, guard_quota in G by exact H1. lia.
    + rewrite loop_stop by exact G. cbn. rewrite HN in *. rewrite guard_quota in G by exact H1.
      intros _. unfold Worker.exit_status.
      replace (N =? 0) with false by lia. replace (n =? N) with true by lia. reflexivity.
  - destruct (guard (maxtasks c) n) eqn:G.
    + assert (Hlt : n < N) by (rewrite HN, guard_quota in G by exact H1; lia).
      loop_cases c n e rest G; rewrite ?pre_xit, ?pre_cnt; unfold xit at 1, cnt at 1; cbn [fst snd];
        try lia; try (apply IH; lia); reflexivity.
    + rewrite loop_stop by exact G. cbn. rewrite HN in *. rewrite guard_quota in G by exact H1.
      intros _. unfold Worker.exit_status.
      replace (N =? 0) with false by lia. replace (n =? N) with true by lia. reflexivity.
Qed.

(* with the memory limit disabled a return means the quota was reached *)
Lemma return_means_quota c : eff_maxmem c <= 0 ->
  forall ins n code, xit (loop c n ins) = XReturn code ->
                     guard (maxtasks c) (cnt (loop c n ins)) = false.
Proof.
  intros HM. assert (Hoff : forall u, mem_exceeded (eff_maxmem c) u = false)
    by (intros u; unfold mem_exceeded; replace (eff_maxmem c >? 0) with false by lia; reflexivity).
  induction ins as [|e rest IH]; intros n code.
  - destruct (guard (maxtasks c) n) eqn:G.
    + rewrite loop_nil by exact G. cbn. discriminate.
    + rewrite loop_stop by exact G. cbn. intros _. exact G.
  - destruct (guard (maxtasks c) n) eqn:G.
    + loop_cases c n e rest G; rewrite ?pre_xit, ?pre_cnt; unfold xit at 1; cbn [fst snd];
        try discriminate; try (apply IH).
      * esc_absurd Hesc.
      * rewrite Hoff in Hmem. discriminate.
    + rewrite loop_stop by exact G. cbn. intros _. exact G.
Qed.

Theorem quota_iff c N ins :
  maxtasks c = Some N -> 1 <= N -> eff_maxmem c <= 0 ->
  (cnt (loop c 0 ins) = N <-> xit (loop c 0 ins) = XReturn EX_RECYCLE).
Proof.
  intros HN H1 HM. split.
  - apply (quota_full_recycles c N HN H1); lia.
  - intros E. pose proof (return_means_quota c HM ins 0 _ E) as G.
    pose proof (loop_cnt_bounds c N HN H1 ins 0 ltac:(lia)) as B.
    rewrite HN, guard_quota in G by exact H1. lia.
Qed.

(* without a quota (and without a memory limit) the loop never returns: it can only be
   left by SystemExit from a receive, by an AssertionError, or keep polling *)
Theorem no_quota_never_returns c ins n code :
  maxtasks c = None -> eff_maxmem c <= 0 -> xit (loop c n ins) <> XReturn code.
Proof.
  intros HN HM E. pose proof (return_means_quota c HM ins n code E) as G.
  rewrite HN in G. discriminate.
Qed.

(* a return caused by anything but the quota is the memory limit: status EX_RECYCLE,
   directly after a mem_rss() reading, and never when the limit is off *)
Theorem return_code_cases c : forall ins n code,
    xit (loop c n ins) = XReturn code ->
    (guard (maxtasks c) (cnt (loop c n ins)) = false /\
     code = Worker.exit_status (maxtasks c) (cnt (loop c n ins)))
    \/ (code = EX_RECYCLE /\ eff_maxmem c > 0 /\
        exists l, evs (loop c n ins) = l ++ [EMem]).
Proof.
  induction ins as [|e rest IH]; intros n code.
  - destruct (guard (maxtasks c) n) eqn:G.
    + rewrite loop_nil by exact G. cbn. discriminate.
    + rewrite loop_stop by exact G. cbn. intros E; inversion E. left. auto.
  - destruct (guard (maxtasks c) n) eqn:G.
    + loop_cases c n e rest G; rewrite ?pre_xit, ?pre_cnt, ?pre_evs; unfold xit at 1; cbn [fst snd];
        try discriminate;
        try (intros E; destruct (IH _ _ E) as [L|(R1 & R2 & l & R3)]; [left; exact L|right];
             split; [exact R1|split; [exact R2|]]; rewrite R3; eexists; rewrite app_assoc; reflexivity).
      * esc_absurd Hesc.
      * intros E; inversion E. right. split; [reflexivity|].
        unfold mem_exceeded in Hmem. split; [lia|].
        unfold evs, exec_events; cbn [fst]. replace (eff_maxmem c >? 0) with true by lia.
        exists (accept_events c q ++ ERun (q_job q) (q_i q) :: ready_events c q).
        rewrite <- app_assoc. reflexivity.
    + rewrite loop_stop by exact G. cbn. intros E; inversion E. left. auto.
Qed.

(* `return EX_OK` is dead code for every quota the constructor accepts *)
Theorem return_ok_only_quota_zero c ins :
  xit (loop c 0 ins) = XReturn EX_OK -> maxtasks c = Some 0.
Proof.
  intros E. destruct (return_code_cases c ins 0 _ E) as [[G H]|[H _]]; [|discriminate].
  pose proof (loop_cnt_runs c ins 0) as R.
  unfold Worker.exit_status in H. destruct (maxtasks c) as [m|] eqn:HM; [|discriminate].
  destruct (m =? 0) eqn:E0; [f_equal; lia|].
  destruct (cnt (loop c 0 ins) =? m); discriminate.
Qed.

(* `EX_FAILURE` is returned only for a negative quota *)
Theorem return_failure_only_negative_quota c ins :
  xit (loop c 0 ins) = XReturn EX_FAILURE -> exists m, maxtasks c = Some m /\ m < 0.
Proof.
  intros E. destruct (return_code_cases c ins 0 _ E) as [[G H]|[H _]]; [|discriminate].
  unfold Worker.exit_status in H. destruct (maxtasks c) as [m|] eqn:HM; [|discriminate].
  exists m. split; [reflexivity|].
  destruct (m =? 0) eqn:E0; [discriminate|].
  destruct (Z_lt_le_dec m 0) as [L|L]; [exact L|exfalso].
  assert (H1 : 1 <= m) by lia.
  pose proof (loop_cnt_bounds c m HM H1 ins 0 ltac:(lia)) as B.
  rewrite guard_quota in G by exact H1.
  replace (cnt (loop c 0 ins) =? m) with true in H by lia. discriminate.
Qed.

(* ------------------------------------------------------------------ *)
(* One executed job, whatever it does                                    *)
Theorem exec_step c n q rest :
  guard (maxtasks c) n = true -> task_ok (q_ty q) = true -> confirmed c q = true ->
  task_escapes q = None ->
  mem_exceeded (eff_maxmem c) (q_mem q) = false ->
  loop c n (RMsg q :: rest) =
  pre (accept_events c q ++ exec_events c q) (loop c (n + 1) rest).
Proof.
  intros G Hty Hc He Hm. rewrite (loop_cons c n _ rest G). cbn [protected_receive].
  rewrite Hty. cbn [negb]. unfold confirmed in Hc.
  destruct (fst (syn_result c q)); try discriminate. rewrite He, Hm. reflexivity.
Qed.

(* a termination request during the task (the handler's SystemExit, or any exception raised
   while common._should_have_exited is set): the exception leaves workloop right after the
   execution started -- no READY, not counted, no further job taken *)
Theorem terminated_step c n q rest x :
  guard (maxtasks c) n = true -> task_ok (q_ty q) = true -> confirmed c q = true ->
  task_escapes q = Some x ->
  loop c n (RMsg q :: rest) = (accept_events c q ++ [ERun (q_job q) (q_i q)], x, n).
Proof.
  intros G Hty Hc He. rewrite (loop_cons c n _ rest G). cbn [protected_receive].
  rewrite Hty. cbn [negb]. unfold confirmed in Hc.
  destruct (fst (syn_result c q)); try discriminate. rewrite He. reflexivity.
Qed.

(* whole-run form, every input script / quota / configuration: whenever workloop is left by
   an exception of the task (termination handler, or raise while the flag is set), the trace
   ENDS with that job's ACK, SYN polls and the start of its execution: no READY for it, no
   further job taken (no poll of the job pipe), and the job is a confirmed task message of
   the script whose oracle says so *)
Theorem termination_ends_trace c : forall ins n,
    cut_short (xit (loop c n ins)) = 1 ->
    exists l q, In (RMsg q) ins /\ confirmed c q = true /\
                task_escapes q = Some (xit (loop c n ins)) /\
                evs (loop c n ins) = l ++ accept_events c q ++ [ERun (q_job q) (q_i q)].
Proof.
  induction ins as [|e rest IH]; intros n.
  - destruct (guard (maxtasks c) n) eqn:G;
      [rewrite loop_nil by exact G|rewrite loop_stop by exact G]; cbn; discriminate.
  - destruct (guard (maxtasks c) n) eqn:G;
      [|rewrite loop_stop by exact G; cbn; discriminate].
    loop_cases c n e rest G; rewrite ?pre_xit, ?pre_evs; try (cbn; discriminate);
      try (intros H; destruct (IH _ H) as (l & q0 & Hin & Hc & He & Hev);
           eexists; exists q0; split; [right; exact Hin|split; [exact Hc|split; [exact He|]]];
           rewrite Hev, app_assoc; reflexivity).
    intros _. exists [], q. unfold xit, evs; cbn [fst snd app].
    split; [left; reflexivity|]. split; [unfold confirmed; rewrite Hsyn; reflexivity|].
    split; [exact Hesc|reflexivity].
Qed.

(* ... and such a run counts only the jobs executed to the end *)
Corollary termination_not_counted c ins n :
  cut_short (xit (loop c n ins)) = 1 ->
  cnt (loop c n ins) = n + Z.of_nat (runs (evs (loop c n ins))) - 1.
Proof. intros H. pose proof (loop_cnt_runs c ins n) as R. lia. Qed.

(* without a termination request nothing the task raises leaves the loop *)
Theorem no_termination_no_escape q :
  q_term q = false -> (forall code, q_beh q <> Terminated code) -> task_escapes q = None.
Proof.
  intros Ht Hb. unfold task_escapes. destruct (q_beh q); rewrite ?Ht; try reflexivity.
  exfalso. eapply Hb. reflexivity.
Qed.

(* once the termination handler has run (the flag is set), WHATEVER the task's cleanup code turns
   the interruption into -- an Exception of its own, a BaseException, one that cannot even be
   pickled -- leaves the loop: nothing is reported as a task failure, no further job is taken *)
Definition task_raises (b : beh) : bool :=
  match b with Raises _ | RaisesUnser _ | RaisesBase _ | Terminated _ => true | Returns _ | ReturnsUnser => false end.

Theorem converted_interruption_still_exits c n q rest :
  guard (maxtasks c) n = true -> task_ok (q_ty q) = true -> confirmed c q = true ->
  q_term q = true -> task_raises (q_beh q) = true ->
  exists x, cut_short x = 1 /\ loop c n (RMsg q :: rest) = (accept_events c q ++ [ERun (q_job q) (q_i q)], x, n).
Proof.
  intros G Hty Hc Ht Hr.
  assert (He : exists x, task_escapes q = Some x).
  { unfold task_escapes. destruct (q_beh q); cbn in Hr; try discriminate; rewrite ?Ht; eexists; reflexivity. }
  destruct He as (x & He). exists x. split; [eapply task_escapes_kind; exact He|].
  apply terminated_step; assumption.
Qed.

(* an unserialisable result: one failed put, then exactly one READY carrying the
   encoding error for the same job, and the loop goes on with the job counted *)
Theorem unserialisable_step c n q rest :
  guard (maxtasks c) n = true -> task_ok (q_ty q) = true -> confirmed c q = true ->
  task_escapes q = None ->
  mem_exceeded (eff_maxmem c) (q_mem q) = false ->
  first_put_fails (q_beh q) = true ->
  loop c n (RMsg q :: rest) =
  pre (accept_events c q ++
       [ERun (q_job q) (q_i q); EPutFail (q_job q) (q_i q);
        EPut (mk_msg READY (q_job q) (q_i q) (PReadyP REnc (inqfd c)))] ++
       (if eff_maxmem c >? 0 then [EMem] else []))
      (loop c (n + 1) rest).
Proof.
  intros G Hty Hc He Hm Hf. rewrite (exec_step c n q rest G Hty Hc He Hm).
  unfold exec_events, ready_events. rewrite Hf. reflexivity.
Qed.

(* ------------------------------------------------------------------ *)
(* _ensure_messages_consumed                                             *)
Definition reading (rd : list Z) (dflt : Z) (k : nat) : Z := nth k rd dflt.

Lemma reading_0 rd d : reading rd d 0 = hd d rd.
Proof. destruct rd; reflexivity. Qed.
Lemma reading_S rd d k : reading rd d (S k) = reading (tl rd) d k.
Proof. destruct rd; cbn; [destruct k; reflexivity|reflexivity]. Qed.

Lemma ensure_loop_spec : forall fuel rd d n b r s,
    ensure_loop fuel rd d n = (b, r, s) ->
    (b = true -> (s < fuel)%nat /\ r = S s /\ reading rd d s >= n /\
                 forall k, (k < s)%nat -> reading rd d k < n) /\
    (b = false -> r = fuel /\ s = fuel /\ forall k, (k < fuel)%nat -> reading rd d k < n).
Proof.
  induction fuel as [|f IH]; intros rd d n b r s E; cbn [ensure_loop] in E.
  - inversion E; subst. split; [discriminate|]. intros _. repeat split; intros; lia.
  - unfold Worker.ensure_test in E. destruct (hd d rd >=? n) eqn:T.
    + inversion E; subst. split; [|discriminate]. intros _.
      rewrite reading_0. repeat split; try lia.
    + destruct (ensure_loop f (tl rd) d n) as [[b' r'] s'] eqn:E'.
      inversion E; subst. destruct (IH _ _ _ _ _ _ E') as [HT HF]. split.
      * intros Hb. destruct (HT Hb) as (A & B & C & D). rewrite reading_S.
        repeat split; try lia. intros k Hk. destruct k as [|k].
        -- rewrite reading_0. lia.
        -- rewrite reading_S. apply D. lia.
      * intros Hb. destruct (HF Hb) as (A & B & C).
        repeat split; try lia. intros k Hk. destruct k as [|k].
        -- rewrite reading_0. lia.
        -- rewrite reading_S. apply C. lia.
Qed.

(* True iff the counter reaches [completed] at one of the first 300 readings *)
Theorem ensure_true_iff rd d n :
  fst (fst (ensure (Some (rd, d)) n)) = true <->
  exists k, (k < RETRY_LIMIT)%nat /\ reading rd d k >= n.
Proof.
  unfold ensure. destruct (ensure_loop RETRY_LIMIT rd d n) as [[b r] s] eqn:E.
  destruct (ensure_loop_spec _ _ _ _ _ _ _ E) as [HT HF]. cbn [fst]. split.
  - intros Hb. destruct (HT Hb) as (A & B & C & D). exists s. split; assumption.
  - intros [k [Hk Hr]]. destruct b; [reflexivity|].
    destruct (HF eq_refl) as (_ & _ & C). specialize (C k Hk). lia.
Qed.

(* how long it polls: it sleeps exactly until the first sufficient reading, or 300 times *)
Theorem ensure_polls rd d n b r s :
  ensure (Some (rd, d)) n = (b, r, s) ->
  (b = true -> r = S s /\ reading rd d s >= n /\ forall k, (k < s)%nat -> reading rd d k < n) /\
  (b = false -> r = RETRY_LIMIT /\ s = RETRY_LIMIT).
Proof.
  unfold ensure. intros E. destruct (ensure_loop_spec _ _ _ _ _ _ _ E) as [HT HF]. split.
  - intros Hb. destruct (HT Hb) as (A & B & C & D). auto.
  - intros Hb. destruct (HF Hb) as (A & B & C). auto.
Qed.

Theorem ensure_without_counter n : ensure None n = (false, O, O).
Proof. reflexivity. Qed.

(* ================================================================== *)
(* Parent side                                                          *)
Definition pouts (t : ar * list pout) : list pout := snd t.
Definition pstate (t : ar * list pout) : ar := fst t.

Lemma p_run_cons pc s e r :
  p_run pc s (e :: r) =
  (fst (p_run pc (fst (p_step pc s e)) r),
   snd (p_step pc s e) ++ snd (p_run pc (fst (p_step pc s e)) r)).
Proof.
  cbn [p_run]. destruct (p_step pc s e) as [s1 o1]. cbn [fst snd].
  destruct (p_run pc s1 r) as [s2 o2]. reflexivity.
Qed.

Lemma accept_first_true l : accept_first true l = true.
Proof. induction l as [|o l IH]; cbn; [reflexivity|]. destruct o; cbn; auto. Qed.

Lemma accept_first_app_nocb seen a b :
  (forall o, In o a -> match o with OCbAccept _ _ | OCbResult _ | OCbError _ => False | _ => True end) ->
  accept_first seen (a ++ b) = accept_first seen b.
Proof.
  induction a as [|o a IH]; intros H; cbn [app]; [reflexivity|].
  pose proof (H o (or_introl eq_refl)) as Ho.
  assert (Hr : forall o', In o' a -> match o' with OCbAccept _ _ | OCbResult _ | OCbError _ => False | _ => True end)
    by (intros o' Hi; apply H; right; exact Hi).
  destruct o; cbn [accept_first]; try contradiction; apply IH; exact Hr.
Qed.

(* a job that is not in the cache produces no callback at all *)
Lemma not_cached_silent pc : forall l s seen,
    in_cache s = false ->
    accept_first seen (snd (p_run pc s l)) = true /\ in_cache (fst (p_run pc s l)) = false
    /\ worker_pid (fst (p_run pc s l)) = worker_pid s.
Proof.
  induction l as [|e l IH]; intros s seen Hc; [cbn; auto|].
  rewrite p_run_cons. cbn [fst snd].
  destruct e as [i t pid fd r lc|i ok v|]; cbn [p_step].
  - unfold p_ack. rewrite Hc. cbn [negb fst snd app accept_first].
    apply IH. exact Hc.
  - unfold p_set. rewrite Hc. cbn [negb fst snd app accept_first].
    apply IH. exact Hc.
  - cbn [fst snd app accept_first].
    destruct (IH (mk_ar (accepted s) true (worker_pid s) (time_accepted s) (is_ready s) (in_cache s)) seen Hc)
      as (A & B & C). auto.
Qed.

(* the stream seen by the parent starts with an ACK; cancellations before it are allowed
   only when [cancel_ok] *)
Fixpoint ack_first (cancel_ok : bool) (l : list pev) : bool :=
  match l with
  | [] => true
  | PCancel :: r => cancel_ok && ack_first cancel_ok r
  | PAck _ _ _ _ _ _ :: _ => true
  | PReady _ _ _ :: _ => false
  end.

(* Accept before result.  For every event list in which no READY precedes the first ACK
   (pipe order) and -- when the handshake is enabled -- no cancellation precedes it, the
   accept callback runs before any result or error callback. *)
Theorem parent_accept_before_result pc : has_accept_cb pc = true ->
  forall l s,
    (cancelled s = false \/ has_send_ack pc = false) ->
    ack_first (negb (has_send_ack pc)) l = true ->
    accept_first false (snd (p_run pc s l)) = true.
Proof.
  intros Hcb. induction l as [|e l IH]; intros s Hs Hl; [reflexivity|].
  rewrite p_run_cons. cbn [snd].
  destruct e as [i t pid fd r lc|i ok v|]; cbn [ack_first] in Hl; [| discriminate |].
  - cbn [p_step]. unfold p_ack. destruct (in_cache s) eqn:Hc; cbn [negb].
    + assert (Hn : cancelled s && has_send_ack pc = false)
        by (destruct Hs as [-> | ->]; [reflexivity|apply andb_false_r]).
      rewrite Hn, Hcb. cbn [andb].
      destruct r; cbn [fst snd app accept_first]; apply accept_first_true.
    + cbn [fst snd app accept_first].
      apply (not_cached_silent pc l s false Hc).
  - apply andb_prop in Hl. destruct Hl as [Hok Hl].
    cbn [p_step fst snd app accept_first]. apply IH; [|exact Hl].
    right. destruct (has_send_ack pc); [discriminate|reflexivity].
Qed.

(* The first ACK processed for a live, not-refused job: ownership is recorded from the
   ACK's own fields, before the accept callback, and the callback gets the same values *)
Theorem parent_ack_records_owner pc s t pid fd r lc :
  in_cache s = true -> cancelled s && has_send_ack pc = false ->
  let (s', o) := p_ack pc s t pid fd r lc in
  accepted s' = true /\ worker_pid s' = Some pid /\ time_accepted s' = Some t /\
  (has_accept_cb pc = true -> exists rest, o = OTimeoutSet :: OCbAccept pid t :: rest) /\
  (has_accept_cb pc = true -> r = false -> has_send_ack pc = true ->
   forall f, fd_truthy fd = Some f -> o = [OTimeoutSet; OCbAccept pid t; OSendAck ACK pid f]).
Proof.
  intros Hc Hn. unfold p_ack. rewrite Hc, Hn. cbn [negb].
  destruct (has_accept_cb pc) eqn:Hcb; cbn [andb].
  - destruct r; cbn [fst snd]; repeat split; try (intros; eexists; reflexivity); try discriminate.
    intros _ _ Hs f Hf. rewrite Hs, Hf. reflexivity.
  - repeat split; discriminate.
Qed.

(* A job cancelled before its ACK is processed, with the handshake enabled: the parent
   answers NACK to the pid and fd of the ACK, runs no callback and records no owner *)
Theorem parent_cancelled_refuses pc s t pid fd r lc f :
  in_cache s = true -> cancelled s = true -> has_send_ack pc = true -> fd_truthy fd = Some f ->
  p_ack pc s t pid fd r lc =
  (mk_ar true true (worker_pid s) (time_accepted s) (is_ready s) true, [OSendAck NACK pid f]).
Proof.
  intros Hc Hx Hs Hf. unfold p_ack. rewrite Hc, Hx, Hs, Hf. reflexivity.
Qed.

(* closed handshake for one job: the parent's answer, delivered on the SYN pipe after any
   number of empty polls, decides; a NACK means the job is neither run nor counted *)
Theorem cancelled_job_not_run pc s c n q rest k f :
  in_cache s = true -> cancelled s = true -> has_send_ack pc = true ->
  has_syn c = true -> fd_truthy (synfd c) = Some f ->
  guard (maxtasks c) n = true -> task_ok (q_ty q) = true ->
  forall resp, snd (p_ack pc s (q_t q) (eff_pid c) (synfd c) false false) = [OSendAck resp (eff_pid c) f] ->
  q_syn q = repeat RTimeout k ++ [RMsg resp] ->
  loop c n (RMsg q :: rest) = pre (accept_events c q) (loop c n rest)
  /\ runs (accept_events c q) = O /\ puts (accept_events c q) = [ack_msg c q].
Proof.
  intros Hc Hx Hs Hsyn Hf G Hty resp Hresp Hq.
  rewrite (parent_cancelled_refuses pc s _ _ _ _ _ f Hc Hx Hs Hf) in Hresp. cbn [snd] in Hresp.
  inversion Hresp as [Hr]. subst resp. split; [|split; [apply runs_accept|apply puts_accept]].
  apply nack_step; [exact G|exact Hty|].
  unfold syn_result. rewrite Hsyn, Hq, wait_for_syn_timeouts. reflexivity.
Qed.

(* ------------------------------------------------------------------ *)
(* What the parent sees of a worker's stream                              *)
Lemma block_puts_ack_first c q J :
  ack_first true (flat_map (pev_of J) (puts (block c q))) = true.
Proof.
  unfold block. cbn [puts flat_map].
  destruct (q_job q =? J) eqn:E.
  - unfold pev_of, pev_of_x at 1. cbn [ack_msg m_job m_pl m_ty]. rewrite E.
    change (ACK =? ACK) with true. reflexivity.
  - unfold pev_of, pev_of_x at 1. cbn [ack_msg m_job m_pl m_ty]. rewrite E. cbn [app].
    destruct (confirmed c q); cbn [puts flat_map]; [|reflexivity].
    destruct (escapes q); cbn [puts flat_map]; [reflexivity|].
    unfold pev_of, pev_of_x. cbn [ready_msg m_job m_pl m_ty]. rewrite E. reflexivity.
Qed.

Lemma puts_proto l : puts (proto l) = puts l.
Proof.
  induction l as [|e l IH]; [reflexivity|]. unfold proto in *. cbn [filter].
  destruct e; cbn [is_proto puts]; rewrite ?IH; reflexivity.
Qed.

Lemma ack_first_app l1 l2 :
  ack_first true l1 = true -> ack_first true l2 = true -> ack_first true (l1 ++ l2) = true.
Proof.
  induction l1 as [|e l1 IH]; intros H1 H2; [exact H2|].
  destruct e; cbn [app ack_first] in *; [reflexivity|discriminate|].
  cbn [andb] in *. apply IH; assumption.
Qed.

Lemma blocks_ack_first c J : forall qs,
    ack_first true (flat_map (pev_of J) (puts (flat_map (block c) qs))) = true.
Proof.
  induction qs as [|q qs IH]; [reflexivity|].
  cbn [flat_map]. rewrite puts_app, flat_map_app.
  apply ack_first_app; [apply block_puts_ack_first|exact IH].
Qed.

(* in the stream a worker writes, the first message about any job J is its ACK *)
Theorem worker_stream_ack_first c ins n J :
  ack_first true (flat_map (pev_of J) (puts (evs (loop c n ins)))) = true.
Proof.
  destruct (loop_grammar c ins n) as [k [Hp _]].
  rewrite <- puts_proto, Hp. apply blocks_ack_first.
Qed.

(* every message of the stream is an ACK or a READY built from this worker's identity *)
Theorem worker_stream_messages c ins n m :
  In m (puts (evs (loop c n ins))) ->
  exists q, In (RMsg q) ins /\
            (m = ack_msg c q \/ m = ready_msg c q (final_res (q_beh q))).
Proof.
  destruct (loop_grammar c ins n) as [k [Hp _]].
  rewrite <- puts_proto, Hp. clear Hp.
  assert (Hin : forall q, In q (firstn k (tasks ins)) -> In (RMsg q) ins).
  { intros q Hq. assert (Ht : In q (tasks ins)).
    { clear -Hq. revert k Hq. induction (tasks ins) as [|a l IH]; intros k Hq;
        destruct k; cbn in Hq; try contradiction.
      destruct Hq as [->|Hq]; [left; reflexivity|right; eapply IH; exact Hq]. }
    clear -Ht. induction ins as [|e ins IH]; cbn [tasks] in Ht; [contradiction|].
    destruct e as [| | | | | | |q0]; try (right; apply IH; exact Ht).
    destruct (task_ok (q_ty q0)); [|right; apply IH; exact Ht].
    destruct Ht as [->|Ht]; [left; reflexivity|right; apply IH; exact Ht]. }
  revert Hin. induction (firstn k (tasks ins)) as [|q qs IH]; intros Hin Hm; [contradiction|].
  cbn [flat_map] in Hm. rewrite puts_app in Hm. apply in_app_or in Hm. destruct Hm as [Hm|Hm].
  - exists q. split; [apply Hin; left; reflexivity|].
    unfold block in Hm. cbn [puts] in Hm. destruct Hm as [<-|Hm]; [left; reflexivity|].
    destruct (confirmed c q); cbn [puts] in Hm; [|contradiction].
    destruct (escapes q); cbn [puts] in Hm; [contradiction|].
    destruct Hm as [<-|[]]. right; reflexivity.
  - apply IH; [|exact Hm]. intros q' Hq'. apply Hin. right. exact Hq'.
Qed.

(* cancellations woven into a stream at arbitrary positions *)
Definition uncancel (l : list pev) : list pev :=
  filter (fun e => match e with PCancel => false | _ => true end) l.

Lemma ack_first_uncancel l : ack_first true (uncancel l) = true -> ack_first true l = true.
Proof.
  induction l as [|e l IH]; intros H; [reflexivity|].
  destruct e; cbn [uncancel filter ack_first] in *; try assumption. apply IH. exact H.
Qed.

(* C03, parent order: whatever the worker was fed, whichever job J, wherever the user
   cancels relative to the consumption of the stream (with the handshake on: not before
   the ACK is processed -- that case is the refusal theorem), the accept callback runs
   before any result callback *)
Theorem worker_stream_accept_before_result c ins n J pc l :
  has_accept_cb pc = true ->
  uncancel l = flat_map (pev_of J) (puts (evs (loop c n ins))) ->
  (has_send_ack pc = true -> ack_first false l = true) ->
  accept_first false (snd (p_run pc (ar_init pc) l)) = true.
Proof.
  intros Hcb Hl Hh. apply parent_accept_before_result; [exact Hcb|left; reflexivity|].
  destruct (has_send_ack pc) eqn:Hs; cbn [negb]; [apply Hh; reflexivity|].
  apply ack_first_uncancel. rewrite Hl. apply worker_stream_ack_first.
Qed.

(* ownership: the recorded pid is always the pid carried by this worker's ACKs *)
Definition acks_from (P : Z) (e : pev) : Prop :=
  match e with PAck _ _ pid _ _ _ => pid = P | _ => True end.

Lemma p_run_owner pc P : forall l s,
    Forall (acks_from P) l ->
    (worker_pid s = None \/ worker_pid s = Some P) ->
    worker_pid (fst (p_run pc s l)) = None \/ worker_pid (fst (p_run pc s l)) = Some P.
Proof.
  induction l as [|e l IH]; intros s HF Hs; [exact Hs|].
  rewrite p_run_cons. cbn [fst]. inversion HF as [|e' l' He Hl]; subst.
  apply IH; [exact Hl|].
  destruct e as [i t pid fd r lc|i ok v|]; cbn [p_step acks_from] in *.
  - unfold p_ack. destruct (negb (in_cache s)); [exact Hs|].
    destruct (cancelled s && has_send_ack pc); [exact Hs|].
    destruct (has_accept_cb pc && r); cbn [fst worker_pid]; right; f_equal; exact He.
  - unfold p_set. destruct (negb (in_cache s)); [exact Hs|].
    destruct (is_ready s); exact Hs.
  - exact Hs.
Qed.

Lemma forall_uncancel P l : Forall (acks_from P) (uncancel l) -> Forall (acks_from P) l.
Proof.
  induction l as [|e l IH]; intros H; [constructor|].
  destruct e; cbn [uncancel filter] in H.
  - inversion H; subst. constructor; [assumption|apply IH; assumption].
  - inversion H; subst. constructor; [exact I|apply IH; assumption].
  - constructor; [exact I|apply IH; exact H].
Qed.

Theorem worker_stream_owner c ins n J pc l :
  uncancel l = flat_map (pev_of J) (puts (evs (loop c n ins))) ->
  let s := fst (p_run pc (ar_init pc) l) in
  worker_pid s = None \/ worker_pid s = Some (eff_pid c).
Proof.
  intros Hl. apply p_run_owner; [|left; reflexivity].
  apply forall_uncancel. rewrite Hl. apply Forall_forall. intros e He.
  apply in_flat_map in He. destruct He as [m [Hm He]].
  destruct (worker_stream_messages c ins n m Hm) as [q [_ [-> | ->]]];
    unfold pev_of, pev_of_x in He; cbn [ack_msg ready_msg m_job m_pl m_ty] in He;
      destruct (q_job q =? J); try contradiction.
  - change (ACK =? ACK) with true in He. destruct He as [<-|[]]. reflexivity.
  - change (READY =? READY) with true in He. destruct He as [<-|[]].
    destruct (final_res (q_beh q)); exact I.
Qed.

(* ================================================================== *)
(* the same facts, stated on the whole of workloop (loop from completed = 0, then the
   finally clause)                                                       *)
Definition w_events c ins : list ev := fst (fst (fst (workloop c ins))).
Definition w_exit c ins : exit := snd (fst (fst (workloop c ins))).
Definition w_completed c ins : Z := snd (fst (workloop c ins)).
Definition w_ensure c ins : bool * nat * nat := snd (workloop c ins).

Lemma workloop_eq c ins :
  workloop c ins =
  (evs (loop c 0 ins), xit (loop c 0 ins), cnt (loop c 0 ins),
   ensure (counter c) (cnt (loop c 0 ins))).
Proof. unfold workloop, evs, xit, cnt. destruct (loop c 0 ins) as [[l x] n]. reflexivity. Qed.

Lemma w_events_eq c ins : w_events c ins = evs (loop c 0 ins).
Proof. unfold w_events. rewrite workloop_eq. reflexivity. Qed.
Lemma w_exit_eq c ins : w_exit c ins = xit (loop c 0 ins).
Proof. unfold w_exit. rewrite workloop_eq. reflexivity. Qed.
Lemma w_completed_eq c ins : w_completed c ins = cnt (loop c 0 ins).
Proof. unfold w_completed. rewrite workloop_eq. reflexivity. Qed.
Lemma w_ensure_eq c ins : w_ensure c ins = ensure (counter c) (w_completed c ins).
Proof. unfold w_ensure, w_completed. rewrite workloop_eq. reflexivity. Qed.

Theorem workloop_grammar c ins : exists k,
    proto (w_events c ins) = flat_map (block c) (firstn k (tasks ins)) /\
    w_completed c ins = Z.of_nat (length (filter (counted c) (firstn k (tasks ins)))).
Proof.
  rewrite w_events_eq, w_completed_eq. destruct (loop_grammar c ins 0) as [k [A B]].
  exists k. split; [exact A|lia].
Qed.

Theorem workloop_monitor c ins : monitor (w_events c ins) = true.
Proof. rewrite w_events_eq. apply workloop_monitored. Qed.

Theorem workloop_completed_is_runs c ins :
  w_completed c ins + cut_short (w_exit c ins) = Z.of_nat (runs (w_events c ins)).
Proof. rewrite w_events_eq, w_completed_eq, w_exit_eq, loop_cnt_runs. lia. Qed.

Theorem workloop_quota c N ins :
  maxtasks c = Some N -> 1 <= N ->
  0 <= w_completed c ins <= N /\
  (w_completed c ins = N -> w_exit c ins = XReturn EX_RECYCLE) /\
  (forall code, w_exit c ins = XReturn code -> code = EX_RECYCLE) /\
  (eff_maxmem c <= 0 -> w_exit c ins = XReturn EX_RECYCLE -> w_completed c ins = N).
Proof.
  intros HN H1. rewrite w_completed_eq, w_exit_eq. repeat split.
  - apply (loop_cnt_bounds c N HN H1 ins 0). lia.
  - apply (loop_cnt_bounds c N HN H1 ins 0). lia.
  - apply (quota_full_recycles c N HN H1). lia.
  - intros code. apply (quota_return_code c N HN H1). lia.
  - intros HM. apply (quota_iff c N ins HN H1 HM).
Qed.

Theorem workloop_no_quota c ins code :
  maxtasks c = None -> eff_maxmem c <= 0 -> w_exit c ins <> XReturn code.
Proof. rewrite w_exit_eq. apply no_quota_never_returns. Qed.

Theorem workloop_unconfirmed_irrelevant c front q q' rest :
  same_request q q' -> confirmed c q = false ->
  workloop c (front ++ RMsg q :: rest) = workloop c (front ++ RMsg q' :: rest).
Proof.
  intros Hs Hc. unfold workloop.
  rewrite (unconfirmed_oracles_irrelevant c front 0 q q' rest Hs Hc). reflexivity.
Qed.

(* small conjunctions used verbatim by Props/C03.v *)
Lemma gen_defaults p os m :
  K_worker.pid_default tt (optv p) (PInt os) = Ok (PInt (or_default p os)) tt /\
  K_worker.maxmem_default tt (optv m) = Ok (PInt (or_default m 0)) tt.
Proof. split; [apply gen_pid_default|apply gen_maxmem_default]. Qed.

Lemma nack_step_no_run c n q rest :
  guard (maxtasks c) n = true -> task_ok (q_ty q) = true ->
  fst (syn_result c q) = SynFalse ->
  loop c n (RMsg q :: rest) = pre (accept_events c q) (loop c n rest)
  /\ runs (accept_events c q) = O.
Proof. intros. split; [apply nack_step; assumption|apply runs_accept]. Qed.

Lemma one_ready_per_execution c q :
  puts (exec_events c q) = [ready_msg c q (final_res (q_beh q))] /\
  runs (exec_events c q) = 1%nat.
Proof. split; [apply puts_exec|apply runs_exec]. Qed.

(* ------------------------------------------------------------------ *)
(* the status the worker process exits with (Worker.__call__ / _do_exit)  *)
Theorem call_status_recycle c N ins :
  maxtasks c = Some N -> 1 <= N ->
  (call_status (w_exit c ins) = EX_RECYCLE <->
   (w_exit c ins = XReturn EX_RECYCLE \/ w_exit c ins = XTerminated EX_RECYCLE)).
Proof.
  intros HN H1.
  destruct (w_exit c ins) as [code|code| |b e0|code|] eqn:E; cbn; split;
    try (intros [H|H]; try discriminate; inversion H; subst; reflexivity);
    try (intros H; try discriminate; subst; auto).
  destruct b; discriminate.
Qed.

(* a SystemExit raised by the receive (sentinel, EOF, broken pipe) ends the process with
   status EX_OK whatever code it carried: the wrapper around sys.exit never saw it *)
Theorem call_status_sysexit code : call_status (XSysExit code) = EX_OK.
Proof. reflexivity. Qed.
