(* C16: the invariant of the queue programs (Model/QueueCode.v) under the interleaving
   semantics of Model/QueueProg.v: definitions, the update lemma [qinv_upd] and the tactics of
   the step lemma (Proofs/QueueInvProofs.v).  Any number of main threads per process: own =
   the process of each (main thread, feeder slot) pair.  Nothing here depends on the generated
   programs; Proofs/QueueProofs.v transports the results. *)
From Coq Require Import ZArith List Bool Lia ZifyBool Arith.
From BV Require Import Model.SemProg Model.QueueProg Model.QueueCode Proofs.SemProgProofs.
Import ListNotations.
Open Scope Z_scope.

(* ================================================================== invariant *)

Notation qcode := QueueCode.code.
Opaque upds updz upd updp.

(* ids of the per-process semaphores (kept opaque so that cbn does not normalise them) *)
Definition nls (p : nat) : nat := (8 + 2 * p)%nat.
Definition nss (p : nat) : nat := (9 + 2 * p)%nat.
Lemma nls_eq : forall p, nls p = (8 + 2 * p)%nat. Proof. reflexivity. Qed.
Lemma nss_eq : forall p, nss p = (9 + 2 * p)%nat. Proof. reflexivity. Qed.
Lemma sid_sg : forall p n, sid p (SG n) = n. Proof. reflexivity. Qed.
Lemma sid_sp0 : forall p, sid p (SP 0) = nls p. Proof. intros. unfold sid, PBASE, nls. lia. Qed.
Lemma sid_sp1 : forall p, sid p (SP 1) = nss p. Proof. intros. unfold sid, PBASE, nss. lia. Qed.
Opaque nls nss sid.

(* ------------------------------------------------------------------ weights by (call, pc) *)
Local Open Scope nat_scope.
(* holds a capacity token for a message that is neither buffered nor in the pipe:
   put between the semaphore acquire and the buffer append, feeder between pop and send,
   get between receive and semaphore release *)
Definition w_tr (c p : nat) : Z :=
  match c, p with
  | 0, (3|7) => 1%Z
  | 3, (3|6|8) => 1%Z
  | 2, (10|11|14) => 1%Z       (* 14: about to give back the token of the object it could not serialise *)
  | 1, (4|5|24) => 1%Z
  | _, _ => 0%Z
  end.
Definition w_rl (c p : nat) : Z :=          (* holds the reader lock *)
  match c, p with
  | 1, (3|4|12|14|16|19|21|23|24|25) => 1%Z
  | _, _ => 0%Z
  end.
Definition w_wl (c p : nat) : Z :=          (* holds the writer lock *)
  match c, p with
  | 2, (11|12) => 1%Z
  | _, _ => 0%Z
  end.
(* JoinableQueue's count of unfinished tasks: a put past its _unfinished_tasks.release() and not
   yet returned; a task_done past its successful _unfinished_tasks.acquire(False) *)
Definition w_pc (c p : nat) : Z :=
  match c, p with
  | 3, (13|14|15) => 1%Z
  | _, _ => 0%Z
  end.
Definition w_dc (c p : nat) : Z :=
  match c, p with
  | 4, (5|8|10|12|16|18|24|27|30) => 1%Z
  | _, _ => 0%Z
  end.
Definition w_nl (c p : nat) : Z :=          (* holds the lock of its process's _notempty *)
  match c, p with
  | 0, (7|11|12) => 1%Z
  | 3, (6|8|10|13|14|15) => 1%Z
  | 2, (3|7) => 1%Z
  | _, _ => 0%Z
  end.
Local Close Scope nat_scope.

Definition qt_tr (t : qthread) : Z := if qfin t then 0 else w_tr (qcid t) (qpc t).
Definition qt_rl (t : qthread) : Z := if qfin t then 0 else w_rl (qcid t) (qpc t).
Definition qt_wl (t : qthread) : Z := if qfin t then 0 else w_wl (qcid t) (qpc t).
Definition qt_nl (p : nat) (t : qthread) : Z :=
  if qfin t then 0 else if Nat.eqb (qproc t) p then w_nl (qcid t) (qpc t) else 0.
(* the message a feeder has popped and not yet sent (pc 14: and will not send: it could not be
   serialised and is dropped) *)
Definition ftr (t : qthread) : list Z :=
  if qfin t then [] else
  match qcid t, qpc t with
  | 2%nat, (10%nat | 11%nat | 14%nat) => [r2 (qrg t)]
  | _, _ => []
  end.

Fixpoint zcnt (m : Z) (l : list Z) : Z :=
  match l with [] => 0 | x :: r => (if x =? m then 1 else 0) + zcnt m r end.
(* the message a get has received and not yet returned (between its receive and its return the
   only steps left are the two releases, which cannot fail: see qstep_inv) *)
Definition gheld (t : qthread) : list Z :=
  if qfin t then [] else
  match qcid t, qpc t with
  | 1%nat, (4%nat | 5%nat | 24%nat | 25%nat) => [r4 (qrg t)]
  | _, _ => []
  end.
(* how many of the finished get calls of a thread returned m *)
Fixpoint rcount (m : Z) (res : list (qcall * Z)) : Z :=
  match res with
  | [] => 0
  | (c, v) :: r => (if Nat.eqb (fst (fst (fst c))) 1 && (v =? m) then 1 else 0) + rcount m r
  end.
(* finished JoinableQueue.put calls that returned (did not raise Full); finished task_done calls
   that did not raise ValueError("task_done() called too many times") *)
Fixpoint pcount (res : list (qcall * Z)) : Z :=
  match res with
  | [] => 0
  | (c, v) :: r => (if Nat.eqb (fst (fst (fst c))) 3 && (v =? V_NONE) then 1 else 0) + pcount r
  end.
Fixpoint dcount (res : list (qcall * Z)) : Z :=
  match res with
  | [] => 0
  | (c, v) :: r => (if Nat.eqb (fst (fst (fst c))) 4 && negb (v =? E_VALUE) then 1 else 0) + dcount r
  end.
(* contribution of a thread to the number of unfinished tasks: puts counted - task_dones counted *)
Definition qw_unf (t : qthread) : Z := if qfin t then 0 else w_pc (qcid t) (qpc t) - w_dc (qcid t) (qpc t).
Definition qt_unf (t : qthread) : Z := pcount (qresults t) - dcount (qresults t) + qw_unf t.
Lemma qt_unf_eq : forall t, qt_unf t = pcount (qresults t) - dcount (qresults t) + qw_unf t.
Proof. reflexivity. Qed.
Definition qt_ret (m : Z) (t : qthread) : Z := rcount m (qresults t) + zcnt m (gheld t).

(* ---- per (process, THREAD) order.  tput t = the messages that the put calls of main thread t have appended
   to the buffer of its process, in the order of t's calls: those of its finished put calls that returned None
   (pseq; results are kept latest first) followed by the message of a put in progress that is past its append
   (pheld).  Subseq a b: a is a subsequence of b. *)
Definition is_putc (c : qcall) : bool := let id := fst (fst (fst c)) in Nat.eqb id 0 || Nat.eqb id 3.
Fixpoint pseq (res : list (qcall * Z)) : list Z :=
  match res with
  | [] => []
  | (c, v) :: r => pseq r ++ (if is_putc c && (v =? V_NONE) then [snd c] else [])
  end.
Definition pheld (t : qthread) : list Z :=
  if qfin t then [] else
  match qcid t, qpc t with
  | 0%nat, (11%nat | 12%nat) => [snd (qcur t)]
  | 3%nat, (10%nat | 13%nat | 14%nat | 15%nat) => [snd (qcur t)]
  | _, _ => []
  end.
Definition tput (t : qthread) : list Z := pseq (qresults t) ++ pheld t.

Inductive Subseq : list Z -> list Z -> Prop :=
| sub_nil : forall l, Subseq [] l
| sub_take : forall x a b, Subseq a b -> Subseq (x :: a) (x :: b)
| sub_skip : forall x a b, Subseq a b -> Subseq a (x :: b).

Lemma subseq_app_r : forall a b c, Subseq a b -> Subseq a (b ++ c).
Proof. intros a b c H. induction H; cbn [app]; constructor; auto. Qed.

Lemma subseq_snoc : forall a b m, Subseq a b -> Subseq (a ++ [m]) (b ++ [m]).
Proof.
  intros a b m H. induction H; cbn [app].
  - induction l as [|y l IH]; cbn [app]; [constructor; constructor|apply sub_skip; exact IH].
  - constructor; auto.
  - apply sub_skip; auto.
Qed.

(* ------------------------------------------------------------------ per-thread invariant *)
Definition okq (c : qcall) : Prop :=
  let id := fst (fst (fst c)) in id = 0%nat \/ id = 1%nat \/ id = 3%nat \/ id = 4%nat \/ id = 5%nat.

Definition a2_of (c : qcall) : Z := snd c.

Local Open Scope nat_scope.
Definition qli_pc (c p : nat) (r : regs) (a2 : Z) (h4 : Z) : Prop :=
  match c, p with
  | 0, (0|3|7|11|12) => r2 r = a2
  | 1, (2|3|4|5|8|12|14|16|19|21|23|24|25) => True
  | 2, (0|3|4|5|7|12) => True
  | 2, (10|11) => picklable (r2 r) = true   (* what a feeder is about to write could be serialised *)
  | 2, 14 => picklable (r2 r) = false       (* what a feeder drops could not *)
  | 3, (0|3|6) => r2 r = a2
  | 3, 8 => r2 r = a2 /\ (1 <= h4)%Z
  | 3, (10|13|14) => (1 <= h4)%Z
  | 3, 15 => True
  | 4, 0 => True
  | 4, (1|3|5|8|10|12|16|18|24|27|30) => (1 <= h4)%Z
  | 5, (0|1|4|8|11|12|15|19) => True
  | _, _ => False
  end.
Local Close Scope nat_scope.

Definition QLI (t : qthread) : Prop :=
  0 <= nth 4 (qheld t) 0 /\
  if qfeeder t then qfin t = false /\ qcid t = 2%nat /\ qscript t = [] /\
                    qli_pc 2 (qpc t) (qrg t) 0 0
  else Forall okq (qscript t) /\
       (qfin t = false -> okq (qcur t) /\
                          qli_pc (qcid t) (qpc t) (qrg t) (a2_of (qcur t)) (nth 4 (qheld t) 0)).

(* ------------------------------------------------------------------ global invariant *)
Definition QSVM : Z := 2147483647.
Definition qv (s : nat) (g : qsys) : Z := val (nth s (qsems g) dsem).
Definition blen (ps : pstate) : Z := Z.of_nat (length (buf ps)).
(* the messages of a tagged send log that were written by the feeder of process p, in order *)
Definition from_proc (p : nat) (l : list (nat * Z)) : list Z :=
  map snd (filter (fun x => Nat.eqb (fst x) p) l).
(* the messages of a list that can be serialised, in order *)
Definition pk (l : list Z) : list Z := filter picklable l.
Lemma pk_nil : pk [] = []. Proof. reflexivity. Qed.
Lemma pk_app : forall a b, pk (a ++ b) = pk a ++ pk b. Proof. intros. apply filter_app. Qed.
Lemma pk_cons_true : forall m l, picklable m = true -> pk (m :: l) = m :: pk l.
Proof. intros m l H. unfold pk. cbn [filter]. rewrite H. reflexivity. Qed.
Lemma pk_cons_false : forall m l, picklable m = false -> pk (m :: l) = pk l.
Proof. intros m l H. unfold pk. cbn [filter]. rewrite H. reflexivity. Qed.
Definition dqt : qthread := mkQT 0 false (0%nat, 0, 0, 0) 0 (qinit_regs 0 0 0) [] [] [] true.

Definition qshape (M : Z) (n : nat) (ss : list sem) : Prop :=
  maxv (nth 0 ss dsem) = M /\ recur (nth 0 ss dsem) = false /\
  (forall s, (s = 1 \/ s = 2)%nat -> maxv (nth s ss dsem) = 1 /\ recur (nth s ss dsem) = false) /\
  (forall s, (s = 3 \/ s = 5 \/ s = 6 \/ s = 7)%nat -> maxv (nth s ss dsem) = QSVM /\ recur (nth s ss dsem) = false) /\
  recur (nth 4 ss dsem) = true /\
  (forall p, (p < n)%nat -> maxv (nth (nls p) ss dsem) = 1 /\ recur (nth (nls p) ss dsem) = false /\
                            maxv (nth (nss p) ss dsem) = QSVM /\ recur (nth (nss p) ss dsem) = false).

(* a main thread standing at Queue._start_thread (it has read `self._thread is None` as true) *)
Definition at_start (t : qthread) : Prop :=
  qfin t = false /\ ((qcid t = 0%nat /\ qpc t = 7%nat) \/ (qcid t = 3%nat /\ qpc t = 8%nat)).
(* the message held by THE feeder thread of a process (the thread its _start_thread created) *)
Definition fd_ftr (ps : pstate) (thr : list qthread) : list Z :=
  match spawned ps with j :: _ => ftr (nth j thr dqt) | [] => [] end.

Record QInv (M : Z) (own : list nat) (g : qsys) : Prop := mkQInv {
  q_shape : qshape M (length (procs g)) (qsems g);
  q_len : length (qthr g) = (2 * length (procs g))%nat;
  q_own : forall q, (q < length (procs g))%nat -> (owner own q < length (procs g))%nat;
  q_wf : forall i t, nth_error (qthr g) i = Some t -> qproc t = owner own (Nat.div2 i) /\ qfeeder t = Nat.odd i;
  q_li : forall t, In t (qthr g) -> QLI t;
  q_cap : qv 0 g + sumz blen (procs g) + Z.of_nat (length (pipe g)) + sumz qt_tr (qthr g) = M;
  q_cap0 : 0 <= qv 0 g;
  q_rl : qv 1 g + sumz qt_rl (qthr g) = 1 /\ 0 <= qv 1 g;
  q_wl : qv 2 g + sumz qt_wl (qthr g) = 1 /\ 0 <= qv 2 g;
  q_nl : forall p, (p < length (procs g))%nat ->
                   qv (nls p) g + sumz (qt_nl p) (qthr g) = 1 /\ 0 <= qv (nls p) g;
  q_fifo : forall p, pk (plog (nth p (procs g) dps)) =
                     slog (nth p (procs g) dps) ++ pk (fd_ftr (nth p (procs g) dps) (qthr g)) ++ pk (buf (nth p (procs g) dps));
  q_pipe : map snd (sendlog g) = getlog g ++ pipe g;
  q_merge : forall m, zcnt m (map snd (sendlog g)) = sumz (fun ps => zcnt m (slog ps)) (procs g);
  q_order : forall p, from_proc p (sendlog g) = slog (nth p (procs g) dps);
  q_ret : forall m, m <> E_EMPTY -> zcnt m (getlog g) = sumz (qt_ret m) (qthr g);
  q_unf : qv 3 g = sumz qt_unf (qthr g) /\ 0 <= qv 3 g;
  (* Queue._start_thread: every started feeder slot is a feeder thread of that process; at most ONE is ever
     started per process; a slot not started stands at the beginning of _feed; a main thread standing at
     _start_thread still sees self._thread is None; the buffer is empty until a feeder has been started *)
  q_sp : forall p j, In j (spawned (nth p (procs g) dps)) ->
                     exists t, nth_error (qthr g) j = Some t /\ qfeeder t = true /\ qproc t = p;
  q_one : forall p, (length (spawned (nth p (procs g) dps)) <= 1)%nat;
  q_dorm : forall j t, nth_error (qthr g) j = Some t -> qfeeder t = true ->
                       ~ In j (spawned (nth (qproc t) (procs g) dps)) -> qpc t = 0%nat;
  q_st : forall j t, nth_error (qthr g) j = Some t -> at_start t -> spawned (nth (qproc t) (procs g) dps) = [];
  q_b0 : forall p, spawned (nth p (procs g) dps) = [] -> buf (nth p (procs g) dps) = [];
  (* per (process, thread): what a thread's puts appended, in the order of its calls, is a subsequence of
     the append log of its process *)
  q_tp : forall i t, nth_error (qthr g) i = Some t -> Subseq (tput t) (plog (nth (qproc t) (procs g) dps))
}.

(* the counters stay below SEM_VALUE_MAX *)
Definition qsmall (g : qsys) : Prop :=
  qv 3 g < QSVM /\ qv 5 g < QSVM /\ qv 6 g < QSVM /\ qv 7 g < QSVM /\
  forall p, qv (nss p) g < QSVM.

Transparent updp upd.
Lemma nth_updp_same : forall l i v, nth i (updp l i v) dps = v.
Proof. intros l i; revert l; induction i as [|i IH]; intros [|x l] v; cbn; auto. Qed.

Lemma nth_updp_other : forall l i j v, i <> j -> nth j (updp l i v) dps = nth j l dps.
Proof.
  intros l i; revert l; induction i as [|i IH]; intros [|x l] [|j] v Hne; cbn; auto; try congruence.
  - destruct j; reflexivity.
  - rewrite IH by congruence. destruct j; reflexivity.
Qed.

Lemma length_updp : forall l i v, (i < length l)%nat -> length (updp l i v) = length l.
Proof.
  intros l i; revert l; induction i as [|i IH]; intros [|x l] v H; cbn in *; try lia.
  rewrite IH; lia.
Qed.

Lemma sumz_updp : forall (f : pstate -> Z) l i v, (i < length l)%nat ->
    sumz f (updp l i v) = sumz f l - f (nth i l dps) + f v.
Proof.
  intros f l i; revert l; induction i as [|i IH]; intros [|x l] v H; cbn in *; try lia.
  rewrite IH by lia. lia.
Qed.

Lemma nth_upd_same : forall A (l : list A) i v d, (i < length l)%nat -> nth i (upd l i v) d = v.
Proof. induction l as [|x l IH]; intros [|i] v d H; cbn in *; try lia; auto. apply IH; lia. Qed.

Lemma nth_upd_other : forall A (l : list A) i j v d, i <> j -> nth j (upd l i v) d = nth j l d.
Proof. induction l as [|x l IH]; intros [|i] [|j] v d H; cbn; auto; try congruence. Qed.
Opaque updp upd.

Lemma zcnt_app : forall m a b, zcnt m (a ++ b) = zcnt m a + zcnt m b.
Proof. induction a as [|x a IH]; intros b; cbn; [lia|]. rewrite IH. lia. Qed.

Ltac dn x n := match n with O => idtac | S ?m => destruct x as [|x]; [|dn x m] end.

Lemma qw_01 : forall c p, 0 <= w_tr c p <= 1 /\ 0 <= w_rl c p <= 1 /\ 0 <= w_wl c p <= 1 /\ 0 <= w_nl c p <= 1.
Proof. intros c p. dn c 6%nat; dn p 26%nat; cbn; lia. Qed.

Lemma qt_01 : forall t, 0 <= qt_tr t <= 1 /\ 0 <= qt_rl t <= 1 /\ 0 <= qt_wl t <= 1 /\ forall q, 0 <= qt_nl q t <= 1.
Proof.
  intros t. unfold qt_tr, qt_rl, qt_wl, qt_nl. destruct (qfin t); [repeat split; intros; lia|].
  destruct (qw_01 (qcid t) (qpc t)) as (A & B & C & D). repeat split; try lia; intros; destruct (Nat.eqb (qproc t) q); lia.
Qed.

Ltac qsimp0 :=
  cbn [qlocal nth_error qcode p_q_put p_q_get p_feed p_jq_put p_jq_task_done p_jq_join
       p_sq_put p_sq_get getr setr rvv flagv qinit_regs r0 r1 r2 r3 r4 r5 r6 r7
       qproc qfeeder qcur qpc qrg qheld qscript qresults qfin qcid fst snd negb andb orb QFUEL
       buf nw spawned plog slog]; rewrite ?sid_sg, ?sid_sp0, ?sid_sp1.
Ltac qsimp := cbn [qadvance qabort]; qsimp0.
Ltac qsimp_in H :=
  cbn [qadvance qabort qlocal nth_error qcode p_q_put p_q_get p_feed p_jq_put p_jq_task_done p_jq_join
       p_sq_put p_sq_get getr setr rvv flagv qinit_regs r0 r1 r2 r3 r4 r5 r6 r7
       qproc qfeeder qcur qpc qrg qheld qscript qresults qfin qcid fst snd negb andb orb QFUEL
       buf nw spawned plog slog] in H; rewrite ?sid_sg, ?sid_sp0, ?sid_sp1 in H.
Ltac qsimpw :=
  cbn [qt_tr qt_rl qt_wl qt_nl ftr pheld w_tr w_rl w_wl w_nl r0 r1 r2 r3 r4 r5 r6 r7
       qproc qfeeder qcur qpc qrg qheld qscript qresults qfin qcid fst snd val set_val maxv recur
       buf nw spawned plog slog blen a2_of] in *.

Definition landed (t : qthread) : Prop :=
  qt_tr t = 0 /\ qt_rl t = 0 /\ qt_wl t = 0 /\ (forall q, qt_nl q t = 0) /\ ftr t = [] /\ gheld t = [] /\ qw_unf t = 0.

Ltac landed_tac p :=
  unfold QLI, landed, qt_tr, qt_rl, qt_wl, qt_nl, ftr, gheld, qw_unf, pheld, okq, a2_of; qsimp0;
  cbn [w_tr w_rl w_wl w_nl w_pc w_dc qli_pc nth];
  repeat split; auto; intros; try lia; try discriminate;
  try (destruct (Nat.eqb p _); reflexivity).

Lemma qstart_facts : forall sc p h res ps,
    Forall okq sc -> 0 <= nth 4 h 0 ->
    exists t, qstart qcode p false h res sc ps = (t, ps) /\
              QLI t /\ qproc t = p /\ qfeeder t = false /\ landed t /\ qresults t = res /\ pheld t = [].
Proof.
  intros [|[[[c a0] a1] a2] sc] p h res ps Hsc Hh.
  - eexists. split; [reflexivity|]. landed_tac p.
  - inversion Hsc as [|x l Hc Hsc']; subst. unfold okq in Hc; cbn [fst snd] in Hc.
    cbn [qstart].
    destruct Hc as [E|[E|[E|[E|E]]]]; subst c.
    + qsimp0. eexists. split; [reflexivity|]. landed_tac p.
    + qsimp0. destruct (a1 =? 0) eqn:E1; [|destruct (a0 =? 0) eqn:E0];
        (eexists; split; [reflexivity|]); landed_tac p.
    + qsimp0. eexists. split; [reflexivity|]. landed_tac p.
    + qsimp0. eexists. split; [reflexivity|]. landed_tac p.
    + qsimp0. eexists. split; [reflexivity|]. landed_tac p.
Qed.

Lemma qshape_upds : forall M n ss s sm', qshape M n ss ->
    maxv sm' = maxv (nth s ss dsem) -> recur sm' = recur (nth s ss dsem) -> qshape M n (upds ss s sm').
Proof.
  intros M n ss s sm' (A & B & C & D & E & F) Hm Hr.
  assert (G : forall k, maxv (nth k (upds ss s sm') dsem) = maxv (nth k ss dsem) /\
                        recur (nth k (upds ss s sm') dsem) = recur (nth k ss dsem)).
  { intros k. destruct (Nat.eq_dec s k) as [Ek|Ek].
    - subst. rewrite nth_upds_same. auto.
    - rewrite nth_upds_other by auto. auto. }
  unfold qshape.
  split; [rewrite (proj1 (G _)); auto|]. split; [rewrite (proj2 (G _)); auto|].
  split; [intros k Hk; rewrite (proj1 (G k)), (proj2 (G k)); auto|].
  split; [intros k Hk; rewrite (proj1 (G k)), (proj2 (G k)); auto|].
  split; [rewrite (proj2 (G _)); auto|].
  intros p Hp. rewrite (proj1 (G (nls p))), (proj2 (G (nls p))), (proj1 (G (nss p))), (proj2 (G (nss p))). auto.
Qed.

Lemma div2_odd_idx : forall i, i = (2 * Nat.div2 i + (if Nat.odd i then 1 else 0))%nat.
Proof. intros i. pose proof (Nat.div2_odd i). destruct (Nat.odd i); cbn [Nat.b2n] in *; lia. Qed.

Lemma at_start_nl : forall t, at_start t -> qt_nl (qproc t) t = 1.
Proof.
  intros t (Hf & [[Hc Hp]|[Hc Hp]]); unfold qt_nl; rewrite Hf, Hc, Hp, Nat.eqb_refl; reflexivity.
Qed.

Lemma landed_not_start : forall t, landed t -> ~ at_start t.
Proof.
  intros t (_ & _ & _ & L & _) H. pose proof (at_start_nl t H) as E. rewrite L in E. discriminate.
Qed.

Lemma ftr_pc0 : forall t, qpc t = 0%nat -> ftr t = [].
Proof.
  intros t H. unfold ftr. destruct (qfin t); [reflexivity|]. rewrite H.
  destruct (qcid t) as [|[|[|c]]]; reflexivity.
Qed.

Lemma div2_S_even : forall i, Nat.odd i = false -> Nat.div2 (S i) = Nat.div2 i.
Proof.
  intros i H. pose proof (div2_odd_idx i) as E. rewrite H in E.
  replace (S i) with (S (2 * Nat.div2 i)) by lia. rewrite Nat.div2_succ_double. reflexivity.
Qed.

Lemma odd_S : forall i, Nat.odd i = false -> Nat.odd (S i) = true.
Proof. intros i H. rewrite Nat.odd_succ. unfold Nat.odd in H. destruct (Nat.even i); [reflexivity|discriminate]. Qed.

(* the feeder slot next to a main thread *)
Lemma slot_of_main : forall M own g i t, QInv M own g -> nth_error (qthr g) i = Some t -> qfeeder t = false ->
    exists u, nth_error (qthr g) (S i) = Some u /\ qfeeder u = true /\ qproc u = qproc t /\ S i <> i.
Proof.
  intros M own g i t HI Ht Hf.
  pose proof (q_wf M own g HI i t Ht) as [Wp Wf]. rewrite Hf in Wf. symmetry in Wf.
  assert (Hi : (i < length (qthr g))%nat) by (apply nth_error_Some; congruence).
  pose proof (q_len M own g HI) as Hl. pose proof (div2_odd_idx i) as Ei. rewrite Wf in Ei.
  assert (Hs : (S i < length (qthr g))%nat) by lia.
  destruct (nth_error (qthr g) (S i)) as [u|] eqn:Eu; [|apply nth_error_None in Eu; lia].
  exists u. pose proof (q_wf M own g HI (S i) u Eu) as [Up Uf].
  rewrite (odd_S i Wf) in Uf. rewrite (div2_S_even i Wf) in Up.
  repeat split; auto; try congruence; lia.
Qed.

Lemma qinv_upd : forall M own g i t t' ps' ss' pp sl gl,
    QInv M own g -> nth_error (qthr g) i = Some t ->
    qproc t' = qproc t -> qfeeder t' = qfeeder t ->
    qshape M (length (procs g)) ss' -> QLI t' ->
    val (nth 0 ss' dsem) + (sumz blen (procs g) - blen (nth (qproc t) (procs g) dps) + blen ps')
      + Z.of_nat (length pp) + (sumz qt_tr (qthr g) - qt_tr t + qt_tr t') = M ->
    0 <= val (nth 0 ss' dsem) ->
    (val (nth 1 ss' dsem) + (sumz qt_rl (qthr g) - qt_rl t + qt_rl t') = 1 /\ 0 <= val (nth 1 ss' dsem)) ->
    (val (nth 2 ss' dsem) + (sumz qt_wl (qthr g) - qt_wl t + qt_wl t') = 1 /\ 0 <= val (nth 2 ss' dsem)) ->
    (val (nth (nls (qproc t)) ss' dsem)
       + (sumz (qt_nl (qproc t)) (qthr g) - qt_nl (qproc t) t + qt_nl (qproc t) t') = 1
     /\ 0 <= val (nth (nls (qproc t)) ss' dsem)) ->
    (forall q, q <> qproc t -> nth (nls q) ss' dsem = nth (nls q) (qsems g) dsem) ->
    (* Queue._start_thread: either nothing was started by this step, or main thread i, holding the lock of its
       process's _notempty, started its feeder slot S i, the first of its process *)
    (spawned ps' = spawned (nth (qproc t) (procs g) dps) \/
     (qfeeder t = false /\ spawned (nth (qproc t) (procs g) dps) = [] /\ spawned ps' = [S i] /\ qt_nl (qproc t) t = 1)) ->
    (qfeeder t = true -> In i (spawned (nth (qproc t) (procs g) dps))) ->
    (at_start t' -> spawned ps' = []) ->
    (spawned ps' = [] -> buf ps' = []) ->
    (exists l, plog ps' = plog (nth (qproc t) (procs g) dps) ++ l) ->
    Subseq (tput t') (plog ps') ->
    pk (plog ps') = slog ps' ++ pk (if qfeeder t then ftr t' else fd_ftr (nth (qproc t) (procs g) dps) (qthr g)) ++ pk (buf ps') ->
    map snd sl = gl ++ pp ->
    (forall m, zcnt m (map snd sl) = sumz (fun ps => zcnt m (slog ps)) (procs g)
                           - zcnt m (slog (nth (qproc t) (procs g) dps)) + zcnt m (slog ps')) ->
    (forall q, from_proc q sl = slog (nth q (updp (procs g) (qproc t) ps') dps)) ->
    (forall m, m <> E_EMPTY -> zcnt m gl = sumz (qt_ret m) (qthr g) - qt_ret m t + qt_ret m t') ->
    (val (nth 3 ss' dsem) = sumz qt_unf (qthr g) - qt_unf t + qt_unf t' /\ 0 <= val (nth 3 ss' dsem)) ->
    QInv M own (mkQS ss' (upd (qthr g) i t') pp (updp (procs g) (qproc t) ps') sl gl).
Proof.
  intros M own g i t t' ps' ss' pp sl gl HI Ht Hp Hfd Hsh Hli Hcap Hcap0 Hrl Hwl Hnl Hnlo Hsp Hact Hst Hb0 Hpl' Htp Hfifo Hpipe Hmerge Horder Hret Hunf.
  pose proof (q_wf M own g HI i t Ht) as [Wp Wf].
  assert (Hi : (i < length (qthr g))%nat) by (apply nth_error_Some; congruence).
  assert (Hpl : (qproc t < length (procs g))%nat).
  { pose proof (q_len M own g HI). pose proof (div2_odd_idx i). rewrite Wp. apply (q_own M own g HI). destruct (Nat.odd i); lia. }
  set (ps := nth (qproc t) (procs g) dps) in *.
  (* threads keep their process and kind *)
  assert (Hsame : forall j u, nth_error (qthr g) j = Some u ->
                    exists u', nth_error (upd (qthr g) i t') j = Some u' /\ qfeeder u' = qfeeder u /\ qproc u' = qproc u).
  { intros j u Hu. destruct (Nat.eq_dec i j) as [E|E].
    - subst j. exists t'. rewrite (nth_error_upd_same _ _ _ _ _ Ht). assert (u = t) by congruence. subst u. auto.
    - exists u. rewrite nth_error_upd_other by auto. auto. }
  (* what the spawned list of the stepping process may have become *)
  assert (Hmono : forall j, In j (spawned ps) -> In j (spawned ps')).
  { intros j Hj. destruct Hsp as [E|(_ & E & _)]; [rewrite E; auto|rewrite E in Hj; destruct Hj]. }
  assert (Hnew : forall j, In j (spawned ps') -> In j (spawned ps) \/ (j = S i /\ qfeeder t = false)).
  { intros j Hj. destruct Hsp as [E|(F & _ & E & _)]; [rewrite <- E; auto|].
    rewrite E in Hj. destruct Hj as [Hj|[]]. right. auto. }
  constructor; cbn [qsems qthr pipe procs sendlog getlog]; unfold qv; cbn [qsems];
    rewrite ?length_upd, ?length_updp by auto.
  - exact Hsh.
  - apply (q_len M own g HI).
  - apply (q_own M own g HI).
  - intros j u Hu. destruct (nth_error_upd_inv _ _ _ _ _ _ Hu) as [[E1 E2]|[E1 E2]].
    + subst j u. rewrite Hp, Hfd. auto.
    + apply (q_wf M own g HI j u E2).
  - intros u Hu. destruct (In_upd _ _ _ _ _ Hu) as [Eu|Eu]; [subst u; auto|apply (q_li M own g HI); auto].
  - rewrite (sumz_upd _ _ _ _ _ _ Ht), sumz_updp by auto. exact Hcap.
  - exact Hcap0.
  - rewrite (sumz_upd _ _ _ _ _ _ Ht). exact Hrl.
  - rewrite (sumz_upd _ _ _ _ _ _ Ht). exact Hwl.
  - intros q Hq. rewrite (sumz_upd _ _ _ _ _ _ Ht).
    destruct (Nat.eq_dec q (qproc t)) as [E|E].
    + subst q. exact Hnl.
    + rewrite (Hnlo q E). pose proof (q_nl M own g HI q Hq) as [A B]. unfold qv in A, B.
      unfold qt_nl at 2 3. rewrite Hp.
      replace (Nat.eqb (qproc t) q) with false by (symmetry; apply Nat.eqb_neq; auto).
      destruct (qfin t), (qfin t'); split; lia.
  - (* per-producer FIFO *)
    intros q. destruct (Nat.eq_dec q (qproc t)) as [E|E].
    + subst q. rewrite nth_updp_same.
      destruct (qfeeder t) eqn:Ef.
      * (* the feeder of the process steps: it is THE feeder *)
        specialize (Hact eq_refl). pose proof (q_one M own g HI (qproc t)) as H1. fold ps in H1.
        assert (Es : spawned ps = [i]).
        { destruct (spawned ps) as [|a [|b l]] eqn:El; cbn [length] in H1; [destruct Hact| |lia].
          destruct Hact as [Ha|[]]. subst a. reflexivity. }
        destruct Hsp as [E'|(F & _)]; [|discriminate].
        unfold fd_ftr. rewrite E', Es. rewrite nth_upd_same by auto. exact Hfifo.
      * destruct Hsp as [E'|(_ & E0 & E' & _)].
        -- replace (fd_ftr ps' (upd (qthr g) i t')) with (fd_ftr ps (qthr g)); [exact Hfifo|].
           unfold fd_ftr. rewrite E'. destruct (spawned ps) as [|j l] eqn:El; [reflexivity|].
           destruct (q_sp M own g HI (qproc t) j) as (u & Hu & Uf & _); [fold ps; rewrite El; left; reflexivity|].
           assert (i <> j) by (intros ->; congruence).
           rewrite nth_upd_other by auto. reflexivity.
        -- replace (fd_ftr ps' (upd (qthr g) i t')) with (fd_ftr ps (qthr g)); [exact Hfifo|].
           unfold fd_ftr. rewrite E0, E'.
           destruct (slot_of_main M own g i t HI Ht Ef) as (u & Hu & Uf & Up & Hne).
           rewrite nth_upd_other by auto. rewrite (nth_error_nth _ _ dqt Hu).
           symmetry. apply ftr_pc0. apply (q_dorm M own g HI (S i) u Hu Uf).
           rewrite Up. fold ps. rewrite E0. intros [].
    + rewrite nth_updp_other by auto.
      replace (fd_ftr (nth q (procs g) dps) (upd (qthr g) i t')) with (fd_ftr (nth q (procs g) dps) (qthr g)); [apply (q_fifo M own g HI q)|].
      unfold fd_ftr. destruct (spawned (nth q (procs g) dps)) as [|j l] eqn:El; [reflexivity|].
      destruct (q_sp M own g HI q j) as (u & Hu & _ & Up); [rewrite El; left; reflexivity|].
      assert (i <> j) by (intros ->; assert (u = t) by congruence; subst u; congruence).
      rewrite nth_upd_other by auto. reflexivity.
  - exact Hpipe.
  - intros m. rewrite sumz_updp by auto. apply Hmerge.
  - exact Horder.
  - intros m Hm. rewrite (sumz_upd _ _ _ _ _ _ Ht). apply Hret; auto.
  - rewrite (sumz_upd _ _ _ _ _ _ Ht). exact Hunf.
  - (* started slots are feeder threads of their process *)
    intros q j Hj. destruct (Nat.eq_dec q (qproc t)) as [E|E].
    + subst q. rewrite nth_updp_same in Hj. destruct (Hnew j Hj) as [Ho|[-> Ef]].
      * destruct (q_sp M own g HI (qproc t) j Ho) as (u & Hu & Uf & Up).
        destruct (Hsame j u Hu) as (u' & A & B & C). exists u'. repeat split; congruence.
      * destruct (slot_of_main M own g i t HI Ht Ef) as (u & Hu & Uf & Up & Hne).
        destruct (Hsame (S i) u Hu) as (u' & A & B & C). exists u'. repeat split; congruence.
    + rewrite nth_updp_other in Hj by auto.
      destruct (q_sp M own g HI q j Hj) as (u & Hu & Uf & Up).
      destruct (Hsame j u Hu) as (u' & A & B & C). exists u'. repeat split; congruence.
  - (* at most one feeder per process *)
    intros q. destruct (Nat.eq_dec q (qproc t)) as [E|E].
    + subst q. rewrite nth_updp_same. destruct Hsp as [E'|(_ & _ & E' & _)]; rewrite E'; [apply (q_one M own g HI)|cbn; lia].
    + rewrite nth_updp_other by auto. apply (q_one M own g HI).
  - (* dormant slots stand at the beginning of _feed *)
    intros j u Hu Uf Hn. destruct (nth_error_upd_inv _ _ _ _ _ _ Hu) as [[E1 E2]|[E1 E2]].
    + subst j u. exfalso. apply Hn. rewrite Hp, nth_updp_same. apply Hmono. apply Hact. congruence.
    + apply (q_dorm M own g HI j u E2 Uf). intros Hin. apply Hn.
      destruct (Nat.eq_dec (qproc u) (qproc t)) as [E|E].
      * rewrite E in *. rewrite nth_updp_same. apply Hmono. exact Hin.
      * rewrite nth_updp_other by auto. exact Hin.
  - (* a thread standing at _start_thread sees no feeder *)
    intros j u Hu Hs. destruct (nth_error_upd_inv _ _ _ _ _ _ Hu) as [[E1 E2]|[E1 E2]].
    + subst j u. rewrite Hp, nth_updp_same. auto.
    + pose proof (q_st M own g HI j u E2 Hs) as Eo.
      destruct (Nat.eq_dec (qproc u) (qproc t)) as [E|E].
      * rewrite E in *. rewrite nth_updp_same. fold ps in Eo.
        destruct Hsp as [E'|(_ & _ & _ & Hl)]; [congruence|].
        exfalso. pose proof (at_start_nl u Hs) as Hu1. rewrite E in Hu1.
        pose proof (q_nl M own g HI (qproc t) Hpl) as [A B].
        assert (qt_nl (qproc t) t + qt_nl (qproc t) u <= sumz (qt_nl (qproc t)) (qthr g)).
        { apply (sumz_two _ (qt_nl (qproc t)) (qthr g) i j); auto. intros x _. apply qt_01. }
        lia.
      * rewrite nth_updp_other by auto. exact Eo.
  - (* nothing is buffered before a feeder exists *)
    intros q. destruct (Nat.eq_dec q (qproc t)) as [E|E].
    + subst q. rewrite nth_updp_same. exact Hb0.
    + rewrite nth_updp_other by auto. apply (q_b0 M own g HI).
  - (* per thread: appended in call order *)
    intros j u Hu. destruct (nth_error_upd_inv _ _ _ _ _ _ Hu) as [[E1 E2]|[E1 E2]].
    + subst j u. rewrite Hp, nth_updp_same. exact Htp.
    + pose proof (q_tp M own g HI j u E2) as Ho.
      destruct (Nat.eq_dec (qproc u) (qproc t)) as [E|E].
      * rewrite E in *. rewrite nth_updp_same. fold ps in Ho. destruct Hpl' as [l El]. rewrite El.
        apply subseq_app_r. exact Ho.
      * rewrite nth_updp_other by auto. exact Ho.
Qed.

(* a feeder thread that can step is THE feeder of its process *)
Lemma active_feeder : forall M own g i t, QInv M own g -> nth_error (qthr g) i = Some t ->
    qdormant g i t = false -> qfeeder t = true ->
    In i (spawned (nth (qproc t) (procs g) dps)) /\ fd_ftr (nth (qproc t) (procs g) dps) (qthr g) = ftr t.
Proof.
  intros M own g i t HI Ht Hd Hf. unfold qdormant in Hd. rewrite Hf in Hd. cbn [andb] in Hd.
  apply negb_false_iff in Hd. apply existsb_exists in Hd. destruct Hd as (j & Hj & Ej).
  apply Nat.eqb_eq in Ej. subst j. split; [exact Hj|].
  pose proof (q_one M own g HI (qproc t)) as H1. unfold fd_ftr.
  destruct (spawned (nth (qproc t) (procs g) dps)) as [|a [|b l]]; cbn [length] in H1; [destruct Hj| |lia].
  destruct Hj as [->|[]]. rewrite (nth_error_nth _ _ dqt Ht). reflexivity.
Qed.

Lemma order_keep : forall g p ps',
    (forall q, from_proc q (sendlog g) = slog (nth q (procs g) dps)) ->
    slog ps' = slog (nth p (procs g) dps) ->
    forall q, from_proc q (sendlog g) = slog (nth q (updp (procs g) p ps') dps).
Proof.
  intros g p ps' H E q. destruct (Nat.eq_dec p q) as [Eq|Eq].
  - subst q. rewrite nth_updp_same, E. apply H.
  - rewrite nth_updp_other by auto. apply H.
Qed.

Lemma order_send : forall g p ps' m,
    (forall q, from_proc q (sendlog g) = slog (nth q (procs g) dps)) ->
    slog ps' = slog (nth p (procs g) dps) ++ [m] ->
    forall q, from_proc q (sendlog g ++ [(p, m)]) = slog (nth q (updp (procs g) p ps') dps).
Proof.
  intros g p ps' m H E q. unfold from_proc. rewrite filter_app, map_app. cbn [filter fst].
  destruct (Nat.eq_dec p q) as [Eq|Eq].
  - subst q. rewrite nth_updp_same, E, Nat.eqb_refl. cbn [map snd]. f_equal. apply H.
  - rewrite nth_updp_other by auto. replace (Nat.eqb p q) with false by (symmetry; apply Nat.eqb_neq; auto).
    cbn [map]. rewrite app_nil_r. apply H.
Qed.


Lemma blen_mk : forall b n s p l, blen (mkP b n s p l) = Z.of_nat (length b).
Proof. reflexivity. Qed.

Ltac qgoalw :=
  cbn [qt_tr qt_rl qt_wl qt_nl ftr w_tr w_rl w_wl w_nl r0 r1 r2 r3 r4 r5 r6 r7
       qproc qfeeder qcur qpc qrg qheld qscript qresults qfin qcid fst snd val set_val maxv recur
       buf nw spawned plog slog blen a2_of length].

Ltac qside := lia.    (* the context carries nls p = 8 + 2p and nss p = 9 + 2p *)

Ltac qret_tac Iret :=
  let m := fresh "m" in let Hm := fresh "Hm" in
  intros m Hm; unfold E_EMPTY in Hm; rewrite ?zcnt_app, <- (Iret m Hm); unfold qt_ret;
  repeat match goal with E : qresults ?t = _ |- context [qresults ?t] => rewrite E
                    | E : gheld ?t = [] |- context [gheld ?t] => rewrite E end;
  cbn [rcount gheld zcnt qfin qcid qpc qcur qrg qresults fst snd r4 Nat.eqb andb];
  repeat match goal with |- context [if ?b then _ else _] => destruct b eqn:? end; lia.

Ltac qunf_tac :=
  rewrite !qt_unf_eq;
  repeat match goal with
         | E : qresults ?t = _ |- context [qresults ?t] => rewrite E
         | E : qw_unf ?t = 0 |- context [qw_unf ?t] => rewrite E
         end;
  cbn [qw_unf pcount dcount qfin qcid qpc qcur qresults fst snd w_pc w_dc Nat.eqb andb negb];
  unfold V_NONE, E_VALUE, E_ASSERT, E_FULL, E_EMPTY;
  repeat match goal with |- context [if ?b then _ else _] =>
    first [ let v := eval vm_compute in b in lazymatch v with true => change b with true | false => change b with false end
          | destruct b eqn:? ] end;
  split; lia.

Ltac qtp_tac Itp :=
  unfold tput;
  repeat match goal with
         | E : qresults ?t = _ |- context [qresults ?t] => rewrite E
         | E : pheld ?t = [] |- context [pheld ?t] => rewrite E
         end;
  cbn [pseq pheld is_putc qresults qfin qcid qpc qcur plog fst snd Nat.eqb orb andb];
  unfold V_NONE, E_VALUE, E_ASSERT, E_FULL, E_EMPTY;
  repeat match goal with |- context [if ?b then _ else _] =>
    first [ let v := eval vm_compute in b in lazymatch v with true => change b with true | false => change b with false end
          | destruct b eqn:? ] end;
  rewrite ?app_nil_r in Itp; rewrite ?app_nil_r;
  try match goal with Hx : ?x = ?a |- Subseq (_ ++ [?a]) (_ ++ [?x]) => rewrite Hx end;
  first [ exact Itp | (apply subseq_snoc; exact Itp) | (apply subseq_app_r; exact Itp) ].

Ltac qprem HI Wf Eps Imerge Hh4 Ififo Ipipe Iorder Iret Ib0 Itp :=
  cbn [qproc qfeeder]; rewrite <- ?Wf, <- ?Eps;
  rewrite ?nth_upds_same; rewrite ?nth_upds_other by qside;
  qgoalw; rewrite ?Nat.eqb_refl; cbn [Nat.odd app];
  first
    [ reflexivity
    | assumption
    | lia
    | split; lia
    | (left; reflexivity)                              (* nothing started by this step *)
    | (right; repeat split; reflexivity)               (* _start_thread: the first feeder of the process *)
    | match goal with |- _ = true -> In _ _ => intros; first [discriminate | assumption] end
    | match goal with |- at_start ?t' -> _ =>
        let Hs := fresh "Hs" in intros Hs;
        let Hsn := fresh "Hsn" in let Hsa := fresh "Hsa" in let Hsb := fresh "Hsb" in
        first [ exfalso; pose proof (at_start_nl _ Hs) as Hsn;
                match type of Hsn with qt_nl ?q ?u = 1 =>
                  match goal with L : forall q0, qt_nl q0 u = 0 |- _ => rewrite L in Hsn; discriminate end end
              | destruct Hs as (_ & [[Hsa Hsb]|[Hsa Hsb]]); unfold qcid in Hsa; cbn [qcur qpc fst] in Hsa, Hsb;
                first [discriminate | reflexivity | assumption] ] end
    | match goal with |- exists l, _ = _ ++ l =>
        first [ exists []; rewrite app_nil_r; reflexivity | eexists; reflexivity ] end
    | match goal with |- Subseq (tput _) _ => qtp_tac Itp end
    | match goal with |- _ = [] -> _ = [] =>
        let Eb := fresh "Eb" in intros Eb;
        first [discriminate | reflexivity | exact (Ib0 Eb) | (specialize (Ib0 Eb); discriminate)] end
    | exact (q_shape _ _ _ HI)
    | apply qshape_upds; [exact (q_shape _ _ _ HI) | reflexivity | reflexivity]
    | (intros q Hq; pose proof (nls_eq q); pose proof (nss_eq q); rewrite ?nth_upds_other by lia; reflexivity)
    | (intros m; rewrite ?map_app, ?zcnt_app, (Imerge m); cbn [map snd zcnt]; lia)
    | (apply order_keep; [exact Iorder | rewrite <- Eps; reflexivity])
    | (apply order_send; [exact Iorder | rewrite <- Eps; reflexivity])
    | qret_tac Iret
    | qunf_tac
    | match goal with |- QLI _ =>
        unfold QLI; qgoalw; cbn [qli_pc]; rewrite ?nth_updz_same, ?nth_updz_other by qside;
        repeat split; auto; try lia; try discriminate; try (unfold okq; cbn [fst snd]; lia) end
    | (rewrite ?blen_mk in *; cbn [length] in *; rewrite ?app_length; cbn [length]; lia)
    | (try (match goal with E : picklable ?m = true |- _ =>
              rewrite ?(pk_cons_true m _ E) in Ififo; rewrite ?(pk_cons_true m _ E) end);
       try (match goal with E : picklable ?m = false |- _ =>
              rewrite ?(pk_cons_false m _ E) in Ififo; rewrite ?(pk_cons_false m _ E) end);
       rewrite ?pk_nil in Ififo; rewrite ?pk_nil; rewrite ?pk_app, ?Ififo, <- ?app_assoc; cbn [app]; reflexivity)
    | (rewrite ?map_app, ?Ipipe, <- ?app_assoc; cbn [app map snd]; reflexivity)
    | idtac ].

