(* C14, the re-entrant free: a free() issued by the thread that is inside malloc()/free()
   (a finaliser run by the garbage collector) finds the lock taken and only appends to the
   pending list.  Nothing that malloc/free do after _free_pending_blocks reads or writes that
   list, so at whichever point the finaliser runs the outcome is the one of
   "the outer call, then a deferred free".  Everything here is equational (no invariant needed). *)
From Coq Require Import ZArith List Bool Lia.
From BV Require Import Lib.PyVal Model.Heap.
Import ListNotations.
Open Scope Z_scope.

Ltac prj := cbn [lengths l2s s2b e2b alloc arenas nsize pending bind
                 set_l2s_lengths set_s2b set_e2b set_alloc set_pending free_deferred].
Ltac crunch :=
  repeat (prj; match goal with
               | |- context [match ?x with _ => _ end] => destruct x eqn:?
               end); prj; try reflexivity.

(* ---- the primitives commute with the append to the pending list ---- *)
Lemma del_keys_dfr h v b :
  del_keys (free_deferred h v) b = do h' <- del_keys h b; OK (free_deferred h' v).
Proof. destruct h. unfold del_keys. crunch. Qed.

Lemma take_dfr h v i :
  take (free_deferred h v) i = do bh <- take h i; OK (fst bh, free_deferred (snd bh) v).
Proof.
  unfold take. prj.
  destruct (nth_error (lengths h) i) as [len|]; [|reflexivity].
  destruct (dget Z.eqb len (l2s h)) as [seq|]; [|reflexivity].
  destruct (pop_last seq) as [[seq' b]|]; [|reflexivity].
  destruct (is_nil seq').
  - destruct (ddel Z.eqb len (l2s h)) as [d|].
    + change (set_l2s_lengths (free_deferred h v) d (del_nth i (lengths h)))
        with (free_deferred (set_l2s_lengths h d (del_nth i (lengths h))) v).
      rewrite del_keys_dfr. destruct (del_keys _ b); reflexivity.
    + rewrite del_keys_dfr. destruct (del_keys _ b); reflexivity.
  - change (set_l2s_lengths (free_deferred h v) (dset Z.eqb len seq' (l2s h)) (lengths h))
      with (free_deferred (set_l2s_lengths h (dset Z.eqb len seq' (l2s h)) (lengths h)) v).
    rewrite del_keys_dfr. destruct (del_keys _ b); reflexivity.
Qed.

Lemma c_malloc_dfr pg h v size :
  c_malloc pg (free_deferred h v) size =
  do bh <- c_malloc pg h size; OK (fst bh, free_deferred (snd bh) v).
Proof.
  unfold c_malloc. prj.
  destruct (Nat.eqb (bisect_left (lengths h) size) (length (lengths h))); [reflexivity|].
  apply take_dfr.
Qed.

Lemma absorb_dfr h v b :
  absorb (free_deferred h v) b = do h' <- absorb h b; OK (free_deferred h' v).
Proof.
  unfold absorb. rewrite del_keys_dfr. destruct (del_keys h b) as [h1|e]; [|reflexivity].
  destruct h1. crunch.
Qed.

Lemma free_prev_dfr h v b :
  free_prev (free_deferred h v) b = do hs <- free_prev h b; OK (free_deferred (fst hs) v, snd hs).
Proof.
  unfold free_prev. prj. destruct (dget key_eqb (skey b) (e2b h)) as [p|]; [|reflexivity].
  rewrite absorb_dfr. destruct (absorb h p); reflexivity.
Qed.

Lemma free_next_dfr h v b :
  free_next (free_deferred h v) b = do hs <- free_next h b; OK (free_deferred (fst hs) v, snd hs).
Proof.
  unfold free_next. prj. destruct (dget key_eqb (ekey b) (s2b h)) as [p|]; [|reflexivity].
  rewrite absorb_dfr. destruct (absorb h p); reflexivity.
Qed.

Lemma free_insert_dfr h v m :
  free_insert (free_deferred h v) m = free_deferred (free_insert h m) v.
Proof. destruct h. unfold free_insert. crunch. Qed.

Lemma c_free_dfr h v b :
  c_free (free_deferred h v) b = do h' <- c_free h b; OK (free_deferred h' v).
Proof.
  unfold c_free. rewrite free_prev_dfr. destruct (free_prev h b) as [[h1 st]|e]; [|reflexivity].
  cbn [bind fst snd]. rewrite free_next_dfr. destruct (free_next h1 b) as [[h2 en]|e]; [|reflexivity].
  cbn [bind fst snd]. rewrite free_insert_dfr. reflexivity.
Qed.

Lemma set_alloc_dfr h v a : set_alloc (free_deferred h v) a = free_deferred (set_alloc h a) v.
Proof. reflexivity. Qed.
Lemma alloc_dfr h v : alloc (free_deferred h v) = alloc h.
Proof. reflexivity. Qed.

(* ---- no finaliser: the instrumented functions are the plain ones ---- *)
Lemma c_free_re_none re h b : c_free_re re None h b = c_free h b.
Proof.
  unfold c_free_re, c_free, nested. destruct (free_prev h b) as [[h1 st]|e]; [|reflexivity].
  cbn [bind]. destruct (free_next h1 b) as [[h2 en]|e]; reflexivity.
Qed.

Theorem malloc_re_none re pg h n : malloc_re re pg None h n = malloc pg h n.
Proof.
  unfold malloc_re, malloc, nested_skip, nested. destruct ((n <? 0) || (maxsize <=? n)); [reflexivity|].
  cbn [bind]. destruct (drain h) as [h1|e]; [|reflexivity]. cbn [bind].
  destruct (c_malloc pg h1 (norm_size n)) as [[blk h2]|e]; [|reflexivity]. cbn [bind].
  rewrite c_free_re_none.
  destruct (b_start blk + norm_size n <? b_stop blk); [destruct (c_free h2 _); reflexivity|reflexivity].
Qed.

Theorem free_re_none re h b : free_re re None h b = free h b.
Proof.
  unfold free_re, free, free_one, nested. cbn [bind]. destruct (drain h) as [h1|e]; [|reflexivity]. cbn [bind].
  destruct (remove1 block_eqb b (alloc h1)) as [a|]; [|reflexivity].
  rewrite c_free_re_none. destruct (c_free _ b); reflexivity.
Qed.

(* ---- the lock is not re-entrant: the nested free is a deferred free ---- *)
Definition in_free (p : rpoint) : bool :=
  match p with RPrev | RNext | RInserted => true | _ => false end.

Lemma c_free_re_in p v h b : in_free p = true ->
  c_free_re false (Some (p, v)) h b = do h' <- c_free h b; OK (free_deferred h' v).
Proof.
  intros Hp. unfold c_free_re, c_free, nested, free_nested.
  destruct (free_prev h b) as [[h1 st]|e]; [|reflexivity]. cbn [bind].
  destruct p; try discriminate Hp; cbn [rpoint_eqb bind].
  - rewrite free_next_dfr. destruct (free_next h1 b) as [[h2 en]|e]; [|reflexivity].
    cbn [bind fst snd]. rewrite free_insert_dfr. reflexivity.
  - destruct (free_next h1 b) as [[h2 en]|e]; [|reflexivity].
    cbn [bind]. rewrite free_insert_dfr. reflexivity.
  - destruct (free_next h1 b) as [[h2 en]|e]; reflexivity.
Qed.

Lemma c_free_re_out re p v h b : in_free p = false ->
  c_free_re re (Some (p, v)) h b = c_free h b.
Proof.
  intros Hp. unfold c_free_re, c_free, nested.
  destruct (free_prev h b) as [[h1 st]|e]; [|reflexivity]. cbn [bind].
  destruct p; try discriminate Hp; cbn [rpoint_eqb bind];
    (destruct (free_next h1 b) as [[h2 en]|e]; reflexivity).
Qed.

Lemma nested_skip_in p v h : in_free p = true ->
  nested_skip false (Some (p, v)) h = OK (free_deferred h v).
Proof. intros Hp. destruct p; try discriminate Hp; reflexivity. Qed.

Lemma nested_skip_out re p v h : in_free p = false -> nested_skip re (Some (p, v)) h = OK h.
Proof. intros Hp. destruct p; try discriminate Hp; reflexivity. Qed.

(* the finaliser runs before the pending list is drained: as if the deferred free had come first *)
Theorem malloc_re_locked pg v h n :
  malloc_re false pg (Some (RLocked, v)) h n = malloc pg (free_deferred h v) n.
Proof.
  unfold malloc_re, malloc, nested, free_nested. cbn [rpoint_eqb bind].
  destruct ((n <? 0) || (maxsize <=? n)); [reflexivity|].
  destruct (drain (free_deferred h v)) as [h1|e]; [|reflexivity]. cbn [bind].
  destruct (c_malloc pg h1 (norm_size n)) as [[blk h2]|e]; [|reflexivity]. cbn [bind].
  rewrite c_free_re_out, nested_skip_out by reflexivity.
  destruct (b_start blk + norm_size n <? b_stop blk); [destruct (c_free h2 _); reflexivity|reflexivity].
Qed.

Theorem free_re_locked v h b :
  free_re false (Some (RLocked, v)) h b = free (free_deferred h v) b.
Proof.
  unfold free_re, free, free_one, nested, free_nested. cbn [rpoint_eqb bind].
  destruct (drain (free_deferred h v)) as [h1|e]; [|reflexivity]. cbn [bind].
  destruct (remove1 block_eqb b (alloc h1)) as [a|]; [|reflexivity]. cbn [bind].
  rewrite c_free_re_out by reflexivity. destruct (c_free _ b); reflexivity.
Qed.

(* the finaliser runs at any later point under the lock: the outer call, then the deferred free *)
Theorem malloc_re_post pg p v h n : p <> RLocked ->
  malloc_re false pg (Some (p, v)) h n = do bh <- malloc pg h n; OK (fst bh, free_deferred (snd bh) v).
Proof.
  intros Hp. unfold malloc_re, malloc.
  destruct ((n <? 0) || (maxsize <=? n)); [reflexivity|].
  assert (E0 : nested false (Some (p, v)) RLocked h = OK h) by (destruct p; [contradiction| | | | | |]; reflexivity).
  rewrite E0. cbn [bind]. destruct (drain h) as [h1|e]; [|reflexivity]. cbn [bind].
  destruct p; [contradiction| | | | | |]; unfold nested at 1, free_nested; cbn [rpoint_eqb bind].
  - (* RDrained *)
    rewrite c_malloc_dfr. destruct (c_malloc pg h1 (norm_size n)) as [[blk h2]|e]; [|reflexivity].
    cbn [bind fst snd nested rpoint_eqb]. rewrite c_free_re_out, nested_skip_out by reflexivity.
    destruct (b_start blk + norm_size n <? b_stop blk).
    + rewrite c_free_dfr. destruct (c_free h2 _); reflexivity.
    + reflexivity.
  - (* RTaken *)
    destruct (c_malloc pg h1 (norm_size n)) as [[blk h2]|e]; [|reflexivity].
    cbn [bind nested rpoint_eqb free_nested]. rewrite c_free_re_out, nested_skip_out by reflexivity.
    destruct (b_start blk + norm_size n <? b_stop blk).
    + rewrite c_free_dfr. destruct (c_free h2 _); reflexivity.
    + reflexivity.
  - (* RPrev *)
    destruct (c_malloc pg h1 (norm_size n)) as [[blk h2]|e]; [|reflexivity].
    cbn [bind nested rpoint_eqb]. rewrite c_free_re_in, nested_skip_in by reflexivity.
    destruct (b_start blk + norm_size n <? b_stop blk); [destruct (c_free h2 _); reflexivity|reflexivity].
  - (* RNext *)
    destruct (c_malloc pg h1 (norm_size n)) as [[blk h2]|e]; [|reflexivity].
    cbn [bind nested rpoint_eqb]. rewrite c_free_re_in, nested_skip_in by reflexivity.
    destruct (b_start blk + norm_size n <? b_stop blk); [destruct (c_free h2 _); reflexivity|reflexivity].
  - (* RInserted *)
    destruct (c_malloc pg h1 (norm_size n)) as [[blk h2]|e]; [|reflexivity].
    cbn [bind nested rpoint_eqb]. rewrite c_free_re_in, nested_skip_in by reflexivity.
    destruct (b_start blk + norm_size n <? b_stop blk); [destruct (c_free h2 _); reflexivity|reflexivity].
  - (* RDone *)
    destruct (c_malloc pg h1 (norm_size n)) as [[blk h2]|e]; [|reflexivity].
    cbn [bind nested rpoint_eqb free_nested]. rewrite c_free_re_out, nested_skip_out by reflexivity.
    destruct (b_start blk + norm_size n <? b_stop blk); [destruct (c_free h2 _); reflexivity|reflexivity].
Qed.

Theorem free_re_post p v h b : p <> RLocked ->
  free_re false (Some (p, v)) h b = do h' <- free h b; OK (free_deferred h' v).
Proof.
  intros Hp. unfold free_re, free, free_one.
  assert (E0 : nested false (Some (p, v)) RLocked h = OK h) by (destruct p; [contradiction| | | | | |]; reflexivity).
  rewrite E0. cbn [bind]. destruct (drain h) as [h1|e]; [|reflexivity]. cbn [bind].
  destruct p; [contradiction| | | | | |]; unfold nested at 1, free_nested; cbn [rpoint_eqb bind].
  - (* RDrained *)
    rewrite alloc_dfr. destruct (remove1 block_eqb b (alloc h1)) as [a|]; [|reflexivity].
    cbn [nested rpoint_eqb bind]. rewrite c_free_re_out by reflexivity.
    rewrite set_alloc_dfr, c_free_dfr. destruct (c_free _ b); reflexivity.
  - (* RTaken *)
    destruct (remove1 block_eqb b (alloc h1)) as [a|]; [|reflexivity].
    cbn [nested rpoint_eqb bind free_nested]. rewrite c_free_re_out by reflexivity.
    rewrite c_free_dfr. destruct (c_free _ b); reflexivity.
  - destruct (remove1 block_eqb b (alloc h1)) as [a|]; [|reflexivity].
    cbn [nested rpoint_eqb bind]. rewrite c_free_re_in by reflexivity. destruct (c_free _ b); reflexivity.
  - destruct (remove1 block_eqb b (alloc h1)) as [a|]; [|reflexivity].
    cbn [nested rpoint_eqb bind]. rewrite c_free_re_in by reflexivity. destruct (c_free _ b); reflexivity.
  - destruct (remove1 block_eqb b (alloc h1)) as [a|]; [|reflexivity].
    cbn [nested rpoint_eqb bind]. rewrite c_free_re_in by reflexivity. destruct (c_free _ b); reflexivity.
  - (* RDone *)
    destruct (remove1 block_eqb b (alloc h1)) as [a|]; [|reflexivity].
    cbn [nested rpoint_eqb bind free_nested]. rewrite c_free_re_out by reflexivity. destruct (c_free _ b); reflexivity.
Qed.
