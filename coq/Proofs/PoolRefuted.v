(* The recorded defects of the pinned tree around the pool (known_findings.json), as theorems
   about the model: each clause of a property that the code does NOT satisfy is refuted by a
   concrete history, evaluated in the model by vm_compute.  The same histories are in
   corpus/pool.json and are replayed on the real code on every run (the model agrees with the
   implementation on them, and the `mon_known_*` monitors print the KNOWN-FINDING lines). *)
From Coq Require Import ZArith List Bool Lia.
From BV Require Import Lib.Cases Model.LaxSem Model.Restart Model.Pool.
Import ListNotations.
Open Scope Z_scope.

Definition cfg2 := mkcfg 2 None None None None 1 false false.
Definition cfg2l3 := mkcfg 2 None None (Some 3) None 1 false false.
Definition cfg2p := mkcfg 2 None None None None 1 true false.

(* D4 (C04 "the loss is reported for every kind of job handle rather than leaving the caller
   waiting forever"): an ordered imap handle whose worker died: the grace period is over and the
   supervision pass has run, the failure sits in the reorder buffer under the key None, and the
   consumer's next() still finds nothing *)
Definition d4 := [EIMap 2; EFeed None false; EAck 0 (Some 0) 0; EExit 0 (-9); ETick; EAdvance 4; ETick].
Theorem imap_loss_not_delivered :
  exists c tr j x lt st,
    get_job (run c tr) j = Some x /\ kind x = KIMap /\ ready x = false
    /\ worker_lost x = Some (lt, st) /\ lost_timeout x < now (run c tr) - lt   (* long past its grace period *)
    /\ last tr EJunk = ETick                                                    (* and a pass has just run *)
    /\ items x = [] /\ snd (step (run c tr) (ENext j)) = REmpty.                (* the consumer is told nothing *)
Proof. exists cfg2l3, d4, 0. eexists. exists 1000, (-9). split; [vm_compute; reflexivity|]. vm_compute. repeat split; reflexivity. Qed.

(* D3 (C04 "workers that exit after finishing their work (recycling, shutdown) cause no
   failure"): the only part of a map job a recycled worker had accepted was finished and its
   result handled; the job is failed with WorkerLostError(recycle status) all the same *)
Definition d3 := [EMap 2 1; EFeed None false; EAck 0 (Some 0) 0; EReady 0 (Some 0) true 5;
                  EExit 0 155; ETick; EAdvance 11; ETick].
Theorem spurious_loss_finished_parts :
  exists c tr j x,
    get_job (run c tr) j = Some x /\ kind x = KMap
    /\ value x = Some (PLost EX_RECYCLE j) /\ cb_err x = 1.
Proof. exists cfg2, d3, 0. eexists. split; [vm_compute; reflexivity|]. vm_compute. repeat split; reflexivity. Qed.

(* D11 (C04 "no later than that timeout plus one supervision period"): the acknowledgement of a
   worker that has already been reaped arrives afterwards; the job is never marked, and a pass
   after the time limit (and another one after it again) reports nothing *)
Definition d11 := [EApply None None None None; EExit 0 (-11); ETick; EAck 0 None 0;
                   EAdvance 11; ETick; EAdvance 11; ETick].
Theorem owner_gone_but_no_marker :
  exists c tr j x p,
    get_job (run c tr) j = Some x /\ kind x = KApply /\ wp x = [p]
    /\ in_pool (run c tr) p = false                 (* its worker is gone ... *)
    /\ exited (run c tr) p = true
    /\ ready x = false /\ worker_lost x = None      (* ... it is not failed and not even marked *)
    /\ last tr EJunk = ETick.
Proof. exists cfg2, d11, 0. eexists. exists 0. split; [vm_compute; reflexivity|]. vm_compute. repeat split; reflexivity. Qed.

(* D14 (C05 "a per-job limit takes precedence over the pool default"): a job submitted with its
   own hard limit to a pool created without limits: there is no scanner, nothing enforces it *)
Definition d14 := [EApply None (Some 3) None None; EAck 0 None 0; EAdvance 5].
Theorem limit_without_scanner :
  exists c tr j x t,
    get_job (run c tr) j = Some x /\ hard x = Some 3 /\ time_accepted x = Some t
    /\ t + 3 <= now (run c tr) /\ ready x = false
    /\ step (run c tr) (EScan false) = (with_sigs (run c tr) [], RNoScanner).
Proof. exists cfg2, d14, 0. eexists. exists 1000. split; [vm_compute; reflexivity|]. vm_compute. repeat split; try reflexivity; discriminate. Qed.

(* D13 (C10 "never more admitted than slots"): the first result of a map job, which took no
   slot, gives one back: a third slot-holding apply job is admitted to a pool of two *)
Definition d13 := [EApply None None None None; EApply None None None None; EMap 2 1; EFeed None false;
                   EAck 2 (Some 0) 0; EReady 2 (Some 0) true 1; EApply None None None None].
Theorem more_slot_holders_than_slots :
  exists c tr,
    putlocks (run c tr) = true
    /\ Z.of_nat (length (filter (fun x => match kind x with KApply => negb (ready x) | _ => false end)
                                (jobs (run c tr))))
       > LaxSem.bound (sem (run c tr)).
Proof. exists cfg2p, d13. vm_compute. split; reflexivity. Qed.

(* D19 (C09 "supervision brings the number of live workers back to the configured size", C07
   "every job submitted before it still resolves"): after close() exited workers are not
   replaced: no worker is left, three jobs submitted before close() can never run *)
Definition d19 := [EApply None None None None; EApply None None None None; EApply None None None None;
                   EClose; EExit 0 155; EExit 1 155; ETick].
Theorem no_replacement_after_close :
  exists c tr,
    wlist (run c tr) = [] /\ nprocs (run c tr) = 2
    /\ length (filter (fun x => negb (ready x)) (jobs (run c tr))) = 3%nat
    /\ wlist (fst (step (run c tr) ETick)) = []          (* and a further pass still starts nobody *)
    /\ pstate (run c tr) = 1.
Proof. exists cfg2, d19. vm_compute. repeat split; reflexivity. Qed.

(* D7 (C07 "without waiting out the 30-second guard"): the result counter a worker waits on
   before it exits is credited to the FIRST owner of a multi-part job, not to the worker that sent
   the result: worker 1 sent the result of part 1, worker 0 is credited *)
Definition d7 := [EMap 2 1; EFeed None false; EAck 0 (Some 0) 0; EAck 0 (Some 1) 1; EReady 0 (Some 1) true 3].
Theorem result_credited_to_other_worker :
  exists c tr,
    map (fun q => (pid q, counter q)) (procs (run c tr)) = [(0, 1); (1, 0)]
    /\ (exists x, get_job (run c tr) 0 = Some x /\ cp x = [Some 0; Some 1]).
Proof. exists cfg2, d7. vm_compute. split; [reflexivity|eexists; split; reflexivity]. Qed.
