(* C02, Part C: IMapIterator / IMapUnorderedIterator release order.
   Part D: the generator of imap(chunksize > 1). *)
From Coq Require Import ZArith List Bool Lia ZifyBool Arith PeanoNat Permutation.
From BV Require Import Lib.PyVal Lib.Cases Model.Reassembly Proofs.ReassemblyProofs.
Import ListNotations.
Open Scope Z_scope.

(* ------------------------------------------------------------------ *)
(* the _unsorted dict                                                   *)
Section Dict.
Context {B : Type}.
Implicit Types (d : list (Z * B)).

Lemma dict_get_remove d k j :
    dict_get (dict_remove d k) j = if j =? k then None else dict_get d j.
Proof.
  induction d as [|[k' v] d IH]; cbn [dict_remove dict_get].
  - destruct (j =? k); reflexivity.
  - destruct (k' =? k) eqn:E1.
    + rewrite IH. destruct (j =? k) eqn:E2; [reflexivity|].
      replace (k' =? j) with false by lia. reflexivity.
    + cbn [dict_get]. rewrite IH. destruct (k' =? j) eqn:E3; [|reflexivity].
      replace (j =? k) with false by lia. reflexivity.
Qed.

Lemma dict_get_set d k v j :
    dict_get (dict_set d k v) j = if j =? k then Some v else dict_get d j.
Proof.
  unfold dict_set. cbn [dict_get]. rewrite dict_get_remove.
  destruct (k =? j) eqn:E1; destruct (j =? k) eqn:E2; try reflexivity; lia.
Qed.

Lemma dict_remove_length d k : (length (dict_remove d k) <= length d)%nat.
Proof.
  induction d as [|[k' v] d IH]; cbn [dict_remove length]; [lia|].
  destruct (k' =? k); cbn [length]; lia.
Qed.

Lemma dict_remove_length_lt d k v :
    dict_get d k = Some v -> (length (dict_remove d k) < length d)%nat.
Proof.
  induction d as [|[k' v'] d IH]; cbn [dict_get dict_remove length]; [discriminate|].
  destruct (k' =? k) eqn:E; intros H.
  - pose proof (dict_remove_length d k). lia.
  - cbn [length]. specialize (IH H). lia.
Qed.
End Dict.

Definition mem (i : nat) (S : list nat) : bool := existsb (Nat.eqb i) S.
Lemma mem_In i S : mem i S = true <-> In i S.
Proof.
  unfold mem. rewrite existsb_exists. split.
  - intros (x & Hx & He). apply Nat.eqb_eq in He. subst x. exact Hx.
  - intros H. exists i. split; [exact H|apply Nat.eqb_refl].
Qed.
Lemma mem_cons i j S : mem i (j :: S) = (Nat.eqb i j || mem i S).
Proof. reflexivity. Qed.

Section ListSeg.
Context {X : Type}.
Open Scope nat_scope.

(* objs[a:b] *)
Definition seg (l : list X) (a b : nat) : list X := firstn (b - a) (skipn a l).

Lemma seg_nil l a : seg l a a = [].
Proof. unfold seg. rewrite Nat.sub_diag. reflexivity. Qed.

Lemma firstn_succ_nth (l : list X) (c : nat) (x : X) :
    nth_error l c = Some x -> firstn (S c) l = firstn c l ++ [x].
Proof.
  revert l. induction c as [|c IH]; intros l H; destruct l as [|y l]; try discriminate.
  - cbn in H. inversion H; reflexivity.
  - cbn [nth_error] in H. cbn [firstn app]. f_equal. apply IH. exact H.
Qed.

Lemma firstn_add (x y : nat) (l : list X) :
    firstn (x + y) l = firstn x l ++ firstn y (skipn x l).
Proof.
  revert l. induction x as [|x IH]; intros l; [reflexivity|].
  destruct l as [|z l]; [destruct y; reflexivity|]. cbn [Nat.add firstn skipn app].
  f_equal. apply IH.
Qed.

Lemma seg_app l a b c : a <= b -> b <= c -> seg l a b ++ seg l b c = seg l a c.
Proof.
  intros Hab Hbc. unfold seg.
  replace (c - a) with ((b - a) + (c - b)) by lia.
  rewrite firstn_add, skipn_add. replace (a + (b - a)) with b by lia. reflexivity.
Qed.

Lemma seg_0 l b : seg l 0 b = firstn b l.
Proof. unfold seg. rewrite Nat.sub_0_r. reflexivity. Qed.

Lemma seg_one l a x : nth_error l a = Some x -> seg l a (S a) = [x].
Proof.
  intros H. unfold seg. replace (S a - a) with 1 by lia.
  assert (Hs : nth_error (skipn a l) 0 = Some x) by (rewrite nth_error_skipn', Nat.add_0_r; exact H).
  destruct (skipn a l) as [|y r]; [discriminate|]. cbn in Hs. inversion Hs. reflexivity.
Qed.

Lemma seg_all l : seg l 0 (length l) = l.
Proof. rewrite seg_0. apply firstn_all. Qed.

(* splitting a prefix at the consumer's position *)
Lemma prefix_head (l : list X) (c rho : nat) (x : X) (r : list X) :
    firstn c l = firstn rho l ++ x :: r -> rho <= c -> c <= length l ->
    nth_error l rho = Some x /\ rho < c /\ firstn c l = firstn (S rho) l ++ r.
Proof.
  intros H Hr Hc.
  assert (Hlen : length (firstn c l) = length (firstn rho l ++ x :: r)) by (rewrite H; reflexivity).
  rewrite app_length, !firstn_length in Hlen. cbn [length] in Hlen.
  assert (Hlt : rho < c) by lia.
  assert (Hx : nth_error l rho = Some x).
  { rewrite <- (nth_error_firstn' c rho l Hlt), H.
    rewrite nth_error_app2 by (rewrite firstn_length; lia).
    rewrite firstn_length. replace (rho - Nat.min rho (length l)) with 0 by lia. reflexivity. }
  split; [exact Hx|]. split; [exact Hlt|].
  rewrite (firstn_succ_nth l rho x Hx), <- app_assoc. exact H.
Qed.

Lemma prefix_done (l : list X) (c rho : nat) :
    firstn c l = firstn rho l ++ [] -> rho <= c -> c <= length l -> rho = c.
Proof.
  intros H Hr Hc. rewrite app_nil_r in H.
  assert (Hlen : length (firstn c l) = length (firstn rho l)) by (rewrite H; reflexivity).
  rewrite !firstn_length in Hlen. lia.
Qed.
End ListSeg.

(* ------------------------------------------------------------------ *)
(* what the consumer sees                                               *)
Definition seen {V E} (o : out V E) : bool :=
  match o with OUnit | OTimeout => false | _ => true end.
Definition view {V E} (outs : list (out V E)) : list (out V E) := filter seen outs.
Definition show {V E} (b : item V E) : out V E := item_out (NItem b).

Lemma seen_show {V E} (b : item V E) : seen (show b) = true.
Proof. destruct b; reflexivity. Qed.

Lemma view_app {V E} (a b : list (out V E)) : view (a ++ b) = view a ++ view b.
Proof. apply filter_app. Qed.

Lemma imap_run_app {V E} (u : bool) (st : istate (item V E)) (o1 o2 : list (iop (item V E))) :
    imap_run u st (o1 ++ o2) =
    let (s1, x1) := imap_run u st o1 in
    let (s2, x2) := imap_run u s1 o2 in (s2, x1 ++ x2).
Proof.
  revert st. induction o1 as [|o o1 IH]; intros st; cbn [imap_run app].
  - destruct (imap_run u st o2); reflexivity.
  - destruct (imap_op u st o) as [s x]. rewrite IH.
    destruct (imap_run u s o1) as [s1 x1]. destruct (imap_run u s1 o2); reflexivity.
Qed.

(* ================================================================== *)
(* ordered imap                                                         *)
Section Imap.
Context {V E : Type}.
Notation B := (item V E).
Variable objs : list B.
Variable dflt : B.
Let n := length objs.

Inductive ev := Arr (i : nat) | Len | Nxt.

(* d: results handed over directly or through the result handler's cache look-up *)
Definition ev_op (d : bool) (e : ev) : iop B :=
  match e with
  | Arr i => (if d then IDeliver else ISet) (Z.of_nat i) (nth i objs dflt)
  | Len => ISetLen (Z.of_nat n)
  | Nxt => INext
  end.

Fixpoint arrivals (h : list ev) : list nat :=
  match h with [] => [] | Arr i :: r => i :: arrivals r | _ :: r => arrivals r end.
Fixpoint count_len (h : list ev) : nat :=
  match h with [] => O | Len :: r => S (count_len r) | _ :: r => count_len r end.

Open Scope nat_scope.

(* S: indices arrived so far, rho: items handed to the consumer, ls: length announced *)
Definition IInv (S : list nat) (rho : nat) (ls : bool) (st : istate B) : Prop :=
  exists c : nat,
    i_index st = Z.of_nat c /\ c <= n /\
    (forall i, i < c -> In i S) /\ ~ In c S /\
    (forall i : nat, dict_get (i_unsorted st) (Z.of_nat i) =
                     if (c <? i) && mem i S then nth_error objs i else None) /\
    firstn c objs = firstn rho objs ++ i_items st /\ rho <= c /\
    i_length st = (if ls then Some (Z.of_nat n) else None) /\
    i_incache st = negb (ls && (c =? n)).

Lemma iinv_init : IInv [] 0 false imap_init.
Proof.
  exists 0. cbn. repeat split; try lia; try tauto.
  intros i. rewrite andb_false_r. reflexivity.
Qed.

Lemma nth_error_nth_dflt (i : nat) : i < n -> nth_error objs i = Some (nth i objs dflt).
Proof. intros H. apply nth_error_nth'. exact H. Qed.

Lemma drain_spec (S : list nat) (rho : nat) :
    (forall i, In i S -> i < n) ->
    forall fuel items c d,
    length d <= fuel -> c <= n -> (forall i, i < c -> In i S) ->
    (forall i : nat, dict_get d (Z.of_nat i) =
                     if (c <=? i) && mem i S then nth_error objs i else None) ->
    firstn c objs = firstn rho objs ++ items ->
    exists c' items' d',
      drain fuel items (Z.of_nat c) d = (items', Z.of_nat c', d') /\
      c <= c' <= n /\ (forall i, i < c' -> In i S) /\ ~ In c' S /\
      (forall i : nat, dict_get d' (Z.of_nat i) =
                       if (c' <? i) && mem i S then nth_error objs i else None) /\
      firstn c' objs = firstn rho objs ++ items'.
Proof.
  intros HS. induction fuel as [|fuel IH]; intros items c d Hlen Hc Hlow Hd Hpre.
  - assert (d = []) by (destruct d; [reflexivity|cbn in Hlen; lia]). subst d.
    assert (Hnc : ~ In c S).
    { intros Hin. specialize (Hd c). cbn [dict_get] in Hd.
      replace (c <=? c) with true in Hd by (symmetry; apply Nat.leb_le; lia).
      replace (mem c S) with true in Hd by (symmetry; apply mem_In; exact Hin).
      cbn [andb] in Hd. rewrite nth_error_nth_dflt in Hd by (apply HS; exact Hin). discriminate. }
    exists c, items, []. cbn [drain]. repeat split; try assumption; try lia.
    intros i. cbn [dict_get]. specialize (Hd i). cbn [dict_get] in Hd.
    destruct (mem i S) eqn:Em; [|rewrite andb_false_r; reflexivity].
    destruct (c <? i) eqn:E1; [|reflexivity]. apply Nat.ltb_lt in E1.
    replace (c <=? i) with true in Hd by (symmetry; apply Nat.leb_le; lia). exact Hd.
  - cbn [drain]. pose proof (Hd c) as Hdc.
    replace (c <=? c) with true in Hdc by (symmetry; apply Nat.leb_le; lia). cbn [andb] in Hdc.
    destruct (dict_get d (Z.of_nat c)) as [o|] eqn:Eg.
    + destruct (mem c S) eqn:Em; [|discriminate]. apply mem_In in Em.
      assert (Hcn : c < n) by (apply HS; exact Em).
      replace (Z.of_nat c + 1)%Z with (Z.of_nat (Datatypes.S c)) by lia.
      destruct (IH (items ++ [o]) (Datatypes.S c) (dict_remove d (Z.of_nat c))) as
          (c' & items' & d' & Hdr & Hcc & Hlow' & Hnc & Hd' & Hpre').
      * pose proof (dict_remove_length_lt d (Z.of_nat c) o Eg). lia.
      * lia.
      * intros i Hi. destruct (Nat.eq_dec i c) as [->|Hne]; [exact Em|apply Hlow; lia].
      * intros i. rewrite dict_get_remove.
        destruct (Z.of_nat i =? Z.of_nat c)%Z eqn:Ei.
        -- assert (i = c) by lia. subst i.
           replace (Datatypes.S c <=? c) with false by (symmetry; apply Nat.leb_gt; lia). reflexivity.
        -- rewrite Hd. assert (i <> c) by lia.
           destruct (c <=? i) eqn:E1; destruct (Datatypes.S c <=? i) eqn:E2; try reflexivity;
             apply Nat.leb_le in E1 || apply Nat.leb_gt in E1;
             apply Nat.leb_le in E2 || apply Nat.leb_gt in E2; lia.
      * rewrite (firstn_succ_nth objs c o (eq_sym Hdc)), Hpre, app_assoc. reflexivity.
      * exists c', items', d'. rewrite Hdr. repeat split; try assumption; lia.
    + assert (Hnc : ~ In c S).
      { intros Hin. replace (mem c S) with true in Hdc by (symmetry; apply mem_In; exact Hin).
        rewrite nth_error_nth_dflt in Hdc by (apply HS; exact Hin). discriminate. }
      exists c, items, d. repeat split; try assumption; try lia.
      intros i. rewrite Hd.
      destruct (mem i S) eqn:Em; [|rewrite !andb_false_r; reflexivity].
      destruct (Nat.eq_dec i c) as [->|Hne]; [apply mem_In in Em; contradiction|].
      destruct (c <=? i) eqn:E1; destruct (c <? i) eqn:E2; try reflexivity;
        apply Nat.leb_le in E1 || apply Nat.leb_gt in E1;
        apply Nat.ltb_lt in E2 || apply Nat.ltb_ge in E2; lia.
Qed.

(* an arrival *)
Lemma iinv_arr (S : list nat) (rho : nat) (ls d : bool) (st : istate B) (i : nat) :
    IInv S rho ls st -> (forall j, In j S -> j < n) -> ~ In i S -> i < n ->
    exists st', imap_op false st (ev_op d (Arr i)) = (st', OUnit) /\ IInv (i :: S) rho ls st'.
Proof.
  intros (c & Hidx & Hcn & Hlow & Hnc & Hd & Hpre & Hrc & Hlen & Hcache) HS Hni Hin.
  assert (Hcn' : c < n).
  { destruct (Nat.eq_dec c n) as [->|]; [|lia]. exfalso. apply Hni, Hlow. exact Hin. }
  assert (Hci : c <= i).
  { destruct (le_gt_dec c i); [assumption|]. exfalso. apply Hni, Hlow. lia. }
  assert (Hc_true : i_incache st = true).
  { rewrite Hcache. replace (c =? n) with false by (symmetry; apply Nat.eqb_neq; lia).
    rewrite andb_false_r. reflexivity. }
  assert (HS' : forall j, In j (i :: S) -> j < n) by (intros j [<-|Hj]; [exact Hin|apply HS, Hj]).
  assert (Hop : imap_op false st (ev_op d (Arr i)) =
                (fst (imap_set st (Z.of_nat i) (nth i objs dflt)),
                 exn_out (snd (imap_set st (Z.of_nat i) (nth i objs dflt))))).
  { destruct d; cbn [ev_op imap_op imap_ctl]; rewrite ?Hc_true;
      destruct (imap_set st (Z.of_nat i) (nth i objs dflt)); reflexivity. }
  rewrite Hop. clear Hop. unfold imap_set. rewrite Hidx.
  destruct (Z.of_nat c =? Z.of_nat i)%Z eqn:Eci.
  - (* the awaited index: release it and everything queued behind it *)
    assert (i = c) by lia. subst i.
    destruct (drain_spec (c :: S) rho HS' (length (i_unsorted st)) (i_items st ++ [nth c objs dflt])
                         (Datatypes.S c) (i_unsorted st)) as
        (c' & items' & d' & Hdr & Hcc & Hlow' & Hnc' & Hd' & Hpre').
    + lia.
    + lia.
    + intros j Hj. destruct (Nat.eq_dec j c) as [->|]; [left; reflexivity|right; apply Hlow; lia].
    + intros j. rewrite Hd, mem_cons.
      destruct (Nat.eq_dec j c) as [->|Hne].
      * replace (c <? c) with false by (symmetry; apply Nat.ltb_ge; lia).
        replace (Datatypes.S c <=? c) with false by (symmetry; apply Nat.leb_gt; lia). reflexivity.
      * replace (j =? c) with false by (symmetry; apply Nat.eqb_neq; exact Hne). cbn [orb].
        destruct (c <? j) eqn:E1; destruct (Datatypes.S c <=? j) eqn:E2; try reflexivity;
          apply Nat.ltb_lt in E1 || apply Nat.ltb_ge in E1;
          apply Nat.leb_le in E2 || apply Nat.leb_gt in E2; lia.
    + rewrite (firstn_succ_nth objs c _ (nth_error_nth_dflt c Hcn')), Hpre, app_assoc. reflexivity.
    + replace (Z.of_nat c + 1)%Z with (Z.of_nat (Datatypes.S c)) by lia. rewrite Hdr.
      unfold imap_finish, at_length. cbn [i_length i_index i_incache i_items i_unsorted i_ready].
      rewrite Hlen, Hc_true.
      destruct ls.
      * destruct (Z.of_nat c' =? Z.of_nat n)%Z eqn:En; cbn [fst snd exn_out];
          eexists; (split; [reflexivity|]); exists c';
          cbn [i_length i_index i_incache i_items i_unsorted i_ready];
          repeat split; try assumption; try lia.
      * cbn [fst snd exn_out]. eexists; (split; [reflexivity|]); exists c';
          cbn [i_length i_index i_incache i_items i_unsorted i_ready];
          repeat split; try assumption; try lia.
  - (* ahead of the awaited index: parked in _unsorted *)
    assert (Hlt : c < i) by lia.
    unfold imap_finish, at_length. cbn [i_length i_index i_incache i_items i_unsorted i_ready].
    rewrite Hlen, ?Hidx, Hc_true.
    assert (Hfin : (if ls then (Z.of_nat c =? Z.of_nat n)%Z else false) = false)
      by (destruct ls; [lia|reflexivity]).
    assert (Hfin' : match (if ls then Some (Z.of_nat n) else None) with
                    | Some n0 => (Z.of_nat c =? n0)%Z | None => false end = false)
      by (destruct ls; [lia|reflexivity]).
    rewrite Hfin'. cbn [fst snd exn_out]. eexists; split; [reflexivity|]. exists c.
    cbn [i_length i_index i_incache i_items i_unsorted i_ready].
    repeat split; try assumption; try lia.
    + intros j Hj. right. apply Hlow. exact Hj.
    + intros [Heq|Hc']; [lia|contradiction].
    + intros j. rewrite dict_get_set, mem_cons.
      destruct (Z.of_nat j =? Z.of_nat i)%Z eqn:Ej.
      * assert (j = i) by lia. subst j.
        replace (c <? i) with true by (symmetry; apply Nat.ltb_lt; lia).
        rewrite Nat.eqb_refl. cbn [andb orb]. symmetry. apply nth_error_nth_dflt. exact Hin.
      * replace (j =? i) with false by (symmetry; apply Nat.eqb_neq; lia). cbn [orb]. apply Hd.
Qed.

(* the length announcement *)
Lemma iinv_len (S : list nat) (rho : nat) (d : bool) (st : istate B) :
    IInv S rho false st ->
    exists st', imap_op false st (ev_op d Len) = (st', OUnit) /\ IInv S rho true st'.
Proof.
  intros (c & Hidx & Hcn & Hlow & Hnc & Hd & Hpre & Hrc & Hlen & Hcache).
  cbn [ev_op imap_op imap_ctl]. unfold imap_set_length, imap_finish, at_length.
  cbn [i_length i_index i_incache i_items i_unsorted i_ready]. rewrite Hidx, Hcache.
  cbn [andb negb].
  destruct (Z.of_nat c =? Z.of_nat n)%Z eqn:En; cbn [exn_out];
    eexists; (split; [reflexivity|]); exists c;
    cbn [i_length i_index i_incache i_items i_unsorted i_ready];
    repeat split; try assumption; try lia.
Qed.

(* one next() *)
Lemma iinv_next (S : list nat) (rho : nat) (ls : bool) (st : istate B) :
    IInv S rho ls st ->
    exists st' o, imap_op false st INext = (st', o) /\
      ((exists x, nth_error objs rho = Some x /\ o = show x /\ IInv S (Datatypes.S rho) ls st') \/
       (o = OStop /\ rho = n /\ ls = true /\ (forall i, i < n -> In i S) /\ IInv S rho ls st') \/
       (o = OTimeout /\ st' = st)).
Proof.
  intros (c & Hidx & Hcn & Hlow & Hnc & Hd & Hpre & Hrc & Hlen & Hcache).
  cbn [imap_op]. unfold imap_next, imap_pop.
  destruct (i_items st) as [|x r] eqn:Hitems.
  - apply prefix_done in Hpre; [|exact Hrc|exact Hcn]. subst rho.
    unfold at_length. rewrite Hlen, Hidx.
    destruct ls.
    + destruct (Z.of_nat c =? Z.of_nat n)%Z eqn:En.
      * assert (c = n) by lia. subst c.
        eexists _, _. split; [reflexivity|]. right; left.
        cbn [item_out]. repeat split; try assumption.
        exists n. cbn [i_length i_index i_incache i_items i_unsorted i_ready].
        repeat split; try assumption; try lia.
        rewrite app_nil_r. reflexivity.
      * eexists _, _. split; [reflexivity|]. right; right. split; reflexivity.
    + eexists _, _. split; [reflexivity|]. right; right. split; reflexivity.
  - destruct (prefix_head objs c rho x r Hpre Hrc Hcn) as (Hx & Hlt & Hpre').
    eexists _, _. split; [reflexivity|]. left. exists x.
    split; [exact Hx|]. split; [reflexivity|].
    exists c. cbn [i_length i_index i_incache i_items i_unsorted i_ready].
    repeat split; try assumption; try lia.
Qed.

(* a history is admissible after S / ls when its arrivals are new, distinct and in
   range, and the length is announced at most once overall *)
Definition wf_from (S : list nat) (ls : bool) (h : list ev) : Prop :=
  NoDup (arrivals h ++ S) /\ (forall i, In i (arrivals h) -> i < n) /\
  count_len h + (if ls then 1 else 0) <= 1.

Lemma imap_run_inv (d : bool) : forall h st S rho ls,
    IInv S rho ls st -> (forall j, In j S -> j < n) -> wf_from S ls h ->
    exists S' rho' ls' s,
      IInv S' rho' ls' (fst (imap_run false st (map (ev_op d) h))) /\
      rho <= rho' /\
      view (snd (imap_run false st (map (ev_op d) h))) =
        map show (seg objs rho rho') ++ repeat OStop s /\
      (0 < s -> rho' = n /\ ls' = true /\ forall i, i < n -> In i S') /\
      (forall i, In i S' <-> In i (arrivals h) \/ In i S) /\
      ls' = (ls || (0 <? count_len h)).
Proof.
  induction h as [|e h IH]; intros st S rho ls Hinv HS (Hnd & Hrange & Hcount).
  - exists S, rho, ls, 0. cbn. rewrite seg_nil. rewrite orb_false_r.
    repeat split; try assumption; try lia; try tauto.
  - destruct e as [i| |].
    + (* arrival *)
      cbn [arrivals app] in Hnd. apply NoDup_cons_iff in Hnd. destruct Hnd as [Hni Hnd].
      assert (Hni' : ~ In i S) by (intros H; apply Hni, in_or_app; right; exact H).
      assert (Hin : i < n) by (apply Hrange; left; reflexivity).
      destruct (iinv_arr S rho ls d st i Hinv HS Hni' Hin) as (st' & Hop & Hinv').
      destruct (IH st' (i :: S) rho ls Hinv') as (S' & rho' & ls' & s & H1 & H2 & H3 & H4 & H5 & H6).
      * intros j [<-|Hj]; [exact Hin|apply HS, Hj].
      * split; [|split].
        -- apply (Permutation_NoDup (l := i :: arrivals h ++ S)).
           ++ apply Permutation_middle.
           ++ constructor; assumption.
        -- intros j Hj. apply Hrange. right. exact Hj.
        -- exact Hcount.
      * exists S', rho', ls', s. cbn [map imap_run]. rewrite Hop.
        destruct (imap_run false st' (map (ev_op d) h)) as [s2 xs]. cbn [fst snd] in *.
        split; [exact H1|]. split; [exact H2|]. split; [exact H3|]. split; [exact H4|].
        split; [|exact H6]. intros j. rewrite H5. cbn [arrivals In]. tauto.
    + (* set_length *)
      assert (ls = false) by (destruct ls; [cbn [count_len] in Hcount; lia|reflexivity]). subst ls.
      destruct (iinv_len S rho d st Hinv) as (st' & Hop & Hinv').
      destruct (IH st' S rho true Hinv' HS) as (S' & rho' & ls' & s & H1 & H2 & H3 & H4 & H5 & H6).
      * split; [exact Hnd|]. split; [exact Hrange|]. cbn [count_len] in Hcount. lia.
      * exists S', rho', ls', s. cbn [map imap_run]. rewrite Hop.
        destruct (imap_run false st' (map (ev_op d) h)) as [s2 xs]. cbn [fst snd] in *.
        split; [exact H1|]. split; [exact H2|]. split; [exact H3|]. split; [exact H4|].
        split; [exact H5|]. rewrite H6. cbn [count_len]. reflexivity.
    + (* next *)
      destruct (iinv_next S rho ls st Hinv) as (st' & o & Hop & Hcase).
      cbn [map imap_run ev_op]. rewrite Hop.
      destruct Hcase as [(x & Hx & -> & Hinv')|[(-> & -> & -> & Hall & Hinv')|(-> & ->)]].
      * destruct (IH st' S (Datatypes.S rho) ls Hinv' HS (conj Hnd (conj Hrange Hcount)))
          as (S' & rho' & ls' & s & H1 & H2 & H3 & H4 & H5 & H6).
        exists S', rho', ls', s.
        destruct (imap_run false st' (map (ev_op d) h)) as [s2 xs]. cbn [fst snd] in *.
        split; [exact H1|]. split; [lia|]. split; [|split; [exact H4|split; [exact H5|exact H6]]].
        unfold view in *. cbn [filter]. rewrite seen_show, H3.
        rewrite <- (seg_app objs rho (Datatypes.S rho) rho') by lia.
        rewrite (seg_one objs rho x Hx). reflexivity.
      * destruct (IH st' S n true Hinv' HS (conj Hnd (conj Hrange Hcount)))
          as (S' & rho' & ls' & s & H1 & H2 & H3 & H4 & H5 & H6).
        assert (rho' = n).
        { destruct H1 as (c & _ & Hcn & _ & _ & _ & _ & Hrc & _). lia. }
        subst rho'.
        exists S', n, ls', (Datatypes.S s).
        destruct (imap_run false st' (map (ev_op d) h)) as [s2 xs]. cbn [fst snd] in *.
        split; [exact H1|]. split; [lia|]. split; [|split; [|split; [exact H5|exact H6]]].
        -- unfold view in *. cbn [filter seen]. rewrite H3, seg_nil. reflexivity.
        -- intros _. split; [reflexivity|]. split; [rewrite H6; reflexivity|].
           intros i Hi. apply H5. right. apply Hall. exact Hi.
      * destruct (IH st S rho ls Hinv HS (conj Hnd (conj Hrange Hcount)))
          as (S' & rho' & ls' & s & H1 & H2 & H3 & H4 & H5 & H6).
        exists S', rho', ls', s.
        destruct (imap_run false st (map (ev_op d) h)) as [s2 xs]. cbn [fst snd] in *.
        split; [exact H1|]. split; [exact H2|]. split; [exact H3|]. split; [exact H4|].
        split; [exact H5|exact H6].
Qed.

Definition wf (h : list ev) : Prop :=
  NoDup (arrivals h) /\ (forall i, In i (arrivals h) -> i < n) /\ count_len h <= 1.

(* ORDER THEOREM (safety).  Whatever the interleaving of arrivals (each index at
   most once), next() calls and the length announcement: the consumer sees
   obj_0, obj_1, ... in input order (error items at their own position), and
   StopIteration only after all n items, the announcement and every arrival. *)
Theorem imap_in_order (d : bool) (h : list ev) : wf h ->
    exists rho s,
      view (snd (imap_run false imap_init (map (ev_op d) h))) =
        map show (firstn rho objs) ++ repeat OStop s /\
      rho <= n /\
      (0 < s -> rho = n /\ count_len h = 1 /\ forall i, i < n -> In i (arrivals h)).
Proof.
  intros (Hnd & Hrange & Hcount).
  destruct (imap_run_inv d h imap_init [] 0 false iinv_init) as
      (S' & rho' & ls' & s & H1 & H2 & H3 & H4 & H5 & H6).
  - intros j [].
  - split; [rewrite app_nil_r; exact Hnd|]. split; [exact Hrange|]. lia.
  - exists rho', s. rewrite H3, seg_0. split; [reflexivity|].
    split; [destruct H1 as (c & _ & Hcn & _ & _ & _ & _ & Hrc & _); lia|].
    intros Hs. destruct (H4 Hs) as (Hr & Hls & Hall). split; [exact Hr|]. split.
    + rewrite Hls in H6. cbn [orb] in H6. destruct (count_len h) as [|[|k]]; try lia; discriminate.
    + intros i Hi. apply Hall in Hi. apply H5 in Hi. destruct Hi as [Hi|[]]. exact Hi.
Qed.

(* draining: once everything has arrived and the length is known, k more next()
   calls hand out the rest and then StopIteration *)
Lemma drain_nexts (S : list nat) : (forall i, i < n -> In i S) ->
    forall k rho st, IInv S rho true st ->
    view (snd (imap_run false st (repeat INext k))) =
      map show (seg objs rho (Nat.min n (rho + k))) ++ repeat OStop (k - (n - rho)).
Proof.
  intros Hall. induction k as [|k IH]; intros rho st Hinv.
  - cbn. rewrite Nat.add_0_r.
    assert (rho <= n) by (destruct Hinv as (c & _ & Hcn & _ & _ & _ & _ & Hrc & _); lia).
    replace (Nat.min n rho) with rho by lia. rewrite seg_nil. reflexivity.
  - cbn [repeat imap_run].
    destruct (iinv_next S rho true st Hinv) as (st' & o & Hop & Hcase). rewrite Hop.
    destruct Hcase as [(x & Hx & -> & Hinv')|[(-> & -> & _ & _ & Hinv')|(-> & ->)]].
    + specialize (IH (Datatypes.S rho) st' Hinv').
      destruct (imap_run false st' (repeat INext k)) as [s2 xs]. cbn [fst snd] in *.
      unfold view in *. cbn [filter]. rewrite seen_show, IH.
      assert (Hrn : rho < n) by (apply nth_error_Some; rewrite Hx; discriminate).
      rewrite <- (seg_app objs rho (Datatypes.S rho) (Nat.min n (rho + Datatypes.S k))) by lia.
      rewrite (seg_one objs rho x Hx).
      replace (Datatypes.S rho + k) with (rho + Datatypes.S k) by lia.
      replace (Datatypes.S k - (n - rho)) with (k - (n - Datatypes.S rho)) by lia. reflexivity.
    + specialize (IH n st' Hinv').
      destruct (imap_run false st' (repeat INext k)) as [s2 xs]. cbn [fst snd] in *.
      unfold view in *. cbn [filter seen]. rewrite IH.
      replace (Nat.min n (n + k)) with n by lia.
      replace (Nat.min n (n + Datatypes.S k)) with n by lia. rewrite seg_nil.
      replace (Datatypes.S k - (n - n)) with (Datatypes.S (k - (n - n))) by lia. reflexivity.
    + (* a time-out is impossible here: everything has arrived *)
      exfalso. destruct Hinv as (c & Hidx & Hcn & Hlow & Hnc & Hd & Hpre & Hrc & Hlen & Hcache).
      assert (c = n).
      { destruct (Nat.eq_dec c n); [assumption|]. exfalso. apply Hnc, Hall. lia. }
      subst c. cbn [imap_op] in Hop. unfold imap_next, imap_pop, at_length in Hop.
      rewrite Hlen, Hidx, Z.eqb_refl in Hop.
      destruct (i_items st) as [|b0 r0]; inversion Hop as [[H0 H1]].
      destruct b0; discriminate.
Qed.

(* ORDER THEOREM (completeness).  If every index arrives and the length is
   announced, a consumer that keeps calling next() gets exactly obj_0 .. obj_{n-1}
   and then StopIteration. *)
Theorem imap_complete (d : bool) (h : list ev) : wf h ->
    (forall i, i < n -> In i (arrivals h)) -> count_len h = 1 ->
    exists s,
      view (snd (imap_run false imap_init (map (ev_op d) h ++ repeat INext (Datatypes.S n)))) =
        map show objs ++ repeat OStop (Datatypes.S s).
Proof.
  intros (Hnd & Hrange & Hcount) Hall Hlen1.
  destruct (imap_run_inv d h imap_init [] 0 false iinv_init) as
      (S' & rho' & ls' & s & H1 & H2 & H3 & H4 & H5 & H6).
  - intros j [].
  - split; [rewrite app_nil_r; exact Hnd|]. split; [exact Hrange|]. lia.
  - rewrite imap_run_app.
    destruct (imap_run false imap_init (map (ev_op d) h)) as [s1 x1]. cbn [fst snd] in *.
    assert (Hls : ls' = true) by (rewrite H6, Hlen1; reflexivity). rewrite Hls in H1.
    assert (Hall' : forall i, i < n -> In i S') by (intros i Hi; apply H5; left; apply Hall, Hi).
    pose proof (drain_nexts S' Hall' (Datatypes.S n) rho' s1 H1) as Hd.
    destruct (imap_run false s1 (repeat INext (Datatypes.S n))) as [s2 x2]. cbn [fst snd] in *.
    rewrite view_app, H3, Hd.
    assert (Hr : rho' <= n) by (destruct H1 as (c & _ & Hcn & _ & _ & _ & _ & Hrc & _); lia).
    replace (Nat.min n (rho' + Datatypes.S n)) with n by lia.
    destruct s as [|s].
    + cbn [repeat]. rewrite app_nil_r, app_assoc, <- map_app, seg_app by lia.
      change (seg objs 0 n) with (seg objs 0 (length objs)). rewrite seg_all.
      exists (n - (n - rho')).
      replace (Datatypes.S n - (n - rho')) with (Datatypes.S (n - (n - rho'))) by lia. reflexivity.
    + destruct (H4 ltac:(lia)) as (Hrn & _). subst rho'. rewrite seg_nil. cbn [map app].
      rewrite <- app_assoc, <- repeat_app.
      change (seg objs 0 n) with (seg objs 0 (length objs)). rewrite seg_all.
      exists (s + (Datatypes.S n - (n - n))). reflexivity.
Qed.

End Imap.

(* ================================================================== *)
(* imap_unordered                                                       *)
Section Imapu.
Context {V E : Type}.
Notation B := (item V E).
Variable N : nat.          (* the length that will be announced *)

(* the index argument of _set is ignored by IMapUnorderedIterator *)
Inductive uev := UArr (i : Z) (b : B) | ULen | UNxt.

Definition uev_op (d : bool) (e : uev) : iop B :=
  match e with
  | UArr i b => (if d then IDeliver else ISet) i b
  | ULen => ISetLen (Z.of_nat N)
  | UNxt => INext
  end.

Fixpoint uarrived (h : list uev) : list B :=
  match h with [] => [] | UArr _ b :: r => b :: uarrived r | _ :: r => uarrived r end.
Fixpoint ucount_len (h : list uev) : nat :=
  match h with [] => O | ULen :: r => S (ucount_len r) | _ :: r => ucount_len r end.

Open Scope nat_scope.

Definition UInv (arrs : list B) (rho : nat) (ls : bool) (st : istate B) : Prop :=
  i_index st = Z.of_nat (length arrs) /\
  arrs = firstn rho arrs ++ i_items st /\ rho <= length arrs /\ length arrs <= N /\
  i_length st = (if ls then Some (Z.of_nat N) else None) /\
  i_incache st = negb (ls && (length arrs =? N)).

Lemma uinv_init : UInv [] 0 false imap_init.
Proof. unfold UInv. cbn. repeat split; try reflexivity; lia. Qed.

Lemma uinv_arr arrs rho ls d st i b :
    UInv arrs rho ls st -> length arrs < N ->
    exists st', imap_op true st (uev_op d (UArr i b)) = (st', OUnit) /\
                UInv (arrs ++ [b]) rho ls st'.
Proof.
  intros (Hidx & Hpre & Hr & HN & Hlen & Hcache) Hlt.
  assert (Hc : i_incache st = true).
  { rewrite Hcache. replace (length arrs =? N) with false by (symmetry; apply Nat.eqb_neq; lia).
    rewrite andb_false_r. reflexivity. }
  assert (Hop : imap_op true st (uev_op d (UArr i b)) =
                (fst (imapu_set st i b), exn_out (snd (imapu_set st i b)))).
  { destruct d; cbn [uev_op imap_op imap_ctl]; rewrite ?Hc; destruct (imapu_set st i b); reflexivity. }
  rewrite Hop. unfold imapu_set, imap_finish, at_length.
  cbn [i_length i_index i_incache i_items i_unsorted i_ready]. rewrite Hlen, Hidx, Hc.
  assert (Hpre' : arrs ++ [b] = firstn rho (arrs ++ [b]) ++ i_items st ++ [b]).
  { rewrite firstn_app. replace (rho - length arrs) with 0 by lia. cbn [firstn].
    rewrite app_nil_r, app_assoc, <- Hpre. reflexivity. }
  destruct ls.
  - destruct (Z.of_nat (length arrs) + 1 =? Z.of_nat N)%Z eqn:En; cbn [fst snd exn_out];
      eexists; (split; [reflexivity|]); unfold UInv;
      cbn [i_length i_index i_incache i_items i_unsorted i_ready]; rewrite app_length; cbn [length];
      repeat split; try assumption; try lia.
  - cbn [fst snd exn_out]. eexists; (split; [reflexivity|]); unfold UInv;
      cbn [i_length i_index i_incache i_items i_unsorted i_ready]; rewrite app_length; cbn [length];
      repeat split; try assumption; try lia.
Qed.

Lemma uinv_len arrs rho d st :
    UInv arrs rho false st ->
    exists st', imap_op true st (uev_op d ULen) = (st', OUnit) /\ UInv arrs rho true st'.
Proof.
  intros (Hidx & Hpre & Hr & HN & Hlen & Hcache).
  cbn [uev_op imap_op imap_ctl]. unfold imap_set_length, imap_finish, at_length.
  cbn [i_length i_index i_incache i_items i_unsorted i_ready]. rewrite Hidx, Hcache.
  cbn [andb negb].
  destruct (Z.of_nat (length arrs) =? Z.of_nat N)%Z eqn:En; cbn [exn_out];
    eexists; (split; [reflexivity|]); unfold UInv;
    cbn [i_length i_index i_incache i_items i_unsorted i_ready];
    repeat split; try assumption; try lia.
Qed.

Lemma uinv_next arrs rho ls st :
    UInv arrs rho ls st ->
    exists st' o, imap_op true st INext = (st', o) /\
      ((exists x, nth_error arrs rho = Some x /\ o = show x /\ UInv arrs (Datatypes.S rho) ls st') \/
       (o = OStop /\ rho = N /\ length arrs = N /\ ls = true /\ UInv arrs rho ls st') \/
       (o = OTimeout /\ st' = st)).
Proof.
  intros (Hidx & Hpre & Hr & HN & Hlen & Hcache).
  cbn [imap_op]. unfold imap_next, imap_pop.
  assert (Hpre0 : firstn (length arrs) arrs = firstn rho arrs ++ i_items st)
    by (rewrite firstn_all; exact Hpre).
  destruct (i_items st) as [|x r] eqn:Hitems.
  - apply prefix_done in Hpre0; [|exact Hr|lia].
    unfold at_length. rewrite Hlen, Hidx.
    destruct ls.
    + destruct (Z.of_nat (length arrs) =? Z.of_nat N)%Z eqn:En.
      * eexists _, _. split; [reflexivity|]. right; left. cbn [item_out].
        split; [reflexivity|]. split; [lia|]. split; [lia|]. split; [reflexivity|].
        unfold UInv. cbn [i_length i_index i_incache i_items i_unsorted i_ready].
        repeat split; try assumption; try lia.
      * eexists _, _. split; [reflexivity|]. right; right. split; reflexivity.
    + eexists _, _. split; [reflexivity|]. right; right. split; reflexivity.
  - destruct (prefix_head arrs (length arrs) rho x r Hpre0 Hr ltac:(lia)) as (Hx & Hlt & Hpre').
    eexists _, _. split; [reflexivity|]. left. exists x.
    split; [exact Hx|]. split; [reflexivity|].
    unfold UInv. cbn [i_length i_index i_incache i_items i_unsorted i_ready].
    rewrite firstn_all in Hpre'. repeat split; try assumption; try lia.
Qed.

Lemma seg_app_prefix {X} (l t : list X) (a b : nat) :
    b <= length l -> seg (l ++ t) a b = seg l a b.
Proof.
  intros Hb. unfold seg. destruct (le_gt_dec a b) as [Hab|Hab].
  - rewrite skipn_app, firstn_app, skipn_length.
    replace (b - a - (length l - a)) with 0 by lia. cbn [firstn]. rewrite app_nil_r. reflexivity.
  - replace (b - a) with 0 by lia. reflexivity.
Qed.

Lemma imapu_run_inv (d : bool) : forall h st arrs rho ls,
    UInv arrs rho ls st ->
    length arrs + length (uarrived h) <= N ->
    ucount_len h + (if ls then 1 else 0) <= 1 ->
    let all := arrs ++ uarrived h in
    exists rho' ls' s,
      UInv all rho' ls' (fst (imap_run true st (map (uev_op d) h))) /\
      rho <= rho' /\
      view (snd (imap_run true st (map (uev_op d) h))) =
        map show (seg all rho rho') ++ repeat OStop s /\
      (0 < s -> rho' = N /\ length all = N /\ ls' = true) /\
      ls' = (ls || (0 <? ucount_len h)).
Proof.
  induction h as [|e h IH]; intros st arrs rho ls Hinv Hcap Hcount; cbv zeta.
  - exists rho, ls, 0. cbn. rewrite app_nil_r, seg_nil, orb_false_r.
    split; [exact Hinv|]. repeat split; try assumption; try lia.
  - destruct e as [i b| |].
    + cbn [uarrived length] in Hcap.
      destruct (uinv_arr arrs rho ls d st i b Hinv ltac:(lia)) as (st' & Hop & Hinv').
      destruct (IH st' (arrs ++ [b]) rho ls Hinv') as (rho' & ls' & s & H1 & H2 & H3 & H4 & H6).
      * rewrite app_length. cbn [length]. lia.
      * exact Hcount.
      * cbv zeta in *. cbn [uarrived]. rewrite <- app_assoc in *. cbn [app] in *.
        exists rho', ls', s. cbn [map imap_run]. rewrite Hop.
        destruct (imap_run true st' (map (uev_op d) h)) as [s2 xs]. cbn [fst snd] in *.
        split; [exact H1|]. split; [exact H2|]. split; [exact H3|]. split; [exact H4|exact H6].
    + assert (ls = false) by (destruct ls; [cbn [ucount_len] in Hcount; lia|reflexivity]). subst ls.
      destruct (uinv_len arrs rho d st Hinv) as (st' & Hop & Hinv').
      destruct (IH st' arrs rho true Hinv' Hcap) as (rho' & ls' & s & H1 & H2 & H3 & H4 & H6).
      * cbn [ucount_len] in Hcount. lia.
      * cbv zeta in *. cbn [uarrived]. exists rho', ls', s. cbn [map imap_run]. rewrite Hop.
        destruct (imap_run true st' (map (uev_op d) h)) as [s2 xs]. cbn [fst snd] in *.
        split; [exact H1|]. split; [exact H2|]. split; [exact H3|]. split; [exact H4|].
        rewrite H6. reflexivity.
    + destruct (uinv_next arrs rho ls st Hinv) as (st' & o & Hop & Hcase).
      cbn [map imap_run uev_op uarrived]. cbn [uarrived ucount_len] in Hcap, Hcount. rewrite Hop.
      destruct Hcase as [(x & Hx & -> & Hinv')|[(-> & -> & HlenN & -> & Hinv')|(-> & ->)]].
      * destruct (IH st' arrs (Datatypes.S rho) ls Hinv' Hcap Hcount)
          as (rho' & ls' & s & H1 & H2 & H3 & H4 & H6). cbv zeta in *.
        exists rho', ls', s.
        destruct (imap_run true st' (map (uev_op d) h)) as [s2 xs]. cbn [fst snd] in *.
        split; [exact H1|]. split; [lia|]. split; [|split; [exact H4|exact H6]].
        unfold view in *. cbn [filter]. rewrite seen_show, H3.
        rewrite <- (seg_app (arrs ++ uarrived h) rho (Datatypes.S rho) rho') by lia.
        rewrite (seg_one (arrs ++ uarrived h) rho x); [reflexivity|].
        rewrite nth_error_app1; [exact Hx|]. apply nth_error_Some. rewrite Hx. discriminate.
      * destruct (IH st' arrs N true Hinv' Hcap Hcount)
          as (rho' & ls' & s & H1 & H2 & H3 & H4 & H6). cbv zeta in *.
        assert (Hnil : uarrived h = []).
        { destruct (uarrived h); [reflexivity|]. cbn [length] in Hcap. lia. }
        rewrite Hnil, app_nil_r in *.
        assert (rho' = N) by (destruct H1 as (_ & _ & Hr' & _); lia). subst rho'.
        exists N, ls', (Datatypes.S s).
        destruct (imap_run true st' (map (uev_op d) h)) as [s2 xs]. cbn [fst snd] in *.
        split; [exact H1|]. split; [lia|]. split; [|split; [|exact H6]].
        -- unfold view in *. cbn [filter seen]. rewrite H3, seg_nil. reflexivity.
        -- intros _. split; [reflexivity|]. split; [exact HlenN|]. rewrite H6. reflexivity.
      * destruct (IH st arrs rho ls Hinv Hcap Hcount)
          as (rho' & ls' & s & H1 & H2 & H3 & H4 & H6). cbv zeta in *.
        exists rho', ls', s.
        destruct (imap_run true st (map (uev_op d) h)) as [s2 xs]. cbn [fst snd] in *.
        split; [exact H1|]. split; [exact H2|]. split; [exact H3|]. split; [exact H4|exact H6].
Qed.

(* UNORDERED THEOREM: the consumer sees exactly the arrived items, in arrival
   order, and StopIteration only after N of them and the announcement. *)
Theorem imapu_arrival_order (d : bool) (h : list uev) :
    length (uarrived h) <= N -> ucount_len h <= 1 ->
    exists rho s,
      view (snd (imap_run true imap_init (map (uev_op d) h))) =
        map show (firstn rho (uarrived h)) ++ repeat OStop s /\
      rho <= length (uarrived h) /\
      (0 < s -> rho = N /\ length (uarrived h) = N /\ ucount_len h = 1).
Proof.
  intros Hcap Hcount.
  destruct (imapu_run_inv d h imap_init [] 0 false uinv_init) as (rho' & ls' & s & H1 & H2 & H3 & H4 & H6).
  - cbn. exact Hcap.
  - lia.
  - cbv zeta in *. cbn [app] in *. exists rho', s. rewrite H3, seg_0.
    split; [reflexivity|]. split; [destruct H1 as (_ & _ & Hr & _); exact Hr|].
    intros Hs. destruct (H4 Hs) as (Hr & Hl & Hls). split; [exact Hr|]. split; [exact Hl|].
    rewrite Hls in H6. cbn [orb] in H6. destruct (ucount_len h) as [|[|k]]; try lia; discriminate.
Qed.

Lemma udrain_nexts (arrs : list B) : length arrs = N ->
    forall k rho st, UInv arrs rho true st ->
    view (snd (imap_run true st (repeat INext k))) =
      map show (seg arrs rho (Nat.min N (rho + k))) ++ repeat OStop (k - (N - rho)).
Proof.
  intros HN. induction k as [|k IH]; intros rho st Hinv.
  - cbn. rewrite Nat.add_0_r.
    assert (rho <= N) by (destruct Hinv as (_ & _ & Hr & _); lia).
    replace (Nat.min N rho) with rho by lia. rewrite seg_nil. reflexivity.
  - cbn [repeat imap_run].
    destruct (uinv_next arrs rho true st Hinv) as (st' & o & Hop & Hcase). rewrite Hop.
    destruct Hcase as [(x & Hx & -> & Hinv')|[(-> & -> & _ & _ & Hinv')|(-> & ->)]].
    + specialize (IH (Datatypes.S rho) st' Hinv').
      destruct (imap_run true st' (repeat INext k)) as [s2 xs]. cbn [fst snd] in *.
      unfold view in *. cbn [filter]. rewrite seen_show, IH.
      assert (Hrn : rho < N) by (rewrite <- HN; apply nth_error_Some; rewrite Hx; discriminate).
      rewrite <- (seg_app arrs rho (Datatypes.S rho) (Nat.min N (rho + Datatypes.S k))) by lia.
      rewrite (seg_one arrs rho x Hx).
      replace (Datatypes.S rho + k) with (rho + Datatypes.S k) by lia.
      replace (Datatypes.S k - (N - rho)) with (k - (N - Datatypes.S rho)) by lia. reflexivity.
    + specialize (IH N st' Hinv').
      destruct (imap_run true st' (repeat INext k)) as [s2 xs]. cbn [fst snd] in *.
      unfold view in *. cbn [filter seen]. rewrite IH.
      replace (Nat.min N (N + k)) with N by lia.
      replace (Nat.min N (N + Datatypes.S k)) with N by lia. rewrite seg_nil.
      replace (Datatypes.S k - (N - N)) with (Datatypes.S (k - (N - N))) by lia. reflexivity.
    + exfalso. destruct Hinv as (Hidx & Hpre & Hr & _ & Hlen & Hcache).
      cbn [imap_op] in Hop. unfold imap_next, imap_pop, at_length in Hop.
      rewrite Hlen, Hidx, HN, Z.eqb_refl in Hop.
      destruct (i_items st) as [|b0 r0]; inversion Hop as [[H0 H1]].
      destruct b0; discriminate.
Qed.

Theorem imapu_complete (d : bool) (h : list uev) :
    length (uarrived h) = N -> ucount_len h = 1 ->
    exists s,
      view (snd (imap_run true imap_init (map (uev_op d) h ++ repeat INext (Datatypes.S N)))) =
        map show (uarrived h) ++ repeat OStop (Datatypes.S s).
Proof.
  intros HN Hlen1.
  destruct (imapu_run_inv d h imap_init [] 0 false uinv_init) as (rho' & ls' & s & H1 & H2 & H3 & H4 & H6).
  - cbn. lia.
  - lia.
  - cbv zeta in *. cbn [app] in *. rewrite imap_run_app.
    destruct (imap_run true imap_init (map (uev_op d) h)) as [s1 x1]. cbn [fst snd] in *.
    assert (Hls : ls' = true) by (rewrite H6, Hlen1; reflexivity). rewrite Hls in H1.
    pose proof (udrain_nexts (uarrived h) HN (Datatypes.S N) rho' s1 H1) as Hd.
    destruct (imap_run true s1 (repeat INext (Datatypes.S N))) as [s2 x2]. cbn [fst snd] in *.
    rewrite view_app, H3, Hd.
    assert (Hr : rho' <= N) by (destruct H1 as (_ & _ & Hr & _); lia).
    replace (Nat.min N (rho' + Datatypes.S N)) with N by lia.
    destruct s as [|s].
    + cbn [repeat]. rewrite app_nil_r, app_assoc, <- map_app, seg_app by lia.
      replace (seg (uarrived h) 0 N) with (seg (uarrived h) 0 (length (uarrived h)))
        by (rewrite HN; reflexivity).
      rewrite seg_all.
      exists (N - (N - rho')).
      replace (Datatypes.S N - (N - rho')) with (Datatypes.S (N - (N - rho'))) by lia. reflexivity.
    + destruct (H4 ltac:(lia)) as (Hrn & _). subst rho'. rewrite seg_nil. cbn [map app].
      rewrite <- app_assoc, <- repeat_app.
      replace (seg (uarrived h) 0 N) with (seg (uarrived h) 0 (length (uarrived h)))
        by (rewrite HN; reflexivity).
      rewrite seg_all.
      exists (s + (Datatypes.S N - (N - N))). reflexivity.
Qed.

End Imapu.

(* ================================================================== *)
(* Part D: imap(chunksize > 1)                                          *)

Lemma flat_run_app {V E} (u : bool) (st : fstate V E) (o1 o2 : list (iop (item (list V) E))) :
    flat_run u st (o1 ++ o2) =
    let (s1, x1) := flat_run u st o1 in
    let (s2, x2) := flat_run u s1 o2 in (s2, x1 ++ x2).
Proof.
  revert st. induction o1 as [|o o1 IH]; intros st; cbn [flat_run app].
  - destruct (flat_run u st o2); reflexivity.
  - destruct (flat_op u st o) as [s x]. rewrite IH.
    destruct (flat_run u s o1) as [s1 x1]. destruct (flat_run u s1 o2); reflexivity.
Qed.

(* what the property asks of a chunked imap: every value of every good chunk,
   an error in place of a failed chunk, then StopIteration *)
Definition flat_expected {V E} (chunks : list (item (list V) E)) : list (out V E) :=
  concat (map (fun c => match c with Good vs => map OYield vs | Bad e => [ORaise e] end) chunks)
  ++ [OStop].

(* all chunks arrive in order, the length is announced, the consumer calls next() k times *)
Definition flat_history {V E} (chunks : list (item (list V) E)) (k : nat)
  : list (iop (item (list V) E)) :=
  map (fun ic => ISet (Z.of_nat (fst ic)) (snd ic)) (combine (seq 0 (length chunks)) chunks)
  ++ [ISetLen (Z.of_nat (length chunks))] ++ repeat INext k.

Definition chunked_imap_goes_on_after_error : Prop :=
  forall (chunks : list (item (list Z) Z)) (k : nat),
    (length (flat_expected chunks) <= k)%nat ->
    firstn (length (flat_expected chunks))
           (view (snd (flat_run false flat_init (flat_history chunks k))))
    = flat_expected chunks.

(* REFUTED: chunk 0 fails, chunk 1 = [41; 42] is delivered to the iterator but never
   reaches the consumer: the generator ended when next() raised. *)
Theorem flat_goes_on_refuted : ~ chunked_imap_goes_on_after_error.
Proof.
  intros H. specialize (H [Bad 7; Good [41; 42]] 4%nat ltac:(cbn; lia)).
  vm_compute in H. discriminate.
Qed.

Example flat_witness_trace :
  view (snd (flat_run false flat_init (flat_history [Bad 7; Good [41; 42]] 4)))
  = [ORaise 7; OStop; OStop; OStop] /\
  i_items (f_inner (fst (flat_run false flat_init (flat_history [Bad 7; Good [41; 42]] 4))))
  = [Good [41; 42]].
Proof. vm_compute. split; reflexivity. Qed.

(* the same history through a chunksize-1 iterator does go on *)
Example imap_witness_trace :
  view (snd (imap_run false imap_init
               [ISet 0 (Bad 7); ISet 1 (Good 41); ISet 2 (Good 42); ISetLen 3;
                INext; INext; INext; INext]))
  = [ORaise 7; OYield 41; OYield 42; OStop].
Proof. vm_compute. reflexivity. Qed.

(* once the generator has ended it stays ended: whatever arrives later, next() is
   StopIteration *)
Theorem flat_dead_forever {V E} (u : bool) : forall (ops : list (iop (item (list V) E))) (st : fstate V E),
    f_dead st = true ->
    f_dead (fst (flat_run u st ops)) = true /\
    forall o, In o (view (snd (flat_run u st ops))) -> o = OStop \/ exists e, o = OExn e.
Proof.
  induction ops as [|op ops IH]; intros st Hd; cbn [flat_run].
  - split; [exact Hd|]. intros o [].
  - destruct op as [i b|i b|nn|]; cbn [flat_op].
    + destruct (imap_ctl u (f_inner st) (ISet i b)) as [s e].
      specialize (IH (mk_fst s (f_cur st) (f_dead st)) Hd).
      destruct (flat_run u (mk_fst s (f_cur st) (f_dead st)) ops) as [s2 xs]. cbn [fst snd] in *.
      split; [apply IH|]. intros o Ho. unfold view in Ho. cbn [filter] in Ho.
      destruct e as [x|]; cbn [exn_out seen] in Ho; [destruct Ho as [<-|Ho]; [right; eauto|]|];
        apply IH; exact Ho.
    + destruct (imap_ctl u (f_inner st) (IDeliver i b)) as [s e].
      specialize (IH (mk_fst s (f_cur st) (f_dead st)) Hd).
      destruct (flat_run u (mk_fst s (f_cur st) (f_dead st)) ops) as [s2 xs]. cbn [fst snd] in *.
      split; [apply IH|]. intros o Ho. unfold view in Ho. cbn [filter] in Ho.
      destruct e as [x|]; cbn [exn_out seen] in Ho; [destruct Ho as [<-|Ho]; [right; eauto|]|];
        apply IH; exact Ho.
    + destruct (imap_ctl u (f_inner st) (ISetLen nn)) as [s e].
      specialize (IH (mk_fst s (f_cur st) (f_dead st)) Hd).
      destruct (flat_run u (mk_fst s (f_cur st) (f_dead st)) ops) as [s2 xs]. cbn [fst snd] in *.
      split; [apply IH|]. intros o Ho. unfold view in Ho. cbn [filter] in Ho.
      destruct e as [x|]; cbn [exn_out seen] in Ho; [destruct Ho as [<-|Ho]; [right; eauto|]|];
        apply IH; exact Ho.
    + unfold flat_next. rewrite Hd. specialize (IH st Hd).
      destruct (flat_run u st ops) as [s2 xs]. cbn [fst snd] in *.
      split; [apply IH|]. intros o Ho. unfold view in Ho. cbn [filter seen] in Ho.
      destruct Ho as [<-|Ho]; [left; reflexivity|apply IH; exact Ho].
Qed.

(* ...and an error chunk does end it *)
Theorem flat_error_ends {V E} (st : fstate V E) (e : E) (rest : list (item (list V) E)) :
    f_dead st = false -> f_cur st = [] -> i_items (f_inner st) = Bad e :: rest ->
    snd (flat_next st) = ORaise e /\ f_dead (fst (flat_next st)) = true /\
    i_items (f_inner (fst (flat_next st))) = rest.
Proof.
  intros Hd Hc Hi. unfold flat_next. rewrite Hd, Hc, Hi. cbn [length flat_pull].
  unfold imap_pop. rewrite Hi. cbn. repeat split.
Qed.
