(* C15: dropping in a multi-process setting (Model/SharedHopDrop.v).
   Part 1 (this section): the property's "shares storage with no other live shared object" is FALSE of the
   code when the owner drops its object while a receiver still uses it: a rebuilt BufferWrapper has no
   finaliser and the owner's heap does not know it, so the block is freed and handed out again. *)
From Coq Require Import ZArith List Bool Lia.
From BV Require Import Lib.PyVal Lib.Cases Model.Heap Model.SharedMem Model.SharedHop Model.SharedHopDrop.
Import ListNotations.
Open Scope Z_scope.

(* parent allocates a 4-byte value 7, starts a child, hands the value to it, drops its own reference
   (e.g. replaces the attribute that held it), allocates another 4-byte value 9 *)
Definition recycle_witness : list dop :=
  [DOp (HNew 0 0 (5, None) 4 [7; 0; 0; 0]); DOp HSpawn; DOp (HSend 0 1); DDrop 0;
   DOp (HNew 0 0 (5, None) 4 [9; 0; 0; 0])].

Lemma owner_drop_recycles_receivers_storage :
  match drun 4096 4096 (dsys_init 4096) recycle_witness with
  | OK s =>
      match nth_error (hs_handles (d_sys s)) 1, nth_error (hs_handles (d_sys s)) 2 with
      | Some h1, Some h2 =>
          (* the child's handle and the parent's new object are both live, descend from different
             allocations, live in different processes -- and are the same cells *)
          is_live (d_flags s) 1 = true /\ is_live (d_flags s) 2 = true /\
          nth 1 (droots recycle_witness) O <> nth 2 (droots recycle_witness) O /\
          h_proc h1 = 1%nat /\ h_proc h2 = 0%nat /\
          h_store h1 = h_store h2 /\
          (* the child's object no longer holds the value it was created with and nobody stored through it *)
          hread (d_sys s) h1 = [9; 0; 0; 0] /\
          (* and a store through the child's object changes the parent's new object *)
          match dstep 4096 4096 s (DOp (HWrite 1 0 [1; 1; 1; 1])) with
          | OK s' => hread (d_sys s') h2 = [1; 1; 1; 1]
          | Err _ => False
          end
      | _, _ => False
      end
  | Err _ => False
  end.
Proof. vm_compute. repeat split; try reflexivity; discriminate. Qed.

(* the same inside ONE process: the owner got its object back from a child (a second, finaliser-less wrapper
   over the same block), drops the original, allocates: the handle it still holds is recycled *)
Definition recycle_witness_same_process : list dop :=
  [DOp (HNew 0 2 (5, Some 2) 8 [1; 0; 0; 0; 2; 0; 0; 0]); DOp HSpawn; DOp (HSend 0 1); DOp (HSend 1 0); DDrop 0;
   DOp (HNew 0 1 (3, Some 8) 8 [])].

Lemma owner_drop_recycles_its_own_second_handle :
  match drun 4096 4096 (dsys_init 4096) recycle_witness_same_process with
  | OK s =>
      match nth_error (hs_handles (d_sys s)) 2, nth_error (hs_handles (d_sys s)) 3 with
      | Some h2, Some h3 =>
          is_live (d_flags s) 2 = true /\ is_live (d_flags s) 3 = true /\
          h_proc h2 = 0%nat /\ h_proc h3 = 0%nat /\ h_store h2 = h_store h3 /\
          hread (d_sys s) h2 = [0; 0; 0; 0; 0; 0; 0; 0]
      | _, _ => False
      end
  | Err _ => False
  end.
Proof. vm_compute. repeat split; reflexivity. Qed.

(* neither history follows the discipline under which isolation is guaranteed (Part 2) *)
Lemma recycle_witnesses_undisciplined :
  disciplined recycle_witness = false /\ disciplined recycle_witness_same_process = false.
Proof. vm_compute. split; reflexivity. Qed.

(* ------------------------------------------------------------------------------------------------
   Part 2: what IS guaranteed.  Under the discipline `disciplined ops` -- an object made by allocation is
   dropped only when no other live handle descends from it (the owner keeps it until every receiver is
   done) -- for every history of spawning, allocating in any process, handing over, storing and dropping:
   every process's heap keeps the C14 invariant, every live handle's block is live in its owner's heap,
   live handles of different allocations lie in different processes' arenas or in disjoint blocks, and a
   store through one changes no byte of the other. *)
From Coq Require Import ZifyBool Permutation.
From BV Require Import Proofs.HeapLib Proofs.HeapIdx Proofs.HeapGeo Proofs.HeapInv Proofs.HeapProofs
  Proofs.SharedMemProofs Proofs.SharedMemHist Proofs.SharedHopProofs.

Definition lstore (hs : list handle) (fl : list (bool * bool)) (k owner : nat) (ob : obj) : Prop :=
  is_live fl k = true /\ exists h, nth_error hs k = Some h /\ h_store h = HShared owner ob.

Record DInv (rt : list nat) (s : dsys) : Prop := mk_DInv {
  di_inv : Inv rt (d_sys s);
  di_len : length (d_flags s) = length (hs_handles (d_sys s));
  di_heaps : forall p pr, nth_error (hs_procs (d_sys s)) p = Some pr ->
             HeapInv (sm_heap (p_sm pr)) /\ pending (sm_heap (p_sm pr)) = [];
  di_ok : forall k owner ob, lstore (hs_handles (d_sys s)) (d_flags s) k owner ob ->
          exists pr, nth_error (hs_procs (d_sys s)) owner = Some pr /\ obj_ok (sm_heap (p_sm pr)) ob;
  di_sep : forall j k oj obj ok obk,
          lstore (hs_handles (d_sys s)) (d_flags s) j oj obj -> lstore (hs_handles (d_sys s)) (d_flags s) k ok obk ->
          nth j rt O <> nth k rt O -> oj <> ok \/ o_block obj <> o_block obk }.

(* ---- flags and stores ---- *)
Lemma is_live_lt fl k : is_live fl k = true -> (k < length fl)%nat.
Proof.
  unfold is_live. destruct (nth_error fl k) as [[a b]|] eqn:E; [|discriminate].
  intros _. apply nth_error_Some. congruence.
Qed.

Lemma is_live_app_old fl x k : (k < length fl)%nat -> is_live (fl ++ x) k = is_live fl k.
Proof. intros H. unfold is_live. rewrite nth_error_app1 by assumption. reflexivity. Qed.

Lemma lstore_snoc hs fl hn x k owner ob : length fl = length hs ->
  lstore (hs ++ [hn]) (fl ++ [x]) k owner ob ->
  ((k < length hs)%nat /\ lstore hs fl k owner ob) \/ (k = length hs /\ h_store hn = HShared owner ob).
Proof.
  intros Hl [L [h [E S]]]. apply nth_error_snoc in E. destruct E as [[Lt E]|[-> ->]].
  - left. split; [assumption|]. split; [rewrite is_live_app_old in L by lia; assumption|]. exists h. split; assumption.
  - right. split; [reflexivity|assumption].
Qed.

Lemma lstore_drop hs fl k0 orig k owner ob :
  lstore hs (set_nth fl k0 (orig, false)) k owner ob -> k <> k0 /\ lstore hs fl k owner ob.
Proof.
  intros [L HS]. assert (N : k <> k0).
  { intros ->. unfold is_live in L. destruct (nth_error fl k0) as [y|] eqn:E.
    - rewrite (hnth_set_same _ _ _ _ E) in L. discriminate.
    - assert (E' : nth_error (set_nth fl k0 (orig, false)) k0 = None).
      { apply nth_error_None. rewrite hset_nth_length. apply nth_error_None. assumption. }
      rewrite E' in L. discriminate. }
  split; [assumption|]. split; [|assumption].
  unfold is_live in *. rewrite hnth_set_other in L by congruence. assumption.
Qed.

(* ---- processes ---- *)
Lemma procs_set_cases (ps : list proc) p pr pr' : nth_error ps p = Some pr ->
  forall q prq, nth_error (set_nth ps p pr') q = Some prq -> (q = p /\ prq = pr') \/ (q <> p /\ nth_error ps q = Some prq).
Proof.
  intros E q prq H. destruct (Nat.eq_dec q p) as [->|N].
  - left. rewrite (hnth_set_same _ _ _ _ E) in H. inversion H. auto.
  - right. rewrite hnth_set_other in H by congruence. auto.
Qed.

(* the invariant of SharedHop is indifferent to what happens inside a process's heap and memory *)
Lemma inv_set_sm rt (s : hsys) p pr sm' : Inv rt s -> nth_error (hs_procs s) p = Some pr ->
  Inv rt (mk_hsys (set_nth (hs_procs s) p (mk_proc sm' (p_reg pr))) (hs_handles s)).
Proof.
  intros I E. constructor; cbn [hs_handles hs_procs]; try (destruct I; assumption).
  pose proof (inv_ok _ _ I) as Hok. rewrite Forall_forall in *. intros h Hin.
  eapply handle_ok_mono; [|apply Hok; assumption].
  eapply procs_le_set; [eassumption|]. intros t0 H0. cbn [p_reg]. assumption.
Qed.

Section DropHops.
Variables pg hsize : Z.
Hypothesis Hpg : pg_ok pg.
Notation hstep' := (hstep pg hsize new_value_prog rebuild_prog).

Lemma new_shape s p kind t size init s1 : hstep' s (HNew p kind t size init) = OK s1 ->
  exists pr sm' ob, nth_error (hs_procs s) p = Some pr /\
    create (prog_of_kind kind) pg size init (p_sm pr) = OK (sm', ob) /\
    s1 = mk_hsys (set_nth (hs_procs s) p (mk_proc sm' (p_reg pr ++ [t])))
                 (hs_handles s ++ [mk_handle p t (HShared p ob)]).
Proof.
  intros H. cbn [hstep] in H. destruct (nth_error (hs_procs s) p) as [pr|] eqn:Ep; [|discriminate].
  rewrite new_value_runs in H. cbn [nv_obj nv_regs] in H.
  destruct (create (prog_of_kind kind) pg size init (p_sm pr)) as [[sm' ob]|e] eqn:Ec; cbn [bind] in H; [|discriminate].
  inversion H. exists pr, sm', ob. auto.
Qed.

Lemma write_shape rt s k off bs s1 : Inv rt s -> hstep' s (HWrite k off bs) = OK s1 ->
  exists h owner ob pro m', nth_error (hs_handles s) k = Some h /\ h_store h = HShared owner ob /\
    nth_error (hs_procs s) owner = Some pro /\ o_write (sm_mem (p_sm pro)) ob off bs = Some m' /\
    s1 = mk_hsys (set_nth (hs_procs s) owner (mk_proc (mk_sm (sm_heap (p_sm pro)) m') (p_reg pro))) (hs_handles s).
Proof.
  intros I H. cbn [hstep] in H. destruct (nth_error (hs_handles s) k) as [h|] eqn:Eh; [|discriminate].
  pose proof (inv_ok _ _ I) as Hok. rewrite Forall_forall in Hok.
  destruct (Hok h (nth_error_In _ _ Eh)) as [[owner [ob [Es Ho]]] _]. rewrite Es in H.
  destruct (nth_error (hs_procs s) owner) as [pro|] eqn:Eo; [|discriminate].
  destruct (o_write (sm_mem (p_sm pro)) ob off bs) as [m'|] eqn:Ew; [|discriminate].
  inversion H. exists h, owner, ob, pro, m'. auto 6.
Qed.

(* creation in a heap satisfying the invariant: the size was in range, nothing is left pending *)
Lemma create_facts kind size init sm sm' ob : HeapInv (sm_heap sm) -> pending (sm_heap sm) = [] ->
  create (prog_of_kind kind) pg size init sm = OK (sm', ob) ->
  HeapInv (sm_heap sm') /\ pending (sm_heap sm') = [] /\ obj_ok (sm_heap sm') ob /\
  forall o2, obj_ok (sm_heap sm) o2 -> obj_ok (sm_heap sm') o2 /\ o_block o2 <> o_block ob.
Proof.
  intros HI Hpe Hc. destruct (prog_of_kind_shape kind) as [p [Ep [Hp _]]]. rewrite Ep in Hc.
  assert (Hs : 0 <= size < maxsize).
  { destruct (create_new _ _ _ _ _ _ _ Hc) as [b [h' [Em _]]]. unfold malloc in Em.
    destruct ((size <? 0) || (maxsize <=? size)) eqn:E; [discriminate|lia]. }
  destruct (create_isolated pg size init p sm sm' ob Hpg HI Hs Hp Hc) as [HI' [Hok [_ Hold]]].
  split; [assumption|]. split.
  - destruct (create_new _ _ _ _ _ _ _ Hc) as [b [h' [Em [_ Hd]]]].
    destruct (malloc_ok pg (sm_heap sm) size Hpg HI Hs) as [b0 [h0 [hd [E0 [_ [_ [Hp0 _]]]]]]].
    rewrite Em in E0. inversion E0; subst b0 h0.
    pose proof (effects_heap _ _ _ _ _ _ _ _ Hp Hd) as Hh. cbn [sm_heap] in Hh. rewrite Hh. assumption.
  - split; [assumption|]. intros o2 H2. destruct (Hold o2 H2) as [A [B _]]; [rewrite Hpe; intros []|]. auto.
Qed.

(* one step under the discipline *)
Definition disc_step (rt : list nat) (fl : list (bool * bool)) (o : dop) : bool :=
  match o with
  | DOp _ => true
  | DDrop k => match nth_error fl k with
               | Some (true, _) => no_live_relative rt fl k
               | _ => true
               end
  end.
Definition rt_step (rt : list nat) (o : dop) : list nat :=
  match o with DOp h => roots_from rt [h] | DDrop _ => rt end.

Lemma no_relative rt fl k : no_live_relative rt fl k = true ->
  forall j, j <> k -> is_live fl j = true -> nth j rt O <> nth k rt O.
Proof.
  unfold no_live_relative. intros H j Hj Hl E. rewrite forallb_forall in H.
  specialize (H j ltac:(apply in_seq; pose proof (is_live_lt _ _ Hl); lia)).
  rewrite Hl, E, Nat.eqb_refl in H. cbn in H. destruct (Nat.eqb j k) eqn:Ejk; [apply Nat.eqb_eq in Ejk; lia|discriminate].
Qed.

Lemma dstep_inv rt s o s' : DInv rt s -> dstep pg hsize s o = OK s' -> disc_step rt (d_flags s) o = true ->
  DInv (rt_step rt o) s'.
Proof.
  intros D H Hd. pose proof (di_inv _ _ D) as I. pose proof (di_len _ _ D) as Hlen.
  destruct o as [h|k0]; cbn [dstep rt_step] in *.
  - (* ---- an op of SharedHop *)
    destruct (match hop_uses h with Some k => is_live (d_flags s) k | None => true end) eqn:Eu; [|discriminate].
    destruct (hstep' (d_sys s) h) as [s1|e] eqn:Eh; cbn [bind] in H; [|discriminate].
    inversion H; subst s'. clear H.
    destruct (step_inv pg hsize rt (d_sys s) h s1 I Eh) as [I1 _].
    destruct h as [|p kind t size init|k q|k off bs]; cbn [hop_flags hop_uses roots_from] in *.
    + (* HSpawn *)
      cbn [hstep] in Eh. inversion Eh; subst s1. clear Eh.
      constructor; cbn [d_sys d_flags hs_handles hs_procs].
      * assumption.
      * rewrite app_nil_r. assumption.
      * intros p pr Hp. apply nth_error_snoc in Hp. destruct Hp as [[_ Hp]|[_ ->]].
        -- apply (di_heaps _ _ D _ _ Hp).
        -- cbn [fresh_proc p_sm sm_heap]. split; [apply heap_init_inv|reflexivity].
      * rewrite app_nil_r. intros k owner ob L. destruct (di_ok _ _ D _ _ _ L) as [pr [Ep Hok]].
        exists pr. split; [|assumption]. rewrite nth_error_app1 by (eapply nth_error_lt; eassumption). assumption.
      * rewrite app_nil_r. apply (di_sep _ _ D).
    + (* HNew *)
      destruct (new_shape _ _ _ _ _ _ _ Eh) as [pr [sm' [ob [Ep [Ec ->]]]]].
      destruct (di_heaps _ _ D _ _ Ep) as [HIp Hpp].
      destruct (create_facts _ _ _ _ _ _ HIp Hpp Ec) as [HI' [Hpe' [Hokn Hold]]].
      constructor; cbn [d_sys d_flags hs_handles hs_procs].
      * assumption.
      * rewrite !app_length, Hlen. reflexivity.
      * intros q prq Hq. destruct (procs_set_cases _ _ pr _ Ep _ _ Hq) as [[-> ->]|[_ Hq']].
        -- cbn [p_sm]. split; assumption.
        -- apply (di_heaps _ _ D _ _ Hq').
      * intros k owner ob0 L. apply lstore_snoc in L; [|assumption]. destruct L as [[Lt L]|[-> Es]].
        -- destruct (di_ok _ _ D _ _ _ L) as [pro [Eo Hok]].
           destruct (Nat.eq_dec owner p) as [->|N].
           ++ rewrite Ep in Eo. inversion Eo; subst pro.
              eexists. split; [eapply hnth_set_same; eassumption|]. cbn [p_sm]. apply Hold. assumption.
           ++ exists pro. split; [|assumption]. rewrite hnth_set_other by congruence. assumption.
        -- cbn [h_store] in Es. inversion Es; subst owner ob0.
           eexists. split; [eapply hnth_set_same; eassumption|]. cbn [p_sm]. assumption.
      * intros j k oj obj ok obk Lj Lk Hr.
        pose proof (inv_len _ _ I) as Hrl. pose proof (inv_lt _ _ I) as Hrlt.
        apply lstore_snoc in Lj; [|assumption]. apply lstore_snoc in Lk; [|assumption].
        destruct Lj as [[Ltj Lj]|[-> Esj]]; destruct Lk as [[Ltk Lk]|[-> Esk]].
        -- rewrite !nth_snoc_lt in Hr by lia. apply (di_sep _ _ D _ _ _ _ _ _ Lj Lk Hr).
        -- cbn [h_store] in Esk. inversion Esk; subst ok obk.
           destruct (Nat.eq_dec oj p) as [->|N]; [|left; assumption]. right.
           destruct (di_ok _ _ D _ _ _ Lj) as [pro [Eo Hok]]. rewrite Ep in Eo. inversion Eo; subst pro.
           apply Hold. assumption.
        -- cbn [h_store] in Esj. inversion Esj; subst oj obj.
           destruct (Nat.eq_dec ok p) as [->|N]; [|left; congruence]. right.
           destruct (di_ok _ _ D _ _ _ Lk) as [pro [Eo Hok]]. rewrite Ep in Eo. inversion Eo; subst pro.
           intros E. apply (proj2 (Hold _ Hok)). congruence.
        -- exfalso. apply Hr. reflexivity.
    + (* HSend *)
      assert (Hk : exists hk, nth_error (hs_handles (d_sys s)) k = Some hk).
      { destruct (nth_error (hs_handles (d_sys s)) k) as [hk|] eqn:E; [eauto|]. cbn [hstep] in Eh. rewrite E in Eh. discriminate. }
      destruct Hk as [hk Ek].
      assert (Hq : exists prq, nth_error (hs_procs (d_sys s)) q = Some prq).
      { destruct (nth_error (hs_procs (d_sys s)) q) as [prq|] eqn:E; [eauto|]. cbn [hstep] in Eh. rewrite Ek, E in Eh. discriminate. }
      destruct Hq as [prq Eq].
      rewrite (send_shape pg hsize _ _ _ _ _ _ I Ek Eq) in Eh. inversion Eh; subst s1. clear Eh.
      constructor; cbn [d_sys d_flags hs_handles hs_procs].
      * assumption.
      * rewrite !app_length, Hlen. reflexivity.
      * intros p pr Hp. destruct (procs_set_cases _ _ prq _ Eq _ _ Hp) as [[-> ->]|[_ Hp']].
        -- cbn [add_regs p_sm]. apply (di_heaps _ _ D _ _ Eq).
        -- apply (di_heaps _ _ D _ _ Hp').
      * assert (Hmono : forall owner ob0, (exists pr, nth_error (hs_procs (d_sys s)) owner = Some pr /\ obj_ok (sm_heap (p_sm pr)) ob0) ->
                  exists pr, nth_error (set_nth (hs_procs (d_sys s)) q (add_regs prq [h_type hk])) owner = Some pr /\ obj_ok (sm_heap (p_sm pr)) ob0).
        { intros owner ob0 [pro [Eo Hok]]. destruct (Nat.eq_dec owner q) as [->|N].
          - rewrite Eq in Eo. inversion Eo; subst pro. eexists. split; [eapply hnth_set_same; eassumption|]. cbn [add_regs p_sm]. assumption.
          - exists pro. split; [|assumption]. rewrite hnth_set_other by congruence. assumption. }
        intros k1 owner ob0 L. apply lstore_snoc in L; [|assumption]. destruct L as [[Lt L]|[-> Es]].
        -- apply Hmono. apply (di_ok _ _ D _ _ _ L).
        -- cbn [h_store] in Es. apply Hmono. apply (di_ok _ _ D k). split; [assumption|]. exists hk. split; assumption.
      * intros j k1 oj obj ok obk Lj Lk Hr.
        pose proof (inv_len _ _ I) as Hrl.
        apply lstore_snoc in Lj; [|assumption]. apply lstore_snoc in Lk; [|assumption].
        assert (Hkr : (k < length rt)%nat) by (rewrite Hrl; eapply nth_error_lt; eassumption).
        destruct Lj as [[Ltj Lj]|[-> Esj]]; destruct Lk as [[Ltk Lk]|[-> Esk]].
        -- rewrite !nth_snoc_lt in Hr by lia. apply (di_sep _ _ D _ _ _ _ _ _ Lj Lk Hr).
        -- rewrite nth_snoc_lt in Hr by lia. rewrite <- Hrl, nth_snoc_eq in Hr. cbn [h_store] in Esk.
           apply (di_sep _ _ D j k _ _ _ _ Lj); [|assumption]. split; [assumption|]. exists hk. split; assumption.
        -- rewrite (nth_snoc_lt rt _ k1) in Hr by lia. rewrite <- Hrl, nth_snoc_eq in Hr. cbn [h_store] in Esj.
           apply (di_sep _ _ D k k1 _ _ _ _); [|assumption|assumption]. split; [assumption|]. exists hk. split; assumption.
        -- exfalso. apply Hr. reflexivity.
    + (* HWrite *)
      destruct (write_shape _ _ _ _ _ _ I Eh) as [hk [owner [ob [pro [m' [Ek [Es [Eo [Ew ->]]]]]]]]].
      constructor; cbn [d_sys d_flags hs_handles hs_procs].
      * assumption.
      * rewrite app_nil_r. assumption.
      * intros p pr Hp. destruct (procs_set_cases _ _ pro _ Eo _ _ Hp) as [[-> ->]|[_ Hp']].
        -- cbn [p_sm sm_heap]. apply (di_heaps _ _ D _ _ Eo).
        -- apply (di_heaps _ _ D _ _ Hp').
      * rewrite app_nil_r. intros k1 owner1 ob1 L. destruct (di_ok _ _ D _ _ _ L) as [pr1 [E1 Hok]].
        destruct (Nat.eq_dec owner1 owner) as [->|N].
        -- rewrite Eo in E1. inversion E1; subst pr1. eexists. split; [eapply hnth_set_same; eassumption|]. cbn [p_sm sm_heap]. assumption.
        -- exists pr1. split; [|assumption]. rewrite hnth_set_other by congruence. assumption.
      * rewrite app_nil_r. apply (di_sep _ _ D).
  - (* ---- a drop *)
    destruct (nth_error (d_flags s) k0) as [[orig live]|] eqn:Ef; [|discriminate].
    destruct live; [|discriminate].
    destruct (nth_error (hs_handles (d_sys s)) k0) as [h0|] eqn:Eh0; [|discriminate].
    (* whatever is freed: the handles and the roots stay, the flags lose k0 *)
    assert (Hsimple : forall s1, s' = mk_dsys s1 (set_nth (d_flags s) k0 (orig, false)) ->
              Inv rt s1 -> hs_handles s1 = hs_handles (d_sys s) ->
              (forall p pr, nth_error (hs_procs s1) p = Some pr -> HeapInv (sm_heap (p_sm pr)) /\ pending (sm_heap (p_sm pr)) = []) ->
              (forall k owner ob, k <> k0 -> lstore (hs_handles (d_sys s)) (d_flags s) k owner ob ->
                 exists pr, nth_error (hs_procs s1) owner = Some pr /\ obj_ok (sm_heap (p_sm pr)) ob) ->
              DInv rt s').
    { intros s1 -> I1 Hh Hheaps Hoks. constructor; cbn [d_sys d_flags]; rewrite ?Hh.
      - assumption.
      - rewrite hset_nth_length. assumption.
      - assumption.
      - intros k owner ob L. apply lstore_drop in L. destruct L as [N L]. apply (Hoks k); assumption.
      - intros j k oj obj ok obk Lj Lk Hr. apply lstore_drop in Lj. apply lstore_drop in Lk.
        apply (di_sep _ _ D _ _ _ _ _ _ (proj2 Lj) (proj2 Lk) Hr). }
    destruct orig.
    + destruct (h_store h0) as [owner ob|bs] eqn:Es.
      * (* the original: the block is freed in the owner's heap *)
        destruct (nth_error (hs_procs (d_sys s)) owner) as [pr|] eqn:Eo; [|discriminate].
        destruct (drop (p_sm pr) ob) as [sm'|e] eqn:Edr; cbn [bind] in H; [|discriminate].
        inversion H; subst s'. clear H.
        assert (L0 : lstore (hs_handles (d_sys s)) (d_flags s) k0 owner ob).
        { split; [unfold is_live; rewrite Ef; reflexivity|]. exists h0. split; assumption. }
        destruct (di_ok _ _ D _ _ _ L0) as [pr0 [Eo0 [Hin Hsz]]]. rewrite Eo in Eo0. inversion Eo0; subst pr0.
        destruct (di_heaps _ _ D _ _ Eo) as [HIo Hpo].
        unfold drop in Edr. destruct (free (sm_heap (p_sm pr)) (o_block ob)) as [h'|e] eqn:Efr; cbn [bind] in Edr; [|discriminate].
        inversion Edr; subst sm'. clear Edr.
        assert (Hnp : ~ In (o_block ob) (pending (sm_heap (p_sm pr)))) by (rewrite Hpo; intros []).
        destruct (free_ok _ _ HIo Hin Hnp) as [h1 [Ef1 [HI' [Hpe' _]]]]. rewrite Efr in Ef1. inversion Ef1; subst h1.
        destruct (free_block _ _ _ HIo Hin Hnp Efr) as [_ [_ Hal]].
        cbn [disc_step] in Hd. rewrite Ef in Hd.
        eapply Hsimple; [reflexivity| | | |]; cbn [hs_handles hs_procs].
        -- apply inv_set_sm; assumption.
        -- reflexivity.
        -- intros p prp Hp. destruct (procs_set_cases _ _ pr _ Eo _ _ Hp) as [[-> ->]|[_ Hp']].
           ++ cbn [p_sm sm_heap]. split; assumption.
           ++ apply (di_heaps _ _ D _ _ Hp').
        -- intros k owner1 ob1 N L. destruct (di_ok _ _ D _ _ _ L) as [pr1 [E1 [Hin1 Hsz1]]].
           destruct (Nat.eq_dec owner1 owner) as [->|No].
           ++ rewrite Eo in E1. inversion E1; subst pr1.
              eexists. split; [eapply hnth_set_same; eassumption|]. cbn [p_sm sm_heap]. split; [|assumption].
              apply Hal. split; [assumption|]. split; [|rewrite Hpo; intros []].
              destruct (di_sep _ _ D k k0 _ _ _ _ L L0) as [A|A]; [|congruence|assumption].
              apply (no_relative _ _ _ Hd); [assumption|apply L].
           ++ exists pr1. split; [|split; assumption]. rewrite hnth_set_other by congruence. assumption.
      * inversion H; subst s'. clear H.
        eapply Hsimple; [reflexivity|assumption|reflexivity|apply (di_heaps _ _ D)|].
        intros k owner ob _ L. apply (di_ok _ _ D _ _ _ L).
    + (* a received handle: no finaliser, nothing is freed *)
      assert (Hs' : s' = mk_dsys (d_sys s) (set_nth (d_flags s) k0 (false, false))).
      { destruct (h_store h0); inversion H; reflexivity. }
      eapply Hsimple; [exact Hs'|assumption|reflexivity|apply (di_heaps _ _ D)|].
      intros k owner ob _ L. apply (di_ok _ _ D _ _ _ L).
Qed.

Lemma dstep_flags s o s' : dstep pg hsize s o = OK s' ->
  match o with
  | DOp h => d_flags s' = d_flags s ++ hop_flags h
  | DDrop k => exists orig, nth_error (d_flags s) k = Some (orig, true) /\ d_flags s' = set_nth (d_flags s) k (orig, false)
  end.
Proof.
  intros H. destruct o as [h|k]; cbn [dstep] in H.
  - destruct (match hop_uses h with Some k => is_live (d_flags s) k | None => true end); [|discriminate].
    destruct (hstep' (d_sys s) h) as [s1|e]; cbn [bind] in H; [|discriminate]. inversion H. reflexivity.
  - destruct (nth_error (d_flags s) k) as [[orig live]|] eqn:Ef; [|discriminate]. destruct live; [|discriminate].
    destruct (nth_error (hs_handles (d_sys s)) k) as [h0|]; [|discriminate].
    exists orig. split; [reflexivity|].
    destruct orig; [destruct (h_store h0) as [owner ob|bs]|].
    + destruct (nth_error (hs_procs (d_sys s)) owner) as [pr|]; [|discriminate].
      destruct (drop (p_sm pr) ob); cbn [bind] in H; [|discriminate]. inversion H. reflexivity.
    + inversion H. reflexivity.
    + destruct (h_store h0); inversion H; reflexivity.
Qed.

Lemma drun_inv ops : forall rt s s', DInv rt s -> drun pg hsize s ops = OK s' ->
  disciplined_from rt (d_flags s) ops = true -> DInv (roots_from rt (hops_of ops)) s'.
Proof.
  induction ops as [|o r IH]; intros rt s s' D H Hd; cbn [drun hops_of] in *.
  - inversion H; subst. cbn [roots_from]. assumption.
  - destruct (dstep pg hsize s o) as [s1|e] eqn:E1; cbn [bind] in H; [|discriminate].
    pose proof (dstep_flags _ _ _ E1) as Hf.
    destruct o as [h|k]; cbn [disciplined_from hops_of] in *.
    + rewrite roots_from_app. apply (IH _ s1); [|assumption|rewrite Hf; assumption].
      apply (dstep_inv rt s (DOp h) s1 D E1). reflexivity.
    + destruct Hf as [orig [Ef Hf]]. rewrite Ef in Hd. apply andb_true_iff in Hd. destruct Hd as [Hd1 Hd2].
      apply (IH _ s1); [|assumption|rewrite Hf; assumption].
      apply (dstep_inv rt s (DDrop k) s1 D E1). cbn [disc_step]. rewrite Ef. destruct orig; [assumption|reflexivity].
Qed.

Lemma dinv_init : DInv [] (dsys_init hsize).
Proof.
  constructor; cbn [dsys_init d_sys d_flags hsys_init hs_handles hs_procs].
  - apply inv_init.
  - reflexivity.
  - intros p pr Hp. destruct p as [|p]; cbn [nth_error] in Hp; [|destruct p; discriminate].
    inversion Hp; subst pr. cbn [fresh_proc p_sm sm_heap]. split; [apply heap_init_inv|reflexivity].
  - intros k owner ob [L _]. unfold is_live in L. destruct k; discriminate.
  - intros j k oj obj ok obk [L _]. unfold is_live in L. destruct j; discriminate.
Qed.

Theorem disciplined_inv ops s : drun pg hsize (dsys_init hsize) ops = OK s -> disciplined ops = true ->
  DInv (droots ops) s.
Proof. intros H Hd. exact (drun_inv ops [] _ _ dinv_init H Hd). Qed.

(* 1. live handles: backed by a live block of their owner's heap (which satisfies C14's invariant); the same
   cells when they descend from the same allocation; otherwise another process's arena or a disjoint block *)
Theorem disciplined_isolated ops s j k hj hk :
  drun pg hsize (dsys_init hsize) ops = OK s -> disciplined ops = true ->
  is_live (d_flags s) j = true -> is_live (d_flags s) k = true ->
  nth_error (hs_handles (d_sys s)) j = Some hj -> nth_error (hs_handles (d_sys s)) k = Some hk ->
  exists oj obj ok obk prj prk,
    h_store hj = HShared oj obj /\ h_store hk = HShared ok obk /\
    nth_error (hs_procs (d_sys s)) oj = Some prj /\ nth_error (hs_procs (d_sys s)) ok = Some prk /\
    HeapInv (sm_heap (p_sm prj)) /\ obj_ok (sm_heap (p_sm prj)) obj /\ obj_ok (sm_heap (p_sm prk)) obk /\
    (nth j (droots ops) O = nth k (droots ops) O -> h_store hj = h_store hk) /\
    (nth j (droots ops) O <> nth k (droots ops) O -> oj <> ok \/ disj (o_block obj) (o_block obk)).
Proof.
  intros H Hd Lj Lk Ej Ek. pose proof (disciplined_inv _ _ H Hd) as D. pose proof (di_inv _ _ D) as I.
  pose proof (inv_ok _ _ I) as Hok. rewrite Forall_forall in Hok.
  destruct (Hok hj (nth_error_In _ _ Ej)) as [[oj [obj [Esj _]]] _].
  destruct (Hok hk (nth_error_In _ _ Ek)) as [[ok [obk [Esk _]]] _].
  assert (LSj : lstore (hs_handles (d_sys s)) (d_flags s) j oj obj) by (split; [assumption|exists hj; split; assumption]).
  assert (LSk : lstore (hs_handles (d_sys s)) (d_flags s) k ok obk) by (split; [assumption|exists hk; split; assumption]).
  destruct (di_ok _ _ D _ _ _ LSj) as [prj [Epj Hokj]]. destruct (di_ok _ _ D _ _ _ LSk) as [prk [Epk Hokk]].
  exists oj, obj, ok, obk, prj, prk. repeat (split; [assumption|]).
  split; [apply (di_heaps _ _ D _ _ Epj)|]. split; [assumption|]. split; [assumption|]. split.
  - intros E. apply (inv_same _ _ I j k hj hk Ej Ek E).
  - intros N. destruct (di_sep _ _ D _ _ _ _ _ _ LSj LSk N) as [A|A]; [left; assumption|].
    destruct (Nat.eq_dec oj ok) as [->|No]; [|left; assumption]. right.
    rewrite Epj in Epk. inversion Epk; subst prk.
    destruct (live_blocks _ (proj1 (di_heaps _ _ D _ _ Epj))) as [_ Hdj].
    apply Hdj; [apply Hokj|apply Hokk|assumption].
Qed.

(* 2. a store through a live handle changes no byte read through a live handle of another allocation *)
Theorem disciplined_store_isolated ops s j k hj off bs s' :
  drun pg hsize (dsys_init hsize) ops = OK s -> disciplined ops = true ->
  is_live (d_flags s) j = true -> nth_error (hs_handles (d_sys s)) j = Some hj ->
  nth j (droots ops) O <> nth k (droots ops) O ->
  dstep pg hsize s (DOp (HWrite k off bs)) = OK s' ->
  hread (d_sys s') hj = hread (d_sys s) hj.
Proof.
  intros H Hd Lj Ej N Hw. pose proof (disciplined_inv _ _ H Hd) as D. pose proof (di_inv _ _ D) as I.
  cbn [dstep hop_uses] in Hw. destruct (is_live (d_flags s) k) eqn:Lk; [|discriminate].
  destruct (hstep' (d_sys s) (HWrite k off bs)) as [s1|e] eqn:Eh; cbn [bind] in Hw; [|discriminate].
  inversion Hw; subst s'. clear Hw. cbn [d_sys].
  destruct (write_shape _ _ _ _ _ _ I Eh) as [hk [owner [ob [pro [m' [Ek [Es [Eo [Ew ->]]]]]]]]].
  pose proof (inv_ok _ _ I) as Hok. rewrite Forall_forall in Hok.
  destruct (Hok hj (nth_error_In _ _ Ej)) as [[oj [obj [Esj _]]] _].
  unfold hread. rewrite Esj. unfold proc_mem. cbn [hs_procs].
  assert (LSj : lstore (hs_handles (d_sys s)) (d_flags s) j oj obj) by (split; [assumption|exists hj; split; assumption]).
  assert (LSk : lstore (hs_handles (d_sys s)) (d_flags s) k owner ob) by (split; [assumption|exists hk; split; assumption]).
  destruct (Nat.eq_dec oj owner) as [->|No].
  - rewrite (hnth_set_same _ _ _ _ Eo), Eo. cbn [p_sm sm_mem].
    destruct (di_ok _ _ D _ _ _ LSj) as [prj [Epj Hokj]]. destruct (di_ok _ _ D _ _ _ LSk) as [prk [Epk Hokk]].
    rewrite Eo in Epj, Epk. inversion Epj; inversion Epk; subst prj prk.
    destruct (di_sep _ _ D _ _ _ _ _ _ LSj LSk N) as [A|A]; [congruence|].
    apply (write_isolated (sm_heap (p_sm pro)) (sm_mem (p_sm pro)) ob obj off bs m'
             (proj1 (di_heaps _ _ D _ _ Eo)) Hokk Hokj ltac:(congruence) Ew).
  - rewrite hnth_set_other by congruence. reflexivity.
Qed.
End DropHops.

(* non-vacuity of Part 2: a disciplined history with hand-overs, drops by receivers, the drop of the original,
   and recycling of its block by the next allocation *)
Definition disciplined_witness : list dop :=
  [DOp (HNew 0 0 (5, None) 4 [7; 0; 0; 0]); DOp (HNew 0 0 (2, None) 1 [3]); DOp HSpawn; DOp HSpawn;
   DOp (HSend 0 1); DOp (HSend 2 2); DOp (HSend 3 0); DOp (HWrite 4 0 [238; 238; 238; 238]);
   DDrop 3; DDrop 2; DDrop 4; DDrop 0; DOp (HNew 0 0 (5, None) 4 []); DOp (HSend 5 2); DOp (HWrite 6 0 [33])].

Lemma disciplined_witness_ok :
  disciplined disciplined_witness = true /\
  match drun 4096 4096 (dsys_init 4096) disciplined_witness with
  | OK s => live_hreads (d_sys s) (hs_handles (d_sys s)) (d_flags s) O
            = [(1%nat, [3]); (5%nat, [33; 0; 0; 0]); (6%nat, [33; 0; 0; 0])] /\
            map h_store (hs_handles (d_sys s)) =
              [HShared 0 (mk_obj (0, 0, 8) 4); HShared 0 (mk_obj (0, 8, 16) 1); HShared 0 (mk_obj (0, 0, 8) 4);
               HShared 0 (mk_obj (0, 0, 8) 4); HShared 0 (mk_obj (0, 0, 8) 4); HShared 0 (mk_obj (0, 0, 8) 4);
               HShared 0 (mk_obj (0, 0, 8) 4)]
  | Err _ => False
  end.
Proof. vm_compute. repeat split; reflexivity. Qed.
