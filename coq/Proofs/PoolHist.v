(* History-level theorems about the pool model (asked for by the independent audit, item 10:
   "single-step statements where the property quantifies over histories").

   Method.  Every event of Model/Pool.v is decomposed ONCE into a sequence of primitive
   [move]s (a job record is rewritten by one of nine guarded job-level functions [jmove];
   a job is appended; the process table is updated write-once; a worker is started; the
   clock advances; exited workers are reaped and their jobs marked).  Each history-level
   invariant then only has to be checked against the primitive moves.

   C05  timed_out_was_due      : a job reported TimeLimitExceeded had run for its limit
   C04  marked_lost_worker_exited(_owner) : a lost-worker marker names the exit status of
                                  a worker that really exited and left the pool
   C01  map_callbacks_at_most_once, map_outcome_stable, empty_map : map handles *)
From Coq Require Import ZArith List Bool Lia ZifyBool.
From BV Require Import Lib.Cases Model.LaxSem Model.Restart Model.Pool
     Proofs.PoolJobs Proofs.PoolInv Proofs.PoolSup.
Import ListNotations.
Open Scope Z_scope.

(* ================================================================ list helpers *)
Lemma Forall2_same {A} (R : A -> A -> Prop) : (forall x, R x x) -> forall l, Forall2 R l l.
Proof. intros H. induction l; constructor; auto. Qed.

Lemma Forall2_upd {A} (R : A -> A -> Prop) (f : A -> A) :
  (forall x, R x x) ->
  forall l n, (forall x, nth_error l n = Some x -> R x (f x)) -> Forall2 R l (upd_nth n f l).
Proof.
  intros Hr. induction l as [|a l IH]; intros [|n] H; cbn; try constructor.
  - apply H. reflexivity.
  - apply Forall2_same. exact Hr.
  - apply Hr.
  - apply IH. intros x Hx. apply H. exact Hx.
Qed.

Lemma Forall2_map_r {A} (R : A -> A -> Prop) (f : A -> A) l :
  (forall x, In x l -> R x (f x)) -> Forall2 R l (map f l).
Proof.
  induction l as [|a l IH]; intros H; cbn; constructor.
  - apply H. left. reflexivity.
  - apply IH. intros x Hx. apply H. right. exact Hx.
Qed.

Lemma Forall2_nth_l {A} (R : A -> A -> Prop) l l' :
  Forall2 R l l' -> forall n x, nth_error l n = Some x -> exists y, nth_error l' n = Some y /\ R x y.
Proof.
  induction 1 as [|a b l l' Hab H IH]; intros [|n] x Hn; cbn in *; try discriminate.
  - inversion Hn; subst. eauto.
  - apply IH. exact Hn.
Qed.

Lemma Forall_Forall2 {A} (P Q : A -> Prop) (R : A -> A -> Prop) l l' :
  Forall2 R l l' -> Forall P l -> (forall x y, P x -> R x y -> Q y) -> Forall Q l'.
Proof.
  induction 1 as [|a b l l' Hab H IH]; intros HP HQ; constructor.
  - inversion HP; subst. eapply HQ; eauto.
  - inversion HP; subst. apply IH; auto.
Qed.

Lemma filter_nil_all {A} (f : A -> bool) l : filter f l = [] -> forall a, In a l -> f a = false.
Proof.
  induction l as [|b l IH]; intros H a Hin; [destruct Hin|]. cbn in H.
  destruct (f b) eqn:E; [discriminate|]. destruct Hin as [<-|Hin]; [exact E|apply IH; assumption].
Qed.

(* ================================================================ primitive moves *)
Definition pmono (l l' : list proc) : Prop :=
  forall n q, nth_error l n = Some q ->
              exists q', nth_error l' n = Some q' /\ forall c, pexit q = Some c -> pexit q' = Some c.

Lemma pmono_refl l : pmono l l.
Proof. intros n q H. exists q. auto. Qed.

Lemma pmono_upd f : (forall q c, pexit q = Some c -> pexit (f q) = Some c) ->
  forall l n, pmono l (upd_nth n f l).
Proof.
  intros Hf l n m q Hm. destruct (Nat.eq_dec n m) as [<-|Hne].
  - exists (f q). split; [apply nth_upd_nth_same; exact Hm|apply Hf].
  - exists q. split; [rewrite nth_upd_nth_other by exact Hne; exact Hm|auto].
Qed.

(* a job as it is created by a submit call *)
Definition fresh (x : job) : Prop :=
  value x = None /\ worker_lost x = None /\ cb_succ x = 0 /\ cb_err x = 0
  /\ time_accepted x = None /\ wp x = []
  /\ (kind x = KApply -> ready x = false)
  /\ (kind x = KMap -> incache x = negb (ready x)
                       /\ (incache x = true -> 0 <= mlen x -> accepted x = true)
                       /\ (mlen x = 0 -> ready x = true)).

Definition env_eq (s s' : pool) : Prop :=
  procs s' = procs s /\ wlist s' = wlist s /\ now s' = now s /\ t_hard s' = t_hard s.

Section Moves.
(* what is assumed of the history: of the clock steps, and of the pid named by an
   acknowledgement for an Apply job (given the pool list and the job at that moment) *)
Variable okdt : Z -> Prop.
Variable okack : list Z -> job -> Z -> Prop.

(* everything the pool ever does to one job record, with the guard under which it does it *)
Inductive jmove (s : pool) (x : job) : job -> Prop :=
| JAck p : kind x = KApply -> incache x = true -> okack (wlist s) x p ->
           jmove s x (apply_ack x (now s) p)
| JMapAck i p : kind x = KMap -> incache x = true -> jmove s x (map_ack x i p)
| JImapAck p : is_imap x = true -> jmove s x (imap_ack x p)
| JSet i p : incache x = true -> (forall l, p <> PTimeLimit l) -> jmove s x (fst (job_set x i p))
| JHard t : kind x = KApply -> ready x = false -> time_accepted x = Some t ->
            timed_out s (Some t) (eff_hard s x) = true ->
            jmove s x (j_add_tmo (apply_set x (PTimeLimit (hard x))) (false, hard x))
| JTmo e : jmove s x (j_add_tmo x e)
| JUncache : jmove s x (j_uncache x)
| JLen n : jmove s x (fst (set_length x n))
| JNext rdy its : is_imap x = true -> (ready x = true -> rdy = true) ->
                  jmove s x (mk_imap x (incache x) rdy (index x) (ilength x) (unsorted x) its).

(* what the second loop of _join_exited_workers does to one job; s' is the state after the
   reaped workers left the pool list *)
Inductive rjob (s s' : pool) (x : job) : job -> Prop :=
| RSame : (incache x = true -> ready x = false -> worker_lost x = None ->
           forall p, In p (worker_pids x) -> In p (wlist s) -> In p (wlist s')) -> rjob s s' x x
| RTerm c : incache x = true -> ready x = false ->
            rjob s s' x (fst (job_set x None (PTerminated c)))
| RLost p code : incache x = true -> ready x = false -> worker_lost x = None ->
                 In p (worker_pids x) ->
                 ((In p (wlist s) /\ exited s p = true /\ code = exit_of s p)
                  \/ (~ In p (wlist s) /\ code = 0)) ->
                 rjob s s' x (j_set_lost x (Some (now s, code))).

Inductive move (s s' : pool) : Prop :=
| MJobs : env_eq s s' -> Forall2 (fun x y => y = x \/ jmove s x y) (jobs s) (jobs s') -> move s s'
| MAdd x : env_eq s s' -> jobs s' = jobs s ++ [x] -> fresh x -> move s s'
| MProc : jobs s' = jobs s -> wlist s' = wlist s -> now s' = now s -> t_hard s' = t_hard s ->
          pmono (procs s) (procs s') -> move s s'
| MStart q : jobs s' = jobs s -> now s' = now s -> t_hard s' = t_hard s ->
             procs s' = procs s ++ [q] ->
             wlist s' = wlist s ++ [Z.of_nat (length (procs s))] -> move s s'
| MAdvance dt : okdt dt -> jobs s' = jobs s -> procs s' = procs s -> wlist s' = wlist s ->
                t_hard s' = t_hard s -> now s' = now s + dt -> move s s'
| MReap : procs s' = procs s -> now s' = now s -> t_hard s' = t_hard s ->
          wlist s' = filter (fun p => negb (exited s p)) (wlist s) ->
          Forall2 (rjob s s') (jobs s) (jobs s') -> move s s'.

Inductive moves : pool -> pool -> Prop :=
| ms_refl s : moves s s
| ms_step s s1 s2 : move s s1 -> moves s1 s2 -> moves s s2.

Lemma moves_one s s' : move s s' -> moves s s'.
Proof. intros H. eapply ms_step; [exact H|apply ms_refl]. Qed.

Lemma moves_trans a b c : moves a b -> moves b c -> moves a c.
Proof. induction 1; intros H2; [exact H2|]. eapply ms_step; [eassumption|auto]. Qed.

Lemma moves_snoc a b c : moves a b -> move b c -> moves a c.
Proof. intros H1 H2. eapply moves_trans; [exact H1|apply moves_one; exact H2]. Qed.

Lemma moves_last a b c : move b c -> moves a b -> moves a c.
Proof. intros H2 H1. eapply moves_snoc; eauto. Qed.

(* ---------------------------------------------------------------- building moves *)
Lemma move_same s s' : jobs s' = jobs s -> env_eq s s' -> move s s'.
Proof. intros Hj He. apply MJobs; [exact He|]. rewrite Hj. apply Forall2_same. auto. Qed.

Ltac msame := apply move_same; [reflexivity|repeat split].

Lemma move_set_job s j f :
  (forall x, get_job s j = Some x -> f x = x \/ jmove s x (f x)) -> move s (set_job s j f).
Proof.
  intros Hf. apply MJobs; [repeat split|]. unfold set_job, get_job in *. cbn [jobs].
  destruct (j <? 0); [apply Forall2_same; auto|].
  apply Forall2_upd; [auto|]. exact Hf.
Qed.

Lemma move_map_jobs s f :
  (forall x, In x (jobs s) -> f x = x \/ jmove s x (f x)) -> move s (map_jobs s f).
Proof. intros Hf. apply MJobs; [repeat split|]. cbn [jobs map_jobs]. apply Forall2_map_r. exact Hf. Qed.

Lemma move_set_proc s p f :
  (forall q c, pexit q = Some c -> pexit (f q) = Some c) -> move s (set_proc s p f).
Proof.
  intros Hf. apply MProc; try reflexivity. unfold set_proc. cbn [procs].
  destruct (p <? 0); [apply pmono_refl|apply pmono_upd; exact Hf].
Qed.

Lemma move_deliver s p sg l : move s (deliver s p sg l).
Proof.
  apply MProc; try reflexivity. unfold deliver, set_proc. cbn [procs with_sigs].
  destruct (p <? 0); [apply pmono_refl|]. apply pmono_upd.
  intros q c Hq. rewrite Hq. exact Hq.
Qed.

Lemma move_start_worker s ix : move s (start_worker s ix).
Proof. eapply MStart; reflexivity. Qed.

Lemma moves_fold {A} (f : pool -> A -> pool) :
  (forall s a, moves s (f s a)) -> forall l s, moves s (fold_left f l s).
Proof.
  intros Hf. induction l as [|a l IH]; intros s; cbn; [apply ms_refl|].
  eapply moves_trans; [apply Hf|apply IH].
Qed.


(* ---------------------------------------------------------------- the handlers *)
Lemma fresh_apply i so ha lt :
  fresh (mkjob i KApply true false None false [] [] None so ha lt None 0 0 0 [] 0 0 0 0 None [] []).
Proof. unfold fresh; cbn. repeat split; try reflexivity; intros; discriminate. Qed.

Lemma moves_do_apply s so ha lo slot : moves s (fst (do_apply s so ha lo slot)).
Proof.
  unfold do_apply.
  destruct (negb (pstate s =? 0)); [apply ms_refl|].
  destruct ((match slot with Some b => b | None => putlocks s end) && (LaxSem.value (sem s) =? 0)); [apply ms_refl|].
  cbn [fst].
  set (s1 := if match slot with Some b => b | None => putlocks s end
             then with_sem s (sstep' (sem s) Acquire) else s).
  assert (H1 : move s s1).
  { unfold s1. destruct (match slot with Some b => b | None => putlocks s end); msame. }
  eapply ms_step; [exact H1|]. apply moves_one.
  eapply MAdd; [repeat split|reflexivity|apply fresh_apply].
Qed.

Lemma moves_do_map s n cs : moves s (fst (do_map s n cs)).
Proof.
  unfold do_map. destruct (negb (pstate s =? 0)); [apply ms_refl|]. cbn [fst].
  eapply ms_step; [|apply moves_one; msame].
  eapply MAdd; [repeat split|reflexivity|].
  unfold fresh; cbn. repeat split; try reflexivity; try (intros; discriminate).
  - destruct (n =? 0); lia.
  - intros Hc Hn. destruct (n =? 0) eqn:E; lia.
  - intros Hn. destruct (n =? 0) eqn:E; lia.
Qed.

Lemma moves_do_imap s k n : k <> KApply -> k <> KMap -> moves s (fst (do_imap s k n)).
Proof.
  intros Hk Hm. unfold do_imap. destruct (negb (pstate s =? 0)); [apply ms_refl|]. cbn [fst].
  eapply ms_step; [|apply moves_one; msame].
  eapply MAdd; [repeat split|reflexivity|].
  unfold fresh; cbn. repeat split; try reflexivity; intros; contradiction.
Qed.

Lemma moves_do_ack s j i p :
  (forall x, get_job s j = Some x -> kind x = KApply -> okack (wlist s) x p) ->
  moves s (fst (do_ack s j i p)).
Proof.
  intros Hok. unfold do_ack.
  set (s0 := with_rst s (Restart.ack (rst s))).
  eapply ms_step; [apply (move_same s s0); [reflexivity|repeat split]|].
  destruct (cached s0 j) as [x|] eqn:Hc; [|apply ms_refl].
  destruct (cached_get _ _ _ Hc) as [Hg Hin].
  destruct (kind x) eqn:Hk; cbn [fst].
  - apply moves_one. apply move_set_job. intros y Hy. assert (y = x) by congruence. subst y.
    right. apply JAck; auto; apply Hok; auto.
  - destruct i as [i|]; cbn [fst]; [|apply ms_refl].
    apply moves_one. apply move_set_job. intros y Hy. assert (y = x) by congruence. subst y.
    right. apply JMapAck; auto.
  - apply moves_one. apply move_set_job. intros y Hy. assert (y = x) by congruence. subst y.
    right. apply JImapAck. unfold is_imap. rewrite Hk. reflexivity.
  - apply moves_one. apply move_set_job. intros y Hy. assert (y = x) by congruence. subst y.
    right. apply JImapAck. unfold is_imap. rewrite Hk. reflexivity.
Qed.

Lemma move_bump_counter s x : move s (bump_counter s x).
Proof.
  unfold bump_counter. destruct (worker_pids x) as [|p l]; [msame|].
  destruct (in_pool s p); [|msame]. apply move_set_proc. intros q c H. exact H.
Qed.

Lemma moves_do_ready s j i (ok : bool) tag :
  moves s (fst (do_ready s j i (if ok then PValue tag else PExc tag))).
Proof.
  unfold do_ready. destruct (cached s j) as [x|] eqn:Hc; [|apply ms_refl]. cbn [fst].
  destruct (cached_get _ _ _ Hc) as [Hg Hin].
  set (s1 := bump_counter s x).
  set (s2 := if ready x then s1 else with_sem s1 (LaxSem.release (sem s1))).
  assert (H01 : move s s1) by apply move_bump_counter.
  assert (H12 : move s1 s2) by (unfold s2; destruct (ready x); msame).
  assert (Hg2 : get_job s2 j = Some x).
  { rewrite <- Hg. apply get_job_same. unfold s2. destruct (ready x); [apply sj_bump_counter|].
    eapply sj_trans; [apply sj_bump_counter|apply sj_with_sem]. }
  eapply ms_step; [exact H01|]. eapply ms_step; [exact H12|]. apply moves_one.
  apply move_set_job. intros y Hy. assert (y = x) by congruence. subst y.
  right. apply JSet; [exact Hin|]. intros l. destruct ok; discriminate.
Qed.

(* ---- supervision *)
Lemma moves_mark_all_lost s : moves s (mark_all_lost s).
Proof.
  apply moves_one. unfold mark_all_lost. apply move_map_jobs. intros x _.
  destruct (lost_due s x) eqn:Hd; [|left; reflexivity].
  unfold lost_due in Hd. unfold mark_lost.
  destruct (worker_lost x) as [[t st]|]; [|left; reflexivity].
  right. apply JSet; [|intros; discriminate].
  destruct (incache x); [reflexivity|discriminate].
Qed.

Definition reap_down (s1 : pool) : pool :=
  let cleaned := filter (exited s1) (rev (wlist s1)) in
  let remaining := filter (fun p => negb (exited s1 p)) (wlist s1) in
  let s := with_wlist s1 remaining in
  match cleaned with [] => s | _ => down_all s cleaned remaining end.

Lemma join_exited_reap s : fst (join_exited s) = reap_down (mark_all_lost s).
Proof. unfold join_exited, reap_down. destruct (filter _ (rev _)); reflexivity. Qed.

Lemma move_reap_down s : move s (reap_down s).
Proof.
  set (cl := filter (exited s) (rev (wlist s))).
  set (rem := filter (fun p => negb (exited s p)) (wlist s)).
  assert (Hw : wlist (reap_down s) = rem).
  { unfold reap_down. fold cl. destruct cl; reflexivity. }
  assert (Hp : procs (reap_down s) = procs s).
  { unfold reap_down. fold cl. destruct cl; reflexivity. }
  assert (Hn : now (reap_down s) = now s).
  { unfold reap_down. fold cl. destruct cl; reflexivity. }
  assert (Ht : t_hard (reap_down s) = t_hard s).
  { unfold reap_down. fold cl. destruct cl; reflexivity. }
  apply MReap; auto. clear Hp Hn Ht.
  assert (Hsplit : forall p, In p (wlist s) -> In p cl \/ In p rem).
  { intros p Hin. destruct (exited s p) eqn:E.
    - left. apply filter_In. split; [apply in_rev; rewrite rev_involutive; exact Hin|exact E].
    - right. apply filter_In. split; [exact Hin|rewrite E; reflexivity]. }
  unfold reap_down in *. fold cl rem in Hw |- *. destruct cl as [|c0 cl0] eqn:Ecl.
  - (* nobody to reap *)
    cbn [jobs with_wlist]. apply Forall2_same. intros x. apply RSame.
    intros _ _ _ p _ Hin. rewrite Hw. destruct (Hsplit p Hin) as [[]|H]. exact H.
  - rewrite <- Ecl in *. cbn [jobs down_all map_jobs with_wlist]. apply Forall2_map_r. intros x _.
    destruct (incache x) eqn:Hc; [|apply RSame; intros; congruence].
    unfold on_job_down.
    destruct (acked_by_gone cl rem x) as [p|] eqn:Ha.
    + unfold acked_by_gone in Ha. apply find_some in Ha. destruct Ha as [Hpin Hgone].
      destruct (ready x) eqn:Hr; [cbn [fst]; apply RSame; intros; congruence|].
      destruct (memZ p cl && _) eqn:Ejt; cbn [fst].
      * apply RTerm; assumption.
      * destruct (worker_lost x) eqn:Hl; cbn [fst]; [apply RSame; intros; congruence|].
        change (now (with_wlist s rem)) with (now s).
        change (exit_of (with_wlist s rem) p) with (exit_of s p).
        apply (RLost s _ x p); auto.
        destruct (memZ p cl) eqn:Ecl'.
        -- left. apply memZ_In in Ecl'. unfold cl in Ecl'. apply filter_In in Ecl'.
           destruct Ecl' as [Hin He]. apply in_rev in Hin. auto.
        -- right. split; [|reflexivity]. intros Hin. cbn in Hgone.
           apply negb_true_iff in Hgone.
           destruct (Hsplit p Hin) as [H|H]; apply memZ_In in H; congruence.
    + apply RSame. intros _ _ _ p Hp' Hin. rewrite Hw.
      pose proof (find_none_all _ _ Ha p Hp') as Hf. cbn in Hf.
      apply orb_false_iff in Hf. destruct Hf as [_ Hf]. apply negb_false_iff in Hf.
      apply memZ_In. exact Hf.
Qed.

Lemma moves_join_exited s : moves s (fst (join_exited s)).
Proof.
  rewrite join_exited_reap. eapply moves_snoc; [apply moves_mark_all_lost|apply move_reap_down].
Qed.

Lemma moves_repopulate : forall fuel i codes s, moves s (fst (repopulate fuel i codes s)).
Proof.
  induction fuel as [|f IH]; intros i codes s; cbn [repopulate]; [apply ms_refl|].
  destruct (negb (pstate s =? 0)); [apply ms_refl|].
  set (ns := match codes with
             | [] => false
             | _ :: _ => match nth_error codes i with Some c => negb (clean_code c) | None => true end
             end).
  destruct (if ns then Restart.step (rst s) (now s) else (rst s, false)) as [r raised].
  destruct raised; [apply moves_one; msame|].
  destruct (avail_index (with_rst s r)) as [ix|]; [|apply moves_one; msame].
  eapply ms_step; [apply (move_same s (with_rst s r)); [reflexivity|repeat split]|].
  eapply ms_step; [apply move_start_worker|apply IH].
Qed.

Lemma moves_do_tick s : moves s (fst (do_tick s)).
Proof.
  unfold do_tick. pose proof (moves_join_exited s) as H0.
  destruct (join_exited s) as [s1 codes]. cbn [fst] in H0.
  pose proof (moves_repopulate (Z.to_nat (nprocs s1 - Z.of_nat (length (wlist s1)))) 0 codes s1) as H1.
  destruct (repopulate (Z.to_nat (nprocs s1 - Z.of_nat (length (wlist s1)))) 0 codes s1) as [s2 r].
  cbn [fst] in H1.
  eapply moves_trans; [exact H0|].
  destruct r; cbn [fst]; try exact H1.
  eapply moves_snoc; [exact H1|msame].
Qed.

Lemma move_do_close s : move s (do_close s).
Proof. unfold do_close. destruct (pstate s =? 0); msame. Qed.

Lemma moves_do_tick_close s k : moves s (fst (do_tick_close s k)).
Proof.
  unfold do_tick_close. pose proof (moves_join_exited s) as H0. pose proof (moves_do_tick s) as Ht.
  destruct (join_exited s) as [s1 codes]. cbn [fst] in H0.
  destruct (Z.to_nat (nprocs s1 - Z.of_nat (length (wlist s1))) <=? k)%nat; [exact Ht|].
  pose proof (moves_repopulate (S k) 0 codes s1) as H1.
  destruct (repopulate (S k) 0 codes s1) as [s2 r]. cbn [fst] in H1.
  eapply moves_trans; [exact H0|].
  destruct r; cbn [fst]; try exact H1.
  eapply moves_snoc; [eapply moves_snoc; [exact H1|apply move_do_close]|msame].
Qed.

Lemma moves_do_join_shutdown s : moves s (fst (do_join_shutdown s)).
Proof.
  unfold do_join_shutdown. destruct (wlist s); cbn [fst]; [apply moves_mark_all_lost|apply moves_join_exited].
Qed.

(* ---- timeout scan *)
Lemma moves_on_hard s j x l t :
  get_job s j = Some x -> kind x = KApply -> time_accepted x = Some t ->
  timed_out s (Some t) (eff_hard s x) = true -> moves s (on_hard s j x l).
Proof.
  intros Hg Hk Ht Hd. unfold on_hard. destruct (ready x) eqn:Hr; [apply ms_refl|].
  set (s1 := set_job s j (fun x0 => j_add_tmo (apply_set x0 (PTimeLimit (hard x0))) (false, hard x0))).
  assert (H1 : move s s1).
  { apply move_set_job. intros y Hy. assert (y = x) by congruence. subst y.
    right. eapply JHard; eauto. }
  eapply ms_step; [exact H1|].
  destruct (owner x) as [p|]; [|apply ms_refl].
  destruct (in_pool s1 p); [|apply ms_refl].
  destruct (negb (exit_of (deliver s1 p SIGTERM l) p =? 0) && exited (deliver s1 p SIGTERM l) p).
  - apply moves_one. apply move_deliver.
  - eapply ms_step; [apply move_deliver|apply moves_one; apply move_deliver].
Qed.

Lemma moves_on_soft s j x l : moves s (on_soft s j x l).
Proof.
  unfold on_soft. destruct (ready x); [apply ms_refl|].
  destruct (owner x) as [p|]; [|apply ms_refl].
  destruct (in_pool s p); [|apply ms_refl].
  eapply ms_step; [|apply moves_one; apply move_deliver].
  apply move_set_job. intros y _. right. apply JTmo.
Qed.

Lemma moves_scan_job l s j : moves s (scan_job l s j).
Proof.
  unfold scan_job. destruct (get_job s j) as [x|] eqn:Hg; [|apply ms_refl].
  destruct (kind x) eqn:Hk; try apply ms_refl.
  destruct (time_accepted x) as [t|] eqn:Ht; [|apply ms_refl].
  destruct (timed_out s (Some t) (eff_hard s x)) eqn:Hd.
  - eapply moves_on_hard; eauto.
  - destruct (negb (memZ j (dirty s)) && timed_out s (Some t) (eff_soft s x)); [|apply ms_refl].
    eapply moves_snoc; [apply moves_on_soft|msame].
Qed.

Lemma moves_do_scan s l : moves s (fst (do_scan s l)).
Proof.
  unfold do_scan. destruct (negb (scanner s)); [apply ms_refl|]. cbn [fst].
  eapply ms_step; [|apply moves_fold; intros; apply moves_scan_job]. msame.
Qed.

(* ---- task feeding *)
Lemma moves_feed_tasks : forall fuel i j k fa io s,
    moves s (fst (fst (feed_tasks fuel i j k fa io s))).
Proof.
  induction fuel as [|f IH]; intros i j k fa io s; cbn [feed_tasks]; [apply ms_refl|].
  destruct (okey_eqb (Some k) fa); [|apply IH].
  destruct io; [apply ms_refl|].
  eapply moves_trans; [|apply IH].
  destruct (cached s j) as [x|] eqn:Hc; [|apply ms_refl].
  destruct (cached_get _ _ _ Hc) as [Hg Hin].
  assert (Hone : forall s0, get_job s0 j = Some x ->
                            move s0 (set_job s0 j (fun x0 => fst (job_set x0 (Some i) PPutFailed)))).
  { intros s0 H0. apply move_set_job. intros y Hy. assert (y = x) by congruence. subst y.
    right. apply JSet; [exact Hin|intros; discriminate]. }
  destruct (kind x); try (apply moves_one; apply Hone; exact Hg).
  set (s1 := if ready x then s else with_sem s (LaxSem.release (sem s))).
  assert (H1 : move s s1) by (unfold s1; destruct (ready x); msame).
  assert (Hg1 : get_job s1 j = Some x) by (unfold s1; destruct (ready x); exact Hg).
  eapply ms_step; [exact H1|]. eapply ms_step; [apply Hone; exact Hg1|].
  apply moves_one. apply move_set_job. intros y _. right. apply JUncache.
Qed.

Lemma moves_do_feeds : forall fs k fa io s, moves s (fst (fst (do_feeds fs k fa io s))).
Proof.
  induction fs as [|[[j n] sl] r IH]; intros k fa io s; cbn [do_feeds]; [apply ms_refl|].
  pose proof (moves_feed_tasks (Z.to_nat n) 0 j k fa io s) as H0.
  destruct (feed_tasks (Z.to_nat n) 0 j k fa io s) as [[s1 k1] stopped]. cbn [fst] in H0.
  destruct stopped; [exact H0|].
  assert (H1 : moves s1 (fst (if sl then
                               match get_job s1 j with
                               | Some x => (set_job s1 j (fun x0 => fst (set_length x0 n)), snd (set_length x n))
                               | None => (s1, false)
                               end else (s1, false)))).
  { destruct sl; [|apply ms_refl]. destruct (get_job s1 j) as [x|] eqn:Hg; [|apply ms_refl].
    cbn [fst]. apply moves_one. apply move_set_job. intros y Hy. right. apply JLen. }
  destruct (if sl then
              match get_job s1 j with
              | Some x => (set_job s1 j (fun x0 => fst (set_length x0 n)), snd (set_length x n))
              | None => (s1, false)
              end else (s1, false)) as [s2 e]. cbn [fst] in H1.
  destruct e; cbn [fst]; [eapply moves_trans; eauto|].
  eapply moves_trans; [exact H0|]. eapply moves_trans; [exact H1|]. apply IH.
Qed.

Lemma moves_do_feed s fa io : moves s (fst (do_feed s fa io)).
Proof.
  unfold do_feed. pose proof (moves_do_feeds (feeds s) 0 fa io s) as H.
  destruct (do_feeds (feeds s) 0 fa io s) as [[s1 rest] r]. cbn [fst] in *.
  eapply moves_snoc; [exact H|msame].
Qed.

(* ---- user calls *)
Lemma moves_shrink_loop : forall ws i n s, moves s (fst (shrink_loop ws i n s)).
Proof.
  induction ws as [|p r IH]; intros i n s; cbn [shrink_loop fst]; [apply ms_refl|].
  match goal with |- moves s (fst (if ?c then (?s', _) else _)) =>
    assert (Hs : moves s s');
    [|destruct c; cbn [fst]; [exact Hs|eapply moves_trans; [exact Hs|apply IH]]]
  end.
  eapply moves_last; [apply move_deliver|].
  eapply moves_last; [apply move_set_proc; intros q c H; exact H|].
  eapply moves_last; [msame|].
  apply moves_one. msame.
Qed.

Lemma moves_do_next s j : moves s (fst (do_next s j)).
Proof.
  unfold do_next. destruct (get_job s j) as [x|] eqn:Hg; [|apply ms_refl].
  destruct (is_imap x) eqn:Hk; cbn [negb]; [|apply ms_refl].
  destruct (items x) as [|p r] eqn:Hit; cbn [fst].
  - destruct (okey_eqb (Some (index x)) (ilength x)); cbn [fst]; [|apply ms_refl].
    apply moves_one. apply move_set_job. intros y Hy. assert (y = x) by congruence. subst y.
    right. apply JNext; auto.
  - apply moves_one. apply move_set_job. intros y Hy. assert (y = x) by congruence. subst y.
    right. apply JNext; auto.
Qed.

(* ---------------------------------------------------------------- every event *)
Definition ev_ok (s : pool) (e : event) : Prop :=
  match e with
  | EAdvance dt => okdt dt
  | EAck j i p => forall x, get_job s j = Some x -> kind x = KApply -> okack (wlist s) x p
  | _ => True
  end.

Theorem step_moves s e : ev_ok s e -> moves s (fst (step s e)).
Proof.
  intros Hok. unfold step.
  eapply ms_step; [apply (move_same s (with_sigs s [])); [reflexivity|repeat split]|].
  set (s0 := with_sigs s []).
  destruct e.
  - apply moves_do_apply.
  - apply moves_do_map.
  - apply moves_do_imap; discriminate.
  - apply moves_do_imap; discriminate.
  - apply moves_do_feed.
  - apply moves_do_ack. exact Hok.
  - apply moves_do_ready.
  - cbn [fst]. apply moves_one. msame.
  - apply ms_refl.
  - cbn [fst]. apply moves_one. apply move_deliver.
  - apply ms_refl.
  - cbn [fst]. apply moves_one. apply move_set_proc. intros q c H. rewrite H. exact H.
  - apply moves_do_tick.
  - cbn [fst]. eapply moves_snoc; [apply moves_do_scan|msame].
  - destruct (negb (scanner s0)); cbn [fst]; [apply ms_refl|]. apply moves_one. msame.
  - destruct (scan_todo s0) as [|j r]; cbn [fst]; [apply ms_refl|].
    eapply moves_snoc; [apply moves_scan_job|msame].
  - cbn [fst]. apply moves_one. msame.
  - cbn [fst]. apply moves_one. eapply MAdvance; try reflexivity. exact Hok.
  - cbn [fst]. apply moves_one. apply move_set_job. intros y _. right. apply JUncache.
  - unfold do_terminate_job. destruct (in_pool s0 p); cbn [fst]; [|apply ms_refl].
    eapply ms_step; [apply move_deliver|]. apply moves_one. apply move_set_proc. intros q c H. exact H.
  - cbn [fst]. apply moves_one. msame.
  - unfold do_shrink. destruct (inactive s0) as [|w ws] eqn:Ei; [apply ms_refl|].
    destruct (LaxSem.value (sem s0) <? Z.min (Z.max n 1) (Z.of_nat (length (w :: ws))));
      [apply ms_refl|]. apply moves_shrink_loop.
  - cbn [fst]. apply moves_one. apply move_do_close.
  - apply moves_do_next.
  - apply moves_do_tick_close.
  - apply moves_do_join_shutdown.
  - unfold do_apply_q. pose proof (moves_do_apply s0 soft hard lost slot) as H.
    destruct (do_apply s0 soft hard lost slot) as [s1 r]. cbn [fst] in H.
    destruct r; cbn [fst]; try exact H. eapply moves_snoc; [exact H|msame].
  - unfold do_apply_unsendable. destruct (negb (pstate s0 =? 0)); [apply ms_refl|].
    destruct (_ && _); apply ms_refl.
Qed.

End Moves.

Arguments ms_refl {okdt okack} s.

(* ================================================================ from moves to histories *)
Lemma moves_inv okdt okack (I : pool -> Prop) :
  (forall s s', move okdt okack s s' -> I s -> I s') ->
  forall s s', moves okdt okack s s' -> I s -> I s'.
Proof. intros Hm s s' H. induction H; intros Hi; [exact Hi|]. apply IHmoves. eapply Hm; eauto. Qed.

(* the history satisfies the event guard in the state in which each event is handled *)
Definition hist_ok okdt okack (c : config) (tr : list event) : Prop :=
  forall tr1 e tr2, tr = tr1 ++ e :: tr2 -> ev_ok okdt okack (run c tr1) e.

Lemma run_snoc c tr e : run c (tr ++ [e]) = fst (step (run c tr) e).
Proof. unfold run. rewrite fold_left_app. reflexivity. Qed.

Lemma hist_ok_snoc okdt okack c tr e :
  hist_ok okdt okack c (tr ++ [e]) -> hist_ok okdt okack c tr /\ ev_ok okdt okack (run c tr) e.
Proof.
  intros H. split.
  - intros tr1 e1 tr2 E. apply (H tr1 e1 (tr2 ++ [e])). rewrite E, <- app_assoc. reflexivity.
  - apply (H tr e []). reflexivity.
Qed.

Theorem run_inv okdt okack (I : pool -> Prop) :
  (forall s s', move okdt okack s s' -> I s -> I s') ->
  forall c, I (init c) -> forall tr, hist_ok okdt okack c tr -> I (run c tr).
Proof.
  intros Hm c H0 tr. induction tr as [|e tr IH] using rev_ind; intros Hok; [exact H0|].
  destruct (hist_ok_snoc _ _ _ _ _ Hok) as [Hok1 He].
  rewrite run_snoc. eapply moves_inv; [exact Hm|apply step_moves; exact He|apply IH; exact Hok1].
Qed.

Lemma jobs_init c : jobs (init c) = [].
Proof.
  unfold init.
  assert (H : forall n i s, jobs s = [] -> jobs (start_n n i s) = []).
  { induction n as [|n IH]; intros i s Hs; cbn; [exact Hs|]. apply IH. exact Hs. }
  apply H. reflexivity.
Qed.

Lemma get_job_In s j x : get_job s j = Some x -> In x (jobs s).
Proof. intros H. destruct (get_job_nth _ _ _ H) as [_ Hn]. eapply nth_error_In; eauto. Qed.

(* every job-level move is monotone in the sense of PoolJobs *)
Lemma jmove_jmono okack s x y : jmove okack s x y -> jmono x y.
Proof.
  intros H. destruct H.
  - apply apply_ack_mono.
  - apply map_ack_mono. congruence.
  - apply imap_ack_mono. apply is_imap_not_apply. assumption.
  - apply job_set_mono.
  - eapply jmono_trans; [apply apply_set_mono|apply j_add_tmo_mono].
  - apply j_add_tmo_mono.
  - apply j_uncache_mono.
  - apply set_length_mono.
  - apply mk_imap_mono; auto. apply is_imap_not_apply. assumption.
Qed.

(* ================================================================ C05: never early *)
Definition advances_nonneg (tr : list event) : Prop :=
  Forall (fun e => match e with EAdvance dt => 0 <= dt | _ => True end) tr.

Definition eff (th : option Z) (x : job) : option Z :=
  match hard x with Some v => Some v | None => th end.

(* n = the clock, th = the pool's default hard limit *)
Definition TLj (n : Z) (th : option Z) (x : job) : Prop :=
  kind x = KApply ->
  (time_accepted x <> None -> accepted x = true)
  /\ (forall l, value x = Some (PTimeLimit l) ->
        incache x = false
        /\ exists t lim, time_accepted x = Some t /\ eff th x = Some lim /\ lim <> 0 /\ t <> 0
                         /\ l = hard x /\ t + lim <= n).

Definition TL (s : pool) : Prop := Forall (TLj (now s) (t_hard s)) (jobs s).

Lemma TLj_now n n' th x : n <= n' -> TLj n th x -> TLj n' th x.
Proof.
  intros Hle H Hk. destruct (H Hk) as [A B]. split; [exact A|].
  intros l Hv. destruct (B l Hv) as (C & t & lim & D1 & D2 & D3 & D4 & D5 & D6).
  split; [exact C|]. exists t, lim. repeat split; auto. lia.
Qed.

Lemma TLj_jmove okack s x y :
  TLj (now s) (t_hard s) x -> jmove okack s x y -> TLj (now s) (t_hard s) y.
Proof.
  intros H Hm Hky.
  assert (Hk : kind x = KApply) by (rewrite <- (jm_kind _ _ (jmove_jmono _ _ _ _ Hm)); exact Hky).
  destruct (H Hk) as [A B]. clear Hky. destruct Hm.
  - (* acknowledged *) split; [reflexivity|]. cbn. intros l Hv. destruct (B l Hv) as [C _]. congruence.
  - congruence.
  - unfold is_imap in *. rewrite Hk in *. discriminate.
  - (* a result that is not a time limit *)
    unfold job_set. rewrite Hk. cbn [fst]. unfold apply_set.
    destruct (ready x); [split; assumption|]. cbn. split; [exact A|].
    intros l Hv. inversion Hv. exfalso. eapply H1. eassumption.
  - (* the hard limit *)
    unfold apply_set. rewrite H1. cbn. split; [exact A|].
    intros l Hv. inversion Hv; subst l. rewrite A by congruence. split; [reflexivity|].
    unfold timed_out in H3. change (eff_hard s x) with (eff (t_hard s) x) in H3.
    destruct (eff (t_hard s) x) as [lim|] eqn:El; [|discriminate].
    exists t, lim. unfold eff in *. cbn. repeat split; auto; lia.
  - exact (conj A B).
  - cbn. split; [exact A|]. intros l Hv. destruct (B l Hv) as [C D]. split; [reflexivity|exact D].
  - unfold set_length, is_imap. rewrite Hk. cbn. split; assumption.
  - unfold is_imap in *. rewrite Hk in *. discriminate.
Qed.

Lemma TLj_set_lost n th x m : TLj n th x -> TLj n th (j_set_lost x m).
Proof. intros H. exact H. Qed.

Lemma TLj_fresh n th x : fresh x -> TLj n th x.
Proof.
  intros (Hv & _ & _ & _ & Ht & _) _. split; [congruence|]. intros l H. congruence.
Qed.

Lemma TL_move s s' : move (fun dt => 0 <= dt) (fun _ _ _ => True) s s' -> TL s -> TL s'.
Proof.
  unfold TL. intros Hm H. destruct Hm as [He Hj|x He Hj Hf|Hj Hw Hn Ht _|q Hj Hn Ht _ _|dt Hdt Hj _ _ Ht Hn|_ Hn Ht _ Hj].
  - destruct He as (_ & _ & Hn & Ht). rewrite Hn, Ht.
    eapply Forall_Forall2; [exact Hj|exact H|]. intros x y Hx [->|Hxy]; [exact Hx|].
    eapply TLj_jmove; eauto.
  - destruct He as (_ & _ & Hn & Ht). rewrite Hn, Ht, Hj. apply Forall_app. split; [exact H|].
    constructor; [apply TLj_fresh; exact Hf|constructor].
  - rewrite Hj, Hn, Ht. exact H.
  - rewrite Hj, Hn, Ht. exact H.
  - rewrite Hj, Hn, Ht. eapply Forall_impl; [|exact H]. intros x. apply TLj_now. lia.
  - rewrite Hn, Ht. eapply Forall_Forall2; [exact Hj|exact H|]. intros x y Hx Hr.
    destruct Hr as [_|c Hc Hr|p code _ _ _ _ _].
    + exact Hx.
    + eapply (TLj_jmove (fun _ _ _ => True)); [exact Hx|].
      apply JSet; [exact Hc|intros; discriminate].
    + exact Hx.
Qed.

Lemma advances_hist_ok c tr okack :
  advances_nonneg tr -> (forall s e, (forall dt, e <> EAdvance dt) -> ev_ok (fun dt => 0 <= dt) okack s e) ->
  hist_ok (fun dt => 0 <= dt) okack c tr.
Proof.
  intros Ha Hother tr1 e tr2 E. unfold advances_nonneg in Ha. rewrite Forall_forall in Ha.
  assert (Hin : In e tr) by (rewrite E; apply in_or_app; right; left; reflexivity).
  specialize (Ha e Hin). destruct e; try (apply Hother; intros; discriminate). exact Ha.
Qed.

Theorem TL_reachable c tr : advances_nonneg tr -> TL (run c tr).
Proof.
  intros Ha. apply (run_inv (fun dt => 0 <= dt) (fun _ _ _ => True)).
  - apply TL_move.
  - unfold TL. rewrite jobs_init. constructor.
  - apply advances_hist_ok; [exact Ha|]. intros s e He. destruct e; cbn; auto. exfalso. eapply He. reflexivity.
Qed.

(* C05, history level: a job reported as timed out had been running for (at least) its
   effective hard limit, in every reachable state of every history whose clock steps are
   not negative *)
Theorem timed_out_was_due c tr j x l :
  advances_nonneg tr ->
  get_job (run c tr) j = Some x -> kind x = KApply -> value x = Some (PTimeLimit l) ->
  exists t lim, time_accepted x = Some t /\ eff_hard (run c tr) x = Some lim
                /\ lim <> 0 /\ t <> 0 /\ l = hard x /\ t + lim <= now (run c tr).
Proof.
  intros Ha Hg Hk Hv. pose proof (TL_reachable c tr Ha) as H. unfold TL in H.
  rewrite Forall_forall in H. specialize (H x (get_job_In _ _ _ Hg) Hk).
  destruct H as [_ B]. destruct (B l Hv) as (_ & t & lim & D). exists t, lim. exact D.
Qed.

Definition h05_cfg := mkcfg 1 None (Some 5) None (Some 5) 1 false false.
Definition h05_tr : list event :=
  [EApply None None None None; EAck 0 None 0; EAdvance 5; EScan true; ETick;
   EApply None None None None; EAck 1 None 1; EReady 1 None true 42].

Example timed_out_was_due_witness :
  advances_nonneg h05_tr
  /\ match get_job (run h05_cfg h05_tr) 0 with
     | Some x => kind x = KApply /\ value x = Some (PTimeLimit (Some 5))
                 /\ time_accepted x = Some 1000 /\ eff_hard (run h05_cfg h05_tr) x = Some 5
                 /\ now (run h05_cfg h05_tr) = 1005
     | None => False
     end.
Proof. split; [repeat constructor; cbn; lia|]. vm_compute. repeat split. Qed.

(* ================================================================ C01: map handles *)
Definition any_dt (dt : Z) : Prop := True.
Definition any_ack (w : list Z) (x : job) (p : Z) : Prop := True.

Lemma any_ok s e : ev_ok any_dt any_ack s e.
Proof. destruct e; cbn; unfold any_dt, any_ack; auto. Qed.

Lemma any_hist_ok c tr : hist_ok any_dt any_ack c tr.
Proof. intros tr1 e tr2 _. apply any_ok. Qed.

Lemma run_from_moves : forall tr s, moves any_dt any_ack s (run_from s tr).
Proof.
  unfold run_from. induction tr as [|e tr IH]; intros s; cbn; [apply ms_refl|].
  eapply moves_trans; [apply step_moves; apply any_ok|apply IH].
Qed.

Lemma run_app c tr tr' : run c (tr ++ tr') = run_from (run c tr) tr'.
Proof. unfold run, run_from. apply fold_left_app. Qed.

(* a per-job invariant that does not look at the rest of the state *)
Lemma jobinv_move okdt okack (P : job -> Prop) :
  (forall s x y, P x -> jmove okack s x y -> P y) ->
  (forall x m, P x -> P (j_set_lost x m)) ->
  (forall x, fresh x -> P x) ->
  forall s s', move okdt okack s s' -> Forall P (jobs s) -> Forall P (jobs s').
Proof.
  intros Hj Hl Hf s s' Hm H.
  destruct Hm as [_ Hjb|x _ Hjb Hfx|Hjb _ _ _ _|q Hjb _ _ _ _|dt _ Hjb _ _ _ _|_ _ _ _ Hjb].
  - eapply Forall_Forall2; [exact Hjb|exact H|]. intros x y Hx [->|Hxy]; [exact Hx|eapply Hj; eauto].
  - rewrite Hjb. apply Forall_app. split; [exact H|]. constructor; [apply Hf; exact Hfx|constructor].
  - rewrite Hjb. exact H.
  - rewrite Hjb. exact H.
  - rewrite Hjb. exact H.
  - eapply Forall_Forall2; [exact Hjb|exact H|]. intros x y Hx Hr.
    destruct Hr as [_|c Hc Hr|p code _ _ _ _ _].
    + exact Hx.
    + eapply Hj; [exact Hx|]. apply (JSet okack s x None (PTerminated c)); [exact Hc|intros; discriminate].
    + apply Hl. exact Hx.
Qed.

(* a reflexive, transitive relation between the versions of a job *)
Lemma jobrel_moves okdt okack (R : job -> job -> Prop) :
  (forall x, R x x) -> (forall x y z, R x y -> R y z -> R x z) ->
  (forall s x y, jmove okack s x y -> R x y) ->
  (forall x m, incache x = true -> R x (j_set_lost x m)) ->
  forall s s', moves okdt okack s s' ->
  forall n x, nth_error (jobs s) n = Some x -> exists y, nth_error (jobs s') n = Some y /\ R x y.
Proof.
  intros Hr Ht Hj Hl s s' Hms. induction Hms as [s|s s1 s2 Hm _ IH]; intros n x Hn; [eauto|].
  assert (H1 : exists y, nth_error (jobs s1) n = Some y /\ R x y).
  { destruct Hm as [_ Hjb|x0 _ Hjb _|Hjb _ _ _ _|q Hjb _ _ _ _|dt _ Hjb _ _ _ _|_ _ _ _ Hjb].
    - destruct (Forall2_nth_l _ _ _ Hjb n x Hn) as (y & Hy & [->|Hxy]); eauto.
    - exists x. split; [|apply Hr]. rewrite Hjb. rewrite nth_error_app1; [exact Hn|].
      apply nth_error_Some. congruence.
    - rewrite Hjb. eauto.
    - rewrite Hjb. eauto.
    - rewrite Hjb. eauto.
    - destruct (Forall2_nth_l _ _ _ Hjb n x Hn) as (y & Hy & Hxy). exists y. split; [exact Hy|].
      destruct Hxy as [_|c Hc Hrd|p code Hc _ _ _ _].
      + apply Hr.
      + apply (Hj s). apply (JSet okack s x None (PTerminated c)); [exact Hc|intros; discriminate].
      + apply Hl. exact Hc. }
  destruct H1 as (y & Hy & Hxy). destruct (IH n y Hy) as (z & Hz & Hyz). eauto.
Qed.

Lemma jmove_mlen okack s x y : jmove okack s x y -> mlen y = mlen x.
Proof.
  intros H. destruct H; try reflexivity.
  - unfold job_set. destruct (kind x); cbn [fst].
    + unfold apply_set. destruct (ready x); reflexivity.
    + unfold map_set. destruct (payload_success p); [destruct (number_left x - 1 =? 0)|]; reflexivity.
    + unfold imap_set.
      destruct (if okey_eqb (Some (index x)) i
                then drain (length (unsorted x)) (index x + 1) (unsorted x) (items x ++ [p])
                else (index x, assoc_put i p (unsorted x), items x)) as [[idx uns] its].
      destruct (okey_eqb (Some idx) (ilength x)); reflexivity.
    + unfold imapu_set. destruct (okey_eqb (Some (index x + 1)) (ilength x)); reflexivity.
  - unfold apply_set. destruct (ready x); reflexivity.
  - unfold set_length. destruct (negb (is_imap x)); [reflexivity|].
    destruct (okey_eqb (Some (index x)) (Some n)); reflexivity.
Qed.

(* the invariant of a map handle whose length is not negative *)
Definition MapI (x : job) : Prop :=
  kind x = KMap -> 0 <= mlen x ->
  0 <= cb_succ x /\ 0 <= cb_err x /\ cb_succ x + cb_err x <= 1
  /\ (ready x = false -> cb_succ x = 0 /\ cb_err x = 0 /\ value x = None)
  /\ (ready x = true -> incache x = false)
  /\ (incache x = true -> accepted x = true)
  /\ (mlen x = 0 -> ready x = true /\ value x = None /\ cb_succ x = 0 /\ cb_err x = 0).

Lemma MapI_jmove okack s x y : MapI x -> jmove okack s x y -> MapI y.
Proof.
  intros H Hm Hky Hly.
  assert (Hk : kind x = KMap) by (rewrite <- (jm_kind _ _ (jmove_jmono _ _ _ _ Hm)); exact Hky).
  assert (Hl : 0 <= mlen x) by (rewrite <- (jmove_mlen _ _ _ _ Hm); exact Hly).
  destruct (H Hk Hl) as (A1 & A2 & A3 & A4 & A5 & A6 & A7). clear Hky Hly. destruct Hm.
  - congruence.
  - (* a chunk is acknowledged *)
    cbn. repeat split; auto; try (apply A4; assumption); try (apply A7; assumption);
      try (intros Hr; rewrite Hr; reflexivity);
      try (intros Hc; destruct (ready x); [discriminate|auto]).
  - unfold is_imap in *. rewrite Hk in *. discriminate.
  - (* a chunk's result, or a failure: the job is in the cache, hence unresolved *)
    assert (Hr : ready x = false) by (destruct (ready x); [rewrite A5 in H0 by reflexivity; discriminate|reflexivity]).
    destruct (A4 Hr) as (B1 & B2 & B3). specialize (A6 H0).
    assert (Hl0 : mlen x <> 0) by (intros E; destruct (A7 E); congruence).
    unfold job_set. rewrite Hk. cbn [fst]. unfold map_set.
    destruct (payload_success p); [destruct (number_left x - 1 =? 0)|]; cbn; rewrite ?A6, ?B1, ?B2;
      repeat split; auto; try lia; try (intros; congruence); try (intros; exfalso; lia).
  - congruence.
  - exact (conj A1 (conj A2 (conj A3 (conj A4 (conj A5 (conj A6 A7)))))).
  - cbn. repeat split; auto; try (apply A4; assumption); try (apply A7; assumption). intros; discriminate.
  - unfold set_length, is_imap. rewrite Hk. cbn. exact (conj A1 (conj A2 (conj A3 (conj A4 (conj A5 (conj A6 A7)))))).
  - unfold is_imap in *. rewrite Hk in *. discriminate.
Qed.

Lemma MapI_fresh x : fresh x -> MapI x.
Proof.
  intros (Hv & _ & Hs & He & _ & _ & _ & Hm) Hk Hl. destruct (Hm Hk) as (M1 & M2 & M3).
  rewrite Hs, He. repeat split; auto; try lia;
    try (intros Hr; rewrite M1, Hr; reflexivity); try (intros Hc; apply M2; assumption).
Qed.

Theorem MapI_reachable c tr : Forall MapI (jobs (run c tr)).
Proof.
  apply (run_inv any_dt any_ack (fun s => Forall MapI (jobs s))).
  - apply jobinv_move.
    + intros s x y. apply MapI_jmove.
    + intros x m H. exact H.
    + apply MapI_fresh.
  - rewrite jobs_init. constructor.
  - apply any_hist_ok.
Qed.

(* C01 for map handles, all histories: at most one of the two callbacks, at most once;
   none before the handle is resolved; a resolved handle has left the cache *)
Theorem map_callbacks_at_most_once c tr j x :
  get_job (run c tr) j = Some x -> kind x = KMap -> 0 <= mlen x ->
  0 <= cb_succ x /\ 0 <= cb_err x /\ cb_succ x + cb_err x <= 1
  /\ (ready x = false -> cb_succ x = 0 /\ cb_err x = 0 /\ value x = None)
  /\ (ready x = true -> incache x = false).
Proof.
  intros Hg Hk Hl. pose proof (MapI_reachable c tr) as H. rewrite Forall_forall in H.
  destruct (H x (get_job_In _ _ _ Hg) Hk Hl) as (A1 & A2 & A3 & A4 & A5 & _). auto.
Qed.

(* the empty map: resolved from the start with no failure, and no callback ever runs *)
Theorem empty_map c tr j x :
  get_job (run c tr) j = Some x -> kind x = KMap -> mlen x = 0 ->
  ready x = true /\ incache x = false /\ value x = None /\ cb_succ x = 0 /\ cb_err x = 0.
Proof.
  intros Hg Hk Hl. pose proof (MapI_reachable c tr) as H. rewrite Forall_forall in H.
  destruct (H x (get_job_In _ _ _ Hg) Hk) as (_ & _ & _ & _ & A5 & _ & A7); [lia|].
  destruct (A7 Hl) as (B1 & B2 & B3 & B4). auto.
Qed.

(* what can never change again once a map handle is resolved and out of the cache *)
Definition mstab (x y : job) : Prop :=
  kind x = KMap -> ready x = true -> incache x = false ->
  kind y = KMap /\ ready y = true /\ incache y = false
  /\ value y = value x /\ cb_succ y = cb_succ x /\ cb_err y = cb_err x.

Lemma mstab_jmove okack s x y : jmove okack s x y -> mstab x y.
Proof.
  intros Hm Hk Hr Hc. destruct Hm; try congruence.
  - unfold is_imap in *. rewrite Hk in *. discriminate.
  - cbn. repeat split; auto.
  - cbn. repeat split; auto.
  - unfold set_length, is_imap. rewrite Hk. cbn. repeat split; auto.
  - unfold is_imap in *. rewrite Hk in *. discriminate.
Qed.

Theorem map_outcome_stable c tr tr' j x :
  get_job (run c tr) j = Some x -> kind x = KMap -> 0 <= mlen x -> ready x = true ->
  exists y, get_job (run c (tr ++ tr')) j = Some y /\ kind y = KMap /\ ready y = true
            /\ value y = value x /\ cb_succ y = cb_succ x /\ cb_err y = cb_err x.
Proof.
  intros Hg Hk Hl Hr.
  destruct (map_callbacks_at_most_once c tr j x Hg Hk Hl) as (_ & _ & _ & _ & Hc). specialize (Hc Hr).
  destruct (get_job_nth _ _ _ Hg) as [Hj Hn].
  destruct (jobrel_moves any_dt any_ack mstab) with (s := run c tr) (s' := run c (tr ++ tr')) (n := Z.to_nat j) (x := x)
    as (y & Hy & Hxy).
  - intros z K R C. repeat split; auto.
  - intros a b d Hab Hbd K R C. destruct (Hab K R C) as (K1 & R1 & C1 & V1 & S1 & E1).
    destruct (Hbd K1 R1 C1) as (K2 & R2 & C2 & V2 & S2 & E2). repeat split; congruence.
  - intros s a b. apply mstab_jmove.
  - intros a m Ha _ _ Hc'. congruence.
  - rewrite run_app. apply run_from_moves.
  - exact Hn.
  - destruct (Hxy Hk Hr Hc) as (K1 & R1 & C1 & V1 & S1 & E1).
    exists y. unfold get_job. replace (j <? 0) with false by lia. repeat split; auto.
Qed.

(* ---- the length hypothesis is needed: the model (like the code) accepts a NEGATIVE length,
   and such a handle stays in the cache after it failed, so it is failed again *)
Definition hneg_cfg := mkcfg 2 None None None None 1 false false.
Definition hneg_tr := [EMap (-1) 1; EReady 0 None false 7].

Theorem map_negative_length_refuted :
  exists c tr tr' j x y,
    get_job (run c tr) j = Some x /\ kind x = KMap /\ ready x = true /\ incache x = true
    /\ get_job (run c (tr ++ tr')) j = Some y
    /\ value x = Some (PExc 7) /\ value y = Some (PExc 8) /\ cb_err x = 1 /\ cb_err y = 2.
Proof.
  exists hneg_cfg, hneg_tr, [EReady 0 None false 8].
  exists 0, (nth 0 (jobs (run hneg_cfg hneg_tr)) (new_job (init hneg_cfg) KMap)),
         (nth 0 (jobs (run hneg_cfg (hneg_tr ++ [EReady 0 None false 8]))) (new_job (init hneg_cfg) KMap)).
  vm_compute. repeat split.
Qed.

Definition hmap_tr : list event :=
  [EMap 2 1; EFeed None false; EAck 0 (Some 0) 0; EReady 0 (Some 0) true 5;
   EAck 0 (Some 1) 1; EReady 0 (Some 1) true 6].

Example map_resolved_witness :
  match get_job (run hneg_cfg hmap_tr) 0 with
  | Some x => kind x = KMap /\ mlen x = 2 /\ ready x = true /\ incache x = false
              /\ value x = None /\ cb_succ x = 1 /\ cb_err x = 0
  | None => False
  end
  /\ match get_job (run hneg_cfg [EMap 2 1; EFeed None false; EReady 0 (Some 0) false 9]) 0 with
     | Some x => kind x = KMap /\ ready x = true /\ value x = Some (PExc 9) /\ cb_succ x = 0 /\ cb_err x = 1
     | None => False
     end
  /\ match get_job (run hneg_cfg [EMap 0 1]) 0 with
     | Some x => kind x = KMap /\ mlen x = 0 /\ ready x = true
     | None => False
     end.
Proof. vm_compute. repeat split. Qed.

(* ================================================================ C04: conversely *)
(* well-formed acknowledgements: the pid named by an ACK is in the pool list when the
   message is handled ... *)
Definition acks_from_pool (c : config) (tr : list event) : Prop :=
  forall tr1 j i p tr2, tr = tr1 ++ EAck j i p :: tr2 -> in_pool (run c tr1) p = true.
(* ... and (optionally) an Apply job is acknowledged at most once: it has no owner yet *)
Definition acks_once (c : config) (tr : list event) : Prop :=
  forall tr1 j i p tr2 x, tr = tr1 ++ EAck j i p :: tr2 ->
                          get_job (run c tr1) j = Some x -> kind x = KApply -> wp x = [].

(* worker p has left the pool list and the process table records that it exited with st *)
Definition gone (s : pool) (p st : Z) : Prop :=
  in_pool s p = false /\ exited s p = true /\ exit_of s p = st.

Lemma pmono_app l q : pmono l (l ++ [q]).
Proof.
  intros n a Hn. exists a. split; [|auto]. rewrite nth_error_app1; [exact Hn|].
  apply nth_error_Some. congruence.
Qed.

(* pids are fresh and exit statuses are written once: a worker that is gone stays gone, with
   the same status, as long as the pool list only gains pids that have not exited *)
Lemma gone_stable s s' p st :
  (forall q, In q (wlist s') -> In q (wlist s) \/ exited s q = false) ->
  pmono (procs s) (procs s') -> gone s p st -> gone s' p st.
Proof.
  intros Hw Hp (G1 & G2 & G3). unfold gone, in_pool, exited, exit_of, get_proc in *.
  split; [|].
  - destruct (memZ p (wlist s')) eqn:E; [|reflexivity]. exfalso. apply memZ_In in E.
    destruct (Hw p E) as [H|H].
    + apply memZ_In in H. congruence.
    + unfold exited, get_proc in H. congruence.
  - destruct (p <? 0); [discriminate|].
    destruct (nth_error (procs s) (Z.to_nat p)) as [q|] eqn:Eq; [|discriminate].
    destruct (Hp _ _ Eq) as (q' & Hq' & Hc). rewrite Hq'.
    destruct (pexit q) as [c0|]; [|discriminate]. rewrite (Hc c0 eq_refl). auto.
Qed.

Lemma exited_lt s p : exited s p = true -> p <> Z.of_nat (length (procs s)).
Proof.
  unfold exited, get_proc. intros H E. destruct (p <? 0); [discriminate|].
  destruct (nth_error (procs s) (Z.to_nat p)) eqn:En; [|discriminate].
  assert (Hlt : (Z.to_nat p < length (procs s))%nat) by (apply nth_error_Some; congruence). lia.
Qed.

Lemma gone_move okdt okack s s' p st : move okdt okack s s' -> gone s p st -> gone s' p st.
Proof.
  intros Hm. destruct Hm as [(Hp & Hw & _ & _) _|x (Hp & Hw & _ & _) _ _|_ Hw _ _ Hp|q _ _ _ Hp Hw|dt _ _ Hp Hw _ _|Hp _ _ Hw _];
    apply gone_stable.
  - rewrite Hw. auto.
  - rewrite Hp. apply pmono_refl.
  - rewrite Hw. auto.
  - rewrite Hp. apply pmono_refl.
  - rewrite Hw. auto.
  - exact Hp.
  - rewrite Hw. intros a Ha. apply in_app_or in Ha. destruct Ha as [Ha|[<-|[]]]; [auto|].
    right. destruct (exited s (Z.of_nat (length (procs s)))) eqn:E; [|reflexivity].
    exfalso. exact (exited_lt _ _ E eq_refl).
  - rewrite Hp. apply pmono_app.
  - rewrite Hw. auto.
  - rewrite Hp. apply pmono_refl.
  - rewrite Hw. intros a Ha. apply filter_In in Ha. tauto.
  - rewrite Hp. apply pmono_refl.
Qed.

(* all histories: once a worker is gone it never comes back, and its recorded status
   never changes *)
Theorem exited_worker_stays_gone c tr tr' p st :
  gone (run c tr) p st -> gone (run c (tr ++ tr')) p st.
Proof.
  rewrite run_app. generalize (run_from_moves tr' (run c tr)). generalize (run_from (run c tr) tr').
  generalize (run c tr). intros s s' Hms. induction Hms; intros G; [exact G|].
  apply IHHms. eapply gone_move; eauto.
Qed.

Section Lost.
(* S1 = "acknowledgements come at most once per Apply job" is assumed as well *)
Variable S1 : Prop.

Definition ackok (w : list Z) (x : job) (p : Z) : Prop := memZ p w = true /\ (S1 -> wp x = []).

Definition Wj (s : pool) (x : job) : Prop :=
  kind x = KApply ->
  (* an unresolved cached job without a marker: its owner is in the pool list *)
  (incache x = true -> ready x = false -> worker_lost x = None ->
   forall p, In p (wp x) -> In p (wlist s))
  (* a marker carries the status of a worker that is gone *)
  /\ (forall t st, worker_lost x = Some (t, st) -> exists p, gone s p st /\ (S1 -> In p (wp x))).

Definition W (s : pool) : Prop := Forall (Wj s) (jobs s).

Lemma Wj_env s s' x :
  (forall p, In p (wlist s) -> In p (wlist s')) -> (forall p st, gone s p st -> gone s' p st) ->
  Wj s x -> Wj s' x.
Proof.
  intros Hw Hg H Hk. destruct (H Hk) as [A B]. split.
  - intros Hc Hr Hl p Hp. apply Hw. apply A; assumption.
  - intros t st Hl. destruct (B t st Hl) as (p & G & Hp). exists p. split; [apply Hg; exact G|exact Hp].
Qed.

Lemma Wj_jmove s x y : Wj s x -> jmove ackok s x y -> Wj s y.
Proof.
  intros H Hm Hky.
  assert (Hk : kind x = KApply) by (rewrite <- (jm_kind _ _ (jmove_jmono _ _ _ _ Hm)); exact Hky).
  destruct (H Hk) as [A B]. clear Hky. destruct Hm.
  - (* acknowledged by a pid of the pool list *)
    destruct H2 as [Hin Hone]. cbn. split.
    + intros _ _ _ q [<-|[]]. apply memZ_In. exact Hin.
    + intros t st Hl. destruct (B t st Hl) as (q & G & Hq). exists q. split; [exact G|].
      intros Hs. specialize (Hq Hs). rewrite (Hone Hs) in Hq. destruct Hq.
  - congruence.
  - unfold is_imap in *. rewrite Hk in *. discriminate.
  - unfold job_set. rewrite Hk. cbn [fst]. unfold apply_set.
    destruct (ready x) eqn:Hr; [split; [intros; congruence|exact B]|]. cbn. split; [intros; discriminate|exact B].
  - unfold apply_set. rewrite H1. cbn. split; [intros; discriminate|exact B].
  - exact (conj A B).
  - cbn. split; [intros; discriminate|exact B].
  - unfold set_length, is_imap. rewrite Hk. cbn. split; assumption.
  - unfold is_imap in *. rewrite Hk in *. discriminate.
Qed.

Lemma Wj_fresh s x : fresh x -> Wj s x.
Proof.
  intros (_ & Hl & _ & _ & _ & Hw & _) _. split.
  - intros _ _ _ p Hp. rewrite Hw in Hp. destruct Hp.
  - intros t st H. congruence.
Qed.

Lemma W_move okdt s s' : move okdt ackok s s' -> W s -> W s'.
Proof.
  unfold W. intros Hm H. pose proof (fun p st => gone_move _ _ _ _ p st Hm) as Hg.
  destruct Hm as [He Hj|x He Hj Hf|Hj Hw _ _ _|q Hj _ _ _ Hw|dt _ Hj _ Hw _ _|Hpr Hn _ Hw Hj].
  - destruct He as (_ & Hw & _ & _).
    assert (H1 : Forall (Wj s) (jobs s')).
    { eapply Forall_Forall2; [exact Hj|exact H|]. intros x y Hx [->|Hxy]; [exact Hx|].
      eapply Wj_jmove; eauto. }
    eapply Forall_impl; [|exact H1]. intros x. apply Wj_env; [rewrite Hw; auto|exact Hg].
  - destruct He as (_ & Hw & _ & _). rewrite Hj. apply Forall_app. split.
    + eapply Forall_impl; [|exact H]. intros y. apply Wj_env; [rewrite Hw; auto|exact Hg].
    + constructor; [apply Wj_fresh; exact Hf|constructor].
  - rewrite Hj. eapply Forall_impl; [|exact H]. intros y. apply Wj_env; [rewrite Hw; auto|exact Hg].
  - rewrite Hj. eapply Forall_impl; [|exact H]. intros y. apply Wj_env; [|exact Hg].
    rewrite Hw. intros p Hp. apply in_or_app. left. exact Hp.
  - rewrite Hj. eapply Forall_impl; [|exact H]. intros y. apply Wj_env; [rewrite Hw; auto|exact Hg].
  - (* the reaping pass *)
    eapply Forall_Forall2; [exact Hj|exact H|]. intros x y Hx Hr Hky.
    destruct Hr as [F|c Hc Hr|p code Hc Hr Hl Hp Halt].
    + destruct (Hx Hky) as [A B]. split.
      * intros Hc Hr Hl p Hp. apply (F Hc Hr Hl p); [unfold worker_pids; rewrite Hky; exact Hp|apply A; assumption].
      * intros t st Hl. destruct (B t st Hl) as (p & G & Hp). exists p. split; [apply Hg; exact G|exact Hp].
    + assert (Hk : kind x = KApply).
      { rewrite <- (jm_kind _ _ (job_set_mono x None (PTerminated c))). exact Hky. }
      destruct (Hx Hk) as [A B]. unfold job_set. rewrite Hk. cbn [fst]. unfold apply_set. rewrite Hr. cbn.
      split; [intros; discriminate|].
      intros t st Hl. destruct (B t st Hl) as (p & G & Hp). exists p. split; [apply Hg; exact G|exact Hp].
    + cbn in Hky. destruct (Hx Hky) as [A B]. cbn. split; [intros; discriminate|].
      intros t st E. inversion E; subst t st. clear E.
      unfold worker_pids in Hp. rewrite Hky in Hp.
      pose proof (A Hc Hr Hl p Hp) as Hin.
      destruct Halt as [(_ & Hex & Hcode)|(Hnot & _)]; [|contradiction].
      exists p. split; [|intros _; exact Hp].
      assert (Hex' : exited s' p = true) by (unfold exited, get_proc; rewrite Hpr; exact Hex).
      assert (Hcode' : exit_of s' p = code) by (unfold exit_of, get_proc; rewrite Hpr; symmetry; exact Hcode).
      split; [|split; assumption].
      unfold in_pool. rewrite Hw.
      destruct (memZ p (filter (fun p0 => negb (exited s p0)) (wlist s))) eqn:E; [|reflexivity].
      exfalso. apply memZ_In in E. apply filter_In in E. destruct E as [_ E].
      rewrite Hex in E. discriminate.
Qed.

End Lost.

Lemma acks_hist_ok (S1 : Prop) c tr :
  acks_from_pool c tr -> (S1 -> acks_once c tr) -> hist_ok any_dt (ackok S1) c tr.
Proof.
  intros Hp Ho tr1 e tr2 E. destruct e; cbn; unfold any_dt; auto.
  intros x Hg Hk. split.
  - apply (Hp tr1 j i p tr2 E).
  - intros Hs. apply (Ho Hs tr1 j i p tr2 x E Hg Hk).
Qed.

Theorem W_reachable (S1 : Prop) c tr :
  acks_from_pool c tr -> (S1 -> acks_once c tr) -> W S1 (run c tr).
Proof.
  intros Hp Ho. apply (run_inv any_dt (ackok S1)).
  - apply W_move.
  - unfold W. rewrite jobs_init. constructor.
  - apply acks_hist_ok; assumption.
Qed.

(* C04, conversely, history level: no Apply job carries a lost-worker marker unless a worker
   really exited with the status the marker names and has left the pool list *)
Theorem marked_lost_worker_exited c tr j x t st :
  acks_from_pool c tr ->
  get_job (run c tr) j = Some x -> kind x = KApply -> worker_lost x = Some (t, st) ->
  exists p, in_pool (run c tr) p = false /\ exited (run c tr) p = true
            /\ st = exit_of (run c tr) p.
Proof.
  intros Hp Hg Hk Hl. pose proof (W_reachable False c tr Hp (fun f => match f with end)) as H.
  unfold W in H. rewrite Forall_forall in H. destruct (H x (get_job_In _ _ _ Hg) Hk) as [_ B].
  destruct (B t st Hl) as (p & (G1 & G2 & G3) & _). exists p. auto.
Qed.

(* ... and that worker is the job's recorded owner when every Apply job is acknowledged at
   most once *)
Theorem marked_lost_owner_exited c tr j x t st :
  acks_from_pool c tr -> acks_once c tr ->
  get_job (run c tr) j = Some x -> kind x = KApply -> worker_lost x = Some (t, st) ->
  exists p, In p (wp x) /\ in_pool (run c tr) p = false /\ exited (run c tr) p = true
            /\ st = exit_of (run c tr) p.
Proof.
  intros Hp Ho Hg Hk Hl. pose proof (W_reachable True c tr Hp (fun _ => Ho)) as H.
  unfold W in H. rewrite Forall_forall in H. destruct (H x (get_job_In _ _ _ Hg) Hk) as [_ B].
  destruct (B t st Hl) as (p & (G1 & G2 & G3) & Hin). exists p. auto.
Qed.

(* the other half of the invariant: an unresolved cached Apply job WITHOUT a marker has its
   owner in the pool list (so every owner that left was noticed by the pass that reaped it) *)
Theorem unmarked_owner_in_pool c tr j x p :
  acks_from_pool c tr ->
  get_job (run c tr) j = Some x -> kind x = KApply ->
  incache x = true -> ready x = false -> worker_lost x = None -> In p (wp x) ->
  in_pool (run c tr) p = true.
Proof.
  intros Hp Hg Hk Hc Hr Hl Hin. pose proof (W_reachable False c tr Hp (fun f => match f with end)) as H.
  unfold W in H. rewrite Forall_forall in H. destruct (H x (get_job_In _ _ _ Hg) Hk) as [A _].
  apply memZ_In. apply A; assumption.
Qed.

(* ---- a decidable form of the two hypotheses, for concrete histories *)
Fixpoint acks_okb (once : bool) (s : pool) (tr : list event) : bool :=
  match tr with
  | [] => true
  | e :: r =>
    (match e with
     | EAck j i p =>
       in_pool s p
       && (negb once || match get_job s j with
                        | Some x => match kind x, wp x with KApply, _ :: _ => false | _, _ => true end
                        | None => true
                        end)
     | _ => true
     end) && acks_okb once (fst (step s e)) r
  end.

Lemma acks_okb_sound : forall tr once s,
    acks_okb once s tr = true ->
    forall tr1 j i p tr2, tr = tr1 ++ EAck j i p :: tr2 ->
      in_pool (run_from s tr1) p = true
      /\ (once = true -> forall x, get_job (run_from s tr1) j = Some x -> kind x = KApply -> wp x = []).
Proof.
  induction tr as [|e tr IH]; intros once s H tr1 j i p tr2 E; [destruct tr1; discriminate|].
  cbn [acks_okb] in H. apply andb_true_iff in H. destruct H as [H1 H2].
  destruct tr1 as [|e1 tr1]; cbn in E; inversion E; subst.
  - cbn [run_from fold_left]. apply andb_true_iff in H1. destruct H1 as [Ha Hb]. split; [exact Ha|].
    intros -> x Hg Hk. cbn in Hb. unfold run_from in Hg. cbn in Hg. rewrite Hg, Hk in Hb.
    destruct (wp x); [reflexivity|discriminate].
  - apply (IH once (fst (step s e1)) H2 tr1 j i p tr2 eq_refl).
Qed.

Lemma acks_okb_from_pool c tr once : acks_okb once (init c) tr = true -> acks_from_pool c tr.
Proof. intros H tr1 j i p tr2 E. exact (proj1 (acks_okb_sound tr once (init c) H tr1 j i p tr2 E)). Qed.

Lemma acks_okb_once c tr : acks_okb true (init c) tr = true -> acks_once c tr.
Proof.
  intros H tr1 j i p tr2 x E. exact (proj2 (acks_okb_sound tr true (init c) H tr1 j i p tr2 E) eq_refl x).
Qed.

Definition h04_cfg := mkcfg 2 None None None None 1 false false.
Definition h04_tr : list event := [EApply None None None None; EAck 0 None 0; EExit 0 (-9); ETick].

Example marked_lost_witness :
  acks_from_pool h04_cfg h04_tr /\ acks_once h04_cfg h04_tr
  /\ match get_job (run h04_cfg h04_tr) 0 with
     | Some x => kind x = KApply /\ worker_lost x = Some (1000, -9) /\ wp x = [0]
                 /\ in_pool (run h04_cfg h04_tr) 0 = false /\ exited (run h04_cfg h04_tr) 0 = true
                 /\ exit_of (run h04_cfg h04_tr) 0 = -9 /\ wlist (run h04_cfg h04_tr) = [1; 2]
     | None => False
     end.
Proof.
  split; [apply (acks_okb_from_pool _ _ true); vm_compute; reflexivity|].
  split; [apply acks_okb_once; vm_compute; reflexivity|]. vm_compute. repeat split.
Qed.

(* ---- "some p in wp x is not in the pool list" is FALSE without the at-most-once hypothesis:
   ApplyResult._ack overwrites the owner, also on a job that already carries a marker *)
Theorem marked_lost_owner_alive_refuted :
  exists c tr j x t st,
    acks_from_pool c tr /\ get_job (run c tr) j = Some x /\ kind x = KApply
    /\ worker_lost x = Some (t, st)
    /\ forall p, In p (wp x) -> in_pool (run c tr) p = true.
Proof.
  exists h04_cfg, (h04_tr ++ [EAck 0 None 1]), 0,
         (nth 0 (jobs (run h04_cfg (h04_tr ++ [EAck 0 None 1]))) (new_job (init h04_cfg) KApply)),
         1000, (-9).
  split; [apply (acks_okb_from_pool _ _ false); vm_compute; reflexivity|].
  split; [vm_compute; reflexivity|]. split; [vm_compute; reflexivity|].
  split; [vm_compute; reflexivity|].
  intros p Hp. vm_compute in Hp. destruct Hp as [<-|[]]. vm_compute. reflexivity.
Qed.

(* ---- and acks_from_pool is needed: an ACK naming a pid that already left the pool list makes
   a later pass write a marker with status 0, whatever that worker's real exit status was
   (known finding C04:owner-gone-but-no-marker) *)
Definition h04_late : list event :=
  [EApply None None None None; EExit 0 (-11); ETick; EAck 0 None 0; EExit 1 (-9); ETick].

Theorem marked_lost_needs_acks_from_pool :
  exists c tr j x t st,
    get_job (run c tr) j = Some x /\ kind x = KApply /\ worker_lost x = Some (t, st)
    /\ acks_okb false (init c) tr = false
    /\ forall p, In p (wp x) -> exit_of (run c tr) p <> st.
Proof.
  exists h04_cfg, h04_late, 0,
         (nth 0 (jobs (run h04_cfg h04_late)) (new_job (init h04_cfg) KApply)), 1000, 0.
  split; [vm_compute; reflexivity|]. split; [vm_compute; reflexivity|].
  split; [vm_compute; reflexivity|]. split; [vm_compute; reflexivity|].
  intros p Hp. vm_compute in Hp. destruct Hp as [<-|[]]. vm_compute. discriminate.
Qed.

Print Assumptions timed_out_was_due.
Print Assumptions marked_lost_worker_exited.
Print Assumptions marked_lost_owner_exited.
Print Assumptions unmarked_owner_in_pool.
Print Assumptions exited_worker_stays_gone.
Print Assumptions map_callbacks_at_most_once.
Print Assumptions map_outcome_stable.
Print Assumptions empty_map.
Print Assumptions map_negative_length_refuted.
Print Assumptions marked_lost_owner_alive_refuted.
