(* History-level theorems about the pool model (asked for by the independent audit, item 10:
   "single-step statements where the property quantifies over histories").

   Method.  Every event of Model/Pool.v is decomposed ONCE into a sequence of primitive
   [move]s (a job record is rewritten by one of nine guarded job-level functions [jmove];
   a job is appended; the process table is updated write-once; a worker is started; the
   clock advances; exited workers are reaped and their jobs marked).  Each history-level
   invariant then only has to be checked against the primitive moves.

   C05  timed_out_was_due      : a job reported TimeLimitExceeded had run for its limit
   C04  marked_lost_worker_exited(_owner) : a lost-worker marker names the exit status of
                                  a worker that really exited and left the pool
   C01  map_callbacks_at_most_once, map_outcome_stable, empty_map : map handles *)
From Coq Require Import ZArith List Bool Lia ZifyBool.
From BV Require Import Lib.Cases Model.LaxSem Model.Restart Model.Pool
     Proofs.PoolJobs Proofs.PoolInv Proofs.PoolSup.
Import ListNotations.
Open Scope Z_scope.

(* ================================================================ list helpers *)
Lemma Forall2_same {A} (R : A -> A -> Prop) : (forall x, R x x) -> forall l, Forall2 R l l.
Proof. intros H. induction l; constructor; auto. Qed.

Lemma Forall2_upd {A} (R : A -> A -> Prop) (f : A -> A) :
  (forall x, R x x) ->
  forall l n, (forall x, nth_error l n = Some x -> R x (f x)) -> Forall2 R l (upd_nth n f l).
Proof.
  intros Hr. induction l as [|a l IH]; intros [|n] H; cbn; try constructor; auto.
  - apply H. reflexivity.
  - apply Forall2_same. exact Hr.
Qed.

Lemma Forall2_map_r {A} (R : A -> A -> Prop) (f : A -> A) l :
  (forall x, In x l -> R x (f x)) -> Forall2 R l (map f l).
Proof.
  induction l as [|a l IH]; intros H; cbn; constructor.
  - apply H. left. reflexivity.
  - apply IH. intros x Hx. apply H. right. exact Hx.
Qed.

Lemma Forall2_nth_l {A} (R : A -> A -> Prop) l l' :
  Forall2 R l l' -> forall n x, nth_error l n = Some x -> exists y, nth_error l' n = Some y /\ R x y.
Proof.
  induction 1 as [|a b l l' Hab H IH]; intros [|n] x Hn; cbn in *; try discriminate.
  - inversion Hn; subst. eauto.
  - apply IH. exact Hn.
Qed.

Lemma Forall_Forall2 {A} (P Q : A -> Prop) (R : A -> A -> Prop) l l' :
  Forall2 R l l' -> Forall P l -> (forall x y, P x -> R x y -> Q y) -> Forall Q l'.
Proof.
  induction 1 as [|a b l l' Hab H IH]; intros HP HQ; constructor.
  - inversion HP; subst. eapply HQ; eauto.
  - inversion HP; subst. apply IH; auto.
Qed.

Lemma filter_nil_all {A} (f : A -> bool) l : filter f l = [] -> forall a, In a l -> f a = false.
Proof.
  induction l as [|b l IH]; intros H a Hin; [destruct Hin|]. cbn in H.
  destruct (f b) eqn:E; [discriminate|]. destruct Hin as [<-|Hin]; [exact E|apply IH; assumption].
Qed.

(* ================================================================ primitive moves *)
Definition pmono (l l' : list proc) : Prop :=
  forall n q, nth_error l n = Some q ->
              exists q', nth_error l' n = Some q' /\ forall c, pexit q = Some c -> pexit q' = Some c.

Lemma pmono_refl l : pmono l l.
Proof. intros n q H. exists q. auto. Qed.

Lemma pmono_upd f : (forall q c, pexit q = Some c -> pexit (f q) = Some c) ->
  forall l n, pmono l (upd_nth n f l).
Proof.
  intros Hf l n m q Hm. destruct (Nat.eq_dec n m) as [<-|Hne].
  - exists (f q). split; [apply nth_upd_nth_same; exact Hm|apply Hf].
  - exists q. split; [rewrite nth_upd_nth_other by exact Hne; exact Hm|auto].
Qed.

(* a job as it is created by a submit call *)
Definition fresh (x : job) : Prop :=
  value x = None /\ worker_lost x = None /\ cb_succ x = 0 /\ cb_err x = 0
  /\ time_accepted x = None /\ wp x = []
  /\ (kind x = KApply -> ready x = false)
  /\ (kind x = KMap -> incache x = negb (ready x)
                       /\ (incache x = true -> 0 <= mlen x -> accepted x = true)).

Definition env_eq (s s' : pool) : Prop :=
  procs s' = procs s /\ wlist s' = wlist s /\ now s' = now s /\ t_hard s' = t_hard s.

Section Moves.
(* what is assumed of the history: of the clock steps, and of the pid named by an
   acknowledgement for an Apply job (given the pool list and the job at that moment) *)
Variable okdt : Z -> Prop.
Variable okack : list Z -> job -> Z -> Prop.

(* everything the pool ever does to one job record, with the guard under which it does it *)
Inductive jmove (s : pool) (x : job) : job -> Prop :=
| JAck p : kind x = KApply -> incache x = true -> okack (wlist s) x p ->
           jmove s x (apply_ack x (now s) p)
| JMapAck i p : kind x = KMap -> incache x = true -> jmove s x (map_ack x i p)
| JImapAck p : is_imap x = true -> jmove s x (imap_ack x p)
| JSet i p : incache x = true -> (forall l, p <> PTimeLimit l) -> jmove s x (fst (job_set x i p))
| JHard t : kind x = KApply -> ready x = false -> time_accepted x = Some t ->
            timed_out s (Some t) (eff_hard s x) = true ->
            jmove s x (j_add_tmo (apply_set x (PTimeLimit (hard x))) (false, hard x))
| JTmo e : jmove s x (j_add_tmo x e)
| JUncache : jmove s x (j_uncache x)
| JLen n : jmove s x (fst (set_length x n))
| JNext rdy its : is_imap x = true -> (ready x = true -> rdy = true) ->
                  jmove s x (mk_imap x (incache x) rdy (index x) (ilength x) (unsorted x) its).

(* what the second loop of _join_exited_workers does to one job; s' is the state after the
   reaped workers left the pool list *)
Inductive rjob (s s' : pool) (x : job) : job -> Prop :=
| RSame : (incache x = true -> ready x = false -> worker_lost x = None ->
           forall p, In p (worker_pids x) -> In p (wlist s) -> In p (wlist s')) -> rjob s s' x x
| RTerm c : incache x = true -> ready x = false ->
            rjob s s' x (fst (job_set x None (PTerminated c)))
| RLost p code : incache x = true -> ready x = false -> worker_lost x = None ->
                 In p (worker_pids x) ->
                 ((In p (wlist s) /\ exited s p = true /\ code = exit_of s p)
                  \/ (~ In p (wlist s) /\ code = 0)) ->
                 rjob s s' x (j_set_lost x (Some (now s, code))).

Inductive move (s s' : pool) : Prop :=
| MJobs : env_eq s s' -> Forall2 (fun x y => y = x \/ jmove s x y) (jobs s) (jobs s') -> move s s'
| MAdd x : env_eq s s' -> jobs s' = jobs s ++ [x] -> fresh x -> move s s'
| MProc : jobs s' = jobs s -> wlist s' = wlist s -> now s' = now s -> t_hard s' = t_hard s ->
          pmono (procs s) (procs s') -> move s s'
| MStart q : jobs s' = jobs s -> now s' = now s -> t_hard s' = t_hard s ->
             procs s' = procs s ++ [q] ->
             wlist s' = wlist s ++ [Z.of_nat (length (procs s))] -> move s s'
| MAdvance dt : okdt dt -> jobs s' = jobs s -> procs s' = procs s -> wlist s' = wlist s ->
                t_hard s' = t_hard s -> now s' = now s + dt -> move s s'
| MReap : procs s' = procs s -> now s' = now s -> t_hard s' = t_hard s ->
          wlist s' = filter (fun p => negb (exited s p)) (wlist s) ->
          Forall2 (rjob s s') (jobs s) (jobs s') -> move s s'.

Inductive moves : pool -> pool -> Prop :=
| ms_refl s : moves s s
| ms_step s s1 s2 : move s s1 -> moves s1 s2 -> moves s s2.

Lemma moves_one s s' : move s s' -> moves s s'.
Proof. intros H. eapply ms_step; [exact H|apply ms_refl]. Qed.

Lemma moves_trans a b c : moves a b -> moves b c -> moves a c.
Proof. induction 1; intros H2; [exact H2|]. eapply ms_step; [eassumption|auto]. Qed.

Lemma moves_snoc a b c : moves a b -> move b c -> moves a c.
Proof. intros H1 H2. eapply moves_trans; [exact H1|apply moves_one; exact H2]. Qed.

(* ---------------------------------------------------------------- building moves *)
Lemma move_same s s' : jobs s' = jobs s -> env_eq s s' -> move s s'.
Proof. intros Hj He. apply MJobs; [exact He|]. rewrite Hj. apply Forall2_same. auto. Qed.

Ltac msame := apply move_same; [reflexivity|repeat split].

Lemma move_set_job s j f :
  (forall x, get_job s j = Some x -> f x = x \/ jmove s x (f x)) -> move s (set_job s j f).
Proof.
  intros Hf. apply MJobs; [repeat split|]. unfold set_job, get_job in *. cbn [jobs].
  destruct (j <? 0); [apply Forall2_same; auto|].
  apply Forall2_upd; [auto|]. exact Hf.
Qed.

Lemma move_map_jobs s f :
  (forall x, In x (jobs s) -> f x = x \/ jmove s x (f x)) -> move s (map_jobs s f).
Proof. intros Hf. apply MJobs; [repeat split|]. cbn [jobs map_jobs]. apply Forall2_map_r. exact Hf. Qed.

Lemma move_set_proc s p f :
  (forall q c, pexit q = Some c -> pexit (f q) = Some c) -> move s (set_proc s p f).
Proof.
  intros Hf. apply MProc; try reflexivity. unfold set_proc. cbn [procs].
  destruct (p <? 0); [apply pmono_refl|apply pmono_upd; exact Hf].
Qed.

Lemma move_deliver s p sg l : move s (deliver s p sg l).
Proof.
  apply MProc; try reflexivity. unfold deliver, set_proc. cbn [procs with_sigs].
  destruct (p <? 0); [apply pmono_refl|]. apply pmono_upd.
  intros q c Hq. rewrite Hq. exact Hq.
Qed.

Lemma move_start_worker s ix : move s (start_worker s ix).
Proof. eapply MStart; reflexivity. Qed.

Lemma moves_fold {A} (f : pool -> A -> pool) :
  (forall s a, moves s (f s a)) -> forall l s, moves s (fold_left f l s).
Proof.
  intros Hf. induction l as [|a l IH]; intros s; cbn; [apply ms_refl|].
  eapply moves_trans; [apply Hf|apply IH].
Qed.

End Moves.
