(* C17, third part: consequences of the liveness invariant and of the variant
   (Proofs/CondLive.v): every schedule is finite with an explicit bound, the handshake
   between a notifier and its sleepers cannot deadlock, a state without an enabled thread
   consists of finished threads, untimed sleepers and threads blocked on user semaphores,
   and the UNCONDITIONAL wake-up theorems; trace forms for notify and Event.set. *)
From Coq Require Import ZArith List Bool Lia ZifyBool Arith.
From BV Require Import Model.SemProg Model.CondProg Proofs.SemProgProofs Proofs.CondProofs Proofs.CondLive.
From BV Require Gen.P_cond.
Import ListNotations.
Open Scope Z_scope.

Opaque upds updz upd.

(* ------------------------------------------------------------------ Live over runs *)
Lemma live_step : forall g i go g' e, Inv g -> small g -> Live g ->
    step code g i go = Some (g', e) -> Live g'.
Proof.
  intros g i go g' e HI Hsm HL H.
  destruct (step_thr _ _ _ _ _ H) as (t & Ht & _).
  exact (proj1 (step_live g i go g' e t HI Hsm Ht H) HL).
Qed.

Lemma M_step : forall g i go g' e, Inv g -> small g ->
    step code g i go = Some (g', e) -> M g' < M g.
Proof.
  intros g i go g' e HI Hsm H.
  destruct (step_thr _ _ _ _ _ H) as (t & Ht & _).
  exact (proj1 (proj2 (step_live g i go g' e t HI Hsm Ht H))).
Qed.

Lemma live_init : forall lockrec k scripts,
    Forall (Forall okcall) scripts -> Live (init lockrec k scripts).
Proof.
  intros lockrec k scripts Hs. unfold init, init_sys.
  assert (Hall : forall t, In t (map (start code [] []) scripts) ->
                 t_low t = 0 /\ t_a10 t = 0 /\ t_set t = 0).
  { intros t Ht. apply in_map_iff in Ht. destruct Ht as [sc [E Hin]]. subst t.
    rewrite Forall_forall in Hs.
    destruct (start_facts2 sc [] [] (Hs sc Hin)) as (A & B & C & _). auto. }
  split; unfold vv; cbn [sems thr].
  - rewrite (sumz_zero _ t_low) by (intros t Ht; apply (Hall t Ht)).
    rewrite (sumz_zero _ t_a10) by (intros t Ht; apply (Hall t Ht)).
    destruct lockrec; cbn; lia.
  - rewrite (sumz_zero _ t_set) by (intros t Ht; apply (Hall t Ht)). lia.
Qed.

Lemma live_run : forall sched g g' es ok,
    Inv g -> Live g -> run_small g sched -> run code g sched = (g', es, ok) -> Inv g' /\ Live g'.
Proof.
  induction sched as [|[i go] sched IH]; intros g g' es ok HI HL Hs H; cbn [run] in H.
  - inversion H; subst; auto.
  - cbn [run_small] in Hs. destruct Hs as [Hsm Hs].
    destruct (step code g i go) as [[g1 e]|] eqn:Es.
    + destruct (run code g1 sched) as [[g2 es2] ok2] eqn:Er. inversion H; subst.
      apply (IH g1 g' es2 ok); auto; [eapply inv_step; eauto|eapply live_step; eauto].
    + inversion H; subst; auto.
Qed.

Theorem reach_live : forall g, Reach g -> Live g.
Proof.
  intros g (lockrec & k & scripts & sched & es & ok & Hs & Hsm & Hrun).
  rewrite grun, gen_init_eq in Hrun. rewrite gen_init_eq in Hsm.
  eapply (live_run sched (init lockrec k scripts));
    [apply inv_init; eauto|apply live_init; eauto|apply gen_run_small_eq; eauto|eauto].
Qed.

(* ------------------------------------------------------------------ the variant *)
Lemma M_lower : forall g, Inv g -> 64 * (vv 2 g + 2 * vv 1 g + vv 3 g) <= M g.
Proof.
  intros g HI. unfold M.
  assert (0 <= sumz t_mu (thr g)) by (apply sumz_nonneg; intros; apply t_mu_nonneg). lia.
Qed.

Lemma M_nonneg : forall g, Inv g -> 0 <= M g.
Proof.
  intros g HI. pose proof (M_lower g HI). pose proof (i_s0 g HI). pose proof (i_w0 g HI).
  pose proof (i_tok g HI). lia.
Qed.

(* a system that is not astronomically large never comes near SEM_VALUE_MAX *)
Lemma small_of_M : forall g, Inv g -> M g < 64 * SVM -> small g.
Proof.
  intros g HI HM. pose proof (M_lower g HI). pose proof (i_s0 g HI). pose proof (i_w0 g HI).
  pose proof (i_tok g HI). unfold small. lia.
Qed.

Lemma run_small_of_M : forall sched g, Inv g -> M g < 64 * SVM -> run_small g sched.
Proof.
  induction sched as [|[i go] sched IH]; intros g HI HM; cbn [run_small].
  - split; [apply small_of_M; auto|exact I].
  - split; [apply small_of_M; auto|].
    destruct (step code g i go) as [[g1 e]|] eqn:Es; [|exact I].
    pose proof (small_of_M g HI HM) as Hsm.
    apply IH; [eapply inv_step; eauto|]. pose proof (M_step _ _ _ _ _ HI Hsm Es). lia.
Qed.

(* EVERY schedule is finite: the number of steps executed is bounded by the variant *)
Theorem run_bounded : forall sched g g' es ok, Inv g -> M g < 64 * SVM ->
    run code g sched = (g', es, ok) ->
    Inv g' /\ Z.of_nat (length es) + M g' <= M g.
Proof.
  induction sched as [|[i go] sched IH]; intros g g' es ok HI HM H; cbn [run] in H.
  - inversion H; subst. cbn. split; [auto|lia].
  - destruct (step code g i go) as [[g1 e]|] eqn:Es.
    + destruct (run code g1 sched) as [[g2 es2] ok2] eqn:Er. inversion H; subst.
      pose proof (small_of_M g HI HM) as Hsm.
      pose proof (M_step _ _ _ _ _ HI Hsm Es) as Hd.
      destruct (IH g1 g' es2 ok (inv_step _ _ _ _ _ HI Hsm Es) ltac:(lia) Er) as [A B].
      split; [auto|]. cbn [length]. lia.
    + inversion H; subst. cbn. split; [auto|lia].
Qed.

Lemma live_run_M : forall sched g g' es ok,
    Inv g -> Live g -> M g < 64 * SVM -> run code g sched = (g', es, ok) ->
    Inv g' /\ Live g' /\ M g' < 64 * SVM.
Proof.
  intros sched g g' es ok HI HL HM H.
  destruct (live_run sched g g' es ok HI HL (run_small_of_M sched g HI HM) H) as [A B].
  destruct (run_bounded sched g g' es ok HI HM H) as [_ C].
  split; [auto|]. split; [auto|lia].
Qed.

(* ------------------------------------------------------------------ who can step *)
Definition stuck (g : sys) : Prop := forall u go, step code g u go = None.

(* an untimed waiter standing at its acquire of the wait semaphore *)
Definition sleeping (t : thread) : Prop :=
  (at_ t 0 9 = true \/ at_ t 6 13 = true) /\ r0 (rg t) = 0.
(* standing at an acquire of the condition's lock *)
Definition at_lock (t : thread) : bool :=
  negb (fin t) && ((Nat.leb (cid t) 6 && Nat.eqb (pc t) 0) || at_ t 0 13 || at_ t 6 17).
(* a notifier standing at its BLOCKING acquire of the woken count *)
Definition at_ack (t : thread) : bool := at_ t 1 12 || at_ t 2 18 || at_ t 4 20.

Ltac simp_step H :=
  cbn [nth_error code p_c_wait p_c_notify p_c_notify_all p_e_is_set p_e_set
       p_e_clear p_e_wait p_u_acquire p_u_release p_ub_acquire p_ub_release p_ul_acquire p_ul_release
       p_ur_acquire p_ur_release p_c_wait2 getr flagv r0 r1 r2 r3 r4 r5 r6 r7
       rg cur pc held fin cid fst snd negb andb] in H.

(* a thread that cannot step stands at a blocking acquire that cannot succeed *)
Lemma blocked_class : forall g i t, Inv g -> nth_error (thr g) i = Some t -> fin t = false ->
    step code g i true = None -> step code g i false = None ->
    (at_lock t = true /\ vv 0 g = 0) \/ (sleeping t /\ vv 3 g = 0) \/
    (at_ack t = true /\ vv 2 g = 0) \/ (7 <= cid t)%nat.
Proof.
  intros g i t HI Ht Hf H1 H2.
  pose proof (i_li g HI t (nth_error_In _ _ Ht)) as Hli.
  destruct (i_shape g HI) as [HmL H14].
  destruct (H14 1%nat ltac:(lia)) as [Hr1 _]. destruct (H14 2%nat ltac:(lia)) as [Hr2 _].
  destruct (H14 3%nat ltac:(lia)) as [Hr3 _]. destruct (H14 4%nat ltac:(lia)) as [Hr4 _].
  pose proof (i_lock0 g HI) as Ilock0. pose proof (i_s0 g HI) as Is0. pose proof (i_w0 g HI) as Iw0.
  pose proof (i_tok g HI) as Itok. clear H14 HmL.
  unfold step in H1, H2. rewrite Ht in H1, H2. unfold vv in *.
  destruct t as [[[c a0] a1] p [x0 x1 x2 x3 x4 x5 x6 x7] h sc rs f]. cbn [fin] in Hf; subst f.
  unfold LI in Hli; cbn [fin script results rg cur pc held cid fst snd] in Hli.
  destruct Hli as (_ & _ & _ & Hpc).
  unfold sleeping, at_lock, at_ack, at_, cid in *; cbn [cur fst snd pc rg held fin r0] in *.
  dn c 15%nat; dn p 28%nat; cbn in Hpc; try contradiction.
  all: try (right; right; right; lia).
  all: simp_step H1; simp_step H2; unfold sem_acq, sem_rel in H1;
    rewrite ?Hr1, ?Hr2, ?Hr3, ?Hr4 in H1; cbn [andb] in H1; destr_H H1; try discriminate.
  all: destr_H H2; try discriminate.
  all: cbn [Nat.eqb Nat.leb andb orb negb].
  all: first [ left; split; [reflexivity | lia]
             | right; left; split; [split; [first [left; reflexivity | right; reflexivity] | lia] | lia]
             | right; right; left; split; [reflexivity | lia] ].
Qed.

Lemma rel_enabled : forall g u t s, nth_error (thr g) u = Some t -> fin t = false ->
    nth_error (code (cid t)) (pc t) = Some (Rel s) -> step code g u true <> None.
Proof.
  intros g u t s Ht Hf Hi. unfold step. rewrite Ht, Hf, Hi.
  destruct (sem_rel (nth s (sems g) dsem) (nth s (held t) 0)) as [[sm' h'] e'].
  destruct (e' =? 0); discriminate.
Qed.

Lemma acq_enabled : forall g u t s b tm d, nth_error (thr g) u = Some t -> fin t = false ->
    nth_error (code (cid t)) (pc t) = Some (Acq s b tm d) ->
    recur (nth s (sems g) dsem) = false -> 0 < val (nth s (sems g) dsem) ->
    step code g u true <> None.
Proof.
  intros g u t s b tm d Ht Hf Hi Hr Hv. unfold step. rewrite Ht, Hf, Hi.
  unfold sem_acq. rewrite Hr. cbn [andb].
  replace (0 <? val (nth s (sems g) dsem)) with true by lia. discriminate.
Qed.

Lemma at_code : forall t c p, at_ t c p = true ->
    fin t = false /\ nth_error (code (cid t)) (pc t) = nth_error (code c) p.
Proof. intros t c p H. destruct (at_inv _ _ _ H) as (A & B & C). rewrite B, C. auto. Qed.

Lemma sumz_pos_ex : forall A (f : A -> Z) l, 0 < sumz f l ->
    exists i x, nth_error l i = Some x /\ 0 < f x.
Proof.
  induction l as [|x l IH]; cbn; intros H; [lia|].
  destruct (Z_lt_dec 0 (f x)) as [E|E].
  - exists 0%nat, x. auto.
  - destruct (IH ltac:(lia)) as (i & y & Hi & Hy). exists (S i), y. auto.
Qed.

Lemma win_cases : forall t, 0 < t_win t ->
    at_ t 0 6 = true \/ at_ t 0 9 = true \/ at_ t 0 10 = true \/
    at_ t 6 10 = true \/ at_ t 6 13 = true \/ at_ t 6 14 = true.
Proof.
  intros [[[c a0] a1] p r h sc rs f]. unfold t_win, at_, cid; cbn [fin cur fst pc].
  destruct f; [lia|]. dn c 16%nat; dn p 28%nat; cbn; intros; try lia; auto 10.
Qed.

Lemma a10_cases : forall t, 0 < t_a10 t -> at_ t 0 10 = true \/ at_ t 6 14 = true.
Proof.
  intros [[[c a0] a1] p r h sc rs f]. unfold t_a10, at_, cid; cbn [fin cur fst pc].
  destruct f; [lia|]. dn c 16%nat; dn p 28%nat; cbn; intros; try lia; auto.
Qed.

(* a thread in the wait window can step as soon as the wait semaphore holds a token *)
Lemma win_enabled : forall g u t, Inv g -> nth_error (thr g) u = Some t -> 0 < t_win t ->
    0 < vv 3 g -> step code g u true <> None.
Proof.
  intros g u t HI Ht Hw HT.
  destruct (i_shape g HI) as [_ H14]. destruct (H14 3%nat ltac:(lia)) as [Hr3 _].
  unfold vv in HT.
  destruct (win_cases t Hw) as [H|[H|[H|[H|[H|H]]]]]; destruct (at_code _ _ _ H) as [Hf Hc].
  - eapply rel_enabled; [exact Ht|exact Hf|rewrite Hc; reflexivity].
  - eapply acq_enabled; [exact Ht|exact Hf|rewrite Hc; reflexivity|exact Hr3|exact HT].
  - eapply rel_enabled; [exact Ht|exact Hf|rewrite Hc; reflexivity].
  - eapply rel_enabled; [exact Ht|exact Hf|rewrite Hc; reflexivity].
  - eapply acq_enabled; [exact Ht|exact Hf|rewrite Hc; reflexivity|exact Hr3|exact HT].
  - eapply rel_enabled; [exact Ht|exact Hf|rewrite Hc; reflexivity].
Qed.

Lemma hl_excl_sums : forall g n tn, Inv g -> nth_error (thr g) n = Some tn -> t_hl tn = 1 ->
    sumz t_pend (thr g) = t_pend tn /\ sumz t_ntok (thr g) = t_ntok tn /\
    sumz t_low (thr g) = t_low tn /\ sumz t_set (thr g) = t_set tn /\ vv 0 g = 0.
Proof.
  intros g n tn HI Ht Hhl. pose proof (i_lock g HI). pose proof (i_lock0 g HI).
  assert (t_hl tn <= sumz t_hl (thr g)) by (eapply sumz_ge_elem; eauto; intros; apply t_hl_01).
  repeat split; try lia; eapply (sumz_excl _ t_hl); eauto; try (intros; apply t_hl_01); try lia;
    intros x Hx; first [apply (t_excl x Hx) | apply (t_excl2 x Hx)].
Qed.

Lemma ack_facts : forall t, LI t -> at_ack t = true ->
    t_hl t = 1 /\ 1 <= t_low t /\ t_pend t = t_low t.
Proof.
  intros [[[c a0] a1] p r h sc rs f] (_ & _ & Hl).
  unfold at_ack, at_, t_hl, t_low, t_pend, cid in *. cbn [fin cur fst snd pc rg held] in *.
  destruct f; [cbn; discriminate|]. destruct Hl as [_ Hp].
  dn c 15%nat; dn p 28%nat; cbn in Hp |- *; try contradiction; try discriminate; intros _; lia.
Qed.

(* PROGRESS.  A notifier standing at its blocking acquire of the woken count is never
   alone: some thread (itself, a waiter at its acknowledgement, or a thread of the wait
   window that can take a token or time out) has an enabled step.  The handshake
   cannot deadlock. *)
Theorem ack_progress : forall g n tn, Inv g -> Live g ->
    nth_error (thr g) n = Some tn -> at_ack tn = true ->
    exists u, step code g u true <> None.
Proof.
  intros g n tn HI [HL _] Ht Hack.
  pose proof (i_li g HI tn (nth_error_In _ _ Ht)) as Hli.
  destruct (ack_facts tn Hli Hack) as (Hhl & Hlow & Hpe).
  destruct (hl_excl_sums g n tn HI Ht Hhl) as (Sp & _ & Sl & _ & _).
  destruct (i_shape g HI) as [_ H14]. destruct (H14 2%nat ltac:(lia)) as [Hr2 _].
  destruct (Z_lt_dec 0 (vv 2 g)) as [HW|HW].
  - (* the acknowledgement is there: the notifier itself steps *)
    exists n. unfold at_ack in Hack.
    apply orb_true_iff in Hack. destruct Hack as [Hack|Hack]; [apply orb_true_iff in Hack; destruct Hack as [Hack|Hack]|];
      destruct (at_code _ _ _ Hack) as [Hf Hc]; unfold vv in HW;
      (eapply acq_enabled; [exact Ht|exact Hf|rewrite Hc; reflexivity|exact Hr2|exact HW]).
  - pose proof (i_w0 g HI). assert (W0 : vv 2 g = 0) by lia.
    destruct (Z_lt_dec 0 (sumz t_a10 (thr g))) as [HA|HA].
    + (* a waiter stands at its acknowledgement *)
      destruct (sumz_pos_ex _ _ _ HA) as (u & t & Hu & Hpos). exists u.
      destruct (a10_cases t Hpos) as [H1|H1]; destruct (at_code _ _ _ H1) as [Hf Hc];
        (eapply rel_enabled; [exact Hu|exact Hf|rewrite Hc; reflexivity]).
    + (* a token is in the wait semaphore and somebody is in the window to take it *)
      assert (0 <= sumz t_a10 (thr g)) by (apply sumz_nonneg; intros; apply t_a10_01).
      assert (HT : 0 < vv 3 g) by lia.
      pose proof (i_count g HI) as Hc. pose proof (i_s0 g HI).
      assert (Hw : 0 < sumz t_win (thr g)) by lia.
      destruct (sumz_pos_ex _ _ _ Hw) as (u & t & Hu & Hpos). exists u.
      eapply win_enabled; eauto.
Qed.

Lemma at_lock_hl : forall t, LI t -> at_lock t = true -> t_hl t = 0.
Proof.
  intros [[[c a0] a1] p r h sc rs f] (_ & _ & Hl). unfold at_lock, at_, t_hl, cid in *.
  cbn [fin cur fst snd pc rg held] in *. destruct f; [reflexivity|]. destruct Hl as [_ Hp].
  dn c 15%nat; dn p 28%nat; cbn in Hp |- *; try contradiction; try discriminate; auto.
Qed.

Lemma sleeping_hl : forall t, sleeping t -> t_hl t = 0 /\ fin t = false /\ (cid t = 0%nat \/ cid t = 6%nat).
Proof.
  intros t [[H|H] _]; destruct (at_inv _ _ _ H) as (A & B & C); unfold t_hl; rewrite A, B, C; auto.
Qed.

Lemma user_hl : forall t, LI t -> (7 <= cid t)%nat -> t_hl t = 0.
Proof.
  intros [[[c a0] a1] p r h sc rs f] (_ & _ & Hl). unfold t_hl, cid in *.
  cbn [fin cur fst snd pc rg held] in *. destruct f; [reflexivity|]. destruct Hl as [_ Hp].
  dn c 15%nat; dn p 28%nat; cbn in Hp |- *; try contradiction; intros; try lia; auto.
Qed.

(* DEADLOCK CHARACTERISATION.  If no thread can step, the condition's lock is free, no
   notification is in progress (wait semaphore 0, sleeping - woken = sleepers), and every
   thread is finished, an untimed sleeper waiting for a notification nobody is going to
   send, or blocked in a user-level semaphore operation (ids 7..14). *)
Theorem stuck_sleepers : forall g, Inv g -> Live g -> stuck g ->
    vv 0 g = 1 /\ vv 3 g = 0 /\ vv 1 g - vv 2 g = sumz t_win (thr g) /\
    forall t, In t (thr g) -> fin t = true \/ sleeping t \/ (7 <= cid t)%nat.
Proof.
  intros g HI HL Hst.
  assert (Hcls : forall i t, nth_error (thr g) i = Some t -> fin t = false ->
                 (at_lock t = true /\ vv 0 g = 0) \/ (sleeping t /\ vv 3 g = 0) \/
                 (at_ack t = true /\ vv 2 g = 0) \/ (7 <= cid t)%nat).
  { intros i t Ht Hf. apply (blocked_class g i t HI Ht Hf); apply Hst. }
  assert (Hnoack : forall i t, nth_error (thr g) i = Some t -> at_ack t = true -> False).
  { intros i t Ht Ha. destruct (ack_progress g i t HI HL Ht Ha) as [u Hu]. apply Hu. apply Hst. }
  pose proof (i_lock g HI) as Ilock. pose proof (i_lock0 g HI) as Ilock0.
  assert (Hhl0 : 0 <= sumz t_hl (thr g)) by (apply sumz_nonneg; intros; apply t_hl_01).
  assert (HL1 : vv 0 g = 1).
  { destruct (Z.eq_dec (vv 0 g) 1) as [E|E]; [auto|exfalso].
    assert (Hp : 0 < sumz t_hl (thr g)) by lia.
    destruct (sumz_pos_ex _ _ _ Hp) as (i & t & Ht & Hpos).
    pose proof (i_li g HI t (nth_error_In _ _ Ht)) as Hli.
    assert (Hf : fin t = false) by (unfold t_hl in Hpos; destruct (fin t); [lia|auto]).
    destruct (Hcls i t Ht Hf) as [[A _]|[[A _]|[[A _]|A]]].
    - rewrite (at_lock_hl t Hli A) in Hpos. lia.
    - destruct (sleeping_hl t A) as [B _]. lia.
    - exact (Hnoack i t Ht A).
    - rewrite (user_hl t Hli A) in Hpos. lia. }
  pose proof (lock_free_quiet g HI HL1) as Hq.
  destruct (cond_counts g HI) as (_ & _ & Hc). destruct (Hc Hq) as [HT HSW].
  repeat split; auto.
  intros t Hin. destruct (fin t) eqn:Hf; [left; auto|right].
  apply In_nth_error in Hin. destruct Hin as [i Ht].
  destruct (Hcls i t Ht Hf) as [[_ A]|[[A _]|[[A _]|A]]]; [lia|left; auto| |right; auto].
  exfalso. exact (Hnoack i t Ht A).
Qed.

Lemma step_oob : forall g u go, (length (thr g) <= u)%nat -> step code g u go = None.
Proof.
  intros g u go H. unfold step. replace (nth_error (thr g) u) with (@None thread); [reflexivity|].
  symmetry. apply nth_error_None. auto.
Qed.

Lemma stuck_dec : forall g, stuck g \/ exists u go, step code g u go <> None.
Proof.
  intros g.
  assert (H : forall n, (forall u go, (u < n)%nat -> step code g u go = None) \/
                        exists u go, step code g u go <> None).
  { induction n as [|n IH]; [left; intros; lia|].
    destruct IH as [IH|IH]; [|right; auto].
    destruct (step code g n true) eqn:E1; [right; exists n, true; congruence|].
    destruct (step code g n false) eqn:E2; [right; exists n, false; congruence|].
    left. intros u go Hu. destruct (Nat.eq_dec u n) as [->|Hne]; [destruct go; auto|apply IH; lia]. }
  destruct (H (length (thr g))) as [A|A]; [left|right; auto].
  intros u go. destruct (Nat.lt_ge_cases u (length (thr g))); [apply A; auto|apply step_oob; auto].
Qed.

(* from every state a state without enabled threads is reached, whichever enabled thread is
   picked at each step (here: existence of one such schedule) *)
Theorem reaches_stuck : forall g, Inv g -> M g < 64 * SVM ->
    exists sched g2 es, run code g sched = (g2, es, true) /\ stuck g2.
Proof.
  intros g HI HM.
  assert (H : forall n g, Inv g -> M g < 64 * SVM -> M g <= Z.of_nat n ->
              exists sched g2 es, run code g sched = (g2, es, true) /\ stuck g2).
  { clear g HI HM. induction n as [|n IH]; intros g HI HM Hn.
    - destruct (stuck_dec g) as [S|(u & go & E)]; [exists [], g, []; auto|exfalso].
      destruct (step code g u go) as [[g1 e]|] eqn:Es; [|congruence].
      pose proof (small_of_M g HI HM) as Hsm.
      pose proof (M_step _ _ _ _ _ HI Hsm Es). pose proof (M_nonneg g1 (inv_step _ _ _ _ _ HI Hsm Es)). lia.
    - destruct (stuck_dec g) as [S|(u & go & E)]; [exists [], g, []; auto|].
      destruct (step code g u go) as [[g1 e]|] eqn:Es; [|congruence].
      pose proof (small_of_M g HI HM) as Hsm.
      pose proof (M_step _ _ _ _ _ HI Hsm Es) as Hd.
      destruct (IH g1 (inv_step _ _ _ _ _ HI Hsm Es) ltac:(lia) ltac:(lia)) as (sched & g2 & es & Hr & Hs).
      exists ((u, go) :: sched), g2, (e :: es). split; [|auto]. cbn [run]. rewrite Es, Hr. reflexivity. }
  apply (H (Z.to_nat (M g))); auto. pose proof (M_nonneg g HI). lia.
Qed.

(* ------------------------------------------------------------------ trace arguments *)
(* inside notify_all, or inside Event.set past its flag acquire: holding the lock *)
Definition in_nallx (t : thread) : bool :=
  negb (fin t) && ((Nat.eqb (cid t) 2 && Nat.leb 2 (pc t)) || (Nat.eqb (cid t) 4 && Nat.leb 2 (pc t))).
(* blocked on the wait semaphore (Condition.wait / the wait inside Event.wait) *)
Definition sleeping_at (t : thread) : bool := at_ t 0 9 || at_ t 6 13.
(* token taken, acknowledged, standing at the re-acquisition of the lock *)
Definition awake_at (t : thread) : bool := at_ t 0 13 || at_ t 6 17.

Lemma in_body_hl : forall t, LI t -> in_body t = true -> t_hl t = 1.
Proof.
  intros [[[c a0] a1] p r h sc rs f] (_ & _ & Hl). unfold t_hl, in_body, cid in *.
  cbn [fin cur fst snd pc rg held] in *. destruct f; [cbn; discriminate|].
  destruct Hl as [_ Hp]. dn c 15%nat; dn p 28%nat; cbn in Hp |- *; try contradiction; try discriminate; auto.
Qed.

Lemma in_body_cid : forall t, in_body t = true ->
    fin t = false /\ (cid t = 1 \/ cid t = 2 \/ cid t = 4)%nat.
Proof.
  intros t H. unfold in_body in H. destruct (fin t); [discriminate|]. split; [auto|].
  cbn [negb andb] in H.
  destruct (Nat.eqb (cid t) 1) eqn:E1; [apply Nat.eqb_eq in E1; auto|].
  destruct (Nat.eqb (cid t) 2) eqn:E2; [apply Nat.eqb_eq in E2; auto|].
  destruct (Nat.eqb (cid t) 4) eqn:E4; [apply Nat.eqb_eq in E4; auto|]. discriminate.
Qed.

Lemma in_wwx_facts : forall t, in_wwx t = true ->
    fin t = false /\ t_hl t = 0 /\ (cid t = 0 \/ cid t = 6)%nat /\ (t_win t = 0 -> awake_at t = true).
Proof.
  intros [[[c a0] a1] p r h sc rs f]. unfold in_wwx, awake_at, at_, t_hl, t_win, cid.
  cbn [fin cur fst snd pc]. destruct f; [cbn; discriminate|].
  dn c 7%nat; dn p 18%nat; cbn; intros; try discriminate; repeat split; auto; try lia.
Qed.

Lemma sleeping_at_facts : forall t, sleeping_at t = true ->
    in_wwx t = true /\ t_win t = 1 /\ ((cid t = 0 /\ pc t = 9) \/ (cid t = 6 /\ pc t = 13))%nat.
Proof.
  intros t H. unfold sleeping_at in H. apply orb_true_iff in H.
  destruct H as [H|H]; destruct (at_inv _ _ _ H) as (A & B & C);
    unfold in_wwx, t_win; rewrite A, B, C; cbn; auto.
Qed.

Lemma awake_pcs : forall t, awake_at t = true ->
    fin t = false /\ ((cid t = 0 /\ pc t = 13) \/ (cid t = 6 /\ pc t = 17))%nat.
Proof.
  intros t H. unfold awake_at in H. apply orb_true_iff in H.
  destruct H as [H|H]; destruct (at_inv _ _ _ H) as (A & B & C); auto.
Qed.

Lemma awake_pending : forall t, LI t -> at_ t 0 13 = true -> r0 (rg t) = 0 -> pending t = Some 1.
Proof.
  intros t (_ & _ & Hl) H Hr. destruct (at_inv _ _ _ H) as (A & B & C).
  unfold pending. rewrite A, B, C in *. cbn in Hl. unfold res2 in Hl.
  destruct Hl as (_ & _ & _ & _ & _ & Hp). rewrite (Hp Hr). reflexivity.
Qed.

Lemma cid_cur : forall t t', cur t' = cur t -> cid t' = cid t.
Proof. intros t t' H. unfold cid. rewrite H. reflexivity. Qed.

Lemma li_r0 : forall t t', LI t -> LI t' -> fin t = false -> fin t' = false -> cur t' = cur t ->
    r0 (rg t') = r0 (rg t).
Proof.
  intros t t' (_ & _ & A) (_ & _ & B) Hf Hf' Hc. rewrite Hf in A. rewrite Hf' in B.
  destruct A as [A _]. destruct B as [B _]. rewrite A, B, Hc. reflexivity.
Qed.

Section Wake.
(* thread n runs a notifier body, thread j is a waiter; [A] is the extra trace invariant of
   the particular notifier (nothing for notify_all / Event.set, the bookkeeping of the
   single sleeper for notify) *)
Variables (n j : nat) (tn tu : thread) (A : sys -> Prop).
Hypothesis Hnj : n <> j.
Hypothesis Hsl : sleeping_at tu = true.

(* both are still in the calls they were in *)
Definition base (g : sys) : Prop :=
  exists tn' tu', nth_error (thr g) n = Some tn' /\ nth_error (thr g) j = Some tu' /\
    results tn' = results tn /\ in_body tn' = true /\ cur tn' = cur tn /\
    results tu' = results tu /\ in_wwx tu' = true /\ cur tu' = cur tu.

Hypothesis A_step : forall g i go g' e, Inv g -> Live g -> small g -> base g -> A g ->
    step code g i go = Some (g', e) -> base g' -> A g'.
Hypothesis A_end : forall g tn' tu', Inv g -> Live g -> base g -> A g ->
    nth_error (thr g) n = Some tn' -> nth_error (thr g) j = Some tu' ->
    at_end tn' = true -> t_win tu' = 0.

Lemma base_step : forall g i go g' e, Inv g -> small g -> base g ->
    step code g i go = Some (g', e) -> results (thread_at g' n) = results tn -> base g'.
Proof.
  intros g i go g' e HI Hsm (tn' & tu' & Hn & Hj & Rn & Bn & Cn & Ru & Wu & Cu) Es Hres.
  destruct (step_thr _ _ _ _ _ Es) as (t & Ht & Hthr & Hnew).
  destruct (step_live g i go g' e t HI Hsm Ht Es) as (_ & _ & _ & _ & _ & (S1 & S2 & S3 & S4 & S5) & _).
  destruct (Nat.eq_dec i n) as [En|En]; [|destruct (Nat.eq_dec i j) as [Ej|Ej]].
  - subst i. assert (t = tn') by congruence. subst t.
    assert (Hr : results (thread_at g' n) = results tn') by congruence.
    destruct (S2 Hr) as (F & C & _).
    exists (thread_at g' n), tu'. split; [auto|]. split; [rewrite Hthr, nth_error_upd_other; auto|].
    repeat split; auto; congruence.
  - subst i. assert (t = tu') by congruence. subst t.
    assert (HL : vv 0 g = 0).
    { pose proof (in_body_hl tn' (i_li g HI tn' (nth_error_In _ _ Hn)) Bn) as Hh.
      destruct (hl_excl_sums g n tn' HI Hn Hh) as (_ & _ & _ & _ & L). exact L. }
    destruct (S5 Wu HL) as (W' & R'). destruct (S2 R') as (F & C & _).
    exists tn', (thread_at g' j). split; [rewrite Hthr, nth_error_upd_other; auto|]. split; [auto|].
    repeat split; auto; congruence.
  - exists tn', tu'. rewrite Hthr, !nth_error_upd_other by auto. repeat split; auto.
Qed.

(* ---- conditional form: as long as the notifier's call has not returned *)
Definition Q (g : sys) : Prop :=
  exists tn', nth_error (thr g) n = Some tn' /\ (length (results tn) <= length (results tn'))%nat /\
    (length (results tn') = length (results tn) -> base g /\ A g).

Lemma Q_step : forall g i go g' e, Inv g -> Live g -> small g -> Q g ->
    step code g i go = Some (g', e) -> Q g'.
Proof.
  intros g i go g' e HI HL Hsm (tn' & Hn & Hle & Himp) Es.
  destruct (step_thr _ _ _ _ _ Es) as (t & Ht & Hthr & Hnew).
  destruct (step_live g i go g' e t HI Hsm Ht Es) as (_ & _ & _ & _ & _ & (S1 & _) & _).
  destruct (Nat.eq_dec i n) as [En|En].
  - subst i. assert (t = tn') by congruence. subst t.
    exists (thread_at g' n). split; [auto|].
    destruct S1 as [S1|[v S1]]; rewrite S1.
    + split; [auto|]. intros Hl. destruct (Himp Hl) as [B HA].
      assert (Hr : results (thread_at g' n) = results tn).
      { destruct B as (tn'' & tu' & Hn' & _ & Rn & _). assert (tn'' = tn') by congruence. subst. congruence. }
      pose proof (base_step g n go g' e HI Hsm B Es Hr) as B'.
      split; [auto|]. eapply A_step; eauto.
    + cbn [length]. split; [lia|]. intros Hl. lia.
  - exists tn'. split; [rewrite Hthr, nth_error_upd_other; auto|]. split; [auto|].
    intros Hl. destruct (Himp Hl) as [B HA].
    assert (Hr : results (thread_at g' n) = results tn).
    { destruct B as (tn'' & tu' & Hn' & _ & Rn & _). assert (tn'' = tn') by congruence. subst.
      unfold thread_at. erewrite nth_error_nth; [eauto|]. rewrite Hthr, nth_error_upd_other; auto. }
    pose proof (base_step g i go g' e HI Hsm B Es Hr) as B'.
    split; [auto|]. eapply A_step; eauto.
Qed.

Lemma Q_run : forall sched g g' es ok, Inv g -> Live g -> run_small g sched ->
    run code g sched = (g', es, ok) -> Q g -> Q g'.
Proof.
  induction sched as [|[i go] sched IH]; intros g g' es ok HI HL Hs H HQ; cbn [run] in H.
  - inversion H; subst; auto.
  - cbn [run_small] in Hs. destruct Hs as [Hsm Hs].
    destruct (step code g i go) as [[g1 e]|] eqn:Es; [|inversion H; subst; auto].
    destruct (run code g1 sched) as [[gb es2] ok2] eqn:Er. inversion H; subst.
    apply (IH g1 g' es2 ok); auto; [eapply inv_step; eauto|eapply live_step; eauto|eapply Q_step; eauto].
Qed.

Theorem wake_trace_gen : forall sched g1 g2 es ok,
    Inv g1 -> Live g1 -> run_small g1 sched -> run code g1 sched = (g2, es, ok) ->
    nth_error (thr g1) n = Some tn -> base g1 -> A g1 ->
    at_end (thread_at g2 n) = true -> results (thread_at g2 n) = results tn ->
    Inv g2 /\ Live g2 /\ cur (thread_at g2 n) = cur tn /\ awake_at (thread_at g2 j) = true /\
    cur (thread_at g2 j) = cur tu /\ results (thread_at g2 j) = results tu.
Proof.
  intros sched g1 g2 es ok HI HL Hsm Hrun Hn HB HA Hend Hres.
  destruct (live_run sched g1 g2 es ok HI HL Hsm Hrun) as [HI2 HL2].
  assert (HQ1 : Q g1) by (exists tn; split; [auto|split; [auto|intros; auto]]).
  destruct (Q_run sched g1 g2 es ok HI HL Hsm Hrun HQ1) as (tn2 & Hn2 & _ & Himp).
  assert (En : thread_at g2 n = tn2) by (unfold thread_at; apply nth_error_nth; auto).
  rewrite En in *. destruct (Himp ltac:(rewrite Hres; reflexivity)) as [B HA2].
  pose proof B as (tn' & tu' & Hn' & Hj' & Rn & Bn & Cn & Ru & Wu & Cu).
  assert (tn' = tn2) by congruence. subst tn'.
  pose proof (A_end g2 tn2 tu' HI2 HL2 B HA2 Hn' Hj' Hend) as Hw.
  assert (Eu : thread_at g2 j = tu') by (unfold thread_at; apply nth_error_nth; auto).
  rewrite Eu. destruct (in_wwx_facts tu' Wu) as (_ & _ & _ & Haw). auto 10.
Qed.

(* ---- unconditional form: follow both threads until they have returned *)
Definition returned (t0 t : thread) : Prop := exists l v, results t = l ++ (cur t0, v) :: results t0.

Definition P3 (g : sys) : Prop :=
  exists tn' tu', nth_error (thr g) n = Some tn' /\ nth_error (thr g) j = Some tu' /\
    ((base g /\ A g) \/
     (returned tn tn' /\
      ((results tu' = results tu /\ fin tu' = false /\ cur tu' = cur tu /\ (pc tu < pc tu')%nat) \/
       returned tu tu'))).

Lemma returned_grow : forall t0 t t', returned t0 t ->
    (results t' = results t \/ exists v, results t' = (cur t, v) :: results t) -> returned t0 t'.
Proof.
  intros t0 t t' (l & v & H) [E|[w E]]; unfold returned; rewrite E, H; [exists l, v; auto|].
  exists ((cur t, w) :: l), v. reflexivity.
Qed.

Lemma P3_step : forall g i go g' e, Inv g -> Live g -> small g -> P3 g ->
    step code g i go = Some (g', e) -> P3 g'.
Proof.
  intros g i go g' e HI HL Hsm (tn' & tu' & Hn & Hj & HP) Es.
  destruct (step_thr _ _ _ _ _ Es) as (t & Ht & Hthr & Hnew).
  destruct (step_live g i go g' e t HI Hsm Ht Es) as (_ & _ & _ & _ & _ & (S1 & S2 & S3 & S4 & S5) & _).
  assert (Hother : forall k x, k <> i -> nth_error (thr g) k = Some x -> nth_error (thr g') k = Some x).
  { intros k x Hk Hx. rewrite Hthr, nth_error_upd_other; auto. }
  destruct HP as [[B HA]|[Rn HP]].
  - (* both still inside *)
    pose proof B as (tn'' & tu'' & Hn' & Hj' & Rn & Bn & Cn & Ru & Wu & Cu).
    assert (tn'' = tn') by congruence. assert (tu'' = tu') by congruence. subst tn'' tu''.
    destruct (Nat.eq_dec i n) as [En|En].
    + subst i. assert (t = tn') by congruence. subst t.
      exists (thread_at g' n), tu'. split; [auto|]. split; [apply Hother; auto|].
      destruct S1 as [S1|[v S1]].
      * left. assert (Hr : results (thread_at g' n) = results tn) by congruence.
        pose proof (base_step g n go g' e HI Hsm B Es Hr) as B'. split; [auto|]. eapply A_step; eauto.
      * right. split; [exists [], v; rewrite S1, Rn, Cn; reflexivity|]. left.
        destruct (S4 Bn) as [S4'|S4']; [rewrite S4' in S1; exfalso; eapply cons_neq; eauto|].
        pose proof (A_end g tn' tu' HI HL B HA Hn Hj S4') as Hw.
        destruct (in_wwx_facts tu' Wu) as (Fu & _ & _ & Haw).
        destruct (awake_pcs tu' (Haw Hw)) as (_ & Hpc).
        destruct (sleeping_at_facts tu Hsl) as (_ & _ & Hpu).
        pose proof (cid_cur tu tu' Cu) as Hcid.
        repeat split; auto. lia.
    + assert (Hn2 : nth_error (thr g') n = Some tn') by (apply Hother; auto).
      assert (Hr : results (thread_at g' n) = results tn).
      { unfold thread_at. erewrite nth_error_nth; eauto. }
      pose proof (base_step g i go g' e HI Hsm B Es Hr) as B'.
      pose proof B' as (ta & tb & Ha & Hb & _).
      exists ta, tb. split; [auto|]. split; [auto|]. left. split; [auto|]. eapply A_step; eauto.
  - (* the notifier has returned *)
    set (tn2 := if Nat.eq_dec i n then thread_at g' n else tn').
    set (tu2 := if Nat.eq_dec i j then thread_at g' j else tu').
    assert (Hn2 : nth_error (thr g') n = Some tn2).
    { unfold tn2. destruct (Nat.eq_dec i n); [subst; auto|apply Hother; auto]. }
    assert (Hj2 : nth_error (thr g') j = Some tu2).
    { unfold tu2. destruct (Nat.eq_dec i j); [subst; auto|apply Hother; auto]. }
    exists tn2, tu2. split; [auto|]. split; [auto|]. right. split.
    + unfold tn2. destruct (Nat.eq_dec i n); [|auto]. subst i. assert (t = tn') by congruence. subst t.
      eapply returned_grow; eauto.
    + unfold tu2. destruct (Nat.eq_dec i j) as [Ej|Ej]; [|auto]. subst i. assert (t = tu') by congruence. subst t.
      destruct HP as [(Ru & Fu & Cu & Hpc)|Ru]; [|right; eapply returned_grow; eauto].
      destruct S1 as [S1|[v S1]].
      * left. destruct (S2 S1) as (F' & C' & Hlt).
        destruct (sleeping_at_facts tu Hsl) as (_ & _ & Hpu).
        pose proof (cid_cur tu tu' Cu) as Hcid.
        assert (pc tu' < pc (thread_at g' j))%nat by (apply Hlt; lia).
        repeat split; auto; try congruence. lia.
      * right. exists [], v. rewrite S1, Ru, Cu. reflexivity.
Qed.

Lemma P3_run : forall sched g g' es ok, Inv g -> Live g -> run_small g sched ->
    run code g sched = (g', es, ok) -> P3 g -> P3 g'.
Proof.
  induction sched as [|[i go] sched IH]; intros g g' es ok HI HL Hs H HQ; cbn [run] in H.
  - inversion H; subst; auto.
  - cbn [run_small] in Hs. destruct Hs as [Hsm Hs].
    destruct (step code g i go) as [[g1 e]|] eqn:Es; [|inversion H; subst; auto].
    destruct (run code g1 sched) as [[gb es2] ok2] eqn:Er. inversion H; subst.
    apply (IH g1 g' es2 ok); auto; [eapply inv_step; eauto|eapply live_step; eauto|eapply P3_step; eauto].
Qed.

Theorem wake_uncond_gen : forall sched g1 g2 es ok,
    Inv g1 -> Live g1 -> run_small g1 sched -> run code g1 sched = (g2, es, ok) ->
    base g1 -> A g1 -> stuck g2 ->
    Inv g2 /\ returned tn (thread_at g2 n) /\ returned tu (thread_at g2 j).
Proof.
  intros sched g1 g2 es ok HI HL Hsm Hrun HB HA Hst.
  destruct (live_run sched g1 g2 es ok HI HL Hsm Hrun) as [HI2 HL2].
  assert (HP1 : P3 g1).
  { pose proof HB as (tn' & tu' & Hn & Hj & _). exists tn', tu'. auto. }
  destruct (P3_run sched g1 g2 es ok HI HL Hsm Hrun HP1) as (tn2 & tu2 & Hn2 & Hj2 & HP).
  destruct (stuck_sleepers g2 HI2 HL2 Hst) as (_ & _ & _ & Hall).
  assert (En : thread_at g2 n = tn2) by (unfold thread_at; apply nth_error_nth; auto).
  assert (Eu : thread_at g2 j = tu2) by (unfold thread_at; apply nth_error_nth; auto).
  rewrite En, Eu. split; [auto|].
  destruct HP as [[B _]|[Rn HP]].
  - exfalso. destruct B as (tn' & tu' & Hn' & _ & _ & Bn & _).
    assert (tn' = tn2) by congruence. subst tn'.
    destruct (in_body_cid tn2 Bn) as (Fn & Hc).
    destruct (Hall tn2 (nth_error_In _ _ Hn2)) as [F|[S|U]]; [congruence| |lia].
    destruct (sleeping_hl tn2 S) as (_ & _ & Hc'). lia.
  - split; [auto|]. destruct HP as [(Ru & Fu & Cu & Hpc)|Ru]; [exfalso|auto].
    destruct (sleeping_at_facts tu Hsl) as (_ & _ & Hpu).
    pose proof (cid_cur tu tu2 Cu) as Hcid.
    destruct (Hall tu2 (nth_error_In _ _ Hj2)) as [F|[[[S|S] _]|U]]; [congruence| | |lia];
      destruct (at_inv _ _ _ S) as (_ & Sc & Sp); lia.
Qed.

End Wake.

